// Package hterm parses and evaluates the symbolic hash terms that the TLA+
// specifications under /verif/spec use in place of hashes.
//
// In the specifications a hash is the text of its pre-image, so that Merkle
// roots, proofs and multiproofs are terms which TLC can build, compare and
// print. The harness turns a term back into a real hash by evaluating it with
// the real primitives. The term language is
//
//	term  ::=  "N(" term "," term ")"      interior node: blake2b.SumPair(l, r)
//	        |  "R(" uint "," uint ")"      compact form, see below
//	        |  token                       leaf: resolved by the caller
//
// A token is any non-empty run of characters other than '(' ')' ',' and white
// space, for example the accumulator leaves "L<id>v<ver>@<idx><s|u>" of
// spec/acc/Accumulator.tla (element <id> in its <ver>-th version at leaf index
// <idx>, spent or unspent) or the sector leaves "l<i>" of the RHP specs. What a
// token means is the business of the check: it supplies a callback that maps
// the token to the real leaf hash (for C05: VerifLeaf.Hash() of the real
// element with the real leaf index and spent flag).
//
// Compact form. Trees too large to print (chains of thousands of leaves,
// 65 536-leaf sectors) are written R(i,j): "the root of leaves i..j-1 as
// defined by the specification's definition layer". R(i,j) is resolved through
// a second callback, func(i, j uint64) types.Hash256. For the usual definition
//
//	Root(i, i+1) = leaf i
//	Root(i, j)   = N(Root(i, m), Root(m, j))
//
// this package provides the resolvers PerfectRoots (m = (i+j)/2; j-i must be a
// power of two and i a multiple of it -- Accumulator!RootOf) and SplitRoots
// (m = i + the largest power of two below j-i -- RHPMerkle!Root, which
// coincides with the former on perfect ranges). Both are memoised over (i,j),
// so a forest of n leaves costs at most n-1 node hashes however many roots and
// sibling paths are read from it. Expand turns R(i,j) back into the N-form
// over leaf tokens; checks use it to cross-check the compact evaluator against
// fully expanded terms printed by TLC.
//
// Evaluation is memoised on the text of the subterm: the proofs of one
// accumulator state share almost all of their subtrees.
package hterm

import (
	"fmt"
	"math/bits"
	"strconv"
	"strings"

	"go.sia.tech/core/blake2b"
	"go.sia.tech/core/types"
)

// Kind discriminates the three forms of a term.
type Kind uint8

// The forms of a term.
const (
	KLeaf  Kind = iota // token
	KNode              // N(l,r)
	KRange             // R(i,j)
)

// A Term is a parsed hash term.
type Term struct {
	Kind Kind
	Tok  string // KLeaf: the token
	L, R *Term  // KNode: children
	I, J uint64 // KRange: leaves I..J-1
	text string // canonical text (no white space)
}

// String returns the canonical text of the term.
func (t *Term) String() string { return t.text }

// Leaf builds a leaf term.
func Leaf(tok string) *Term { return &Term{Kind: KLeaf, Tok: tok, text: tok} }

// Node builds N(l,r).
func Node(l, r *Term) *Term {
	return &Term{Kind: KNode, L: l, R: r, text: "N(" + l.text + "," + r.text + ")"}
}

// Range builds R(i,j).
func Range(i, j uint64) *Term {
	return &Term{Kind: KRange, I: i, J: j, text: "R(" + strconv.FormatUint(i, 10) + "," + strconv.FormatUint(j, 10) + ")"}
}

// Size returns the number of leaves and ranges in the term.
func (t *Term) Size() int {
	if t.Kind == KNode {
		return t.L.Size() + t.R.Size()
	}
	return 1
}

// Height returns the height of the term seen as a tree (a leaf or range has height 0).
func (t *Term) Height() int {
	if t.Kind != KNode {
		return 0
	}
	return 1 + max(t.L.Height(), t.R.Height())
}

// Leaves appends the leaf tokens of the term, left to right.
func (t *Term) Leaves(dst []string) []string {
	switch t.Kind {
	case KNode:
		return t.R.Leaves(t.L.Leaves(dst))
	case KLeaf:
		return append(dst, t.Tok)
	}
	return dst
}

type parser struct {
	s   string
	pos int
}

func (p *parser) ws() {
	for p.pos < len(p.s) && (p.s[p.pos] == ' ' || p.s[p.pos] == '\t' || p.s[p.pos] == '\n' || p.s[p.pos] == '\r') {
		p.pos++
	}
}

func (p *parser) expect(c byte) error {
	p.ws()
	if p.pos >= len(p.s) || p.s[p.pos] != c {
		return fmt.Errorf("hterm: expected %q at offset %d of %q", c, p.pos, clip(p.s))
	}
	p.pos++
	return nil
}

func clip(s string) string {
	if len(s) > 120 {
		return s[:120] + "…"
	}
	return s
}

func (p *parser) uint() (uint64, error) {
	p.ws()
	start := p.pos
	for p.pos < len(p.s) && p.s[p.pos] >= '0' && p.s[p.pos] <= '9' {
		p.pos++
	}
	v, err := strconv.ParseUint(p.s[start:p.pos], 10, 64)
	if err != nil {
		return 0, fmt.Errorf("hterm: expected a number at offset %d of %q", start, clip(p.s))
	}
	return v, nil
}

func (p *parser) term(depth int) (*Term, error) {
	if depth > 256 {
		return nil, fmt.Errorf("hterm: term nested deeper than 256")
	}
	p.ws()
	start := p.pos
	for p.pos < len(p.s) {
		c := p.s[p.pos]
		if c == '(' || c == ')' || c == ',' || c == ' ' || c == '\t' || c == '\n' || c == '\r' {
			break
		}
		p.pos++
	}
	tok := p.s[start:p.pos]
	if tok == "" {
		return nil, fmt.Errorf("hterm: empty token at offset %d of %q", start, clip(p.s))
	}
	p.ws()
	if p.pos >= len(p.s) || p.s[p.pos] != '(' {
		return Leaf(tok), nil
	}
	p.pos++ // (
	switch tok {
	case "N":
		l, err := p.term(depth + 1)
		if err != nil {
			return nil, err
		}
		if err := p.expect(','); err != nil {
			return nil, err
		}
		r, err := p.term(depth + 1)
		if err != nil {
			return nil, err
		}
		if err := p.expect(')'); err != nil {
			return nil, err
		}
		return Node(l, r), nil
	case "R":
		i, err := p.uint()
		if err != nil {
			return nil, err
		}
		if err := p.expect(','); err != nil {
			return nil, err
		}
		j, err := p.uint()
		if err != nil {
			return nil, err
		}
		if err := p.expect(')'); err != nil {
			return nil, err
		}
		if j <= i {
			return nil, fmt.Errorf("hterm: empty range R(%d,%d)", i, j)
		}
		return Range(i, j), nil
	}
	return nil, fmt.Errorf("hterm: unknown constructor %q at offset %d of %q", tok, start, clip(p.s))
}

// Parse parses one term; the whole string must be consumed.
func Parse(s string) (*Term, error) {
	p := &parser{s: s}
	t, err := p.term(0)
	if err != nil {
		return nil, err
	}
	p.ws()
	if p.pos != len(p.s) {
		return nil, fmt.Errorf("hterm: trailing text at offset %d of %q", p.pos, clip(s))
	}
	return t, nil
}

// MustParse is Parse that panics on a malformed term.
func MustParse(s string) *Term {
	t, err := Parse(s)
	if err != nil {
		panic(err)
	}
	return t
}

// An Evaluator evaluates terms with the real node hash, memoising on subterm text.
type Evaluator struct {
	// LeafHash resolves a leaf token.
	LeafHash func(tok string) types.Hash256
	// RangeRoot resolves R(i,j). If nil, R(i,j) is handed to LeafHash as the token "R(i,j)".
	RangeRoot func(i, j uint64) types.Hash256
	// Nodes counts the node hashes computed so far (SumPair calls).
	Nodes int
	memo  map[string]types.Hash256
}

// NewEvaluator returns an evaluator with an empty memo.
func NewEvaluator(leaf func(tok string) types.Hash256, rangeRoot func(i, j uint64) types.Hash256) *Evaluator {
	return &Evaluator{LeafHash: leaf, RangeRoot: rangeRoot, memo: map[string]types.Hash256{}}
}

// Eval evaluates t.
func (e *Evaluator) Eval(t *Term) types.Hash256 {
	if e.memo == nil {
		e.memo = map[string]types.Hash256{}
	}
	if h, ok := e.memo[t.text]; ok {
		return h
	}
	var h types.Hash256
	switch t.Kind {
	case KLeaf:
		h = e.LeafHash(t.Tok)
	case KNode:
		h = blake2b.SumPair(e.Eval(t.L), e.Eval(t.R))
		e.Nodes++
	case KRange:
		if e.RangeRoot != nil {
			h = e.RangeRoot(t.I, t.J)
		} else {
			h = e.LeafHash(t.text)
		}
	}
	e.memo[t.text] = h
	return h
}

// EvalString parses and evaluates s.
func (e *Evaluator) EvalString(s string) (types.Hash256, error) {
	t, err := Parse(s)
	if err != nil {
		return types.Hash256{}, err
	}
	return e.Eval(t), nil
}

// Eval evaluates t with a fresh memo; leaf resolves leaf tokens (and "R(i,j)" texts, if any occur).
func Eval(t *Term, leaf func(tok string) types.Hash256) types.Hash256 {
	return NewEvaluator(leaf, nil).Eval(t)
}

// A Roots resolves R(i,j) over a fixed sequence of leaf hashes by the
// recursive definition of the specifications, memoised over (i,j).
type Roots struct {
	leaf    func(i uint64) types.Hash256
	perfect bool
	memo    map[[2]uint64]types.Hash256
	// Nodes counts the node hashes computed so far.
	Nodes int
}

// PerfectRoots resolves R(i,j) for perfect, aligned ranges only (j-i a power of
// two, i a multiple of j-i): Accumulator!RootOf. Any other range panics.
func PerfectRoots(leaf func(i uint64) types.Hash256) *Roots {
	return &Roots{leaf: leaf, perfect: true, memo: map[[2]uint64]types.Hash256{}}
}

// SplitRoots resolves R(i,j) for any non-empty range, splitting at the largest
// power of two below j-i: RHPMerkle!Root.
func SplitRoots(leaf func(i uint64) types.Hash256) *Roots {
	return &Roots{leaf: leaf, memo: map[[2]uint64]types.Hash256{}}
}

func split(i, j uint64) uint64 { return i + 1<<(bits.Len64(j-i-1)-1) }

// Root returns the root of leaves i..j-1.
func (r *Roots) Root(i, j uint64) types.Hash256 {
	if j <= i {
		panic(fmt.Sprintf("hterm: empty range R(%d,%d)", i, j))
	}
	if r.perfect && ((j-i)&(j-i-1) != 0 || i%(j-i) != 0) {
		panic(fmt.Sprintf("hterm: R(%d,%d) is not a perfect aligned subtree", i, j))
	}
	if j-i == 1 {
		return r.leaf(i)
	}
	k := [2]uint64{i, j}
	if h, ok := r.memo[k]; ok {
		return h
	}
	m := split(i, j)
	h := blake2b.SumPair(r.Root(i, m), r.Root(m, j))
	r.Nodes++
	r.memo[k] = h
	return h
}

// Expand rewrites every R(i,j) in t into the N-form over the leaf tokens tok(i),
// splitting as SplitRoots does (which is the perfect split on perfect ranges).
func Expand(t *Term, tok func(i uint64) string) *Term {
	switch t.Kind {
	case KNode:
		return Node(Expand(t.L, tok), Expand(t.R, tok))
	case KRange:
		var ex func(i, j uint64) *Term
		ex = func(i, j uint64) *Term {
			if j-i == 1 {
				return Leaf(tok(i))
			}
			m := split(i, j)
			return Node(ex(i, m), ex(m, j))
		}
		return ex(t.I, t.J)
	}
	return t
}

// ParseList parses a list of terms (a proof).
func ParseList(ss []string) ([]*Term, error) {
	out := make([]*Term, len(ss))
	for i, s := range ss {
		t, err := Parse(s)
		if err != nil {
			return nil, err
		}
		out[i] = t
	}
	return out, nil
}

// Join renders a list of terms for diagnostics.
func Join(ts []*Term) string {
	ss := make([]string, len(ts))
	for i, t := range ts {
		ss[i] = t.String()
	}
	return "[" + strings.Join(ss, " ") + "]"
}
