package hterm

import (
	"fmt"
	"testing"

	"go.sia.tech/core/blake2b"
	"go.sia.tech/core/types"
)

func leafHash(tok string) types.Hash256 { return types.HashBytes([]byte(tok)) }

func TestParseEval(t *testing.T) {
	tm := MustParse(" N( N(L0v0@0u , L1v2@1s), R(2,4) ) ")
	if tm.String() != "N(N(L0v0@0u,L1v2@1s),R(2,4))" {
		t.Fatalf("canonical text: %s", tm)
	}
	if tm.Size() != 3 || tm.Height() != 2 {
		t.Fatalf("size %d height %d", tm.Size(), tm.Height())
	}
	toks := []string{"L0v0@0u", "L1v2@1s", "l2", "l3"}
	roots := PerfectRoots(func(i uint64) types.Hash256 { return leafHash(toks[i]) })
	ev := NewEvaluator(leafHash, roots.Root)
	want := blake2b.SumPair(blake2b.SumPair(leafHash(toks[0]), leafHash(toks[1])), blake2b.SumPair(leafHash(toks[2]), leafHash(toks[3])))
	if got := ev.Eval(tm); got != want {
		t.Fatalf("eval: %v != %v", got, want)
	}
	// the expansion of the compact form evaluates to the same hash, and re-parses to itself
	ex := Expand(tm, func(i uint64) string { return toks[i] })
	if ex.String() != "N(N(L0v0@0u,L1v2@1s),N(l2,l3))" {
		t.Fatalf("expand: %s", ex)
	}
	if Eval(ex, leafHash) != want || MustParse(ex.String()).String() != ex.String() {
		t.Fatal("expanded term differs")
	}
	// memo: evaluating again computes no further node
	n := ev.Nodes
	ev.Eval(MustParse(tm.String()))
	if ev.Nodes != n {
		t.Fatal("memo not used")
	}
}

func TestRoots(t *testing.T) {
	for n := uint64(1); n <= 33; n++ {
		leaf := func(i uint64) types.Hash256 { return leafHash(fmt.Sprint("l", i)) }
		var naive func(i, j uint64) types.Hash256
		naive = func(i, j uint64) types.Hash256 {
			if j-i == 1 {
				return leaf(i)
			}
			p := uint64(1) // largest power of two below j-i
			for p*2 < j-i {
				p *= 2
			}
			return blake2b.SumPair(naive(i, i+p), naive(i+p, j))
		}
		r := SplitRoots(leaf)
		if r.Root(0, n) != naive(0, n) {
			t.Fatalf("SplitRoots n=%d", n)
		}
		if r.Nodes != int(n-1) {
			t.Fatalf("n=%d: %d node hashes", n, r.Nodes)
		}
		tm := Expand(Range(0, n), func(i uint64) string { return fmt.Sprint("l", i) })
		if Eval(tm, leafHash) != r.Root(0, n) || tm.Size() != int(n) {
			t.Fatalf("Expand n=%d", n)
		}
	}
	defer func() {
		if recover() == nil {
			t.Fatal("PerfectRoots accepted an imperfect range")
		}
	}()
	PerfectRoots(func(uint64) types.Hash256 { return types.Hash256{} }).Root(1, 3)
}

func TestParseErrors(t *testing.T) {
	for _, s := range []string{"", "N(a)", "N(a,b", "N(a,b))", "X(a,b)", "R(3,3)", "R(a,1)", "a b", "N(,b)", "(a)"} {
		if _, err := Parse(s); err == nil {
			t.Errorf("%q accepted", s)
		}
	}
	for _, s := range []string{"N", "R", "l5", "N(N,R)"} {
		if _, err := Parse(s); err != nil {
			t.Errorf("%q rejected: %v", s, err)
		}
	}
}
