package chain

import (
	"crypto/sha256"
	"encoding/json"
	"fmt"
	"strings"

	"go.sia.tech/core/consensus"
	"go.sia.tech/core/types"
	"verif/harness/vlib"
)

// A Mismatch is a disagreement between the specification's prediction and the real code.
type Mismatch struct {
	Kind   string `json:"kind"` // accepted-invalid | rejected-valid | post | panic | control-rejected
	Step   int    `json:"step"`
	Tag    string `json:"tag"` // tag of the defective transaction, or of the last transaction
	Detail string `json:"detail"`
}

// Behaviour is one TLC-generated behaviour of Ledger.
type Behaviour struct {
	Steps []Step
	Hash  string
}

// ParseBehaviours extracts the behaviours printed behind the "BEH " sentinel.
func ParseBehaviours(lines []string) ([]Behaviour, error) {
	var out []Behaviour
	seen := map[string]bool{}
	for _, ln := range lines {
		if !strings.HasPrefix(ln, "BEH ") {
			continue
		}
		js := vlib.UnquoteTLA(strings.TrimPrefix(ln, "BEH "))
		sum := sha256.Sum256([]byte(js))
		h := fmt.Sprintf("%x", sum[:8])
		if seen[h] {
			continue
		}
		seen[h] = true
		var steps []Step
		if err := json.Unmarshal([]byte(js), &steps); err != nil {
			return nil, fmt.Errorf("behaviour does not parse: %v: %.300s", err, js)
		}
		out = append(out, Behaviour{Steps: steps, Hash: h})
	}
	return out, nil
}

// StepResult describes what happened when a step ran on the real code.
type StepResult struct {
	Mismatches []Mismatch
	Block      *types.Block
	Supp       consensus.V1BlockSupplement
	Accepted   bool
	Err        error
}

// RunStep executes one abstract step on the real chain. infra != nil means the harness could not
// concretise the step (never a verdict about the code).
func (s *Sim) RunStep(i int, st Step) (res StepResult, infra error) {
	switch st.Op {
	case "revert":
		if len(s.Chain) == 0 {
			return res, fmt.Errorf("revert below genesis")
		}
		var pan any
		func() {
			defer func() { pan = recover() }()
			s.Revert()
		}()
		if pan != nil {
			res.Mismatches = append(res.Mismatches, Mismatch{"panic", i, "revert", fmt.Sprint(pan)})
			return res, nil
		}
		if st.Post != nil && !st.Post.None {
			for _, d := range s.Compare(st.Post) {
				res.Mismatches = append(res.Mismatches, Mismatch{"post", i, "revert", d})
			}
		}
		return res, nil
	case "block":
		ctx := s.NewBlockCtx()
		lastTag := ""
		for _, t := range st.Txs {
			if err := ctx.Add(t); err != nil {
				return res, fmt.Errorf("step %d (%s): %w", i, t.Tag, err)
			}
			lastTag = t.Tag
		}
		bs := s.Supplement(ctx.V1)
		b := s.Seal(ctx.V1, ctx.V2)
		if st.BDefect != "" {
			lastTag = "block!" + st.BDefect
			b = s.spoilPayout(b, st.BDefect)
		}
		res.Block, res.Supp = &b, bs
		before := blockFingerprint(b, bs)
		err, pan := s.Validate(b, bs)
		if pan != nil {
			res.Mismatches = append(res.Mismatches, Mismatch{"panic", i, lastTag, fmt.Sprint(pan)})
			return res, nil
		}
		if after := blockFingerprint(b, bs); after != before {
			// validation wrote into the caller's block or supplement: what is applied, reverted and re-applied afterwards is
			// no longer the block that was validated
			res.Mismatches = append(res.Mismatches, Mismatch{"input-modified", i, lastTag, "ValidateBlock changed the block or supplement it was given (" + before + " -> " + after + ")"})
		}
		res.Err = err
		res.Accepted = err == nil
		switch {
		case st.Verdict == "accept" && err != nil:
			res.Mismatches = append(res.Mismatches, Mismatch{"rejected-valid", i, lastTag, err.Error()})
		case st.Verdict == "reject" && err == nil:
			res.Mismatches = append(res.Mismatches, Mismatch{"accepted-invalid", i, lastTag, "block with defective transaction accepted"})
		case st.Verdict == "reject" && st.BDefect != "":
			// attribution: the same block with the correct miner payout must be valid
			if cerr, cpan := s.Validate(s.Seal(ctx.V1, ctx.V2), bs); cerr != nil || cpan != nil {
				res.Mismatches = append(res.Mismatches, Mismatch{"control-rejected", i, lastTag, fmt.Sprint(cerr, cpan)})
			}
		case st.Verdict == "reject":
			// attribution: the same block without the defective (last) transaction must be valid
			ctl := s.NewBlockCtx()
			ok := true
			for _, t := range st.Txs[:len(st.Txs)-1] {
				if e := ctl.Add(t); e != nil {
					ok = false
				}
			}
			if ok {
				cb := s.Seal(ctl.V1, ctl.V2)
				if cerr, cpan := s.Validate(cb, s.Supplement(ctl.V1)); cerr != nil || cpan != nil {
					res.Mismatches = append(res.Mismatches, Mismatch{"control-rejected", i, lastTag, fmt.Sprint(cerr, cpan)})
				}
			}
		}
		if st.Verdict == "accept" && err == nil {
			var apan any
			func() {
				defer func() { apan = recover() }()
				ctx.Commit()
				s.Apply(b, bs)
			}()
			if apan != nil {
				res.Mismatches = append(res.Mismatches, Mismatch{"panic", i, lastTag, "apply: " + fmt.Sprint(apan)})
				return res, nil
			}
			if st.Post != nil && !st.Post.None {
				for _, d := range s.Compare(st.Post) {
					res.Mismatches = append(res.Mismatches, Mismatch{"post", i, lastTag, d})
				}
			}
		}
		return res, nil
	}
	return res, fmt.Errorf("unknown op %q", st.Op)
}

// ParamsFromConsts builds Params from the constants used in a Ledger configuration.
func ParamsFromConsts(matDelay, allowH, requireH, ephH, foundH, reward uint64, gsc, gsf []AbsOut) Params {
	return Params{MatDelay: matDelay, AllowH: allowH, RequireH: requireH, EphH: ephH, FoundH: foundH, Reward: reward, GenSC: gsc, GenSF: gsf}
}

// spoilPayout applies a block-level payout defect and seals the block again.
func (s *Sim) spoilPayout(b types.Block, kind string) types.Block {
	b.MinerPayouts = append([]types.SiacoinOutput(nil), b.MinerPayouts...)
	one := types.NewCurrency64(1)
	switch kind {
	case "payout+1":
		b.MinerPayouts[0].Value = b.MinerPayouts[0].Value.Add(one)
	case "payout-1":
		b.MinerPayouts[0].Value = b.MinerPayouts[0].Value.Sub(one)
	case "payout-nov1fees", "payout-nov2fees":
		var fees types.Currency
		if kind == "payout-nov1fees" {
			for _, txn := range b.Transactions {
				for _, f := range txn.MinerFees {
					fees = fees.Add(f)
				}
			}
		} else {
			for _, txn := range b.V2Transactions() {
				fees = fees.Add(txn.MinerFee)
			}
		}
		b.MinerPayouts[0].Value = b.MinerPayouts[0].Value.Sub(fees)
	case "payout-wrap-early", "payout-wrap-mid", "payout-wrap-last":
		// two outputs of 2^127 beside the honest payout(s): the 128-bit sum wraps to the honest amount
		half := types.NewCurrency(0, 1<<63)
		addr := b.MinerPayouts[0].Address
		h1, h2 := types.SiacoinOutput{Value: half, Address: addr}, types.SiacoinOutput{Value: half, Address: addr}
		honest := b.MinerPayouts[0]
		switch kind {
		case "payout-wrap-early": // the wrap happens in the second of four additions
			b.MinerPayouts = []types.SiacoinOutput{h1, h2, {Value: honest.Value.Sub(one), Address: addr}, {Value: one, Address: addr}}
		case "payout-wrap-mid": // ... in the second of three
			b.MinerPayouts = []types.SiacoinOutput{h1, h2, honest}
		default: // ... in the last
			b.MinerPayouts = []types.SiacoinOutput{honest, h1, h2}
		}
	case "payout-split":
		v := b.MinerPayouts[0].Value
		b.MinerPayouts[0].Value = v.Sub(one)
		b.MinerPayouts = append(b.MinerPayouts, types.SiacoinOutput{Value: one, Address: b.MinerPayouts[0].Address})
	}
	b.Nonce = 0
	for b.ID().CmpWork(s.CS.PoWTarget()) < 0 {
		b.Nonce += s.CS.NonceFactor()
	}
	return b
}

// blockFingerprint identifies the content of a block and its supplement (ids of the block and of every transaction,
// ids and leaf positions of the supplement's elements).
func blockFingerprint(b types.Block, bs consensus.V1BlockSupplement) string {
	h := types.NewHasher()
	b.ID().EncodeTo(h.E)
	for _, t := range b.Transactions {
		t.FullHash().EncodeTo(h.E)
	}
	for _, t := range b.V2Transactions() {
		t.FullHash().EncodeTo(h.E)
	}
	bs.EncodeTo(h.E)
	sum := h.Sum()
	return fmt.Sprintf("%x", sum[:6])
}
