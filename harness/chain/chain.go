// Package chain binds the Ledger specification (spec/ledger/Ledger.tla) to the real consensus
// code: it concretises abstract transactions into real, signed transactions and sealed blocks,
// keeps an element store that is fed only by the update diffs the real code reports, supplies
// the honest v1 block supplement, and projects the real state back to the abstract one.
package chain

import (
	"encoding/json"
	"fmt"
	"sort"
	"sync"
	"time"

	"go.sia.tech/core/consensus"
	"go.sia.tech/core/types"
)

// Identifier kinds of Ledger.tla.
const (
	SCO = 1 + iota
	SFO
	FC1
	FC2
	CLAIM
	VALID
	MISSED
	RENTER
	HOST
	MINER
	FOUND
)

// SID is a structural identifier <<kind, b, t, i, j>>.
type SID [5]int

func (s SID) String() string { return fmt.Sprint([5]int(s)) }

// Params are the abstract network parameters (constants of Ledger.tla).
type Params struct {
	MatDelay, AllowH, RequireH, EphH, FoundH uint64
	Reward                                   uint64
	GenSC, GenSF                             []AbsOut
	TaxForkH, ProofForkH                     uint64   // 0: post-fork rules from genesis
	DevH, DevLock                            uint64   // developer-address fork (0: none) and the time lock of the new address's unlock conditions
	Keyring                                  *Keyring `json:"-"` // optional: a keyring with custom addresses
}

// AbsOut is [val, addr].
type AbsOut struct {
	Val  uint64 `json:"val"`
	Addr string `json:"addr"`
}

// AbsIn is a siacoin input [id, auth].
type AbsIn struct {
	ID   SID    `json:"id"`
	Auth string `json:"auth"`
}

// AbsSfIn is a siafund input [id, claim, auth].
type AbsSfIn struct {
	ID    SID    `json:"id"`
	Claim string `json:"claim"`
	Auth  string `json:"auth"`
}

// AbsC1 is a v1 contract.
type AbsC1 struct {
	Pay   uint64   `json:"pay"`
	Vo    []AbsOut `json:"vo"`
	Mo    []AbsOut `json:"mo"`
	Ws    uint64   `json:"ws"`
	We    uint64   `json:"we"`
	Rn    uint64   `json:"rn"`
	Size  uint64   `json:"size"`
	Owner string   `json:"owner"`
}

// AbsC2 is a v2 contract.
type AbsC2 struct {
	R, H   uint64
	Ra, Ha string
	Mh     uint64
	Coll   uint64
	Ph, Eh uint64
	Rn     uint64
	Cap    uint64
	Size   uint64
	Rk, Hk string
	Auth   string
	Null   bool // the NULL placeholder
}

// AbsRev is a revision [cid, c, auth].
type AbsRev struct {
	Cid  SID             `json:"cid"`
	C    json.RawMessage `json:"c"`
	Auth string          `json:"auth"`
}

// AbsRen is a renewal record.
type AbsRen struct {
	Fr   uint64 `json:"fr"`
	Fh   uint64 `json:"fh"`
	Rr   uint64 `json:"rr"`
	Hr   uint64 `json:"hr"`
	Nc   AbsC2  `json:"nc"`
	Auth string `json:"auth"`
}

// AbsRes is a resolution / v1 storage proof.
type AbsRes struct {
	Cid  SID    `json:"cid"`
	Kind string `json:"kind"`
	Pf   string `json:"pf"`
	Ren  AbsRen `json:"ren"`
}

// AbsTx is the generic transaction of Ledger.tla.
type AbsTx struct {
	Ver   int               `json:"ver"`
	Sci   []AbsIn           `json:"sci"`
	Sco   []AbsOut          `json:"sco"`
	Sfi   []AbsSfIn         `json:"sfi"`
	Sfo   []AbsOut          `json:"sfo"`
	Fee   uint64            `json:"fee"`
	Fc    []json.RawMessage `json:"fc"`
	Rev   []AbsRev          `json:"rev"`
	Res   []AbsRes          `json:"res"`
	Fnd   string            `json:"fnd"`
	Fauth string            `json:"fauth"`
	Att   int               `json:"att"`
	Aauth string            `json:"aauth"`
	Tag   string            `json:"tag"`
	Slack int               `json:"slack"`
	Big   string            `json:"big"` // "sf" / "sc": the first two siafund (siacoin) outputs are 2^63 SF (2^127 H) larger than stated
}

// UnmarshalJSON accepts both a contract record and the NULL placeholder.
func (c *AbsC2) UnmarshalJSON(b []byte) error {
	var raw map[string]json.RawMessage
	if err := json.Unmarshal(b, &raw); err != nil {
		return err
	}
	if _, ok := raw["null"]; ok {
		c.Null = true
		return nil
	}
	u := func(k string) uint64 { var v uint64; json.Unmarshal(raw[k], &v); return v }
	s := func(k string) string { var v string; json.Unmarshal(raw[k], &v); return v }
	*c = AbsC2{R: u("r"), H: u("h"), Ra: s("ra"), Ha: s("ha"), Mh: u("mh"), Coll: u("coll"), Ph: u("ph"), Eh: u("eh"),
		Rn: u("rn"), Cap: u("cap"), Size: u("size"), Rk: s("rk"), Hk: s("hk"), Auth: s("auth")}
	return nil
}

// MarshalJSON writes the lower-case keys UnmarshalJSON reads (so that saved behaviours parse back).
func (c AbsC2) MarshalJSON() ([]byte, error) {
	if c.Null {
		return []byte(`{"null":true}`), nil
	}
	return json.Marshal(map[string]any{"r": c.R, "h": c.H, "ra": c.Ra, "ha": c.Ha, "mh": c.Mh, "coll": c.Coll, "ph": c.Ph, "eh": c.Eh,
		"rn": c.Rn, "cap": c.Cap, "size": c.Size, "rk": c.Rk, "hk": c.Hk, "auth": c.Auth})
}

// Post is the abstract committed state after a step.
type Post struct {
	None bool                  `json:"none"`
	H    uint64                `json:"h"`
	Pool uint64                `json:"pool"`
	Fnd  struct{ P, M string } `json:"fnd"`
	Att  uint64                `json:"att"`
	SC   [][]json.RawMessage   `json:"sc"` // <<id, val, addr, mat>>
	SF   [][]json.RawMessage   `json:"sf"` // <<id, val, addr, cs>>
	C1   [][]json.RawMessage   `json:"c1"` // <<id, contract>>
	C2   [][]json.RawMessage   `json:"c2"`
}

// Step is one step of a behaviour.
type Step struct {
	Op      string  `json:"op"`
	Verdict string  `json:"verdict"`
	Txs     []AbsTx `json:"txs"`
	Exp     []SID   `json:"exp"`
	Post    *Post   `json:"post"`
	BDefect string  `json:"bdefect"` // block-level defect: payout+1, payout-1, payout-split
}

// ---------------------------------------------------------------------------
// keys and addresses

// Keyring maps abstract address and key names to real key material.
type Keyring struct {
	sk    map[string]types.PrivateKey
	mu    sync.Mutex
	names map[types.Address]string
	// Custom lets a check name further addresses: a v2 policy, or v1 unlock conditions (which are also spendable
	// by v2 inputs that reveal them as a policy).
	Custom   map[string]types.SpendPolicy
	CustomUC map[string]types.UnlockConditions
}

// NewKeyring derives deterministic keys for the given names.
func NewKeyring() *Keyring {
	k := &Keyring{sk: map[string]types.PrivateKey{}, names: map[types.Address]string{}, Custom: map[string]types.SpendPolicy{}, CustomUC: map[string]types.UnlockConditions{}}
	for i, n := range []string{"A", "B", "C", "F", "M", "R", "H", "X", "Y", "Z", "D", "N"} {
		seed := make([]byte, 32)
		seed[0] = byte(i + 1)
		seed[31] = 0x5a
		k.sk[n] = types.NewPrivateKeyFromSeed(seed)
	}
	return k
}

// SK returns the private key of a name.
func (k *Keyring) SK(n string) types.PrivateKey {
	sk, ok := k.sk[keyName(n)]
	if !ok {
		panic("chain: unknown key " + n)
	}
	return sk
}

// PK returns the public key of a name.
func (k *Keyring) PK(n string) types.PublicKey { return k.SK(n).PublicKey() }

// Lock names: "T<h>" is owner A behind v1 unlock conditions with timelock h (spendable by v1 inputs and by v2
// inputs revealing the unlock-conditions policy); "P<h>" is the v2 policy thresh(2,[above(h), pk(A)]);
// "Q<t>" is thresh(2,[after(GenesisTime+t s), pk(A)]).
func lockOf(n string) (kind byte, v uint64, ok bool) {
	if len(n) < 2 || (n[0] != 'T' && n[0] != 'P' && n[0] != 'Q') {
		return 0, 0, false
	}
	for _, ch := range n[1:] {
		if ch < '0' || ch > '9' {
			return 0, 0, false
		}
		v = v*10 + uint64(ch-'0')
	}
	return n[0], v, true
}

// keyName is the name of the key that signs for an address name.
func keyName(n string) string {
	if _, _, ok := lockOf(n); ok {
		return "A"
	}
	return n
}

// UC returns the v1 unlock conditions of an address name.
func (k *Keyring) UC(n string) types.UnlockConditions {
	if uc, ok := k.CustomUC[n]; ok {
		return uc
	}
	if n == "Z" {
		return types.UnlockConditions{} // no keys, no signatures required: anyone can spend
	}
	if kind, v, ok := lockOf(n); ok && kind == 'T' {
		uc := types.StandardUnlockConditions(k.PK("A"))
		uc.Timelock = v
		return uc
	}
	return types.StandardUnlockConditions(k.PK(keyName(n)))
}

// Addr returns the address of a name ("V" is the void address). The address of an owner is the
// hash of its standard unlock conditions, so it can be spent by v1 inputs and by v2 inputs that
// reveal the unlock-conditions policy.
func (k *Keyring) Addr(n string) types.Address {
	if n == "V" {
		return types.VoidAddress
	}
	a := k.Policy(n).Address()
	k.mu.Lock()
	k.names[a] = n
	k.mu.Unlock()
	return a
}

// Policy returns the v2 spend policy of an address name.
func (k *Keyring) Policy(n string) types.SpendPolicy {
	if p, ok := k.Custom[n]; ok {
		return p
	}
	if kind, v, ok := lockOf(n); ok {
		switch kind {
		case 'P':
			return types.PolicyThreshold(2, []types.SpendPolicy{types.PolicyAbove(v), types.PolicyPublicKey(k.PK("A"))})
		case 'Q':
			return types.PolicyThreshold(2, []types.SpendPolicy{types.PolicyAfter(GenesisTime.Add(time.Duration(v) * time.Second)), types.PolicyPublicKey(k.PK("A"))})
		}
	}
	return types.SpendPolicy{Type: types.PolicyTypeUnlockConditions(k.UC(n))}
}

// NameOf is the inverse of Addr over the names used so far.
func (k *Keyring) NameOf(a types.Address) string {
	if a == types.VoidAddress {
		return "V"
	}
	k.mu.Lock()
	n, ok := k.names[a]
	k.mu.Unlock()
	if ok {
		return n
	}
	for n := range k.sk {
		if k.Policy(n).Address() == a {
			return n
		}
	}
	return "?" + a.String()[:8]
}

// ---------------------------------------------------------------------------
// network

// GenesisTime is the timestamp of the genesis block.
var GenesisTime = time.Unix(1_700_000_000, 0)

// Network builds the real network for abstract parameters.
func Network(p Params, k *Keyring) *consensus.Network {
	n := &consensus.Network{
		Name:            "verif",
		InitialCoinbase: types.NewCurrency64(p.Reward),
		MinimumCoinbase: types.NewCurrency64(p.Reward),
		InitialTarget:   types.BlockID{0xFF},
		BlockInterval:   10 * time.Minute,
		MaturityDelay:   p.MatDelay,
	}
	n.HardforkDevAddr.Height = 1 << 40
	if p.DevH > 0 {
		// outputs of the old developer address "D" become spendable with the (time-locked) conditions of key "N"
		uc := types.StandardUnlockConditions(k.PK("N"))
		uc.Timelock = p.DevLock
		k.mu.Lock()
		k.CustomUC["N"] = uc
		k.mu.Unlock()
		n.HardforkDevAddr.Height = p.DevH
		n.HardforkDevAddr.OldAddress = k.Addr("D")
		n.HardforkDevAddr.NewAddress = uc.UnlockHash()
	}
	n.HardforkTax.Height = p.TaxForkH
	n.HardforkStorageProof.Height = p.ProofForkH
	n.HardforkOak.Height = 1 << 40
	n.HardforkOak.FixHeight = 1 << 40
	n.HardforkOak.GenesisTimestamp = GenesisTime
	n.HardforkASIC.Height = 1 << 40
	n.HardforkASIC.NonceFactor = 1
	n.HardforkFoundation.Height = p.FoundH
	n.HardforkFoundation.PrimaryAddress = k.Addr("F")
	n.HardforkFoundation.FailsafeAddress = k.Addr("M")
	n.HardforkV2.AllowHeight = p.AllowH
	n.HardforkV2.RequireHeight = p.RequireH
	n.HardforkV2.FinalCutHeight = 1 << 40
	n.HardforkV2.EphemeralOutputHeight = p.EphH
	return n
}

// ---------------------------------------------------------------------------
// files and storage proofs (definitions of spec/merkle/StorageProof.tla evaluated over real bytes)

// FileData returns the deterministic contents of a contract file of the given size.
func FileData(size uint64) []byte {
	// no two 64-byte segments may coincide (a periodic file would make "the proof of another leaf" a valid proof)
	d := make([]byte, size)
	x := uint32(size)*2654435761 + 12345
	for i := range d {
		x = x*1103515245 + 12345
		d[i] = byte(x >> 16)
	}
	return d
}

// Leaves cuts data into 64-byte segments (the last one may be short).
func Leaves(data []byte) [][]byte {
	var out [][]byte
	for len(data) > 0 {
		n := 64
		if len(data) < n {
			n = len(data)
		}
		out = append(out, data[:n])
		data = data[n:]
	}
	return out
}

// PlainRoot is the root of the plain binary Merkle tree over leaf hashes (split at the largest
// power of two below the count).
func PlainRoot(hs []types.Hash256, pair func(l, r types.Hash256) types.Hash256) types.Hash256 {
	if len(hs) == 0 {
		return types.Hash256{}
	}
	if len(hs) == 1 {
		return hs[0]
	}
	k := 1
	for k*2 < len(hs) {
		k *= 2
	}
	return pair(PlainRoot(hs[:k], pair), PlainRoot(hs[k:], pair))
}

// PlainProof is the bottom-up sibling list of leaf i in the plain tree.
func PlainProof(hs []types.Hash256, i int, pair func(l, r types.Hash256) types.Hash256) []types.Hash256 {
	if len(hs) <= 1 {
		return nil
	}
	k := 1
	for k*2 < len(hs) {
		k *= 2
	}
	if i < k {
		return append(PlainProof(hs[:k], i, pair), PlainRoot(hs[k:], pair))
	}
	return append(PlainProof(hs[k:], i-k, pair), PlainRoot(hs[:k], pair))
}

// ---------------------------------------------------------------------------

func cur(v uint64) types.Currency { return types.NewCurrency64(v) }

func sortedKeys[K comparable, V any](m map[K]V, less func(a, b K) bool) []K {
	ks := make([]K, 0, len(m))
	for k := range m {
		ks = append(ks, k)
	}
	sort.Slice(ks, func(i, j int) bool { return less(ks[i], ks[j]) })
	return ks
}
