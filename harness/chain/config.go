package chain

import (
	"fmt"
	"sort"
	"strings"
)

// LedgerConfig is one configuration of spec/ledger/Ledger.tla; it renders both the TLC
// configuration (a wrapper module + cfg) and the matching real network parameters.
type LedgerConfig struct {
	P                              Params
	Addrs                          []string
	MaxHeight, MaxTxns, MaxReverts int
	Templates, Defects             []string
	PayAmts, Fees, Pay1, Sizes     []int
	RevShifts, SFSplits            []int
	WinStarts, WinLens             []int // default {0,1,2} / {1,2}
	FormRH                         [][2]int
	Invariants, Properties         []string
	View                           bool
	Focus                          bool
	NoPost                         bool // do not record post-states in the behaviours (verdict-only replay)
	EmitAll                        bool // exhaustive generation: print every behaviour that ends at the height bound or in a rejected block
	EmitDepth                      int  // > 0: print the behaviour when the trace reaches this length (generation)
}

func ints(xs []int) string {
	var s []string
	for _, x := range xs {
		s = append(s, fmt.Sprint(x))
	}
	return "{" + strings.Join(s, ", ") + "}"
}

func orDefault(xs, d []int) []int {
	if len(xs) == 0 {
		return d
	}
	return xs
}

func strs(xs []string) string {
	var s []string
	for _, x := range xs {
		s = append(s, fmt.Sprintf("%q", x))
	}
	sort.Strings(s)
	return "{" + strings.Join(s, ", ") + "}"
}

func outsTLA(os []AbsOut) string {
	var s []string
	for _, o := range os {
		s = append(s, fmt.Sprintf("[val |-> %d, addr |-> %q]", o.Val, o.Addr))
	}
	return "<<" + strings.Join(s, ", ") + ">>"
}

// Render returns the wrapper module name, its files and the cfg text.
func (c LedgerConfig) Render() (module string, files map[string][]byte, cfg string) {
	module = "LedgerRun"
	var rh []string
	for _, p := range c.FormRH {
		rh = append(rh, fmt.Sprintf("<<%d, %d>>", p[0], p[1]))
	}
	var m strings.Builder
	m.WriteString("---- MODULE LedgerRun ----\nEXTENDS Ledger, Json\n")
	fmt.Fprintf(&m, "R_GenSC == %s\nR_GenSF == %s\nR_FormRH == {%s}\n", outsTLA(c.P.GenSC), outsTLA(c.P.GenSF), strings.Join(rh, ", "))
	fmt.Fprintf(&m, "Terminal == ms = NULL /\\ height >= MaxHeight /\\ (nrev >= MaxReverts \\/ undo = <<>>)\n")
	// the simulator evaluates invariants on every candidate successor: print only from states that close a
	// block (one successor per End / Revert), near the end of the trace
	if c.EmitAll {
		fmt.Fprintf(&m, "Emit == (ms = NULL /\\ hist # <<>> /\\ (height >= MaxHeight \\/ hist[Len(hist)].verdict = \"reject\")) => PrintT(\"@@BEH \" \\o ToJson(hist))\n")
	} else {
		fmt.Fprintf(&m, "Emit == (ms = NULL /\\ hist # <<>> /\\ (Terminal \\/ TLCGet(\"level\") >= %d)) => PrintT(\"@@BEH \" \\o ToJson(hist))\n", c.EmitDepth-6)
	}
	m.WriteString("====\n")
	files = map[string][]byte{"LedgerRun.tla": []byte(m.String())}
	var b strings.Builder
	b.WriteString("SPECIFICATION Spec\nCONSTANTS\n")
	fmt.Fprintf(&b, "  Addrs = %s\n  MatDelay = %d\n  AllowH = %d\n  RequireH = %d\n  EphH = %d\n  FoundH = %d\n  DevH = %d\n  DevLock = %d\n  Reward = %d\n", strs(c.Addrs), c.P.MatDelay, c.P.AllowH, c.P.RequireH, c.P.EphH, c.P.FoundH, devH(c.P), c.P.DevLock, c.P.Reward)
	fmt.Fprintf(&b, "  MaxHeight = %d\n  MaxTxns = %d\n  MaxReverts = %d\n  GenSC <- R_GenSC\n  GenSF <- R_GenSF\n", c.MaxHeight, c.MaxTxns, c.MaxReverts)
	fmt.Fprintf(&b, "  Templates = %s\n  Defects = %s\n  PayAmts = %s\n  Fees = %s\n  Pay1 = %s\n  Sizes = %s\n  FormRH <- R_FormRH\n  RevShifts = %s\n  SFSplits = %s\n  Focus = %s\n  StopAfterReject = %s\n  HistPost = %s\n  WinStarts = %s\n  WinLens = %s\n",
		strs(c.Templates), strs(c.Defects), ints(c.PayAmts), ints(c.Fees), ints(c.Pay1), ints(c.Sizes), ints(c.RevShifts), ints(c.SFSplits), map[bool]string{true: "TRUE", false: "FALSE"}[c.Focus], map[bool]string{true: "TRUE", false: "FALSE"}[c.EmitAll], map[bool]string{true: "TRUE", false: "FALSE"}[!c.NoPost], ints(orDefault(c.WinStarts, []int{0, 1, 2})), ints(orDefault(c.WinLens, []int{1, 2})))
	inv := append([]string{}, c.Invariants...)
	if c.EmitDepth > 0 || c.EmitAll {
		inv = append(inv, "Emit")
	}
	if len(inv) > 0 {
		b.WriteString("INVARIANTS " + strings.Join(inv, " ") + "\n")
	}
	if len(c.Properties) > 0 {
		b.WriteString("PROPERTIES " + strings.Join(c.Properties, " ") + "\n")
	}
	if c.View {
		b.WriteString("VIEW View\n")
	}
	b.WriteString("CHECK_DEADLOCK FALSE\n")
	return module, files, b.String()
}

// devH is the model's developer-address fork height: far beyond every horizon when the configuration has none.
func devH(p Params) uint64 {
	if p.DevH == 0 {
		return 1000
	}
	return p.DevH
}
