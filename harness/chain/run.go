package chain

import (
	"encoding/json"
	"fmt"
	"os"
	"sort"
	"strings"
	"sync"
	"time"

	"verif/harness/vlib"
)

// Attribute names the property a mismatch belongs to (DESIGN.md section 3, "Attribution").
func Attribute(m Mismatch, running string) string {
	tag := m.Tag
	has := func(ss ...string) bool {
		for _, s := range ss {
			if strings.Contains(tag, s) {
				return true
			}
		}
		return false
	}
	switch m.Kind {
	case "panic":
		return "C10"
	case "input-modified":
		if running == "C06" {
			return "C06" // the block that is reverted and re-applied is no longer the block that was validated
		}
		return "C09"
	case "control-rejected":
		// the block without the defect is acceptable by the specification and the real code refuses it: an unexpected
		// rejection like any other (on the unchanged tree no control is ever refused)
		switch running {
		case "C03", "C07", "C08":
			return running
		}
		return "C08"
	case "post":
		if tag == "revert" {
			return "C06"
		}
		if running == "C07" || running == "C06" {
			return running
		}
		return "C01"
	case "rejected-valid":
		// only properties with an acceptance clause judge unexpected rejections
		switch running {
		case "C03", "C07", "C08":
			return running
		}
		return "C08"
	case "accepted-invalid":
		switch {
		case has("!reuse", "!intx", "reuse-gone", "confuse", "!inblock", "!ephemeral"):
			if running == "C01" {
				return "C01" // a parent counted twice creates value
			}
			return "C02"
		case has("!zeroval"):
			// a contract of no value formed by a transaction without inputs can be mined twice under one id
			switch running {
			case "C02", "C07":
				return running // (no double resolution; every contract resolved at most once)
			}
			return "C02"
		case has("!badsig", "!nosig", "!wrongkey", "!newkeys", "!devother"):
			return "C03"
		case has("!plus1", "!minus1", "!fee1", "!tax", "!zero", "block!payout", "!sfwrap", "!scwrap"):
			return "C01"
		case has("!early", "!timing", "immature", "!era", "!phpast", "!wspast", "!nowindow"):
			if running == "C07" && has("immature") {
				return "C07" // contract payouts are delayed by the maturity period
			}
			return "C08"
		case has("!missedabovehost"):
			if running == "C01" {
				return "C01" // an accepted revision of this kind lets an expiry pay out more than is locked
			}
			return "C07"
		case has("!sum", "!samern", "!missedup", "!coll", "!capdown", "!validsum", "!missedsum", "!wrongleaf", "!wrongdata", "!short", "!missedhigh", "!stalern", "!withrev"):
			return "C07"
		}
	}
	return "?"
}

// RunOpts configures a generate-and-replay run.
type RunOpts struct {
	Num, Depth int
	Workers    int
	Exhaustive bool // enumerate all behaviours of the configuration instead of sampling (narrow configurations only)
	NoFocus    bool // all enabled templates compete in every block (for configurations with few templates)
	Timeout    time.Duration
	// Hook is called after every executed step (may be nil); it runs on the goroutine that owns sim.
	Hook func(sim *Sim, beh *Behaviour, i int, st Step, res StepResult)
	// NewSim lets a check install observers before the behaviour starts (may be nil).
	NewSim func(sim *Sim)
	// KeyOf gives the stable key of a violation (default: kind/tag).
	KeyOf func(m Mismatch) string
}

// RunStats is what a run covered.
type RunStats struct {
	Behaviours, Steps, Accepted, Rejected, Reverts, Txs int
	Tags                                                map[string]int
	Foreign                                             map[string]int
	TLCWall, GoWall                                     time.Duration
}

// Run lets TLC simulate behaviours of the configuration and replays each on the real code.
func Run(c *vlib.Ctx, cfg LedgerConfig, o RunOpts) RunStats {
	if o.Workers == 0 {
		o.Workers = 8
	}
	if cfg.EmitDepth == 0 {
		cfg.EmitDepth = o.Depth
	}
	cfg.Focus = !o.NoFocus
	if o.Exhaustive {
		cfg.EmitAll, cfg.EmitDepth, cfg.Focus, cfg.View = true, 0, false, false
	}
	st := RunStats{Tags: map[string]int{}, Foreign: map[string]int{}}
	mod, files, cfgText := cfg.Render()
	per := (o.Num + o.Workers - 1) / o.Workers
	topts := vlib.TLCOpts{SpecDirs: []string{"ledger"}, Module: mod, Files: files, ConfText: cfgText,
		Simulate: fmt.Sprintf("num=%d", per), Depth: o.Depth, Seed: c.Seed, Workers: o.Workers, Timeout: o.Timeout, NoCount: true}
	if o.Exhaustive {
		// every behaviour of the (narrow) configuration: the history is part of the state, so breadth-first
		// search visits each distinct behaviour prefix once
		topts.Simulate, topts.Depth, topts.Seed, topts.NoCount = "", 0, 0, false
	}
	res, err := c.TLC(topts)
	if err != nil {
		c.Fatal("ledger generation: %v", err)
	}
	if res.Violated != "" {
		c.Fatal("ledger generation: spec failure (%s), see .work/tlc-fail-%s.log: %s", res.Violated, c.ID, vlib.Tail(res.Out, 600))
	}
	st.TLCWall = res.Wall
	behs, err := ParseBehaviours(res.Lines)
	if err != nil {
		c.Fatal("%v", err)
	}
	// drop behaviours that are a prefix of another one
	sort.Slice(behs, func(i, j int) bool { return len(behs[i].Steps) > len(behs[j].Steps) })
	t0 := time.Now()
	var mu sync.Mutex
	var wg sync.WaitGroup
	sem := make(chan struct{}, 12)
	for bi := range behs {
		wg.Add(1)
		sem <- struct{}{}
		go func(beh *Behaviour) {
			defer wg.Done()
			defer func() { <-sem }()
			runBehaviour(c, cfg.P, cfg, beh, o, &st, &mu)
		}(&behs[bi])
	}
	wg.Wait()
	st.GoWall = time.Since(t0)
	if len(behs) > 0 {
		c.Sample(map[string]any{"behaviour": behs[len(behs)/2].Steps[:min(2, len(behs[len(behs)/2].Steps))]})
	}
	for k, v := range st.Foreign {
		fmt.Printf("NOTE: %d mismatch(es) %s belong to another property's check and are not judged here\n", v, k)
	}
	return st
}

// runBehaviour replays one behaviour on a fresh chain, reporting mismatches as Run does.
func runBehaviour(c *vlib.Ctx, p Params, cfgForPayload any, beh *Behaviour, o RunOpts, st *RunStats, mu *sync.Mutex) {
	sim := NewSim(p)
	if o.NewSim != nil {
		o.NewSim(sim)
	}
	local := RunStats{Tags: map[string]int{}}
	for i, step := range beh.Steps {
		r, infra := sim.RunStep(i, step)
		if infra != nil {
			c.Infra("behaviour %s: %v", beh.Hash, infra)
			if os.Getenv("VERIF_DEBUG") != "" {
				js, _ := json.Marshal(beh.Steps[:i+1])
				os.WriteFile("/verif/.work/debug-"+beh.Hash+".json", js, 0o644)
			}
			return
		}
		local.Steps++
		switch {
		case step.Op == "revert":
			local.Reverts++
		case step.Verdict == "accept":
			local.Accepted++
		default:
			local.Rejected++
		}
		for _, t := range step.Txs {
			local.Txs++
			local.Tags[fmt.Sprintf("v%d:%s", t.Ver, t.Tag)]++
		}
		if step.BDefect != "" {
			local.Tags["block!"+step.BDefect]++
		}
		if o.Hook != nil {
			o.Hook(sim, beh, i, step, r)
		}
		stop := false
		for _, m := range r.Mismatches {
			stop = true
			prop := Attribute(m, c.ID)
			switch {
			case prop == c.ID:
				key := m.Kind + "/" + m.Tag
				if o.KeyOf != nil {
					key = o.KeyOf(m)
				}
				c.Violation(key, fmt.Sprintf("%s at step %d (%s): %s", m.Kind, m.Step, m.Tag, m.Detail),
					map[string]any{"params": p, "config": cfgForPayload, "behaviour": beh.Steps[:i+1], "mismatch": m})
			case prop == "harness" || prop == "?":
				c.Infra("behaviour %s step %d: unattributable mismatch %+v", beh.Hash, i, m)
			default:
				mu.Lock()
				k := prop + ":" + m.Kind + "/" + m.Tag
				if st.Foreign[k] == 0 || os.Getenv("VERIF_DEBUG") != "" {
					fmt.Printf("NOTE: first %s: behaviour %s step %d: %s\n", k, beh.Hash, i, m.Detail)
					if os.Getenv("VERIF_DEBUG") != "" {
						js, _ := json.Marshal(beh.Steps[:i+1])
						os.WriteFile("/verif/.work/debug-"+beh.Hash+".json", js, 0o644)
					}
				}
				st.Foreign[k]++
				mu.Unlock()
			}
		}
		if stop {
			break
		}
	}
	mu.Lock()
	st.Behaviours++
	st.Steps += local.Steps
	st.Accepted += local.Accepted
	st.Rejected += local.Rejected
	st.Reverts += local.Reverts
	st.Txs += local.Txs
	for k, v := range local.Tags {
		st.Tags[k] += v
	}
	mu.Unlock()
}

// Payload is what a hook should attach to a violation so that `--replay` can re-execute the behaviour.
func Payload(sim *Sim, beh *Behaviour, i int) map[string]any {
	return map[string]any{"params": sim.P, "behaviour": beh.Steps[:i+1]}
}

// Replay re-executes the behaviour saved in a replay file (c.Replay) with the same per-step logic and hooks as Run,
// printing what the real code does now. It returns false if the file holds no behaviour.
func Replay(c *vlib.Ctx, o RunOpts) bool {
	b, err := os.ReadFile(c.Replay)
	if err != nil {
		c.Fatal("replay: %v", err)
	}
	var f struct {
		Key  string `json:"key"`
		What string `json:"what"`
		Case struct {
			Params    Params `json:"params"`
			Behaviour []Step `json:"behaviour"`
		} `json:"case"`
	}
	if err := json.Unmarshal(b, &f); err != nil {
		c.Fatal("replay: %v", err)
	}
	if len(f.Case.Behaviour) == 0 {
		return false
	}
	fmt.Printf("replaying %s: %d steps; required: %s must not happen\n", f.Key, len(f.Case.Behaviour), f.What)
	st := RunStats{Tags: map[string]int{}, Foreign: map[string]int{}}
	var mu sync.Mutex
	beh := Behaviour{Steps: f.Case.Behaviour, Hash: "replay"}
	runBehaviour(c, f.Case.Params, nil, &beh, o, &st, &mu)
	if c.NViolations() == 0 {
		fmt.Println("observed: the saved behaviour no longer violates the property on this tree")
	}
	return true
}

// ModelCheck runs TLC exhaustively on the configuration (design-level invariants of the Ledger model).
func ModelCheck(c *vlib.Ctx, cfg LedgerConfig, timeout time.Duration) *vlib.TLCResult {
	cfg.EmitDepth = 0
	cfg.View = true
	mod, files, cfgText := cfg.Render()
	return c.MustTLC(vlib.TLCOpts{SpecDirs: []string{"ledger"}, Module: mod, Files: files, ConfText: cfgText, Workers: 12, Timeout: timeout})
}

// Shapes are the network shapes used by the ledger checks: v1 only, mixed eras, v2 from genesis.
func Shapes() map[string]Params {
	g := []AbsOut{{600000, "A"}, {256411, "B"}, {1199, "B"}}
	f := []AbsOut{{7000, "A"}, {3000, "B"}}
	return map[string]Params{
		"v1only": {MatDelay: 1, AllowH: 100, RequireH: 101, EphH: 102, FoundH: 100, Reward: 500, GenSC: g, GenSF: f},
		"mixed":  {MatDelay: 1, AllowH: 3, RequireH: 6, EphH: 4, FoundH: 100, Reward: 500, GenSC: g, GenSF: f},
		"v2only": {MatDelay: 2, AllowH: 0, RequireH: 1, EphH: 0, FoundH: 100, Reward: 500, GenSC: g, GenSF: f},
		// Foundation era inside the horizon: the one-off subsidy at height 2, address updates by the Foundation keys
		"foundation": {MatDelay: 1, AllowH: 3, RequireH: 6, EphH: 4, FoundH: 2, Reward: 500,
			GenSC: []AbsOut{{600000, "A"}, {1199, "F"}, {2398, "M"}, {1199, "B"}}, GenSF: f},
		// the developer-address fork inside the horizon: siafunds of the old address "D", new conditions time-locked to height 4
		"devaddr": {MatDelay: 1, AllowH: 100, RequireH: 101, EphH: 102, FoundH: 100, DevH: 3, DevLock: 4, Reward: 500, GenSC: g,
			GenSF: []AbsOut{{5000, "A"}, {2000, "D"}, {3000, "D"}}},
		// the same with v2 from the start: address updates (also to the void address) in the subsidy block itself
		"foundation2": {MatDelay: 1, AllowH: 0, RequireH: 1, EphH: 0, FoundH: 2, Reward: 500,
			GenSC: []AbsOut{{600000, "A"}, {1199, "F"}, {2398, "M"}, {1199, "M"}, {1199, "B"}}, GenSF: f},
	}
}

// AllTemplates lists every template of Ledger.tla.
var AllTemplates = []string{"pay", "pay2", "sf", "form1", "rev1", "prove1", "form2", "rev2", "res2", "renew2", "fnd", "attest"}

// BaseConfig is a configuration with the standard menus.
func BaseConfig(p Params) LedgerConfig {
	return LedgerConfig{P: p, Addrs: []string{"A", "B"}, MaxHeight: 8, MaxTxns: 3, MaxReverts: 0,
		Templates: AllTemplates, PayAmts: []int{599, 1200}, Fees: []int{0, 10}, Pay1: []int{256410, 256411},
		Sizes: []int{0, 64, 200}, FormRH: [][2]int{{250024, 25}, {599, 0}}, RevShifts: []int{24}, SFSplits: []int{3000}}
}
