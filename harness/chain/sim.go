package chain

import (
	"bytes"
	"encoding/json"
	"fmt"
	rhp2 "go.sia.tech/core/rhp/v2"
	"math"
	"math/big"
	"sort"
	"strconv"
	"strings"
	"time"

	"go.sia.tech/core/blake2b"
	"go.sia.tech/core/consensus"
	"go.sia.tech/core/types"
)

// Applied is one applied block with everything needed to revert or re-apply it.
type Applied struct {
	Block  types.Block
	Supp   consensus.V1BlockSupplement
	Prev   consensus.State
	Next   consensus.State
	Update consensus.ApplyUpdate
	Snap   *Snapshot // store before the block (only when Sim.KeepSnapshots)
}

// Store is the element store of a client that applies every update.
type Store struct {
	SC   map[types.SiacoinOutputID]types.SiacoinElement
	SF   map[types.SiafundOutputID]types.SiafundElement
	FC   map[types.FileContractID]types.FileContractElement
	V2FC map[types.FileContractID]types.V2FileContractElement
	CIE  map[uint64]types.ChainIndexElement
	// spent / resolved elements whose proofs are kept current (material for second-use attempts)
	GoneSC   map[types.SiacoinOutputID]types.SiacoinElement
	GoneSF   map[types.SiafundOutputID]types.SiafundElement
	GoneFC   map[types.FileContractID]types.FileContractElement
	GoneV2FC map[types.FileContractID]types.V2FileContractElement
}

// Snapshot is a deep copy of the live part of a store.
type Snapshot struct {
	SC   map[types.SiacoinOutputID]types.SiacoinElement
	SF   map[types.SiafundOutputID]types.SiafundElement
	FC   map[types.FileContractID]types.FileContractElement
	V2FC map[types.FileContractID]types.V2FileContractElement
}

func newStore() *Store {
	return &Store{
		SC: map[types.SiacoinOutputID]types.SiacoinElement{}, SF: map[types.SiafundOutputID]types.SiafundElement{},
		FC: map[types.FileContractID]types.FileContractElement{}, V2FC: map[types.FileContractID]types.V2FileContractElement{},
		CIE:    map[uint64]types.ChainIndexElement{},
		GoneSC: map[types.SiacoinOutputID]types.SiacoinElement{}, GoneSF: map[types.SiafundOutputID]types.SiafundElement{},
		GoneFC: map[types.FileContractID]types.FileContractElement{}, GoneV2FC: map[types.FileContractID]types.V2FileContractElement{},
	}
}

// Snap copies the live elements.
func (st *Store) Snap() *Snapshot {
	s := &Snapshot{SC: map[types.SiacoinOutputID]types.SiacoinElement{}, SF: map[types.SiafundOutputID]types.SiafundElement{},
		FC: map[types.FileContractID]types.FileContractElement{}, V2FC: map[types.FileContractID]types.V2FileContractElement{}}
	for id, e := range st.SC {
		s.SC[id] = e.Copy()
	}
	for id, e := range st.SF {
		s.SF[id] = e.Copy()
	}
	for id, e := range st.FC {
		s.FC[id] = e.Copy()
	}
	for id, e := range st.V2FC {
		s.V2FC[id] = e.Copy()
	}
	return s
}

// Sim is a real chain driven by abstract steps.
type Sim struct {
	P     Params
	K     *Keyring
	Net   *consensus.Network
	CS    consensus.State
	Store *Store
	Chain []Applied // applied blocks above genesis, oldest first
	Gen   types.Block

	KeepSnapshots bool
	Timestamps    map[uint64]time.Time // optional block timestamps by height (default: genesis + height x 10 min)

	// structural → real
	blockID map[int]types.BlockID
	real    map[SID][32]byte // derived ids registered while building

	// observers
	OnApply  func(prev consensus.State, b types.Block, au consensus.ApplyUpdate)
	OnRevert func(prev consensus.State, b types.Block, ru consensus.RevertUpdate)
}

// NewSim creates the chain with its genesis block applied.
func NewSim(p Params) *Sim {
	k := p.Keyring
	if k == nil {
		k = NewKeyring()
	}
	s := &Sim{P: p, K: k, Net: Network(p, k), Store: newStore(),
		blockID: map[int]types.BlockID{}, real: map[SID][32]byte{}}
	var gtx types.Transaction
	for _, o := range p.GenSC {
		gtx.SiacoinOutputs = append(gtx.SiacoinOutputs, types.SiacoinOutput{Value: cur(o.Val), Address: k.Addr(o.Addr)})
	}
	for _, o := range p.GenSF {
		gtx.SiafundOutputs = append(gtx.SiafundOutputs, types.SiafundOutput{Value: o.Val, Address: k.Addr(o.Addr)})
	}
	s.Gen = types.Block{Timestamp: GenesisTime, Transactions: []types.Transaction{gtx}}
	cs, au := consensus.ApplyBlock(s.Net.GenesisState(), s.Gen, consensus.V1BlockSupplement{Transactions: make([]consensus.V1TransactionSupplement, 1)}, time.Time{})
	s.CS = cs
	registerV1(s.real, 0, 0, gtx)
	s.blockID[0] = s.Gen.ID()
	s.applyDiffs(au)
	return s
}

func (s *Sim) child() uint64 { return s.CS.Index.Height + 1 }

func registerV1(reg map[SID][32]byte, b, t int, txn types.Transaction) {
	for i := range txn.SiacoinOutputs {
		reg[SID{SCO, b, t, i + 1, 0}] = txn.SiacoinOutputID(i)
	}
	for i := range txn.SiafundOutputs {
		reg[SID{SFO, b, t, i + 1, 0}] = txn.SiafundOutputID(i)
	}
	for i := range txn.FileContracts {
		reg[SID{FC1, b, t, i + 1, 0}] = txn.FileContractID(i)
	}
}

func registerV2(reg map[SID][32]byte, b, t int, txn types.V2Transaction) {
	txid := txn.ID()
	for i := range txn.SiacoinOutputs {
		reg[SID{SCO, b, t, i + 1, 0}] = txn.SiacoinOutputID(txid, i)
	}
	for i := range txn.SiafundOutputs {
		reg[SID{SFO, b, t, i + 1, 0}] = txn.SiafundOutputID(txid, i)
	}
	for i := range txn.FileContracts {
		reg[SID{FC2, b, t, i + 1, 0}] = txn.V2FileContractID(txid, i)
	}
}

// look resolves a structural id: ids derived in the block under construction first, then the applied history.
func (b *BlockCtx) look(id SID) ([32]byte, bool) {
	if r, ok := b.reg[id]; ok {
		return r, true
	}
	r, ok := b.s.real[id]
	return r, ok
}

// Commit makes the ids derived while building the block part of the applied history.
func (b *BlockCtx) Commit() {
	for k, v := range b.reg {
		b.s.real[k] = v
	}
}

// Real returns the real ID of a structural identifier registered so far.
func (s *Sim) Real(id SID) ([32]byte, bool) {
	r, ok := s.real[id]
	return r, ok
}

// ---------------------------------------------------------------------------
// store maintenance from diffs only

func (s *Sim) applyDiffs(au consensus.ApplyUpdate) {
	st := s.Store
	upd := func(se *types.StateElement) { au.UpdateElementProof(se) }
	for id, e := range st.SC {
		upd(&e.StateElement)
		st.SC[id] = e
	}
	for id, e := range st.SF {
		upd(&e.StateElement)
		st.SF[id] = e
	}
	for id, e := range st.FC {
		upd(&e.StateElement)
		st.FC[id] = e
	}
	for id, e := range st.V2FC {
		upd(&e.StateElement)
		st.V2FC[id] = e
	}
	for h, e := range st.CIE {
		upd(&e.StateElement)
		st.CIE[h] = e
	}
	for id, e := range st.GoneSC {
		upd(&e.StateElement)
		st.GoneSC[id] = e
	}
	for id, e := range st.GoneSF {
		upd(&e.StateElement)
		st.GoneSF[id] = e
	}
	for id, e := range st.GoneFC {
		upd(&e.StateElement)
		st.GoneFC[id] = e
	}
	for id, e := range st.GoneV2FC {
		upd(&e.StateElement)
		st.GoneV2FC[id] = e
	}
	for _, d := range au.SiacoinElementDiffs() {
		e := d.SiacoinElement.Copy()
		switch {
		case d.Created && d.Spent:
			st.GoneSC[e.ID] = e // enters the accumulator as a spent leaf
		case d.Spent:
			delete(st.SC, e.ID)
			st.GoneSC[e.ID] = e
		default:
			st.SC[e.ID] = e
		}
	}
	for _, d := range au.SiafundElementDiffs() {
		e := d.SiafundElement.Copy()
		switch {
		case d.Created && d.Spent:
			st.GoneSF[e.ID] = e
		case d.Spent:
			delete(st.SF, e.ID)
			st.GoneSF[e.ID] = e
		default:
			st.SF[e.ID] = e
		}
	}
	for _, d := range au.FileContractElementDiffs() {
		e := d.FileContractElement.Copy()
		if d.Revision != nil {
			e.FileContract = *d.Revision
		}
		switch {
		case d.Created && d.Resolved:
			st.GoneFC[e.ID] = e
		case d.Resolved:
			delete(st.FC, e.ID)
			st.GoneFC[e.ID] = e
		default:
			st.FC[e.ID] = e
		}
	}
	for _, d := range au.V2FileContractElementDiffs() {
		e := d.V2FileContractElement.Copy()
		if d.Revision != nil {
			e.V2FileContract = *d.Revision
		}
		if d.Resolution != nil {
			delete(st.V2FC, e.ID)
			st.GoneV2FC[e.ID] = e
		} else {
			st.V2FC[e.ID] = e
		}
	}
	c := au.ChainIndexElement()
	st.CIE[c.ChainIndex.Height] = c.Copy()
}

func (s *Sim) revertDiffs(ru consensus.RevertUpdate, height uint64) {
	st := s.Store
	// elements created by the block disappear; elements it spent / revised / resolved return as the block found them
	for _, d := range ru.SiacoinElementDiffs() {
		switch {
		case d.Created:
			delete(st.SC, d.SiacoinElement.ID)
			delete(st.GoneSC, d.SiacoinElement.ID)
		case d.Spent:
			delete(st.GoneSC, d.SiacoinElement.ID)
			st.SC[d.SiacoinElement.ID] = d.SiacoinElement.Copy()
		}
	}
	for _, d := range ru.SiafundElementDiffs() {
		switch {
		case d.Created:
			delete(st.SF, d.SiafundElement.ID)
			delete(st.GoneSF, d.SiafundElement.ID)
		case d.Spent:
			delete(st.GoneSF, d.SiafundElement.ID)
			st.SF[d.SiafundElement.ID] = d.SiafundElement.Copy()
		}
	}
	for _, d := range ru.FileContractElementDiffs() {
		switch {
		case d.Created:
			delete(st.FC, d.FileContractElement.ID)
			delete(st.GoneFC, d.FileContractElement.ID)
		default:
			delete(st.GoneFC, d.FileContractElement.ID)
			st.FC[d.FileContractElement.ID] = d.FileContractElement.Copy()
		}
	}
	for _, d := range ru.V2FileContractElementDiffs() {
		switch {
		case d.Created:
			delete(st.V2FC, d.V2FileContractElement.ID)
		default:
			delete(st.GoneV2FC, d.V2FileContractElement.ID)
			st.V2FC[d.V2FileContractElement.ID] = d.V2FileContractElement.Copy()
		}
	}
	delete(st.CIE, height)
	restored := map[[32]byte]bool{}
	for _, d := range ru.SiacoinElementDiffs() {
		restored[d.SiacoinElement.ID] = true
	}
	for _, d := range ru.SiafundElementDiffs() {
		restored[d.SiafundElement.ID] = true
	}
	for _, d := range ru.FileContractElementDiffs() {
		restored[d.FileContractElement.ID] = true
	}
	for _, d := range ru.V2FileContractElementDiffs() {
		restored[d.V2FileContractElement.ID] = true
	}
	upd := func(id [32]byte, se *types.StateElement) {
		if !restored[id] {
			ru.UpdateElementProof(se)
		}
	}
	for id, e := range st.SC {
		upd(id, &e.StateElement)
		st.SC[id] = e
	}
	for id, e := range st.SF {
		upd(id, &e.StateElement)
		st.SF[id] = e
	}
	for id, e := range st.FC {
		upd(id, &e.StateElement)
		st.FC[id] = e
	}
	for id, e := range st.V2FC {
		upd(id, &e.StateElement)
		st.V2FC[id] = e
	}
	for h, e := range st.CIE {
		ru.UpdateElementProof(&e.StateElement)
		st.CIE[h] = e
	}
	for id, e := range st.GoneSC {
		ru.UpdateElementProof(&e.StateElement)
		st.GoneSC[id] = e
	}
	for id, e := range st.GoneSF {
		ru.UpdateElementProof(&e.StateElement)
		st.GoneSF[id] = e
	}
	for id, e := range st.GoneFC {
		ru.UpdateElementProof(&e.StateElement)
		st.GoneFC[id] = e
	}
	for id, e := range st.GoneV2FC {
		ru.UpdateElementProof(&e.StateElement)
		st.GoneV2FC[id] = e
	}
}

// ---------------------------------------------------------------------------
// building transactions

// BlockCtx carries what is known while the transactions of one block are being built.
type BlockCtx struct {
	s          *Sim
	height     int
	n          int                                            // index of the next transaction
	ephSC      map[types.SiacoinOutputID]types.SiacoinElement // outputs created earlier in this block
	ephSF      map[types.SiafundOutputID]types.SiafundElement
	curFC      map[types.FileContractID]types.FileContract          // v1 contracts as they stand within this block
	curV2      map[types.FileContractID]types.V2FileContract        // v2 revisions within this block
	ephV2      map[types.FileContractID]types.V2FileContractElement // v2 contracts formed in this block
	V1         []types.Transaction
	V2         []types.V2Transaction
	newFC      map[types.FileContractID]bool
	reg        map[SID][32]byte // ids derived while building; committed to the Sim only when the block is applied
	poolBefore types.Currency   // siafund pool before the transaction being added
	pool       types.Currency   // siafund pool as of the next transaction (an honest builder's claim start for ephemeral siafund parents)
}

// NewBlockCtx starts a block on the current tip.
func (s *Sim) NewBlockCtx() *BlockCtx {
	return &BlockCtx{s: s, height: int(s.child()), ephSC: map[types.SiacoinOutputID]types.SiacoinElement{},
		ephSF: map[types.SiafundOutputID]types.SiafundElement{}, curFC: map[types.FileContractID]types.FileContract{},
		curV2: map[types.FileContractID]types.V2FileContract{}, ephV2: map[types.FileContractID]types.V2FileContractElement{}, newFC: map[types.FileContractID]bool{}, reg: map[SID][32]byte{}, pool: s.CS.SiafundTaxRevenue}
}

func (s *Sim) fileRoot(size uint64) types.Hash256 {
	var hs []types.Hash256
	for _, l := range Leaves(FileData(size)) {
		hs = append(hs, s.CS.StorageProofLeafHash(l))
	}
	return PlainRoot(hs, func(l, r types.Hash256) types.Hash256 { return blake2b.SumPair(l, r) })
}

func (s *Sim) outs(os []AbsOut) []types.SiacoinOutput {
	var r []types.SiacoinOutput
	for _, o := range os {
		r = append(r, types.SiacoinOutput{Value: cur(o.Val), Address: s.K.Addr(o.Addr)})
	}
	return r
}

// RHP2Proof builds the storage proof of 64-byte leaf idx of a file of whole sectors with rhp/v2's host-side prover.
func RHP2Proof(data []byte, idx uint64) []types.Hash256 {
	ns := uint64(len(data)) / rhp2.SectorSize
	roots := make([]types.Hash256, ns)
	for j := range roots {
		roots[j] = rhp2.SectorRoot((*[rhp2.SectorSize]byte)(data[uint64(j)*rhp2.SectorSize:]))
	}
	si, li := idx/rhp2.LeavesPerSector, idx%rhp2.LeavesPerSector
	// (each part is reordered with its own index, the way hosts do it)
	p := rhp2.ConvertProofOrdering(rhp2.BuildProof((*[rhp2.SectorSize]byte)(data[si*rhp2.SectorSize:]), li, li+1, nil), li)
	return append(p, rhp2.ConvertProofOrdering(rhp2.BuildSectorRangeProof(roots, si, si+1), si)...)
}

// realRN maps the model's largest revision numbers (TLC's largest integers) to the real ones.
func realRN(rn uint64) uint64 {
	switch rn {
	case 2147483647:
		return math.MaxUint64
	case 2147483646:
		return math.MaxUint64 - 1
	}
	return rn
}

// inflate realises AbsTx.Big: the first two siafund (siacoin) outputs become 2^63 SF (2^127 H) larger than stated (a
// single output is split in two first), so that the outputs still balance the inputs modulo 2^64 (2^128) and only so.
func inflate(big string, sco []types.SiacoinOutput, sfo []types.SiafundOutput) ([]types.SiacoinOutput, []types.SiafundOutput) {
	switch big {
	case "sf":
		if len(sfo) == 1 {
			sfo = append(sfo, types.SiafundOutput{Value: 0, Address: sfo[0].Address})
		}
		if len(sfo) >= 2 {
			sfo[0].Value += 1 << 63
			sfo[1].Value += 1 << 63
		}
	case "sc":
		if len(sco) == 1 {
			sco = append(sco, types.SiacoinOutput{Address: sco[0].Address})
		}
		if len(sco) >= 2 {
			half := types.NewCurrency(0, 1<<63)
			v0, _ := sco[0].Value.AddWithOverflow(half)
			v1, _ := sco[1].Value.AddWithOverflow(half)
			sco[0].Value, sco[1].Value = v0, v1
		}
	}
	return sco, sfo
}

func (s *Sim) c1(c AbsC1) types.FileContract {
	return types.FileContract{Filesize: c.Size, FileMerkleRoot: s.fileRoot(c.Size), WindowStart: c.Ws, WindowEnd: c.We,
		Payout: cur(c.Pay), ValidProofOutputs: s.outs(c.Vo), MissedProofOutputs: s.outs(c.Mo),
		UnlockHash: s.K.Addr(c.Owner), RevisionNumber: realRN(c.Rn)}
}

func (s *Sim) c2(c AbsC2) types.V2FileContract {
	return types.V2FileContract{Capacity: c.Cap, Filesize: c.Size, FileMerkleRoot: s.fileRoot(c.Size), ProofHeight: c.Ph, ExpirationHeight: c.Eh,
		RenterOutput: types.SiacoinOutput{Value: cur(c.R), Address: s.K.Addr(c.Ra)}, HostOutput: types.SiacoinOutput{Value: cur(c.H), Address: s.K.Addr(c.Ha)},
		MissedHostValue: cur(c.Mh), TotalCollateral: cur(c.Coll), RenterPublicKey: s.K.PK(c.Rk), HostPublicKey: s.K.PK(c.Hk), RevisionNumber: c.Rn}
}

func (s *Sim) signC2(fc *types.V2FileContract, rk, hk string, auth string) {
	h := s.CS.ContractSigHash(*fc)
	fc.RenterSignature, fc.HostSignature = s.K.SK(rk).SignHash(h), s.K.SK(hk).SignHash(h)
	switch auth {
	case "badsig":
		fc.HostSignature[3] ^= 1
	case "newkeys", "wrongkey":
		fc.RenterSignature = s.K.SK("X").SignHash(h)
	case "nosig":
		fc.RenterSignature = types.Signature{}
	}
}

// proof builds a storage proof of the given quality for a file of the given size and challenge index:
// "ok" honest; "other:<j>" the honest proof of leaf j; "wrongleaf" the honest proof of the next leaf;
// "wrongdata"/"data" one data byte of the leaf altered; "short" last proof hash dropped; "long" one hash appended.
func (s *Sim) proof(size uint64, idx uint64, pf string) (leaf [64]byte, proof []types.Hash256) {
	segs := Leaves(FileData(size))
	var hs []types.Hash256
	for _, l := range segs {
		hs = append(hs, s.CS.StorageProofLeafHash(l))
	}
	if len(segs) == 0 {
		return
	}
	pair := func(l, r types.Hash256) types.Hash256 { return blake2b.SumPair(l, r) }
	i := int(idx)
	if pf == "wrongleaf" && len(segs) > 1 {
		i = (i + 1) % len(segs)
	}
	if strings.HasPrefix(pf, "other:") {
		j, _ := strconv.Atoi(strings.TrimPrefix(pf, "other:"))
		i = j % len(segs)
	}
	copy(leaf[:], segs[i])
	proof = PlainProof(hs, i, pair)
	if pf == "rhp2" {
		// the proof as a host builds it with core's own prover: the path inside the 4 MiB sector, then the range proof over
		// the sector roots, reordered for consensus (whole sectors only)
		proof = RHP2Proof(FileData(size), idx)
		return
	}
	switch {
	case pf == "wrongdata" || pf == "data" || (pf == "wrongleaf" && len(segs) == 1):
		leaf[0] ^= 0x80
	case pf == "short":
		if len(proof) > 0 {
			proof = proof[:len(proof)-1]
		} else {
			leaf[1] ^= 1
		}
	case pf == "long":
		proof = append(proof, PlainRoot(hs, pair))
	}
	return
}

// ProofFor exposes proof construction to checks that drive the chain directly.
func (s *Sim) ProofFor(size, idx uint64, pf string) ([64]byte, []types.Hash256) {
	return s.proof(size, idx, pf)
}

// lookup helpers: the element as a block builder holding an up-to-date store sees it
func (b *BlockCtx) sce(id types.SiacoinOutputID) (types.SiacoinElement, bool) {
	if e, ok := b.ephSC[id]; ok {
		return e.Copy(), true
	}
	if e, ok := b.s.Store.SC[id]; ok {
		return e.Copy(), true
	}
	if e, ok := b.s.Store.GoneSC[id]; ok {
		return e.Copy(), true
	}
	return types.SiacoinElement{}, false
}

func (b *BlockCtx) sfe(id types.SiafundOutputID) (types.SiafundElement, bool) {
	if e, ok := b.ephSF[id]; ok {
		return e.Copy(), true
	}
	if e, ok := b.s.Store.SF[id]; ok {
		return e.Copy(), true
	}
	if e, ok := b.s.Store.GoneSF[id]; ok {
		return e.Copy(), true
	}
	return types.SiafundElement{}, false
}

// ErrUnknown is returned when an abstract step refers to something the harness cannot map.
type ErrUnknown struct{ What string }

func (e ErrUnknown) Error() string { return "chain: cannot concretise: " + e.What }

// Add concretises an abstract transaction and appends it to the block under construction.
func (b *BlockCtx) Add(t AbsTx) (err error) {
	s := b.s
	b.poolBefore = b.pool
	defer func() {
		if r := recover(); r != nil {
			js, _ := json.Marshal(t)
			err = ErrUnknown{fmt.Sprintf("panic while building %s: %v", js, r)}
		}
	}()
	if t.Ver == 1 {
		var txn types.Transaction
		txn, err = b.buildV1(t)
		if err == nil {
			if len(b.V2) > 0 {
				return ErrUnknown{"v1 transaction after a v2 transaction"}
			}
			b.V1 = append(b.V1, txn)
			registerV1(b.reg, b.height, b.n, txn)
			for i, o := range txn.SiacoinOutputs {
				id := txn.SiacoinOutputID(i)
				b.ephSC[id] = types.SiacoinElement{ID: id, StateElement: types.StateElement{LeafIndex: types.UnassignedLeafIndex}, SiacoinOutput: o}
			}
			for i, o := range txn.SiafundOutputs {
				id := txn.SiafundOutputID(i)
				b.ephSF[id] = types.SiafundElement{ID: id, StateElement: types.StateElement{LeafIndex: types.UnassignedLeafIndex}, SiafundOutput: o, ClaimStart: b.pool}
			}
			for _, fc := range txn.FileContracts {
				b.pool = b.pool.Add(b.s.CS.FileContractTax(fc))
			}
			mat := uint64(b.height) + s.Net.MaturityDelay
			for _, in := range txn.SiafundInputs {
				// the claim output is created in this block too (spendable at once when the maturity delay is zero)
				if sfe, ok := b.sfe(in.ParentID); ok {
					id := in.ParentID.ClaimOutputID()
					val := b.poolBefore.Sub(sfe.ClaimStart).Div64(10000).Mul64(sfe.SiafundOutput.Value)
					b.ephSC[id] = types.SiacoinElement{ID: id, StateElement: types.StateElement{LeafIndex: types.UnassignedLeafIndex},
						SiacoinOutput: types.SiacoinOutput{Value: val, Address: in.ClaimAddress}, MaturityHeight: mat}
				}
			}
			for _, sp := range txn.StorageProofs {
				fc, have := b.curFC[sp.ParentID]
				if !have {
					if e, ok := s.Store.FC[sp.ParentID]; ok {
						fc, have = e.FileContract, true
					}
				}
				if have {
					for j, o := range fc.ValidProofOutputs {
						id := sp.ParentID.ValidOutputID(j)
						b.ephSC[id] = types.SiacoinElement{ID: id, StateElement: types.StateElement{LeafIndex: types.UnassignedLeafIndex}, SiacoinOutput: o, MaturityHeight: mat}
					}
				}
			}
			for i, fc := range txn.FileContracts {
				b.curFC[txn.FileContractID(i)] = fc
				b.newFC[txn.FileContractID(i)] = true
			}
			for _, r := range txn.FileContractRevisions {
				fc := r.FileContract
				b.curFC[r.ParentID] = fc
			}
		}
	} else {
		var txn types.V2Transaction
		txn, err = b.buildV2(t)
		if err == nil {
			b.V2 = append(b.V2, txn)
			registerV2(b.reg, b.height, b.n, txn)
			for i := range txn.SiacoinOutputs {
				e := txn.EphemeralSiacoinOutput(i)
				b.ephSC[e.ID] = e
			}
			for i := range txn.SiafundOutputs {
				e := txn.EphemeralSiafundOutput(i)
				e.ClaimStart = b.pool
				b.ephSF[e.ID] = e
			}
			for i, fc := range txn.FileContracts {
				b.pool = b.pool.Add(b.s.CS.V2FileContractTax(fc))
				// a contract formed in this block: an honest presentation of it as a parent (no accumulator position yet)
				id := txn.V2FileContractID(txn.ID(), i)
				b.ephV2[id] = types.V2FileContractElement{ID: id, StateElement: types.StateElement{LeafIndex: types.UnassignedLeafIndex}, V2FileContract: fc}
			}
			for _, r := range txn.FileContractResolutions {
				if ren, ok := r.Resolution.(*types.V2FileContractRenewal); ok {
					b.pool = b.pool.Add(b.s.CS.V2FileContractTax(ren.NewContract))
					id := r.Parent.ID.V2RenewalID()
					b.ephV2[id] = types.V2FileContractElement{ID: id, StateElement: types.StateElement{LeafIndex: types.UnassignedLeafIndex}, V2FileContract: ren.NewContract}
				}
			}
			mat := uint64(b.height) + s.Net.MaturityDelay
			for _, in := range txn.SiafundInputs {
				id := in.Parent.ID.V2ClaimOutputID()
				val := b.poolBefore.Sub(in.Parent.ClaimStart).Div64(10000).Mul64(in.Parent.SiafundOutput.Value)
				b.ephSC[id] = types.SiacoinElement{ID: id, StateElement: types.StateElement{LeafIndex: types.UnassignedLeafIndex},
					SiacoinOutput: types.SiacoinOutput{Value: val, Address: in.ClaimAddress}, MaturityHeight: mat}
			}
			for _, r := range txn.FileContractResolutions {
				fc := r.Parent.V2FileContract
				if cur, ok := b.curV2[r.Parent.ID]; ok {
					fc = cur
				}
				renter, host := fc.RenterOutput, fc.HostOutput
				switch res := r.Resolution.(type) {
				case *types.V2FileContractRenewal:
					renter, host = res.FinalRenterOutput, res.FinalHostOutput
				case *types.V2FileContractExpiration:
					host = fc.MissedHostOutput()
				}
				for id, o := range map[types.SiacoinOutputID]types.SiacoinOutput{r.Parent.ID.V2RenterOutputID(): renter, r.Parent.ID.V2HostOutputID(): host} {
					b.ephSC[id] = types.SiacoinElement{ID: id, StateElement: types.StateElement{LeafIndex: types.UnassignedLeafIndex}, SiacoinOutput: o, MaturityHeight: mat}
				}
			}
			for _, r := range txn.FileContractRevisions {
				b.curV2[r.Parent.ID] = r.Revision
			}
		}
	}
	if err != nil {
		return err
	}
	b.n++
	return nil
}

func (b *BlockCtx) scid(id SID) (types.SiacoinOutputID, error) {
	r, ok := b.look(id)
	if !ok {
		return types.SiacoinOutputID{}, ErrUnknown{"siacoin id " + id.String()}
	}
	return types.SiacoinOutputID(r), nil
}

func (b *BlockCtx) buildV1(t AbsTx) (types.Transaction, error) {
	s := b.s
	var txn types.Transaction
	type signer struct {
		parent types.Hash256
		name   string
		auth   string
	}
	var signers []signer
	for _, in := range t.Sci {
		id, err := b.scid(in.ID)
		if err != nil {
			return txn, err
		}
		owner := "A"
		if e, ok := b.sce(id); ok {
			owner = s.K.NameOf(e.SiacoinOutput.Address)
		}
		uc := s.K.UC(owner)
		if in.Auth == "wrongkey" {
			uc = s.K.UC("X")
			owner = "X"
		}
		if strings.HasPrefix(in.Auth, "as:") { // the "confuse" defect: the id is not a siacoin output's; sign as the stated owner
			owner = in.Auth[3:]
			uc = s.K.UC(owner)
		}
		txn.SiacoinInputs = append(txn.SiacoinInputs, types.SiacoinInput{ParentID: id, UnlockConditions: uc})
		signers = append(signers, signer{types.Hash256(id), owner, in.Auth})
	}
	txn.SiacoinOutputs = s.outs(t.Sco)
	for _, in := range t.Sfi {
		r, ok := b.look(in.ID)
		if !ok {
			return txn, ErrUnknown{"siafund id " + in.ID.String()}
		}
		id := types.SiafundOutputID(r)
		owner := "A"
		if e, ok := b.sfe(id); ok {
			owner = s.K.NameOf(e.SiafundOutput.Address)
		}
		auth := in.Auth
		if auth == "dev" { // the developer-address override: the new address's conditions and key, whoever owns the parent
			owner, auth = "N", "ok"
		}
		txn.SiafundInputs = append(txn.SiafundInputs, types.SiafundInput{ParentID: id, UnlockConditions: s.K.UC(owner), ClaimAddress: s.K.Addr(in.Claim)})
		signers = append(signers, signer{types.Hash256(id), owner, auth})
		b.reg[SID{CLAIM, in.ID[1], in.ID[2], in.ID[3], in.ID[4]}] = id.ClaimOutputID()
	}
	for _, o := range t.Sfo {
		txn.SiafundOutputs = append(txn.SiafundOutputs, types.SiafundOutput{Value: o.Val, Address: s.K.Addr(o.Addr)})
	}
	txn.SiacoinOutputs, txn.SiafundOutputs = inflate(t.Big, txn.SiacoinOutputs, txn.SiafundOutputs)
	if t.Fee > 0 {
		txn.MinerFees = []types.Currency{cur(t.Fee)}
	}
	for _, raw := range t.Fc {
		var c AbsC1
		if err := json.Unmarshal(raw, &c); err != nil {
			return txn, err
		}
		txn.FileContracts = append(txn.FileContracts, s.c1(c))
	}
	for _, r := range t.Rev {
		var c AbsC1
		if err := json.Unmarshal(r.C, &c); err != nil {
			return txn, err
		}
		rid, ok := b.look(r.Cid)
		if !ok {
			return txn, ErrUnknown{"contract id " + r.Cid.String()}
		}
		fc := s.c1(c)
		owner := c.Owner
		uc := s.K.UC(owner)
		if r.Auth == "newkeys" || r.Auth == "wrongkey" {
			uc, owner = s.K.UC("X"), "X"
		}
		txn.FileContractRevisions = append(txn.FileContractRevisions, types.FileContractRevision{ParentID: types.FileContractID(rid), UnlockConditions: uc, FileContract: fc})
		signers = append(signers, signer{types.Hash256(rid), owner, r.Auth})
	}
	for _, r := range t.Res {
		rid, ok := b.look(r.Cid)
		if !ok {
			return txn, ErrUnknown{"contract id " + r.Cid.String()}
		}
		fcid := types.FileContractID(rid)
		fc, have := b.curFC[fcid]
		if !have {
			if e, ok := s.Store.FC[fcid]; ok {
				fc, have = e.FileContract, true
			} else if e, ok := s.Store.GoneFC[fcid]; ok {
				fc, have = e.FileContract, true
			}
		}
		sp := types.StorageProof{ParentID: fcid}
		if have && fc.Filesize > 0 {
			// the honest prover uses the ID of the block at height WindowStart-1
			var windowID types.BlockID
			if wid, ok := s.blockID[int(fc.WindowStart)-1]; ok {
				windowID = wid
			} else {
				windowID = s.CS.Index.ID
			}
			idx := s.CS.StorageProofLeafIndex(fc.Filesize, windowID, fcid)
			sp.Leaf, sp.Proof = s.proof(fc.Filesize, idx, r.Pf)
		}
		txn.StorageProofs = append(txn.StorageProofs, sp)
		for j := range fc.ValidProofOutputs {
			b.reg[SID{VALID, r.Cid[1], r.Cid[2], r.Cid[3], j}] = fcid.ValidOutputID(j)
		}
	}
	if t.Fnd != "" {
		upd := types.FoundationAddressUpdate{NewPrimary: s.K.Addr(t.Fnd), NewFailsafe: s.K.Addr(t.Fnd)}
		var buf bytes.Buffer
		e := types.NewEncoder(&buf)
		types.SpecifierFoundation.EncodeTo(e)
		upd.EncodeTo(e)
		e.Flush()
		txn.ArbitraryData = [][]byte{buf.Bytes()}
	}
	for _, sg := range signers {
		if sg.auth == "nosig" || (sg.name == "Z" && sg.auth == "ok") {
			continue // unlock conditions that require no signature get none (one would be redundant)
		}
		txn.Signatures = append(txn.Signatures, types.TransactionSignature{ParentID: sg.parent, PublicKeyIndex: 0, CoveredFields: types.CoveredFields{WholeTransaction: true}})
	}
	for i := range txn.Signatures {
		sg := signers[0]
		for _, x := range signers {
			if x.parent == txn.Signatures[i].ParentID {
				sg = x
			}
		}
		if strings.HasPrefix(sg.auth, "siglockP") {
			// a time-locked signature over an explicit list of fields (everything the transaction has)
			tl, _ := strconv.ParseUint(strings.TrimPrefix(sg.auth, "siglockP"), 10, 64)
			txn.Signatures[i].Timelock = tl
			seq := func(n int) (r []uint64) {
				for k := 0; k < n; k++ {
					r = append(r, uint64(k))
				}
				return
			}
			txn.Signatures[i].CoveredFields = types.CoveredFields{SiacoinInputs: seq(len(txn.SiacoinInputs)), SiacoinOutputs: seq(len(txn.SiacoinOutputs)),
				SiafundInputs: seq(len(txn.SiafundInputs)), SiafundOutputs: seq(len(txn.SiafundOutputs)), MinerFees: seq(len(txn.MinerFees)),
				FileContracts: seq(len(txn.FileContracts)), FileContractRevisions: seq(len(txn.FileContractRevisions)), StorageProofs: seq(len(txn.StorageProofs)),
				ArbitraryData: seq(len(txn.ArbitraryData))}
			sig := s.K.SK(sg.name).SignHash(s.CS.PartialSigHash(txn, txn.Signatures[i].CoveredFields))
			txn.Signatures[i].Signature = sig[:]
			continue
		}
		if strings.HasPrefix(sg.auth, "siglock") {
			tl, _ := strconv.ParseUint(strings.TrimPrefix(sg.auth, "siglock"), 10, 64)
			txn.Signatures[i].Timelock = tl
		}
		h := s.CS.WholeSigHash(txn, txn.Signatures[i].ParentID, 0, txn.Signatures[i].Timelock, nil)
		sig := s.K.SK(sg.name).SignHash(h)
		if sg.auth == "badsig" {
			sig[5] ^= 4
		}
		txn.Signatures[i].Signature = sig[:]
	}
	return txn, nil
}

func (b *BlockCtx) buildV2(t AbsTx) (types.V2Transaction, error) {
	s := b.s
	var txn types.V2Transaction
	type inAuth struct {
		owner, auth string
		sf          bool
		i           int
	}
	var ins []inAuth
	for _, in := range t.Sci {
		id, err := b.scid(in.ID)
		if err != nil {
			return txn, err
		}
		e, ok := b.sce(id)
		if parts := strings.Split(in.Auth, ":"); len(parts) == 4 && parts[0] == "as" {
			// the "confuse" defect: an ephemeral parent named by the id of an in-block element of another kind, stating
			// owner, value and maturity of an in-block siacoin output
			val, _ := strconv.ParseUint(parts[2], 10, 64)
			mat, _ := strconv.ParseUint(parts[3], 10, 64)
			e = types.SiacoinElement{ID: id, StateElement: types.StateElement{LeafIndex: types.UnassignedLeafIndex},
				SiacoinOutput: types.SiacoinOutput{Value: cur(val), Address: s.K.Addr(parts[1])}, MaturityHeight: mat}
			in.Auth, ok = "ok", true
		}
		if !ok {
			return txn, ErrUnknown{"no element for " + in.ID.String()}
		}
		owner := s.K.NameOf(e.SiacoinOutput.Address)
		pol := s.K.Policy(owner)
		if in.Auth == "wrongkey" {
			pol, owner = s.K.Policy("X"), "X"
		}
		if in.Auth == "mislabel-mat" && e.StateElement.LeafIndex == types.UnassignedLeafIndex {
			e.MaturityHeight = 0 // a parent created in this block, presented as mature although it is not
			in.Auth = "ok"
		}
		txn.SiacoinInputs = append(txn.SiacoinInputs, types.V2SiacoinInput{Parent: e, SatisfiedPolicy: types.SatisfiedPolicy{Policy: pol}})
		ins = append(ins, inAuth{owner, in.Auth, false, len(txn.SiacoinInputs) - 1})
	}
	txn.SiacoinOutputs = s.outs(t.Sco)
	for _, in := range t.Sfi {
		r, ok := b.look(in.ID)
		if !ok {
			return txn, ErrUnknown{"siafund id " + in.ID.String()}
		}
		e, ok := b.sfe(types.SiafundOutputID(r))
		if !ok {
			return txn, ErrUnknown{"no element for " + in.ID.String()}
		}
		owner := s.K.NameOf(e.SiafundOutput.Address)
		txn.SiafundInputs = append(txn.SiafundInputs, types.V2SiafundInput{Parent: e, ClaimAddress: s.K.Addr(in.Claim), SatisfiedPolicy: types.SatisfiedPolicy{Policy: s.K.Policy(owner)}})
		ins = append(ins, inAuth{owner, in.Auth, true, len(txn.SiafundInputs) - 1})
		b.reg[SID{CLAIM, in.ID[1], in.ID[2], in.ID[3], in.ID[4]}] = e.ID.V2ClaimOutputID()
	}
	for _, o := range t.Sfo {
		txn.SiafundOutputs = append(txn.SiafundOutputs, types.SiafundOutput{Value: o.Val, Address: s.K.Addr(o.Addr)})
	}
	txn.SiacoinOutputs, txn.SiafundOutputs = inflate(t.Big, txn.SiacoinOutputs, txn.SiafundOutputs)
	txn.MinerFee = cur(t.Fee)
	for _, raw := range t.Fc {
		var c AbsC2
		if err := json.Unmarshal(raw, &c); err != nil {
			return txn, err
		}
		fc := s.c2(c)
		s.signC2(&fc, c.Rk, c.Hk, c.Auth)
		txn.FileContracts = append(txn.FileContracts, fc)
	}
	parent := func(cid SID) (types.V2FileContractElement, error) {
		rid, ok := b.look(cid)
		if !ok {
			return types.V2FileContractElement{}, ErrUnknown{"contract id " + cid.String()}
		}
		if e, ok := s.Store.V2FC[types.FileContractID(rid)]; ok {
			return e.Copy(), nil
		}
		if e, ok := s.Store.GoneV2FC[types.FileContractID(rid)]; ok {
			return e.Copy(), nil
		}
		if e, ok := b.ephV2[types.FileContractID(rid)]; ok {
			return e.Copy(), nil
		}
		return types.V2FileContractElement{}, ErrUnknown{"no element for contract " + cid.String()}
	}
	for _, r := range t.Rev {
		var c AbsC2
		if err := json.Unmarshal(r.C, &c); err != nil {
			return txn, err
		}
		p, err := parent(r.Cid)
		if err != nil {
			return txn, err
		}
		rev := s.c2(c)
		// revisions are signed by the keys of the contract as it currently stands
		curRK, curHK := s.K.NameOfKey(p.V2FileContract.RenterPublicKey), s.K.NameOfKey(p.V2FileContract.HostPublicKey)
		if cur, ok := b.curV2[p.ID]; ok {
			curRK, curHK = s.K.NameOfKey(cur.RenterPublicKey), s.K.NameOfKey(cur.HostPublicKey)
		}
		s.signC2(&rev, curRK, curHK, r.Auth)
		txn.FileContractRevisions = append(txn.FileContractRevisions, types.V2FileContractRevision{Parent: p, Revision: rev})
	}
	for _, r := range t.Res {
		p, err := parent(r.Cid)
		if err != nil {
			return txn, err
		}
		fc := p.V2FileContract
		var res types.V2FileContractResolutionType
		switch r.Kind {
		case "expire":
			res = &types.V2FileContractExpiration{}
		case "proof":
			sp := &types.V2StorageProof{}
			if cie, ok := s.Store.CIE[fc.ProofHeight]; ok {
				sp.ProofIndex = cie.Copy()
				idx := s.CS.StorageProofLeafIndex(fc.Filesize, cie.ChainIndex.ID, p.ID)
				sp.Leaf, sp.Proof = s.proof(fc.Filesize, idx, r.Pf)
			} else {
				// the block at the proof height does not exist yet: the best an early prover can do is the tip
				tip := s.Store.CIE[s.CS.Index.Height]
				sp.ProofIndex = tip.Copy() // the genuine element of the tip, whose height is below the proof height
				idx := s.CS.StorageProofLeafIndex(fc.Filesize, tip.ChainIndex.ID, p.ID)
				sp.Leaf, sp.Proof = s.proof(fc.Filesize, idx, r.Pf)
			}
			res = sp
		case "renew":
			nc := s.c2(r.Ren.Nc)
			s.signC2(&nc, r.Ren.Nc.Rk, r.Ren.Nc.Hk, r.Ren.Nc.Auth)
			ren := &types.V2FileContractRenewal{
				FinalRenterOutput: types.SiacoinOutput{Value: cur(r.Ren.Fr), Address: fc.RenterOutput.Address},
				FinalHostOutput:   types.SiacoinOutput{Value: cur(r.Ren.Fh), Address: fc.HostOutput.Address},
				RenterRollover:    cur(r.Ren.Rr), HostRollover: cur(r.Ren.Hr), NewContract: nc}
			h := s.CS.RenewalSigHash(*ren)
			rk, hk := s.K.NameOfKey(fc.RenterPublicKey), s.K.NameOfKey(fc.HostPublicKey)
			ren.RenterSignature, ren.HostSignature = s.K.SK(rk).SignHash(h), s.K.SK(hk).SignHash(h)
			if r.Ren.Auth == "badsig" {
				ren.HostSignature[7] ^= 2
			}
			res = ren
			b.reg[SID{FC2, r.Cid[1], r.Cid[2], r.Cid[3], r.Cid[4] + 1}] = p.ID.V2RenewalID()
		default:
			return txn, ErrUnknown{"resolution kind " + r.Kind}
		}
		txn.FileContractResolutions = append(txn.FileContractResolutions, types.V2FileContractResolution{Parent: p, Resolution: res})
		b.reg[SID{RENTER, r.Cid[1], r.Cid[2], r.Cid[3], r.Cid[4]}] = p.ID.V2RenterOutputID()
		b.reg[SID{HOST, r.Cid[1], r.Cid[2], r.Cid[3], r.Cid[4]}] = p.ID.V2HostOutputID()
	}
	if t.Fnd != "" {
		a := s.K.Addr(t.Fnd)
		txn.NewFoundationAddress = &a
	}
	for i := 0; i < t.Att; i++ {
		a := types.Attestation{PublicKey: s.K.PK("A"), Key: fmt.Sprintf("key-%d-%d-%d", b.height, b.n, i), Value: []byte{byte(i), 1, 2}}
		a.Signature = s.K.SK("A").SignHash(s.CS.AttestationSigHash(a))
		if t.Aauth == "badsig" && i == t.Att-1 {
			a.Signature[4] ^= 1
		}
		txn.Attestations = append(txn.Attestations, a)
	}
	h := s.CS.InputSigHash(txn)
	for _, ia := range ins {
		var sigs []types.Signature
		if ia.auth != "nosig" && !(ia.owner == "Z" && ia.auth == "ok") {
			sig := s.K.SK(ia.owner).SignHash(h)
			if ia.auth == "badsig" {
				sig[9] ^= 8
			}
			sigs = []types.Signature{sig}
		}
		if ia.sf {
			txn.SiafundInputs[ia.i].SatisfiedPolicy.Signatures = sigs
		} else {
			txn.SiacoinInputs[ia.i].SatisfiedPolicy.Signatures = sigs
		}
	}
	return txn, nil
}

// NameOfKey is the inverse of PK.
func (k *Keyring) NameOfKey(pk types.PublicKey) string {
	for n := range k.sk {
		if k.PK(n) == pk {
			return n
		}
	}
	return "X"
}

// ---------------------------------------------------------------------------
// sealing, supplements, apply, revert

// Supplement is the honest store's supplement for the v1 part of a block on the current tip.
func (s *Sim) Supplement(v1 []types.Transaction) consensus.V1BlockSupplement {
	bs := consensus.V1BlockSupplement{Transactions: make([]consensus.V1TransactionSupplement, len(v1))}
	child := s.child()
	for i, txn := range v1 {
		ts := &bs.Transactions[i]
		for _, in := range txn.SiacoinInputs {
			if e, ok := s.Store.SC[in.ParentID]; ok {
				ts.SiacoinInputs = append(ts.SiacoinInputs, e.Copy())
			}
		}
		for _, in := range txn.SiafundInputs {
			if e, ok := s.Store.SF[in.ParentID]; ok {
				ts.SiafundInputs = append(ts.SiafundInputs, e.Copy())
			}
		}
		for _, r := range txn.FileContractRevisions {
			if e, ok := s.Store.FC[r.ParentID]; ok {
				ts.RevisedFileContracts = append(ts.RevisedFileContracts, e.Copy())
			}
		}
		for _, sp := range txn.StorageProofs {
			if e, ok := s.Store.FC[sp.ParentID]; ok && e.FileContract.WindowStart <= child {
				if wid, ok := s.blockID[int(e.FileContract.WindowStart)-1]; ok {
					ts.StorageProofs = append(ts.StorageProofs, consensus.V1StorageProofSupplement{FileContract: e.Copy(), WindowID: wid})
				}
			}
		}
	}
	if child < s.Net.HardforkV2.RequireHeight {
		ids := sortedKeys(s.Store.FC, func(a, b types.FileContractID) bool { return bytes.Compare(a[:], b[:]) < 0 })
		for _, id := range ids {
			if e := s.Store.FC[id]; e.FileContract.WindowEnd == child {
				bs.ExpiringFileContracts = append(bs.ExpiringFileContracts, e.Copy())
			}
		}
	}
	return bs
}

// Seal builds a block with correct miner payout, commitment and proof of work around the transactions.
func (s *Sim) Seal(v1 []types.Transaction, v2 []types.V2Transaction) types.Block {
	child := s.child()
	pay := s.CS.BlockReward()
	for _, t := range v1 {
		for _, f := range t.MinerFees {
			pay, _ = pay.AddWithOverflow(f)
		}
	}
	for _, t := range v2 {
		pay, _ = pay.AddWithOverflow(t.MinerFee)
	}
	miner := s.K.Addr("A")
	ts := GenesisTime.Add(time.Duration(child) * 10 * time.Minute)
	if t, ok := s.Timestamps[child]; ok {
		ts = t
	}
	b := types.Block{ParentID: s.CS.Index.ID, Timestamp: ts,
		MinerPayouts: []types.SiacoinOutput{{Address: miner, Value: pay}}, Transactions: v1}
	if child >= s.Net.HardforkV2.AllowHeight {
		b.V2 = &types.V2BlockData{Height: child, Transactions: v2}
		b.V2.Commitment = s.CS.Commitment(miner, b.Transactions, b.V2Transactions())
	} else if len(v2) > 0 {
		// v2 transactions cannot be carried by a block without v2 data; carry them anyway so that the
		// era defect is what makes the block invalid
		b.V2 = &types.V2BlockData{Height: child, Transactions: v2}
		b.V2.Commitment = s.CS.Commitment(miner, b.Transactions, b.V2Transactions())
	}
	for b.ID().CmpWork(s.CS.PoWTarget()) < 0 {
		b.Nonce += s.CS.NonceFactor()
	}
	return b
}

// Validate runs the real ValidateBlock under recover.
func (s *Sim) Validate(b types.Block, bs consensus.V1BlockSupplement) (err error, panicked any) {
	defer func() {
		if r := recover(); r != nil {
			panicked = r
		}
	}()
	return consensus.ValidateBlock(s.CS, b, bs), nil
}

// Apply applies a validated block and updates the store from the reported diffs.
func (s *Sim) Apply(b types.Block, bs consensus.V1BlockSupplement) consensus.ApplyUpdate {
	prev := s.CS
	var snap *Snapshot
	if s.KeepSnapshots {
		snap = s.Store.Snap()
	}
	cs, au := consensus.ApplyBlock(prev, b, bs, time.Time{})
	h := int(cs.Index.Height)
	s.blockID[h] = b.ID()
	for j := range b.MinerPayouts {
		s.real[SID{MINER, h, 0, 0, j}] = b.ID().MinerOutputID(j)
	}
	s.real[SID{FOUND, h, 0, 0, 0}] = b.ID().FoundationOutputID()
	for _, fce := range bs.ExpiringFileContracts {
		for sid, rid := range s.real {
			if sid[0] == FC1 && types.FileContractID(rid) == fce.ID {
				for j := range fce.FileContract.MissedProofOutputs {
					s.real[SID{MISSED, sid[1], sid[2], sid[3], j}] = fce.ID.MissedOutputID(j)
				}
			}
		}
	}
	s.Chain = append(s.Chain, Applied{Block: b, Supp: bs, Prev: prev, Next: cs, Update: au, Snap: snap})
	s.CS = cs
	s.applyDiffs(au)
	if s.OnApply != nil {
		s.OnApply(prev, b, au)
	}
	return au
}

// Revert reverts the tip block and updates the store from the reported inverse diffs.
func (s *Sim) Revert() (Applied, consensus.RevertUpdate) {
	a := s.Chain[len(s.Chain)-1]
	s.Chain = s.Chain[:len(s.Chain)-1]
	ru := consensus.RevertBlock(a.Prev, a.Block, a.Supp)
	h := s.CS.Index.Height
	s.revertDiffs(ru, h)
	delete(s.blockID, int(h))
	s.CS = a.Prev
	if s.OnRevert != nil {
		s.OnRevert(a.Prev, a.Block, ru)
	}
	return a, ru
}

// ---------------------------------------------------------------------------
// projection

// Compare checks the store and state against the abstract post-state; it returns a list of differences.
func (s *Sim) Compare(p *Post) []string {
	var diffs []string
	add := func(f string, a ...any) { diffs = append(diffs, fmt.Sprintf(f, a...)) }
	if s.CS.Index.Height != p.H {
		add("height %d, spec %d", s.CS.Index.Height, p.H)
	}
	if s.CS.SiafundTaxRevenue != cur(p.Pool) {
		add("siafund pool %v, spec %d", s.CS.SiafundTaxRevenue.ExactString(), p.Pool)
	}
	if s.CS.Attestations != p.Att {
		add("%d attestations so far, spec %d", s.CS.Attestations, p.Att)
	}
	if s.CS.FoundationSubsidyAddress != s.K.Addr(p.Fnd.P) || s.CS.FoundationManagementAddress != s.K.Addr(p.Fnd.M) {
		add("foundation addresses %s/%s, spec %s/%s", s.K.NameOf(s.CS.FoundationSubsidyAddress), s.K.NameOf(s.CS.FoundationManagementAddress), p.Fnd.P, p.Fnd.M)
	}
	getID := func(raw json.RawMessage) SID { var id SID; json.Unmarshal(raw, &id); return id }
	u64 := func(raw json.RawMessage) uint64 { var v uint64; json.Unmarshal(raw, &v); return v }
	str := func(raw json.RawMessage) string { var v string; json.Unmarshal(raw, &v); return v }
	if len(p.SC) != len(s.Store.SC) {
		add("%d unspent siacoin elements, spec %d", len(s.Store.SC), len(p.SC))
	}
	for _, row := range p.SC {
		id := getID(row[0])
		rid, ok := s.real[id]
		if !ok {
			add("siacoin element %v: no real id known", id)
			continue
		}
		e, ok := s.Store.SC[types.SiacoinOutputID(rid)]
		if !ok {
			add("siacoin element %v missing from the store", id)
			continue
		}
		if id[0] == FOUND {
			// the Foundation subsidy is opaque in the model: only owner and maturity are compared
			if e.SiacoinOutput.Address != s.K.Addr(str(row[2])) || e.MaturityHeight != u64(row[3]) {
				add("foundation subsidy %v: addr %s mat %d, spec %s %d", id, s.K.NameOf(e.SiacoinOutput.Address), e.MaturityHeight, str(row[2]), u64(row[3]))
			}
			continue
		}
		if e.SiacoinOutput.Value != cur(u64(row[1])) || e.SiacoinOutput.Address != s.K.Addr(str(row[2])) || e.MaturityHeight != u64(row[3]) {
			add("siacoin element %v: value %s addr %s maturity %d, spec %d %s %d", id, e.SiacoinOutput.Value.ExactString(), s.K.NameOf(e.SiacoinOutput.Address), e.MaturityHeight, u64(row[1]), str(row[2]), u64(row[3]))
		}
	}
	if len(p.SF) != len(s.Store.SF) {
		add("%d unspent siafund elements, spec %d", len(s.Store.SF), len(p.SF))
	}
	for _, row := range p.SF {
		id := getID(row[0])
		rid, ok := s.real[id]
		if !ok {
			add("siafund element %v: no real id known", id)
			continue
		}
		e, ok := s.Store.SF[types.SiafundOutputID(rid)]
		if !ok {
			add("siafund element %v missing from the store", id)
			continue
		}
		if e.SiafundOutput.Value != u64(row[1]) || e.SiafundOutput.Address != s.K.Addr(str(row[2])) || e.ClaimStart != cur(u64(row[3])) {
			add("siafund element %v: value %d addr %s claimStart %s, spec %d %s %d", id, e.SiafundOutput.Value, s.K.NameOf(e.SiafundOutput.Address), e.ClaimStart.ExactString(), u64(row[1]), str(row[2]), u64(row[3]))
		}
	}
	if len(p.C1) != len(s.Store.FC) {
		add("%d unresolved v1 contracts, spec %d", len(s.Store.FC), len(p.C1))
	}
	for _, row := range p.C1 {
		id := getID(row[0])
		var c AbsC1
		json.Unmarshal(row[1], &c)
		rid, ok := s.real[id]
		if !ok {
			add("v1 contract %v: no real id known", id)
			continue
		}
		e, ok := s.Store.FC[types.FileContractID(rid)]
		if !ok {
			add("v1 contract %v missing from the store", id)
			continue
		}
		want := s.c1(c)
		if fmt.Sprint(e.FileContract) != fmt.Sprint(want) {
			add("v1 contract %v: %+v, spec %+v", id, e.FileContract, want)
		}
	}
	if len(p.C2) != len(s.Store.V2FC) {
		add("%d unresolved v2 contracts, spec %d", len(s.Store.V2FC), len(p.C2))
	}
	for _, row := range p.C2 {
		id := getID(row[0])
		var c AbsC2
		json.Unmarshal(row[1], &c)
		rid, ok := s.real[id]
		if !ok {
			add("v2 contract %v: no real id known", id)
			continue
		}
		e, ok := s.Store.V2FC[types.FileContractID(rid)]
		if !ok {
			add("v2 contract %v missing from the store", id)
			continue
		}
		want := s.c2(c)
		got := e.V2FileContract
		got.RenterSignature, got.HostSignature = types.Signature{}, types.Signature{}
		if got != want {
			add("v2 contract %v: %+v, spec %+v", id, got, want)
		}
	}
	return diffs
}

// Sums returns the terms of the ledger equation computed from the store.
func (s *Sim) Sums() (utxo, locked1, locked2, pool *big.Int, sfTotal uint64) {
	utxo, locked1, locked2 = new(big.Int), new(big.Int), new(big.Int)
	for _, e := range s.Store.SC {
		utxo.Add(utxo, e.SiacoinOutput.Value.Big())
	}
	for _, e := range s.Store.FC {
		for _, o := range e.FileContract.ValidProofOutputs {
			locked1.Add(locked1, o.Value.Big())
		}
	}
	for _, e := range s.Store.V2FC {
		locked2.Add(locked2, e.V2FileContract.RenterOutput.Value.Big())
		locked2.Add(locked2, e.V2FileContract.HostOutput.Value.Big())
	}
	for _, e := range s.Store.SF {
		sfTotal += e.SiafundOutput.Value
	}
	return utxo, locked1, locked2, s.CS.SiafundTaxRevenue.Big(), sfTotal
}

// VerifyStore checks every live element of the store (and every chain index element) against the
// current accumulator; it returns a description of each element that does not verify.
func (s *Sim) VerifyStore() []string {
	var bad []string
	acc := s.CS.Elements
	for id, e := range s.Store.SC {
		e := e.Copy()
		if !acc.VerifContainsLeaf(consensus.VerifSiacoinLeaf(&e, false)) {
			bad = append(bad, fmt.Sprintf("siacoin element %v", id))
		}
	}
	for id, e := range s.Store.SF {
		e := e.Copy()
		if !acc.VerifContainsLeaf(consensus.VerifSiafundLeaf(&e, false)) {
			bad = append(bad, fmt.Sprintf("siafund element %v", id))
		}
	}
	for id, e := range s.Store.FC {
		e := e.Copy()
		if !acc.VerifContainsLeaf(consensus.VerifFileContractLeaf(&e, nil, false)) {
			bad = append(bad, fmt.Sprintf("v1 contract %v", id))
		}
	}
	for id, e := range s.Store.V2FC {
		e := e.Copy()
		if !acc.VerifContainsLeaf(consensus.VerifV2FileContractLeaf(&e, nil, false)) {
			bad = append(bad, fmt.Sprintf("v2 contract %v", id))
		}
	}
	for h, e := range s.Store.CIE {
		e := e.Copy()
		if !acc.VerifContainsLeaf(consensus.VerifChainIndexLeaf(&e)) {
			bad = append(bad, fmt.Sprintf("chain index %d", h))
		}
	}
	for id, e := range s.Store.GoneSC {
		e := e.Copy()
		if !acc.VerifContainsLeaf(consensus.VerifSiacoinLeaf(&e, true)) {
			bad = append(bad, fmt.Sprintf("spent siacoin element %v (as spent)", id))
		}
	}
	for id, e := range s.Store.GoneSF {
		e := e.Copy()
		if !acc.VerifContainsLeaf(consensus.VerifSiafundLeaf(&e, true)) {
			bad = append(bad, fmt.Sprintf("spent siafund element %v (as spent)", id))
		}
	}
	for id, e := range s.Store.GoneFC {
		e := e.Copy()
		if !acc.VerifContainsLeaf(consensus.VerifFileContractLeaf(&e, nil, true)) {
			bad = append(bad, fmt.Sprintf("resolved v1 contract %v (as resolved)", id))
		}
	}
	for id, e := range s.Store.GoneV2FC {
		e := e.Copy()
		if !acc.VerifContainsLeaf(consensus.VerifV2FileContractLeaf(&e, nil, true)) {
			bad = append(bad, fmt.Sprintf("resolved v2 contract %v (as resolved)", id))
		}
	}
	sort.Strings(bad)
	return bad
}

// DiffSnap compares the live store with a snapshot as sets of (id, fields, leaf index).
func (s *Sim) DiffSnap(snap *Snapshot) []string {
	var out []string
	strip := func(se types.StateElement) types.StateElement { se.MerkleProof = nil; return se.Move() }
	for id, want := range snap.SC {
		got, ok := s.Store.SC[id]
		if !ok {
			out = append(out, fmt.Sprintf("siacoin element %v missing", id))
			continue
		}
		got.StateElement, want.StateElement = strip(got.StateElement), strip(want.StateElement)
		if fmt.Sprintf("%+v", got) != fmt.Sprintf("%+v", want) {
			out = append(out, fmt.Sprintf("siacoin element %v: %+v, before the block %+v", id, got, want))
		}
	}
	for id := range s.Store.SC {
		if _, ok := snap.SC[id]; !ok {
			out = append(out, fmt.Sprintf("siacoin element %v should not exist", id))
		}
	}
	for id, want := range snap.SF {
		got, ok := s.Store.SF[id]
		if !ok {
			out = append(out, fmt.Sprintf("siafund element %v missing", id))
			continue
		}
		got.StateElement, want.StateElement = strip(got.StateElement), strip(want.StateElement)
		if fmt.Sprintf("%+v", got) != fmt.Sprintf("%+v", want) {
			out = append(out, fmt.Sprintf("siafund element %v: %+v, before the block %+v", id, got, want))
		}
	}
	for id := range s.Store.SF {
		if _, ok := snap.SF[id]; !ok {
			out = append(out, fmt.Sprintf("siafund element %v should not exist", id))
		}
	}
	for id, want := range snap.FC {
		got, ok := s.Store.FC[id]
		if !ok {
			out = append(out, fmt.Sprintf("v1 contract %v missing", id))
			continue
		}
		got.StateElement, want.StateElement = strip(got.StateElement), strip(want.StateElement)
		if fmt.Sprintf("%+v", got) != fmt.Sprintf("%+v", want) {
			out = append(out, fmt.Sprintf("v1 contract %v: %+v, before the block %+v", id, got, want))
		}
	}
	for id := range s.Store.FC {
		if _, ok := snap.FC[id]; !ok {
			out = append(out, fmt.Sprintf("v1 contract %v should not exist", id))
		}
	}
	for id, want := range snap.V2FC {
		got, ok := s.Store.V2FC[id]
		if !ok {
			out = append(out, fmt.Sprintf("v2 contract %v missing", id))
			continue
		}
		got.StateElement, want.StateElement = strip(got.StateElement), strip(want.StateElement)
		if fmt.Sprintf("%+v", got) != fmt.Sprintf("%+v", want) {
			out = append(out, fmt.Sprintf("v2 contract %v: %+v, before the block %+v", id, got, want))
		}
	}
	for id := range s.Store.V2FC {
		if _, ok := snap.V2FC[id]; !ok {
			out = append(out, fmt.Sprintf("v2 contract %v should not exist", id))
		}
	}
	sort.Strings(out)
	return out
}

// NewSimOn creates a chain on a prepared network with explicit genesis allocations (real magnitudes).
func NewSimOn(p Params, net *consensus.Network, sc []types.SiacoinOutput, sf []types.SiafundOutput) *Sim {
	k := p.Keyring
	if k == nil {
		k = NewKeyring()
	}
	s := &Sim{P: p, K: k, Net: net, Store: newStore(), blockID: map[int]types.BlockID{}, real: map[SID][32]byte{}}
	gtx := types.Transaction{SiacoinOutputs: sc, SiafundOutputs: sf}
	s.Gen = types.Block{Timestamp: GenesisTime, Transactions: []types.Transaction{gtx}}
	cs, au := consensus.ApplyBlock(net.GenesisState(), s.Gen, consensus.V1BlockSupplement{Transactions: make([]consensus.V1TransactionSupplement, 1)}, time.Time{})
	s.CS = cs
	registerV1(s.real, 0, 0, gtx)
	s.blockID[0] = s.Gen.ID()
	s.applyDiffs(au)
	return s
}

// SortedIDs returns the keys of an element map in a fixed order (so that seeded runs are reproducible).
func SortedIDs[K ~[32]byte, V any](m map[K]V) []K {
	return sortedKeys(m, func(a, b K) bool { return bytes.Compare(a[:], b[:]) < 0 })
}
