// C15 — Currency arithmetic is exact 128-bit arithmetic with faithful overflow reporting.
//
//  1. TLC proves the transcription of the algorithms (spec/currency/Currency.tla) exact for
//     every operand pair at limb widths W = 2..4 (thorough: ..5).
//  2. The real 64-bit code is run on boundary × boundary pairs, structured and random pairs,
//     constructed division cases; every result, flag and panic is logged as BigNat limbs and
//     TLC validates each line against spec/currency/CurrencyTrace.tla (exact arithmetic).
//  3. Text forms: digits of every printed form, unit rule, round trips, and a catalogue of
//     literals the parser must reject.
package main

import (
	"fmt"
	"math/big"
	"math/bits"
	"math/rand"
	"strconv"
	"strings"
	"time"

	"go.sia.tech/core/types"
	"verif/harness/vlib"
)

type pair struct{ a, b types.Currency }

func cur(x *big.Int) types.Currency {
	return types.NewCurrency(x.Uint64(), new(big.Int).Rsh(x, 64).Uint64())
}

func boundary() []types.Currency {
	var out []types.Currency
	seen := map[types.Currency]bool{}
	add := func(b *big.Int) {
		for d := -2; d <= 2; d++ {
			x := new(big.Int).Add(b, big.NewInt(int64(d)))
			if x.Sign() < 0 || x.BitLen() > 128 {
				continue
			}
			c := cur(x)
			if !seen[c] {
				seen[c] = true
				out = append(out, c)
			}
		}
	}
	for _, s := range []uint{0, 32, 63, 64, 65, 96, 127, 128} {
		add(new(big.Int).Lsh(big.NewInt(1), s))
	}
	add(big.NewInt(10000))
	add(types.HastingsPerSiacoin.Big())
	return out
}

func structured(r *rand.Rand) types.Currency {
	part := func() uint64 {
		switch r.Intn(9) {
		case 0:
			return 0
		case 1:
			return 1
		case 2:
			return 1 << 32
		case 3:
			return 1 << 63
		case 4:
			return ^uint64(0)
		case 5:
			return ^uint64(0) - uint64(r.Intn(3))
		case 6:
			return uint64(r.Intn(4))
		default:
			return r.Uint64() >> uint(r.Intn(64))
		}
	}
	return types.NewCurrency(part(), part())
}

func randMag(r *rand.Rand) types.Currency {
	n := r.Intn(129)
	x := new(big.Int).Rand(r, new(big.Int).Lsh(big.NewInt(1), uint(n)))
	return cur(x)
}

func L(c types.Currency) []int { return vlib.Limbs(c.Big()) }

func arith(a, b types.Currency) map[string]any {
	e := map[string]any{"ev": "arith", "a": L(a), "b": L(b), "b64": vlib.Limbs(new(big.Int).SetUint64(b.Lo))}
	s, of := a.AddWithOverflow(b)
	e["add"], e["addOf"] = L(s), of
	e["addPanic"], _ = vlib.Recover(func() { a.Add(b) })
	d, uf := a.SubWithUnderflow(b)
	e["sub"], e["subUf"] = L(d), uf
	e["subPanic"], _ = vlib.Recover(func() { a.Sub(b) })
	m, of := a.MulWithOverflow(b)
	e["mul"], e["mulOf"] = L(m), of
	e["mulPanic"], _ = vlib.Recover(func() { a.Mul(b) })
	m6, of := a.Mul64WithOverflow(b.Lo)
	e["mul64"], e["mul64Of"] = L(m6), of
	e["mul64Panic"], _ = vlib.Recover(func() { a.Mul64(b.Lo) })
	var q, q6 types.Currency
	e["divPanic"], _ = vlib.Recover(func() { q = a.Div(b) })
	e["div"] = L(q)
	e["div64Panic"], _ = vlib.Recover(func() { q6 = a.Div64(b.Lo) })
	e["div64"] = L(q6)
	e["cmp"] = a.Cmp(b)
	e["eq"] = a.Equals(b)
	e["zero"] = a.IsZero()
	return e
}

func digits(s string) ([]int, bool) {
	out := []int{}
	for _, ch := range s {
		if ch < '0' || ch > '9' {
			return nil, false
		}
		out = append(out, int(ch-'0'))
	}
	return out, true
}

var units = map[string]int{"H": 0, "pS": 4, "nS": 5, "uS": 6, "mS": 7, "SC": 8, "KS": 9, "MS": 10, "GS": 11, "TS": 12}

// text splits the printed forms lexically (no arithmetic happens here).
func text(c *vlib.Ctx, a types.Currency) map[string]any {
	e := map[string]any{"ev": "text", "a": L(a)}
	// a printed form outside the grammar of the specification (digits; digits[.digits] unit) is behaviour of the real
	// code, not a problem of the harness
	bad := func(what, s string) {
		c.Violation("text-form-outside-the-printed-grammar/"+what, fmt.Sprintf("the %s form of %v is %q, which is not in the grammar of the specification", what, a.Big(), s), map[string]any{"value": a.Big().String(), "form": what, "text": s})
	}
	ex := a.ExactString()
	d, ok := digits(ex)
	if !ok {
		bad("exact", ex)
	}
	e["exact"] = d
	js, _ := a.MarshalText()
	if d, ok = digits(string(js)); !ok {
		bad("json", string(js))
	}
	e["json"] = d
	fd := fmt.Sprintf("%d", a)
	if d, ok = digits(fd); !ok {
		bad("%d", fd)
	}
	e["fmtd"] = d
	us := a.String()
	sp := strings.SplitN(us, " ", 2)
	u, okU := -1, false
	if len(sp) == 2 {
		u, okU = units[sp[1]]
	}
	if !okU {
		bad("unit", us)
		sp = []string{"0", ""}
	}
	mf := strings.SplitN(sp[0], ".", 2)
	mant, ok1 := digits(mf[0])
	frac, ok2 := []int{}, true
	if len(mf) == 2 {
		frac, ok2 = digits(mf[1])
	}
	if !ok1 || !ok2 {
		bad("unit", us)
	}
	e["unit"], e["mant"], e["frac"] = u, mant, frac
	rt := func(s string) bool { p, err := types.ParseCurrency(s); return err == nil && p == a }
	e["rtExact"], e["rtUnit"], e["rtFmtd"] = rt(ex), rt(us), rt(fd)
	var back types.Currency
	e["rtJSON"] = back.UnmarshalText(js) == nil && back == a
	e["str"] = us
	return e
}

// literal builds a decimal literal and records what the parser did with it.
func literal(neg bool, mant, frac string, unit string) map[string]any {
	s := mant
	if frac != "" {
		s += "." + frac
	}
	if neg {
		s = "-" + s
	}
	exp := 0
	if unit != "" {
		s += " " + unit
		exp = units[unit] * 3
	}
	md, _ := digits(mant)
	fd, _ := digits(frac)
	v, err := types.ParseCurrency(s)
	return map[string]any{"ev": "parse", "lit": s, "neg": neg, "mant": md, "frac": fd, "exp": exp,
		"accepted": err == nil, "value": L(v)}
}

func main() {
	c := vlib.Start("C15")
	r := rand.New(rand.NewSource(c.Seed))
	c.Rule("TLC: all operand pairs at limb width W (design invariant Exact). Trace: boundary×boundary pairs around 0,2^32,2^63,2^64,2^65,2^96,2^127,2^128-1,10^4,10^24 (±2), structured limb patterns, magnitude-stratified random pairs, constructed quotient cases; one line = one operand pair with all operations, or one value with all text forms, or one literal. Non-trivial = distinct line whose operands are both non-zero (arith), any value (text), any literal (parse).")
	c.Assume("BigNat (cross-checked against TLC integers by spec/lib/BigNatTest) is the arithmetic oracle")
	c.Assume("limb-width-W transcription shares the structure of the 64-bit code; the trace binds the real code")

	// 0. BigNat self-check
	c.MustTLC(vlib.TLCOpts{Module: "BigNatTest", Config: "BigNatTest.cfg"})

	// 1. design level: transcription exact at small widths
	ws := []int{2, 3, 4}
	if c.Thorough {
		ws = append(ws, 5)
	}
	for _, w := range ws {
		res := c.MustTLC(vlib.TLCOpts{SpecDirs: []string{"currency"}, Module: "Currency", Config: fmt.Sprintf("CurrencyW%d.cfg", w), Workers: 16})
		c.Cov(fmt.Sprintf("pairs_W%d", w), res.Distinct)
	}

	// 2. real code → trace
	var cases []map[string]any
	seen := map[pair]bool{}
	nontriv := int64(0)
	addPair := func(a, b types.Currency) {
		p := pair{a, b}
		if seen[p] {
			return
		}
		seen[p] = true
		if !a.IsZero() && !b.IsZero() {
			nontriv++
		}
		cases = append(cases, arith(a, b))
	}
	bs := boundary()
	for _, a := range bs {
		for _, b := range bs {
			addPair(a, b)
		}
	}
	nStruct, nRand, nDiv := c.Pick(1500, 60000), c.Pick(1500, 60000), c.Pick(1000, 40000)
	for i := 0; i < nStruct; i++ {
		addPair(structured(r), structured(r))
	}
	for i := 0; i < nRand; i++ {
		addPair(randMag(r), randMag(r))
	}
	// constructed division cases: a = q*v + rem with rem ∈ {0, v-1, random}
	for i := 0; i < nDiv; i++ {
		v := randMag(r)
		if r.Intn(2) == 0 {
			v = structured(r)
		}
		if v.IsZero() {
			continue
		}
		vb := v.Big()
		maxq := new(big.Int).Div(types.MaxCurrency.Big(), vb)
		q := new(big.Int).Rand(r, new(big.Int).Add(maxq, big.NewInt(1)))
		if r.Intn(3) == 0 {
			q = maxq
		}
		var rem *big.Int
		switch r.Intn(3) {
		case 0:
			rem = big.NewInt(0)
		case 1:
			rem = new(big.Int).Sub(vb, big.NewInt(1))
		default:
			rem = new(big.Int).Rand(r, vb)
		}
		a := new(big.Int).Add(new(big.Int).Mul(q, vb), rem)
		if a.BitLen() > 128 {
			a = new(big.Int).Mul(q, vb)
		}
		addPair(cur(a), v)
	}
	// vacuity guard: each term of the MulWithOverflow predicate must be decisive alone somewhere
	single := map[string]int{}
	for p := range seen {
		_, lohi := bits.Mul64(p.a.Lo, p.b.Lo)
		_ = lohi
		hi, _ := bits.Mul64(p.a.Lo, p.b.Lo)
		p0, p1 := bits.Mul64(p.a.Hi, p.b.Lo)
		p2, p3 := bits.Mul64(p.a.Lo, p.b.Hi)
		h1, c0 := bits.Add64(hi, p1, 0)
		_, c1 := bits.Add64(h1, p3, 0)
		terms := []struct {
			n string
			v bool
		}{{"hh", p.a.Hi != 0 && p.b.Hi != 0}, {"p0", p0 != 0}, {"p2", p2 != 0}, {"c0", c0 != 0}, {"c1", c1 != 0}}
		cnt, which := 0, ""
		for _, t := range terms {
			if t.v {
				cnt++
				which = t.n
			}
		}
		if cnt == 1 {
			single[which]++
		}
	}
	c.Cov("mul_overflow_single_term_cases", single)
	for _, k := range []string{"hh", "p0", "p2", "c0", "c1"} {
		if single[k] == 0 {
			c.Infra("vacuity: no operand pair makes the %s term of the MulWithOverflow predicate decisive", k)
		}
	}

	nArith := len(cases)
	// text forms
	vals := append([]types.Currency{}, bs...)
	for i := 0; i < c.Pick(1500, 40000); i++ {
		switch i % 3 {
		case 0:
			vals = append(vals, randMag(r))
		case 1:
			vals = append(vals, structured(r))
		default: // round numbers in every unit
			k := r.Intn(39)
			x := new(big.Int).Exp(big.NewInt(10), big.NewInt(int64(k)), nil)
			x.Mul(x, big.NewInt(int64(1+r.Intn(9999))))
			if x.BitLen() <= 128 {
				vals = append(vals, cur(x))
			}
		}
	}
	for _, v := range vals {
		cases = append(cases, text(c, v))
		nontriv++
	}
	// literals
	nLit := 0
	unitNames := []string{"", "H", "pS", "nS", "uS", "mS", "SC", "KS", "MS", "GS", "TS"}
	rd := func(n int) string {
		var sb strings.Builder
		for i := 0; i < n; i++ {
			sb.WriteByte(byte('0' + r.Intn(10)))
		}
		return sb.String()
	}
	max := types.MaxCurrency.Big()
	for _, x := range []*big.Int{max, new(big.Int).Add(max, big.NewInt(1)), new(big.Int).Add(max, big.NewInt(2)), new(big.Int).Lsh(big.NewInt(1), 129)} {
		cases = append(cases, literal(false, x.String(), "", ""), literal(false, x.String(), "", "H"), literal(true, x.String(), "", ""))
		nLit += 3
	}
	for _, u := range unitNames {
		for _, neg := range []bool{false, true} {
			for _, m := range []string{"0", "1", "340282366920938463463374607431768211455", "340282366920938463463374607431768211456", "340282366", "340282367", "340", "341"} {
				for _, f := range []string{"", "0", "5", "000000000000", "0000000000001", "463463374607431768211455", "463463374607431768211456"} {
					if (u == "" || u == "H") && f != "" && r.Intn(2) == 0 {
						continue
					}
					cases = append(cases, literal(neg, m, f, u))
					nLit++
				}
			}
		}
	}
	for i := 0; i < c.Pick(1500, 30000); i++ {
		u := unitNames[r.Intn(len(unitNames))]
		f := ""
		if r.Intn(3) > 0 {
			f = rd(r.Intn(40))
			if r.Intn(2) == 0 {
				f += strings.Repeat("0", r.Intn(4))
			}
		}
		cases = append(cases, literal(r.Intn(5) == 0, strconv.Itoa(r.Intn(1000))+rd(r.Intn(30)), f, u))
		nLit++
	}
	nontriv += int64(nLit)
	accepted := 0
	for _, e := range cases {
		if e["ev"] == "parse" && e["accepted"] == true {
			accepted++
		}
	}
	c.Cov("arith_lines", nArith)
	c.Cov("text_lines", len(vals))
	c.Cov("literal_lines", nLit)
	c.Cov("literals_accepted", accepted)
	if accepted == 0 || accepted == nLit {
		c.Infra("vacuity: parser accepted %d of %d literals", accepted, nLit)
	}
	c.Sample(cases[len(bs)+3])
	c.Sample(cases[nArith+5])
	c.Sample(cases[len(cases)-1])

	// 3. TLC validates the trace
	const chunk = 64
	res, err := c.TLC(vlib.TLCOpts{SpecDirs: []string{"currency"}, Module: "CurrencyTrace", Config: "CurrencyTrace.cfg",
		Files: map[string][]byte{"trace.ndjson": vlib.NDJSON(cases)}, Workers: 16, Timeout: 25 * time.Minute, Xss: "64m"})
	if err != nil {
		c.Fatal("trace validation: %v", err)
	}
	if res.Violated != "" {
		c.Fatal("trace spec failed to evaluate: %s", vlib.Tail(res.Out, 1500))
	}
	want := int64(1 + (len(cases)+chunk-1)/chunk + len(cases))
	if res.Distinct != want {
		c.Fatal("trace not fully consumed: %d states, expected %d\n%s", res.Distinct, want, vlib.Tail(res.Out, 800))
	}
	c.Traces(1)
	c.Count(int64(len(cases)), nontriv)
	for _, ln := range res.Lines {
		if !strings.HasPrefix(ln, "REJECT ") {
			continue
		}
		f := strings.SplitN(ln, " ", 3)
		idx, _ := strconv.Atoi(f[1])
		if idx < 1 || idx > len(cases) {
			c.Infra("bad reject line %q", ln)
			continue
		}
		e := cases[idx-1]
		// reproduce on the real code: the logged line must be what the code does now
		var again map[string]any
		switch e["ev"] {
		case "arith":
			again = arith(cur(vlib.FromLimbs(e["a"].([]int))), cur(vlib.FromLimbs(e["b"].([]int))))
		case "text":
			again = text(c, cur(vlib.FromLimbs(e["a"].([]int))))
		default:
			again = e
		}
		if fmt.Sprint(again) != fmt.Sprint(e) {
			c.Infra("rejected line %d does not reproduce", idx)
			continue
		}
		key := strings.ReplaceAll(strings.ToLower(f[2]), " ", "-")
		c.Violation(key, fmt.Sprintf("%s: %v", f[2], e), e)
	}
	c.Finish()
}
