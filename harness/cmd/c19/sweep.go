package main

// Size sweep of the RHP2 framing (spec/net/FrameSizes.tla): TLC walks every encoded object length within W bytes of a
// boundary of the framing rules (writer: pad / do not pad; reader: at / above the floor of its limit) and, per
// length, the caller's limits on both sides of the declared size. Each SIZE record states what must be on the wire
// and what the reader must do. The harness sends a real object of exactly that length over real transport pairs in
// all three modes (WriteRequest→ReadID+ReadRequest, WriteResponse/WriteResponseErr→ReadResponse, →RawResponse+
// VerifyTag), many messages per session in ascending, descending and shuffled order, and compares.

import (
	"bytes"
	"encoding/json"
	"errors"
	"fmt"
	"io"
	"math/rand"
	"sort"
	"strings"
	"sync"
	"sync/atomic"
	"time"

	rhp2 "go.sia.tech/core/rhp/v2"
	"go.sia.tech/core/types"
	"verif/harness/vlib"
)

// sizeCase is one SIZE record of FrameSizes.tla.
type sizeCase struct {
	P        int    `json:"p"`        // encoded object bytes (responses: flag byte included)
	M        int    `json:"m"`        // the caller's limit
	Total    int    `json:"total"`    // frame bytes, prefix included
	Decl     int    `json:"decl"`     // what the prefix declares
	Pad      int    `json:"pad"`      // padding bytes
	Lim      int    `json:"lim"`      // the limit the reader applies
	Accept   bool   `json:"accept"`   // the reader hands the object over
	Consumed int    `json:"consumed"` // bytes the reader takes (refused: the prefix only)
	Zone     string `json:"zone"`     // padded | exact | unpadded | overfloor
	Edge     bool   `json:"edge"`     // p is the last size before / the first size at a boundary
}

func (s sizeCase) key() string { return fmt.Sprintf("p%d-m%d", s.P, s.M) }

func sizeFromJSON(m map[string]any) (sizeCase, string) {
	b, _ := json.Marshal(m)
	var s sizeCase
	json.Unmarshal(b, &s)
	return s, s.key()
}

// sweepMsg is one message of a sweep session.
type sweepMsg struct {
	C       sizeCase `json:"case"`
	Variant int      `json:"variant"` // which real object carries the bytes
	Seed    int64    `json:"seed"`
	IDOnly  bool     `json:"id_only"` // r2h: the RPC id alone (its own frame is the case)
}

// sweepObs is what the real endpoints did with one message.
type sweepObs struct {
	Decl     int    `json:"decl"`    // declared size seen on the wire (-1: the frame never appeared)
	IDDecl   int    `json:"id_decl"` // r2h: declared size of the id frame
	IDOK     bool   `json:"id_ok"`
	Accepted bool   `json:"accepted"`
	Same     bool   `json:"same"`
	Consumed int    `json:"consumed"`
	Closed   bool   `json:"closed"`
	Err      string `json:"err,omitempty"`
	Timeout  bool   `json:"timeout,omitempty"`
	Object   string `json:"object"`
	Ran      bool   `json:"ran"`
}

// sized builds a real object whose encoding (for responses: with the flag byte) has exactly p bytes.
// ok=false: no object of the direction can be that small.
func sized(dir string, p, variant int, seed int64) (m rhp2Msg, name string, ok bool) {
	type mk struct {
		name  string
		build func(r *rand.Rand, n int) (rhp2.ProtocolObject, *rhp2.RPCError)
		blank func() rhp2.ProtocolObject
	}
	var cands []mk
	if dir == "r2h" {
		cands = []mk{
			{"WriteRequest", func(r *rand.Rand, n int) (rhp2.ProtocolObject, *rhp2.RPCError) {
				return &rhp2.RPCWriteRequest{Actions: []rhp2.RPCWriteAction{{Type: rSpec(r), A: r.Uint64(), B: r.Uint64(), Data: randBytes(r, n)}},
					MerkleProof: true, RevisionNumber: r.Uint64(), ValidProofValues: fixedCurs(r, 2), MissedProofValues: fixedCurs(r, 3)}, nil
			}, func() rhp2.ProtocolObject { return new(rhp2.RPCWriteRequest) }},
			{"FormContractRequest", func(r *rand.Rand, n int) (rhp2.ProtocolObject, *rhp2.RPCError) {
				t := types.Transaction{SiacoinOutputs: fixedOutputs(r, 1), MinerFees: fixedCurs(r, 1), ArbitraryData: [][]byte{randBytes(r, n)}}
				return &rhp2.RPCFormContractRequest{RenterKey: rUnlockKey(r), Transactions: []types.Transaction{t}}, nil
			}, func() rhp2.ProtocolObject { return new(rhp2.RPCFormContractRequest) }},
		}
	} else {
		cands = []mk{
			{"SettingsResponse", func(r *rand.Rand, n int) (rhp2.ProtocolObject, *rhp2.RPCError) {
				return &rhp2.RPCSettingsResponse{Settings: randBytes(r, n)}, nil
			}, func() rhp2.ProtocolObject { return new(rhp2.RPCSettingsResponse) }},
			{"ReadResponse", func(r *rand.Rand, n int) (rhp2.ProtocolObject, *rhp2.RPCError) {
				return &rhp2.RPCReadResponse{Signature: rSig(r), Data: randBytes(r, n), MerkleProof: randHashes(r, 2)}, nil
			}, func() rhp2.ProtocolObject { return new(rhp2.RPCReadResponse) }},
			{"error", func(r *rand.Rand, n int) (rhp2.ProtocolObject, *rhp2.RPCError) {
				e := &rhp2.RPCError{Type: rSpec(r), Description: "refused by the host"}
				e.Data = randBytes(r, n)
				return nil, e
			}, func() rhp2.ProtocolObject { return new(rhp2.RPCSettingsResponse) }},
			{"error-description", func(r *rand.Rand, n int) (rhp2.ProtocolObject, *rhp2.RPCError) {
				d := make([]byte, n)
				for i := range d {
					d[i] = byte('a' + r.Intn(26))
				}
				return nil, &rhp2.RPCError{Type: rSpec(r), Data: randBytes(r, 3), Description: string(d)}
			}, func() rhp2.ProtocolObject { return new(rhp2.RPCWriteResponse) }},
		}
	}
	plainOf := func(o rhp2.ProtocolObject, e *rhp2.RPCError) int {
		if e != nil {
			return 1 + encLen(e)
		}
		if dir == "r2h" {
			return encLen(o)
		}
		return 1 + encLen(o)
	}
	for i := 0; i < len(cands); i++ {
		c := cands[(variant+i)%len(cands)]
		o0, e0 := c.build(rand.New(rand.NewSource(seed)), 0)
		n := p - plainOf(o0, e0)
		if n < 0 {
			continue
		}
		o, e := c.build(rand.New(rand.NewSource(seed)), n)
		if plainOf(o, e) != p {
			continue
		}
		m = rhp2Msg{obj: o, blank: c.blank, err: e, body: p}
		rr := rand.New(rand.NewSource(seed ^ 0x5bd1e995))
		rr.Read(m.id[:])
		m.id[0] |= 1 // never LoopExit
		return m, c.name, true
	}
	return rhp2Msg{}, "", false
}

// rhp2SweepSession sends msgs, in order, over one fresh pair of real transports in one mode and reports what the
// reader did with each of them. The session ends at the first message that is not delivered.
func rhp2SweepSession(mode string, msgs []sweepMsg) (obs []sweepObs, setup string) {
	obs = make([]sweepObs, len(msgs))
	dir := "h2r"
	if mode == "r2h" {
		dir = "r2h"
	}
	built := make([]rhp2Msg, len(msgs))
	for i, sm := range msgs {
		obs[i].Decl, obs[i].IDDecl = -1, -1
		if sm.IDOnly {
			rr := rand.New(rand.NewSource(sm.Seed))
			rr.Read(built[i].id[:])
			built[i].id[0] |= 1
			obs[i].Object = "id"
			continue
		}
		m, name, ok := sized(dir, sm.C.P, sm.Variant, sm.Seed)
		if !ok {
			return obs, fmt.Sprintf("no %s object of %d bytes", dir, sm.C.P)
		}
		built[i], obs[i].Object = m, name
	}
	var fmu sync.Mutex
	var frames []int
	plan := dirPlan{frames: -1, onFrame: func(idx, n int) {
		fmu.Lock()
		frames = append(frames, n)
		fmu.Unlock()
	}}
	frameAt := func(i int) int {
		fmu.Lock()
		defer fmu.Unlock()
		if i < len(frames) {
			return frames[i]
		}
		return -1
	}
	var ab, ba dirPlan
	if dir == "r2h" {
		plan.skip = rhp2ReqSkip
		ab = plan
	} else {
		plan.skip = rhp2RespSkip
		ba = plan
	}
	l := newLink("10.1.0.1:4001", "10.2.0.2:9982", ab, ba, 90*time.Second)
	defer l.Close()
	ca, cb := &cconn{Conn: l.A}, &cconn{Conn: l.B}
	var ht *rhp2.Transport
	var herr error
	var wg sync.WaitGroup
	wg.Add(1)
	go func() {
		defer wg.Done()
		ht, herr = rhp2.NewHostTransport(cb, rhp2HostKey)
	}()
	rt, rerr := rhp2.NewRenterTransport(ca, rhp2HostKey.PublicKey())
	wg.Wait()
	if rerr != nil || herr != nil {
		return obs, fmt.Sprintf("handshake: renter %v, host %v", rerr, herr)
	}
	writer, reader, rc := rt, ht, cb
	if dir == "h2r" {
		writer, reader, rc = ht, rt, ca
	}
	var wpanic atomic.Value
	go func() {
		if panicked, val := vlib.Recover(func() {
			for i := range msgs {
				m := built[i]
				var err error
				switch {
				case dir == "r2h" && msgs[i].IDOnly:
					err = writer.WriteRequest(m.id, nil)
				case dir == "r2h":
					err = writer.WriteRequest(m.id, m.obj)
				case m.err != nil:
					err = writer.WriteResponseErr(m.err)
				default:
					err = writer.WriteResponse(m.obj)
				}
				if err != nil {
					return
				}
			}
		}); panicked {
			wpanic.Store(fmt.Sprint(val))
			l.A.Close()
			l.B.Close()
		}
	}()
	fi := 0 // index of the next frame of the direction
	for i := range msgs {
		o := &obs[i]
		o.Ran = true
		m, c := built[i], msgs[i].C
		reader.SetReadDeadline(time.Now().Add(15 * time.Second))
		base := atomic.LoadInt64(&rc.n)
		var err error
		if dir == "r2h" {
			var id types.Specifier
			id, err = reader.ReadID()
			o.IDDecl = frameAt(fi)
			fi++
			o.IDOK = err == nil && id == m.id
			if msgs[i].IDOnly {
				o.Decl = o.IDDecl
				o.Accepted, o.Same = err == nil, o.IDOK
			}
			if err == nil && !msgs[i].IDOnly {
				base = atomic.LoadInt64(&rc.n)
				got := m.blank()
				err = reader.ReadRequest(got, uint64(c.M))
				o.Decl = frameAt(fi)
				fi++
				o.Accepted = err == nil
				o.Same = err == nil && bytes.Equal(encBytes(got), encBytes(m.obj))
			}
		} else if mode == "h2r" {
			got := m.blank()
			err = reader.ReadResponse(got, uint64(c.M))
			o.Decl = frameAt(fi)
			fi++
			var re *rhp2.RPCError
			switch {
			case m.err != nil && errors.As(err, &re):
				o.Accepted = true
				o.Same = re.Type == m.err.Type && bytes.Equal(re.Data, m.err.Data) && re.Description == m.err.Description
				err = nil
			case m.err != nil && err == nil:
				o.Accepted, o.Same = true, false // an error response surfaced as success
			case err != nil && errors.As(err, &re):
				o.Accepted, o.Same = true, false // a response object surfaced as an RPC error
				err = nil
			default:
				o.Accepted = err == nil
				o.Same = err == nil && bytes.Equal(encBytes(got), encBytes(m.obj))
			}
		} else { // raw
			var rr *rhp2.ResponseReader
			rr, err = reader.RawResponse(uint64(c.M))
			o.Decl = frameAt(fi)
			fi++
			var re *rhp2.RPCError
			switch {
			case m.err != nil && errors.As(err, &re):
				o.Accepted = true
				o.Same = re.Type == m.err.Type && bytes.Equal(re.Data, m.err.Data) && re.Description == m.err.Description
				err = nil
			case err != nil && errors.As(err, &re):
				o.Accepted, o.Same = true, false
				err = nil
			case err == nil:
				var want []byte
				if m.err == nil {
					want = encBytes(m.obj)
				}
				got := make([]byte, len(want))
				_, rerr := io.ReadFull(rr, got)
				// delivered only once the tag is verified (also after a short read)
				if err = rr.VerifyTag(); err == nil {
					o.Accepted = true
					o.Same = m.err == nil && rerr == nil && bytes.Equal(got, want)
				}
			}
		}
		o.Consumed = int(atomic.LoadInt64(&rc.n) - base)
		if err != nil {
			o.Err, o.Timeout = err.Error(), isTimeout(err)
			if w, _ := wpanic.Load().(string); w != "" {
				o.Err, o.Timeout = "the writer panicked: "+w, false
			}
		}
		o.Closed = reader.IsClosed()
		if err != nil || !o.Accepted {
			break
		}
	}
	return obs, ""
}

// judgeSize compares one message with its SIZE record; every disagreement is one (key, what).
func judgeSize(mode string, sm sweepMsg, o sweepObs) (out [][2]string) {
	c := sm.C
	pre := "rhp2-size-" + mode + "-" + c.Zone + "-"
	at := fmt.Sprintf("%s of %d bytes (%s), limit %d", o.Object, c.P, c.Zone, c.M)
	add := func(k, w string) { out = append(out, [2]string{k, at + ": " + w}) }
	if mode == "r2h" && !sm.IDOnly && !o.IDOK {
		add("rhp2-size-r2h-id-not-delivered", "the RPC id in front of the request was not delivered: "+o.Err)
		return
	}
	if o.Decl >= 0 && o.Decl != c.Decl {
		add(pre+"wire-size", fmt.Sprintf("the frame declares %d bytes, the specification demands %d (%d bytes of padding)", o.Decl, c.Decl, c.Pad))
		if !c.Accept {
			return // what the reader does with a frame of another size says nothing about its limit
		}
	}
	if c.Accept {
		switch {
		case mode == "h2r-raw" && !o.Accepted && o.Decl == c.Decl && (c.Decl-28)%16 == 0 && strings.Contains(o.Err, "message authentication failed"):
			// one class: VerifyTag pads the MAC input with 16 bytes too many when the ciphertext length is a multiple of 16
			add("rhp2-raw-verifytag-length-multiple-of-16", fmt.Sprintf("RawResponse+VerifyTag rejects an untouched frame whose plaintext (%d bytes) is a multiple of 16: %s", c.Decl-28, o.Err))
		case !o.Accepted:
			add(pre+"not-delivered", "a message within the reader's limit was not delivered: "+o.Err)
		case !o.Same:
			add(pre+"altered", "what was read is not what was written")
		case o.Consumed != c.Consumed:
			add(pre+"consumed", fmt.Sprintf("the reader took %d bytes from the connection, the frame has %d", o.Consumed, c.Consumed))
		}
		return
	}
	switch {
	case o.Accepted:
		add(pre+"over-limit-accepted", fmt.Sprintf("a frame declaring %d bytes was accepted under the limit %d", c.Decl, c.Lim))
	case o.Consumed > 8+c.Lim:
		add(pre+"read-beyond-limit", fmt.Sprintf("the reader took %d bytes for a refused frame; prefix + limit is %d", o.Consumed, 8+c.Lim))
	case !o.Closed:
		add("rhp2-size-refusal-not-closed", "size refused ("+o.Err+") but the session is not closed")
	}
	return
}

type sweepSession struct {
	Kind string     `json:"kind"` // "size"
	Mode string     `json:"mode"`
	Msgs []sweepMsg `json:"msgs"`
	Obs  []sweepObs `json:"observed,omitempty"`
}

// runSweepSession runs one session and judges every message that was reached. A read that starves is tried once
// more in a session of its own before anything is said about it.
func runSweepSession(c *vlib.Ctx, s sweepSession, seen func(mode string, sm sweepMsg, o sweepObs)) {
	obs, setup := rhp2SweepSession(s.Mode, s.Msgs)
	if setup != "" {
		c.Infra("size sweep %s: %s", s.Mode, setup)
		return
	}
	for i, o := range obs {
		if !o.Ran {
			// not reached: an earlier message ended the session unexpectedly (reported there); the rest gets a
			// session of its own (a refusal is always the last message of a planned session)
			runSweepSession(c, sweepSession{Kind: "size", Mode: s.Mode, Msgs: s.Msgs[i:]}, seen)
			return
		}
		sm := s.Msgs[i]
		if o.Timeout {
			again, setup2 := rhp2SweepSession(s.Mode, []sweepMsg{sm})
			if setup2 != "" {
				c.Infra("size sweep %s: %s", s.Mode, setup2)
				return
			}
			o = again[0]
		}
		if seen != nil {
			seen(s.Mode, sm, o)
		}
		for _, kw := range judgeSize(s.Mode, sm, o) {
			one := sweepSession{Kind: "size", Mode: s.Mode, Msgs: s.Msgs[:i+1], Obs: obs[:i+1]}
			c.Violation(kw[0], fmt.Sprintf("RHP2 %s: %s", s.Mode, kw[1]), one)
		}
	}
}

// planSweep turns the SIZE records into sessions: per mode every accepted case in ascending, descending and
// shuffled order (more shuffles in the thorough tier), chunked; every refused case closes one session.
func planSweep(cases map[string]sizeCase, r *rand.Rand, chunk, shuffles int) (sessions []sweepSession, applicable map[string]int, skipped map[string][]int) {
	applicable, skipped = map[string]int{}, map[string][]int{}
	keys := make([]string, 0, len(cases))
	for k := range cases {
		keys = append(keys, k)
	}
	sort.Slice(keys, func(i, j int) bool {
		a, b := cases[keys[i]], cases[keys[j]]
		if a.P != b.P {
			return a.P < b.P
		}
		return a.M < b.M
	})
	for _, mode := range []string{"r2h", "h2r", "h2r-raw"} {
		dir := "h2r"
		if mode == "r2h" {
			dir = "r2h"
		}
		var acc, ref []sweepMsg
		for _, k := range keys {
			cs := cases[k]
			sm := sweepMsg{C: cs}
			if _, _, ok := sized(dir, cs.P, 0, 1); !ok {
				// too small for an object of this direction: the frame of a bare RPC id (ReadID applies the floor)
				if dir != "r2h" || cs.P != 16 || cs.M != 0 {
					skipped[mode] = append(skipped[mode], cs.P)
					continue
				}
				sm.IDOnly = true
			}
			applicable[mode]++
			if cs.Accept {
				acc = append(acc, sm)
			} else {
				ref = append(ref, sm)
			}
		}
		var orders [][]sweepMsg
		asc := append([]sweepMsg(nil), acc...)
		desc := make([]sweepMsg, len(acc))
		for i := range acc {
			desc[len(acc)-1-i] = acc[i]
		}
		orders = append(orders, asc, desc)
		for s := 0; s < shuffles; s++ {
			sh := append([]sweepMsg(nil), acc...)
			r.Shuffle(len(sh), func(i, j int) { sh[i], sh[j] = sh[j], sh[i] })
			orders = append(orders, sh)
		}
		r.Shuffle(len(ref), func(i, j int) { ref[i], ref[j] = ref[j], ref[i] })
		nref := 0
		seal := func(ms []sweepMsg) {
			if nref < len(ref) {
				ms = append(ms, ref[nref])
				nref++
			}
			for i := range ms {
				ms[i].Variant, ms[i].Seed = r.Intn(4), r.Int63()
			}
			sessions = append(sessions, sweepSession{Kind: "size", Mode: mode, Msgs: ms})
		}
		for _, ord := range orders {
			for i := 0; i < len(ord); i += chunk {
				j := i + chunk
				if j > len(ord) {
					j = len(ord)
				}
				seal(append([]sweepMsg(nil), ord[i:j]...))
			}
		}
		for nref < len(ref) && len(acc) > 0 {
			seal([]sweepMsg{acc[r.Intn(len(acc))]})
		}
	}
	return
}

// edgeSlacks are the distances limit − message size at which the framing collection places real messages for the
// readers that have no frame of their own (EDGE records of FrameSizes.tla), e.g. -3..3.
var edgeSlacks []int

// edgeSizes are the object lengths directly at a boundary of the RHP2 framing rules (SIZE records with edge = TRUE),
// windowSizes all lengths the model walks: the framing collection (trace validation) places RHP2 shapes there too.
var edgeSizes, windowSizes []int

// edgeElems bounds the distances (in elements) used for RHP4 messages above 1 MiB (set from the tier).
var edgeElems = 2

// loadSizes runs FrameSizes.tla with the constants of the code and returns its SIZE cases; EDGE records fill edgeSlacks.
func loadSizes(c *vlib.Ctx) map[string]sizeCase {
	cfg := "FrameSizes.cfg"
	if c.Thorough {
		cfg = "FrameSizesWide.cfg"
		edgeElems = 1 << 30
	}
	res := c.MustTLC(vlib.TLCOpts{SpecDirs: []string{"net"}, Module: "FrameSizes", Config: cfg, Workers: 4})
	sizes := parseCases(c, res.Lines, "SIZE", sizeFromJSON)
	type edge struct {
		Slack  int  `json:"slack"`
		Accept bool `json:"accept"`
	}
	edges := parseCases(c, res.Lines, "EDGE", func(m map[string]any) (edge, string) {
		b, _ := json.Marshal(m)
		var e edge
		json.Unmarshal(b, &e)
		return e, fmt.Sprint(e.Slack)
	})
	edgeSlacks = nil
	neg, pos := 0, 0
	for _, e := range edges {
		edgeSlacks = append(edgeSlacks, e.Slack)
		if e.Accept != (e.Slack >= 0) {
			c.Fatal("FrameSizes: EDGE record %+v", e)
		}
		if e.Slack < 0 {
			neg++
		} else if e.Slack > 0 {
			pos++
		}
	}
	sort.Ints(edgeSlacks)
	zones, nedge, refused := map[string]int{}, 0, 0
	es, ws := map[int]bool{}, map[int]bool{}
	for _, s := range sizes {
		zones[s.Zone]++
		ws[s.P] = true
		if s.Edge {
			nedge++
			es[s.P] = true
		}
		if !s.Accept {
			refused++
		}
	}
	edgeSizes, windowSizes = nil, nil
	for p := range es {
		edgeSizes = append(edgeSizes, p)
	}
	for p := range ws {
		windowSizes = append(windowSizes, p)
	}
	sort.Ints(edgeSizes)
	sort.Ints(windowSizes)
	if len(sizes) < 600 || neg < 2 || pos < 2 || nedge < 8 || refused < 50 ||
		zones["padded"] == 0 || zones["exact"] == 0 || zones["unpadded"] == 0 || zones["overfloor"] == 0 {
		c.Fatal("FrameSizes enumerated too little: %d sizes (zones %v, %d at a boundary, %d refused), slacks %v", len(sizes), zones, nedge, refused, edgeSlacks)
	}
	return sizes
}

type sweepTotals struct {
	evals, distinct, sessions int64
}

// runSweep replays every SIZE case on real RHP2 sessions in every mode.
func runSweep(c *vlib.Ctx, sizes map[string]sizeCase, r *rand.Rand) sweepTotals {
	var t sweepTotals
	sessions, applicable, skipped := planSweep(sizes, rand.New(rand.NewSource(r.Int63())), c.Pick(12, 16), c.Pick(1, 10))
	var mu sync.Mutex
	ran := map[string]map[string]bool{}      // mode -> case key -> executed
	onWire := map[string]map[int]bool{}      // mode -> object length whose frame was seen on the wire
	delivered := map[string]map[string]int{} // mode -> zone -> deliveries
	refusedN := map[string]int{}
	objects := map[string]int{}
	jobs := make([]func(), 0, len(sessions))
	for _, s := range sessions {
		s := s
		jobs = append(jobs, func() {
			runSweepSession(c, s, func(mode string, sm sweepMsg, o sweepObs) {
				mu.Lock()
				defer mu.Unlock()
				t.evals++
				if ran[mode] == nil {
					ran[mode], onWire[mode], delivered[mode] = map[string]bool{}, map[int]bool{}, map[string]int{}
				}
				ran[mode][sm.C.key()] = true
				if o.Decl >= 0 {
					onWire[mode][sm.C.P] = true
				}
				if sm.C.Accept && o.Accepted && o.Same {
					delivered[mode][sm.C.Zone]++
				}
				if !sm.C.Accept && !o.Accepted {
					refusedN[mode]++
				}
				objects[mode+"/"+o.Object]++
			})
		})
	}
	t.sessions = int64(len(sessions))
	parallel(8, jobs)
	if len(sessions) > 0 {
		c.Sample(map[string]any{"size_sweep_session": sessions[0].Mode, "first_messages": sessions[0].Msgs[:min(3, len(sessions[0].Msgs))]})
	}
	// vacuity guards: every case of the model was sent in every mode, and the frames really crossed the wire
	for _, mode := range []string{"r2h", "h2r", "h2r-raw"} {
		t.distinct += int64(len(ran[mode]))
		if len(ran[mode]) != applicable[mode] || applicable[mode]+len(skipped[mode]) != len(sizes) {
			c.Infra("vacuity: size sweep %s executed %d of %d applicable cases (%d enumerated)", mode, len(ran[mode]), applicable[mode], len(sizes))
		}
		tooSmall := map[int]bool{}
		for _, p := range skipped[mode] {
			// only lengths below the smallest real object of the direction may be left out (never a window size)
			tooSmall[p] = true
			if p >= 200 {
				c.Infra("vacuity: size sweep %s: no object of %d bytes could be built", mode, p)
			}
		}
		for _, s := range sizes {
			if tooSmall[s.P] && !(mode == "r2h" && s.P == 16) {
				continue
			}
			if !onWire[mode][s.P] {
				c.Infra("vacuity: size sweep %s: no frame of an object of %d bytes was seen on the wire", mode, s.P)
				break
			}
		}
		// independent of the model: every object length whose frame is within 64 bytes of the minimum message size
		for p := 4096 - 36 - 64; p <= 4096-36+64; p++ {
			if !onWire[mode][p] {
				c.Infra("vacuity: size sweep %s: object length %d (frame of %d bytes) was not sent", mode, p, p+36)
				break
			}
		}
		for _, z := range []string{"padded", "exact", "unpadded", "overfloor"} {
			if delivered[mode][z] == 0 && c.NViolations() == 0 {
				c.Infra("vacuity: size sweep %s delivered no %s message", mode, z)
			}
		}
		if refusedN[mode] == 0 && c.NViolations() == 0 {
			c.Infra("vacuity: size sweep %s saw no refusal", mode)
		}
	}
	c.Cov("size_sweep", map[string]any{"sessions": len(sessions), "messages": t.evals, "distinct_mode_length_limit": t.distinct,
		"applicable_cases_per_mode": applicable, "lengths_below_smallest_object": skipped, "delivered_per_zone": delivered, "refused": refusedN, "objects": objects})
	return t
}

// selftestSizes corrupts the expected side of one delivered and one refused case and demands that the comparison
// notices. Nothing here produces a verdict.
func selftestSizes(c *vlib.Ctx, sizes map[string]sizeCase) {
	var acc, ref *sizeCase
	for _, k := range sortedKeys(sizes) {
		s := sizes[k]
		if s.Accept && s.Zone == "padded" && s.Edge && acc == nil {
			acc = &s
		}
		if !s.Accept && ref == nil {
			ref = &s
		}
	}
	ok := false
	if acc != nil && ref != nil {
		// the observation the specification demands, literally
		ideal := func(s sizeCase) sweepObs {
			return sweepObs{Decl: s.Decl, Accepted: s.Accept, Same: s.Accept, Consumed: s.Consumed, Closed: !s.Accept, Ran: true, Object: "selftest"}
		}
		ms := []sweepMsg{{C: *acc, Seed: 5}, {C: *ref, Seed: 6}}
		obs := []sweepObs{ideal(*acc), ideal(*ref)}
		good := len(judgeSize("h2r", ms[0], obs[0])) == 0 && len(judgeSize("h2r", ms[1], obs[1])) == 0
		bad1 := ms[0]
		bad1.C.Decl++ // one byte more on the wire than the frame has
		bad1.C.Pad++
		bad2 := ms[1]
		bad2.C.Accept, bad2.C.Lim = true, bad2.C.Decl // the specification now "demands" delivery
		bad3 := ms[0]
		bad3.C.Consumed--
		bad4 := ms[0]
		bad4.C.Accept = false // the specification now "demands" a refusal
		ok = good && len(judgeSize("h2r", bad1, obs[0])) > 0 && len(judgeSize("h2r", bad2, obs[1])) > 0 &&
			len(judgeSize("h2r", bad3, obs[0])) > 0 && len(judgeSize("h2r", bad4, obs[0])) > 0
	}
	c.Cov("selftest_sizes", map[string]bool{"corrupted_size_expectations_noticed": ok})
	if !ok {
		c.Infra("selftest: corrupted SIZE expectations were not noticed")
	}
}

func sortedKeys[T any](m map[string]T) []string {
	out := make([]string, 0, len(m))
	for k := range m {
		out = append(out, k)
	}
	sort.Strings(out)
	return out
}
