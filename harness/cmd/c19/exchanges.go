package main

// Several RPC exchanges on ONE connection (spec/net/Exchanges.tla): TLC enumerates every conversation of up to MaxEx
// exchanges (request object or not; one or two responses, objects or error responses) per protocol, with the
// preambles the protocol prescribes for every exchange; the harness carries each one out on one real RHP2 session,
// one real RHP3 stream, one RHP4 stream, one gateway stream with real objects and demands that every id, request and
// response arrives as written, in order.

import (
	"bytes"
	"encoding/json"
	"errors"
	"fmt"
	"math/rand"
	"net"
	"sort"
	"sync"
	"time"

	"go.sia.tech/core/gateway"
	rhp2 "go.sia.tech/core/rhp/v2"
	rhp3 "go.sia.tech/core/rhp/v3"
	rhp4 "go.sia.tech/core/rhp/v4"
	"go.sia.tech/core/types"
	"verif/harness/vlib"
)

type exch struct {
	Req   bool     `json:"req"`
	Resps []string `json:"resps"` // "obj" | "err"
}

type exchCase struct {
	Proto string `json:"proto"`
	Plan  []exch `json:"plan"`
}

func (ec exchCase) key() string {
	k := ec.Proto
	for _, e := range ec.Plan {
		k += fmt.Sprintf("|%v%v", e.Req, e.Resps)
	}
	return k
}

func loadExchanges(c *vlib.Ctx) (map[string]exchCase, int64) {
	mc := c.MustTLC(vlib.TLCOpts{SpecDirs: []string{"net"}, Module: "Exchanges", Config: "ExchangesMC.cfg", Workers: 2})
	res := c.MustTLC(vlib.TLCOpts{SpecDirs: []string{"net"}, Module: "Exchanges", Config: "Exchanges.cfg", Workers: 4})
	cases := parseCases(c, res.Lines, "EXCH", func(m map[string]any) (exchCase, string) {
		b, _ := json.Marshal(m)
		var ec exchCase
		json.Unmarshal(b, &ec)
		return ec, ec.key()
	})
	multi := map[string]int{}
	for _, ec := range cases {
		if len(ec.Plan) >= 2 {
			multi[ec.Proto]++
		}
	}
	if multi["rhp2"] < 100 || multi["rhp3"] < 100 || multi["rhp4"] < 100 || multi["gw"] < 2 {
		c.Fatal("Exchanges.tla enumerated too little: conversations with ≥ 2 exchanges per protocol %v", multi)
	}
	return cases, mc.Distinct + res.Distinct*0
}

// exchObs: how far the conversation got.
type exchObs struct {
	Completed int    `json:"completed"`       // exchanges carried out in full
	Stage     string `json:"stage,omitempty"` // where the first failure happened: id | request | response
	Wrong     bool   `json:"wrong"`           // something arrived, but not what was written
	Err       string `json:"err,omitempty"`
	Infra     string `json:"infra,omitempty"`
}

// exOps binds the generic conversation to one protocol's real connection.
type exOps struct {
	mkReq, mkResp  func(r *rand.Rand) (obj any, blank func() any)
	mkErr          func(r *rand.Rand) any
	callerWrite    func(id types.Specifier, req any) error
	calleeReadID   func() (types.Specifier, error)
	calleeReadReq  func(blank any) error
	calleeWriteObj func(obj any) error
	calleeWriteErr func(e any) error
	callerRead     func(blank any) error
	sameErr        func(err error, sent any) bool
	enc            func(any) []byte
	close          func()
}

var stageRank = map[string]int{"id": 0, "request": 1, "response": 2}

type exFail struct {
	ex    int
	stage string
	wrong bool
	err   string
}

func earlier(a, b *exFail) *exFail {
	switch {
	case a == nil:
		return b
	case b == nil:
		return a
	case b.ex < a.ex || (b.ex == a.ex && stageRank[b.stage] < stageRank[a.stage]):
		return b
	}
	return a
}

// runExchangeOps carries out the plan: the callee in a goroutine, the caller here.
func runExchangeOps(plan []exch, seed int64, ops exOps) exchObs {
	defer ops.close()
	r := rand.New(rand.NewSource(seed))
	type step struct {
		id         types.Specifier
		req        any
		reqBlank   func() any
		resps      []any // object or error value
		respBlanks []func() any
	}
	steps := make([]step, len(plan))
	for i, e := range plan {
		st := &steps[i]
		r.Read(st.id[:])
		st.id[0] |= 1
		if e.Req {
			st.req, st.reqBlank = ops.mkReq(r)
		}
		for _, k := range e.Resps {
			if k == "err" {
				st.resps, st.respBlanks = append(st.resps, ops.mkErr(r)), append(st.respBlanks, nil)
			} else {
				o, b := ops.mkResp(r)
				st.resps, st.respBlanks = append(st.resps, o), append(st.respBlanks, b)
			}
		}
	}
	var hostFail *exFail
	hostDone := make(chan struct{})
	go func() {
		defer close(hostDone)
		defer func() {
			if hostFail != nil {
				ops.close() // a callee that cannot go on hangs up; the caller must not wait for its deadline
			}
		}()
		for i, e := range plan {
			st := steps[i]
			id, err := ops.calleeReadID()
			if err != nil {
				hostFail = &exFail{i, "id", false, err.Error()}
				return
			}
			if id != st.id {
				hostFail = &exFail{i, "id", true, fmt.Sprintf("RPC id %x read as %x", st.id[:], id[:])}
				return
			}
			if e.Req {
				got := st.reqBlank()
				if err := ops.calleeReadReq(got); err != nil {
					hostFail = &exFail{i, "request", false, err.Error()}
					return
				}
				if !bytes.Equal(ops.enc(got), ops.enc(st.req)) {
					hostFail = &exFail{i, "request", true, "the request read is not the request written"}
					return
				}
			}
			for j, k := range e.Resps {
				if k == "err" {
					err = ops.calleeWriteErr(st.resps[j])
				} else {
					err = ops.calleeWriteObj(st.resps[j])
				}
				if err != nil {
					return // the caller's side tells
				}
			}
		}
	}()
	var callFail *exFail
	completed := 0
caller:
	for i, e := range plan {
		st := steps[i]
		if err := ops.callerWrite(st.id, st.req); err != nil {
			callFail = &exFail{i, "id", false, "write: " + err.Error()}
			break
		}
		for j, k := range e.Resps {
			if k == "err" {
				err := ops.callerRead(nil)
				switch {
				case err == nil:
					callFail = &exFail{i, "response", true, "an error response surfaced as success"}
				case !ops.sameErr(err, st.resps[j]):
					callFail = &exFail{i, "response", isRPCError(err), "error response: " + err.Error()}
				}
			} else {
				got := st.respBlanks[j]()
				err := ops.callerRead(got)
				switch {
				case err != nil:
					callFail = &exFail{i, "response", isRPCError(err), err.Error()}
				case !bytes.Equal(ops.enc(got), ops.enc(st.resps[j])):
					callFail = &exFail{i, "response", true, "the response read is not the response written"}
				}
			}
			if callFail != nil {
				break caller
			}
		}
		completed++
	}
	if callFail != nil {
		ops.close() // unblock the callee
	}
	select {
	case <-hostDone:
	case <-time.After(20 * time.Second):
		return exchObs{Infra: "the callee did not finish"}
	}
	o := exchObs{Completed: completed}
	if f := earlier(callFail, hostFail); f != nil {
		o.Stage, o.Wrong, o.Err = f.stage, f.wrong, fmt.Sprintf("exchange %d, %s: %s", f.ex+1, f.stage, f.err)
		if f.ex < o.Completed {
			o.Completed = f.ex
		}
	}
	return o
}

func isRPCError(err error) bool {
	var e2 *rhp2.RPCError
	var e3 *rhp3.RPCError
	var e4 *rhp4.RPCError
	return errors.As(err, &e2) || errors.As(err, &e3) || errors.As(err, &e4)
}

func smallShape(r *rand.Rand, c fobj) []int {
	n := make([]int, len(c.groups))
	for j := range n {
		n[j] = r.Intn(min(c.rnd[j], 12)/2 + 2)
	}
	return n
}

func pickDir(cat []fobj, dir string) (out []fobj) {
	for _, c := range cat {
		if c.dir == dir {
			out = append(out, c)
		}
	}
	return
}

func catMk(cat []fobj) func(r *rand.Rand) (any, func() any) {
	return func(r *rand.Rand) (any, func() any) {
		c := cat[r.Intn(len(cat))]
		return c.mk(rand.New(rand.NewSource(r.Int63())), smallShape(r, c)), c.blank
	}
}

var (
	exOnce                           sync.Once
	ex2Req, ex2Resp, ex3Req, ex3Resp []fobj
	ex4Req, ex4Resp                  []fobj
)

func exCats() {
	exOnce.Do(func() {
		ex2Req, ex2Resp = pickDir(rhp2Catalogue(), "req"), pickDir(rhp2Catalogue(), "resp")
		ex3Req, ex3Resp = pickDir(rhp3Catalogue(), "req"), pickDir(rhp3Catalogue(), "resp")
		ex4Req, ex4Resp = pickDir(rhp4Catalogue(), "req"), pickDir(rhp4Catalogue(), "resp")
	})
}

const exWait = 15 * time.Second

func rhp2Exchanges(plan []exch, seed int64) exchObs {
	exCats()
	l := newLink("10.1.0.1:4001", "10.2.0.2:9982", dirPlan{}, dirPlan{}, 60*time.Second)
	var ht *rhp2.Transport
	var herr error
	var wg sync.WaitGroup
	wg.Add(1)
	go func() {
		defer wg.Done()
		ht, herr = rhp2.NewHostTransport(l.B, rhp2HostKey)
	}()
	rt, rerr := rhp2.NewRenterTransport(l.A, rhp2HostKey.PublicKey())
	wg.Wait()
	if rerr != nil || herr != nil {
		l.Close()
		return exchObs{Infra: fmt.Sprintf("handshake: renter %v, host %v", rerr, herr)}
	}
	rt.SetDeadline(time.Now().Add(exWait))
	ht.SetDeadline(time.Now().Add(exWait))
	var once sync.Once
	return runExchangeOps(plan, seed, exOps{
		mkReq: catMk(ex2Req), mkResp: catMk(ex2Resp),
		mkErr: func(r *rand.Rand) any {
			return &rhp2.RPCError{Type: rSpec(r), Data: randBytes(r, r.Intn(40)), Description: fmt.Sprintf("host says no (%d)", r.Intn(1000))}
		},
		callerWrite: func(id types.Specifier, req any) error {
			if req == nil {
				return rt.WriteRequest(id, nil)
			}
			return rt.WriteRequest(id, req.(rhp2.ProtocolObject))
		},
		calleeReadID:   ht.ReadID,
		calleeReadReq:  func(b any) error { return ht.ReadRequest(b.(rhp2.ProtocolObject), 1<<20) },
		calleeWriteObj: func(o any) error { return ht.WriteResponse(o.(rhp2.ProtocolObject)) },
		calleeWriteErr: func(e any) error { return ht.WriteResponseErr(e.(*rhp2.RPCError)) },
		callerRead: func(b any) error {
			if b == nil {
				return rt.ReadResponse(new(rhp2.RPCWriteResponse), 1<<20)
			}
			return rt.ReadResponse(b.(rhp2.ProtocolObject), 1<<20)
		},
		sameErr: func(err error, sent any) bool {
			var re *rhp2.RPCError
			s := sent.(*rhp2.RPCError)
			return errors.As(err, &re) && re.Type == s.Type && bytes.Equal(re.Data, s.Data) && re.Description == s.Description
		},
		enc:   func(v any) []byte { return encBytes(v.(types.EncoderTo)) },
		close: func() { once.Do(l.Close) },
	})
}

func rhp3Exchanges(plan []exch, seed int64) exchObs {
	p, err := rhp3Open(dirPlan{}, dirPlan{}, 60*time.Second)
	if err != nil {
		return exchObs{Infra: err.Error()}
	}
	return rhp3ExchangesOn(p, plan, seed)
}

// rhp3ExchangesOn carries the conversation out on ONE stream of the established session p (and closes p).
func rhp3ExchangesOn(p *rhp3Pair, plan []exch, seed int64) exchObs {
	exCats()
	// ONE stream for the whole conversation
	var hs *rhp3.Stream
	var aerr error
	acc := make(chan struct{})
	go func() { defer close(acc); hs, aerr = p.ht.AcceptStream() }()
	s := p.rt.DialStream()
	s.SetDeadline(time.Now().Add(exWait))
	host := func() (*rhp3.Stream, error) {
		<-acc
		if aerr == nil {
			hs.SetDeadline(time.Now().Add(exWait))
		}
		return hs, aerr
	}
	var once sync.Once
	return runExchangeOps(plan, seed, exOps{
		mkReq: catMk(ex3Req), mkResp: catMk(ex3Resp),
		mkErr: func(r *rand.Rand) any {
			return &rhp3.RPCError{Type: rSpec(r), Data: randBytes(r, r.Intn(40)), Description: fmt.Sprintf("host says no (%d)", r.Intn(1000))}
		},
		callerWrite: func(id types.Specifier, req any) error {
			if req == nil {
				return s.WriteRequest(id, nil)
			}
			return s.WriteRequest(id, req.(rhp3.ProtocolObject))
		},
		calleeReadID: func() (types.Specifier, error) {
			h, err := host()
			if err != nil {
				return types.Specifier{}, err
			}
			return h.ReadID()
		},
		calleeReadReq:  func(b any) error { return hs.ReadRequest(b.(rhp3.ProtocolObject), 1<<20) },
		calleeWriteObj: func(o any) error { return hs.WriteResponse(o.(rhp3.ProtocolObject)) },
		calleeWriteErr: func(e any) error { return hs.WriteResponseErr(e.(*rhp3.RPCError)) },
		callerRead: func(b any) error {
			if b == nil {
				return s.ReadResponse(new(rhp3.PaymentResponse), 1<<20)
			}
			return s.ReadResponse(b.(rhp3.ProtocolObject), 1<<20)
		},
		sameErr: func(err error, sent any) bool {
			var re *rhp3.RPCError
			se := sent.(*rhp3.RPCError)
			return errors.As(err, &re) && re.Type == se.Type && bytes.Equal(re.Data, se.Data) && re.Description == se.Description
		},
		enc: func(v any) []byte { return encBytes(v.(types.EncoderTo)) },
		close: func() {
			once.Do(func() {
				s.Close()
				p.Close()
			})
		},
	})
}

func rhp4Exchanges(plan []exch, seed int64) exchObs {
	exCats()
	rc, hc := net.Pipe()
	rc.SetDeadline(time.Now().Add(exWait))
	hc.SetDeadline(time.Now().Add(exWait))
	var once sync.Once
	return runExchangeOps(plan, seed, exOps{
		mkReq: catMk(ex4Req), mkResp: catMk(ex4Resp),
		mkErr: func(r *rand.Rand) any {
			return rhp4.NewRPCError(uint8(1+r.Intn(6)), fmt.Sprintf("host says no (%d)", r.Intn(1000))).(*rhp4.RPCError)
		},
		callerWrite: func(id types.Specifier, req any) error {
			if req == nil {
				return rhp4.WriteRequest(rc, id, nil)
			}
			return rhp4.WriteRequest(rc, id, req.(rhp4.Object))
		},
		calleeReadID:   func() (types.Specifier, error) { return rhp4.ReadID(hc) },
		calleeReadReq:  func(b any) error { return rhp4.ReadRequest(hc, b.(rhp4.Object)) },
		calleeWriteObj: func(o any) error { return rhp4.WriteResponse(hc, o.(rhp4.Object)) },
		calleeWriteErr: func(e any) error { return rhp4.WriteResponse(hc, e.(*rhp4.RPCError)) },
		callerRead: func(b any) error {
			if b == nil {
				return rhp4.ReadResponse(rc, new(rhp4.RPCWriteSectorResponse))
			}
			return rhp4.ReadResponse(rc, b.(rhp4.Object))
		},
		sameErr: func(err error, sent any) bool {
			var re *rhp4.RPCError
			se := sent.(*rhp4.RPCError)
			return errors.As(err, &re) && re.Code == se.Code && re.Description == se.Description
		},
		enc: func(v any) []byte {
			var buf bytes.Buffer
			e := types.NewEncoder(&buf)
			rhp4.VerifEncode(v.(rhp4.Object), e)
			e.Flush()
			return buf.Bytes()
		},
		close: func() { once.Do(func() { rc.Close(); hc.Close() }) },
	})
}

// gwExchanges: k RPCs over ONE gateway stream.
func gwExchanges(plan []exch, seed int64) exchObs {
	p, err := gwOpen(dirPlan{frames: 3}, dirPlan{frames: 3}, 60*time.Second)
	if err != nil {
		return exchObs{Infra: err.Error()}
	}
	return gwExchangesOn(p, plan, seed)
}

// gwExchangesOn carries the conversation out on ONE stream of the established session p (and closes p).
func gwExchangesOn(p *gwPeer, plan []exch, seed int64) exchObs {
	r := rand.New(rand.NewSource(seed))
	defer p.Close()
	cat := gwCatalogue()
	type step struct {
		g        gwObj
		req, rsp gateway.Object
	}
	steps := make([]step, len(plan))
	for i := range plan {
		g := cat[r.Intn(len(cat))]
		n := 0
		switch {
		case g.weight:
			n = 1000 + r.Intn(3000)
		case g.unit != "fixed":
			n = r.Intn(min(g.rnd, 20) + 1)
		}
		rq, rs := g.mk(rand.New(rand.NewSource(r.Int63())), n)
		steps[i] = step{g, rq, rs}
	}
	var hostFail *exFail
	hostDone := make(chan struct{})
	go func() {
		defer close(hostDone)
		as, err := p.a.AcceptStream()
		if err != nil {
			hostFail = &exFail{0, "id", false, "accept stream: " + err.Error()}
			return
		}
		defer as.Close()
		as.SetDeadline(time.Now().Add(exWait))
		for i, st := range steps {
			id, err := as.ReadID()
			if err != nil {
				hostFail = &exFail{i, "id", false, err.Error()}
				return
			}
			got := gateway.ObjectForID(id)
			if got == nil || fmt.Sprintf("%T", got) != fmt.Sprintf("%T", st.req) {
				hostFail = &exFail{i, "id", true, fmt.Sprintf("RPC id read as %v", id)}
				return
			}
			if err := as.ReadRequest(got); err != nil {
				hostFail = &exFail{i, "request", false, err.Error()}
				return
			}
			if !bytes.Equal(gwReqBytes(got), gwReqBytes(st.req)) {
				hostFail = &exFail{i, "request", true, "the request read is not the request written"}
				return
			}
			// catalogue objects exercised as requests have no response leg (relay RPCs carry none; for the others the
			// catalogue defines no response that fits the request's parameters)
			if st.rsp != nil && as.WriteResponse(st.rsp) != nil {
				return
			}
		}
	}()
	var callFail *exFail
	completed := 0
	s, err := p.d.DialStream()
	if err != nil {
		return exchObs{Infra: err.Error()}
	}
	s.SetDeadline(time.Now().Add(exWait))
	for i, st := range steps {
		if err := s.WriteID(st.req); err != nil {
			callFail = &exFail{i, "id", false, "write: " + err.Error()}
		} else if err := s.WriteRequest(st.req); err != nil {
			callFail = &exFail{i, "request", false, "write: " + err.Error()}
		} else if st.rsp == nil {
			// no response leg
		} else if err := s.ReadResponse(st.req); err != nil {
			callFail = &exFail{i, "response", false, err.Error()}
		} else if !bytes.Equal(gwRespBytes(st.req), gwRespBytes(st.rsp)) {
			got, want := gwRespBytes(st.req), gwRespBytes(st.rsp)
			callFail = &exFail{i, "response", true, fmt.Sprintf("the response read is not the response written (%s/%s: %d bytes written, re-encodes to %d, first difference at byte %d)",
				st.g.name, st.g.dir, len(want), len(got), firstDiff(got, want))}
		}
		if callFail != nil {
			break
		}
		completed++
	}
	s.Close()
	select {
	case <-hostDone:
	case <-time.After(20 * time.Second):
		return exchObs{Infra: "the acceptor did not finish"}
	}
	o := exchObs{Completed: completed}
	if f := earlier(callFail, hostFail); f != nil {
		o.Stage, o.Wrong, o.Err = f.stage, f.wrong, fmt.Sprintf("exchange %d, %s: %s", f.ex+1, f.stage, f.err)
		if f.ex < o.Completed {
			o.Completed = f.ex
		}
	}
	return o
}

type exchRun struct {
	Kind string   `json:"kind"` // "exchanges"
	Case exchCase `json:"case"`
	Seed int64    `json:"seed"`
	Obs  *exchObs `json:"observed,omitempty"`
}

func runExchangeCase(c *vlib.Ctx, run exchRun) (exchObs, bool) {
	var o exchObs
	switch run.Case.Proto {
	case "rhp2":
		o = rhp2Exchanges(run.Case.Plan, run.Seed)
	case "rhp3":
		o = rhp3Exchanges(run.Case.Plan, run.Seed)
	case "rhp4":
		o = rhp4Exchanges(run.Case.Plan, run.Seed)
	case "gw":
		o = gwExchanges(run.Case.Plan, run.Seed)
	default:
		c.Infra("exchanges: unknown protocol %q", run.Case.Proto)
		return o, false
	}
	if o.Infra != "" {
		c.Infra("exchanges %s: %s", run.Case.key(), o.Infra)
		return o, false
	}
	if o.Completed != len(run.Case.Plan) || o.Stage != "" {
		pos := "first-exchange"
		if o.Completed >= 1 {
			pos = "later-exchange"
		}
		what := "not-delivered"
		if o.Wrong {
			what = "altered"
		}
		run.Obs = &o
		c.Violation(fmt.Sprintf("%s-one-connection-%s-%s-%s", run.Case.Proto, pos, o.Stage, what),
			fmt.Sprintf("%s, %d exchanges on one connection (%s): %d completed: %s", run.Case.Proto, len(run.Case.Plan), run.Case.key(), o.Completed, o.Err), run)
	}
	return o, true
}

type exchTotals struct {
	evals, distinct, sessions int64
}

// runExchanges replays the conversations: all with ≤ 2 exchanges, and a sample (quick) / all (thorough) of the longer ones.
func runExchanges(c *vlib.Ctx, cases map[string]exchCase, r *rand.Rand) exchTotals {
	var t exchTotals
	var mu sync.Mutex
	keys := sortedKeys(cases)
	r.Shuffle(len(keys), func(i, j int) { keys[i], keys[j] = keys[j], keys[i] })
	sort.SliceStable(keys, func(i, j int) bool { return len(cases[keys[i]].Plan) < len(cases[keys[j]].Plan) })
	long := map[string]int{}
	done := map[string]map[int]int{}
	var jobs []func()
	for _, k := range keys {
		ec := cases[k]
		if len(ec.Plan) > 2 {
			if long[ec.Proto] >= c.Pick(150, 1<<30) {
				continue
			}
			long[ec.Proto]++
		}
		reps := 1
		if ec.Proto == "gw" {
			reps = c.Pick(25, 300) // one conversation shape per length: repeated with other real objects
		}
		for ; reps > 0; reps-- {
			run := exchRun{Kind: "exchanges", Case: ec, Seed: r.Int63()}
			first := reps == 1
			jobs = append(jobs, func() {
				o, ok := runExchangeCase(c, run)
				if !ok {
					return
				}
				mu.Lock()
				t.sessions++
				if first {
					t.distinct++
				}
				t.evals += int64(o.Completed)
				if done[run.Case.Proto] == nil {
					done[run.Case.Proto] = map[int]int{}
				}
				if o.Completed == len(run.Case.Plan) {
					done[run.Case.Proto][len(run.Case.Plan)]++
				}
				mu.Unlock()
			})
		}
	}
	parallel(8, jobs)
	for _, proto := range []string{"rhp2", "rhp3", "rhp4", "gw"} {
		for k := 1; k <= 3; k++ {
			if done[proto][k] == 0 && c.NViolations() == 0 {
				c.Infra("vacuity: exchanges: no %s conversation of %d exchanges on one connection was completed", proto, k)
			}
		}
	}
	c.Cov("exchanges_on_one_connection", map[string]any{"conversations_enumerated": len(cases), "conversations_run": t.sessions, "exchanges_completed": t.evals, "completed_by_protocol_and_length": done})
	return t
}
