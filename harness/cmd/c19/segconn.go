package main

// A buffered in-memory connection whose byte stream is cut into reads by a schedule (spec/net/Segments.tla).
//
// net.Pipe hands every Write to exactly one sequence of Reads and never merges two Writes: it shows a transport only
// ONE segmentation of its byte stream. A segNet is a pair of byte queues (one per direction) with unbounded "socket
// buffers": Write appends and returns; Read(p) returns the bytes from the reader's position up to the next cut point of
// the schedule, at most len(p) of them - bytes of several Writes if no cut lies between them (coalescing), a single
// byte if the schedule says so. A segment is handed over complete: a Read that asks for more than has been written
// waits for the rest, unless the writing party cannot produce more before this Read returns - it is itself blocked in
// a Read, has declared that it is finished, or (for parties that write from background goroutines: the multiplexer
// under RHP3 and the gateway) has been silent for `idle`. That rule is the Deliver action of the specification and makes
// the replay of a schedule deterministic for parties that read and write from one goroutine.

import (
	"io"
	"math"
	"net"
	"os"
	"sort"
	"sync"
	"time"
)

// segPlace is a cut point as the specification names it: behind unit U (of Of) of part P of frame F of the direction
// (frames = Write calls, 1-based; parts as laid out by the direction's layout function).
type segPlace struct {
	F  int `json:"f"`
	P  int `json:"p"`
	U  int `json:"u"`
	Of int `json:"of"`
}

// segSched is the segmentation of one direction.
type segSched struct {
	Every  int64                        // > 0: a cut every Every bytes
	Places []segPlace                   // cut points, resolved when their frame has been written
	Layout func(frame int, n int) []int // byte lengths of the parts of frame number `frame` (n bytes long)
	Split  func(pl segPlace, l int) int // byte offset inside a part of l bytes behind unit pl.U of pl.Of (0 < result ≤ l for u ≥ 1)
}

type segStats struct {
	Reads      int64         `json:"reads"`
	Short      int64         `json:"short_reads"`     // returned less than asked
	Spanning   int64         `json:"spanning_reads"`  // returned bytes of more than one Write
	Pipelined  int64         `json:"pipelined_reads"` // bytes of a later Write were already in flight when the read was served
	Forced     int64         `json:"forced_cuts"`     // segment handed over incomplete because the writer was quiet
	OneByte    int64         `json:"one_byte_reads"`
	Starved    int64         `json:"starved_reads"` // nothing in flight and the writer finished: reported as a passed deadline at once
	CutsInPart map[int]int64 `json:"-"`
}

type segDir struct {
	data    []byte  // everything written, never trimmed (conversations are small)
	pos     int64   // reader position
	ends    []int64 // end offsets of the Writes so far
	cuts    []int64 // resolved cut offsets, ascending
	pending []segPlace
	sched   segSched
	wclosed bool // the writer hung up
	rclosed bool // the reader hung up
	last    time.Time
	stats   segStats
	cutPart []int // for each resolved cut, the part it fell into (parallel to cuts)
}

type segNet struct {
	mu      sync.Mutex
	cond    *sync.Cond
	dir     [2]*segDir // dir[i]: written by party i
	waiting [2]bool    // party i is blocked in Read
	done    [2]bool    // party i will write no more
	// lockstep: each party reads and writes from one goroutine, so a party blocked in Read cannot write
	lockstep bool
	idle     time.Duration // > 0: a writer silent for this long counts as quiet (parties with background writers)
}

// segEnd is party i's end of the connection.
type segEnd struct {
	n             *segNet
	i             int
	rdl, wdl      time.Time
	local, remote addr
}

func newSegNet(a2b, b2a segSched, idle time.Duration, addrA, addrB string) (*segNet, *segEnd, *segEnd) {
	n := &segNet{idle: idle, lockstep: idle == 0}
	n.cond = sync.NewCond(&n.mu)
	n.dir[0] = &segDir{sched: a2b, pending: append([]segPlace(nil), a2b.Places...)}
	n.dir[1] = &segDir{sched: b2a, pending: append([]segPlace(nil), b2a.Places...)}
	return n, &segEnd{n: n, i: 0, local: addr(addrA), remote: addr(addrB)}, &segEnd{n: n, i: 1, local: addr(addrB), remote: addr(addrA)}
}

// Done declares that party i will not write again (its burst is complete).
func (n *segNet) Done(i int) {
	n.mu.Lock()
	n.done[i] = true
	n.cond.Broadcast()
	n.mu.Unlock()
}

func (n *segNet) Stats(i int) segStats {
	n.mu.Lock()
	defer n.mu.Unlock()
	s := n.dir[i].stats
	s.CutsInPart = map[int]int64{}
	d := n.dir[i]
	for j, c := range d.cuts {
		if c <= d.pos { // a read ended there
			s.CutsInPart[d.cutPart[j]]++
		}
	}
	return s
}

// Unread returns the bytes written by party i that its peer never took.
func (n *segNet) Unread(i int) int64 {
	n.mu.Lock()
	defer n.mu.Unlock()
	return int64(len(n.dir[i].data)) - n.dir[i].pos
}

func (d *segDir) resolve(frame int, start, end int64) {
	if d.sched.Layout == nil {
		return
	}
	var rest []segPlace
	for _, pl := range d.pending {
		if pl.F != frame {
			rest = append(rest, pl)
			continue
		}
		parts := d.sched.Layout(frame, int(end-start))
		off := start
		for j := 0; j < pl.P-1 && j < len(parts); j++ {
			off += int64(parts[j])
		}
		l := 0
		if pl.P-1 < len(parts) {
			l = parts[pl.P-1]
		}
		k := 0
		if l > 0 {
			k = d.sched.Split(pl, l)
		}
		c := off + int64(k)
		if c > start && c <= end {
			i := sort.Search(len(d.cuts), func(i int) bool { return d.cuts[i] >= c })
			if i == len(d.cuts) || d.cuts[i] != c {
				d.cuts = append(d.cuts, 0)
				copy(d.cuts[i+1:], d.cuts[i:])
				d.cuts[i] = c
				d.cutPart = append(d.cutPart, 0)
				copy(d.cutPart[i+1:], d.cutPart[i:])
				d.cutPart[i] = pl.P
			}
		}
	}
	d.pending = rest
}

// nextCut returns the first cut behind pos (MaxInt64: none among the frames written so far).
func (d *segDir) nextCut(pos int64) int64 {
	if d.sched.Every > 0 {
		return (pos/d.sched.Every + 1) * d.sched.Every
	}
	i := sort.Search(len(d.cuts), func(i int) bool { return d.cuts[i] > pos })
	if i < len(d.cuts) {
		return d.cuts[i]
	}
	return math.MaxInt64
}

func (e *segEnd) Write(p []byte) (int, error) {
	n := e.n
	n.mu.Lock()
	defer n.mu.Unlock()
	d := n.dir[e.i]
	if d.wclosed || d.rclosed {
		return 0, io.ErrClosedPipe
	}
	if !e.wdl.IsZero() && !time.Now().Before(e.wdl) {
		return 0, os.ErrDeadlineExceeded
	}
	if len(p) == 0 {
		return 0, nil
	}
	start := int64(len(d.data))
	d.data = append(d.data, p...)
	end := int64(len(d.data))
	d.ends = append(d.ends, end)
	d.resolve(len(d.ends), start, end)
	d.last = time.Now()
	n.waiting[1-e.i] = false // the reader has something new to look at; it says so again if that is not enough
	n.cond.Broadcast()
	return len(p), nil
}

func (e *segEnd) Read(p []byte) (int, error) {
	n := e.n
	n.mu.Lock()
	defer n.mu.Unlock()
	peer := 1 - e.i
	d := n.dir[peer]
	if len(p) == 0 {
		return 0, nil
	}
	var timer *time.Timer
	defer func() {
		n.waiting[e.i] = false
		if timer != nil {
			timer.Stop()
		}
	}()
	wake := func(after time.Duration) {
		if timer != nil {
			timer.Stop()
		}
		timer = time.AfterFunc(after, func() { n.mu.Lock(); n.cond.Broadcast(); n.mu.Unlock() })
	}
	for {
		if d.rclosed {
			return 0, io.ErrClosedPipe
		}
		avail := int64(len(d.data)) - d.pos
		if avail > 0 {
			want := int64(len(p))
			if c := d.nextCut(d.pos); c-d.pos < want {
				want = c - d.pos
			}
			forced := false
			if avail < want {
				quiet := (n.lockstep && n.waiting[peer]) || n.done[peer] || d.wclosed
				if !quiet && n.idle > 0 && time.Since(d.last) >= n.idle {
					quiet = true
				}
				if quiet {
					want, forced = avail, true
				}
			}
			if avail >= want {
				k := copy(p, d.data[d.pos:d.pos+want])
				st := &d.stats
				st.Reads++
				if k < len(p) {
					st.Short++
				}
				if k == 1 {
					st.OneByte++
				}
				if forced {
					st.Forced++
				}
				// which Writes do the returned bytes belong to?
				fi := sort.Search(len(d.ends), func(i int) bool { return d.ends[i] > d.pos })
				if fi < len(d.ends) && d.pos+int64(k) > d.ends[fi] {
					st.Spanning++
				}
				if fi < len(d.ends)-1 {
					st.Pipelined++
				}
				d.pos += int64(k)
				return k, nil
			}
		} else if d.wclosed {
			return 0, io.EOF
		} else if n.lockstep && n.done[peer] {
			// nothing is in flight and the only writer has said it is finished: this read would sit out its deadline
			d.stats.Starved++
			return 0, os.ErrDeadlineExceeded
		}
		now := time.Now()
		if !e.rdl.IsZero() {
			if !now.Before(e.rdl) {
				return 0, os.ErrDeadlineExceeded
			}
		}
		// sleep until something changes, the deadline passes or the writer has been silent long enough
		var sleep time.Duration = -1
		if !e.rdl.IsZero() {
			sleep = e.rdl.Sub(now)
		}
		if n.idle > 0 && avail > 0 {
			if s := n.idle - now.Sub(d.last); sleep < 0 || s < sleep {
				sleep = s
			}
			if sleep <= 0 {
				sleep = time.Microsecond
			}
		}
		if sleep >= 0 {
			wake(sleep)
		}
		if !n.waiting[e.i] {
			n.waiting[e.i] = true
			n.cond.Broadcast() // the peer may be waiting for us to become quiet
		}
		n.cond.Wait()
	}
}

func (e *segEnd) Close() error {
	n := e.n
	n.mu.Lock()
	n.dir[e.i].wclosed = true
	n.dir[1-e.i].rclosed = true
	n.cond.Broadcast()
	n.mu.Unlock()
	return nil
}

func (e *segEnd) LocalAddr() net.Addr  { return e.local }
func (e *segEnd) RemoteAddr() net.Addr { return e.remote }
func (e *segEnd) SetDeadline(t time.Time) error {
	e.n.mu.Lock()
	e.rdl, e.wdl = t, t
	e.n.cond.Broadcast()
	e.n.mu.Unlock()
	return nil
}
func (e *segEnd) SetReadDeadline(t time.Time) error {
	e.n.mu.Lock()
	e.rdl = t
	e.n.cond.Broadcast()
	e.n.mu.Unlock()
	return nil
}
func (e *segEnd) SetWriteDeadline(t time.Time) error {
	e.n.mu.Lock()
	e.wdl = t
	e.n.mu.Unlock()
	return nil
}

// newSegLink is a link whose two ends are joined by a segNet (no man in the middle).
func newSegLink(addrA, addrB string, a2b, b2a segSched, idle, deadline time.Duration) (*link, *segNet) {
	n, a, b := newSegNet(a2b, b2a, idle, addrA, addrB)
	dl := time.Now().Add(deadline)
	a.SetDeadline(dl)
	b.SetDeadline(dl)
	return &link{A: a, B: b, all: []net.Conn{a, b}}, n
}
