package main

import (
	"bytes"
	"encoding/binary"
	"fmt"
	"sync"
	"time"

	"go.sia.tech/core/gateway"
	"go.sia.tech/core/types"
)

// ---------------------------------------------------------------------------
// handshake cases (spec/net/Handshake.tla)

type hsCase struct {
	Gd, Ud, Ga, Ua     int
	VDA, VAD           int
	GDA, UDA, GAD, UAD int
	Ok                 bool
	Dver, Duid         int
	Aver, Auid         int
	Raw                map[string]any `json:"-"`
}

func hsFromJSON(m map[string]any) hsCase {
	gi := func(k string) int { f, _ := m[k].(float64); return int(f) }
	ok, _ := m["ok"].(bool)
	return hsCase{Gd: gi("gd"), Ud: gi("ud"), Ga: gi("ga"), Ua: gi("ua"), VDA: gi("vDA"), VAD: gi("vAD"),
		GDA: gi("gDA"), UDA: gi("uDA"), GAD: gi("gAD"), UAD: gi("uAD"), Ok: ok,
		Dver: gi("dver"), Duid: gi("duid"), Aver: gi("aver"), Auid: gi("auid"), Raw: m}
}

func (h hsCase) key() string {
	return fmt.Sprintf("hs-g%d%d-u%d%d-v%d%d-rw%d%d%d%d", h.Gd, h.Ga, h.Ud, h.Ua, h.VDA, h.VAD, h.GDA, h.UDA, h.GAD, h.UAD)
}

func gwGenesis(i int) (id types.BlockID) {
	copy(id[:], bytes.Repeat([]byte{byte(0x30 + i)}, 32))
	return
}
func gwUID(i int) (u gateway.UniqueID) {
	copy(u[:], bytes.Repeat([]byte{byte(0x50 + i)}, 8))
	return
}
func gwUIDIndex(u gateway.UniqueID) int {
	for i := 1; i <= 2; i++ {
		if u == gwUID(i) {
			return i
		}
	}
	return -1
}

var gwVersions = map[int]string{1: "2.0.0", 2: "9.4.7"}

func gwVersionIndex(s string) int {
	for i, v := range gwVersions {
		if v == s {
			return i
		}
	}
	return -1
}

const (
	gwDialHost, gwDialPort     = "10.9.0.1", "41001"
	gwAcceptHost, gwAcceptPort = "10.9.0.2", "9981"
	gwDialListen               = "7777" // the port D announces in its header
	gwAcceptListen             = "9981" // the port A announces
)

type hsObs struct {
	DialOK, AcceptOK bool
	DialErr, AccErr  string
	Dver, Aver       int
	Duid, Auid       int
	Daddr, Aaddr     string
}

// gwConnect runs the real Dial and Accept against each other over a link.
func gwConnect(hD, hA gateway.Header, ab, ba dirPlan, deadline time.Duration) (dt, at *gateway.Transport, derr, aerr error, l *link) {
	l = newLink(gwDialHost+":"+gwDialPort, gwAcceptHost+":"+gwAcceptPort, ab, ba, deadline)
	dt, at, derr, aerr = gwConnectOn(l, hD, hA)
	return
}

// gwConnectOn runs the real Dial and Accept against each other over the two ends of l.
func gwConnectOn(l *link, hD, hA gateway.Header) (dt, at *gateway.Transport, derr, aerr error) {
	var wg sync.WaitGroup
	wg.Add(1)
	go func() {
		defer wg.Done()
		at, aerr = gateway.Accept(l.B, hA)
		if aerr != nil {
			l.B.Close() // a real acceptor hangs up
		}
	}()
	dt, derr = gateway.Dial(l.A, hD)
	if derr != nil {
		l.A.Close()
	}
	wg.Wait()
	return
}

// hsReplay applies one handshake case: real endpoints with the headers of the case, the adversary
// rewriting version strings and header fields in flight.
func hsReplay(h hsCase) hsObs {
	hD := gateway.Header{GenesisID: gwGenesis(h.Gd), UniqueID: gwUID(h.Ud), NetAddress: "203.0.113.5:" + gwDialListen}
	hA := gateway.Header{GenesisID: gwGenesis(h.Ga), UniqueID: gwUID(h.Ua), NetAddress: "198.51.100.7:" + gwAcceptListen}
	rewriter := func(ver, gen, uid int, versionFrame, headerFrame int) func(int, []byte) []byte {
		return func(idx int, frame []byte) []byte {
			out := append([]byte(nil), frame...)
			switch idx {
			case versionFrame:
				if ver != 0 && len(out) == 8+8+5 {
					copy(out[16:], gwVersions[ver])
				}
			case headerFrame:
				if gen != 0 {
					g := gwGenesis(gen)
					copy(out[8:40], g[:])
				}
				if uid != 0 {
					u := gwUID(uid)
					copy(out[40:48], u[:])
				}
			}
			return out
		}
	}
	// D->A frames: 1 version, 2 header, 3 acceptance of A's header.   A->D: 1 version, 2 acceptance, 3 header.
	ab := dirPlan{frames: 3, rewrite: rewriter(h.VDA, h.GDA, h.UDA, 1, 2)}
	ba := dirPlan{frames: 3, rewrite: rewriter(h.VAD, h.GAD, h.UAD, 1, 3)}
	dt, at, derr, aerr, l := gwConnect(hD, hA, ab, ba, 20*time.Second)
	defer l.Close()
	var o hsObs
	o.DialOK, o.AcceptOK = derr == nil, aerr == nil
	if derr != nil {
		o.DialErr = derr.Error()
	}
	if aerr != nil {
		o.AccErr = aerr.Error()
	}
	if dt != nil {
		o.Dver, o.Duid, o.Daddr = gwVersionIndex(dt.Version), gwUIDIndex(dt.UniqueID), dt.Addr
		if derr == nil {
			defer dt.Close()
		}
	}
	if at != nil {
		o.Aver, o.Auid, o.Aaddr = gwVersionIndex(at.Version), gwUIDIndex(at.UniqueID), at.Addr
		if aerr == nil {
			defer at.Close()
		}
	}
	return o
}

// hsCompare returns a description of the first disagreement between the specification and the endpoints.
func hsCompare(h hsCase, o hsObs) string {
	switch {
	case o.DialOK != h.Ok:
		return fmt.Sprintf("Dial established=%v, specification says %v (%s)", o.DialOK, h.Ok, o.DialErr)
	case o.AcceptOK != h.Ok:
		return fmt.Sprintf("Accept established=%v, specification says %v (%s)", o.AcceptOK, h.Ok, o.AccErr)
	case !h.Ok:
		return ""
	case o.Dver != h.Dver || o.Aver != h.Aver:
		return fmt.Sprintf("recorded versions D:%d A:%d, specification says D:%d A:%d", o.Dver, o.Aver, h.Dver, h.Aver)
	case o.Duid != h.Duid || o.Auid != h.Auid:
		return fmt.Sprintf("recorded unique ids D:%d A:%d, specification says D:%d A:%d", o.Duid, o.Auid, h.Duid, h.Auid)
	case o.Daddr != gwAcceptHost+":"+gwAcceptListen:
		return fmt.Sprintf("dialer recorded peer address %q, want host of the connection and announced port", o.Daddr)
	case o.Aaddr != gwDialHost+":"+gwDialListen:
		return fmt.Sprintf("acceptor recorded peer address %q, want host of the connection and announced port", o.Aaddr)
	}
	return ""
}

// ---------------------------------------------------------------------------
// RPC objects over real streams

// The methods of gateway.Object are unexported; the wire form is mirrored here from the exported encoders
// of the field types (used for sizes and for comparing what was read with what was written).
func gwReqBytes(o gateway.Object) []byte {
	var buf bytes.Buffer
	e := types.NewEncoder(&buf)
	switch r := o.(type) {
	case *gateway.RPCShareNodes, *gateway.RPCDiscoverIP:
	case *gateway.RPCSendHeaders:
		r.Index.EncodeTo(e)
		e.WriteUint64(r.Max)
	case *gateway.RPCSendV2Blocks:
		types.EncodeSlice(e, r.History)
		e.WriteUint64(r.Max)
	case *gateway.RPCSendTransactions:
		r.Index.EncodeTo(e)
		types.EncodeSlice(e, r.Hashes)
	case *gateway.RPCSendCheckpoint:
		r.Index.EncodeTo(e)
	case *gateway.RPCRelayV2Header:
		r.Header.EncodeTo(e)
	case *gateway.RPCRelayV2BlockOutline:
		gwOutlineBytes(e, r.Block)
	case *gateway.RPCRelayV2TransactionSet:
		r.Index.EncodeTo(e)
		types.EncodeSlice(e, r.Transactions)
	default:
		panic(fmt.Sprintf("unhandled %T", o))
	}
	e.Flush()
	return buf.Bytes()
}

func gwOutlineBytes(e *types.Encoder, ob gateway.V2BlockOutline) {
	e.WriteUint64(ob.Height)
	ob.ParentID.EncodeTo(e)
	e.WriteUint64(ob.Nonce)
	e.WriteTime(ob.Timestamp)
	ob.MinerAddress.EncodeTo(e)
	var txns []types.Transaction
	var v2txns []types.V2Transaction
	var hashes []types.Hash256
	var kinds []uint8
	for _, ot := range ob.Transactions {
		switch {
		case ot.Transaction != nil:
			txns = append(txns, *ot.Transaction)
			kinds = append(kinds, 0)
		case ot.V2Transaction != nil:
			v2txns = append(v2txns, *ot.V2Transaction)
			kinds = append(kinds, 1)
		default:
			hashes = append(hashes, ot.Hash)
			kinds = append(kinds, 2)
		}
	}
	types.EncodeSlice(e, txns)
	types.V2TransactionsMultiproof(v2txns).EncodeTo(e)
	types.EncodeSlice(e, hashes)
	for _, k := range kinds {
		e.WriteUint8(k)
	}
}

func gwRespBytes(o gateway.Object) []byte {
	var buf bytes.Buffer
	e := types.NewEncoder(&buf)
	switch r := o.(type) {
	case *gateway.RPCShareNodes:
		types.EncodeSliceFn(e, r.Peers, (*types.Encoder).WriteString)
	case *gateway.RPCDiscoverIP:
		e.WriteString(r.IP)
	case *gateway.RPCSendHeaders:
		types.EncodeSlice(e, r.Headers)
		e.WriteUint64(r.Remaining)
	case *gateway.RPCSendV2Blocks:
		types.EncodeSliceCast[types.V2Block](e, r.Blocks)
		e.WriteUint64(r.Remaining)
	case *gateway.RPCSendTransactions:
		types.EncodeSlice(e, r.Transactions)
		types.EncodeSlice(e, r.V2Transactions)
	case *gateway.RPCSendCheckpoint:
		(types.V2Block)(r.Block).EncodeTo(e)
		r.State.EncodeTo(e)
	case *gateway.RPCRelayV2Header, *gateway.RPCRelayV2BlockOutline, *gateway.RPCRelayV2TransactionSet:
	default:
		panic(fmt.Sprintf("unhandled %T", o))
	}
	e.Flush()
	return buf.Bytes()
}

// gwPeer is an established pair of real gateway transports; the acceptor serves every incoming stream with
// the handler installed by the test.
type gwPeer struct {
	d, a *gateway.Transport
	l    *link
}

func gwOpen(ab, ba dirPlan, deadline time.Duration) (*gwPeer, error) {
	return gwOpenOn(newLink(gwDialHost+":"+gwDialPort, gwAcceptHost+":"+gwAcceptPort, ab, ba, deadline))
}

// gwOpenOn establishes a real gateway session over the two ends of l.
func gwOpenOn(l *link) (*gwPeer, error) {
	hD := gateway.Header{GenesisID: gwGenesis(1), UniqueID: gwUID(1), NetAddress: "203.0.113.5:" + gwDialListen}
	hA := gateway.Header{GenesisID: gwGenesis(1), UniqueID: gwUID(2), NetAddress: "198.51.100.7:" + gwAcceptListen}
	dt, at, derr, aerr := gwConnectOn(l, hD, hA)
	if derr != nil || aerr != nil {
		l.Close()
		return nil, fmt.Errorf("gateway handshake: dial %v, accept %v", derr, aerr)
	}
	return &gwPeer{dt, at, l}, nil
}

func (p *gwPeer) Close() {
	p.d.Close()
	p.a.Close()
	p.l.Close()
}

// gwResult is the outcome of moving one object across a stream.
type gwResult struct {
	ReadErr  error  // the reader's error (nil: accepted)
	Same     bool   // what was read re-encodes to what was written
	WireLen  int    // mirrored size of the object on the stream
	Infra    string // the exchange could not be carried out
	IDWrong  bool
	TimedOut bool
}

// gwRequest sends obj as a request from D; A reads ID and request with the real reader.
func (p *gwPeer) gwRequest(obj gateway.Object, wait time.Duration) gwResult {
	var res gwResult
	want := gwReqBytes(obj)
	res.WireLen = len(want)
	type rd struct {
		err error
		got gateway.Object
		bad bool
	}
	done := make(chan rd, 1)
	go func() {
		s, err := p.a.AcceptStream()
		if err != nil {
			done <- rd{err: fmt.Errorf("infra: accept stream: %w", err)}
			return
		}
		defer s.Close()
		s.SetDeadline(time.Now().Add(wait))
		id, err := s.ReadID()
		if err != nil {
			done <- rd{err: fmt.Errorf("infra: read id: %w", err)}
			return
		}
		got := gateway.ObjectForID(id)
		if got == nil {
			done <- rd{bad: true}
			return
		}
		err = s.ReadRequest(got)
		done <- rd{err: err, got: got}
	}()
	s, err := p.d.DialStream()
	if err != nil {
		res.Infra = err.Error()
		return res
	}
	s.SetDeadline(time.Now().Add(wait))
	werr := s.WriteID(obj)
	if werr == nil {
		werr = s.WriteRequest(obj) // fails when the reader gave up early: not an error of the test
	}
	r := <-done
	s.Close()
	switch {
	case r.bad:
		res.IDWrong = true
	case r.err != nil && len(r.err.Error()) > 6 && r.err.Error()[:6] == "infra:":
		res.Infra = r.err.Error()
	case r.err != nil:
		res.ReadErr, res.TimedOut = r.err, isTimeout(r.err)
	default:
		res.Same = fmt.Sprintf("%T", r.got) == fmt.Sprintf("%T", obj) && bytes.Equal(gwReqBytes(r.got), want)
	}
	return res
}

// gwResponse lets A answer a request of D with resp; D reads it with the real reader into req (which carries
// the parameters the reader's limit depends on).
func (p *gwPeer) gwResponse(req, resp gateway.Object, wait time.Duration) gwResult {
	var res gwResult
	want := gwRespBytes(resp)
	res.WireLen = len(want)
	done := make(chan error, 1)
	go func() {
		s, err := p.a.AcceptStream()
		if err != nil {
			done <- fmt.Errorf("accept stream: %w", err)
			return
		}
		defer s.Close()
		s.SetDeadline(time.Now().Add(wait))
		id, err := s.ReadID()
		if err != nil {
			done <- fmt.Errorf("read id: %w", err)
			return
		}
		got := gateway.ObjectForID(id)
		if got == nil {
			done <- fmt.Errorf("unknown id %v", id)
			return
		}
		if err := s.ReadRequest(got); err != nil {
			done <- fmt.Errorf("read request: %w", err)
			return
		}
		s.WriteResponse(resp) // may fail when the reader gives up early
		done <- nil
	}()
	s, err := p.d.DialStream()
	if err != nil {
		res.Infra = err.Error()
		return res
	}
	s.SetDeadline(time.Now().Add(wait))
	if err := s.WriteID(req); err != nil {
		res.Infra = "write id: " + err.Error()
	} else if err := s.WriteRequest(req); err != nil {
		res.Infra = "write request: " + err.Error()
	}
	var rerr error
	if res.Infra == "" {
		rerr = s.ReadResponse(req)
	}
	s.Close()
	if aerr := <-done; aerr != nil && res.Infra == "" && rerr == nil {
		res.Infra = aerr.Error()
	}
	if res.Infra != "" {
		return res
	}
	if rerr != nil {
		res.ReadErr, res.TimedOut = rerr, isTimeout(rerr)
		return res
	}
	res.Same = bytes.Equal(gwRespBytes(req), want)
	return res
}

func le64(v uint64) []byte {
	var b [8]byte
	binary.LittleEndian.PutUint64(b[:], v)
	return b[:]
}
