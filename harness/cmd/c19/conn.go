package main

import (
	"encoding/binary"
	"errors"
	"io"
	"net"
	"os"
	"sync"
	"sync/atomic"
	"time"
)

// ---------------------------------------------------------------------------
// in-memory connections

// addr is a net.Addr that prints as host:port (gateway.Accept/Dial split it).
type addr string

func (a addr) Network() string { return "tcp" }
func (a addr) String() string  { return string(a) }

// aconn is a pipe end that reports host:port addresses.
type aconn struct {
	net.Conn
	local, remote addr
}

func (c aconn) LocalAddr() net.Addr  { return c.local }
func (c aconn) RemoteAddr() net.Addr { return c.remote }

// A fault rewrites one frame of one direction of a conversation.
//
//	kind   one of: lenup / lendn (low-order byte of the length prefix changed so that the declared size
//	       grows / shrinks by 1..4), lenhi (a bit of the high-order half of the length prefix flipped),
//	       nonce, body, tag, pad (one bit flipped in that region), trunc (the frame loses its last
//	       bytes, the following frames move up), ext (extra bytes are inserted after the frame)
type fault struct {
	Frame int    `json:"frame"` // 1-based index among the framed messages of the direction
	Kind  string `json:"kind"`
}

// frameGeom tells the proxy where the regions of the frames are.
type frameGeom struct {
	nonce   int                    // bytes of nonce after the 8-byte prefix
	tag     int                    // bytes of tag at the end
	bodyLen func(frame int) int    // plaintext bytes of frame i that carry the object (the rest is padding)
	pick    func(n int) int        // deterministic choice in [0,n)
	applied func(f fault, ok bool) // called when a fault was applied (ok=false: region empty)
}

// mutate applies f to one frame (prefix + payload) and returns the bytes to forward.
func mutate(f fault, idx int, frame []byte, g frameGeom) []byte {
	out := append([]byte(nil), frame...)
	payload := out[8:]
	flipAt := func(lo, hi int) bool {
		if hi <= lo {
			return false
		}
		payload[lo+g.pick(hi-lo)] ^= byte(1 << uint(g.pick(8)))
		return true
	}
	ok := true
	switch f.Kind {
	case "lenup": // the declared size grows by a few bytes
		binary.LittleEndian.PutUint64(out[:8], binary.LittleEndian.Uint64(out[:8])+uint64(1+g.pick(4)))
	case "lendn": // the declared size shrinks by a few bytes
		binary.LittleEndian.PutUint64(out[:8], binary.LittleEndian.Uint64(out[:8])-uint64(1+g.pick(4)))
	case "lenhi":
		out[4+g.pick(4)] ^= byte(1 << uint(g.pick(8))) // declared size becomes ≥ 2^32
	case "nonce":
		ok = flipAt(0, g.nonce)
	case "body":
		ok = flipAt(g.nonce, g.nonce+g.bodyLen(idx))
	case "pad":
		ok = flipAt(g.nonce+g.bodyLen(idx), len(payload)-g.tag)
	case "tag":
		ok = flipAt(len(payload)-g.tag, len(payload))
	case "trunc":
		// at least 8 bytes: the bytes that move up from the next frame (its size prefix) then differ from the
		// cut-off tag bytes except with probability 2^-64; a 1-byte cut is undone by chance once in 256 times
		out = out[:len(out)-8-g.pick(16)]
	case "ext":
		extra := make([]byte, 8+g.pick(16)) // ≥ 8 bytes, all ≥ 0xA0: read as a length prefix they exceed every limit
		for i := range extra {
			extra[i] = byte(0xA0 + i)
		}
		out = append(out, extra...)
	default:
		ok = false
	}
	if g.applied != nil {
		g.applied(f, ok)
	}
	return out
}

// dirPlan describes what the man in the middle does with one direction of a connection.
type dirPlan struct {
	skip    int                                // unframed bytes passed through first (RHP2 key exchange)
	frames  int                                // number of length-prefixed frames parsed after that (<0: all)
	rewrite func(idx int, frame []byte) []byte // may be nil
	flip    bool                               // flip one bit of the byte at offset rawFlip of the raw tail
	rawFlip int64
	seen    *int64 // frames forwarded
	onFrame func(idx int, n int)
	// closeAfter > 0: after forwarding frame closeAfter (as rewritten, e.g. cut short) the connection ends
	closeAfter int
	// cut: the raw tail is forwarded up to offset rawFlip only, then the connection ends
	cut bool
}

// pump forwards src to dst according to plan; on any error both ends are closed.
func pump(src, dst net.Conn, p dirPlan, wg *sync.WaitGroup) {
	defer wg.Done()
	defer dst.Close()
	defer src.Close()
	if p.skip > 0 {
		buf := make([]byte, p.skip)
		if _, err := io.ReadFull(src, buf); err != nil {
			return
		}
		if _, err := dst.Write(buf); err != nil {
			return
		}
	}
	for idx := 1; p.frames < 0 || idx <= p.frames; idx++ {
		var lb [8]byte
		if _, err := io.ReadFull(src, lb[:]); err != nil {
			return
		}
		n := binary.LittleEndian.Uint64(lb[:])
		if n > 64<<20 {
			return
		}
		frame := make([]byte, 8+n)
		copy(frame, lb[:])
		if _, err := io.ReadFull(src, frame[8:]); err != nil {
			return
		}
		if p.onFrame != nil {
			p.onFrame(idx, int(n))
		}
		if p.rewrite != nil {
			frame = p.rewrite(idx, frame)
		}
		if _, err := dst.Write(frame); err != nil {
			return
		}
		if p.seen != nil {
			atomic.AddInt64(p.seen, 1)
		}
		if p.closeAfter == idx {
			return
		}
	}
	// raw tail
	buf := make([]byte, 32<<10)
	var off int64
	for {
		n, err := src.Read(buf)
		if n > 0 {
			if p.cut && p.rawFlip < off+int64(n) {
				if k := p.rawFlip - off; k > 0 {
					dst.Write(buf[:k])
				}
				return
			}
			if p.flip && p.rawFlip >= off && p.rawFlip < off+int64(n) {
				buf[p.rawFlip-off] ^= 0x10
			}
			off += int64(n)
			if _, werr := dst.Write(buf[:n]); werr != nil {
				return
			}
		}
		if err != nil {
			return
		}
	}
}

// link is a connection a <-> b with a man in the middle.
type link struct {
	A, B net.Conn // the ends handed to the real endpoints
	wg   sync.WaitGroup
	all  []net.Conn
}

// newLink builds A <-> (proxy) <-> B. ab is applied to bytes flowing from A to B, ba to the other direction.
// A reports addrA as its local address and addrB as the remote one; B the other way round.
func newLink(addrA, addrB string, ab, ba dirPlan, deadline time.Duration) *link {
	a1, a2 := net.Pipe()
	b1, b2 := net.Pipe()
	l := &link{
		A:   aconn{a1, addr(addrA), addr(addrB)},
		B:   aconn{b2, addr(addrB), addr(addrA)},
		all: []net.Conn{a1, a2, b1, b2},
	}
	dl := time.Now().Add(deadline)
	for _, c := range l.all {
		c.SetDeadline(dl)
	}
	l.wg.Add(2)
	go pump(a2, b1, ab, &l.wg)
	go pump(b1, a2, ba, &l.wg)
	return l
}

// Close tears everything down and waits for the proxy goroutines.
func (l *link) Close() {
	for _, c := range l.all {
		c.Close()
	}
	l.wg.Wait()
}

func isTimeout(err error) bool {
	if err == nil {
		return false
	}
	if errors.Is(err, os.ErrDeadlineExceeded) {
		return true
	}
	var ne net.Error
	return errors.As(err, &ne) && ne.Timeout()
}

// ---------------------------------------------------------------------------
// byte accounting

// countReader counts what a reader consumed.
type countReader struct {
	r io.Reader
	n int64
}

func (c *countReader) Read(p []byte) (int, error) {
	n, err := c.r.Read(p)
	c.n += int64(n)
	return n, err
}

// endless yields head and then an unbounded run of fill bytes (a peer that never stops sending).
type endless struct {
	head []byte
	fill byte
	max  int64 // safety stop: after this many bytes the source reports EOF
	off  int64
}

func (e *endless) Read(p []byte) (int, error) {
	if e.off >= e.max {
		return 0, io.EOF
	}
	n := 0
	for n < len(p) && e.off < e.max {
		if e.off < int64(len(e.head)) {
			c := copy(p[n:], e.head[e.off:])
			n += c
			e.off += int64(c)
			continue
		}
		m := len(p) - n
		if rem := e.max - e.off; int64(m) > rem {
			m = int(rem)
		}
		for i := 0; i < m; i++ {
			p[n+i] = e.fill
		}
		n += m
		e.off += int64(m)
	}
	return n, nil
}

// countConn is a net.Conn over an in-memory source that counts reads (writes are discarded).
type countConn struct {
	countReader
}

func (c *countConn) Write(p []byte) (int, error)        { return len(p), nil }
func (c *countConn) Close() error                       { return nil }
func (c *countConn) LocalAddr() net.Addr                { return addr("10.0.0.1:1") }
func (c *countConn) RemoteAddr() net.Addr               { return addr("10.0.0.2:2") }
func (c *countConn) SetDeadline(t time.Time) error      { return nil }
func (c *countConn) SetReadDeadline(t time.Time) error  { return nil }
func (c *countConn) SetWriteDeadline(t time.Time) error { return nil }
