package main

import (
	"bytes"
	"errors"
	"fmt"
	"io"
	"math/rand"
	"strings"
	"sync"
	"time"

	rhp2 "go.sia.tech/core/rhp/v2"
	"go.sia.tech/core/types"
)

// A schedule is one case enumerated by TLC from spec/net/Session.tla: a conversation of K frames in one
// direction, the kinds of the frames, the faults the adversary applies, and the outcome the
// specification demands.
type schedule struct {
	K      int      `json:"k"`
	Kinds  []string `json:"kinds"`  // per frame: "obj" | "err"
	Faults []fault  `json:"faults"` // at most one per frame
	// expectation
	Delivered int    `json:"delivered"` // frames 1..Delivered are handed to the application, nothing else
	End       string `json:"end"`       // "done" (all read) | "fail" (fault detected, session closed) | "refuse" (size refused, conversation over) | "block" (reader starved)
	Cause     string `json:"cause"`     // "auth" | "size" | ""
}

func (s schedule) key() string {
	k := fmt.Sprintf("k%d-%v", s.K, s.Kinds)
	for _, f := range s.Faults {
		k += fmt.Sprintf("-%d%s", f.Frame, f.Kind)
	}
	return k
}

// observation is what the real endpoints did.
type observation struct {
	Delivered int    `json:"delivered"`  // frames handed over intact and in order
	End       string `json:"end"`        // done | fail | block
	Closed    bool   `json:"closed"`     // reader's IsClosed() after the end
	LaterRead string `json:"later"`      // what one more read after a failure did: "" (n/a) | "error" | "delivered"
	Wrong     string `json:"wrong"`      // non-empty: a delivered frame differed from what was written
	WrongKind string `json:"wrong_kind"` // "object" | "error-response"
	Err       string `json:"err"`
	Setup     string `json:"setup"` // non-empty: the conversation could not be set up (infrastructure)
}

var rhp2HostKey = types.NewPrivateKeyFromSeed(bytes.Repeat([]byte{7}, 32))

const (
	rhp2ReqSkip  = 16 + 32 + 8 + 16            // key exchange request
	rhp2RespSkip = 32 + 8 + 64 + 16 + 8 + 4088 // key exchange response + challenge frame
)

// payload i of a conversation: small objects are padded to 4096 by the transport, large ones are not.
type rhp2Msg struct {
	id    types.Specifier
	obj   rhp2.ProtocolObject // nil: bare ID (r2h) — never nil for h2r "obj"
	blank func() rhp2.ProtocolObject
	err   *rhp2.RPCError
	body  int // plaintext length of the frame that carries it
}

func encLen(o types.EncoderTo) int {
	var buf bytes.Buffer
	e := types.NewEncoder(&buf)
	o.EncodeTo(e)
	e.Flush()
	return buf.Len()
}

func encBytes(o types.EncoderTo) []byte {
	var buf bytes.Buffer
	e := types.NewEncoder(&buf)
	o.EncodeTo(e)
	e.Flush()
	return buf.Bytes()
}

func randHashes(r *rand.Rand, n int) []types.Hash256 {
	hs := make([]types.Hash256, n)
	for i := range hs {
		r.Read(hs[i][:])
	}
	return hs
}

func randBytes(r *rand.Rand, n int) []byte {
	b := make([]byte, n)
	r.Read(b)
	return b
}

// rhp2Object picks a real RPC object; big objects exceed the padding size.
func rhp2Object(r *rand.Rand, big bool) (rhp2.ProtocolObject, func() rhp2.ProtocolObject) {
	n := 1 + r.Intn(8)
	if big {
		n = 140 + r.Intn(200)
	}
	switch r.Intn(4) {
	case 0:
		o := &rhp2.RPCSectorRootsResponse{SectorRoots: randHashes(r, n), MerkleProof: randHashes(r, 1+r.Intn(6))}
		r.Read(o.Signature[:])
		return o, func() rhp2.ProtocolObject { return new(rhp2.RPCSectorRootsResponse) }
	case 1:
		o := &rhp2.RPCWriteMerkleProof{OldSubtreeHashes: randHashes(r, n), OldLeafHashes: randHashes(r, 1+r.Intn(4))}
		r.Read(o.NewMerkleRoot[:])
		return o, func() rhp2.ProtocolObject { return new(rhp2.RPCWriteMerkleProof) }
	case 2:
		o := &rhp2.RPCSettingsResponse{Settings: randBytes(r, n*32)}
		return o, func() rhp2.ProtocolObject { return new(rhp2.RPCSettingsResponse) }
	default:
		o := &rhp2.RPCReadRequest{MerkleProof: r.Intn(2) == 0, RevisionNumber: r.Uint64(),
			ValidProofValues:  []types.Currency{types.NewCurrency64(r.Uint64()), types.NewCurrency(r.Uint64(), r.Uint64()>>1)},
			MissedProofValues: []types.Currency{types.NewCurrency64(r.Uint64()), types.NewCurrency64(r.Uint64()), types.ZeroCurrency}}
		for i := 0; i < n; i++ {
			var s rhp2.RPCReadRequestSection
			r.Read(s.MerkleRoot[:])
			s.Offset, s.Length = uint64(r.Intn(1<<16))*64, uint64(1+r.Intn(1<<10))*64
			o.Sections = append(o.Sections, s)
		}
		r.Read(o.Signature[:])
		return o, func() rhp2.ProtocolObject { return new(rhp2.RPCReadRequest) }
	}
}

// rhp2Run replays one schedule on a real renter/host transport pair.
//
//	dir  "r2h": the renter writes requests, the host reads them (ReadID / ReadRequest)
//	     "h2r": the host writes responses, the renter reads them (ReadResponse, or RawResponse+VerifyTag if raw)
func rhp2Run(s schedule, dir string, raw bool, seed int64, blockWait time.Duration, applied func(f fault, ok bool)) observation {
	r := rand.New(rand.NewSource(seed))
	var obs observation
	faultAt := map[int]fault{}
	for _, f := range s.Faults {
		faultAt[f.Frame] = f
	}
	// conversation
	msgs := make([]rhp2Msg, s.K+2) // 1-based
	// frame types. h2r: the kinds of the schedule (response object / error response). r2h: an ID frame,
	// optionally followed by the frame of its request object.
	ftype := make([]string, s.K+2)
	for i := 1; i <= s.K; i++ {
		ftype[i] = s.Kinds[i-1]
		if dir == "r2h" {
			ftype[i] = "id"
			if ftype[i-1] == "id" && r.Intn(2) == 0 {
				ftype[i] = "req"
			}
		}
	}
	for i := 1; i <= s.K; i++ {
		m := &msgs[i]
		r.Read(m.id[:])
		m.id[0] |= 1 // never LoopExit
		padFault := faultAt[i].Kind == "pad"
		switch {
		case ftype[i] == "err":
			m.err = &rhp2.RPCError{Description: fmt.Sprintf("refused %d: %x", i, randBytes(r, 1+r.Intn(20))), Data: randBytes(r, r.Intn(40))}
			r.Read(m.err.Type[:])
			m.body = 1 + encLen(m.err)
		case ftype[i] == "id":
			m.body = 16
		default:
			m.obj, m.blank = rhp2Object(r, !padFault && r.Intn(3) == 0)
			m.body = encLen(m.obj)
			if dir == "h2r" {
				m.body++
			}
		}
	}
	geom := frameGeom{nonce: 12, tag: 16, bodyLen: func(i int) int { return msgs[i].body },
		pick: func(n int) int { return r.Intn(n) }, applied: applied}
	rewrite := func(idx int, frame []byte) []byte {
		if f, ok := faultAt[idx]; ok {
			return mutate(f, idx, frame, geom)
		}
		return frame
	}
	var fwd int64
	var ab, ba dirPlan // A = renter, B = host
	ab = dirPlan{skip: rhp2ReqSkip, frames: -1}
	ba = dirPlan{skip: rhp2RespSkip, frames: -1}
	if dir == "r2h" {
		ab.rewrite, ab.seen = rewrite, &fwd
	} else {
		ba.rewrite, ba.seen = rewrite, &fwd
	}
	total := 20*time.Second + blockWait
	l := newLink("10.1.0.1:4001", "10.2.0.2:9982", ab, ba, total)
	defer l.Close()

	// handshake
	var ht *rhp2.Transport
	var herr error
	var wg sync.WaitGroup
	wg.Add(1)
	go func() {
		defer wg.Done()
		ht, herr = rhp2.NewHostTransport(l.B, rhp2HostKey)
	}()
	rt, rerr := rhp2.NewRenterTransport(l.A, rhp2HostKey.PublicKey())
	wg.Wait()
	if rerr != nil || herr != nil {
		obs.Setup = fmt.Sprintf("handshake: renter %v, host %v", rerr, herr)
		return obs
	}
	writer, reader := rt, ht
	if dir == "h2r" {
		writer, reader = ht, rt
	}

	// writer: everything, in order; errors of the writer are irrelevant (the adversary may have killed the link)
	wdone := make(chan struct{})
	go func() {
		defer close(wdone)
		for i := 1; i <= s.K; i++ {
			m := msgs[i]
			var err error
			switch {
			case ftype[i] == "id" && ftype[i+1] == "req":
				// the ID frame and the request frame: two frames of the conversation
				err = writer.WriteRequest(m.id, msgs[i+1].obj)
				i++
			case ftype[i] == "id":
				err = writer.WriteRequest(m.id, nil)
			case m.err != nil:
				err = writer.WriteResponseErr(m.err)
			default:
				err = writer.WriteResponse(m.obj)
			}
			if err != nil {
				return
			}
		}
	}()
	_ = wdone

	readOne := func(i int) (delivered bool, err error, wrong string) {
		m := msgs[i]
		const maxLen = 1 << 20
		switch {
		case ftype[i] == "id":
			id, err := reader.ReadID()
			if err != nil {
				return false, err, ""
			}
			if id != m.id {
				return true, nil, fmt.Sprintf("frame %d: ID %x read as %x", i, m.id[:], id[:])
			}
			return true, nil, ""
		case ftype[i] == "req":
			got := m.blank()
			if err := reader.ReadRequest(got, maxLen); err != nil {
				return false, err, ""
			}
			if !bytes.Equal(encBytes(got), encBytes(m.obj)) {
				return true, nil, fmt.Sprintf("frame %d: request object differs after transport", i)
			}
			return true, nil, ""
		case !raw:
			var got rhp2.ProtocolObject = new(rhp2.RPCWriteResponse)
			if m.obj != nil {
				got = m.blank()
			}
			err := reader.ReadResponse(got, maxLen)
			if m.err != nil {
				var re *rhp2.RPCError
				if errors.As(err, &re) {
					if re.Type != m.err.Type || !bytes.Equal(re.Data, m.err.Data) || re.Description != m.err.Description {
						return true, nil, fmt.Sprintf("frame %d: error response {%x %x %q} surfaced as {%x %x %q}", i, m.err.Type[:], m.err.Data, m.err.Description, re.Type[:], re.Data, re.Description)
					}
					return true, nil, ""
				}
				if err == nil {
					return true, nil, fmt.Sprintf("frame %d: error response surfaced as success", i)
				}
				return false, err, ""
			}
			if err != nil {
				if re := new(rhp2.RPCError); errors.As(err, &re) {
					return true, nil, fmt.Sprintf("frame %d: response object surfaced as RPC error %q", i, re.Description)
				}
				return false, err, ""
			}
			if !bytes.Equal(encBytes(got), encBytes(m.obj)) {
				return true, nil, fmt.Sprintf("frame %d: response object differs after transport", i)
			}
			return true, nil, ""
		default: // raw
			rr, err := reader.RawResponse(maxLen)
			if m.err != nil {
				var re *rhp2.RPCError
				if errors.As(err, &re) {
					if re.Type != m.err.Type || !bytes.Equal(re.Data, m.err.Data) || re.Description != m.err.Description {
						return true, nil, fmt.Sprintf("frame %d: error response {%x %x %q} surfaced as {%x %x %q} (raw)", i, m.err.Type[:], m.err.Data, m.err.Description, re.Type[:], re.Data, re.Description)
					}
					return true, nil, ""
				}
				if err == nil {
					// the caller would treat the stream as a success: read and verify like one
					if _, e2 := io.Copy(io.Discard, rr); e2 != nil {
						return false, e2, ""
					}
					if e2 := rr.VerifyTag(); e2 != nil {
						return false, e2, ""
					}
					return true, nil, fmt.Sprintf("frame %d: error response surfaced as success (raw)", i)
				}
				return false, err, ""
			}
			if err != nil {
				if re := new(rhp2.RPCError); errors.As(err, &re) {
					return true, nil, fmt.Sprintf("frame %d: response object surfaced as RPC error %q (raw)", i, re.Description)
				}
				return false, err, ""
			}
			want := encBytes(m.obj)
			got := make([]byte, len(want))
			_, rerr := io.ReadFull(rr, got)
			// the message counts as delivered only once the tag is verified (also after a short read)
			if err := rr.VerifyTag(); err != nil {
				return false, err, ""
			}
			if rerr != nil || !bytes.Equal(got, want) {
				return true, nil, fmt.Sprintf("frame %d: raw response bytes differ after authentication", i)
			}
			return true, nil, ""
		}
	}

	obs.End = "done"
	for i := 1; i <= s.K; i++ {
		// a read may only be declared starved after the adversary forwarded everything it will ever forward
		// (only the read the specification expects to starve gets the short wait)
		reader.SetReadDeadline(time.Now().Add(15 * time.Second))
		if s.End == "block" && i == s.Delivered+1 {
			reader.SetReadDeadline(time.Now().Add(blockWait))
		}
		ok, err, wrong := readOne(i)
		if wrong != "" && obs.Wrong == "" {
			obs.Wrong, obs.WrongKind = wrong, "object"
			if msgs[i].err != nil || strings.Contains(wrong, "RPC error") {
				obs.WrongKind = "error-response"
			}
		}
		if ok {
			obs.Delivered++
			continue
		}
		obs.Err = err.Error()
		if isTimeout(err) {
			obs.End = "block"
		} else {
			obs.End = "fail"
			// one more read: nothing may come out of a failed session
			if i < s.K {
				reader.SetReadDeadline(time.Now().Add(500 * time.Millisecond))
				ok2, _, _ := readOne(i + 1)
				obs.LaterRead = "error"
				if ok2 {
					obs.LaterRead = "delivered"
				}
			}
		}
		break
	}
	obs.Closed = reader.IsClosed()
	return obs
}
