package main

import (
	"bytes"
	"fmt"
	"math/rand"
	"time"

	"go.sia.tech/core/consensus"
	"go.sia.tech/core/gateway"
	"go.sia.tech/core/types"
)

// weightTxn is a v2 transaction of exactly the given consensus weight; with proofs > 0 it spends `inputs`
// elements carrying Merkle proofs of that length (proofs are not counted by the weight).
func weightTxn(r *rand.Rand, weight int, inputs, proofs int) types.V2Transaction {
	t := types.V2Transaction{SiacoinOutputs: []types.SiacoinOutput{rOutput(r)}, MinerFee: rCur(r)}
	leaf := uint64(0)
	for i := 0; i < inputs; i++ {
		in := types.V2SiacoinInput{Parent: rSCElement(r, proofs), SatisfiedPolicy: types.SatisfiedPolicy{Policy: types.PolicyAbove(uint64(i))}}
		// leaves spread evenly over a tree with 2^proofs leaves
		if proofs > 0 {
			step := (uint64(1) << uint(proofs)) / uint64(inputs)
			if step == 0 {
				step = 1
			}
			in.Parent.StateElement.LeafIndex = leaf
			leaf += step
		}
		t.SiacoinInputs = append(t.SiacoinInputs, in)
	}
	var cs consensus.State
	if pad := weight - int(cs.V2TransactionWeight(t)); pad > 0 {
		t.ArbitraryData = randBytes(r, pad)
	}
	return t
}

func blockOf(r *rand.Rand, txns ...types.V2Transaction) types.Block {
	return types.Block{ParentID: types.BlockID(rHash(r)), Nonce: r.Uint64(), Timestamp: rTime(r),
		MinerPayouts: fixedOutputs(r, 1),
		V2:           &types.V2BlockData{Height: uint64(r.Intn(1 << 30)), Commitment: rHash(r), Transactions: txns}}
}

func fullState(r *rand.Rand) consensus.State {
	var cs consensus.State
	cs.Index = rIndex(r)
	for i := range cs.PrevTimestamps {
		cs.PrevTimestamps[i] = rTime(r)
	}
	cs.Depth, cs.ChildTarget, cs.OakTarget = types.BlockID(rHash(r)), types.BlockID(rHash(r)), types.BlockID(rHash(r))
	cs.SiafundTaxRevenue = rCur(r)
	cs.FoundationSubsidyAddress, cs.FoundationManagementAddress = rAddr(r), rAddr(r)
	cs.Elements.NumLeaves = ^uint64(0)
	for i := range cs.Elements.Trees {
		cs.Elements.Trees[i] = rHash(r)
	}
	cs.Attestations = r.Uint64()
	// normalise through the codec (work values)
	var back consensus.State
	back.DecodeFrom(types.NewBufDecoder(encBytes(cs)))
	return back
}

// gwObj describes how one gateway object is exercised: n is the single size parameter.
type gwObj struct {
	name, dir string
	unit      string                                               // "count" (elements) or "bytes"
	param     uint64                                               // Max of the request (responses of SendHeaders / SendV2Blocks)
	mk        func(r *rand.Rand, n int) (req, resp gateway.Object) // req always; resp only for dir=="resp"
	max       []int
	rnd       int
	start     int // first size tried when looking for the limit
	s         int // bytes per unit
	weight    bool
	fromTxn   func(r *rand.Rand, t types.V2Transaction) (req, resp gateway.Object) // weight objects: the object around a given transaction
}

func gwCatalogue() []gwObj {
	hashes := func(r *rand.Rand, n int) []types.Hash256 { return randHashes(r, n) }
	ids := func(r *rand.Rand, n int) []types.BlockID {
		out := make([]types.BlockID, n)
		for i := range out {
			out[i] = types.BlockID(rHash(r))
		}
		return out
	}
	str := func(r *rand.Rand, n int) string {
		b := make([]byte, n)
		for i := range b {
			b[i] = byte('0' + r.Intn(10))
		}
		return string(b)
	}
	headers := func(r *rand.Rand, n int) []types.BlockHeader {
		out := make([]types.BlockHeader, n)
		for i := range out {
			out[i] = types.BlockHeader{ParentID: types.BlockID(rHash(r)), Nonce: r.Uint64(), Timestamp: rTime(r), Commitment: rHash(r)}
		}
		return out
	}
	cat := []gwObj{
		{name: "SendHeaders", dir: "req", unit: "fixed", mk: func(r *rand.Rand, n int) (gateway.Object, gateway.Object) {
			return &gateway.RPCSendHeaders{Index: rIndex(r), Max: uint64(r.Intn(100))}, nil
		}},
		{name: "SendCheckpoint", dir: "req", unit: "fixed", mk: func(r *rand.Rand, n int) (gateway.Object, gateway.Object) {
			return &gateway.RPCSendCheckpoint{Index: rIndex(r)}, nil
		}},
		{name: "RelayV2Header", dir: "req", unit: "fixed", mk: func(r *rand.Rand, n int) (gateway.Object, gateway.Object) {
			return &gateway.RPCRelayV2Header{Header: headers(r, 1)[0]}, nil
		}},
		{name: "SendV2Blocks", dir: "req", unit: "count", s: 32, max: []int{32}, rnd: 32, start: 8, mk: func(r *rand.Rand, n int) (gateway.Object, gateway.Object) {
			return &gateway.RPCSendV2Blocks{History: ids(r, n), Max: uint64(r.Intn(10))}, nil
		}},
		{name: "SendTransactions", dir: "req", unit: "count", s: 32, max: []int{100}, rnd: 100, start: 16, mk: func(r *rand.Rand, n int) (gateway.Object, gateway.Object) {
			return &gateway.RPCSendTransactions{Index: rIndex(r), Hashes: hashes(r, n)}, nil
		}},
		{name: "ShareNodes", dir: "resp", unit: "count", s: 8 + 47, max: []int{100}, rnd: 100, start: 16, mk: func(r *rand.Rand, n int) (gateway.Object, gateway.Object) {
			o := &gateway.RPCShareNodes{}
			for i := 0; i < n; i++ {
				o.Peers = append(o.Peers, "["+str(r, 39)+"]:"+str(r, 5)) // 47 bytes: the longest host:port of an IPv6 literal
			}
			return &gateway.RPCShareNodes{}, o
		}},
		{name: "DiscoverIP", dir: "resp", unit: "bytes", s: 1, max: []int{45}, rnd: 45, start: 16, mk: func(r *rand.Rand, n int) (gateway.Object, gateway.Object) {
			return &gateway.RPCDiscoverIP{}, &gateway.RPCDiscoverIP{IP: str(r, n)}
		}},
	}
	// objects that carry transactions: n = consensus weight of the (single) transaction
	weightObj := func(name, dir string, param uint64, wrap func(r *rand.Rand, t types.V2Transaction) (gateway.Object, gateway.Object)) gwObj {
		return gwObj{name: name, dir: dir, unit: "bytes", s: 1, weight: true, param: param, max: []int{2000000}, rnd: 300000, start: 1 << 20, fromTxn: wrap,
			mk: func(r *rand.Rand, n int) (gateway.Object, gateway.Object) { return wrap(r, weightTxn(r, n, 0, 0)) }}
	}
	cat = append(cat,
		weightObj("RelayV2BlockOutline", "req", 0, func(r *rand.Rand, t types.V2Transaction) (gateway.Object, gateway.Object) {
			return &gateway.RPCRelayV2BlockOutline{Block: gateway.V2BlockOutline{Height: uint64(r.Intn(1 << 30)), ParentID: types.BlockID(rHash(r)), Nonce: r.Uint64(),
				Timestamp: rTime(r), MinerAddress: rAddr(r), Transactions: []gateway.OutlineTransaction{{Hash: t.MerkleLeafHash(), V2Transaction: &t}, {Hash: rHash(r)}}}}, nil
		}),
		weightObj("RelayV2TransactionSet", "req", 0, func(r *rand.Rand, t types.V2Transaction) (gateway.Object, gateway.Object) {
			return &gateway.RPCRelayV2TransactionSet{Index: rIndex(r), Transactions: []types.V2Transaction{t}}, nil
		}),
		weightObj("SendTransactions", "resp", 0, func(r *rand.Rand, t types.V2Transaction) (gateway.Object, gateway.Object) {
			return &gateway.RPCSendTransactions{Index: rIndex(r), Hashes: hashes(r, 1)}, &gateway.RPCSendTransactions{V2Transactions: []types.V2Transaction{t}}
		}),
		weightObj("SendCheckpoint", "resp", 0, func(r *rand.Rand, t types.V2Transaction) (gateway.Object, gateway.Object) {
			return &gateway.RPCSendCheckpoint{Index: rIndex(r)}, &gateway.RPCSendCheckpoint{Block: blockOf(r, t), State: fullState(r)}
		}),
		weightObj("SendV2Blocks", "resp", 1, func(r *rand.Rand, t types.V2Transaction) (gateway.Object, gateway.Object) {
			return &gateway.RPCSendV2Blocks{History: ids(r, 3), Max: 1}, &gateway.RPCSendV2Blocks{Blocks: []types.Block{blockOf(r, t)}, Remaining: uint64(r.Intn(100))}
		}),
	)
	for _, m := range []uint64{1, 10, 2000} {
		m := m
		cat = append(cat, gwObj{name: "SendHeaders", dir: "resp", unit: "count", s: 80, param: m, max: []int{int(m)}, rnd: int(m), start: 1, mk: func(r *rand.Rand, n int) (gateway.Object, gateway.Object) {
			return &gateway.RPCSendHeaders{Index: rIndex(r), Max: m}, &gateway.RPCSendHeaders{Headers: headers(r, n), Remaining: uint64(r.Intn(100))}
		}})
	}
	return cat
}

// gwProbe moves one object of size parameter n over a stream of p.
func gwProbe(p *gwPeer, g gwObj, seed int64, n int) (res gwResult, weight int) {
	r := rand.New(rand.NewSource(seed))
	req, resp := g.mk(r, n)
	if g.dir == "req" {
		return p.gwRequest(req, 30*time.Second), n
	}
	return p.gwResponse(req, resp, 30*time.Second), n
}

// gwFraming observes the limit of one object by bisection on its size parameter and records shapes around it.
func gwFraming(rec *frec, g gwObj, r *rand.Rand, nRandom int, resolution int, open func() *gwPeer, infra func(string)) {
	// a refused message may leave so much data in flight that the multiplexer gives the connection up:
	// every refusal is followed by a fresh pair of transports
	var p *gwPeer
	dirty := true
	done := false
	peer := func() *gwPeer {
		if done {
			return nil
		}
		if dirty || p == nil {
			if p != nil {
				p.Close()
			}
			p = open()
			dirty = false
		}
		return p
	}
	defer func() {
		done = true
		if p != nil {
			p.Close()
		}
	}()
	if peer() == nil {
		return
	}
	name := g.name
	seed0 := r.Int63()
	size := func(n int) int { // mirrored wire size
		rq, rs := g.mk(rand.New(rand.NewSource(seed0)), n)
		if g.dir == "req" {
			return len(gwReqBytes(rq))
		}
		return len(gwRespBytes(rs))
	}
	fixed := size(0)
	if g.unit == "fixed" {
		sd := r.Int63()
		rec.add(func() fline {
			q := peer()
			if q == nil {
				if q = open(); q == nil {
					return fline{"infra": "cannot reopen"}
				}
				defer q.Close()
			}
			res, _ := gwProbe(q, g, sd, 0)
			l := fline{"ev": "shape", "fam": "gw", "obj": name, "dir": g.dir, "pre": 0, "m": -1, "fixed": res.WireLen, "groups": [][]int{},
				"plain": res.WireLen, "enc": res.WireLen, "limLo": res.WireLen, "limHi": -1, "accepted": res.ReadErr == nil && res.Infra == "", "same": res.Same,
				"consumed": -1, "maximal": true}
			if res.Infra != "" {
				l["infra"] = res.Infra
			}
			return l
		})
		return
	}
	if g.weight {
		// n counts consensus weight; the arbitrary data carries what the rest of the transaction does not weigh
		fixed = size(1000) - 1000
	}
	probe := func(n int) (bool, gwResult) {
		q := peer()
		if q == nil {
			return false, gwResult{Infra: "no transport"}
		}
		res, _ := gwProbe(q, g, r.Int63(), n)
		if res.Infra != "" {
			infra(fmt.Sprintf("gateway %s/%s n=%d: %s", g.name, g.dir, n, res.Infra))
		}
		ok := res.ReadErr == nil && res.Infra == ""
		dirty = !ok
		return ok, res
	}
	// gallop, then bisect
	lo, hi := 0, 0
	n := g.start
	if g.weight {
		lo = 1000
	}
	for i := 0; i < 40; i++ {
		ok, _ := probe(n)
		if ok {
			lo = n
			n *= 2
			continue
		}
		hi = n
		break
	}
	if hi == 0 {
		infra(fmt.Sprintf("gateway %s/%s: no size was refused", g.name, g.dir))
		return
	}
	for hi-lo > resolution {
		mid := lo + (hi-lo)/2
		if ok, _ := probe(mid); ok {
			lo = mid
		} else {
			hi = mid
		}
	}
	limLo, limHi := fixed+lo*g.s, fixed+hi*g.s
	emit := func(n int, maximal bool) {
		sd := r.Int63()
		rec.add(func() fline {
			q := peer()
			if q == nil {
				if q = open(); q == nil {
					return fline{"infra": "cannot reopen"}
				}
				defer q.Close()
			}
			res, _ := gwProbe(q, g, sd, n)
			dirty = dirty || res.ReadErr != nil || res.Infra != ""
			l := fline{"ev": "shape", "fam": "gw", "obj": name, "dir": g.dir, "pre": 0, "m": -1, "fixed": fixed, "groups": [][]int{{n, g.s}},
				"plain": res.WireLen, "enc": res.WireLen, "limLo": limLo, "limHi": limHi, "accepted": res.ReadErr == nil && res.Infra == "", "same": res.Same,
				"consumed": -1, "maximal": maximal, "param": g.param}
			if res.Infra != "" {
				l["infra"] = res.Infra
			}
			if res.ReadErr != nil {
				l["err"] = res.ReadErr.Error()
			}
			return l
		})
	}
	for _, m := range g.max {
		emit(m, true)
	}
	for i := 0; i < nRandom; i++ {
		if g.weight {
			emit(1000+r.Intn(g.rnd), false)
		} else {
			emit(1+r.Intn(g.rnd), false)
		}
	}
	emit(lo, false)
	emit(hi, false)
	emit(hi+1+r.Intn(hi/4+1), false)
	// every other distance from the observed limit the model walks (EDGE records of FrameSizes.tla)
	for _, d := range edgeSlacks {
		switch {
		case d > 0 && lo-d >= 1 && (!g.weight || lo-d >= 1000):
			emit(lo-d, false)
		case d < -1:
			emit(hi-d-1, false)
		}
	}
	if g.weight && g.fromTxn != nil {
		// the same weight limit, now with what the weight does not count: stressInputs minimal inputs whose
		// elements sit evenly spread in a tree of 2^stressDepth leaves and carry their Merkle proofs
		sd := r.Int63()
		rec.add(func() fline {
			q := peer()
			if q == nil {
				if q = open(); q == nil {
					return fline{"infra": "cannot reopen"}
				}
				defer q.Close()
			}
			wire := func(depth int) (gateway.Object, gateway.Object, int) {
				rr := rand.New(rand.NewSource(sd))
				t := weightTxn(rr, 2000000, stressInputs, depth)
				rq, rs := g.fromTxn(rr, t)
				if g.dir == "req" {
					return rq, rs, len(gwReqBytes(rq))
				}
				return rq, rs, len(gwRespBytes(rs))
			}
			_, _, bare := wire(0)
			rq, rs, full := wire(stressDepth)
			var res gwResult
			if g.dir == "req" {
				res = q.gwRequest(rq, 60*time.Second)
			} else {
				res = q.gwResponse(rq, rs, 60*time.Second)
			}
			dirty = dirty || res.ReadErr != nil || res.Infra != ""
			l := fline{"ev": "shape", "fam": "gw", "obj": name, "dir": g.dir, "pre": 0, "m": -1, "fixed": bare - 2000000,
				"groups": [][]int{{2000000, 1}, {(full - bare) / 32, 32}},
				"plain":  res.WireLen, "enc": res.WireLen, "limLo": limLo, "limHi": limHi, "accepted": res.ReadErr == nil && res.Infra == "", "same": res.Same,
				"consumed": -1, "maximal": true, "param": g.param}
			if res.Infra != "" {
				l["infra"] = res.Infra
			}
			if res.ReadErr != nil {
				l["err"] = res.ReadErr.Error()
			}
			return l
		})
	}
}

const (
	stressInputs = 15000 // minimal inputs weigh about 130 bytes each: 15 000 of them stay below the block weight limit
	stressDepth  = 24    // an accumulator with 2^24 (16.7 million) elements
)

// gwHeaderFraming: the header of the handshake with a net address of n bytes, real Dial against real Accept.
func gwHeaderLine(n int, limLo, limHi int) fline {
	host := bytes.Repeat([]byte{'a'}, n-5)
	hD := gateway.Header{GenesisID: gwGenesis(1), UniqueID: gwUID(1), NetAddress: string(host) + ":7777"}
	hA := gateway.Header{GenesisID: gwGenesis(1), UniqueID: gwUID(2), NetAddress: "198.51.100.7:" + gwAcceptListen}
	dt, at, derr, aerr, l := gwConnect(hD, hA, dirPlan{}, dirPlan{}, 20*time.Second)
	defer l.Close()
	if dt != nil && derr == nil {
		dt.Close()
	}
	if at != nil && aerr == nil {
		at.Close()
	}
	ok := derr == nil && aerr == nil
	return fline{"ev": "shape", "fam": "gw", "obj": "Header", "dir": "req", "pre": 8, "m": -1, "fixed": 48, "groups": [][]int{{n, 1}},
		"plain": 48 + n, "enc": 48 + n, "limLo": limLo, "limHi": limHi, "accepted": ok, "same": ok && at.Addr == gwDialHost+":7777", "consumed": -1, "maximal": false}
}

func gwHeaderFraming(rec *frec, r *rand.Rand) {
	accepted := func(n int) bool { return gwHeaderLine(n, 0, -1)["accepted"].(bool) }
	lo, hi := 6, 0
	for n := 16; n < 1<<16; n *= 2 {
		if accepted(n) {
			lo = n
		} else {
			hi = n
			break
		}
	}
	if hi == 0 {
		return
	}
	for hi-lo > 1 {
		mid := (lo + hi) / 2
		if accepted(mid) {
			lo = mid
		} else {
			hi = mid
		}
	}
	ns := []int{6, 10 + r.Intn(30), lo, hi, hi + 1 + r.Intn(50), 1000}
	for _, d := range edgeSlacks {
		switch {
		case d > 0 && lo-d >= 6:
			ns = append(ns, lo-d)
		case d < -1:
			ns = append(ns, hi-d-1)
		}
	}
	for _, n := range ns {
		n := n
		rec.add(func() fline { return gwHeaderLine(n, 48+lo, 48+hi) })
	}
}

// gwVersionHungry: a peer that connects and never stops sending its version string.
func gwVersionHungry(rec *frec) {
	run := func(announced uint64) (consumed int, refused bool) {
		head := append(le64(0), le64(announced)...)
		c := &countConn{countReader{r: &repeatReader{head: head, unit: []byte("7"), max: 1 << 24}, n: 0}}
		_, err := gateway.Accept(c, gateway.Header{GenesisID: gwGenesis(1), UniqueID: gwUID(1), NetAddress: "1.2.3.4:5"})
		return int(c.n), err != nil
	}
	// the largest announced length that is not refused on the spot
	lo, hi := uint64(1), uint64(1<<20)
	for hi-lo > 1 {
		mid := (lo + hi) / 2
		if c, _ := run(mid); c > 16 {
			lo = mid
		} else {
			hi = mid
		}
	}
	limit := int(8 + lo) // behind the ignored 8-byte prefix: length field + string
	for _, a := range []uint64{hi, hi + 1000, 1 << 40, 1<<63 + 1} {
		a := a
		rec.add(func() fline {
			c, ref := run(a)
			return fline{"ev": "hungry", "fam": "gw", "obj": "Version", "dir": "req", "pre": 8, "m": -1, "limLo": limit,
				"announced": fmt.Sprint(a), "consumed": c, "refused": ref}
		})
	}
}

// gwStress measures (no verdict) how large consensus-weight-maximal transaction sets get once Merkle proofs,
// which the weight does not count, are attached: n minimal inputs spread evenly over a tree of 2^h leaves.
// block: encoded as a V2 block (one multiproof); set: encoded as a plain transaction set (one proof per input).
func gwStress(seed int64, open func() *gwPeer) []map[string]any {
	var out []map[string]any
	for _, h := range []int{8, 12, 16, 20, 24, 28} {
		r := rand.New(rand.NewSource(seed))
		t := weightTxn(r, 2000000, 15000, h)
		var cs consensus.State
		row := map[string]any{"proof_depth": h, "inputs": len(t.SiacoinInputs), "weight": cs.V2TransactionWeight(t)}
		blk := &gateway.RPCSendV2Blocks{Blocks: []types.Block{blockOf(r, t)}}
		set := &gateway.RPCRelayV2TransactionSet{Index: rIndex(r), Transactions: []types.V2Transaction{t}}
		row["block_bytes"], row["set_bytes"] = len(gwRespBytes(blk)), len(gwReqBytes(set))
		if h == 16 || h == 24 {
			if p := open(); p != nil {
				res := p.gwResponse(&gateway.RPCSendV2Blocks{Max: 1}, blk, 60*time.Second)
				row["block_accepted_by_SendV2Blocks_Max1"] = res.ReadErr == nil && res.Infra == "" && res.Same
				p.Close()
			}
			if p := open(); p != nil {
				res := p.gwRequest(set, 60*time.Second)
				row["set_accepted_by_RelayV2TransactionSet"] = res.ReadErr == nil && res.Infra == "" && res.Same
				p.Close()
			}
		}
		out = append(out, row)
	}
	return out
}
