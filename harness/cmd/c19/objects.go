package main

import (
	"math/rand"
	"time"

	"go.sia.tech/core/types"
)

// random building blocks; everything round-trips byte-exactly through the codecs.

func rHash(r *rand.Rand) (h types.Hash256)   { r.Read(h[:]); return }
func rSig(r *rand.Rand) (s types.Signature)  { r.Read(s[:]); return }
func rAddr(r *rand.Rand) (a types.Address)   { r.Read(a[:]); return }
func rPK(r *rand.Rand) (p types.PublicKey)   { r.Read(p[:]); return }
func rSpec(r *rand.Rand) (s types.Specifier) { r.Read(s[:]); return }
func rCur(r *rand.Rand) types.Currency {
	return types.NewCurrency(r.Uint64(), r.Uint64()>>uint(r.Intn(64)))
}
func rTime(r *rand.Rand) time.Time { return time.Unix(int64(r.Intn(1<<31)), 0) }
func rIndex(r *rand.Rand) types.ChainIndex {
	return types.ChainIndex{Height: r.Uint64() >> 20, ID: types.BlockID(rHash(r))}
}
func rOutput(r *rand.Rand) types.SiacoinOutput {
	return types.SiacoinOutput{Value: rCur(r), Address: rAddr(r)}
}

func rCurs(r *rand.Rand, n int) []types.Currency {
	out := make([]types.Currency, n)
	for i := range out {
		out[i] = rCur(r)
	}
	return out
}

func rUnlockKey(r *rand.Rand) types.UnlockKey {
	return types.UnlockKey{Algorithm: types.SpecifierEd25519, Key: randBytes(r, 32)}
}

func rUC(r *rand.Rand) types.UnlockConditions {
	uc := types.UnlockConditions{Timelock: uint64(r.Intn(100)), SignaturesRequired: uint64(1 + r.Intn(2))}
	for i := 0; i < 1+r.Intn(2); i++ {
		uc.PublicKeys = append(uc.PublicKeys, rUnlockKey(r))
	}
	return uc
}

func rTxnSig(r *rand.Rand) types.TransactionSignature {
	ts := types.TransactionSignature{ParentID: rHash(r), PublicKeyIndex: uint64(r.Intn(3)), Timelock: uint64(r.Intn(10)),
		Signature: randBytes(r, 64)}
	if r.Intn(2) == 0 {
		ts.CoveredFields.WholeTransaction = true
	} else {
		ts.CoveredFields.SiacoinInputs = []uint64{0, 1}
		ts.CoveredFields.FileContractRevisions = []uint64{0}
	}
	return ts
}

func rSCInput(r *rand.Rand) types.SiacoinInput {
	return types.SiacoinInput{ParentID: types.SiacoinOutputID(rHash(r)), UnlockConditions: rUC(r)}
}

// rTxn is a v1 transaction whose encoding has exactly size bytes when size ≥ minTxn (else a minimal one).
func rTxn(r *rand.Rand, size int) types.Transaction {
	t := types.Transaction{
		SiacoinInputs:  []types.SiacoinInput{rSCInput(r)},
		SiacoinOutputs: []types.SiacoinOutput{rOutput(r), rOutput(r)},
		MinerFees:      []types.Currency{rCur(r)},
		Signatures:     []types.TransactionSignature{rTxnSig(r)},
		ArbitraryData:  [][]byte{{}},
	}
	if pad := size - encLen(t); pad > 0 {
		t.ArbitraryData[0] = randBytes(r, pad)
	}
	return t
}

func rFileContract(r *rand.Rand) types.FileContract {
	return types.FileContract{Filesize: r.Uint64() >> 10, FileMerkleRoot: rHash(r), WindowStart: uint64(r.Intn(1 << 30)), WindowEnd: uint64(r.Intn(1 << 30)),
		Payout: rCur(r), ValidProofOutputs: []types.SiacoinOutput{rOutput(r), rOutput(r)}, MissedProofOutputs: []types.SiacoinOutput{rOutput(r), rOutput(r), rOutput(r)},
		UnlockHash: rAddr(r), RevisionNumber: r.Uint64()}
}

func rRevision(r *rand.Rand) types.FileContractRevision {
	fc := rFileContract(r)
	fc.Payout = types.ZeroCurrency
	rev := types.FileContractRevision{ParentID: types.FileContractID(rHash(r)), UnlockConditions: rUC(r), FileContract: fc}
	// the payout is not part of a revision on the wire: normalise through the codec
	var back types.FileContractRevision
	d := types.NewBufDecoder(encBytes(rev))
	back.DecodeFrom(d)
	return back
}

func rPolicy(r *rand.Rand) types.SatisfiedPolicy {
	switch r.Intn(3) {
	case 0:
		return types.SatisfiedPolicy{Policy: types.PolicyAbove(uint64(r.Intn(1000)))}
	case 1:
		return types.SatisfiedPolicy{Policy: types.PolicyPublicKey(rPK(r)), Signatures: []types.Signature{rSig(r)}}
	default:
		return types.SatisfiedPolicy{Policy: types.PolicyThreshold(1, []types.SpendPolicy{types.PolicyPublicKey(rPK(r)), types.PolicyHash(rHash(r))}),
			Signatures: []types.Signature{rSig(r)}}
	}
}

func rSCElement(r *rand.Rand, proof int) types.SiacoinElement {
	return types.SiacoinElement{ID: types.SiacoinOutputID(rHash(r)),
		StateElement:  types.StateElement{LeafIndex: r.Uint64() >> 24, MerkleProof: randHashes(r, proof)},
		SiacoinOutput: rOutput(r), MaturityHeight: uint64(r.Intn(1 << 20))}
}

func rV2Input(r *rand.Rand, proof int) types.V2SiacoinInput {
	return types.V2SiacoinInput{Parent: rSCElement(r, proof), SatisfiedPolicy: rPolicy(r)}
}

// fixedV2Input has the same encoded size for every call with the same proof length.
func fixedV2Input(r *rand.Rand, proof int) types.V2SiacoinInput {
	return types.V2SiacoinInput{Parent: rSCElement(r, proof),
		SatisfiedPolicy: types.SatisfiedPolicy{Policy: types.PolicyPublicKey(rPK(r)), Signatures: []types.Signature{rSig(r)}}}
}

func fixedPolicy(r *rand.Rand) types.SatisfiedPolicy {
	return types.SatisfiedPolicy{Policy: types.PolicyPublicKey(rPK(r)), Signatures: []types.Signature{rSig(r)}}
}

// rV2Txn is a v2 transaction without Merkle proofs whose encoding has exactly size bytes when large enough.
func rV2Txn(r *rand.Rand, size int) types.V2Transaction {
	t := types.V2Transaction{
		SiacoinOutputs: []types.SiacoinOutput{rOutput(r)},
		MinerFee:       rCur(r),
	}
	if r.Intn(2) == 0 {
		t.SiacoinInputs = []types.V2SiacoinInput{fixedV2Input(r, 0)}
	}
	if pad := size - encLen(t); pad > 0 {
		t.ArbitraryData = randBytes(r, pad)
	}
	return t
}

func rV2Contract(r *rand.Rand) types.V2FileContract {
	return types.V2FileContract{Capacity: r.Uint64() >> 8, Filesize: r.Uint64() >> 9, FileMerkleRoot: rHash(r),
		ProofHeight: uint64(r.Intn(1 << 30)), ExpirationHeight: uint64(r.Intn(1 << 30)), RenterOutput: rOutput(r), HostOutput: rOutput(r),
		MissedHostValue: rCur(r), TotalCollateral: rCur(r), RenterPublicKey: rPK(r), HostPublicKey: rPK(r), RevisionNumber: r.Uint64(),
		RenterSignature: rSig(r), HostSignature: rSig(r)}
}
