package main

// The byte stream cut into reads at arbitrary points (spec/net/Segments.tla, clause Segmentation): TLC enumerates, per
// lane (one direction of one connection: RHP2 host→renter with the key exchange and the challenge in front, RHP2
// renter→host, RHP4 requests, RHP4 responses, and the multiplexed RHP3 / gateway connections), every conversation of
// frames written back to back, each with its read path (readMessage / RawResponse+ResponseReader+VerifyTag / ReadID+
// ReadRequest / plain decoder) and size class, and every segmentation of the stream: no cut at all (everything in
// flight arrives in one read), cuts between any two units of any part of any frame (inside the length prefix, the
// nonce, the body, the MAC, on and off the frame boundaries), and periodic ones down to one byte per read. The harness
// realises each SEG record between the real endpoints on a segNet (segconn.go) and demands what the specification
// demands for every segmentation alike: every object read is the object written, in order, the session stays open,
// nothing is left in the stream.

import (
	"bytes"
	"encoding/json"
	"errors"
	"fmt"
	"io"
	"math/rand"
	"sort"
	"strings"
	"sync"
	"sync/atomic"
	"time"

	rhp2 "go.sia.tech/core/rhp/v2"
	rhp4 "go.sia.tech/core/rhp/v4"
	"go.sia.tech/core/types"
	"verif/harness/vlib"
)

type segFrame struct {
	Path string `json:"path"` // plain | msg | raw | idreq
	Size string `json:"size"` // nil | small | pad | big
	Kind string `json:"kind"` // kx | chal | id | req | obj | err | pkt
	Turn bool   `json:"turn"`
}

type segSegJ struct {
	Kind string     `json:"kind"` // cuts | every
	K    int        `json:"k"`
	At   []segPlace `json:"at"`
}

type segCase struct {
	Lane      string     `json:"lane"`
	Plan      []segFrame `json:"plan"`
	Seg       segSegJ    `json:"seg"`
	Delivered int        `json:"delivered"` // the specification: frames handed over (all of them)
	Left      int        `json:"left"`      // the specification: bytes left in the stream at the end (none)
}

func (sc segCase) planKey() string {
	var b strings.Builder
	b.WriteString(sc.Lane)
	for _, f := range sc.Plan {
		fmt.Fprintf(&b, "|%s.%s.%s", f.Path, f.Size, f.Kind)
	}
	return b.String()
}

func (sc segCase) key() string {
	k := sc.planKey() + "#" + sc.Seg.Kind
	if sc.Seg.Kind == "every" {
		return k + fmt.Sprint(sc.Seg.K)
	}
	at := append([]segPlace(nil), sc.Seg.At...)
	sort.Slice(at, func(i, j int) bool {
		if at[i].F != at[j].F {
			return at[i].F < at[j].F
		}
		if at[i].P != at[j].P {
			return at[i].P < at[j].P
		}
		return at[i].U < at[j].U
	})
	for _, p := range at {
		k += fmt.Sprintf("-f%dp%du%d", p.F, p.P, p.U)
	}
	return k
}

// class names the segmentation in violation keys.
func (sc segCase) class() string {
	switch {
	case sc.Seg.Kind == "every" && sc.Seg.K == 1:
		return "bytewise"
	case sc.Seg.Kind == "every":
		return "periodic"
	case len(sc.Seg.At) == 0:
		return "coalesced"
	}
	return "split"
}

// a period of k units of the model stands for these many bytes (1 = one byte per read; the others are unrelated to
// every frame and chunk size of the protocols)
var segPeriodBytes = map[int]int64{1: 1, 2: 7, 3: 61, 4: 1000, 5: 4097}

func loadSegments(c *vlib.Ctx) (map[string]segCase, int64) {
	// five independent TLC runs, side by side
	var states int64
	var mu sync.Mutex
	var wg sync.WaitGroup
	for _, cfg := range []string{"SegmentsMC.cfg", "SegmentsSched.cfg"} {
		wg.Add(1)
		go func() {
			defer wg.Done()
			res := c.MustTLC(vlib.TLCOpts{SpecDirs: []string{"net"}, Module: "Segments", Config: cfg, Workers: 2})
			mu.Lock()
			states += res.Distinct
			mu.Unlock()
		}()
	}
	// the reader that is NOT the specified one (persistent buffer on one path, direct reads on the other) must be
	// refuted by the model: otherwise Faithful says nothing about coalesced frames
	wg.Add(1)
	go func() {
		defer wg.Done()
		gr, err := c.TLC(vlib.TLCOpts{SpecDirs: []string{"net"}, Module: "Segments", Config: "SegmentsGreedy.cfg", Workers: 2, NoCount: true})
		if err != nil {
			c.Fatal("Segments.tla (greedy reader): %v", err)
		}
		if gr.Violated != "Faithful" {
			c.Infra("selftest: Segments.tla does not refute the buffering reader (violated=%q)", gr.Violated)
		}
		c.Cov("segmentation_model_refutes_buffering_reader", gr.Violated == "Faithful")
	}()
	cfgs := []string{"Segments.cfg"}
	if c.Thorough {
		cfgs = []string{"SegmentsWide.cfg", "SegmentsDeep.cfg"}
	}
	cases := map[string]segCase{}
	for _, cfg := range cfgs {
		wg.Add(1)
		go func() {
			defer wg.Done()
			res := c.MustTLC(vlib.TLCOpts{SpecDirs: []string{"net"}, Module: "Segments", Config: cfg, Workers: 4, Timeout: 10 * time.Minute})
			got := parseCases(c, res.Lines, "SEG", func(m map[string]any) (segCase, string) {
				b, _ := json.Marshal(m)
				var sc segCase
				if err := json.Unmarshal(b, &sc); err != nil {
					c.Fatal("SEG record %s: %v", b, err)
				}
				return sc, sc.key()
			})
			mu.Lock()
			for k, v := range got {
				cases[k] = v
			}
			mu.Unlock()
		}()
	}
	wg.Wait()
	perLane := map[string]int{}
	for _, sc := range cases {
		perLane[sc.Lane+"/"+sc.class()]++
		if sc.Delivered != len(sc.Plan) || sc.Left != 0 {
			c.Fatal("Segments.tla: SEG record %s demands %d of %d frames, %d bytes left", sc.key(), sc.Delivered, len(sc.Plan), sc.Left)
		}
	}
	for _, lane := range []string{"rhp2-h2r", "rhp2-r2h", "rhp4-req", "rhp4-resp"} {
		for _, cl := range []string{"coalesced", "bytewise", "periodic", "split"} {
			if perLane[lane+"/"+cl] < 3 {
				c.Fatal("Segments.tla enumerated too little: %v", perLane)
			}
		}
	}
	for _, lane := range []string{"rhp3", "gw"} {
		if perLane[lane+"/coalesced"] < 2 || perLane[lane+"/bytewise"] < 2 || perLane[lane+"/periodic"] < 2 {
			c.Fatal("Segments.tla enumerated too little: %v", perLane)
		}
	}
	c.Cov("segmentation_cases_by_lane_and_class", perLane)
	return cases, states
}

// ---------------------------------------------------------------------------
// schedules

func segLayoutRHP2(frame, n int) []int {
	if frame == 1 || n < 36 { // the key exchange message is not framed
		return []int{n}
	}
	return []int{8, 12, n - 36, 16}
}
func segLayoutReq4(frame, n int) []int  { return []int{min(16, n), max(n-16, 0)} }
func segLayoutResp4(frame, n int) []int { return []int{min(1, n), max(n-1, 0)} }

// segSplit places the unit boundaries of a part on byte offsets chosen by the seed.
func segSplit(seed int64) func(pl segPlace, l int) int {
	return func(pl segPlace, l int) int {
		if pl.U >= pl.Of || l <= 1 {
			return l
		}
		if l < pl.Of {
			return min(pl.U, l)
		}
		r := rand.New(rand.NewSource(seed ^ int64(pl.F)*1000003 ^ int64(pl.P)*7919))
		pts := map[int]bool{}
		for len(pts) < pl.Of-1 {
			pts[1+r.Intn(l-1)] = true
		}
		s := make([]int, 0, len(pts))
		for p := range pts {
			s = append(s, p)
		}
		sort.Ints(s)
		return s[pl.U-1]
	}
}

func (sc segCase) sched(seed int64, layout func(int, int) []int) segSched {
	if sc.Seg.Kind == "every" {
		return segSched{Every: segPeriodBytes[sc.Seg.K]}
	}
	return segSched{Places: sc.Seg.At, Layout: layout, Split: segSplit(seed)}
}

// ---------------------------------------------------------------------------
// observations

type segObs struct {
	Handshake string   `json:"handshake,omitempty"` // why the session could not be established
	Delivered int      `json:"delivered"`           // frames (handshake frames included) handed over intact, in order
	FailPath  string   `json:"fail_path,omitempty"`
	PrevPath  string   `json:"prev_path,omitempty"`
	What      string   `json:"what,omitempty"` // not-delivered | altered
	Err       string   `json:"err,omitempty"`
	Closed    bool     `json:"closed"`
	Left      int64    `json:"left"`
	Stage     string   `json:"stage,omitempty"` // multiplexed lanes: id | request | response
	Completed int      `json:"completed"`       // multiplexed lanes: exchanges completed
	Stats     segStats `json:"stats"`
	Infra     string   `json:"infra,omitempty"`
}

type segRun struct {
	Kind string  `json:"kind"` // "segment"
	Case segCase `json:"case"`
	Seed int64   `json:"seed"`
	Obs  *segObs `json:"observed,omitempty"`
}

const segWait = 20 * time.Second

// readPathName names the real entry point a frame is read with.
func readPathName(lane string, f segFrame) string {
	switch {
	case f.Kind == "kx":
		return "keyexchange"
	case f.Kind == "chal":
		return "challenge"
	case lane == "rhp2-r2h" && f.Kind == "id":
		return "readid"
	case lane == "rhp2-r2h":
		return "readrequest"
	case lane == "rhp2-h2r" && f.Path == "raw":
		return "rawresponse"
	case lane == "rhp2-h2r":
		return "readresponse"
	case lane == "rhp4-req":
		return "readrequest"
	}
	return "readresponse"
}

// segRHP2 realises one case of an RHP2 lane between real transports.
func segRHP2(sc segCase, seed int64) (o segObs) {
	r := rand.New(rand.NewSource(seed))
	h2r := sc.Lane == "rhp2-h2r"
	sched := sc.sched(seed, segLayoutRHP2)
	var a2b, b2a segSched // A = renter, B = host; the other direction arrives as written (nothing cut, everything coalesced)
	hs := 1               // handshake frames of the lane
	if h2r {
		b2a, hs = sched, 2
	} else {
		a2b = sched
	}
	l, nw := newSegLink("10.1.0.1:4001", "10.2.0.2:9982", a2b, b2a, 0, 2*segWait)
	defer l.Close()
	// the messages
	msgs := make([]rhp2Msg, len(sc.Plan))
	dir := "r2h"
	if h2r {
		dir = "h2r"
	}
	for i := hs; i < len(sc.Plan); i++ {
		f := sc.Plan[i]
		if f.Kind == "id" {
			r.Read(msgs[i].id[:])
			msgs[i].id[0] |= 1 // never the exit signal
			continue
		}
		p := 200 + r.Intn(3000) // padded to the minimum frame
		if f.Size == "big" {
			for p = 4200 + r.Intn(4000); (p+36)%4096 == 0 || (p+36)%64 == 0; p++ {
			}
		}
		variant := r.Intn(2)
		if f.Kind == "err" {
			variant = 2 + r.Intn(2)
		}
		m, _, ok := sized(dir, p, variant, r.Int63())
		if !ok || (f.Kind == "err") != (m.err != nil) {
			o.Infra = fmt.Sprintf("no %s %s object of %d bytes", dir, f.Kind, p)
			return
		}
		msgs[i] = m
	}
	var rt, ht *rhp2.Transport
	var rerr, herr error
	var wg sync.WaitGroup
	fail := func(i int, what string, err error) {
		o.FailPath, o.What = readPathName(sc.Lane, sc.Plan[i]), what
		o.PrevPath = readPathName(sc.Lane, sc.Plan[i-1])
		if err != nil {
			o.Err = err.Error()
		}
	}
	// readAll runs on the reading side once its transport exists
	readAll := func(rd *rhp2.Transport) {
		o.Delivered = hs
		for i := hs; i < len(sc.Plan); i++ {
			f, m := sc.Plan[i], msgs[i]
			switch {
			case f.Kind == "id":
				id, err := rd.ReadID()
				if err != nil {
					fail(i, "not-delivered", err)
					return
				} else if id != m.id {
					fail(i, "altered", fmt.Errorf("RPC id %x read as %x", m.id[:], id[:]))
					return
				}
			case f.Kind == "req":
				got := m.blank()
				if err := rd.ReadRequest(got, 1<<20); err != nil {
					fail(i, "not-delivered", err)
					return
				} else if !bytes.Equal(encBytes(got), encBytes(m.obj)) {
					fail(i, "altered", errors.New("the request read is not the request written"))
					return
				}
			case f.Path == "msg":
				got := m.blank()
				err := rd.ReadResponse(got, 1<<20)
				var re *rhp2.RPCError
				switch {
				case m.err != nil && errors.As(err, &re):
					if re.Type != m.err.Type || !bytes.Equal(re.Data, m.err.Data) || re.Description != m.err.Description {
						fail(i, "altered", fmt.Errorf("error response %q surfaced as %q", m.err.Description, re.Description))
						return
					}
				case m.err != nil && err == nil:
					fail(i, "altered", errors.New("an error response surfaced as success"))
					return
				case err != nil && errors.As(err, &re):
					fail(i, "altered", fmt.Errorf("a response object surfaced as RPC error %q", re.Description))
					return
				case err != nil:
					fail(i, "not-delivered", err)
					return
				case !bytes.Equal(encBytes(got), encBytes(m.obj)):
					fail(i, "altered", errors.New("the response read is not the response written"))
					return
				}
			default: // raw
				rr, err := rd.RawResponse(1 << 20)
				var re *rhp2.RPCError
				switch {
				case m.err != nil && errors.As(err, &re):
					if re.Type != m.err.Type || !bytes.Equal(re.Data, m.err.Data) || re.Description != m.err.Description {
						fail(i, "altered", fmt.Errorf("error response %q surfaced as %q (raw)", m.err.Description, re.Description))
						return
					}
				case m.err != nil && err == nil:
					fail(i, "altered", errors.New("an error response surfaced as a stream (raw)"))
					return
				case err != nil && errors.As(err, &re):
					fail(i, "altered", fmt.Errorf("a response object surfaced as RPC error %q (raw)", re.Description))
					return
				case err != nil:
					fail(i, "not-delivered", err)
					return
				default:
					want := encBytes(m.obj)
					got := make([]byte, len(want))
					_, e1 := io.ReadFull(rr, got)
					if e2 := rr.VerifyTag(); e2 != nil {
						fail(i, "not-delivered", e2)
						return
					} else if e1 != nil || !bytes.Equal(got, want) {
						fail(i, "altered", fmt.Errorf("the authenticated stream is not the response written (%v)", e1))
						return
					}
				}
			}
			o.Delivered++
		}
		o.Closed = rd.IsClosed()
		if e := rd.PrematureCloseErr(); e != nil && o.Err == "" {
			o.Err = e.Error()
		}
	}
	writeAll := func(wr *rhp2.Transport) {
		for i := hs; i < len(sc.Plan); i++ {
			f, m := sc.Plan[i], msgs[i]
			var err error
			switch {
			case f.Kind == "id" && i+1 < len(sc.Plan) && sc.Plan[i+1].Kind == "req":
				err = wr.WriteRequest(m.id, msgs[i+1].obj)
				i++
			case f.Kind == "id":
				err = wr.WriteRequest(m.id, nil)
			case m.err != nil:
				err = wr.WriteResponseErr(m.err)
			default:
				err = wr.WriteResponse(m.obj)
			}
			if err != nil {
				return // the reader's side tells
			}
		}
	}
	wg.Add(1)
	go func() { // the host
		defer wg.Done()
		ht, herr = rhp2.NewHostTransport(l.B, rhp2HostKey)
		if herr != nil {
			l.B.Close()
			return
		}
		if h2r {
			writeAll(ht)
			nw.Done(1)
		} else {
			readAll(ht)
			if o.What != "" {
				l.B.Close()
			}
		}
	}()
	rt, rerr = rhp2.NewRenterTransport(l.A, rhp2HostKey.PublicKey())
	if rerr != nil {
		l.A.Close()
	} else if h2r {
		readAll(rt)
		if o.What != "" {
			l.A.Close()
		}
	} else {
		writeAll(rt)
		nw.Done(0)
	}
	done := make(chan struct{})
	go func() { wg.Wait(); close(done) }()
	select {
	case <-done:
	case <-time.After(3 * segWait):
		o.Infra = "the host side did not finish"
		return
	}
	if rerr != nil || herr != nil {
		o.Handshake = fmt.Sprintf("renter: %v; host: %v", rerr, herr)
		o.Delivered = 0
	}
	ri := 1 // the reading party's incoming direction is written by ...
	if !h2r {
		ri = 0
	}
	o.Left = nw.Unread(ri)
	o.Stats = nw.Stats(ri)
	return
}

// rhp4Big builds a catalogue object whose encoding exceeds one 4096-byte buffer.
func rhp4Pick(cat []fobj, r *rand.Rand, big bool) (any, func() any, bool) {
	enc := func(v any) int {
		var buf bytes.Buffer
		e := types.NewEncoder(&buf)
		rhp4.VerifEncode(v.(rhp4.Object), e)
		e.Flush()
		return buf.Len()
	}
	for try := 0; try < 200; try++ {
		c := cat[r.Intn(len(cat))]
		if !big {
			v := c.mk(rand.New(rand.NewSource(r.Int63())), smallShape(r, c))
			if enc(v) < 4000 {
				return v, c.blank, true
			}
			continue
		}
		if len(c.groups) == 0 {
			continue
		}
		n := make([]int, len(c.groups))
		for j := range n {
			n[j] = c.rnd[j]/3 + r.Intn(c.rnd[j]/3+1)
		}
		v := c.mk(rand.New(rand.NewSource(r.Int63())), n)
		if sz := enc(v); sz > 4200 && sz < 400000 && sz%4096 != 0 {
			return v, c.blank, true
		}
	}
	return nil, nil, false
}

func rhp4Enc(v any) []byte {
	var buf bytes.Buffer
	e := types.NewEncoder(&buf)
	rhp4.VerifEncode(v.(rhp4.Object), e)
	e.Flush()
	return buf.Bytes()
}

// segRHP4 realises one case of an RHP4 lane: the messages are produced by the real writers, put on the stream one
// Write each, back to back, and read by the real readers.
func segRHP4(sc segCase, seed int64) (o segObs) {
	exCats()
	r := rand.New(rand.NewSource(seed))
	req := sc.Lane == "rhp4-req"
	var a2b, b2a segSched // A = renter, B = host
	if req {
		a2b = sc.sched(seed, segLayoutReq4)
	} else {
		b2a = sc.sched(seed, segLayoutResp4)
	}
	l, nw := newSegLink("10.4.0.1:4004", "10.4.0.2:9984", a2b, b2a, 0, 2*segWait)
	defer l.Close()
	type msg struct {
		id    types.Specifier
		obj   any
		blank func() any
		err   *rhp4.RPCError
		wire  []byte
	}
	msgs := make([]msg, len(sc.Plan))
	for i, f := range sc.Plan {
		m := &msgs[i]
		var buf bytes.Buffer
		var werr error
		if req {
			r.Read(m.id[:])
			if f.Size != "nil" {
				var ok bool
				if m.obj, m.blank, ok = rhp4Pick(ex4Req, r, f.Size == "big"); !ok {
					o.Infra = "no " + f.Size + " RHP4 request object"
					return
				}
				werr = rhp4.WriteRequest(&buf, m.id, m.obj.(rhp4.Object))
			} else {
				werr = rhp4.WriteRequest(&buf, m.id, nil)
			}
		} else if f.Kind == "err" {
			m.err = rhp4.NewRPCError(uint8(1+r.Intn(6)), fmt.Sprintf("host says no (%d)", r.Intn(1000))).(*rhp4.RPCError)
			werr = rhp4.WriteResponse(&buf, m.err)
		} else {
			var ok bool
			if m.obj, m.blank, ok = rhp4Pick(ex4Resp, r, f.Size == "big"); !ok {
				o.Infra = "no " + f.Size + " RHP4 response object"
				return
			}
			werr = rhp4.WriteResponse(&buf, m.obj.(rhp4.Object))
		}
		if werr != nil {
			o.Infra = "writer: " + werr.Error()
			return
		}
		m.wire = buf.Bytes()
	}
	writer, reader, wi := l.A, l.B, 0
	if !req {
		writer, reader, wi = l.B, l.A, 1
	}
	go func() {
		for _, m := range msgs {
			if _, err := writer.Write(m.wire); err != nil {
				break
			}
		}
		nw.Done(wi)
	}()
	fail := func(i int, path, what string, err error) {
		o.FailPath, o.What, o.PrevPath = path, what, "start"
		if i > 0 {
			o.PrevPath = readPathName(sc.Lane, sc.Plan[i-1])
		}
		if err != nil {
			o.Err = err.Error()
		}
	}
	reader.SetDeadline(time.Now().Add(segWait))
	for i := range sc.Plan {
		m := msgs[i]
		if req {
			id, err := rhp4.ReadID(reader)
			if err != nil {
				fail(i, "readid", "not-delivered", err)
				break
			} else if id != m.id {
				fail(i, "readid", "altered", fmt.Errorf("RPC id %x read as %x", m.id[:], id[:]))
				break
			}
			if m.obj != nil {
				got := m.blank()
				if err := rhp4.ReadRequest(reader, got.(rhp4.Object)); err != nil {
					fail(i, "readrequest", "not-delivered", err)
					break
				} else if !bytes.Equal(rhp4Enc(got), rhp4Enc(m.obj)) {
					fail(i, "readrequest", "altered", errors.New("the request read is not the request written"))
					break
				}
			}
		} else {
			var got any = new(rhp4.RPCWriteSectorResponse)
			if m.obj != nil {
				got = m.blank()
			}
			err := rhp4.ReadResponse(reader, got.(rhp4.Object))
			var re *rhp4.RPCError
			switch {
			case m.err != nil && errors.As(err, &re):
				if re.Code != m.err.Code || re.Description != m.err.Description {
					fail(i, "readresponse", "altered", fmt.Errorf("error response %q surfaced as %q", m.err.Description, re.Description))
				}
			case m.err != nil && err == nil:
				fail(i, "readresponse", "altered", errors.New("an error response surfaced as success"))
			case err != nil && errors.As(err, &re):
				fail(i, "readresponse", "altered", fmt.Errorf("a response object surfaced as RPC error %q", re.Description))
			case err != nil:
				fail(i, "readresponse", "not-delivered", err)
			case !bytes.Equal(rhp4Enc(got), rhp4Enc(m.obj)):
				fail(i, "readresponse", "altered", errors.New("the response read is not the response written"))
			}
			if o.What != "" {
				break
			}
		}
		o.Delivered++
	}
	o.Left = nw.Unread(wi)
	o.Stats = nw.Stats(wi)
	return
}

// segMux realises one case of a multiplexed lane: the handshake and k lock-step exchanges over a connection whose two
// directions are both cut by the periodic schedule (the multiplexer's packets are not visible to the harness).
func segMux(sc segCase, seed int64) (o segObs) {
	r := rand.New(rand.NewSource(seed))
	var sched segSched
	if sc.Seg.Kind == "every" {
		sched.Every = segPeriodBytes[sc.Seg.K]
	}
	const idle = 300 * time.Microsecond
	plan := make([]exch, len(sc.Plan))
	var xo exchObs
	var nw *segNet
	switch sc.Lane {
	case "rhp3":
		for i := range plan {
			plan[i] = exch{Req: r.Intn(3) > 0, Resps: []string{[]string{"obj", "obj", "err"}[r.Intn(3)]}}
			if r.Intn(3) == 0 {
				plan[i].Resps = append(plan[i].Resps, []string{"obj", "err"}[r.Intn(2)])
			}
		}
		var l *link
		l, nw = newSegLink("10.3.0.1:4003", "10.3.0.2:9983", sched, sched, idle, 12*time.Second)
		p, err := rhp3OpenOn(l)
		if err != nil {
			o.Handshake = err.Error()
			o.Stats = nw.Stats(0)
			return
		}
		xo = rhp3ExchangesOn(p, plan, r.Int63())
	default:
		for i := range plan {
			plan[i] = exch{Req: true, Resps: []string{"obj"}}
		}
		var l *link
		l, nw = newSegLink(gwDialHost+":"+gwDialPort, gwAcceptHost+":"+gwAcceptPort, sched, sched, idle, 12*time.Second)
		p, err := gwOpenOn(l)
		if err != nil {
			o.Handshake = err.Error()
			o.Stats = nw.Stats(0)
			return
		}
		xo = gwExchangesOn(p, plan, r.Int63())
	}
	o.Infra, o.Completed, o.Stage, o.Err = xo.Infra, xo.Completed, xo.Stage, xo.Err
	if xo.Stage != "" {
		o.What = "not-delivered"
		if xo.Wrong {
			o.What = "altered"
		}
	}
	o.Delivered = xo.Completed
	a, b := nw.Stats(0), nw.Stats(1)
	o.Stats = segStats{Reads: a.Reads + b.Reads, Short: a.Short + b.Short, Spanning: a.Spanning + b.Spanning,
		Pipelined: a.Pipelined + b.Pipelined, Forced: a.Forced + b.Forced, OneByte: a.OneByte + b.OneByte}
	return
}

func segExecute(run segRun) segObs {
	switch run.Case.Lane {
	case "rhp2-h2r", "rhp2-r2h":
		return segRHP2(run.Case, run.Seed)
	case "rhp4-req", "rhp4-resp":
		return segRHP4(run.Case, run.Seed)
	case "rhp3", "gw":
		return segMux(run.Case, run.Seed)
	}
	return segObs{Infra: "unknown lane " + run.Case.Lane}
}

// judgeSegment compares with the SEG record: key "" = agreement.
func judgeSegment(sc segCase, o segObs) (key, what string) {
	pre := "segmented-" + sc.Lane + "-" + sc.class() + "-"
	mux := sc.Lane == "rhp3" || sc.Lane == "gw"
	switch {
	case o.Handshake != "":
		return pre + "handshake-failed", "the session could not be established: " + o.Handshake
	case mux && (o.Completed != sc.Delivered || o.Stage != ""):
		return pre + "exchange-" + o.Stage + "-" + o.What, fmt.Sprintf("%d of %d exchanges completed: %s", o.Completed, sc.Delivered, o.Err)
	case mux:
		return "", ""
	case o.What != "":
		return pre + o.FailPath + "-after-" + o.PrevPath + "-" + o.What,
			fmt.Sprintf("frame %d of %d (%s, behind %s): %s: %s", o.Delivered+1, len(sc.Plan), o.FailPath, o.PrevPath, o.What, o.Err)
	case o.Delivered != sc.Delivered:
		return pre + "delivered-count", fmt.Sprintf("%d frames handed over, the specification demands %d", o.Delivered, sc.Delivered)
	case o.Closed:
		return pre + "session-closed", "everything was delivered, but the session reports closed: " + o.Err
	case o.Left != int64(sc.Left):
		return pre + "bytes-left-unread", fmt.Sprintf("%d bytes of the stream were never taken by the reader (the specification: %d)", o.Left, sc.Left)
	}
	return "", ""
}

// a failing tree fails in hundreds of cases, some of them only at a deadline: after segFailBudget reported cases the
// remaining ones are skipped
const segFailBudget = 4

var (
	segFailures atomic.Int64
	segRerun    sync.Mutex
)

func runSegmentCase(c *vlib.Ctx, run segRun) (segObs, bool) {
	if segFailures.Load() >= segFailBudget {
		return segObs{}, false
	}
	o := segExecute(run)
	if o.Infra != "" {
		c.Infra("segmentation %s: %s", run.Case.key(), o.Infra)
		return o, false
	}
	if key, what := judgeSegment(run.Case, o); key != "" {
		// a verdict is issued only from behaviour that reproduces - with nothing else of this family running beside it,
		// so that a deadline missed on an overloaded machine is not taken for a hang
		segRerun.Lock()
		if segFailures.Load() >= segFailBudget {
			segRerun.Unlock()
			return o, false
		}
		o2 := segExecute(run)
		segRerun.Unlock()
		if key2, _ := judgeSegment(run.Case, o2); key2 != key {
			if mux := run.Case.Lane == "rhp3" || run.Case.Lane == "gw"; !mux || key2 != "" {
				c.Infra("segmentation %s: %s (%s) did not reproduce: second run gave %q", run.Case.key(), key, what, key2)
			} else {
				c.CovAdd("segmentation_multiplexed_failures_not_reproduced", 1) // how the multiplexer's packets fall is a matter of timing
			}
			return o, false
		}
		segFailures.Add(1)
		run.Obs = &o
		c.Violation(key, fmt.Sprintf("%s, stream %s (%s): %s", run.Case.Lane, run.Case.class(), run.Case.key(), what), run)
	}
	return o, true
}

type segTotals struct{ evals, distinct, sessions int64 }

func runSegments(c *vlib.Ctx, cases map[string]segCase, r *rand.Rand) segTotals {
	var t segTotals
	var mu sync.Mutex
	keys := sortedKeys(cases)
	r.Shuffle(len(keys), func(i, j int) { keys[i], keys[j] = keys[j], keys[i] })
	// quick: every conversation with every cut-free / periodic segmentation and a share of the split ones per lane
	budget := c.Pick(1500, 1<<30)
	splitSeen := map[string]int{}
	classes := map[string]int{}
	pathPairs := map[string]int{}
	partsCut := map[string]int64{}
	var agg segStats
	pipelinedCases := map[string]int{}
	var jobs []func()
	for _, k := range keys {
		sc := cases[k]
		if sc.class() == "split" {
			if splitSeen[sc.Lane] >= budget {
				continue
			}
			splitSeen[sc.Lane]++
		}
		reps := 1
		if sc.Lane == "rhp3" || sc.Lane == "gw" {
			reps = c.Pick(3, 20)
		}
		for rep := 0; rep < reps; rep++ {
			run := segRun{Kind: "segment", Case: sc, Seed: r.Int63()}
			first := rep == 0
			jobs = append(jobs, func() {
				o, ok := runSegmentCase(c, run)
				if !ok {
					return
				}
				mu.Lock()
				defer mu.Unlock()
				t.sessions++
				t.evals += int64(o.Delivered)
				if first {
					t.distinct++
				}
				lc := run.Case.Lane + "/" + run.Case.class()
				if o.Delivered == run.Case.Delivered && o.What == "" && o.Handshake == "" {
					classes[lc]++
					for i := 1; i < len(run.Case.Plan) && run.Case.Lane != "rhp3" && run.Case.Lane != "gw"; i++ {
						pathPairs[run.Case.Lane+"/"+run.Case.class()+"/"+readPathName(run.Case.Lane, run.Case.Plan[i])+"-after-"+readPathName(run.Case.Lane, run.Case.Plan[i-1])]++
					}
				}
				agg.Reads += o.Stats.Reads
				agg.Short += o.Stats.Short
				agg.Spanning += o.Stats.Spanning
				agg.Pipelined += o.Stats.Pipelined
				agg.Forced += o.Stats.Forced
				agg.OneByte += o.Stats.OneByte
				if o.Stats.Pipelined > 0 {
					pipelinedCases[run.Case.Lane]++
				}
				for p, n := range o.Stats.CutsInPart {
					partsCut[fmt.Sprintf("%s/part%d", run.Case.Lane, p)] += n
				}
			})
		}
	}
	parallel(8, jobs)
	if c.NViolations() == 0 {
		for _, lane := range []string{"rhp2-h2r", "rhp2-r2h", "rhp4-req", "rhp4-resp"} {
			for _, cl := range []string{"coalesced", "bytewise", "periodic", "split"} {
				if classes[lane+"/"+cl] == 0 {
					c.Infra("vacuity: segmentation: no %s conversation completed over a %s stream", lane, cl)
				}
			}
			if pipelinedCases[lane] == 0 {
				c.Infra("vacuity: segmentation: on lane %s no read was ever served while a later frame was already in flight", lane)
			}
		}
		for _, lane := range []string{"rhp3", "gw"} {
			for _, cl := range []string{"coalesced", "bytewise", "periodic"} {
				if classes[lane+"/"+cl] == 0 {
					c.Infra("vacuity: segmentation: no %s conversation completed over a %s stream", lane, cl)
				}
			}
		}
		// the mixes of read paths the clause is about, with the frames arriving together
		for _, pp := range []string{"rawresponse-after-readresponse", "readresponse-after-rawresponse", "rawresponse-after-rawresponse",
			"readresponse-after-readresponse", "rawresponse-after-challenge", "readresponse-after-challenge", "challenge-after-keyexchange"} {
			if pathPairs["rhp2-h2r/coalesced/"+pp] == 0 {
				c.Infra("vacuity: segmentation: no coalesced rhp2-h2r conversation with %s completed", pp)
			}
		}
		for _, pp := range []string{"rhp2-r2h/coalesced/readrequest-after-readid", "rhp2-r2h/coalesced/readid-after-readrequest", "rhp2-r2h/coalesced/readid-after-keyexchange",
			"rhp4-req/coalesced/readrequest-after-readrequest", "rhp4-resp/coalesced/readresponse-after-readresponse"} {
			if pathPairs[pp] == 0 {
				c.Infra("vacuity: segmentation: no completed conversation with %s", pp)
			}
		}
		// cuts inside the length prefix (part 1), the nonce (2), the body (3) and the MAC (4) of RHP2 frames
		for p := 1; p <= 4; p++ {
			if partsCut[fmt.Sprintf("rhp2-h2r/part%d", p)] == 0 || partsCut[fmt.Sprintf("rhp2-r2h/part%d", p)] == 0 {
				c.Infra("vacuity: segmentation: no read of an RHP2 stream ended at a cut in part %d of a frame: %v", p, partsCut)
			}
		}
		if agg.OneByte == 0 || agg.Short == 0 || agg.Forced < 0 {
			c.Infra("vacuity: segmentation: reads %+v", agg)
		}
	}
	c.Cov("segmentation", map[string]any{"cases_enumerated": len(cases), "cases_run": t.sessions, "frames_delivered": t.evals,
		"completed_by_lane_and_class": classes, "read_path_pairs_completed": pathPairs, "reads_ended_at_cut_by_part": partsCut,
		"connection_reads": agg, "cases_with_frames_in_flight_behind_the_one_read": pipelinedCases})
	return t
}

// selftestSegments: (i) the connection really coalesces and really cuts; (ii) a corrupted expectation is noticed.
func selftestSegments(c *vlib.Ctx, cases map[string]segCase) {
	okConn := func() bool {
		lay := func(frame, n int) []int { return []int{4, n - 4} }
		split := func(pl segPlace, l int) int { return pl.U }
		_, a, b := newSegNet(segSched{Places: []segPlace{{F: 2, P: 1, U: 3, Of: 4}}, Layout: lay, Split: split}, segSched{Every: 7}, 0, "a:1", "b:2")
		a.Write(bytes.Repeat([]byte{1}, 10))
		a.Write(bytes.Repeat([]byte{2}, 20))
		a.n.Done(0)
		buf := make([]byte, 64)
		n1, _ := b.Read(buf) // both writes up to the cut 3 bytes into the second: 13
		n2, _ := b.Read(buf) // the rest: 17
		b.Write(bytes.Repeat([]byte{3}, 16))
		b.n.Done(1)
		m1, _ := a.Read(buf)
		m2, _ := a.Read(buf)
		m3, _ := a.Read(buf)
		return n1 == 13 && n2 == 17 && buf[0] == 3 && m1 == 7 && m2 == 7 && m3 == 2
	}()
	okJudge := false
	for _, k := range sortedKeys(cases) {
		sc := cases[k]
		if sc.Lane == "rhp2-h2r" && sc.class() == "coalesced" && len(sc.Plan) >= 4 {
			o := segRHP2(sc, 99)
			good, _ := judgeSegment(sc, o)
			sc.Delivered++ // the specification now "demands" a frame that was never written
			bad, _ := judgeSegment(sc, o)
			okJudge = good == "" && bad != ""
			break
		}
	}
	c.Cov("selftest_segmentation", map[string]bool{"connection_coalesces_and_cuts": okConn, "corrupted_expectation_noticed": okJudge})
	if !okConn || !okJudge {
		c.Infra("selftest: segmentation: connection coalesces and cuts=%v, corrupted expectation noticed=%v", okConn, okJudge)
	}
}
