package main

// Receiver reuse (spec/net/Reuse.tla).
//
//   REUSE records: sequences of data lengths read into ONE reused receiver (or a fresh one per message). The harness
//   sends real RPCReadResponse objects with data of exactly these lengths over one real RHP2 session and reads them
//   through ReadResponse and through RawResponse (+ DecodeFrom + VerifyTag) into one real object; and real
//   ExecuteProgram responses / requests with output / program data of these lengths over real RHP3 streams into one
//   reused object. Every read must give the identical object.
//
//   DIRTY records: what a receiver held (zero / one / few / many elements; optional set / unset) and what arrives.
//   For every registered wire type of gateway, RHP2, RHP3 and RHP4 a real object of the arriving shape is decoded by
//   the real decoder into a receiver that holds a real object of the other shape, and into a zero value: both must
//   give the same wire-visible object (re-encoding equals the bytes sent).

import (
	"bytes"
	"encoding/json"
	"errors"
	"fmt"
	"io"
	"math/rand"
	"reflect"
	"sort"
	"strings"
	"sync"
	"time"

	"go.sia.tech/core/gateway"
	rhp2 "go.sia.tech/core/rhp/v2"
	rhp3 "go.sia.tech/core/rhp/v3"
	"go.sia.tech/core/types"
	"verif/harness/vlib"
)

type reuseCase struct {
	Recv string `json:"recv"` // "reused" | "fresh"
	Lens []int  `json:"lens"`
}

func (rc reuseCase) key() string { return fmt.Sprintf("%s-%v", rc.Recv, rc.Lens) }

type dirtyCase struct {
	Kind  string `json:"kind"` // "slice" | "optional"
	Prev  string `json:"prev"`
	New   string `json:"new"`
	Count int    `json:"count"` // model: elements the receiver must hold afterwards (0..3)
}

func (dc dirtyCase) key() string { return dc.Kind + "-" + dc.Prev + "-" + dc.New }

// loadReuse runs Reuse.tla (small exhaustive configuration + the lengths of the code) and returns its cases.
func loadReuse(c *vlib.Ctx) (map[string]reuseCase, map[string]dirtyCase, int64) {
	mc := c.MustTLC(vlib.TLCOpts{SpecDirs: []string{"net"}, Module: "Reuse", Config: "ReuseMC.cfg", Workers: 2})
	cfg := "Reuse.cfg"
	if c.Thorough {
		cfg = "ReuseWide.cfg"
	}
	res := c.MustTLC(vlib.TLCOpts{SpecDirs: []string{"net"}, Module: "Reuse", Config: cfg, Workers: 4})
	reuse := parseCases(c, res.Lines, "REUSE", func(m map[string]any) (reuseCase, string) {
		b, _ := json.Marshal(m)
		var rc reuseCase
		json.Unmarshal(b, &rc)
		return rc, rc.key()
	})
	dirty := parseCases(c, res.Lines, "DIRTY", func(m map[string]any) (dirtyCase, string) {
		b, _ := json.Marshal(m)
		var dc dirtyCase
		json.Unmarshal(b, &dc)
		return dc, dc.key()
	})
	nre, nfr, grow := 0, 0, 0
	for _, rc := range reuse {
		if rc.Recv == "reused" {
			nre++
		} else {
			nfr++
		}
		for i := 1; i < len(rc.Lens); i++ {
			if rc.Lens[i-1] > 0 && rc.Lens[i] > 4*rc.Lens[i-1]+8192 {
				grow++
			}
		}
	}
	if nre < 100 || nfr < 100 || grow < 10 || len(dirty) != 40 {
		c.Fatal("Reuse.tla enumerated too little: %d reused / %d fresh sequences (%d with a growing step), %d dirty cases", nre, nfr, grow, len(dirty))
	}
	return reuse, dirty, mc.Distinct
}

// ---------------------------------------------------------------------------
// sequences into one receiver

type reuseStep struct {
	N         int    `json:"n"`
	LenBefore int    `json:"len_before"`
	CapBefore int    `json:"cap_before"`
	Class     string `json:"class"` // fresh | first | reuse-shrink | reuse-equal | reuse-extend | grow-dirty | grow-empty
	Delivered bool   `json:"delivered"`
	Same      bool   `json:"same"`
	Err       string `json:"err,omitempty"`
	Ran       bool   `json:"ran"`
}

func reuseClass(recv string, i, n, l, c int) string {
	switch {
	case recv == "fresh":
		return "fresh"
	case i == 0:
		return "first"
	case n > c && l > 0:
		return "grow-dirty"
	case n > c:
		return "grow-empty"
	case n < l:
		return "reuse-shrink"
	case n == l:
		return "reuse-equal"
	default:
		return "reuse-extend"
	}
}

type reuseRun struct {
	Kind  string      `json:"kind"` // "reuse"
	Mode  string      `json:"mode"` // rhp2-resp | rhp2-raw | rhp3-resp | rhp3-req
	Case  reuseCase   `json:"case"`
	Seed  int64       `json:"seed"`
	Steps []reuseStep `json:"steps,omitempty"`
}

// rhp2Reuse: the host writes the responses, the renter reads them into one (or a fresh) RPCReadResponse.
func rhp2Reuse(run reuseRun) (steps []reuseStep, setup string) {
	r := rand.New(rand.NewSource(run.Seed))
	lens := run.Case.Lens
	steps = make([]reuseStep, len(lens))
	sent := make([]*rhp2.RPCReadResponse, len(lens))
	for i, n := range lens {
		sent[i] = &rhp2.RPCReadResponse{Signature: rSig(r), Data: randBytes(r, n), MerkleProof: randHashes(r, r.Intn(4))}
	}
	l := newLink("10.1.0.1:4001", "10.2.0.2:9982", dirPlan{}, dirPlan{}, 60*time.Second)
	defer l.Close()
	var ht *rhp2.Transport
	var herr error
	var wg sync.WaitGroup
	wg.Add(1)
	go func() {
		defer wg.Done()
		ht, herr = rhp2.NewHostTransport(l.B, rhp2HostKey)
	}()
	rt, rerr := rhp2.NewRenterTransport(l.A, rhp2HostKey.PublicKey())
	wg.Wait()
	if rerr != nil || herr != nil {
		return steps, fmt.Sprintf("handshake: renter %v, host %v", rerr, herr)
	}
	go func() {
		for i := range sent {
			if ht.WriteResponse(sent[i]) != nil {
				return
			}
		}
	}()
	const maxLen = 1 << 20
	recv := new(rhp2.RPCReadResponse)
	for i, n := range lens {
		if run.Case.Recv == "fresh" {
			recv = new(rhp2.RPCReadResponse)
		}
		st := &steps[i]
		st.Ran, st.N, st.LenBefore, st.CapBefore = true, n, len(recv.Data), cap(recv.Data)
		st.Class = reuseClass(run.Case.Recv, i, n, st.LenBefore, st.CapBefore)
		rt.SetReadDeadline(time.Now().Add(15 * time.Second))
		var err error
		if run.Mode == "rhp2-resp" {
			err = rt.ReadResponse(recv, maxLen)
		} else {
			var rr *rhp2.ResponseReader
			if rr, err = rt.RawResponse(maxLen); err == nil {
				d := types.NewDecoder(io.LimitedReader{R: rr, N: maxLen})
				recv.DecodeFrom(d)
				derr := d.Err()
				if err = rr.VerifyTag(); err == nil {
					err = derr
				}
			}
		}
		if err != nil {
			st.Err = err.Error()
			if isTimeout(err) {
				return steps, "timeout: " + err.Error()
			}
			break
		}
		st.Delivered = true
		st.Same = bytes.Equal(encBytes(recv), encBytes(sent[i]))
		if !st.Same {
			st.Err = fmt.Sprintf("host wrote %d bytes of data and %d proof hashes, renter holds %d bytes and %d hashes (equal data prefix: %d bytes)",
				n, len(sent[i].MerkleProof), len(recv.Data), len(recv.MerkleProof), firstDiff(recv.Data, sent[i].Data))
			break
		}
	}
	return steps, ""
}

// rhp3Reuse: ExecuteProgram responses (output of the given lengths) read by the renter into one object, or
// ExecuteProgram requests (program data of the given lengths) read by the host into one object; one stream each.
func rhp3Reuse(run reuseRun) (steps []reuseStep, setup string) {
	r := rand.New(rand.NewSource(run.Seed))
	lens := run.Case.Lens
	steps = make([]reuseStep, len(lens))
	p, err := rhp3Open(dirPlan{}, dirPlan{}, 60*time.Second)
	if err != nil {
		return steps, err.Error()
	}
	defer p.Close()
	var id types.Specifier
	copy(id[:], "C19Reuse3")
	respRecv, reqRecv := new(rhp3.RPCExecuteProgramResponse), new(rhp3.RPCExecuteProgramRequest)
	for i, n := range lens {
		if run.Case.Recv == "fresh" {
			respRecv, reqRecv = new(rhp3.RPCExecuteProgramResponse), new(rhp3.RPCExecuteProgramRequest)
		}
		st := &steps[i]
		st.Ran, st.N = true, n
		var x xfer
		if run.Mode == "rhp3-resp" {
			st.LenBefore, st.CapBefore = len(respRecv.Output), cap(respRecv.Output)
			resp := &rhp3.RPCExecuteProgramResponse{AdditionalCollateral: fixedCur(r), NewMerkleRoot: rHash(r), NewSize: r.Uint64(), TotalCost: fixedCur(r),
				FailureRefund: fixedCur(r), Error: errors.New("program failed at #3"), Proof: randHashes(r, r.Intn(4)), Output: randBytes(r, n), OutputLength: uint64(n)}
			var rq xfer
			rq, x = p.rhp3Call(id, nil, nil, 0, resp, nil, respRecv, 1<<20, 20*time.Second)
			if rq.Infra != "" || !rq.Accepted {
				return steps, "request leg: " + rq.Infra + rq.Err
			}
		} else {
			st.LenBefore, st.CapBefore = len(reqRecv.ProgramData), cap(reqRecv.ProgramData)
			req := &rhp3.RPCExecuteProgramRequest{FileContractID: types.FileContractID(rHash(r)), ProgramData: randBytes(r, n)}
			for j := r.Intn(4); j > 0; j-- {
				req.Program = append(req.Program, &rhp3.InstrReadSector{LengthOffset: r.Uint64(), OffsetOffset: r.Uint64(), MerkleRootOffset: r.Uint64(), ProofRequired: j%2 == 0})
			}
			x, _ = p.rhp3Call(id, req, reqRecv, 1<<20, nil, nil, nil, 0, 20*time.Second)
		}
		st.Class = reuseClass(run.Case.Recv, i, n, st.LenBefore, st.CapBefore)
		if x.Infra != "" || x.Timeout {
			return steps, x.Infra + x.Err
		}
		st.Delivered, st.Same, st.Err = x.Accepted, x.Accepted && x.Same, x.Err
		if !st.Delivered || !st.Same {
			break
		}
	}
	return steps, ""
}

// runReuseCase replays one sequence in one mode and judges it.
func runReuseCase(c *vlib.Ctx, run reuseRun, seen func(run reuseRun, st reuseStep)) {
	var steps []reuseStep
	var setup string
	if strings.HasPrefix(run.Mode, "rhp2") {
		steps, setup = rhp2Reuse(run)
	} else {
		steps, setup = rhp3Reuse(run)
	}
	if setup != "" {
		c.Infra("receiver reuse %s %s: %s", run.Mode, run.Case.key(), setup)
		return
	}
	run.Steps = steps
	for i, st := range steps {
		if !st.Ran {
			break
		}
		if seen != nil {
			seen(run, st)
		}
		what := ""
		switch {
		case !st.Delivered:
			what = "not-delivered"
		case !st.Same:
			what = "altered"
		}
		if what != "" {
			c.Violation(run.Mode+"-receiver-"+st.Class+"-"+what,
				fmt.Sprintf("%s, %s receiver, data lengths %v: message %d (%d bytes; the receiver held %d bytes, capacity %d) %s: %s",
					run.Mode, run.Case.Recv, run.Case.Lens, i+1, st.N, st.LenBefore, st.CapBefore, strings.ReplaceAll(what, "-", " "), st.Err), run)
		}
	}
}

type reuseTotals struct {
	evals, distinct, sessions int64
}

func runReuse(c *vlib.Ctx, cases map[string]reuseCase, r *rand.Rand) reuseTotals {
	var t reuseTotals
	var mu sync.Mutex
	classes := map[string]map[string]int{}
	modes := []string{"rhp2-resp", "rhp2-raw", "rhp3-resp", "rhp3-req"}
	var jobs []func()
	for _, k := range sortedKeys(cases) {
		for _, mode := range modes {
			run := reuseRun{Kind: "reuse", Mode: mode, Case: cases[k], Seed: r.Int63()}
			jobs = append(jobs, func() {
				runReuseCase(c, run, func(run reuseRun, st reuseStep) {
					mu.Lock()
					defer mu.Unlock()
					t.evals++
					if classes[run.Mode] == nil {
						classes[run.Mode] = map[string]int{}
					}
					if st.Delivered && st.Same {
						classes[run.Mode][st.Class]++
					}
				})
			})
			t.sessions++
			t.distinct++
		}
	}
	parallel(8, jobs)
	for _, mode := range modes {
		want := []string{"fresh", "first", "reuse-shrink", "reuse-equal", "reuse-extend", "grow-dirty", "grow-empty"}
		if !strings.HasPrefix(mode, "rhp2") {
			want = []string{"fresh", "first"} // these decoders do not keep the buffer; the lengths are replayed all the same
		}
		for _, cl := range want {
			if classes[mode][cl] == 0 && c.NViolations() == 0 {
				c.Infra("vacuity: receiver reuse %s: no message of class %s was delivered", mode, cl)
			}
		}
	}
	c.Cov("receiver_reuse", map[string]any{"sequences": len(cases), "sessions": t.sessions, "messages": t.evals, "delivered_per_class": classes})
	return t
}

// ---------------------------------------------------------------------------
// decoding into a receiver that already holds another value

// codec is the real encoder / decoder pair of one catalogue object.
type codec struct {
	fam, name, dir string
	k              int                                         // groups
	mk             func(r *rand.Rand, n []int) any             // a real object of the shape
	blank          func() any                                  // a zero receiver
	count          func(class string, j int, r *rand.Rand) int // elements of group j for a size class
	enc            func(o any) []byte
	dec            func(wire []byte, into any) error
	optional       func(o any, set bool) // nil: no optional field
	// variant != nil: an object whose single group holds elements of three variants; element i (1-based) is of
	// variant (i + shift) % 3
	variant func(r *rand.Rand, n, shift int) any
}

func classCount(class string, rnd int, r *rand.Rand) int {
	switch class {
	case "zero":
		return 0
	case "one":
		return 1
	case "few":
		return min(rnd, 2+r.Intn(3))
	default:
		return min(rnd, 4096)
	}
}

func allCodecs() []codec {
	var out []codec
	plain := func(o fobj) codec {
		return codec{fam: o.fam, name: o.name, dir: o.dir, k: len(o.groups), mk: o.mk, blank: o.blank,
			count: func(class string, j int, r *rand.Rand) int { return classCount(class, o.rnd[j], r) },
			enc:   func(v any) []byte { return encBytes(v.(types.EncoderTo)) },
			dec: func(wire []byte, into any) error {
				d := types.NewBufDecoder(wire)
				into.(types.DecoderFrom).DecodeFrom(d)
				return d.Err()
			}}
	}
	for _, o := range rhp2Catalogue() {
		out = append(out, plain(o))
	}
	for _, o := range rhp3Catalogue() {
		cd := plain(o)
		if o.name == "ExecuteProgramResponse" {
			cd.optional = func(v any, set bool) {
				if set {
					v.(*rhp3.RPCExecuteProgramResponse).Error = errors.New("instruction 2 failed: out of budget")
				} else {
					v.(*rhp3.RPCExecuteProgramResponse).Error = nil
				}
			}
		}
		out = append(out, cd)
	}
	for _, o := range rhp4Catalogue() {
		o := o
		cd := plain(o)
		cd.enc = func(v any) []byte { return rhp4Fam.write(o, v) }
		cd.dec = func(wire []byte, into any) error { return rhp4Fam.read(o, bytes.NewReader(wire), into) }
		out = append(out, cd)
	}
	for _, g := range gwCatalogue() {
		g := g
		pick := func(req, resp gateway.Object) gateway.Object {
			if g.dir == "req" {
				return req
			}
			return resp
		}
		cd := codec{fam: "gw", name: g.name, dir: g.dir, k: 1,
			mk: func(r *rand.Rand, n []int) any {
				if len(n) == 0 {
					return pick(g.mk(r, 0))
				}
				return pick(g.mk(r, n[0]))
			},
			blank: func() any {
				o := pick(g.mk(rand.New(rand.NewSource(1)), map[bool]int{true: 1000, false: 0}[g.weight]))
				return reflect.New(reflect.TypeOf(o).Elem()).Interface()
			},
			count: func(class string, j int, r *rand.Rand) int {
				n := classCount(class, max(g.rnd, 1), r)
				if g.weight {
					n = 1000 + 40*n
				}
				return n
			},
			enc: func(v any) []byte {
				var buf bytes.Buffer
				e := types.NewEncoder(&buf)
				if g.dir == "req" {
					gateway.VerifEncodeRequest(v.(gateway.Object), e)
				} else {
					gateway.VerifEncodeResponse(v.(gateway.Object), e)
				}
				e.Flush()
				return buf.Bytes()
			},
			dec: func(wire []byte, into any) error {
				d := types.NewBufDecoder(wire)
				if g.dir == "req" {
					gateway.VerifDecodeRequest(into.(gateway.Object), d)
				} else {
					gateway.VerifDecodeResponse(into.(gateway.Object), d)
				}
				return d.Err()
			}}
		if g.unit == "fixed" {
			cd.k = 0
		}
		if g.param != 0 {
			cd.name = fmt.Sprintf("%s(max %d)", g.name, g.param)
		}
		out = append(out, cd)
	}
	// block outlines: entries are a v1 transaction, a v2 transaction or a bare hash
	outline := func(r *rand.Rand, n, shift int) gateway.V2BlockOutline {
		ob := gateway.V2BlockOutline{Height: uint64(r.Intn(1 << 30)), ParentID: types.BlockID(rHash(r)), Nonce: r.Uint64(), Timestamp: rTime(r), MinerAddress: rAddr(r)}
		for i := 1; i <= n; i++ {
			switch (i + shift) % 3 {
			case 0:
				t := rTxns(r, 1)[0]
				ob.Transactions = append(ob.Transactions, gateway.OutlineTransaction{Hash: t.MerkleLeafHash(), Transaction: &t})
			case 1:
				t := weightTxn(r, 300+r.Intn(300), 0, 0)
				ob.Transactions = append(ob.Transactions, gateway.OutlineTransaction{Hash: t.MerkleLeafHash(), V2Transaction: &t})
			default:
				ob.Transactions = append(ob.Transactions, gateway.OutlineTransaction{Hash: rHash(r)})
			}
		}
		return ob
	}
	vcount := func(class string, j int, r *rand.Rand) int { return classCount(class, 12, r) }
	out = append(out,
		codec{fam: "gw", name: "V2BlockOutline(entries)", dir: "req", k: 1, count: vcount,
			mk:      func(r *rand.Rand, n []int) any { ob := outline(r, n[0], 0); return &ob },
			variant: func(r *rand.Rand, n, shift int) any { ob := outline(r, n, shift); return &ob },
			blank:   func() any { return new(gateway.V2BlockOutline) },
			enc: func(v any) []byte {
				var buf bytes.Buffer
				e := types.NewEncoder(&buf)
				gateway.VerifEncodeOutline(v.(*gateway.V2BlockOutline), e)
				e.Flush()
				return buf.Bytes()
			},
			dec: func(wire []byte, into any) error {
				d := types.NewBufDecoder(wire)
				gateway.VerifDecodeOutline(into.(*gateway.V2BlockOutline), d)
				return d.Err()
			}},
		codec{fam: "gw", name: "RelayV2BlockOutline(entries)", dir: "req", k: 1, count: vcount,
			mk: func(r *rand.Rand, n []int) any { return &gateway.RPCRelayV2BlockOutline{Block: outline(r, n[0], 0)} },
			variant: func(r *rand.Rand, n, shift int) any {
				return &gateway.RPCRelayV2BlockOutline{Block: outline(r, n, shift)}
			},
			blank: func() any { return new(gateway.RPCRelayV2BlockOutline) },
			enc: func(v any) []byte {
				var buf bytes.Buffer
				e := types.NewEncoder(&buf)
				gateway.VerifEncodeRequest(v.(gateway.Object), e)
				e.Flush()
				return buf.Bytes()
			},
			dec: func(wire []byte, into any) error {
				d := types.NewBufDecoder(wire)
				gateway.VerifDecodeRequest(into.(gateway.Object), d)
				return d.Err()
			}})
	return out
}

type dirtyObs struct {
	Kind      string `json:"kind"` // "dirty"
	Fam       string `json:"fam"`
	Obj       string `json:"obj"`
	Dir       string `json:"dir"`
	Case      string `json:"case"`
	Held      []int  `json:"held"`
	Arrives   []int  `json:"arrives"`
	Seed      int64  `json:"seed"`
	What      string `json:"what"` // "" agreement | decode-error | optional-not-cleared | previous-value-kept | differs
	Detail    string `json:"detail,omitempty"`
	Hidden    bool   `json:"hidden"`  // same wire form, but the receiver differs from a zero-value decode in state that is not on the wire
	Trivial   bool   `json:"trivial"` // nothing arrives and nothing was held
	CleanFail string `json:"clean_fail,omitempty"`
}

// dirtyDecode decodes a real object of shape `arrives` into a receiver holding a real object of shape `held`.
func dirtyDecode(cd codec, dc dirtyCase, seed int64) dirtyObs {
	r := rand.New(rand.NewSource(seed))
	o := dirtyObs{Kind: "dirty", Fam: cd.fam, Obj: cd.name, Dir: cd.dir, Case: dc.key(), Seed: seed}
	held, arrives := make([]int, cd.k), make([]int, cd.k)
	if dc.Kind == "slice" || dc.Kind == "variant" {
		for j := 0; j < cd.k; j++ {
			held[j], arrives[j] = cd.count(dc.Prev, j, r), cd.count(dc.New, j, r)
		}
	} else {
		for j := 0; j < cd.k; j++ {
			held[j], arrives[j] = cd.count("few", j, r), cd.count("few", j, r)
		}
	}
	o.Held, o.Arrives = held, arrives
	var a, b any
	if dc.Kind == "variant" {
		// what the receiver held at a position is of another variant than what arrives there
		a = cd.variant(rand.New(rand.NewSource(r.Int63())), arrives[0], 1)
		b = cd.variant(rand.New(rand.NewSource(r.Int63())), held[0], 0)
	} else {
		a = cd.mk(rand.New(rand.NewSource(r.Int63())), arrives)
		b = cd.mk(rand.New(rand.NewSource(r.Int63())), held)
	}
	if dc.Kind == "optional" {
		cd.optional(a, dc.New == "set")
		cd.optional(b, dc.Prev == "set")
	}
	wire := cd.enc(a)
	clean := cd.blank()
	if err := cd.dec(wire, clean); err != nil {
		o.CleanFail = err.Error()
		return o
	}
	if !bytes.Equal(cd.enc(clean), wire) {
		o.CleanFail = "a zero-value receiver does not re-encode to the bytes sent"
		return o
	}
	o.Trivial = cd.k > 0 && dc.Kind != "optional" && dc.Prev == "zero" && dc.New == "zero"
	if err := cd.dec(wire, b); err != nil {
		o.What, o.Detail = "decode-error", err.Error()
		return o
	}
	if got := cd.enc(b); !bytes.Equal(got, wire) {
		switch {
		case dc.Kind == "optional":
			o.What = "optional-not-cleared"
		case len(got) > len(wire):
			o.What = "previous-value-kept"
		default:
			o.What = "differs"
		}
		o.Detail = fmt.Sprintf("%d bytes sent; the receiver re-encodes to %d bytes, first difference at byte %d", len(wire), len(got), firstDiff(got, wire))
		return o
	}
	if panicked, _ := vlib.Recover(func() { o.Hidden = !looseEqual(reflect.ValueOf(b), reflect.ValueOf(clean)) }); panicked {
		o.Hidden = false
	}
	return o
}

// looseEqual is reflect.DeepEqual except that nil and empty slices / maps are the same and errors compare by text.
func looseEqual(a, b reflect.Value) bool {
	if a.IsValid() != b.IsValid() {
		return false
	}
	if !a.IsValid() {
		return true
	}
	if a.Type() != b.Type() {
		return false
	}
	if a.Type() == reflect.TypeOf(time.Time{}) && a.CanInterface() {
		return a.Interface().(time.Time).Equal(b.Interface().(time.Time))
	}
	switch a.Kind() {
	case reflect.Pointer:
		if a.IsNil() || b.IsNil() {
			return a.IsNil() == b.IsNil()
		}
		return looseEqual(a.Elem(), b.Elem())
	case reflect.Interface:
		if a.IsNil() || b.IsNil() {
			return a.IsNil() == b.IsNil()
		}
		if a.CanInterface() {
			if ea, ok := a.Interface().(error); ok {
				eb, ok2 := b.Interface().(error)
				return ok2 && ea.Error() == eb.Error()
			}
		}
		return looseEqual(a.Elem(), b.Elem())
	case reflect.Struct:
		for i := 0; i < a.NumField(); i++ {
			if !looseEqual(a.Field(i), b.Field(i)) {
				return false
			}
		}
		return true
	case reflect.Slice, reflect.Array:
		if a.Len() != b.Len() {
			return false
		}
		for i := 0; i < a.Len(); i++ {
			if !looseEqual(a.Index(i), b.Index(i)) {
				return false
			}
		}
		return true
	case reflect.Map:
		return a.Len() == b.Len() // not used by wire types
	case reflect.Bool:
		return a.Bool() == b.Bool()
	case reflect.Int, reflect.Int8, reflect.Int16, reflect.Int32, reflect.Int64:
		return a.Int() == b.Int()
	case reflect.Uint, reflect.Uint8, reflect.Uint16, reflect.Uint32, reflect.Uint64, reflect.Uintptr:
		return a.Uint() == b.Uint()
	case reflect.String:
		return a.String() == b.String()
	case reflect.Float32, reflect.Float64:
		return a.Float() == b.Float()
	default:
		return true
	}
}

func judgeDirty(c *vlib.Ctx, o dirtyObs) {
	if o.CleanFail != "" {
		return // the round trip into a zero value is the framing part's matter; counted by the caller
	}
	if o.What == "" {
		return
	}
	key := fmt.Sprintf("dirty-%s-%s-%s-%s", o.Fam, slug(o.Obj), o.Dir, o.What)
	c.Violation(key, fmt.Sprintf("%s/%s/%s: an object of shape %v decoded into a receiver that held one of shape %v (%s) is not the object sent: %s: %s",
		o.Fam, o.Obj, o.Dir, o.Arrives, o.Held, o.Case, strings.ReplaceAll(o.What, "-", " "), o.Detail), o)
}

type dirtyTotals struct {
	evals, distinct int64
}

// runDirty applies every DIRTY case to every registered wire type.
func runDirty(c *vlib.Ctx, cases map[string]dirtyCase, r *rand.Rand) dirtyTotals {
	var t dirtyTotals
	var mu sync.Mutex
	perFam := map[string]map[string]bool{}
	hidden := map[string]bool{}
	seenCase := map[string]bool{}
	baseline := map[string]int{} // round trips into a zero value that failed (no dirty decode possible)
	optionals, variants := 0, 0
	var jobs []func()
	for _, cd := range allCodecs() {
		cd := cd
		for _, k := range sortedKeys(cases) {
			dc := cases[k]
			switch {
			case dc.Kind == "optional" && cd.optional == nil:
				continue
			case dc.Kind == "variant" && cd.variant == nil:
				continue
			case dc.Kind == "scalar":
				continue // applied per field by runScalars
			case dc.Kind == "slice" && cd.k == 0 && !(dc.Prev == "few" && dc.New == "few"):
				continue // an object without groups: one decode over another value of the fixed fields
			}
			for rep := c.Pick(1, 10); rep > 0; rep-- {
				seed := r.Int63()
				jobs = append(jobs, func() {
					o := dirtyDecode(cd, dc, seed)
					mu.Lock()
					t.evals++
					if !o.Trivial && !seenCase[cd.fam+"/"+cd.name+"/"+cd.dir+"/"+dc.key()] {
						seenCase[cd.fam+"/"+cd.name+"/"+cd.dir+"/"+dc.key()] = true
						t.distinct++ // repeats with other random contents are not counted as distinct
					}
					if perFam[cd.fam] == nil {
						perFam[cd.fam] = map[string]bool{}
					}
					perFam[cd.fam][cd.name+"/"+cd.dir] = true
					if o.CleanFail != "" {
						baseline[cd.fam+"/"+cd.name+"/"+cd.dir+": "+o.CleanFail]++
					}
					if o.Hidden {
						hidden[cd.fam+"/"+cd.name+"/"+cd.dir] = true
					}
					if dc.Kind == "optional" {
						optionals++
					}
					if dc.Kind == "variant" {
						variants++
					}
					mu.Unlock()
					judgeDirty(c, o)
				})
			}
		}
	}
	parallel(8, jobs)
	counts := map[string]int{}
	for fam, objs := range perFam {
		counts[fam] = len(objs)
	}
	for fam, want := range map[string]int{"rhp4": 44, "rhp2": 15, "rhp3": 18, "gw": 14} {
		if counts[fam] < want {
			c.Infra("vacuity: dirty receivers: only %d object types of family %s covered (want ≥ %d)", counts[fam], fam, want)
		}
	}
	nbase := 0
	for _, n := range baseline {
		nbase += n
	}
	if int64(nbase)*10 > t.evals || (nbase > 0 && c.NViolations() == 0) {
		c.Infra("dirty receivers: %d of %d round trips into a zero value failed: %v", nbase, t.evals, baseline)
	}
	if optionals < 4 || variants < 32 {
		c.Infra("vacuity: dirty receivers: %d optional and %d variant cases executed", optionals, variants)
	}
	hid := make([]string, 0, len(hidden))
	for k := range hidden {
		hid = append(hid, k)
	}
	sort.Strings(hid)
	c.Cov("dirty_receivers", map[string]any{"decodes": t.evals, "object_types_per_family": counts, "cases": len(cases), "zero_value_round_trips_failed": baseline,
		"same_wire_form_but_unencoded_state_differs_info": hid})
	return t
}

// selftestReuse corrupts the expected side: a receiver that "keeps" its previous value must be noticed by the comparison.
func selftestReuse(c *vlib.Ctx) {
	// a decoder that appends instead of replacing, on a real wire type
	cd := codec{fam: "selftest", name: "SettingsResponse", dir: "resp", k: 1,
		mk:    func(r *rand.Rand, n []int) any { return &rhp2.RPCSettingsResponse{Settings: randBytes(r, n[0])} },
		blank: func() any { return new(rhp2.RPCSettingsResponse) },
		count: func(class string, j int, r *rand.Rand) int { return classCount(class, 100, r) },
		enc:   func(v any) []byte { return encBytes(v.(types.EncoderTo)) },
		dec: func(wire []byte, into any) error {
			recv := into.(*rhp2.RPCSettingsResponse)
			old := append([]byte(nil), recv.Settings...)
			d := types.NewBufDecoder(wire)
			recv.DecodeFrom(d)
			recv.Settings = append(old, recv.Settings...)
			return d.Err()
		}}
	bad := dirtyDecode(cd, dirtyCase{Kind: "slice", Prev: "few", New: "many"}, 7)
	good := dirtyDecode(cd, dirtyCase{Kind: "slice", Prev: "zero", New: "many"}, 7)
	ok := bad.What == "previous-value-kept" && good.What == "" && good.CleanFail == "" &&
		reuseClass("reused", 1, 4096, 64, 64) == "grow-dirty" && reuseClass("reused", 2, 64, 4096, 4096) == "reuse-shrink"
	c.Cov("selftest_reuse", map[string]bool{"appending_decoder_noticed": ok})
	if !ok {
		c.Infra("selftest: a decoder that keeps the previous value was not noticed (%+v / %+v)", bad, good)
	}
}

// ---------------------------------------------------------------------------
// single fields: the zero / sentinel value arriving into a receiver that holds another value, and vice versa

// leafPaths lists every settable field of the struct v points to (nested structs are entered; slices, arrays,
// pointers, interfaces, strings and numbers are leaves; a nested struct is also listed as a whole).
func leafPaths(t reflect.Type, prefix []int, depth int, out *[][]int) {
	if t.Kind() != reflect.Struct || t == reflect.TypeOf(time.Time{}) || depth > 3 {
		return
	}
	for i := 0; i < t.NumField(); i++ {
		f := t.Field(i)
		if !f.IsExported() {
			continue
		}
		path := append(append([]int(nil), prefix...), i)
		*out = append(*out, path)
		if f.Type.Kind() == reflect.Struct {
			leafPaths(f.Type, path, depth+1, out)
		}
	}
}

func pathName(t reflect.Type, path []int) string {
	name := ""
	for _, i := range path {
		f := t.Field(i)
		if name != "" {
			name += "."
		}
		name += f.Name
		t = f.Type
	}
	return name
}

func zeroAt(obj any, path []int) (wasZero bool) {
	v := reflect.ValueOf(obj).Elem().FieldByIndex(path)
	wasZero = v.IsZero()
	v.Set(reflect.Zero(v.Type()))
	return
}

type scalarObs struct {
	dirtyObs
	Field string `json:"field"`
	Path  []int  `json:"path"`
	NA    string `json:"not_applicable,omitempty"` // the zero value of the field is not a wire value / the field is not on this wire
}

// scalarDecode: object A (field zeroed if newZero) decoded into a receiver holding object B (field zeroed if prevZero).
func scalarDecode(cd codec, path []int, prevZero, newZero bool, seed int64) scalarObs {
	r := rand.New(rand.NewSource(seed))
	shape := make([]int, cd.k)
	for j := range shape {
		shape[j] = cd.count("few", j, r)
	}
	a := cd.mk(rand.New(rand.NewSource(r.Int63())), shape)
	b := cd.mk(rand.New(rand.NewSource(r.Int63())), shape)
	t := reflect.TypeOf(a).Elem()
	o := scalarObs{Field: pathName(t, path), Path: path}
	o.dirtyObs = dirtyObs{Kind: "scalar", Fam: cd.fam, Obj: cd.name, Dir: cd.dir, Seed: seed, Held: shape, Arrives: shape,
		Case: fmt.Sprintf("scalar-%s-%s", map[bool]string{true: "zero", false: "nonzero"}[prevZero], map[bool]string{true: "zero", false: "nonzero"}[newZero])}
	full := cd.enc(a)
	if newZero {
		if zeroAt(a, path) {
			o.NA = "the generated object already has the zero value there"
			return o
		}
	}
	if prevZero {
		zeroAt(b, path)
	}
	var wire []byte
	if panicked, val := vlib.Recover(func() { wire = cd.enc(a) }); panicked {
		o.NA = fmt.Sprintf("the zero value cannot be encoded (%v)", val)
		return o
	}
	if newZero && bytes.Equal(wire, full) {
		o.NA = "the field is not on this wire"
		return o
	}
	clean := cd.blank()
	if err := cd.dec(wire, clean); err != nil {
		o.NA = "the zero value is not a wire value: " + err.Error()
		return o
	}
	if !bytes.Equal(cd.enc(clean), wire) {
		o.NA = "the zero value does not survive a round trip into a zero receiver"
		return o
	}
	var derr error
	if panicked, val := vlib.Recover(func() { derr = cd.dec(wire, b) }); panicked {
		o.What, o.Detail = "decode-panic", fmt.Sprint(val)
		return o
	}
	if derr != nil {
		o.What, o.Detail = "decode-error", derr.Error()
		return o
	}
	if got := cd.enc(b); !bytes.Equal(got, wire) {
		o.What = "field-not-replaced"
		if newZero {
			o.What = "zero-value-not-stored"
		}
		o.Detail = fmt.Sprintf("field %s: %d bytes sent; the receiver re-encodes to %d bytes, first difference at byte %d", o.Field, len(wire), len(got), firstDiff(got, wire))
	}
	return o
}

func judgeScalar(c *vlib.Ctx, o scalarObs) {
	if o.NA != "" || o.What == "" {
		return
	}
	key := fmt.Sprintf("dirty-%s-%s-%s-%s-%s", o.Fam, slug(o.Obj), o.Dir, slug(o.Field), o.What)
	c.Violation(key, fmt.Sprintf("%s/%s/%s field %s (%s): what arrives is not what the receiver holds afterwards: %s: %s",
		o.Fam, o.Obj, o.Dir, o.Field, o.Case, strings.ReplaceAll(o.What, "-", " "), o.Detail), o)
}

// runScalars applies the scalar DIRTY cases to every settable field of every registered wire type.
func runScalars(c *vlib.Ctx, cases map[string]dirtyCase, r *rand.Rand) dirtyTotals {
	var t dirtyTotals
	var mu sync.Mutex
	applied := map[string]int{} // family -> fields for which a zero value really arrived in a non-zero receiver
	na := map[string]int{}
	var jobs []func()
	for _, cd := range allCodecs() {
		cd := cd
		sample := cd.mk(rand.New(rand.NewSource(1)), make([]int, cd.k))
		var paths [][]int
		leafPaths(reflect.TypeOf(sample).Elem(), nil, 0, &paths)
		for _, path := range paths {
			path := path
			for _, k := range sortedKeys(cases) {
				dc := cases[k]
				if dc.Kind != "scalar" || (dc.Prev == "nonzero" && dc.New == "nonzero") {
					continue // nonzero over nonzero is what every other dirty case does
				}
				seed := r.Int63()
				jobs = append(jobs, func() {
					o := scalarDecode(cd, path, dc.Prev == "zero", dc.New == "zero", seed)
					mu.Lock()
					if o.NA != "" {
						na[o.NA[:min(len(o.NA), 40)]]++
					} else {
						t.evals++
						t.distinct++
						if dc.New == "zero" && dc.Prev == "nonzero" {
							applied[cd.fam]++
						}
					}
					mu.Unlock()
					judgeScalar(c, o)
				})
			}
		}
	}
	parallel(8, jobs)
	for fam, want := range map[string]int{"rhp2": 20, "rhp3": 30, "rhp4": 60, "gw": 10} {
		if applied[fam] < want {
			c.Infra("vacuity: single fields: a zero value arrived in a non-zero receiver for only %d fields of family %s (want ≥ %d)", applied[fam], fam, want)
		}
	}
	c.Cov("dirty_single_fields", map[string]any{"decodes": t.evals, "fields_with_zero_arriving_in_nonzero_receiver": applied, "not_applicable": na})
	return t
}
