package main

import (
	"bytes"
	"encoding/binary"
	"fmt"
	"math/rand"
	"net"
	"sync"
	"sync/atomic"
	"time"

	rhp2 "go.sia.tech/core/rhp/v2"
	rhp3 "go.sia.tech/core/rhp/v3"
	"go.sia.tech/core/types"
)

// cconn counts what an endpoint read from its connection.
type cconn struct {
	net.Conn
	n int64
}

func (c *cconn) Read(p []byte) (int, error) {
	n, err := c.Conn.Read(p)
	atomic.AddInt64(&c.n, int64(n))
	return n, err
}

// schemaOf measures fixed part and element sizes with the plain encoder of the object.
func schemaOf(o fobj, seed int64) (fixed int, s []int) {
	k := len(o.groups)
	fixed = encLen(o.mk(rand.New(rand.NewSource(seed)), zeros(k)).(types.EncoderTo))
	for i := 0; i < k; i++ {
		s = append(s, encLen(o.mk(rand.New(rand.NewSource(seed)), unit(k, i)).(types.EncoderTo))-fixed)
	}
	return
}

// rhp2Line moves one object through a fresh pair of real RHP2 transports; the reader applies maxLen m.
// declared ≥ 0: the adversary rewrites the size prefix of the object's frame to that value and keeps sending.
func rhp2Line(o fobj, seed int64, n []int, fixed int, s []int, m uint64, declared int64) fline {
	obj := o.mk(rand.New(rand.NewSource(seed)), n).(rhp2.ProtocolObject)
	plain := encLen(obj)
	if o.dir == "resp" {
		plain++ // response flag
	}
	nominal := int64(m)
	if nominal < 4096 {
		nominal = 4096
	}
	objFrame := 1
	if o.dir == "req" {
		objFrame = 2 // the ID frame comes first
	}
	var frameSize int64 = -1
	plan := dirPlan{frames: -1, onFrame: func(idx, sz int) {
		if idx == objFrame {
			atomic.StoreInt64(&frameSize, int64(sz))
		}
	}}
	if declared >= 0 {
		plan.rewrite = func(idx int, frame []byte) []byte {
			if idx != objFrame {
				return frame
			}
			out := append([]byte(nil), frame...)
			binary.LittleEndian.PutUint64(out[:8], uint64(declared))
			want := declared
			if lim := nominal + 1<<16; want > lim {
				want = lim
			}
			if extra := want - int64(len(frame)-8); extra > 0 {
				out = append(out, make([]byte, extra)...)
			}
			return out
		}
	}
	var ab, ba dirPlan
	if o.dir == "req" {
		plan.skip = rhp2ReqSkip
		ab, ba = plan, dirPlan{}
	} else {
		plan.skip = rhp2RespSkip
		ab, ba = dirPlan{}, plan
	}
	l := newLink("10.1.0.1:4001", "10.2.0.2:9982", ab, ba, 40*time.Second)
	defer l.Close()
	ca, cb := &cconn{Conn: l.A}, &cconn{Conn: l.B}
	var ht *rhp2.Transport
	var herr error
	var wg sync.WaitGroup
	wg.Add(1)
	go func() {
		defer wg.Done()
		ht, herr = rhp2.NewHostTransport(cb, rhp2HostKey)
	}()
	rt, rerr := rhp2.NewRenterTransport(ca, rhp2HostKey.PublicKey())
	wg.Wait()
	line := fline{"ev": "shape", "fam": "rhp2", "obj": o.name, "dir": o.dir, "pre": 8, "m": int64(m), "fixed": fixed,
		"groups": groupsJSON(n, s), "plain": plain, "limLo": -1, "limHi": -1, "maximal": false}
	if o.dir == "resp" {
		line["fixed"] = fixed + 1
	}
	if declared >= 0 {
		line = fline{"ev": "hungry", "fam": "rhp2", "obj": o.name, "dir": o.dir, "pre": 8, "m": int64(m), "limLo": -1,
			"announced": fmt.Sprint(declared)}
	}
	if rerr != nil || herr != nil {
		line["infra"] = fmt.Sprintf("handshake: %v / %v", rerr, herr)
		return line
	}
	var id types.Specifier
	copy(id[:], "C19Probe")
	got := o.blank().(rhp2.ProtocolObject)
	var err error
	var consumed int64
	go func() {
		if o.dir == "req" {
			rt.WriteRequest(id, obj)
		} else {
			ht.WriteResponse(obj)
		}
	}()
	if o.dir == "req" {
		ht.SetDeadline(time.Now().Add(30 * time.Second))
		if _, e := ht.ReadID(); e != nil {
			line["infra"] = "ReadID: " + e.Error()
			return line
		}
		base := atomic.LoadInt64(&cb.n)
		err = ht.ReadRequest(got, m)
		consumed = atomic.LoadInt64(&cb.n) - base
	} else {
		rt.SetDeadline(time.Now().Add(30 * time.Second))
		base := atomic.LoadInt64(&ca.n)
		err = rt.ReadResponse(got, m)
		consumed = atomic.LoadInt64(&ca.n) - base
	}
	if isTimeout(err) {
		line["infra"] = "timeout: " + err.Error()
		return line
	}
	line["consumed"] = int(consumed)
	if declared >= 0 {
		line["refused"] = err != nil
		return line
	}
	line["enc"] = int(atomic.LoadInt64(&frameSize))
	line["accepted"] = err == nil
	line["same"] = err == nil && bytes.Equal(encBytes(got), encBytes(obj))
	if err != nil {
		line["err"] = err.Error()
	}
	return line
}

func rhp2Framing(rec *frec, o fobj, r *rand.Rand, nRandom int, par func(func())) {
	seed := r.Int63()
	fixed, s := schemaOf(o, seed)
	k := len(o.groups)
	emit := func(n []int, m uint64, declared int64) {
		sd := r.Int63()
		nn := append([]int(nil), n...)
		par(func() { rec.add(func() fline { return rhp2Line(o, sd, nn, fixed, s, m, declared) }) })
	}
	shapes := [][]int{zeros(k)}
	for i := 0; i < nRandom; i++ {
		n := make([]int, k)
		for j := range n {
			n[j] = r.Intn(o.rnd[j] + 1)
		}
		shapes = append(shapes, n)
	}
	if k > 0 {
		shapes = append(shapes, append([]int(nil), o.rnd...))
	}
	// objects with a byte-granular field: the object lengths at the boundaries of the framing rules and a few more
	// of the lengths the model walks (FrameSizes.tla)
	for j := 0; j < k; j++ {
		if s[j] != 1 {
			continue
		}
		base := fixed
		if o.dir == "resp" {
			base++
		}
		ps := append([]int(nil), edgeSizes...)
		for i := 0; i < 4 && len(windowSizes) > 0; i++ {
			ps = append(ps, windowSizes[r.Intn(len(windowSizes))])
		}
		for _, p := range ps {
			if p >= base {
				n := zeros(k)
				n[j] = p - base
				shapes = append(shapes, n)
			}
		}
		break
	}
	for _, n := range shapes {
		size := fixed
		for j := range n {
			size += n[j] * s[j]
		}
		if o.dir == "resp" {
			size++
		}
		frame := size + 28
		if frame < 4088 {
			frame = 4088
		}
		// the limit exactly at the frame, one below (refused when above the padding size), generous, zero
		emit(n, uint64(frame), -1)
		emit(n, uint64(frame-1), -1)
		emit(n, uint64(frame+1+r.Intn(1<<16)), -1)
		emit(n, 0, -1)
		if frame > 4096 {
			emit(n, uint64(4096+r.Intn(frame-4096)), -1)
		}
	}
	// a never-ending peer: the announced size at the limit, one above, far above
	for _, m := range []uint64{0, 5000, uint64(8192 + r.Intn(1<<15))} {
		nominal := int64(m)
		if nominal < 4096 {
			nominal = 4096
		}
		for _, d := range []int64{nominal, nominal + 1, 1 << 40, nominal - 1} {
			emit(zeros(k), m, d)
		}
	}
}

// ---------------------------------------------------------------------------
// RHP3: objects cross a real stream of a real transport pair; bytes are not observable behind the multiplexer,
// acceptance is.

func rhp3Line(p *rhp3Pair, o fobj, seed int64, n []int, fixed int, s []int, m uint64) fline {
	obj := o.mk(rand.New(rand.NewSource(seed)), n).(rhp3.ProtocolObject)
	plain := 1 + encLen(obj)
	line := fline{"ev": "shape", "fam": "rhp3", "obj": o.name, "dir": o.dir, "pre": 8, "m": int64(m), "fixed": fixed + 1,
		"groups": groupsJSON(n, s), "plain": plain, "enc": plain, "limLo": -1, "limHi": -1, "maximal": false, "consumed": -1}
	var id types.Specifier
	copy(id[:], "C19Probe3")
	var x xfer
	if o.dir == "req" {
		x, _ = p.rhp3Call(id, obj, o.blank().(rhp3.ProtocolObject), m, nil, nil, nil, 0, 30*time.Second)
	} else {
		var rq xfer
		rq, x = p.rhp3Call(id, nil, nil, 0, obj, nil, o.blank().(rhp3.ProtocolObject), m, 30*time.Second)
		if rq.Infra != "" || !rq.Accepted {
			x.Infra = "request leg: " + rq.Infra + rq.Err
		}
	}
	if x.Infra != "" || x.Timeout {
		line["infra"] = x.Infra + x.Err
		return line
	}
	line["accepted"], line["same"] = x.Accepted, x.Accepted && x.Same
	if x.Err != "" {
		line["err"] = x.Err
	}
	return line
}

func rhp3Framing(rec *frec, o fobj, r *rand.Rand, nRandom int, open func() *rhp3Pair) {
	seed := r.Int63()
	fixed, s := schemaOf(o, seed)
	k := len(o.groups)
	p := open()
	if p == nil {
		return
	}
	defer p.Close()
	emit := func(n []int, m uint64) {
		sd := r.Int63()
		nn := append([]int(nil), n...)
		rec.add(func() fline {
			if p != nil {
				return rhp3Line(p, o, sd, nn, fixed, s, m)
			}
			q := open() // re-execution after the shared pair is gone
			if q == nil {
				return fline{"infra": "cannot reopen"}
			}
			defer q.Close()
			return rhp3Line(q, o, sd, nn, fixed, s, m)
		})
	}
	shapes := [][]int{zeros(k)}
	for i := 0; i < nRandom; i++ {
		n := make([]int, k)
		for j := range n {
			n[j] = r.Intn(o.rnd[j] + 1)
		}
		shapes = append(shapes, n)
	}
	if k > 0 {
		shapes = append(shapes, append([]int(nil), o.rnd...))
	}
	for _, n := range shapes {
		size := fixed + 1
		for j := range n {
			size += n[j] * s[j]
		}
		emit(n, uint64(size)) // what a caller that knows the size would pass
		emit(n, uint64(size+r.Intn(1<<16)))
		if size > 1016 {
			emit(n, uint64(size-1016)) // the message exactly fills limit + framing allowance
			emit(n, uint64(size-1017)) // one byte too long
			emit(n, uint64(r.Intn(size-1016)))
			// every other distance from the limit the model walks (EDGE records of FrameSizes.tla)
			for _, d := range edgeSlacks {
				if d != 0 && d != -1 && size-1016+d >= 0 {
					emit(n, uint64(size-1016+d))
				}
			}
		} else {
			emit(n, 0)
		}
	}
	// after the loop the shared pair is closed: re-executions open their own
	defer func() { p = nil }()
}
