package main

import (
	"bytes"
	"fmt"
	"io"
	"math/rand"
	"sync"

	rhp4 "go.sia.tech/core/rhp/v4"
	"go.sia.tech/core/types"
)

// A fobj is one RPC object as a reader sees it: a fixed part and repeating groups.
type fobj struct {
	fam, name, dir string // dir: req | resp
	groups         []string
	mk             func(r *rand.Rand, n []int) any // a real object with n[i] elements in group i; fixed fields first
	blank          func() any
	max            [][]int // the protocol's maximal count vectors (nil: the protocol states none)
	rnd            []int   // upper bounds for the random smaller shapes
	hungry         int     // group used to keep the decoder reading (-1: none)
	param          uint64  // gateway: the request parameter the response limit depends on (Max)
}

func (o fobj) id() string { return o.fam + "/" + o.name + "/" + o.dir }

// A fline is one recorded observation (one line of the trace validated by spec/net/Framing.tla).
type fline map[string]any

// frec collects lines together with the way to re-execute each of them on the real code.
type frec struct {
	mu    sync.Mutex
	lines []fline
	redo  []func() fline
	over  map[string]int // family -> over-limit refusals observed
	objs  map[string]bool
	maxed map[string]bool
}

func newFrec() *frec {
	return &frec{over: map[string]int{}, objs: map[string]bool{}, maxed: map[string]bool{}}
}

func (f *frec) add(redo func() fline) fline {
	l := redo()
	f.mu.Lock()
	defer f.mu.Unlock()
	f.lines = append(f.lines, l)
	f.redo = append(f.redo, redo)
	fam, _ := l["fam"].(string)
	obj, _ := l["obj"].(string)
	dir, _ := l["dir"].(string)
	f.objs[fam+"/"+obj+"/"+dir] = true
	if l["ev"] == "shape" {
		acc, hasAcc := l["accepted"].(bool)
		enc, _ := l["enc"].(int)
		lo, _ := l["limLo"].(int)
		if hasAcc && !acc && enc > lo {
			f.over[fam]++
		}
		if mx, _ := l["maximal"].(bool); mx {
			f.maxed[fam+"/"+obj+"/"+dir] = true
		}
	}
	return l
}

func groupsJSON(n, s []int) [][]int {
	out := make([][]int, len(n))
	for i := range n {
		out[i] = []int{n[i], s[i]}
	}
	return out
}

func zeros(k int) []int { return make([]int, k) }
func unit(k, i int) []int {
	z := make([]int, k)
	z[i] = 1
	return z
}

// repeatReader yields head and then unit over and over (a peer that never stops sending well-formed elements).
type repeatReader struct {
	head, unit []byte
	off        int64
	max        int64
}

func (e *repeatReader) Read(p []byte) (int, error) {
	if e.off >= e.max {
		return 0, io.EOF
	}
	n := 0
	for n < len(p) && e.off < e.max {
		if e.off < int64(len(e.head)) {
			c := copy(p[n:], e.head[e.off:])
			n += c
			e.off += int64(c)
			continue
		}
		u := int((e.off - int64(len(e.head))) % int64(len(e.unit)))
		c := copy(p[n:], e.unit[u:])
		n += c
		e.off += int64(c)
	}
	return n, nil
}

// ---------------------------------------------------------------------------
// a family whose reader works on a plain io.Reader (rhp4): everything is countable

type directFam struct {
	write   func(o fobj, obj any) []byte
	read    func(o fobj, src io.Reader, blank any) error
	errHead func() []byte // responses: the bytes that open an error response, up to the length of its description
}

var rhp4Fam = directFam{
	write: func(o fobj, obj any) []byte {
		var buf bytes.Buffer
		if o.dir == "req" {
			rhp4.WriteRequest(&buf, types.Specifier{}, obj.(rhp4.Object))
			return buf.Bytes()[16:]
		}
		rhp4.WriteResponse(&buf, obj.(rhp4.Object))
		return buf.Bytes()
	},
	read: func(o fobj, src io.Reader, blank any) error {
		if o.dir == "req" {
			return rhp4.ReadRequest(src, blank.(rhp4.Object))
		}
		return rhp4.ReadResponse(src, blank.(rhp4.Object))
	},
}

// schema measures the fixed part and the element sizes of o with the real writer.
func (d directFam) schema(o fobj, seed int64) (fixed int, s []int, enc0 []byte, encs [][]byte) {
	k := len(o.groups)
	enc0 = d.write(o, o.mk(rand.New(rand.NewSource(seed)), zeros(k)))
	fixed = len(enc0)
	for i := 0; i < k; i++ {
		e := d.write(o, o.mk(rand.New(rand.NewSource(seed)), unit(k, i)))
		s = append(s, len(e)-fixed)
		encs = append(encs, e)
	}
	return
}

func firstDiff(a, b []byte) int {
	for i := 0; i < len(a) && i < len(b); i++ {
		if a[i] != b[i] {
			return i
		}
	}
	if len(a) < len(b) {
		return len(a)
	}
	return len(b)
}

// probeHungry feeds the reader a stream whose group g announces n elements and never ends.
func (d directFam) probeHungry(o fobj, head, unitBytes []byte) (consumed int, err error) {
	src := &countReader{r: &repeatReader{head: head, unit: unitBytes, max: 1 << 30}}
	err = d.read(o, src, o.blank())
	return int(src.n), err
}

// observeLimit finds the number of bytes the reader is willing to consume for o: -1 if the reader cannot be
// made to want more than the fixed part.
func (d directFam) observeLimit(o fobj, seed int64) (limit int, p int, unitBytes []byte, enc0 []byte) {
	fixed, s, enc0, encs := d.schema(o, seed)
	_ = fixed
	g := o.hungry
	if g < 0 || g >= len(s) {
		if o.dir != "resp" || d.errHead == nil {
			return -1, 0, nil, enc0
		}
		// a fixed-size response: the only way to keep its reader reading is the error branch
		enc0 = d.errHead()
		p = len(enc0)
		unitBytes = []byte("x")
	} else {
		p = firstDiff(enc0, encs[g])
		unitBytes = encs[g][p+8 : p+8+s[g]]
	}
	immediate := func(n uint64) (bool, int) { // announced count refused on the spot?
		head := append(append([]byte(nil), enc0[:p]...), le64(n)...)
		c, _ := d.probeHungry(o, head, unitBytes)
		return c <= p+8, c
	}
	// the largest power of two that is not refused on the spot, then the largest count
	var k uint
	for k = 0; k < 40; k++ {
		if ref, _ := immediate(1 << (k + 1)); ref {
			break
		}
	}
	lo, hi := uint64(1)<<k, uint64(1)<<(k+1)
	if ref, _ := immediate(lo); ref {
		return -1, p, unitBytes, enc0
	}
	if len(unitBytes) < 2 {
		for hi-lo > 1 {
			mid := lo + (hi-lo)/2
			if ref, _ := immediate(mid); ref {
				hi = mid
			} else {
				lo = mid
			}
		}
	}
	// lo elements of ≥ 1 byte (≥ 2 bytes when lo is only a power of two) cannot fit behind the count:
	// the stream is cut off by the reader's limit
	_, consumed := immediate(lo)
	return consumed, p, unitBytes, enc0
}

// shapeLine writes a real object of the given shape with the real writer and reads it back with the real
// reader through a byte counter.
func (d directFam) shapeLine(o fobj, seed int64, n []int, fixed int, s []int, limit int, maximal bool) fline {
	obj := o.mk(rand.New(rand.NewSource(seed)), n)
	wire := d.write(o, obj)
	// the peer keeps sending after the message: a correct reader stops at the end of the message or at its limit
	src := &countReader{r: &endless{head: wire, fill: 0, max: int64(len(wire)) + 64<<20}}
	got := o.blank()
	err := d.read(o, src, got)
	same := false
	if err == nil {
		same = bytes.Equal(d.write(o, got), wire)
	}
	hi := limit + 1
	if limit < 0 {
		hi = -1
	}
	l := fline{"ev": "shape", "fam": o.fam, "obj": o.name, "dir": o.dir, "pre": 0, "m": -1, "fixed": fixed,
		"groups": groupsJSON(n, s), "enc": len(wire), "plain": len(wire), "limLo": limit, "limHi": hi,
		"accepted": err == nil, "same": same, "consumed": int(src.n), "maximal": maximal}
	if limit < 0 {
		l["limLo"] = fixed
	}
	if err != nil {
		l["err"] = err.Error()
	}
	return l
}

// runDirect produces all lines of one object of a countable family.
func (d directFam) runDirect(rec *frec, o fobj, r *rand.Rand, nRandom int) {
	seed := r.Int63()
	fixed, s, _, _ := d.schema(o, seed)
	limit, p, unitBytes, enc0 := d.observeLimit(o, seed)
	k := len(o.groups)
	add := func(n []int, maximal bool) {
		sd := r.Int63()
		nn := append([]int(nil), n...)
		rec.add(func() fline { return d.shapeLine(o, sd, nn, fixed, s, limit, maximal) })
	}
	// the protocol's maxima
	for _, m := range o.max {
		add(m, true)
	}
	if k == 0 {
		add(nil, o.max == nil)
	}
	// random smaller shapes
	for i := 0; i < nRandom && k > 0; i++ {
		n := make([]int, k)
		for j := range n {
			switch r.Intn(4) {
			case 0:
				n[j] = r.Intn(4)
			default:
				n[j] = r.Intn(o.rnd[j] + 1)
			}
		}
		add(n, false)
	}
	if limit >= 0 && k > 0 && o.hungry >= 0 {
		// the largest shape that fits and the smallest that does not, per group
		for j := 0; j < k; j++ {
			if s[j] <= 0 {
				continue
			}
			fit := (limit - fixed) / s[j]
			if fit < 0 {
				continue
			}
			n := zeros(k)
			n[j] = fit
			add(n, false)
			n[j] = fit + 1
			add(n, false)
			n[j] = fit + 1 + r.Intn(64)
			add(n, false)
			// every other distance (in elements) from the limit the model walks (EDGE records of FrameSizes.tla)
			for _, d := range edgeSlacks {
				if (d > edgeElems || d < -edgeElems) && fit*s[j] > 1<<20 {
					continue // large messages: the nearest distances only (quick tier)
				}
				if d != 0 && d != -1 && fit-d >= 0 {
					n[j] = fit - d
					add(n, false)
				}
			}
		}
		// hungry streams: announced counts of several magnitudes, never-ending elements
		for _, cnt := range []uint64{uint64(limit), uint64(limit/2 + 1), uint64(limit) + 1, 1 << 40, 1<<63 + 5} {
			head := append(append([]byte(nil), enc0[:p]...), le64(cnt)...)
			c := cnt
			rec.add(func() fline {
				consumed, err := d.probeHungry(o, head, unitBytes)
				return fline{"ev": "hungry", "fam": o.fam, "obj": o.name, "dir": o.dir, "pre": 0, "m": -1, "limLo": limit,
					"announced": fmt.Sprint(c), "consumed": consumed, "refused": err != nil}
			})
		}
	}
	// a never-ending error description read by the reader of this response
	if limit >= 0 && o.dir == "resp" && d.errHead != nil {
		eh := d.errHead()
		for _, cnt := range []uint64{uint64(limit), uint64(limit) - uint64(len(eh)) - 8, uint64(limit) + 1, 1 << 50} {
			head := append(append([]byte(nil), eh...), le64(cnt)...)
			c := cnt
			rec.add(func() fline {
				consumed, err := d.probeHungry(o, head, []byte("x"))
				return fline{"ev": "hungry", "fam": o.fam, "obj": o.name, "dir": o.dir, "pre": 0, "m": -1, "limLo": limit,
					"announced": "err:" + fmt.Sprint(c), "consumed": consumed, "refused": err != nil}
			})
		}
	}
}
