package main

import (
	"errors"
	"math/rand"

	rhp2 "go.sia.tech/core/rhp/v2"
	rhp3 "go.sia.tech/core/rhp/v3"
	"go.sia.tech/core/types"
)

// currencies with a fixed v1 encoding (8-byte length + 16 bytes)
func fixedCur(r *rand.Rand) types.Currency { return types.NewCurrency(r.Uint64(), r.Uint64()|1<<63) }
func fixedCurs(r *rand.Rand, n int) []types.Currency {
	out := make([]types.Currency, n)
	for i := range out {
		out[i] = fixedCur(r)
	}
	return out
}

const v1TxnBlob = 700

// fixedRevision always has the same encoded size.
func fixedRevision(r *rand.Rand) types.FileContractRevision {
	fc := types.FileContract{Filesize: r.Uint64() >> 10, FileMerkleRoot: rHash(r), WindowStart: uint64(r.Intn(1 << 30)), WindowEnd: uint64(r.Intn(1 << 30)),
		ValidProofOutputs: fixedOutputs(r, 2), MissedProofOutputs: fixedOutputs(r, 3), UnlockHash: rAddr(r), RevisionNumber: r.Uint64()}
	rev := types.FileContractRevision{ParentID: types.FileContractID(rHash(r)),
		UnlockConditions: types.UnlockConditions{PublicKeys: []types.UnlockKey{rUnlockKey(r), rUnlockKey(r)}, SignaturesRequired: 2}, FileContract: fc}
	var back types.FileContractRevision
	back.DecodeFrom(types.NewBufDecoder(encBytes(rev)))
	return back
}

func rTxns(r *rand.Rand, n int) []types.Transaction {
	out := make([]types.Transaction, n)
	for i := range out {
		t := types.Transaction{
			SiacoinInputs:  []types.SiacoinInput{{ParentID: types.SiacoinOutputID(rHash(r)), UnlockConditions: types.UnlockConditions{PublicKeys: []types.UnlockKey{rUnlockKey(r)}, SignaturesRequired: 1}}},
			SiacoinOutputs: []types.SiacoinOutput{{Value: fixedCur(r), Address: rAddr(r)}},
			MinerFees:      []types.Currency{fixedCur(r)},
			ArbitraryData:  [][]byte{{}},
		}
		t.ArbitraryData[0] = randBytes(r, v1TxnBlob-encLen(t))
		out[i] = t
	}
	return out
}

func fixedTxnSig(r *rand.Rand) types.TransactionSignature {
	return types.TransactionSignature{ParentID: rHash(r), PublicKeyIndex: uint64(r.Intn(3)), Timelock: uint64(r.Intn(10)),
		CoveredFields: types.CoveredFields{WholeTransaction: true}, Signature: randBytes(r, 64)}
}
func fixedTxnSigs(r *rand.Rand, n int) []types.TransactionSignature {
	out := make([]types.TransactionSignature, n)
	for i := range out {
		out[i] = fixedTxnSig(r)
	}
	return out
}

func fixedSCInputs(r *rand.Rand, n int) []types.SiacoinInput {
	out := make([]types.SiacoinInput, n)
	for i := range out {
		out[i] = types.SiacoinInput{ParentID: types.SiacoinOutputID(rHash(r)),
			UnlockConditions: types.UnlockConditions{PublicKeys: []types.UnlockKey{rUnlockKey(r)}, SignaturesRequired: 1}}
	}
	return out
}
func fixedOutputs(r *rand.Rand, n int) []types.SiacoinOutput {
	out := make([]types.SiacoinOutput, n)
	for i := range out {
		out[i] = types.SiacoinOutput{Value: fixedCur(r), Address: rAddr(r)}
	}
	return out
}

func rhp2Catalogue() []fobj {
	mk := func(name, dir string, groups []string, rnd []int, f func(r *rand.Rand, n []int) rhp2.ProtocolObject, blank func() rhp2.ProtocolObject) fobj {
		return fobj{fam: "rhp2", name: name, dir: dir, groups: groups, rnd: rnd, hungry: -1,
			mk: func(r *rand.Rand, n []int) any { return f(r, n) }, blank: func() any { return blank() }}
	}
	return []fobj{
		mk("FormContractRequest", "req", []string{"Transactions"}, []int{12}, func(r *rand.Rand, n []int) rhp2.ProtocolObject {
			return &rhp2.RPCFormContractRequest{RenterKey: rUnlockKey(r), Transactions: rTxns(r, n[0])}
		}, func() rhp2.ProtocolObject { return new(rhp2.RPCFormContractRequest) }),
		mk("RenewAndClearContractRequest", "req", []string{"Transactions", "FinalValidProofValues", "FinalMissedProofValues"}, []int{10, 3, 4}, func(r *rand.Rand, n []int) rhp2.ProtocolObject {
			return &rhp2.RPCRenewAndClearContractRequest{RenterKey: rUnlockKey(r), Transactions: rTxns(r, n[0]), FinalValidProofValues: fixedCurs(r, n[1]), FinalMissedProofValues: fixedCurs(r, n[2])}
		}, func() rhp2.ProtocolObject { return new(rhp2.RPCRenewAndClearContractRequest) }),
		mk("FormContractAdditions", "resp", []string{"Parents", "Inputs", "Outputs"}, []int{8, 8, 8}, func(r *rand.Rand, n []int) rhp2.ProtocolObject {
			return &rhp2.RPCFormContractAdditions{Parents: rTxns(r, n[0]), Inputs: fixedSCInputs(r, n[1]), Outputs: fixedOutputs(r, n[2])}
		}, func() rhp2.ProtocolObject { return new(rhp2.RPCFormContractAdditions) }),
		mk("FormContractSignatures", "resp", []string{"ContractSignatures"}, []int{10}, func(r *rand.Rand, n []int) rhp2.ProtocolObject {
			return &rhp2.RPCFormContractSignatures{RevisionSignature: fixedTxnSig(r), ContractSignatures: fixedTxnSigs(r, n[0])}
		}, func() rhp2.ProtocolObject { return new(rhp2.RPCFormContractSignatures) }),
		mk("RenewAndClearContractSignatures", "resp", []string{"ContractSignatures"}, []int{10}, func(r *rand.Rand, n []int) rhp2.ProtocolObject {
			return &rhp2.RPCRenewAndClearContractSignatures{RevisionSignature: fixedTxnSig(r), FinalRevisionSignature: rSig(r), ContractSignatures: fixedTxnSigs(r, n[0])}
		}, func() rhp2.ProtocolObject { return new(rhp2.RPCRenewAndClearContractSignatures) }),
		mk("LockRequest", "req", nil, nil, func(r *rand.Rand, n []int) rhp2.ProtocolObject {
			return &rhp2.RPCLockRequest{ContractID: types.FileContractID(rHash(r)), Signature: rSig(r), Timeout: r.Uint64()}
		}, func() rhp2.ProtocolObject { return new(rhp2.RPCLockRequest) }),
		mk("LockResponse", "resp", []string{"Signatures"}, []int{4}, func(r *rand.Rand, n []int) rhp2.ProtocolObject {
			o := &rhp2.RPCLockResponse{Acquired: r.Intn(2) == 0, Revision: fixedRevision(r)}
			r.Read(o.NewChallenge[:])
			o.Signatures = fixedTxnSigs(r, n[0])
			return o
		}, func() rhp2.ProtocolObject { return new(rhp2.RPCLockResponse) }),
		mk("ReadRequest", "req", []string{"Sections", "ValidProofValues", "MissedProofValues"}, []int{200, 3, 4}, func(r *rand.Rand, n []int) rhp2.ProtocolObject {
			o := &rhp2.RPCReadRequest{MerkleProof: r.Intn(2) == 0, RevisionNumber: r.Uint64(), Signature: rSig(r)}
			for i := 0; i < n[0]; i++ {
				o.Sections = append(o.Sections, rhp2.RPCReadRequestSection{MerkleRoot: rHash(r), Offset: uint64(r.Intn(1 << 22)), Length: uint64(r.Intn(1 << 22))})
			}
			o.ValidProofValues, o.MissedProofValues = fixedCurs(r, n[1]), fixedCurs(r, n[2])
			return o
		}, func() rhp2.ProtocolObject { return new(rhp2.RPCReadRequest) }),
		mk("ReadResponse", "resp", []string{"Data", "MerkleProof"}, []int{20000, 40}, func(r *rand.Rand, n []int) rhp2.ProtocolObject {
			return &rhp2.RPCReadResponse{Signature: rSig(r), Data: randBytes(r, n[0]), MerkleProof: randHashes(r, n[1])}
		}, func() rhp2.ProtocolObject { return new(rhp2.RPCReadResponse) }),
		mk("SectorRootsRequest", "req", []string{"ValidProofValues", "MissedProofValues"}, []int{3, 4}, func(r *rand.Rand, n []int) rhp2.ProtocolObject {
			return &rhp2.RPCSectorRootsRequest{RootOffset: r.Uint64() >> 30, NumRoots: uint64(r.Intn(1 << 16)), RevisionNumber: r.Uint64(), Signature: rSig(r),
				ValidProofValues: fixedCurs(r, n[0]), MissedProofValues: fixedCurs(r, n[1])}
		}, func() rhp2.ProtocolObject { return new(rhp2.RPCSectorRootsRequest) }),
		mk("SectorRootsResponse", "resp", []string{"SectorRoots", "MerkleProof"}, []int{3000, 40}, func(r *rand.Rand, n []int) rhp2.ProtocolObject {
			return &rhp2.RPCSectorRootsResponse{Signature: rSig(r), SectorRoots: randHashes(r, n[0]), MerkleProof: randHashes(r, n[1])}
		}, func() rhp2.ProtocolObject { return new(rhp2.RPCSectorRootsResponse) }),
		mk("SettingsResponse", "resp", []string{"Settings"}, []int{6000}, func(r *rand.Rand, n []int) rhp2.ProtocolObject {
			return &rhp2.RPCSettingsResponse{Settings: randBytes(r, n[0])}
		}, func() rhp2.ProtocolObject { return new(rhp2.RPCSettingsResponse) }),
		mk("WriteRequest", "req", []string{"Actions", "ValidProofValues", "MissedProofValues"}, []int{60, 3, 4}, func(r *rand.Rand, n []int) rhp2.ProtocolObject {
			o := &rhp2.RPCWriteRequest{MerkleProof: r.Intn(2) == 0, RevisionNumber: r.Uint64()}
			for i := 0; i < n[0]; i++ {
				o.Actions = append(o.Actions, rhp2.RPCWriteAction{Type: rSpec(r), A: r.Uint64(), B: r.Uint64(), Data: randBytes(r, 64)})
			}
			o.ValidProofValues, o.MissedProofValues = fixedCurs(r, n[1]), fixedCurs(r, n[2])
			return o
		}, func() rhp2.ProtocolObject { return new(rhp2.RPCWriteRequest) }),
		mk("WriteMerkleProof", "resp", []string{"OldSubtreeHashes", "OldLeafHashes"}, []int{200, 200}, func(r *rand.Rand, n []int) rhp2.ProtocolObject {
			return &rhp2.RPCWriteMerkleProof{NewMerkleRoot: rHash(r), OldSubtreeHashes: randHashes(r, n[0]), OldLeafHashes: randHashes(r, n[1])}
		}, func() rhp2.ProtocolObject { return new(rhp2.RPCWriteMerkleProof) }),
		mk("WriteResponse", "resp", nil, nil, func(r *rand.Rand, n []int) rhp2.ProtocolObject {
			return &rhp2.RPCWriteResponse{Signature: rSig(r)}
		}, func() rhp2.ProtocolObject { return new(rhp2.RPCWriteResponse) }),
	}
}

func rAcct3(r *rand.Rand) (a rhp3.Account) {
	r.Read(a[:])
	a[0] |= 1 // not the zero account
	return
}

func rhp3Catalogue() []fobj {
	mk := func(name, dir string, groups []string, rnd []int, f func(r *rand.Rand, n []int) rhp3.ProtocolObject, blank func() rhp3.ProtocolObject) fobj {
		return fobj{fam: "rhp3", name: name, dir: dir, groups: groups, rnd: rnd, hungry: -1,
			mk: func(r *rand.Rand, n []int) any { return f(r, n) }, blank: func() any { return blank() }}
	}
	return []fobj{
		mk("PayByEphemeralAccountRequest", "req", nil, nil, func(r *rand.Rand, n []int) rhp3.ProtocolObject {
			o := &rhp3.PayByEphemeralAccountRequest{Account: rAcct3(r), Expiry: r.Uint64(), Amount: fixedCur(r), Signature: rSig(r), Priority: r.Int63()}
			r.Read(o.Nonce[:])
			return o
		}, func() rhp3.ProtocolObject { return new(rhp3.PayByEphemeralAccountRequest) }),
		mk("PayByContractRequest", "req", []string{"ValidProofValues", "MissedProofValues"}, []int{3, 4}, func(r *rand.Rand, n []int) rhp3.ProtocolObject {
			return &rhp3.PayByContractRequest{ContractID: types.FileContractID(rHash(r)), RevisionNumber: r.Uint64(), RefundAccount: rAcct3(r), Signature: rSig(r),
				ValidProofValues: fixedCurs(r, n[0]), MissedProofValues: fixedCurs(r, n[1])}
		}, func() rhp3.ProtocolObject { return new(rhp3.PayByContractRequest) }),
		mk("PaymentResponse", "resp", nil, nil, func(r *rand.Rand, n []int) rhp3.ProtocolObject {
			return &rhp3.PaymentResponse{Signature: rSig(r)}
		}, func() rhp3.ProtocolObject { return new(rhp3.PaymentResponse) }),
		mk("UpdatePriceTableResponse", "resp", []string{"PriceTableJSON"}, []int{5000}, func(r *rand.Rand, n []int) rhp3.ProtocolObject {
			return &rhp3.RPCUpdatePriceTableResponse{PriceTableJSON: randBytes(r, n[0])}
		}, func() rhp3.ProtocolObject { return new(rhp3.RPCUpdatePriceTableResponse) }),
		mk("PriceTableResponse", "resp", nil, nil, func(r *rand.Rand, n []int) rhp3.ProtocolObject {
			return &rhp3.RPCPriceTableResponse{}
		}, func() rhp3.ProtocolObject { return new(rhp3.RPCPriceTableResponse) }),
		mk("FundAccountRequest", "req", nil, nil, func(r *rand.Rand, n []int) rhp3.ProtocolObject {
			return &rhp3.RPCFundAccountRequest{Account: rAcct3(r)}
		}, func() rhp3.ProtocolObject { return new(rhp3.RPCFundAccountRequest) }),
		mk("FundAccountResponse", "resp", nil, nil, func(r *rand.Rand, n []int) rhp3.ProtocolObject {
			return &rhp3.RPCFundAccountResponse{Balance: fixedCur(r), Signature: rSig(r),
				Receipt: rhp3.FundAccountReceipt{Host: rUnlockKey(r), Account: rAcct3(r), Amount: fixedCur(r), Timestamp: rTime(r)}}
		}, func() rhp3.ProtocolObject { return new(rhp3.RPCFundAccountResponse) }),
		mk("AccountBalanceRequest", "req", nil, nil, func(r *rand.Rand, n []int) rhp3.ProtocolObject {
			return &rhp3.RPCAccountBalanceRequest{Account: rAcct3(r)}
		}, func() rhp3.ProtocolObject { return new(rhp3.RPCAccountBalanceRequest) }),
		mk("AccountBalanceResponse", "resp", nil, nil, func(r *rand.Rand, n []int) rhp3.ProtocolObject {
			return &rhp3.RPCAccountBalanceResponse{Balance: fixedCur(r)}
		}, func() rhp3.ProtocolObject { return new(rhp3.RPCAccountBalanceResponse) }),
		mk("ExecuteProgramRequest", "req", []string{"Program", "ProgramData"}, []int{30, 4000}, func(r *rand.Rand, n []int) rhp3.ProtocolObject {
			o := &rhp3.RPCExecuteProgramRequest{FileContractID: types.FileContractID(rHash(r))}
			for i := 0; i < n[0]; i++ {
				o.Program = append(o.Program, &rhp3.InstrReadSector{LengthOffset: r.Uint64(), OffsetOffset: r.Uint64(), MerkleRootOffset: r.Uint64(), ProofRequired: r.Intn(2) == 0})
			}
			o.ProgramData = randBytes(r, n[1])
			return o
		}, func() rhp3.ProtocolObject { return new(rhp3.RPCExecuteProgramRequest) }),
		mk("ExecuteProgramResponse", "resp", []string{"Proof", "Output"}, []int{40, 4000}, func(r *rand.Rand, n []int) rhp3.ProtocolObject {
			o := &rhp3.RPCExecuteProgramResponse{AdditionalCollateral: fixedCur(r), NewMerkleRoot: rHash(r), NewSize: r.Uint64(), TotalCost: fixedCur(r), FailureRefund: fixedCur(r),
				Error: errors.New("program failed at #3")}
			o.Proof = randHashes(r, n[0])
			o.Output = randBytes(r, n[1])
			o.OutputLength = uint64(n[1])
			return o
		}, func() rhp3.ProtocolObject { return new(rhp3.RPCExecuteProgramResponse) }),
		mk("FinalizeProgramRequest", "req", []string{"ValidProofValues", "MissedProofValues"}, []int{3, 4}, func(r *rand.Rand, n []int) rhp3.ProtocolObject {
			return &rhp3.RPCFinalizeProgramRequest{Signature: rSig(r), RevisionNumber: r.Uint64(), ValidProofValues: fixedCurs(r, n[0]), MissedProofValues: fixedCurs(r, n[1])}
		}, func() rhp3.ProtocolObject { return new(rhp3.RPCFinalizeProgramRequest) }),
		mk("FinalizeProgramResponse", "resp", nil, nil, func(r *rand.Rand, n []int) rhp3.ProtocolObject {
			return &rhp3.RPCFinalizeProgramResponse{Signature: rSig(r)}
		}, func() rhp3.ProtocolObject { return new(rhp3.RPCFinalizeProgramResponse) }),
		mk("LatestRevisionRequest", "req", nil, nil, func(r *rand.Rand, n []int) rhp3.ProtocolObject {
			return &rhp3.RPCLatestRevisionRequest{ContractID: types.FileContractID(rHash(r))}
		}, func() rhp3.ProtocolObject { return new(rhp3.RPCLatestRevisionRequest) }),
		mk("LatestRevisionResponse", "resp", nil, nil, func(r *rand.Rand, n []int) rhp3.ProtocolObject {
			return &rhp3.RPCLatestRevisionResponse{Revision: fixedRevision(r)}
		}, func() rhp3.ProtocolObject { return new(rhp3.RPCLatestRevisionResponse) }),
		mk("RenewContractRequest", "req", []string{"TransactionSet"}, []int{10}, func(r *rand.Rand, n []int) rhp3.ProtocolObject {
			return &rhp3.RPCRenewContractRequest{RenterKey: rUnlockKey(r), FinalRevisionSignature: rSig(r), TransactionSet: rTxns(r, n[0])}
		}, func() rhp3.ProtocolObject { return new(rhp3.RPCRenewContractRequest) }),
		mk("RenewContractHostAdditions", "resp", []string{"Parents", "SiacoinInputs", "SiacoinOutputs"}, []int{8, 8, 8}, func(r *rand.Rand, n []int) rhp3.ProtocolObject {
			return &rhp3.RPCRenewContractHostAdditions{FinalRevisionSignature: rSig(r), Parents: rTxns(r, n[0]), SiacoinInputs: fixedSCInputs(r, n[1]), SiacoinOutputs: fixedOutputs(r, n[2])}
		}, func() rhp3.ProtocolObject { return new(rhp3.RPCRenewContractHostAdditions) }),
		mk("RenewSignatures", "resp", []string{"TransactionSignatures"}, []int{10}, func(r *rand.Rand, n []int) rhp3.ProtocolObject {
			return &rhp3.RPCRenewSignatures{RevisionSignature: fixedTxnSig(r), TransactionSignatures: fixedTxnSigs(r, n[0])}
		}, func() rhp3.ProtocolObject { return new(rhp3.RPCRenewSignatures) }),
	}
}
