// C19 — RPC framing admits all valid messages and bounds reads; transports are faithful; tampering of
// encrypted frames is detected and closes the session.
//
//	spec/net/Session.tla      one direction of an authenticated framed session with an adversary (flip a bit in
//	                          the length / nonce / body / padding / tag, truncate, extend); TLC checks the delivery
//	                          properties over all interleavings and prints every conversation with the outcome the
//	                          specification demands.  The harness applies each one with a man in the middle between
//	                          REAL RHP2 transports (requests, responses, raw responses) and compares.
//	spec/net/Handshake.tla    gateway handshake: accept iff genesis IDs match and unique IDs differ, as received;
//	                          every combination of headers and in-flight rewrites is run between real Dial/Accept.
//	spec/net/KeyExchange.tla  RHP2 key exchange with one region flipped.
//	spec/net/FrameSizes.tla   the RHP2 frame on sizes: padding rule of the writer, limit of the reader; TLC derives the
//	                          boundaries of these rules, walks every object length around them with limits on both
//	                          sides of the declared size and prints what must be on the wire and what the reader must
//	                          do; sweep.go sends real objects of exactly these lengths over real sessions in all modes.
//	                          Its EDGE records (distances from a limit) place RHP3/RHP4/gateway messages around theirs.
//	spec/net/Exchanges.tla    several RPC exchanges on one connection with the per-exchange preambles of each protocol
//	                          (alignment, order, nothing left behind); exchanges.go carries every conversation out on one
//	                          real RHP2 session / RHP3 stream / RHP4 stream / gateway stream.
//	spec/net/Calls.tla        the entry points that carry their own read limit (RHP2 Transport.Call, RHP3 Stream.Call): every
//	                          response up to the documented limit is delivered, larger ones refused; calls.go performs real Calls.
//	spec/net/Cuts.tla         a frame cut after c bytes, then the end of the connection: never delivered, session closed,
//	                          whether the reader's full read got nothing (io.EOF) or a part; cuts.go cuts real frames at
//	                          every offset on every read path and feeds every proper prefix of a message to every reader.
//	spec/net/Segments.tla     the connection as a byte queue with a nondeterministic Deliver(k): the objects read do not depend
//	                          on how the stream is cut into reads (coalesced frames, one byte at a time, cuts inside length
//	                          prefixes and MACs); TLC checks that for every segmentation and enumerates pipelined conversations
//	                          that mix the read paths with their segmentations; segments.go realises each one between the real
//	                          endpoints on a buffered in-memory connection (segconn.go) that coalesces and splits as scheduled.
//	spec/net/Reuse.tla        receiver reuse: the buffer-reusing decoder (length, capacity, reset, chunked growth) over
//	                          every sequence of data lengths, and "decoding replaces" for any receiver; reuse.go reads
//	                          real responses of these lengths into one reused real object over real RHP2/RHP3 sessions
//	                          and decodes every wire type into receivers that already hold another value.
//	spec/net/Framing.tla      the arithmetic of a limited reader (model checked);
//	spec/net/FramingTrace.tla validates what the real readers of gateway/RHP2/RHP3/RHP4 did with every RPC object at
//	                          its maximal, random, just-fitting and over-limit sizes, and with never-ending peers.
package main

import (
	"bytes"
	"encoding/json"
	"errors"
	"fmt"
	"math/rand"
	"os"
	"sort"
	"strconv"
	"strings"
	"sync"
	"time"

	rhp4 "go.sia.tech/core/rhp/v4"
	"verif/harness/vlib"
)

func parallel(workers int, jobs []func()) {
	var wg sync.WaitGroup
	ch := make(chan func())
	for i := 0; i < workers; i++ {
		wg.Add(1)
		go func() {
			defer wg.Done()
			for j := range ch {
				j()
			}
		}()
	}
	for _, j := range jobs {
		ch <- j
	}
	close(ch)
	wg.Wait()
}

func slug(s string) string {
	var b strings.Builder
	for _, ch := range strings.ToLower(s) {
		switch {
		case ch >= 'a' && ch <= 'z', ch >= '0' && ch <= '9':
			b.WriteRune(ch)
		default:
			if b.Len() > 0 && !strings.HasSuffix(b.String(), "-") {
				b.WriteByte('-')
			}
		}
	}
	return strings.Trim(b.String(), "-")
}

// ---------------------------------------------------------------------------
// sessions

type rhp2Case struct {
	Kind  string   `json:"kind"` // "rhp2"
	S     schedule `json:"schedule"`
	Dir   string   `json:"dir"`
	Raw   bool     `json:"raw"`
	Seed  int64    `json:"seed"`
	Obs   any      `json:"observed,omitempty"`
	Block int      `json:"block_wait_ms"`
}

func (rc rhp2Case) mode() string {
	if rc.Raw {
		return rc.Dir + "-raw"
	}
	return rc.Dir
}

// judgeRHP2 compares the endpoints with the specification; key "" = agreement.
func judgeRHP2(rc rhp2Case, o observation) (key, what string) {
	first := "none"
	if len(rc.S.Faults) > 0 {
		first = rc.S.Faults[0].Kind
	}
	pre := "rhp2-" + rc.mode() + "-" + first + "-"
	if rc.S.Cause == "size" && o.Wrong == "" && o.Delivered == rc.S.Delivered && o.End == "fail" {
		// the declared size was refused, as demanded. What remains is whether the transport is closed for good.
		if rc.S.End == "fail" && (!o.Closed || o.LaterRead == "delivered") {
			return "rhp2-size-refusal-not-closed", fmt.Sprintf("size refused (%s) but the session is not closed: IsClosed=%v, a later read %s", o.Err, o.Closed, map[bool]string{true: "delivered a message", false: "failed"}[o.LaterRead == "delivered"])
		}
		return "", ""
	}
	switch {
	case o.Wrong != "":
		return "rhp2-" + rc.mode() + "-altered-" + o.WrongKind, o.Wrong
	case o.Delivered > rc.S.Delivered:
		return pre + "delivered-too-much", fmt.Sprintf("delivered %d frames, the specification allows %d", o.Delivered, rc.S.Delivered)
	case o.Delivered < rc.S.Delivered:
		return pre + "delivered-too-little", fmt.Sprintf("delivered %d frames, the specification demands %d (%s)", o.Delivered, rc.S.Delivered, o.Err)
	case o.LaterRead == "delivered":
		return pre + "delivery-after-failure", "a read after the detected fault delivered a message"
	}
	switch rc.S.End {
	case "done":
		if o.End != "done" {
			return pre + "unexpected-failure", fmt.Sprintf("conversation ended with %s (%s), expected all delivered", o.End, o.Err)
		}
	case "fail":
		if o.End != "fail" {
			return pre + "fault-not-detected", fmt.Sprintf("reader ended with %q, expected a detected fault", o.End)
		}
		if !o.Closed {
			return pre + "not-closed", fmt.Sprintf("fault detected (%s) but the session does not report closed", o.Err)
		}
	case "refuse":
		if o.End != "fail" {
			return pre + "not-refused", fmt.Sprintf("reader ended with %q, expected a refusal", o.End)
		}
	case "block":
		if o.End != "block" {
			return pre + "not-starved", fmt.Sprintf("reader ended with %q (%s), expected it to wait for missing bytes", o.End, o.Err)
		}
	}
	return "", ""
}

func runRHP2(c *vlib.Ctx, rc rhp2Case, applied func(f fault, ok bool)) (key, what string, o observation) {
	o = rhp2Run(rc.S, rc.Dir, rc.Raw, rc.Seed, time.Duration(rc.Block)*time.Millisecond, applied)
	if o.Setup != "" {
		c.Infra("rhp2 %s %s: %s", rc.mode(), rc.S.key(), o.Setup)
		return
	}
	key, what = judgeRHP2(rc, o)
	return
}

// ---------------------------------------------------------------------------
// framing

type framingSel struct {
	Fam, Obj, Dir string
}

func (s framingSel) match(fam, obj, dir string) bool {
	return (s.Fam == "" || s.Fam == fam) && (s.Obj == "" || s.Obj == obj) && (s.Dir == "" || s.Dir == dir)
}

// rhp4ErrLine: an error response must come back as that error.
func rhp4ErrLine(o fobj, code uint8, desc string) fline {
	var buf bytes.Buffer
	rhp4.WriteResponse(&buf, rhp4.NewRPCError(code, desc).(*rhp4.RPCError))
	err := rhp4.ReadResponse(bytes.NewReader(buf.Bytes()), o.blank().(rhp4.Object))
	var re *rhp4.RPCError
	as := errors.As(err, &re)
	l := fline{"ev": "err", "fam": "rhp4", "obj": o.name, "dir": o.dir, "asErr": as, "codeSame": false, "descSame": false, "len": len(desc)}
	if as {
		l["codeSame"] = re.Code == code && rhp4.ErrorCode(err) == code
		l["descSame"] = re.Description == desc
	}
	return l
}

// collectFraming runs the real writers/readers over the catalogue and returns the recorded lines.
var framingPhases = map[string]float64{}

func collectFraming(c *vlib.Ctx, seed int64, sel framingSel) *frec {
	rec := newFrec()
	t0 := time.Now()
	lap := func(name string) {
		framingPhases[name] = float64(time.Since(t0).Milliseconds()) / 1000
		t0 = time.Now()
	}
	r := rand.New(rand.NewSource(seed))
	nRand := c.Pick(6, 120)
	rec.add(func() fline {
		return fline{"ev": "proto", "fam": "rhp4", "obj": "constants", "dir": "", "maxSectorBatch": int(rhp4.MaxSectorBatchSize), "maxAccountBatch": int(rhp4.MaxAccountBatchSize)}
	})
	// RHP4: plain readers, everything countable
	d := rhp4Fam
	d.errHead = func() []byte { return []byte{1, rhp4.ErrorCodeHostError} }
	var jobs []func()
	for _, o := range rhp4Catalogue() {
		o := o
		rs := rand.New(rand.NewSource(r.Int63()))
		if !sel.match(o.fam, o.name, o.dir) {
			continue
		}
		jobs = append(jobs, func() {
			d.runDirect(rec, o, rs, nRand)
			if o.dir == "resp" {
				descs := []string{"", rhp4.ErrSectorNotFound.Error(), strings.Repeat("x", 1+rs.Intn(900)), strings.Repeat("é", 1+rs.Intn(400))}
				for _, ds := range descs {
					code, ds := uint8(1+rs.Intn(6)), ds
					rec.add(func() fline { return rhp4ErrLine(o, code, ds) })
				}
				rec.add(func() fline { return rhp4ErrLine(o, 255, "unknown code") })
			}
		})
	}
	parallel(6, jobs)
	lap("rhp4")
	// RHP2: one fresh session per line
	jobs = nil
	for _, o := range rhp2Catalogue() {
		o := o
		rs := rand.New(rand.NewSource(r.Int63()))
		if !sel.match(o.fam, o.name, o.dir) {
			continue
		}
		rhp2Framing(rec, o, rs, c.Pick(2, 12), func(f func()) { jobs = append(jobs, f) })
	}
	parallel(12, jobs)
	lap("rhp2")
	// RHP3
	jobs = nil
	for _, o := range rhp3Catalogue() {
		o := o
		rs := rand.New(rand.NewSource(r.Int63()))
		if !sel.match(o.fam, o.name, o.dir) {
			continue
		}
		jobs = append(jobs, func() {
			rhp3Framing(rec, o, rs, c.Pick(2, 12), func() *rhp3Pair {
				p, err := rhp3Open(dirPlan{}, dirPlan{}, 10*time.Minute)
				if err != nil {
					c.Infra("rhp3 framing %s: %v", o.name, err)
					return nil
				}
				return p
			})
		})
	}
	parallel(8, jobs)
	lap("rhp3")
	// gateway
	jobs = nil
	for _, g := range gwCatalogue() {
		g := g
		rs := rand.New(rand.NewSource(r.Int63()))
		if !sel.match("gw", g.name, g.dir) {
			continue
		}
		res := 1
		if g.unit == "bytes" && g.weight {
			res = c.Pick(1<<16, 1)
		}
		jobs = append(jobs, func() {
			gwFraming(rec, g, rs, c.Pick(3, 20), res, func() *gwPeer {
				p, err := gwOpen(dirPlan{frames: 3}, dirPlan{frames: 3}, 10*time.Minute)
				if err != nil {
					c.Infra("gateway framing %s: %v", g.name, err)
					return nil
				}
				return p
			}, func(s string) { c.Infra("%s", s) })
		})
	}
	if sel.match("gw", "Header", "req") {
		rs := rand.New(rand.NewSource(r.Int63()))
		jobs = append(jobs, func() { gwHeaderFraming(rec, rs) })
	}
	if sel.match("gw", "Version", "req") {
		jobs = append(jobs, func() { gwVersionHungry(rec) })
	}
	parallel(6, jobs)
	lap("gateway")
	return rec
}

// validateFraming lets TLC judge the lines; returns reject records (line index, message).
type reject struct {
	idx int
	msg string
}

func validateFraming(c *vlib.Ctx, rec *frec) []reject {
	for i, l := range rec.lines {
		if s, ok := l["infra"].(string); ok {
			c.Infra("framing line %d (%v/%v/%v): %s", i+1, l["fam"], l["obj"], l["dir"], s)
		}
	}
	events := make([]map[string]any, len(rec.lines))
	for i, l := range rec.lines {
		events[i] = l
	}
	const chunk = 64
	res, err := c.TLC(vlib.TLCOpts{SpecDirs: []string{"net"}, Module: "FramingTrace", Config: "FramingTrace.cfg",
		Files: map[string][]byte{"trace.ndjson": vlib.NDJSON(events)}, Workers: 8, Timeout: 10 * time.Minute, Xss: "64m"})
	if err != nil {
		c.Fatal("framing trace validation: %v", err)
	}
	if res.Violated != "" {
		c.Fatal("framing trace spec failed to evaluate: %s", vlib.Tail(res.Out, 1500))
	}
	want := int64(1 + (len(events)+chunk-1)/chunk + len(events))
	if res.Distinct != want {
		c.Fatal("framing trace not fully consumed: %d states, expected %d\n%s", res.Distinct, want, vlib.Tail(res.Out, 800))
	}
	var out []reject
	for _, ln := range res.Lines {
		if !strings.HasPrefix(ln, "REJECT ") {
			continue
		}
		f := strings.SplitN(ln, " ", 3)
		idx, _ := strconv.Atoi(f[1])
		if len(f) < 3 || idx < 0 || idx > len(events) {
			c.Infra("bad reject line %q", ln)
			continue
		}
		out = append(out, reject{idx, f[2]})
	}
	return out
}

func sameLine(a, b fline) bool {
	ja, _ := json.Marshal(a)
	jb, _ := json.Marshal(b)
	return bytes.Equal(ja, jb)
}

// judgeFraming turns rejects into violations after re-executing the line on the real code.
func judgeFraming(c *vlib.Ctx, rec *frec, rejects []reject, seed int64) {
	for _, rj := range rejects {
		if rj.idx == 0 || strings.HasPrefix(rj.msg, "H:") {
			var l fline
			if rj.idx > 0 {
				l = rec.lines[rj.idx-1]
			}
			c.Infra("framing catalogue: line %d: %s %v", rj.idx, rj.msg, l)
			continue
		}
		l := rec.lines[rj.idx-1]
		again := rec.redo[rj.idx-1]()
		if !sameLine(l, again) {
			c.Infra("rejected framing line %d does not reproduce: %v vs %v", rj.idx, l, again)
			continue
		}
		key := fmt.Sprintf("framing-%v-%v-%v-%s", l["fam"], slug(fmt.Sprint(l["obj"])), l["dir"], slug(strings.TrimPrefix(rj.msg, "V: ")))
		if g, _ := l["groups"].([][]int); l["fam"] == "gw" && len(g) == 2 && l["maximal"] == true && strings.Contains(rj.msg, "maximal valid message refused") {
			key = "gw-weight-maximal-with-proofs-exceeds-limit" // one class: block-weight-maximal transactions carrying Merkle proofs
		}
		c.Violation(key, fmt.Sprintf("%v/%v/%v: %s: %v", l["fam"], l["obj"], l["dir"], strings.TrimPrefix(rj.msg, "V: "), l),
			map[string]any{"kind": "framing", "fam": l["fam"], "obj": l["obj"], "dir": l["dir"], "seed": seed, "line": l, "message": rj.msg})
	}
}

// ---------------------------------------------------------------------------

func parseCases[T any](c *vlib.Ctx, lines []string, tag string, conv func(map[string]any) (T, string)) map[string]T {
	out := map[string]T{}
	for _, ln := range lines {
		if !strings.HasPrefix(ln, tag+" ") {
			continue
		}
		var m map[string]any
		if err := json.Unmarshal([]byte(vlib.UnquoteTLA(strings.TrimPrefix(ln, tag+" "))), &m); err != nil {
			c.Fatal("cannot parse %s record %q: %v", tag, ln, err)
		}
		v, k := conv(m)
		if old, ok := out[k]; ok {
			jo, _ := json.Marshal(old)
			jn, _ := json.Marshal(v)
			if !bytes.Equal(jo, jn) {
				c.Fatal("specification gives two outcomes for %s case %s: %s vs %s", tag, k, jo, jn)
			}
		}
		out[k] = v
	}
	return out
}

func scheduleFromJSON(m map[string]any) (schedule, string) {
	b, _ := json.Marshal(m)
	var s schedule
	json.Unmarshal(b, &s)
	return s, s.key()
}

func main() {
	c := vlib.Start("C19")
	if c.Replay != "" {
		replay(c)
		c.Finish()
	}
	r := rand.New(rand.NewSource(c.Seed))
	phases := map[string]float64{}
	tPhase := time.Now()
	phase := func(name string) {
		phases[name] = float64(time.Since(tPhase).Milliseconds()) / 1000
		tPhase = time.Now()
	}
	c.Rule("Sessions: TLC enumerates every conversation of Session.tla (length ≤ MaxMsgs, frame kinds object/error response, ≤ 2 faults out of lenup/lendn/lenhi/nonce/body/pad/tag/trunc/ext on distinct frames) with the demanded outcome; each replayed case = one schedule on one real RHP2 transport pair in one mode (requests renter→host, responses host→renter, raw responses + VerifyTag); non-trivial = at least one fault, or ≥ 2 frames delivered. Size sweep: TLC (FrameSizes.tla) walks every encoded object length within W bytes of a boundary of the RHP2 framing rules (pad / do not pad; at / above the floor of the reader's limit) and per length the caller's limits on both sides of the declared size; one evaluation = one real object of exactly that length moved over a real transport pair in one mode (request, response, raw response), compared with the demanded wire size, verdict, identity and bytes consumed; distinct = distinct (mode, length, limit); repeats in other orders are not counted as distinct. Exchanges: TLC (Exchanges.tla) enumerates every conversation of ≤ 3 exchanges on one connection (request object or not; 1-2 responses, objects or error responses; the per-exchange preambles of the protocol) per protocol; one replayed conversation = all of it on ONE real RHP2 session / RHP3 stream / RHP4 stream / gateway stream; evaluations = exchanges completed; distinct = conversations. Cuts: TLC (Cuts.tla) walks every cut point of a padded RHP2 frame and the boundary set of a larger one; one evaluation = one real frame cut at that offset on one read path (ReadID, ReadRequest, ReadResponse, RawResponse) followed by the end of the connection, judged on delivery and on the session being closed; plus every proper prefix of one message of every wire type through its real reader (one evaluation each, one distinct per type). Calls: TLC (Calls.tla) walks the response sizes in steps up to, and byte by byte around, the documented limit of RHP2 Transport.Call and RHP3 Stream.Call; one evaluation = one real Call between real endpoints answered with a real response of exactly that size. Segmentations: TLC (Segments.tla) enumerates per lane (RHP2 host→renter behind key exchange and challenge, RHP2 renter→host, RHP4 requests, RHP4 responses, RHP3 and gateway connections) every conversation of ≤ MaxMsgs messages written back to back (read path readMessage / RawResponse+VerifyTag / ReadID+ReadRequest / plain decoder; padded or larger than one buffer; object or error response) × every segmentation of the stream (no cut; ≤ MaxCuts cuts between any two units of any part of any frame; periods down to one byte per read); one evaluation = one frame moved between real endpoints over a connection that hands the stream over in exactly these segments; distinct = (lane, conversation, segmentation); for RHP3/gateway only the periodic and cut-free ones apply (the multiplexer's packets are its own). Receiver reuse: TLC (Reuse.tla) enumerates every sequence of data lengths (≤ MaxSteps messages) for one reused and for fresh receivers; one evaluation = one real response (RHP2 RPCReadResponse through ReadResponse and through RawResponse; RHP3 ExecuteProgram response / request) read on a real session into that receiver and compared; distinct = (mode, receiver, sequence). Dirty receivers: every DIRTY case (held zero/one/few/many elements × arriving zero/one/few/many; optional set/unset; per-position variants; and, for every settable field of every type found by reflection, the zero / sentinel value arriving into a receiver holding a non-zero value and vice versa) × every registered wire type of gateway/RHP2/RHP3/RHP4: one evaluation = one real object decoded by the real decoder into a receiver holding another real object, compared with the bytes sent; non-trivial = all but (zero, zero). Handshake: every (genesis, unique id)² × in-flight rewrite of version/genesis/unique id; non-trivial = all. Framing: one line = one real object of a stated shape written by the real writer and read by the real reader (or one never-ending stream, or one error response); non-trivial = distinct (object, shape, limit) lines whose message is not empty.")
	c.Assume("in-memory net.Pipe pairs with a byte-rewriting proxy stand for the network; deadlines only classify a starved read as 'not delivered'")
	c.Assume("segmentations: a buffered in-memory byte queue per direction stands for a TCP connection (unbounded socket buffers; a read never crosses a scheduled cut; an incomplete segment is handed over only when the writer is blocked, finished or - under the multiplexer - silent for 300 µs); a unit of the model is placed on seed-chosen byte offsets of the real part; periods of 2..5 units stand for 7, 61, 1000, 4097 bytes")
	c.Assume("authentication inside go.sia.tech/mux (gateway, RHP3) is not modelled: there only end-to-end delivery and prefix-safety under a flipped bit are checked")
	c.Assume("gateway objects have no exported encoder: their wire size is mirrored from the exported encoders of the field types; acceptance is observed on the real stream reader")
	c.Assume("size sweep: an encoded length is realised by a real RPC object with one free-length byte field (Settings, Data, ArbitraryData, action data, error data/description); other field mixes of the same length are not tried")
	c.Assume("strict reading of the property: a refused (over-limit) size must also leave the transport closed (Session*.cfg RefusalCloses=TRUE; FALSE is a development switch only)")

	// ---- 1. models -------------------------------------------------------------------------------
	// the frame-size models run beside the others (independent TLC processes)
	var sizes map[string]sizeCase
	var szm *vlib.TLCResult
	var wgSizes sync.WaitGroup
	wgSizes.Add(2)
	go func() {
		defer wgSizes.Done()
		szm = c.MustTLC(vlib.TLCOpts{SpecDirs: []string{"net"}, Module: "FrameSizes", Config: "FrameSizesMC.cfg", Workers: 2})
	}()
	go func() { defer wgSizes.Done(); sizes = loadSizes(c) }()
	var reuseCases map[string]reuseCase
	var dirtyCases map[string]dirtyCase
	var reuseStates int64
	wgSizes.Add(1)
	go func() { defer wgSizes.Done(); reuseCases, dirtyCases, reuseStates = loadReuse(c) }()
	var cutCases map[string]cutCase
	var exchCases map[string]exchCase
	var cutStates, exchStates int64
	wgSizes.Add(2)
	go func() { defer wgSizes.Done(); cutCases, cutStates = loadCuts(c) }()
	go func() { defer wgSizes.Done(); exchCases, exchStates = loadExchanges(c) }()
	var callCases map[string]callCase
	wgSizes.Add(1)
	go func() { defer wgSizes.Done(); callCases = loadCalls(c) }()
	var segCases map[string]segCase
	var segStates int64
	wgSizes.Add(1)
	go func() { defer wgSizes.Done(); segCases, segStates = loadSegments(c) }()
	fm := c.MustTLC(vlib.TLCOpts{SpecDirs: []string{"net"}, Module: "Framing", Config: "Framing.cfg", Workers: 8})
	c.Cov("framing_model_states", fm.Distinct)
	sessCfgs := []string{"Session3.cfg"} // ≤ 3 frames, ≤ 2 faults
	if c.Thorough {
		sessCfgs = []string{"Session5.cfg", "Session4F3.cfg"} // ≤ 5 frames with ≤ 2 faults; ≤ 4 frames with ≤ 3 faults
	}
	scheds := map[string]schedule{}
	for _, cfg := range sessCfgs {
		sm := c.MustTLC(vlib.TLCOpts{SpecDirs: []string{"net"}, Module: "Session", Config: cfg, Workers: 8, Timeout: 10 * time.Minute})
		for k, v := range parseCases(c, sm.Lines, "CASE", scheduleFromJSON) {
			scheds[k] = v
		}
	}
	hm := c.MustTLC(vlib.TLCOpts{SpecDirs: []string{"net"}, Module: "Handshake", Config: "Handshake.cfg", Workers: 8})
	hss := parseCases(c, hm.Lines, "HS", func(m map[string]any) (hsCase, string) { h := hsFromJSON(m); h.Raw = nil; return h, h.key() })
	km := c.MustTLC(vlib.TLCOpts{SpecDirs: []string{"net"}, Module: "KeyExchange", Config: "KeyExchange.cfg", Workers: 2})
	type kxCase struct {
		Region  string
		Session bool
	}
	kxs := parseCases(c, km.Lines, "KX", func(m map[string]any) (kxCase, string) {
		k := kxCase{Region: fmt.Sprint(m["region"])}
		k.Session, _ = m["session"].(bool)
		return k, k.Region
	})
	wgSizes.Wait()
	c.Cov("frame_size_model_states", szm.Distinct)
	c.Cov("reuse_model_states", reuseStates)
	c.Cov("cut_model_states", cutStates)
	c.Cov("cut_cases_enumerated", len(cutCases))
	c.Cov("exchange_model_states", exchStates)
	c.Cov("segmentation_model_states", segStates)
	c.Cov("segmentation_cases_enumerated", len(segCases))
	c.Cov("exchange_conversations_enumerated", len(exchCases))
	c.Cov("reuse_sequences_enumerated", len(reuseCases))
	c.Cov("dirty_receiver_cases_enumerated", len(dirtyCases))
	c.Cov("size_cases_enumerated", len(sizes))
	c.Cov("limit_slacks_enumerated", edgeSlacks)
	c.Cov("session_cases_enumerated", len(scheds))
	c.Cov("handshake_cases_enumerated", len(hss))
	if len(scheds) < 1000 || len(hss) < 1000 || len(kxs) != 6 {
		c.Fatal("specifications enumerated too few cases: %d schedules, %d handshakes, %d key exchanges", len(scheds), len(hss), len(kxs))
	}

	phase("models")
	// ---- 2. sessions on the real transports -------------------------------------------------------
	var mu sync.Mutex
	var evals, nontriv int64
	appliedKinds := map[string]int{} // fault kind -> times really applied to a frame
	emptyRegion := map[string]int{}  // pad faults on frames without padding etc.
	endsSeen := map[string]int{}     // mode/end -> count
	transports := map[string]int{}   // transport -> conversations
	keys := make([]string, 0, len(scheds))
	for k := range scheds {
		keys = append(keys, k)
	}
	sort.Strings(keys)
	r.Shuffle(len(keys), func(i, j int) { keys[i], keys[j] = keys[j], keys[i] })
	// every fault-free conversation first, then one schedule per (first fault, second fault / none, end) class,
	// then the rest in random order
	class := func(s schedule) string {
		c := s.End
		for _, f := range s.Faults {
			c += "/" + f.Kind
		}
		return c
	}
	seenClass := map[string]bool{}
	rank := map[string]int{}
	for _, k := range keys {
		s := scheds[k]
		switch cl := class(s); {
		case len(s.Faults) == 0:
			rank[k] = 0
		case !seenClass[cl]:
			seenClass[cl] = true
			rank[k] = 1
		default:
			rank[k] = 2
		}
	}
	sort.SliceStable(keys, func(i, j int) bool { return rank[keys[i]] < rank[keys[j]] })
	modes := []struct {
		dir string
		raw bool
	}{{"r2h", false}, {"h2r", false}, {"h2r", true}}
	var fast, slow []func()
	budget := c.Pick(330, 1<<30) // schedules per mode (quick)
	maxBlock := c.Pick(4, 1<<30) // starved reads per mode (quick): each waits for its deadline
	blockWait := c.Pick(2000, 2500)
	for _, md := range modes {
		md := md
		nb, n := 0, 0
		seenR2H := map[string]bool{}
		for _, k := range keys {
			s := scheds[k]
			if md.dir == "r2h" {
				// requests carry no error responses: schedules that differ only in kinds coincide
				kk := fmt.Sprintf("%d-%v", s.K, s.Faults)
				if seenR2H[kk] {
					continue
				}
				seenR2H[kk] = true
			}
			if s.End == "block" {
				if nb >= maxBlock {
					continue
				}
				nb++
			} else if n >= budget {
				continue
			}
			n++
			rc := rhp2Case{Kind: "rhp2", S: s, Dir: md.dir, Raw: md.raw, Seed: r.Int63(), Block: blockWait}
			job := func() {
				key, what, o := runRHP2(c, rc, func(f fault, ok bool) {
					mu.Lock()
					if ok {
						appliedKinds[f.Kind]++
					} else {
						emptyRegion[f.Kind]++
					}
					mu.Unlock()
				})
				mu.Lock()
				evals++
				if len(rc.S.Faults) > 0 || o.Delivered >= 2 {
					nontriv++
				}
				endsSeen[rc.mode()+"/"+rc.S.End]++
				transports["rhp2-"+rc.mode()]++
				mu.Unlock()
				if key != "" {
					rc.Obs = o
					c.Violation(key, fmt.Sprintf("RHP2 %s, schedule %s: %s", rc.mode(), rc.S.key(), what), rc)
				}
			}
			if s.End == "block" {
				slow = append(slow, job)
			} else {
				fast = append(fast, job)
			}
		}
	}
	c.Sample(map[string]any{"schedule": scheds[keys[0]], "applied_to": "rhp2 r2h / h2r / h2r-raw"})
	var wgSlow sync.WaitGroup
	wgSlow.Add(1)
	go func() { defer wgSlow.Done(); parallel(48, slow) }() // these sleep on a deadline
	parallel(8, fast)

	phase("rhp2_fault_schedules")
	// size sweep of the RHP2 framing (FrameSizes.tla) over real sessions
	sw := runSweep(c, sizes, r)
	phase("rhp2_size_sweep")
	// receiver reuse (Reuse.tla): sequences into one receiver over real sessions; every wire type into a dirty receiver
	ru := runReuse(c, reuseCases, r)
	dt := runDirty(c, dirtyCases, r)
	st := runScalars(c, dirtyCases, r)
	dt.evals, dt.distinct = dt.evals+st.evals, dt.distinct+st.distinct
	selftestReuse(c)
	phase("receiver_reuse")
	// several exchanges on one connection (Exchanges.tla); frames cut in transit (Cuts.tla)
	xt := runExchanges(c, exchCases, r)
	phase("exchanges_on_one_connection")
	ct := runCuts(c, cutCases, r)
	selftestCuts(c)
	phase("cut_frames")
	// the entry points with their own read limit (Calls.tla)
	kt := runCalls(c, callCases, r)
	phase("calls_with_own_limit")
	// the stream cut into reads at arbitrary points (Segments.tla)
	gt := runSegments(c, segCases, r)
	selftestSegments(c, segCases)
	phase("segmentations")

	// handshakes
	hkeys := make([]string, 0, len(hss))
	for k := range hss {
		hkeys = append(hkeys, k)
	}
	sort.Strings(hkeys)
	r.Shuffle(len(hkeys), func(i, j int) { hkeys[i], hkeys[j] = hkeys[j], hkeys[i] })
	nh := c.Pick(500, len(hkeys))
	// keep every untouched header combination and a share of the established ones in the sample
	sort.SliceStable(hkeys, func(i, j int) bool {
		a, b := hss[hkeys[i]], hss[hkeys[j]]
		ra := a.GDA+a.UDA+a.GAD+a.UAD+a.VDA+a.VAD == 0
		rb := b.GDA+b.UDA+b.GAD+b.UAD+b.VDA+b.VAD == 0
		return ra && !rb
	})
	var hsOK, hsRej, hsVer int64
	var hjobs []func()
	for _, k := range hkeys[:nh] {
		h := hss[k]
		hjobs = append(hjobs, func() {
			o := hsReplay(h)
			mu.Lock()
			evals++
			nontriv++
			transports["gateway-handshake"]++
			if h.Ok {
				hsOK++
			} else {
				hsRej++
			}
			if h.VDA+h.VAD > 0 && h.Ok {
				hsVer++
			}
			mu.Unlock()
			if d := hsCompare(h, o); d != "" {
				cls := "accept"
				if !h.Ok {
					cls = "reject"
				}
				over := func(v, r int) int {
					if r != 0 {
						return r
					}
					return v
				}
				what := "unique-id"
				switch {
				case h.Ok && (o.DialOK && o.AcceptOK):
					what = "recorded-peer"
				case over(h.Gd, h.GDA) != h.Ga || over(h.Ga, h.GAD) != h.Gd:
					what = "genesis" // a genesis id, as received, differs
				}
				c.Violation("gateway-handshake-"+cls+"-"+what, fmt.Sprintf("gateway handshake %s: %s", h.key(), d),
					map[string]any{"kind": "handshake", "case": h, "observed": o})
			}
		})
	}
	parallel(8, hjobs)
	c.Sample(map[string]any{"handshake": hss[hkeys[0]]})
	// RHP2 key exchange
	for _, k := range kxs {
		for i := 0; i < c.Pick(4, 40); i++ {
			sd := r.Int63()
			got, infra := kxRun(k.Region, sd)
			if infra != "" {
				c.Infra("key exchange %s: %s", k.Region, infra)
				continue
			}
			evals++
			nontriv++
			transports["rhp2-keyexchange"]++
			if got != k.Session {
				c.Violation("rhp2-keyexchange-"+k.Region, fmt.Sprintf("RHP2 key exchange with region %s flipped: renter session=%v, specification says %v", k.Region, got, k.Session),
					map[string]any{"kind": "kx", "region": k.Region, "seed": sd})
			}
		}
	}
	// end-to-end conversations over the multiplexed transports: without faults everything arrives
	// (NoFaultAllDelivered); with one flipped bit on the wire whatever arrives is an unaltered prefix (PrefixInOrder)
	var cjobs []func()
	conv := func(name string, run func(int, int64, flipPlan) convObs, k int, f flipPlan) {
		sd := r.Int63()
		cjobs = append(cjobs, func() {
			o := run(k, sd, f)
			mu.Lock()
			evals++
			if o.Delivered >= 2 || f.On {
				nontriv++
			}
			tag := name
			if f.On {
				tag += "-flip"
			}
			transports[tag]++
			mu.Unlock()
			payload := map[string]any{"kind": "conv", "transport": name, "k": k, "seed": sd, "flip": f, "observed": o}
			switch {
			case o.Infra != "":
				c.Infra("%s conversation: %s", name, o.Infra)
			case o.Wrong != "":
				c.Violation(name+"-altered-delivery", name+": "+o.Wrong, payload)
			case !f.On && o.Delivered != k:
				c.Violation(name+"-lost-delivery", fmt.Sprintf("%s: %d of %d exchanges completed without any fault: %s", name, o.Delivered, k, o.Stop), payload)
			}
		})
	}
	for i := 0; i < c.Pick(12, 300); i++ {
		conv("gateway", gwConversation, 1+r.Intn(c.Pick(5, 8)), flipPlan{})
		conv("rhp3", rhp3Conversation, 1+r.Intn(c.Pick(5, 8)), flipPlan{})
	}
	for i := 0; i < c.Pick(5, 150); i++ {
		dir := []string{"ab", "ba"}[r.Intn(2)]
		conv("gateway", gwConversation, 3+r.Intn(3), flipPlan{On: true, Dir: dir, Off: int64(r.Intn(30000))})
		conv("rhp3", rhp3Conversation, 3+r.Intn(3), flipPlan{On: true, Dir: dir, Off: int64(r.Intn(30000))})
		// the multiplexed connection cut at some offset: whatever arrives is an unaltered prefix
		conv("gateway", gwConversation, 3+r.Intn(3), flipPlan{On: true, Cut: true, Dir: dir, Off: int64(r.Intn(30000))})
		conv("rhp3", rhp3Conversation, 3+r.Intn(3), flipPlan{On: true, Cut: true, Dir: dir, Off: int64(r.Intn(30000))})
	}
	parallel(8, cjobs)
	wgSlow.Wait()
	c.Traces(evals + sw.sessions + ru.sessions + xt.sessions + ct.sessions + kt.sessions + gt.sessions)
	phase("handshakes_keyexchange_conversations")

	// vacuity guards: sessions
	for _, k := range []string{"lenup", "lendn", "lenhi", "nonce", "body", "pad", "tag", "trunc", "ext"} {
		if appliedKinds[k] == 0 {
			c.Infra("vacuity: fault kind %s was never applied to a frame in flight", k)
		}
	}
	endsInSpec := map[string]bool{}
	for _, s := range scheds {
		endsInSpec[s.End] = true
	}
	for _, md := range []string{"r2h", "h2r", "h2r-raw"} {
		for _, e := range []string{"done", "fail", "refuse", "block"} {
			if endsInSpec[e] && endsSeen[md+"/"+e] == 0 {
				c.Infra("vacuity: no %s conversation with expected end %q", md, e)
			}
		}
	}
	for _, t := range []string{"rhp2-r2h", "rhp2-h2r", "rhp2-h2r-raw", "gateway-handshake", "rhp2-keyexchange", "gateway", "rhp3", "gateway-flip", "rhp3-flip"} {
		if transports[t] == 0 {
			c.Infra("vacuity: transport %s not exercised", t)
		}
	}
	if hsOK == 0 || hsRej == 0 || hsVer == 0 {
		c.Infra("vacuity: handshake sample has %d accepted, %d rejected, %d accepted with rewritten version", hsOK, hsRej, hsVer)
	}
	c.Cov("fault_kinds_applied", appliedKinds)
	c.Cov("fault_region_empty", emptyRegion)
	c.Cov("expected_ends", endsSeen)
	c.Cov("transports", transports)
	c.Cov("handshakes", map[string]int64{"accepted": hsOK, "rejected": hsRej, "accepted_with_rewritten_version": hsVer})

	// ---- 3. framing ------------------------------------------------------------------------------
	fseed := r.Int63()
	rec := collectFraming(c, fseed, framingSel{})
	phase("framing_collection")
	rejects := validateFraming(c, rec)
	judgeFraming(c, rec, rejects, fseed)
	c.Traces(1)
	selftest(c, rec, scheds)
	selftestSizes(c, sizes)
	phase("framing_validation_selftests")
	c.Cov("phase_wall_s", phases)
	c.Cov("framing_collection_wall_s", framingPhases)
	distinct := map[string]bool{}
	for _, l := range rec.lines {
		if enc, _ := l["enc"].(int); l["ev"] == "shape" && enc == 0 {
			continue
		}
		b, _ := json.Marshal(l)
		distinct[string(b)] = true
	}
	c.Count(evals+sw.evals+ru.evals+dt.evals+xt.evals+ct.evals+kt.evals+gt.evals+int64(len(rec.lines)), nontriv+sw.distinct+ru.distinct+dt.distinct+xt.distinct+ct.distinct+kt.distinct+gt.distinct+int64(len(distinct)))
	objs := make([]string, 0, len(rec.objs))
	perFam := map[string]int{}
	for o := range rec.objs {
		objs = append(objs, o)
		perFam[strings.SplitN(o, "/", 2)[0]]++
	}
	sort.Strings(objs)
	limits := map[string]any{}
	for _, l := range rec.lines {
		if l["ev"] == "shape" && l["fam"] != "rhp2" && l["fam"] != "rhp3" {
			limits[fmt.Sprintf("%v/%v/%v", l["fam"], l["obj"], l["dir"])+fmt.Sprint(l["param"])] = []any{l["limLo"], l["limHi"]}
		}
	}
	c.Cov("observed_limits", limits)
	if c.Thorough || os.Getenv("C19_STRESS") != "" {
		c.Cov("gateway_weight_maximal_with_merkle_proofs_info", gwStress(fseed, func() *gwPeer {
			p, err := gwOpen(dirPlan{frames: 3}, dirPlan{frames: 3}, 5*time.Minute)
			if err != nil {
				return nil
			}
			return p
		}))
	}
	c.Cov("framing_lines", len(rec.lines))
	c.Cov("framing_objects", objs)
	c.Cov("framing_objects_per_family", perFam)
	c.Cov("framing_over_limit_refusals", rec.over)
	c.Cov("framing_objects_at_protocol_maximum", len(rec.maxed))
	for _, fam := range []string{"rhp4", "rhp2", "rhp3", "gw"} {
		if rec.over[fam] == 0 {
			c.Infra("vacuity: no over-limit refusal observed for family %s", fam)
		}
	}
	for fam, want := range map[string]int{"rhp4": 45, "rhp2": 15, "rhp3": 18, "gw": 14} {
		if perFam[fam] < want {
			c.Infra("vacuity: only %d object types of family %s covered (want ≥ %d)", perFam[fam], fam, want)
		}
	}
	for i, l := range rec.lines {
		if l["ev"] == "shape" && l["maximal"] == true {
			c.Sample(l)
			_ = i
			break
		}
	}
	c.Finish()
}

// selftest corrupts the expected side and demands that the machinery notices: (i) one logged field of an
// accepted maximal framing line, (ii) the demanded outcome of one schedule. Nothing here produces a verdict.
func selftest(c *vlib.Ctx, rec *frec, scheds map[string]schedule) {
	sub := newFrec()
	target := -1
	for i, l := range rec.lines {
		if len(sub.lines) >= 150 {
			break
		}
		cp := fline{}
		for k, v := range l {
			cp[k] = v
		}
		if target < 0 && l["ev"] == "shape" && l["maximal"] == true && l["accepted"] == true {
			if enc, _ := l["enc"].(int); enc > 100 {
				cp["consumed"] = enc + 1 // one byte more than the message
				if l["consumed"] == -1 {
					cp["accepted"] = false
				}
				target = len(sub.lines)
			}
		}
		sub.lines = append(sub.lines, cp)
		sub.redo = append(sub.redo, rec.redo[i])
	}
	okFraming := false
	if target >= 0 {
		for _, rj := range validateFraming(c, sub) {
			if rj.idx == target+1 && strings.HasPrefix(rj.msg, "V:") {
				okFraming = true
			}
		}
	}
	okSession := false
	for _, s := range scheds {
		if s.End == "done" && s.K >= 2 {
			rc := rhp2Case{Kind: "rhp2", S: s, Dir: "h2r", Seed: 99, Block: 2000}
			_, _, o := runRHP2(c, rc, nil)
			keyGood, _ := judgeRHP2(rc, o)
			rc.S.Delivered-- // the specification now "demands" one frame less
			rc.S.End = "fail"
			keyBad, _ := judgeRHP2(rc, o)
			okSession = keyGood == "" && keyBad != ""
			break
		}
	}
	c.Cov("selftest", map[string]bool{"corrupted_framing_line_rejected": okFraming, "corrupted_schedule_expectation_noticed": okSession})
	if !okFraming || !okSession {
		c.Infra("selftest: corrupted framing line rejected=%v, corrupted schedule expectation noticed=%v", okFraming, okSession)
	}
}

// replay re-executes one saved case.
func replay(c *vlib.Ctx) {
	b, err := os.ReadFile(c.Replay)
	if err != nil {
		c.Fatal("cannot read replay file: %v", err)
	}
	var f struct {
		Key  string          `json:"key"`
		Case json.RawMessage `json:"case"`
	}
	if err := json.Unmarshal(b, &f); err != nil {
		c.Fatal("cannot parse replay file: %v", err)
	}
	var kind struct {
		Kind string `json:"kind"`
	}
	json.Unmarshal(f.Case, &kind)
	switch kind.Kind {
	case "rhp2":
		var rc rhp2Case
		json.Unmarshal(f.Case, &rc)
		rc.Obs = nil
		key, what, o := runRHP2(c, rc, nil)
		fmt.Printf("replay rhp2 %s %s: observed %+v\n", rc.mode(), rc.S.key(), o)
		if key != "" {
			rc.Obs = o
			c.Violation(key, what, rc)
		}
	case "call":
		var run callRun
		json.Unmarshal(f.Case, &run)
		run.Obs = nil
		o, _ := runCallCase(c, run, func() *rhp3Pair {
			p, err := rhp3Open(dirPlan{}, dirPlan{}, 40*time.Second)
			if err != nil {
				c.Fatal("rhp3: %v", err)
			}
			return p
		})
		fmt.Printf("replay call %s: observed %+v\n", run.Case.key(), o)
	case "exchanges":
		var run exchRun
		json.Unmarshal(f.Case, &run)
		run.Obs = nil
		o, _ := runExchangeCase(c, run)
		fmt.Printf("replay exchanges %s: observed %+v\n", run.Case.key(), o)
	case "segment":
		var run segRun
		json.Unmarshal(f.Case, &run)
		run.Obs = nil
		o, _ := runSegmentCase(c, run)
		fmt.Printf("replay segmentation %s: observed %+v\n", run.Case.key(), o)
	case "cut":
		var run cutRun
		json.Unmarshal(f.Case, &run)
		run.Obs = nil
		o, _ := runCutCase(c, run)
		fmt.Printf("replay cut %s %s: observed %+v\n", run.Path, run.Case.key(), o)
	case "reuse":
		var run reuseRun
		json.Unmarshal(f.Case, &run)
		run.Steps = nil
		runReuseCase(c, run, func(run reuseRun, st reuseStep) {
			fmt.Printf("replay receiver reuse %s %s: %+v\n", run.Mode, run.Case.key(), st)
		})
	case "scalar":
		var o scalarObs
		json.Unmarshal(f.Case, &o)
		for _, cd := range allCodecs() {
			if cd.fam == o.Fam && cd.name == o.Obj && cd.dir == o.Dir {
				again := scalarDecode(cd, o.Path, strings.HasPrefix(o.Case, "scalar-zero-"), strings.HasSuffix(o.Case, "-zero"), o.Seed)
				fmt.Printf("replay single field %s/%s/%s %s %s: %+v\n", o.Fam, o.Obj, o.Dir, o.Field, o.Case, again)
				judgeScalar(c, again)
			}
		}
	case "dirty":
		var o dirtyObs
		json.Unmarshal(f.Case, &o)
		parts := strings.SplitN(o.Case, "-", 3)
		found := false
		for _, cd := range allCodecs() {
			if cd.fam == o.Fam && cd.name == o.Obj && cd.dir == o.Dir && len(parts) == 3 {
				found = true
				again := dirtyDecode(cd, dirtyCase{Kind: parts[0], Prev: parts[1], New: parts[2]}, o.Seed)
				fmt.Printf("replay dirty receiver %s/%s/%s %s: %+v\n", o.Fam, o.Obj, o.Dir, o.Case, again)
				judgeDirty(c, again)
			}
		}
		if !found {
			c.Fatal("unknown wire type %s/%s/%s", o.Fam, o.Obj, o.Dir)
		}
	case "size":
		var ss sweepSession
		json.Unmarshal(f.Case, &ss)
		ss.Obs = nil
		n := 0
		runSweepSession(c, ss, func(mode string, sm sweepMsg, o sweepObs) {
			n++
			fmt.Printf("replay size %s %s: observed %+v\n", mode, sm.C.key(), o)
		})
		fmt.Printf("replay size sweep session (%s): %d messages reached\n", ss.Mode, n)
	case "handshake":
		var p struct {
			Case hsCase `json:"case"`
		}
		json.Unmarshal(f.Case, &p)
		o := hsReplay(p.Case)
		fmt.Printf("replay handshake %s: observed %+v\n", p.Case.key(), o)
		if d := hsCompare(p.Case, o); d != "" {
			c.Violation(f.Key, d, map[string]any{"kind": "handshake", "case": p.Case, "observed": o})
		}
	case "kx":
		var p struct {
			Region string `json:"region"`
			Seed   int64  `json:"seed"`
		}
		json.Unmarshal(f.Case, &p)
		got, infra := kxRun(p.Region, p.Seed)
		if infra != "" {
			c.Fatal("key exchange: %s", infra)
		}
		fmt.Printf("replay key exchange %s: session=%v\n", p.Region, got)
		if got != (p.Region == "none") {
			c.Violation(f.Key, "renter session over a modified key exchange", p)
		}
	case "conv":
		var p struct {
			Transport string   `json:"transport"`
			K         int      `json:"k"`
			Seed      int64    `json:"seed"`
			Flip      flipPlan `json:"flip"`
		}
		json.Unmarshal(f.Case, &p)
		run := gwConversation
		if p.Transport == "rhp3" {
			run = rhp3Conversation
		}
		o := run(p.K, p.Seed, p.Flip)
		fmt.Printf("replay %s conversation: observed %+v\n", p.Transport, o)
		if o.Wrong != "" || (!p.Flip.On && o.Delivered != p.K && o.Infra == "") {
			c.Violation(f.Key, o.Wrong+o.Stop, p)
		}
	case "framing":
		var p struct {
			Fam, Obj, Dir string
			Seed          int64
		}
		json.Unmarshal(f.Case, &p)
		loadSizes(c) // the slacks around the limits come from the model
		rec := collectFraming(c, p.Seed, framingSel{p.Fam, p.Obj, p.Dir})
		rejects := validateFraming(c, rec)
		var keep []reject
		for _, rj := range rejects {
			if rj.idx != 0 { // the coverage check does not apply to a selection
				keep = append(keep, rj)
			}
		}
		fmt.Printf("replay framing %s/%s/%s: %d lines, %d rejected\n", p.Fam, p.Obj, p.Dir, len(rec.lines), len(keep))
		judgeFraming(c, rec, keep, p.Seed)
	default:
		c.Fatal("unknown replay kind %q", kind.Kind)
	}
}
