package main

// Frames cut in transit (spec/net/Cuts.tla): the first c bytes of a frame arrive, then the connection ends. TLC walks
// every cut point of a padded RHP2 frame and the boundary set (every point at which the reader starts a full read ± 1,
// the region edges ± 1) of a larger one; each CUT record says what the specification demands (nothing delivered, the
// session closed). The harness cuts a real frame between real transports at exactly that offset on every read path
// (ReadID, ReadRequest, ReadResponse, RawResponse+VerifyTag). The same rule - every proper prefix of a message followed
// by the end of the stream is refused - is applied to every registered wire type through its real reader / decoder.

import (
	"bytes"
	"encoding/json"
	"fmt"
	"io"
	"math/rand"
	"sync"
	"time"

	rhp2 "go.sia.tech/core/rhp/v2"
	"go.sia.tech/core/types"
	"verif/harness/vlib"
)

type cutCase struct {
	Total     int    `json:"total"`
	Cut       int    `json:"cut"`
	Region    string `json:"region"`
	How       string `json:"how"` // what the reader's full read sees: "eof" (nothing) | "short" (a part)
	Delivered bool   `json:"delivered"`
	Closed    bool   `json:"closed"`
}

func (cc cutCase) key() string { return fmt.Sprintf("t%d-c%d", cc.Total, cc.Cut) }

func loadCuts(c *vlib.Ctx) (map[string]cutCase, int64) {
	mc := c.MustTLC(vlib.TLCOpts{SpecDirs: []string{"net"}, Module: "Cuts", Config: "CutsMC.cfg", Workers: 2})
	cfg := "Cuts.cfg"
	if c.Thorough {
		cfg = "CutsWide.cfg"
	}
	res := c.MustTLC(vlib.TLCOpts{SpecDirs: []string{"net"}, Module: "Cuts", Config: cfg, Workers: 4})
	cuts := parseCases(c, res.Lines, "CUT", func(m map[string]any) (cutCase, string) {
		b, _ := json.Marshal(m)
		var cc cutCase
		json.Unmarshal(b, &cc)
		return cc, cc.key()
	})
	padded, eof, regions := 0, 0, map[string]int{}
	for _, cc := range cuts {
		if cc.Total == 4096 {
			padded++
		}
		if cc.How == "eof" {
			eof++
		}
		regions[cc.Region]++
		if cc.Delivered || !cc.Closed {
			c.Fatal("Cuts.tla: CUT record %+v", cc)
		}
	}
	if padded != 4095 || eof < 100 || len(regions) != 4 {
		c.Fatal("Cuts.tla enumerated too little: %d cut points of a padded frame, %d at the start of a read, regions %v", padded, eof, regions)
	}
	return cuts, mc.Distinct
}

type cutRun struct {
	Kind string  `json:"kind"` // "cut"
	Path string  `json:"path"` // r2h-id | r2h-req | h2r | h2r-raw
	Case cutCase `json:"case"`
	Seed int64   `json:"seed"`
	Obs  *cutObs `json:"observed,omitempty"`
}

type cutObs struct {
	FrameLen  int    `json:"frame_len"` // bytes of the frame as written (prefix included)
	Failed    bool   `json:"failed"`    // the read returned an error
	Delivered bool   `json:"delivered"`
	Closed    bool   `json:"closed"`     // IsClosed() after the read
	Premature bool   `json:"premature"`  // PrematureCloseErr() != nil after the read
	LaterRead string `json:"later_read"` // one more read: "error" | "delivered"
	Err       string `json:"err,omitempty"`
	Timeout   bool   `json:"timeout,omitempty"`
	Setup     string `json:"setup,omitempty"`
}

// rhp2Cut cuts one real frame at run.Case.Cut bytes and ends the connection.
func rhp2Cut(run cutRun) (o cutObs) {
	r := rand.New(rand.NewSource(run.Seed))
	dir := "h2r"
	if run.Path == "r2h-id" || run.Path == "r2h-req" {
		dir = "r2h"
	}
	// the object: any size that is padded to the minimum for a 4096-byte frame, the exact size otherwise
	p := run.Case.Total - 36
	if run.Case.Total == 4096 {
		p = 300 + r.Intn(3700)
	}
	var m rhp2Msg
	if run.Path != "r2h-id" {
		var ok bool
		if m, _, ok = sized(dir, p, r.Intn(4), r.Int63()); !ok {
			o.Setup = fmt.Sprintf("no %s object of %d bytes", dir, p)
			return
		}
	} else {
		r.Read(m.id[:])
		m.id[0] |= 1
	}
	target := 1
	if run.Path == "r2h-req" {
		target = 2
	}
	plan := dirPlan{frames: -1, closeAfter: target, rewrite: func(idx int, frame []byte) []byte {
		if idx != target {
			return frame
		}
		o.FrameLen = len(frame)
		if run.Case.Cut < len(frame) {
			return frame[:run.Case.Cut]
		}
		return frame
	}}
	var ab, ba dirPlan
	if dir == "r2h" {
		plan.skip = rhp2ReqSkip
		ab = plan
	} else {
		plan.skip = rhp2RespSkip
		ba = plan
	}
	l := newLink("10.1.0.1:4001", "10.2.0.2:9982", ab, ba, 40*time.Second)
	defer l.Close()
	var ht *rhp2.Transport
	var herr error
	var wg sync.WaitGroup
	wg.Add(1)
	go func() {
		defer wg.Done()
		ht, herr = rhp2.NewHostTransport(l.B, rhp2HostKey)
	}()
	rt, rerr := rhp2.NewRenterTransport(l.A, rhp2HostKey.PublicKey())
	wg.Wait()
	if rerr != nil || herr != nil {
		o.Setup = fmt.Sprintf("handshake: renter %v, host %v", rerr, herr)
		return
	}
	writer, reader := rt, ht
	if dir == "h2r" {
		writer, reader = ht, rt
	}
	go func() {
		switch {
		case run.Path == "r2h-id":
			writer.WriteRequest(m.id, nil)
		case dir == "r2h":
			writer.WriteRequest(m.id, m.obj)
		case m.err != nil:
			writer.WriteResponseErr(m.err)
		default:
			writer.WriteResponse(m.obj)
		}
	}()
	reader.SetReadDeadline(time.Now().Add(15 * time.Second))
	var err error
	const maxLen = 1 << 20
	switch run.Path {
	case "r2h-id":
		_, err = reader.ReadID()
	case "r2h-req":
		if _, err = reader.ReadID(); err != nil {
			o.Setup = "the intact id frame was not read: " + err.Error()
			return
		}
		err = reader.ReadRequest(m.blank(), maxLen)
	case "h2r":
		err = reader.ReadResponse(m.blank(), maxLen)
		if re := new(rhp2.RPCError); m.err != nil && errorsAs(err, &re) {
			err = nil // the error response was delivered
		}
	default:
		var rr *rhp2.ResponseReader
		rr, err = reader.RawResponse(maxLen)
		if re := new(rhp2.RPCError); m.err != nil && errorsAs(err, &re) {
			err = nil
		} else if err == nil {
			io.Copy(io.Discard, rr)
			err = rr.VerifyTag()
		}
	}
	o.Failed, o.Delivered = err != nil, err == nil
	if err != nil {
		o.Err, o.Timeout = err.Error(), isTimeout(err)
	}
	o.Closed, o.Premature = reader.IsClosed(), reader.PrematureCloseErr() != nil
	// nothing may come out of the session afterwards
	reader.SetReadDeadline(time.Now().Add(300 * time.Millisecond))
	o.LaterRead = "error"
	if dir == "r2h" {
		if _, e := reader.ReadID(); e == nil {
			o.LaterRead = "delivered"
		}
	} else if e := reader.ReadResponse(new(rhp2.RPCSettingsResponse), maxLen); e == nil {
		o.LaterRead = "delivered"
	}
	return
}

func judgeCut(run cutRun, o cutObs) (key, what string) {
	cc := run.Case
	pre := "rhp2-cut-" + run.Path + "-"
	at := fmt.Sprintf("a frame of %d bytes cut after %d bytes (%s; the reader's full read gets %s), then the connection ends", o.FrameLen, cc.Cut, cc.Region, map[string]string{"eof": "nothing", "short": "a part"}[cc.How])
	switch {
	case o.FrameLen != cc.Total:
		return pre + "frame-size", fmt.Sprintf("the frame on the wire has %d bytes, the case is about one of %d", o.FrameLen, cc.Total)
	case o.Delivered:
		return pre + "delivered", at + ": the read succeeded"
	case o.LaterRead == "delivered":
		return pre + "delivery-after-cut", at + ": a later read delivered a message"
	case !o.Closed || !o.Premature:
		how := "at-read-boundary"
		if cc.How != "eof" {
			how = "inside-read"
		}
		return pre + how + "-not-closed", fmt.Sprintf("%s: the read failed (%s) but the session is not closed: IsClosed=%v, PrematureCloseErr set=%v", at, o.Err, o.Closed, o.Premature)
	}
	return "", ""
}

func runCutCase(c *vlib.Ctx, run cutRun) (cutObs, bool) {
	o := rhp2Cut(run)
	if o.Timeout && o.Setup == "" {
		o = rhp2Cut(run) // a starved read is tried once more before anything is said about it
	}
	if o.Setup != "" {
		c.Infra("cut %s %s: %s", run.Path, run.Case.key(), o.Setup)
		return o, false
	}
	if key, what := judgeCut(run, o); key != "" {
		run.Obs = &o
		c.Violation(key, "RHP2 "+run.Path+": "+what, run)
	}
	return o, true
}

type cutTotals struct {
	evals, distinct, sessions int64
}

// runCuts applies every CUT case on every read path, and the prefix rule to every wire type.
func runCuts(c *vlib.Ctx, cuts map[string]cutCase, r *rand.Rand) cutTotals {
	var t cutTotals
	var mu sync.Mutex
	perPath := map[string]map[string]int{}
	var jobs []func()
	for _, k := range sortedKeys(cuts) {
		cc := cuts[k]
		for _, path := range []string{"r2h-id", "r2h-req", "h2r", "h2r-raw"} {
			if path == "r2h-id" && cc.Total != 4096 {
				continue // the frame of an RPC id is always padded
			}
			run := cutRun{Kind: "cut", Path: path, Case: cc, Seed: r.Int63()}
			jobs = append(jobs, func() {
				o, ok := runCutCase(c, run)
				if !ok {
					return
				}
				mu.Lock()
				t.evals++
				t.distinct++
				t.sessions++
				if perPath[run.Path] == nil {
					perPath[run.Path] = map[string]int{}
				}
				if o.Failed && o.Closed {
					perPath[run.Path][run.Case.How+"/"+run.Case.Region]++
				}
				mu.Unlock()
			})
		}
	}
	parallel(12, jobs)
	for _, path := range []string{"r2h-id", "r2h-req", "h2r", "h2r-raw"} {
		for _, cl := range []string{"eof/ciphertext", "short/ciphertext", "short/prefix", "short/nonce", "short/tag", "eof/nonce"} {
			if perPath[path][cl] == 0 && c.NViolations() == 0 {
				c.Infra("vacuity: cuts: path %s saw no closed session for a cut of class %s", path, cl)
			}
		}
	}
	// plain readers and decoders: every proper prefix of a message is refused
	prefixes := map[string]int{}
	var pjobs []func()
	for _, cd := range allCodecs() {
		cd := cd
		seed := r.Int63()
		pjobs = append(pjobs, func() {
			rr := rand.New(rand.NewSource(seed))
			n := make([]int, cd.k)
			for j := range n {
				n[j] = cd.count("one", j, rr)
			}
			wire := cd.enc(cd.mk(rr, n))
			if len(wire) > 6000 {
				return
			}
			cnt := 0
			for cut := 0; cut < len(wire); cut++ {
				err := cd.dec(wire[:cut], cd.blank())
				cnt++
				if err == nil {
					c.Violation(fmt.Sprintf("cut-%s-%s-%s-prefix-accepted", cd.fam, slug(cd.name), cd.dir),
						fmt.Sprintf("%s/%s/%s: the first %d of %d bytes of a message, followed by the end of the stream, were accepted as a message", cd.fam, cd.name, cd.dir, cut, len(wire)),
						map[string]any{"kind": "prefix", "fam": cd.fam, "obj": cd.name, "dir": cd.dir, "seed": seed, "cut": cut})
					break
				}
			}
			if err := cd.dec(wire, cd.blank()); err != nil {
				c.Infra("cuts: %s/%s/%s: the whole message is refused: %v", cd.fam, cd.name, cd.dir, err)
			}
			mu.Lock()
			prefixes[cd.fam] += cnt
			t.evals += int64(cnt)
			if cnt > 0 {
				t.distinct++
			}
			mu.Unlock()
		})
	}
	parallel(8, pjobs)
	for _, fam := range []string{"rhp2", "rhp3", "rhp4", "gw"} {
		if prefixes[fam] < 500 {
			c.Infra("vacuity: cuts: only %d message prefixes of family %s were tried", prefixes[fam], fam)
		}
	}
	c.Cov("cuts", map[string]any{"cases": len(cuts), "sessions": t.sessions, "closed_per_path_and_class": perPath, "message_prefixes_refused": prefixes})
	return t
}

func errorsAs(err error, target **rhp2.RPCError) bool {
	for e := err; e != nil; {
		if re, ok := e.(*rhp2.RPCError); ok {
			*target = re
			return true
		}
		u, ok := e.(interface{ Unwrap() error })
		if !ok {
			return false
		}
		e = u.Unwrap()
	}
	return false
}

// selftestCuts: the expected side corrupted - an observation of a session left open must be noticed.
func selftestCuts(c *vlib.Ctx) {
	run := cutRun{Kind: "cut", Path: "h2r", Case: cutCase{Total: 4096, Cut: 72, Region: "ciphertext", How: "eof", Closed: true}}
	good, _ := judgeCut(run, cutObs{FrameLen: 4096, Failed: true, Closed: true, Premature: true, LaterRead: "error"})
	open, _ := judgeCut(run, cutObs{FrameLen: 4096, Failed: true, Closed: false, Premature: false, LaterRead: "error"})
	deliv, _ := judgeCut(run, cutObs{FrameLen: 4096, Delivered: true, LaterRead: "error"})
	ok := good == "" && open != "" && deliv != ""
	c.Cov("selftest_cuts", map[string]bool{"open_session_after_cut_noticed": ok})
	if !ok {
		c.Infra("selftest: a session left open after a cut frame was not noticed")
	}
	_ = bytes.MinRead
	_ = types.Specifier{}
}
