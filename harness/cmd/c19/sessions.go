package main

import (
	"fmt"
	"math/rand"
	"sync"
	"time"

	rhp2 "go.sia.tech/core/rhp/v2"
	rhp3 "go.sia.tech/core/rhp/v3"
	"go.sia.tech/core/types"
)

// convObs is what a conversation over a multiplexed transport (gateway, RHP3) delivered.
type convObs struct {
	K         int    `json:"k"`
	Delivered int    `json:"delivered"` // exchanges completed with identical objects, in order
	Wrong     string `json:"wrong"`     // an object arrived altered / an error surfaced as something else
	Stop      string `json:"stop"`      // why the conversation ended early
	Infra     string `json:"infra"`
}

// flipPlan: one bit of the byte at offset off of the post-handshake stream of one direction is flipped.
type flipPlan struct {
	On  bool   `json:"on"`
	Dir string `json:"dir"` // "ab" | "ba"
	Off int64  `json:"off"`
	Cut bool   `json:"cut,omitempty"` // instead of flipping a bit the stream ends at the offset
}

func (f flipPlan) plans(abFrames, baFrames int) (ab, ba dirPlan) {
	ab, ba = dirPlan{frames: abFrames}, dirPlan{frames: baFrames}
	if f.On && f.Dir == "ab" {
		ab.flip, ab.cut, ab.rawFlip = !f.Cut, f.Cut, f.Off
	}
	if f.On && f.Dir == "ba" {
		ba.flip, ba.cut, ba.rawFlip = !f.Cut, f.Cut, f.Off
	}
	return
}

// gwConversation: k RPC exchanges between a real Dial and a real Accept.
func gwConversation(k int, seed int64, f flipPlan) convObs {
	r := rand.New(rand.NewSource(seed))
	o := convObs{K: k}
	ab, ba := f.plans(3, 3) // the handshake frames pass untouched; the flip hits the multiplexer's stream
	p, err := gwOpen(ab, ba, 60*time.Second)
	if err != nil {
		if f.On {
			o.Stop = err.Error() // the flip may hit the multiplexer's own handshake
			return o
		}
		o.Infra = err.Error()
		return o
	}
	defer p.Close()
	cat := gwCatalogue()
	for i := 0; i < k; i++ {
		g := cat[r.Intn(len(cat))]
		n := 0
		switch {
		case g.weight:
			n = 1000 + r.Intn(20000)
		case g.unit != "fixed":
			n = r.Intn(g.rnd + 1)
		}
		wait := 20 * time.Second
		if f.On {
			wait = 3 * time.Second
		}
		rq, rs := g.mk(rand.New(rand.NewSource(r.Int63())), n)
		var res gwResult
		if g.dir == "req" {
			res = p.gwRequest(rq, wait)
		} else {
			res = p.gwResponse(rq, rs, wait)
		}
		switch {
		case res.IDWrong:
			o.Wrong = fmt.Sprintf("exchange %d (%s/%s): RPC id not recognised by the peer", i+1, g.name, g.dir)
		case res.Infra != "":
			o.Stop = res.Infra
		case res.ReadErr != nil:
			o.Stop = res.ReadErr.Error()
		case !res.Same:
			o.Wrong = fmt.Sprintf("exchange %d (%s/%s, n=%d): object read differs from object written", i+1, g.name, g.dir, n)
		}
		if o.Wrong != "" || o.Stop != "" {
			return o
		}
		o.Delivered++
	}
	return o
}

// rhp3Conversation: k RPCs (request object, then response object or error) between real RHP3 transports.
func rhp3Conversation(k int, seed int64, f flipPlan) convObs {
	r := rand.New(rand.NewSource(seed))
	o := convObs{K: k}
	ab, ba := f.plans(0, 0)
	p, err := rhp3Open(ab, ba, 60*time.Second)
	if err != nil {
		if f.On {
			o.Stop = err.Error()
			return o
		}
		o.Infra = err.Error()
		return o
	}
	defer p.Close()
	cat := rhp3Catalogue()
	var reqs, resps []fobj
	for _, c := range cat {
		if c.dir == "req" {
			reqs = append(reqs, c)
		} else {
			resps = append(resps, c)
		}
	}
	shape := func(c fobj) []int {
		n := make([]int, len(c.groups))
		for j := range n {
			n[j] = r.Intn(c.rnd[j]/4 + 2)
		}
		return n
	}
	for i := 0; i < k; i++ {
		rqo, rso := reqs[r.Intn(len(reqs))], resps[r.Intn(len(resps))]
		req := rqo.mk(rand.New(rand.NewSource(r.Int63())), shape(rqo)).(rhp3.ProtocolObject)
		resp := rso.mk(rand.New(rand.NewSource(r.Int63())), shape(rso)).(rhp3.ProtocolObject)
		var rerr *rhp3.RPCError
		if r.Intn(3) == 0 {
			rerr = &rhp3.RPCError{Type: rSpec(r), Data: randBytes(r, r.Intn(50)), Description: fmt.Sprintf("host says no (%d)", r.Intn(1000))}
			resp = nil
		}
		var id types.Specifier
		r.Read(id[:])
		wait := 20 * time.Second
		if f.On {
			wait = 3 * time.Second
		}
		rq, rs := p.rhp3Call(id, req, rqo.blank().(rhp3.ProtocolObject), 1<<20, resp, rerr, rso.blank().(rhp3.ProtocolObject), 1<<20, wait)
		switch {
		case rq.Infra != "":
			o.Stop = rq.Infra
		case rq.Accepted && !rq.Same:
			o.Wrong = fmt.Sprintf("exchange %d: request %s differs after transport (%s)", i+1, rqo.name, rq.Err)
		case !rq.Accepted:
			o.Stop = rq.Err
		case rs.Accepted && !rs.Same:
			o.Wrong = fmt.Sprintf("exchange %d: response %s differs after transport (%s)", i+1, rso.name, rs.Err)
		case !rs.Accepted:
			o.Stop = "response: " + rs.Err
		}
		if o.Wrong != "" || o.Stop != "" {
			return o
		}
		o.Delivered++
	}
	return o
}

// ---------------------------------------------------------------------------
// RHP2 key exchange with one region flipped (spec/net/KeyExchange.tla)

var kxRegions = map[string]struct {
	dir    string
	lo, hi int64
}{
	"reqkey":     {"ab", 16, 48},
	"respkey":    {"ba", 0, 32},
	"respsig":    {"ba", 40, 104},
	"respcipher": {"ba", 104, 120},
	"challenge":  {"ba", 120 + 8, 120 + 4096}, // behind the size prefix of the challenge frame (a changed size is a Session.tla matter)
}

// kxRun returns whether the renter obtained a session.
func kxRun(region string, seed int64) (session bool, infra string) {
	r := rand.New(rand.NewSource(seed))
	var ab, ba dirPlan
	if reg, ok := kxRegions[region]; ok {
		off := reg.lo + r.Int63n(reg.hi-reg.lo)
		if reg.dir == "ab" {
			ab.flip, ab.rawFlip = true, off
		} else {
			ba.flip, ba.rawFlip = true, off
		}
	} else if region != "none" {
		return false, "unknown region " + region
	}
	l := newLink("10.1.0.1:4001", "10.2.0.2:9982", ab, ba, 10*time.Second)
	defer l.Close()
	var wg sync.WaitGroup
	wg.Add(1)
	go func() {
		defer wg.Done()
		if _, err := rhp2.NewHostTransport(l.B, rhp2HostKey); err != nil {
			l.B.Close()
		}
	}()
	rt, err := rhp2.NewRenterTransport(l.A, rhp2HostKey.PublicKey())
	if err != nil {
		l.A.Close()
	}
	wg.Wait()
	if err != nil && isTimeout(err) {
		return false, "timeout: " + err.Error()
	}
	return err == nil && rt != nil, ""
}
