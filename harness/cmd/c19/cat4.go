package main

import (
	"math/rand"

	rhp4 "go.sia.tech/core/rhp/v4"
	"go.sia.tech/core/types"
)

const (
	maxSectors  = int(rhp4.MaxSectorBatchSize)
	maxAccounts = int(rhp4.MaxAccountBatchSize)
)

func rPrices(r *rand.Rand) rhp4.HostPrices {
	return rhp4.HostPrices{ContractPrice: rCur(r), Collateral: rCur(r), StoragePrice: rCur(r), IngressPrice: rCur(r),
		EgressPrice: rCur(r), FreeSectorPrice: rCur(r), TipHeight: r.Uint64() >> 30, ValidUntil: rTime(r), Signature: rSig(r)}
}

func rAccount(r *rand.Rand) (a rhp4.Account) { r.Read(a[:]); return }

func rToken(r *rand.Rand) rhp4.AccountToken {
	return rhp4.AccountToken{HostKey: rPK(r), Account: rAccount(r), ValidUntil: rTime(r), Signature: rSig(r)}
}

func rV2Txns(r *rand.Rand, n, size int) []types.V2Transaction {
	out := make([]types.V2Transaction, n)
	for i := range out {
		out[i] = types.V2Transaction{SiacoinOutputs: []types.SiacoinOutput{rOutput(r)}, MinerFee: rCur(r)}
		if pad := size - encLen(out[i]); pad > 0 {
			out[i].ArbitraryData = randBytes(r, pad)
		}
	}
	return out
}

func rElements(r *rand.Rand, n, proof int) []types.SiacoinElement {
	out := make([]types.SiacoinElement, n)
	for i := range out {
		out[i] = rSCElement(r, proof)
	}
	return out
}

func rInputs(r *rand.Rand, n, proof int) []types.V2SiacoinInput {
	out := make([]types.V2SiacoinInput, n)
	for i := range out {
		out[i] = fixedV2Input(r, proof)
	}
	return out
}

func rPolicies(r *rand.Rand, n int) []types.SatisfiedPolicy {
	out := make([]types.SatisfiedPolicy, n)
	for i := range out {
		out[i] = fixedPolicy(r)
	}
	return out
}

func rDeposits(r *rand.Rand, n int) []rhp4.AccountDeposit {
	out := make([]rhp4.AccountDeposit, n)
	for i := range out {
		out[i] = rhp4.AccountDeposit{Account: rAccount(r), Amount: rCur(r)}
	}
	return out
}

const (
	txnBlob    = 600 // encoded size of the v2 transactions used as set elements
	proofDepth = 12  // Merkle proof length of the elements used as inputs
)

func rhp4Catalogue() []fobj {
	fixedObj := func(name, dir string, mk func(r *rand.Rand) rhp4.Object, blank func() rhp4.Object) fobj {
		return fobj{fam: "rhp4", name: name, dir: dir, hungry: -1,
			mk: func(r *rand.Rand, n []int) any { return mk(r) }, blank: func() any { return blank() }}
	}
	grp := func(name, dir string, groups []string, max [][]int, rnd []int, hungry int,
		mk func(r *rand.Rand, n []int) rhp4.Object, blank func() rhp4.Object) fobj {
		return fobj{fam: "rhp4", name: name, dir: dir, groups: groups, max: max, rnd: rnd, hungry: hungry,
			mk: func(r *rand.Rand, n []int) any { return mk(r, n) }, blank: func() any { return blank() }}
	}
	sig := func(name string, mk func(s types.Signature) rhp4.Object, blank func() rhp4.Object) fobj {
		return fixedObj(name, "resp", func(r *rand.Rand) rhp4.Object { return mk(rSig(r)) }, blank)
	}
	inputsParents := []string{"RenterInputs", "RenterParents"}
	var cat []fobj
	cat = append(cat,
		fixedObj("SettingsRequest", "req", func(r *rand.Rand) rhp4.Object { return &rhp4.RPCSettingsRequest{} },
			func() rhp4.Object { return new(rhp4.RPCSettingsRequest) }),
		grp("FormContractRequest", "req", inputsParents, nil, []int{20, 10}, 0,
			func(r *rand.Rand, n []int) rhp4.Object {
				return &rhp4.RPCFormContractRequest{Prices: rPrices(r),
					Contract: rhp4.RPCFormContractParams{RenterPublicKey: rPK(r), RenterAddress: rAddr(r), Allowance: rCur(r), Collateral: rCur(r), ProofHeight: r.Uint64() >> 30},
					MinerFee: rCur(r), Basis: rIndex(r), RenterInputs: rElements(r, n[0], proofDepth), RenterParents: rV2Txns(r, n[1], txnBlob)}
			}, func() rhp4.Object { return new(rhp4.RPCFormContractRequest) }),
		grp("RenewContractRequest", "req", inputsParents, nil, []int{20, 10}, 0,
			func(r *rand.Rand, n []int) rhp4.Object {
				return &rhp4.RPCRenewContractRequest{Prices: rPrices(r),
					Renewal:  rhp4.RPCRenewContractParams{ContractID: types.FileContractID(rHash(r)), Allowance: rCur(r), Collateral: rCur(r), ProofHeight: r.Uint64() >> 30},
					MinerFee: rCur(r), Basis: rIndex(r), ChallengeSignature: rSig(r), RenterInputs: rElements(r, n[0], proofDepth), RenterParents: rV2Txns(r, n[1], txnBlob)}
			}, func() rhp4.Object { return new(rhp4.RPCRenewContractRequest) }),
		grp("RefreshContractRequest", "req", inputsParents, nil, []int{20, 10}, 0,
			func(r *rand.Rand, n []int) rhp4.Object {
				return &rhp4.RPCRefreshContractRequest{Prices: rPrices(r),
					Refresh:  rhp4.RPCRefreshContractParams{ContractID: types.FileContractID(rHash(r)), Allowance: rCur(r), Collateral: rCur(r)},
					MinerFee: rCur(r), Basis: rIndex(r), ChallengeSignature: rSig(r), RenterInputs: rElements(r, n[0], proofDepth), RenterParents: rV2Txns(r, n[1], txnBlob)}
			}, func() rhp4.Object { return new(rhp4.RPCRefreshContractRequest) }),
		grp("FreeSectorsRequest", "req", []string{"Indices"}, [][]int{{maxSectors}}, []int{6000}, 0,
			func(r *rand.Rand, n []int) rhp4.Object {
				o := &rhp4.RPCFreeSectorsRequest{ContractID: types.FileContractID(rHash(r)), Prices: rPrices(r), ChallengeSignature: rSig(r)}
				o.Indices = make([]uint64, n[0])
				for i := range o.Indices {
					o.Indices[i] = r.Uint64()
				}
				return o
			}, func() rhp4.Object { return new(rhp4.RPCFreeSectorsRequest) }),
		grp("AppendSectorsRequest", "req", []string{"Sectors"}, [][]int{{maxSectors}}, []int{6000}, 0,
			func(r *rand.Rand, n []int) rhp4.Object {
				return &rhp4.RPCAppendSectorsRequest{Prices: rPrices(r), ContractID: types.FileContractID(rHash(r)), ChallengeSignature: rSig(r), Sectors: randHashes(r, n[0])}
			}, func() rhp4.Object { return new(rhp4.RPCAppendSectorsRequest) }),
		fixedObj("LatestRevisionRequest", "req", func(r *rand.Rand) rhp4.Object {
			return &rhp4.RPCLatestRevisionRequest{ContractID: types.FileContractID(rHash(r))}
		}, func() rhp4.Object { return new(rhp4.RPCLatestRevisionRequest) }),
		fixedObj("ReadSectorRequest", "req", func(r *rand.Rand) rhp4.Object {
			return &rhp4.RPCReadSectorRequest{Prices: rPrices(r), Token: rToken(r), Root: rHash(r), Offset: uint64(r.Intn(1 << 22)), Length: uint64(r.Intn(1 << 22))}
		}, func() rhp4.Object { return new(rhp4.RPCReadSectorRequest) }),
		fixedObj("WriteSectorRequest", "req", func(r *rand.Rand) rhp4.Object {
			return &rhp4.RPCWriteSectorRequest{Prices: rPrices(r), Token: rToken(r), DataLength: uint64(r.Intn(1 << 22))}
		}, func() rhp4.Object { return new(rhp4.RPCWriteSectorRequest) }),
		fixedObj("SectorRootsRequest", "req", func(r *rand.Rand) rhp4.Object {
			return &rhp4.RPCSectorRootsRequest{Prices: rPrices(r), ContractID: types.FileContractID(rHash(r)), RenterSignature: rSig(r), Offset: r.Uint64() >> 30, Length: uint64(r.Intn(maxSectors))}
		}, func() rhp4.Object { return new(rhp4.RPCSectorRootsRequest) }),
		fixedObj("AccountBalanceRequest", "req", func(r *rand.Rand) rhp4.Object {
			return &rhp4.RPCAccountBalanceRequest{Account: rAccount(r)}
		}, func() rhp4.Object { return new(rhp4.RPCAccountBalanceRequest) }),
		grp("ReplenishAccountsRequest", "req", []string{"Accounts"}, [][]int{{maxAccounts}}, []int{maxAccounts}, 0,
			func(r *rand.Rand, n []int) rhp4.Object {
				o := &rhp4.RPCReplenishAccountsRequest{Target: rCur(r), ContractID: types.FileContractID(rHash(r)), ChallengeSignature: rSig(r)}
				for i := 0; i < n[0]; i++ {
					o.Accounts = append(o.Accounts, rAccount(r))
				}
				return o
			}, func() rhp4.Object { return new(rhp4.RPCReplenishAccountsRequest) }),
		grp("FundAccountsRequest", "req", []string{"Deposits"}, [][]int{{maxAccounts}}, []int{maxAccounts}, 0,
			func(r *rand.Rand, n []int) rhp4.Object {
				return &rhp4.RPCFundAccountsRequest{ContractID: types.FileContractID(rHash(r)), RenterSignature: rSig(r), Deposits: rDeposits(r, n[0])}
			}, func() rhp4.Object { return new(rhp4.RPCFundAccountsRequest) }),
		grp("AttachPoolsRequest", "req", []string{"Attachments"}, [][]int{{maxAccounts}}, []int{maxAccounts}, 0,
			func(r *rand.Rand, n []int) rhp4.Object {
				o := &rhp4.RPCAttachPoolsRequest{}
				for i := 0; i < n[0]; i++ {
					o.Attachments = append(o.Attachments, rhp4.PoolAttachment{Account: rAccount(r), Pool: rAccount(r), ValidUntil: rTime(r), Signature: rSig(r)})
				}
				return o
			}, func() rhp4.Object { return new(rhp4.RPCAttachPoolsRequest) }),
		grp("DetachPoolsRequest", "req", []string{"Detachments"}, [][]int{{maxAccounts}}, []int{maxAccounts}, 0,
			func(r *rand.Rand, n []int) rhp4.Object {
				o := &rhp4.RPCDetachPoolsRequest{}
				for i := 0; i < n[0]; i++ {
					o.Detachments = append(o.Detachments, rhp4.PoolDetachment{Account: rAccount(r), Pool: rAccount(r), ValidUntil: rTime(r), Signature: rSig(r)})
				}
				return o
			}, func() rhp4.Object { return new(rhp4.RPCDetachPoolsRequest) }),
		fixedObj("VerifySectorRequest", "req", func(r *rand.Rand) rhp4.Object {
			return &rhp4.RPCVerifySectorRequest{Prices: rPrices(r), Token: rToken(r), Root: rHash(r), LeafIndex: uint64(r.Intn(1 << 16))}
		}, func() rhp4.Object { return new(rhp4.RPCVerifySectorRequest) }),
	)
	// responses (everything that is read with ReadResponse, by either party)
	cat = append(cat,
		grp("SettingsResponse", "resp", []string{"Release"}, nil, []int{300}, 0,
			func(r *rand.Rand, n []int) rhp4.Object {
				hs := rhp4.HostSettings{WalletAddress: rAddr(r), AcceptingContracts: r.Intn(2) == 0, MaxCollateral: rCur(r),
					MaxContractDuration: r.Uint64() >> 40, RemainingStorage: r.Uint64() >> 20, TotalStorage: r.Uint64() >> 20, Prices: rPrices(r)}
				r.Read(hs.ProtocolVersion[:])
				b := make([]byte, n[0])
				for i := range b {
					b[i] = byte('a' + r.Intn(26))
				}
				hs.Release = string(b)
				return &rhp4.RPCSettingsResponse{Settings: hs}
			}, func() rhp4.Object { return new(rhp4.RPCSettingsResponse) }),
	)
	for _, nm := range []string{"Form", "Renew", "Refresh"} {
		nm := nm
		cat = append(cat,
			grp(nm+"ContractResponse", "resp", []string{"HostInputs"}, nil, []int{20}, 0,
				func(r *rand.Rand, n []int) rhp4.Object {
					in := rInputs(r, n[0], proofDepth)
					switch nm {
					case "Form":
						return &rhp4.RPCFormContractResponse{HostInputs: in}
					case "Renew":
						return &rhp4.RPCRenewContractResponse{HostInputs: in}
					}
					return &rhp4.RPCRefreshContractResponse{HostInputs: in}
				}, func() rhp4.Object {
					switch nm {
					case "Form":
						return new(rhp4.RPCFormContractResponse)
					case "Renew":
						return new(rhp4.RPCRenewContractResponse)
					}
					return new(rhp4.RPCRefreshContractResponse)
				}),
			grp(nm+"ContractSecondResponse", "resp", []string{"RenterSatisfiedPolicies"}, nil, []int{20}, 0,
				func(r *rand.Rand, n []int) rhp4.Object {
					switch nm {
					case "Form":
						return &rhp4.RPCFormContractSecondResponse{RenterContractSignature: rSig(r), RenterSatisfiedPolicies: rPolicies(r, n[0])}
					case "Renew":
						return &rhp4.RPCRenewContractSecondResponse{RenterRenewalSignature: rSig(r), RenterContractSignature: rSig(r), RenterSatisfiedPolicies: rPolicies(r, n[0])}
					}
					return &rhp4.RPCRefreshContractSecondResponse{RenterRenewalSignature: rSig(r), RenterContractSignature: rSig(r), RenterSatisfiedPolicies: rPolicies(r, n[0])}
				}, func() rhp4.Object {
					switch nm {
					case "Form":
						return new(rhp4.RPCFormContractSecondResponse)
					case "Renew":
						return new(rhp4.RPCRenewContractSecondResponse)
					}
					return new(rhp4.RPCRefreshContractSecondResponse)
				}),
			grp(nm+"ContractThirdResponse", "resp", []string{"TransactionSet"}, nil, []int{20}, 0,
				func(r *rand.Rand, n []int) rhp4.Object {
					b, ts := rIndex(r), rV2Txns(r, n[0], txnBlob)
					switch nm {
					case "Form":
						return &rhp4.RPCFormContractThirdResponse{Basis: b, TransactionSet: ts}
					case "Renew":
						return &rhp4.RPCRenewContractThirdResponse{Basis: b, TransactionSet: ts}
					}
					return &rhp4.RPCRefreshContractThirdResponse{Basis: b, TransactionSet: ts}
				}, func() rhp4.Object {
					switch nm {
					case "Form":
						return new(rhp4.RPCFormContractThirdResponse)
					case "Renew":
						return new(rhp4.RPCRenewContractThirdResponse)
					}
					return new(rhp4.RPCRefreshContractThirdResponse)
				}),
		)
	}
	cat = append(cat,
		grp("FreeSectorsResponse", "resp", []string{"OldSubtreeHashes", "OldLeafHashes"}, [][]int{{128, maxSectors}}, []int{3000, 6000}, 0,
			func(r *rand.Rand, n []int) rhp4.Object {
				return &rhp4.RPCFreeSectorsResponse{NewMerkleRoot: rHash(r), OldSubtreeHashes: randHashes(r, n[0]), OldLeafHashes: randHashes(r, n[1])}
			}, func() rhp4.Object { return new(rhp4.RPCFreeSectorsResponse) }),
		sig("FreeSectorsSecondResponse", func(s types.Signature) rhp4.Object { return &rhp4.RPCFreeSectorsSecondResponse{RenterSignature: s} },
			func() rhp4.Object { return new(rhp4.RPCFreeSectorsSecondResponse) }),
		sig("FreeSectorsThirdResponse", func(s types.Signature) rhp4.Object { return &rhp4.RPCFreeSectorsThirdResponse{HostSignature: s} },
			func() rhp4.Object { return new(rhp4.RPCFreeSectorsThirdResponse) }),
		grp("AppendSectorsResponse", "resp", []string{"Accepted", "SubtreeRoots"}, [][]int{{maxSectors, 64}}, []int{6000, 64}, 1,
			func(r *rand.Rand, n []int) rhp4.Object {
				o := &rhp4.RPCAppendSectorsResponse{NewMerkleRoot: rHash(r)}
				o.Accepted = make([]bool, n[0])
				for i := range o.Accepted {
					o.Accepted[i] = r.Intn(2) == 0
				}
				o.SubtreeRoots = randHashes(r, n[1])
				return o
			}, func() rhp4.Object { return new(rhp4.RPCAppendSectorsResponse) }),
		sig("AppendSectorsSecondResponse", func(s types.Signature) rhp4.Object { return &rhp4.RPCAppendSectorsSecondResponse{RenterSignature: s} },
			func() rhp4.Object { return new(rhp4.RPCAppendSectorsSecondResponse) }),
		sig("AppendSectorsThirdResponse", func(s types.Signature) rhp4.Object { return &rhp4.RPCAppendSectorsThirdResponse{HostSignature: s} },
			func() rhp4.Object { return new(rhp4.RPCAppendSectorsThirdResponse) }),
		fixedObj("LatestRevisionResponse", "resp", func(r *rand.Rand) rhp4.Object {
			return &rhp4.RPCLatestRevisionResponse{Contract: rV2Contract(r), Revisable: r.Intn(2) == 0, Renewed: r.Intn(2) == 0}
		}, func() rhp4.Object { return new(rhp4.RPCLatestRevisionResponse) }),
		grp("ReadSectorResponse", "resp", []string{"Proof"}, [][]int{{32}}, []int{32}, 0,
			func(r *rand.Rand, n []int) rhp4.Object {
				return &rhp4.RPCReadSectorResponse{DataLength: uint64(r.Intn(1 << 22)), Proof: randHashes(r, n[0])}
			}, func() rhp4.Object { return new(rhp4.RPCReadSectorResponse) }),
		fixedObj("WriteSectorResponse", "resp", func(r *rand.Rand) rhp4.Object { return &rhp4.RPCWriteSectorResponse{Root: rHash(r)} },
			func() rhp4.Object { return new(rhp4.RPCWriteSectorResponse) }),
		grp("SectorRootsResponse", "resp", []string{"Proof", "Roots"}, [][]int{{128, maxSectors}}, []int{128, 6000}, 1,
			func(r *rand.Rand, n []int) rhp4.Object {
				return &rhp4.RPCSectorRootsResponse{HostSignature: rSig(r), Proof: randHashes(r, n[0]), Roots: randHashes(r, n[1])}
			}, func() rhp4.Object { return new(rhp4.RPCSectorRootsResponse) }),
		fixedObj("AccountBalanceResponse", "resp", func(r *rand.Rand) rhp4.Object { return &rhp4.RPCAccountBalanceResponse{Balance: rCur(r)} },
			func() rhp4.Object { return new(rhp4.RPCAccountBalanceResponse) }),
		grp("ReplenishAccountsResponse", "resp", []string{"Deposits"}, [][]int{{maxAccounts}}, []int{maxAccounts}, 0,
			func(r *rand.Rand, n []int) rhp4.Object {
				return &rhp4.RPCReplenishAccountsResponse{Deposits: rDeposits(r, n[0])}
			},
			func() rhp4.Object { return new(rhp4.RPCReplenishAccountsResponse) }),
		sig("ReplenishAccountsSecondResponse", func(s types.Signature) rhp4.Object {
			return &rhp4.RPCReplenishAccountsSecondResponse{RenterSignature: s}
		}, func() rhp4.Object { return new(rhp4.RPCReplenishAccountsSecondResponse) }),
		sig("ReplenishAccountsThirdResponse", func(s types.Signature) rhp4.Object {
			return &rhp4.RPCReplenishAccountsThirdResponse{HostSignature: s}
		}, func() rhp4.Object { return new(rhp4.RPCReplenishAccountsThirdResponse) }),
		grp("VerifySectorResponse", "resp", []string{"Proof"}, [][]int{{16}}, []int{16}, 0,
			func(r *rand.Rand, n []int) rhp4.Object {
				o := &rhp4.RPCVerifySectorResponse{Proof: randHashes(r, n[0])}
				r.Read(o.Leaf[:])
				return o
			}, func() rhp4.Object { return new(rhp4.RPCVerifySectorResponse) }),
		grp("FundAccountsResponse", "resp", []string{"Balances"}, [][]int{{maxAccounts}}, []int{maxAccounts}, 0,
			func(r *rand.Rand, n []int) rhp4.Object {
				return &rhp4.RPCFundAccountsResponse{HostSignature: rSig(r), Balances: rCurs(r, n[0])}
			}, func() rhp4.Object { return new(rhp4.RPCFundAccountsResponse) }),
		fixedObj("AttachPoolsResponse", "resp", func(r *rand.Rand) rhp4.Object { return &rhp4.RPCAttachPoolsResponse{} },
			func() rhp4.Object { return new(rhp4.RPCAttachPoolsResponse) }),
		fixedObj("DetachPoolsResponse", "resp", func(r *rand.Rand) rhp4.Object { return &rhp4.RPCDetachPoolsResponse{} },
			func() rhp4.Object { return new(rhp4.RPCDetachPoolsResponse) }),
	)
	return cat
}
