package main

import (
	"bytes"
	"errors"
	"fmt"
	"sync"
	"time"

	rhp3 "go.sia.tech/core/rhp/v3"
	"go.sia.tech/core/types"
)

type rhp3Pair struct {
	rt, ht *rhp3.Transport
	l      *link
}

func rhp3Open(ab, ba dirPlan, deadline time.Duration) (*rhp3Pair, error) {
	return rhp3OpenOn(newLink("10.3.0.1:4003", "10.3.0.2:9983", ab, ba, deadline))
}

// rhp3OpenOn establishes a real RHP3 session over the two ends of l.
func rhp3OpenOn(l *link) (*rhp3Pair, error) {
	var ht *rhp3.Transport
	var herr error
	var wg sync.WaitGroup
	wg.Add(1)
	go func() {
		defer wg.Done()
		ht, herr = rhp3.NewHostTransport(l.B, rhp2HostKey)
		if herr != nil {
			l.B.Close()
		}
	}()
	rt, rerr := rhp3.NewRenterTransport(l.A, rhp2HostKey.PublicKey())
	if rerr != nil {
		l.A.Close()
	}
	wg.Wait()
	if rerr != nil || herr != nil {
		if rt != nil {
			rt.Close()
		}
		if ht != nil {
			ht.Close()
		}
		l.Close()
		return nil, fmt.Errorf("rhp3 handshake: renter %v, host %v", rerr, herr)
	}
	return &rhp3Pair{rt, ht, l}, nil
}

func (p *rhp3Pair) Close() {
	p.rt.Close()
	p.ht.Close()
	p.l.Close()
}

// xfer is the outcome of moving one object across a stream with the real writer and the real reader.
type xfer struct {
	Accepted bool   // the reader returned the object (or, for an error response, that error)
	Same     bool   // and it re-encodes to what was written
	Err      string // the reader's error otherwise
	Timeout  bool
	Infra    string
}

// rhp3Call performs one RPC on a fresh stream: the renter writes id+req, the host reads them with limit
// reqMax; then the host answers with resp (or respErr) and the renter reads it with limit respMax.
// resp == nil && respErr == nil: no response leg.
func (p *rhp3Pair) rhp3Call(id types.Specifier, req, reqBlank rhp3.ProtocolObject, reqMax uint64,
	resp rhp3.ProtocolObject, respErr *rhp3.RPCError, respBlank rhp3.ProtocolObject, respMax uint64, wait time.Duration) (rq, rs xfer) {
	hostDone := make(chan struct{})
	go func() {
		defer close(hostDone)
		hs, err := p.ht.AcceptStream()
		if err != nil {
			rq.Infra = "accept stream: " + err.Error()
			return
		}
		defer hs.Close()
		hs.SetDeadline(time.Now().Add(wait))
		gotID, err := hs.ReadID()
		if err != nil {
			rq.Infra = "read id: " + err.Error()
			return
		}
		if gotID != id {
			rq.Accepted, rq.Same = true, false
			rq.Err = fmt.Sprintf("RPC id %v read as %v", id, gotID)
			return
		}
		if req != nil {
			if err := hs.ReadRequest(reqBlank, reqMax); err != nil {
				rq.Err, rq.Timeout = err.Error(), isTimeout(err)
				return
			}
			rq.Accepted = true
			rq.Same = bytes.Equal(encBytes(reqBlank), encBytes(req))
		} else {
			rq.Accepted, rq.Same = true, true
		}
		switch {
		case respErr != nil:
			hs.WriteResponseErr(respErr)
		case resp != nil:
			hs.WriteResponse(resp)
		}
	}()
	s := p.rt.DialStream()
	s.SetDeadline(time.Now().Add(wait))
	werr := s.WriteRequest(id, req)
	if werr == nil && (resp != nil || respErr != nil) {
		err := s.ReadResponse(respBlank, respMax)
		var re *rhp3.RPCError
		switch {
		case respErr != nil && errors.As(err, &re):
			rs.Accepted = true
			rs.Same = re.Type == respErr.Type && bytes.Equal(re.Data, respErr.Data) && re.Description == respErr.Description
			if !rs.Same {
				rs.Err = fmt.Sprintf("error response %q surfaced as %q", respErr.Description, re.Description)
			}
		case respErr != nil && err == nil:
			rs.Accepted, rs.Same, rs.Err = true, false, "error response surfaced as success"
		case err != nil && errors.As(err, &re):
			rs.Accepted, rs.Same, rs.Err = true, false, fmt.Sprintf("response object surfaced as RPC error %q", re.Description)
		case err != nil:
			rs.Err, rs.Timeout = err.Error(), isTimeout(err)
		default:
			rs.Accepted = true
			rs.Same = bytes.Equal(encBytes(respBlank), encBytes(resp))
		}
	}
	if resp != nil || respErr != nil {
		// the host is past its reads: hang up first so that a refused response does not stall the mux
		s.Close()
		<-hostDone
	} else {
		<-hostDone
		s.Close()
	}
	if rq.Infra == "" && !rq.Accepted && rq.Err == "" {
		rq.Infra = "host did not report"
	}
	return
}
