package main

// The convenience entry points with their own read limit (spec/net/Calls.tla): RHP2 (*Transport).Call and RHP3
// (*Stream).Call. TLC walks the response sizes up to and around the documented limit; the harness performs a real Call
// between real endpoints whose callee answers with a real response of exactly that size.

import (
	"bytes"
	"encoding/json"
	"fmt"
	"math/rand"
	"strings"
	"sync"
	"time"

	rhp2 "go.sia.tech/core/rhp/v2"
	rhp3 "go.sia.tech/core/rhp/v3"
	"go.sia.tech/core/types"
	"verif/harness/vlib"
)

type callCase struct {
	Proto  string `json:"proto"`
	P      int    `json:"p"` // encoded response, flag byte included
	Accept bool   `json:"accept"`
	Bound  int    `json:"bound"`
}

func (cc callCase) key() string { return fmt.Sprintf("%s-p%d", cc.Proto, cc.P) }

func loadCalls(c *vlib.Ctx) map[string]callCase {
	cfg := "Calls.cfg"
	if c.Thorough {
		cfg = "CallsWide.cfg"
	}
	res := c.MustTLC(vlib.TLCOpts{SpecDirs: []string{"net"}, Module: "Calls", Config: cfg, Workers: 2})
	cases := parseCases(c, res.Lines, "CALL", func(m map[string]any) (callCase, string) {
		b, _ := json.Marshal(m)
		var cc callCase
		json.Unmarshal(b, &cc)
		return cc, cc.key()
	})
	n := map[string]int{}
	for _, cc := range cases {
		n[cc.Proto+fmt.Sprint(cc.Accept)]++
	}
	if n["rhp2true"] < 20 || n["rhp3true"] < 20 || n["rhp2false"] < 3 || n["rhp3false"] < 3 {
		c.Fatal("Calls.tla enumerated too little: %v", n)
	}
	return cases
}

type callRun struct {
	Kind string   `json:"kind"` // "call"
	Case callCase `json:"case"`
	Seed int64    `json:"seed"`
	Obs  *callObs `json:"observed,omitempty"`
}

type callObs struct {
	Delivered bool   `json:"delivered"`
	Same      bool   `json:"same"`
	ReqOK     bool   `json:"req_ok"`
	Err       string `json:"err,omitempty"`
	Infra     string `json:"infra,omitempty"`
}

func callRHP2(run callRun) (o callObs) {
	r := rand.New(rand.NewSource(run.Seed))
	m, _, ok := sized("h2r", run.Case.P, 0, r.Int63()) // SettingsResponse first; never an error response here
	if !ok || m.err != nil {
		if m, _, ok = sized("h2r", run.Case.P, 1, r.Int63()); !ok || m.err != nil {
			o.Infra = fmt.Sprintf("no response object of %d bytes", run.Case.P)
			return
		}
	}
	req, reqBlank := rhp2Object(r, false)
	l := newLink("10.1.0.1:4001", "10.2.0.2:9982", dirPlan{}, dirPlan{}, 40*time.Second)
	defer l.Close()
	var ht *rhp2.Transport
	var herr error
	var wg sync.WaitGroup
	wg.Add(1)
	go func() {
		defer wg.Done()
		ht, herr = rhp2.NewHostTransport(l.B, rhp2HostKey)
	}()
	rt, rerr := rhp2.NewRenterTransport(l.A, rhp2HostKey.PublicKey())
	wg.Wait()
	if rerr != nil || herr != nil {
		o.Infra = fmt.Sprintf("handshake: renter %v, host %v", rerr, herr)
		return
	}
	rt.SetDeadline(time.Now().Add(15 * time.Second))
	ht.SetDeadline(time.Now().Add(15 * time.Second))
	var id types.Specifier
	copy(id[:], "C19Call")
	hostDone := make(chan bool, 1)
	go func() {
		got, err := ht.ReadID()
		if err != nil || got != id {
			hostDone <- false
			return
		}
		blank := reqBlank()
		if err := ht.ReadRequest(blank, 1<<20); err != nil || !bytes.Equal(encBytes(blank), encBytes(req)) {
			hostDone <- false
			return
		}
		ht.WriteResponse(m.obj)
		hostDone <- true
	}()
	got := m.blank()
	err := rt.Call(id, req, got)
	o.ReqOK = <-hostDone
	if err != nil {
		o.Err = err.Error()
		if isTimeout(err) {
			o.Infra = "timeout: " + o.Err
		}
		return
	}
	o.Delivered, o.Same = true, bytes.Equal(encBytes(got), encBytes(m.obj))
	return
}

func callRHP3(p *rhp3Pair, run callRun) (o callObs) {
	r := rand.New(rand.NewSource(run.Seed))
	n := run.Case.P - 1 - 8
	if n < 0 {
		o.Infra = "size below the smallest response"
		return
	}
	resp := &rhp3.RPCUpdatePriceTableResponse{PriceTableJSON: randBytes(r, n)}
	req := &rhp3.RPCAccountBalanceRequest{Account: rAcct3(r)}
	var id types.Specifier
	copy(id[:], "C19Call3")
	hostDone := make(chan bool, 1)
	go func() {
		hs, err := p.ht.AcceptStream()
		if err != nil {
			hostDone <- false
			return
		}
		defer hs.Close()
		hs.SetDeadline(time.Now().Add(15 * time.Second))
		got, err := hs.ReadID()
		if err != nil || got != id {
			hostDone <- false
			return
		}
		var rq rhp3.RPCAccountBalanceRequest
		if err := hs.ReadRequest(&rq, 1<<20); err != nil || rq.Account != req.Account {
			hostDone <- false
			return
		}
		hs.WriteResponse(resp)
		hostDone <- true
	}()
	s := p.rt.DialStream()
	s.SetDeadline(time.Now().Add(15 * time.Second))
	var got rhp3.RPCUpdatePriceTableResponse
	err := s.Call(id, req, &got)
	s.Close()
	o.ReqOK = <-hostDone
	if err != nil {
		o.Err = err.Error()
		if isTimeout(err) {
			o.Infra = "timeout: " + o.Err
		}
		return
	}
	o.Delivered, o.Same = true, bytes.Equal(got.PriceTableJSON, resp.PriceTableJSON)
	return
}

func judgeCall(run callRun, o callObs) (key, what string) {
	cc := run.Case
	pre := cc.Proto + "-call-"
	at := fmt.Sprintf("%s Call, response of %d bytes (the documented limit admits up to %d)", cc.Proto, cc.P, cc.Bound)
	switch {
	case !o.ReqOK:
		return pre + "request-not-delivered", at + ": the callee did not read the id and request the Call wrote: " + o.Err
	case cc.Accept && !o.Delivered:
		return pre + "response-within-documented-limit-refused", at + ": not delivered: " + o.Err
	case cc.Accept && !o.Same:
		return pre + "response-altered", at + ": what was read is not what was written"
	case !cc.Accept && o.Delivered:
		return pre + "response-over-limit-accepted", at + ": delivered"
	}
	return "", ""
}

type callTotals struct{ evals, distinct, sessions int64 }

func runCallCase(c *vlib.Ctx, run callRun, pair func() *rhp3Pair) (callObs, bool) {
	var o callObs
	if run.Case.Proto == "rhp2" {
		o = callRHP2(run)
	} else {
		p := pair()
		if p == nil {
			return o, false
		}
		o = callRHP3(p, run) // one pair per case: a refused response may leave the multiplexer with data in flight
	}
	if o.Infra != "" {
		c.Infra("call %s: %s", run.Case.key(), o.Infra)
		return o, false
	}
	if key, what := judgeCall(run, o); key != "" {
		run.Obs = &o
		c.Violation(key, what, run)
	}
	return o, true
}

func runCalls(c *vlib.Ctx, cases map[string]callCase, r *rand.Rand) callTotals {
	var t callTotals
	var mu sync.Mutex
	seen := map[string]int{}
	var jobs []func()
	for _, k := range sortedKeys(cases) {
		run := callRun{Kind: "call", Case: cases[k], Seed: r.Int63()}
		jobs = append(jobs, func() {
			var own *rhp3Pair
			o, ok := runCallCase(c, run, func() *rhp3Pair {
				p, err := rhp3Open(dirPlan{}, dirPlan{}, 40*time.Second)
				if err != nil {
					c.Infra("call %s: %v", run.Case.key(), err)
					return nil
				}
				own = p
				return p
			})
			if own != nil {
				own.Close()
			}
			if !ok {
				return
			}
			mu.Lock()
			t.evals++
			t.distinct++
			t.sessions++
			if o.Delivered == run.Case.Accept {
				seen[run.Case.Proto+map[bool]string{true: "-delivered", false: "-refused"}[o.Delivered]]++
			}
			mu.Unlock()
		})
	}
	parallel(8, jobs)
	for _, k := range []string{"rhp2-delivered", "rhp2-refused", "rhp3-delivered", "rhp3-refused"} {
		if seen[k] == 0 && c.NViolations() == 0 {
			c.Infra("vacuity: calls: no %s", strings.ReplaceAll(k, "-", " Call "))
		}
	}
	c.Cov("calls_with_own_limit", map[string]any{"cases": len(cases), "outcomes_as_demanded": seen})
	return t
}
