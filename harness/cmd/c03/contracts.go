package main

import (
	"encoding/json"

	"go.sia.tech/core/types"
	"verif/harness/chain"
	"verif/harness/vlib"
)

// contracts builds the v2 contract, revision, renewal and attestation shapes.
func contracts(c *vlib.Ctx, s *scen, shape string) {
	sim, k := s.sim, s.k
	addrC := k.Addr("C")
	signContract := func(fc *types.V2FileContract, rk, hk string) {
		h := sim.CS.ContractSigHash(*fc)
		fc.RenterSignature, fc.HostSignature = k.SK(rk).SignHash(h), k.SK(hk).SignHash(h)
	}
	newContract := func(ph, eh uint64) types.V2FileContract {
		return types.V2FileContract{Capacity: 256, Filesize: 200, ProofHeight: ph, ExpirationHeight: eh,
			RenterOutput: types.SiacoinOutput{Value: cur(250024), Address: k.Addr("A")}, HostOutput: types.SiacoinOutput{Value: cur(25), Address: k.Addr("B")},
			MissedHostValue: cur(19), TotalCollateral: cur(12), RenterPublicKey: k.PK("R"), HostPublicKey: k.PK("H")}
	}
	cost := func(fc types.V2FileContract) types.Currency {
		return fc.RenterOutput.Value.Add(fc.HostOutput.Value).Add(sim.CS.V2FileContractTax(fc))
	}
	signInputs := func(t *types.V2Transaction, who string) {
		h := sim.CS.InputSigHash(*t)
		for i := range t.SiacoinInputs {
			t.SiacoinInputs[i].SatisfiedPolicy.Signatures = []types.Signature{k.SK(who).SignHash(h)}
		}
	}
	// the existing contract of the revision / renewal shapes is formed at height 2 (v2 is allowed from there)
	existing := func() (types.V2FileContractElement, bool) {
		c2 := map[string]any{"r": 250024, "h": 25, "ra": "A", "ha": "B", "mh": 19, "coll": 12, "ph": 20, "eh": 25, "rn": 0, "cap": 256, "size": 200, "rk": "R", "hk": "H", "auth": "ok"}
		costN := uint64(250024 + 25 + (250024+25)/25)
		if !advance(c, sim, 2, map[uint64][]chain.AbsTx{2: {{Ver: 2, Sci: []chain.AbsIn{{ID: chain.SID{chain.SCO, 0, 0, 1, 0}, Auth: "ok"}}, Sco: []chain.AbsOut{{600000 - costN, "A"}}, Fc: []json.RawMessage{raw(c2)}, Tag: "form2"}}}) {
			return types.V2FileContractElement{}, false
		}
		id, _ := sim.Real(chain.SID{chain.FC2, 2, 0, 1, 0})
		return sim.Store.V2FC[types.FileContractID(id)].Copy(), true
	}
	switch shape {
	case "v2form":
		if !advance(c, sim, 1, nil) {
			return
		}
		e := gen(sim, 12)
		fc := newContract(10, 12)
		t0 := types.V2Transaction{
			SiacoinInputs:  []types.V2SiacoinInput{{Parent: e, SatisfiedPolicy: types.SatisfiedPolicy{Policy: k.Policy("A")}}},
			SiacoinOutputs: []types.SiacoinOutput{{Value: e.SiacoinOutput.Value.Sub(cost(fc)), Address: k.Addr("A")}},
			FileContracts:  []types.V2FileContract{fc}, ArbitraryData: []byte("arbitrary data"),
		}
		s.v2 = []types.V2Transaction{t0}
		t := &s.v2[0]
		rk := "R"
		s.sign = func() { signContract(&t.FileContracts[0], rk, "H"); signInputs(t, "A") }
		s.tamper["contract"] = func() bool { t.FileContracts[0].MissedHostValue = cur(18); return true }
		s.tamper["out-addr"] = func() bool { t.SiacoinOutputs[0].Address = addrC; return true }
		s.tamper["arb"] = func() bool { t.ArbitraryData[3] ^= 1; return true }
		s.tamper["sig-flip"] = func() bool { flip(&t.SiacoinInputs[0].SatisfiedPolicy.Signatures[0]); return true }
		s.tamper["sig-drop"] = func() bool { t.SiacoinInputs[0].SatisfiedPolicy.Signatures = nil; return true }
		s.tamper["sig-extra"] = func() bool {
			sp := &t.SiacoinInputs[0].SatisfiedPolicy
			sp.Signatures = append(sp.Signatures, sp.Signatures[0])
			return true
		}
		s.tamper["contract-sig-flip"] = func() bool { flip(&t.FileContracts[0].HostSignature); signInputs(t, "A"); return true }
		s.tamper["other-key"] = func() bool { rk = "X"; s.sign(); return true } // the renter named in the contract did not sign
	case "v2rev":
		fce, ok := existing()
		if !ok {
			return
		}
		rev := fce.V2FileContract
		rev.RevisionNumber = 3
		rev.RenterOutput.Value, rev.HostOutput.Value = cur(250000), cur(49)
		s.v2 = []types.V2Transaction{{FileContractRevisions: []types.V2FileContractRevision{{Parent: fce, Revision: rev}}}}
		t := &s.v2[0]
		rk, hk := "R", "H"
		s.sign = func() { signContract(&t.FileContractRevisions[0].Revision, rk, hk) }
		s.tamper["revision"] = func() bool { t.FileContractRevisions[0].Revision.MissedHostValue = cur(18); return true }
		s.tamper["contract-sig-flip"] = func() bool { flip(&t.FileContractRevisions[0].Revision.RenterSignature); return true }
		s.tamper["proposed-keys"] = func() bool {
			// the revision hands the contract to a new renter key and is signed with that new key
			t.FileContractRevisions[0].Revision.RenterPublicKey = k.PK("X")
			rk = "X"
			s.sign()
			return true
		}
	case "v2rev2":
		fce, ok := existing()
		if !ok {
			return
		}
		r1 := fce.V2FileContract
		r1.RevisionNumber = 1
		r1.RenterPublicKey = k.PK("X") // the contract is handed to a new renter key
		signContract(&r1, "R", "H")
		r2 := r1
		r2.RevisionNumber = 2
		r2.RenterOutput.Value, r2.HostOutput.Value = cur(250000), cur(49)
		s.v2 = []types.V2Transaction{
			{FileContractRevisions: []types.V2FileContractRevision{{Parent: fce.Copy(), Revision: r1}}},
			{FileContractRevisions: []types.V2FileContractRevision{{Parent: fce.Copy(), Revision: r2}}},
		}
		t := &s.v2[1]
		rk := "X"
		s.sign = func() { signContract(&t.FileContractRevisions[0].Revision, rk, "H") }
		s.tamper["revision"] = func() bool { t.FileContractRevisions[0].Revision.MissedHostValue = cur(18); return true }
		s.tamper["contract-sig-flip"] = func() bool { flip(&t.FileContractRevisions[0].Revision.HostSignature); return true }
		s.tamper["stale-keys"] = func() bool { rk = "R"; s.sign(); return true } // signed by the keys the contract no longer has
	case "v2renew":
		fce, ok := existing()
		if !ok {
			return
		}
		old := fce.V2FileContract
		nc := newContract(30, 35)
		ren := &types.V2FileContractRenewal{
			FinalRenterOutput: types.SiacoinOutput{Value: old.RenterOutput.Value.Sub(cur(1000)), Address: old.RenterOutput.Address},
			FinalHostOutput:   types.SiacoinOutput{Value: old.HostOutput.Value, Address: old.HostOutput.Address},
			RenterRollover:    cur(1000), NewContract: nc}
		e := gen(sim, 12)
		need := cost(nc).Sub(cur(1000))
		s.v2 = []types.V2Transaction{{
			SiacoinInputs:           []types.V2SiacoinInput{{Parent: e, SatisfiedPolicy: types.SatisfiedPolicy{Policy: k.Policy("A")}}},
			SiacoinOutputs:          []types.SiacoinOutput{{Value: e.SiacoinOutput.Value.Sub(need), Address: k.Addr("A")}},
			FileContractResolutions: []types.V2FileContractResolution{{Parent: fce, Resolution: ren}},
		}}
		rk, hk, nrk := "R", "H", "R"
		signAll := func() {
			t := &s.v2[len(s.v2)-1]
			r := t.FileContractResolutions[0].Resolution.(*types.V2FileContractRenewal)
			signContract(&r.NewContract, nrk, "H")
			h := sim.CS.RenewalSigHash(*r)
			r.RenterSignature, r.HostSignature = k.SK(rk).SignHash(h), k.SK(hk).SignHash(h)
			signInputs(t, "A")
		}
		s.sign = signAll
		t := &s.v2[0]
		s.tamper["renewal-final"] = func() bool { ren.FinalRenterOutput.Address = addrC; return true }
		s.tamper["renewal-new"] = func() bool { ren.NewContract.MissedHostValue = cur(18); return true }
		s.tamper["out-addr"] = func() bool { t.SiacoinOutputs[0].Address = addrC; return true }
		s.tamper["sig-flip"] = func() bool { flip(&t.SiacoinInputs[0].SatisfiedPolicy.Signatures[0]); return true }
		s.tamper["sig-drop"] = func() bool { t.SiacoinInputs[0].SatisfiedPolicy.Signatures = nil; return true }
		s.tamper["sig-extra"] = func() bool {
			sp := &t.SiacoinInputs[0].SatisfiedPolicy
			sp.Signatures = append(sp.Signatures, sp.Signatures[0])
			return true
		}
		s.tamper["renewal-sig-flip"] = func() bool { flip(&ren.HostSignature); signInputs(t, "A"); return true }
		s.tamper["contract-sig-flip"] = func() bool {
			flip(&ren.NewContract.RenterSignature)
			h := sim.CS.RenewalSigHash(*ren)
			ren.RenterSignature, ren.HostSignature = k.SK("R").SignHash(h), k.SK("H").SignHash(h)
			signInputs(t, "A")
			return true
		}
		s.tamper["renewal-swap-new"] = func() bool {
			// the new contract is exchanged for another one that renter and host have both signed (an earlier proposal,
			// say), the renewal signatures stay as they are: they must bind the contract they were made for
			ren.NewContract.RenterOutput.Address = addrC
			signContract(&ren.NewContract, "R", "H")
			signInputs(t, "A")
			return true
		}
		s.tamper["renew-other-keys"] = func() bool {
			// the new contract names another renter key (and that key signs it)
			ren.NewContract.RenterPublicKey = k.PK("X")
			nrk = "X"
			signAll()
			return true
		}
		s.tamper["renew-stale-keys"] = func() bool {
			// an earlier transaction of the same block hands the contract to a new renter key; the renewal is
			// still signed by, and keeps, the keys the contract had before the block
			rev := old
			rev.RevisionNumber = 1
			rev.RenterPublicKey = k.PK("X")
			signContract(&rev, "R", "H") // signed by the keys of the contract as it stands: valid
			revTxn := types.V2Transaction{FileContractRevisions: []types.V2FileContractRevision{{Parent: fce.Copy(), Revision: rev}}}
			s.v2 = []types.V2Transaction{revTxn, s.v2[0]}
			return true
		}
	case "v2attest":
		if !advance(c, sim, 1, nil) {
			return
		}
		e := gen(sim, 2)
		att := types.Attestation{PublicKey: k.PK("A"), Key: "hostname", Value: []byte("example.sia.tech")}
		s.v2 = []types.V2Transaction{{
			SiacoinInputs:  []types.V2SiacoinInput{{Parent: e, SatisfiedPolicy: types.SatisfiedPolicy{Policy: k.Policy("A")}}},
			SiacoinOutputs: []types.SiacoinOutput{{Value: e.SiacoinOutput.Value, Address: k.Addr("B")}},
			Attestations:   []types.Attestation{att},
		}}
		t := &s.v2[0]
		ak := "A"
		s.sign = func() {
			t.Attestations[0].Signature = k.SK(ak).SignHash(sim.CS.AttestationSigHash(t.Attestations[0]))
			signInputs(t, "A")
		}
		s.tamper["attest-value"] = func() bool { t.Attestations[0].Value = []byte("evil.example.org"); return true }
		s.tamper["out-addr"] = func() bool { t.SiacoinOutputs[0].Address = addrC; return true }
		s.tamper["sig-flip"] = func() bool { flip(&t.SiacoinInputs[0].SatisfiedPolicy.Signatures[0]); return true }
		s.tamper["sig-drop"] = func() bool { t.SiacoinInputs[0].SatisfiedPolicy.Signatures = nil; return true }
		s.tamper["sig-extra"] = func() bool {
			sp := &t.SiacoinInputs[0].SatisfiedPolicy
			sp.Signatures = append(sp.Signatures, sp.Signatures[0])
			return true
		}
		s.tamper["attest-sig-flip"] = func() bool { flip(&t.Attestations[0].Signature); signInputs(t, "A"); return true }
		s.tamper["attest-other-key"] = func() bool {
			// the attestation names key B but is signed by A
			t.Attestations[0].PublicKey = k.PK("B")
			s.sign()
			return true
		}
	}
}
