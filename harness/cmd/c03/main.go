// C03 — Spends, revisions, renewals, attestations need content-binding authorisation.
//
//  1. spec/ledger/Authorization.tla states, for every shape of signed transaction and every single-point tampering
//     (of covered content, of a witness, of the claimed keys / policy), the verdict the property demands, and for
//     content tamperings the control verdict after the legitimate signer signs again. TLC checks the table's
//     coherence and emits it.
//  2. Direction A: every (shape, tampering) case is built on a real chain with real keys: the untampered block must
//     be accepted by the real ValidateBlock, the tampered one must get the demanded verdict, and the re-signed control
//     must be accepted (so that nothing but the stale authorisation is wrong with the tampered block).
//  3. The authorisation defects of Ledger.tla (bad / missing signature, wrong keys, revision signed with the proposed
//     keys) are also exercised inside TLC-simulated ledger behaviours on three network shapes.
package main

import (
	"bytes"
	"crypto/sha256"
	"encoding/json"
	"fmt"
	"os"
	"strings"
	"sync"
	"time"

	"go.sia.tech/core/consensus"
	"go.sia.tech/core/types"
	"verif/harness/chain"
	"verif/harness/vlib"
)

type authCase struct {
	Shape    string `json:"shape"`
	Tamper   string `json:"tamper"`
	Expected string `json:"expected"`
	Resigned string `json:"resigned"`
}

// scen is one valid signed block content on a real chain, with the means to tamper and to sign again.
type scen struct {
	sim    *chain.Sim
	k      *chain.Keyring
	v1     []types.Transaction
	v2     []types.V2Transaction
	sign   func()                    // (re-)authorise everything legitimately
	tamper map[string]func() bool    // tampering by name; false: not applicable after all
	pre    [32]byte
}

func cur(v uint64) types.Currency { return types.NewCurrency64(v) }

func unknownUC(k *chain.Keyring) types.UnlockConditions {
	return types.UnlockConditions{PublicKeys: []types.UnlockKey{{Algorithm: types.NewSpecifier("quantum"), Key: []byte{1, 2, 3, 4}}}, SignaturesRequired: 1}
}

func flip(sig *types.Signature) { sig[11] ^= 0x10 }

// newSim builds the chain every scenario starts from: genesis outputs for every lock shape, and (two blocks) one v1
// and one v2 contract for the revision / renewal shapes.
func newSim(shape string) (*chain.Sim, *chain.Keyring, [32]byte) {
	k := chain.NewKeyring()
	var pre [32]byte
	copy(pre[:], "the preimage of the hash lock!!!")
	k.CustomUC["MS"] = types.UnlockConditions{PublicKeys: []types.UnlockKey{k.PK("A").UnlockKey(), k.PK("B").UnlockKey(), k.PK("C").UnlockKey()}, SignaturesRequired: 2}
	k.CustomUC["UK"] = unknownUC(k)
	k.Custom["PK"] = types.PolicyPublicKey(k.PK("A"))
	k.Custom["TH"] = types.PolicyThreshold(2, []types.SpendPolicy{types.PolicyPublicKey(k.PK("A")), types.PolicyPublicKey(k.PK("B")), types.PolicyOpaque(types.PolicyPublicKey(k.PK("C")))})
	k.Custom["HL"] = types.PolicyThreshold(2, []types.SpendPolicy{types.PolicyHash(sha256.Sum256(pre[:])), types.PolicyPublicKey(k.PK("A"))})
	k.Custom["AB"] = types.PolicyThreshold(2, []types.SpendPolicy{types.PolicyAbove(1), types.PolicyPublicKey(k.PK("A"))})
	k.Custom["AF"] = types.PolicyThreshold(2, []types.SpendPolicy{types.PolicyAfter(chain.GenesisTime.Add(-time.Hour)), types.PolicyPublicKey(k.PK("A"))})
	p := chain.Params{MatDelay: 1, AllowH: 2, RequireH: 50, EphH: 2, FoundH: 1, Reward: 500, Keyring: k,
		GenSC: []chain.AbsOut{{600000, "A"}, {5000, "A"}, {5000, "MS"}, {5000, "UK"}, {5000, "PK"}, {5000, "TH"}, {5000, "HL"}, {5000, "AB"}, {5000, "AF"},
			{5000, "F"}, {5000, "M"}, {600000, "A"}, {5000, "B"}},
		GenSF: []chain.AbsOut{{7000, "A"}, {3000, "PK"}}}
	sim := chain.NewSim(p)
	return sim, k, pre
}

// gen returns the genesis siacoin element with the given 1-based index.
func gen(sim *chain.Sim, i int) types.SiacoinElement {
	id, _ := sim.Real(chain.SID{chain.SCO, 0, 0, i, 0})
	return sim.Store.SC[types.SiacoinOutputID(id)].Copy()
}

func raw(v any) json.RawMessage { b, _ := json.Marshal(v); return b }

// advance applies blocks of abstract transactions (empty when nil) until the tip has the given height.
func advance(c *vlib.Ctx, sim *chain.Sim, upto uint64, txs map[uint64][]chain.AbsTx) bool {
	for h := sim.CS.Index.Height + 1; h <= upto; h++ {
		r, infra := sim.RunStep(int(h), chain.Step{Op: "block", Verdict: "accept", Txs: txs[h]})
		if infra != nil || len(r.Mismatches) > 0 {
			c.Infra("authorisation scenario: cannot build block %d: %v %+v", h, infra, r.Mismatches)
			return false
		}
	}
	return true
}

func whole(parent types.Hash256) types.TransactionSignature {
	return types.TransactionSignature{ParentID: parent, CoveredFields: types.CoveredFields{WholeTransaction: true}}
}

func signV1(sim *chain.Sim, txn *types.Transaction, keys map[int]types.PrivateKey) {
	for i := range txn.Signatures {
		sg := &txn.Signatures[i]
		var h types.Hash256
		if sg.CoveredFields.WholeTransaction {
			h = sim.CS.WholeSigHash(*txn, sg.ParentID, sg.PublicKeyIndex, sg.Timelock, sg.CoveredFields.Signatures)
		} else {
			h = sim.CS.PartialSigHash(*txn, sg.CoveredFields)
		}
		s := keys[i].SignHash(h)
		sg.Signature = s[:]
	}
}

func build(c *vlib.Ctx, shape string) *scen {
	sim, k, pre := newSim(shape)
	s := &scen{sim: sim, k: k, pre: pre, tamper: map[string]func() bool{}}
	addrC := k.Addr("C")
	// ---- v1 payment shapes --------------------------------------------------------------------------
	v1pay := func(idx int, uc types.UnlockConditions, sigs []types.TransactionSignature, keys map[int]types.PrivateKey) {
		if !advance(c, sim, 0, nil) {
			return
		}
		e := gen(sim, idx)
		txn := types.Transaction{
			SiacoinInputs:  []types.SiacoinInput{{ParentID: e.ID, UnlockConditions: uc}},
			SiacoinOutputs: []types.SiacoinOutput{{Value: cur(2000), Address: k.Addr("B")}, {Value: cur(2990), Address: k.Addr("A")}},
			MinerFees:      []types.Currency{cur(10)},
			ArbitraryData:  [][]byte{[]byte("arbitrary data of the payment"), []byte("second entry")},
		}
		for i := range sigs {
			sigs[i].ParentID = types.Hash256(e.ID)
		}
		txn.Signatures = sigs
		s.v1 = []types.Transaction{txn}
		t := &s.v1[0]
		s.sign = func() { signV1(sim, t, keys) }
		s.tamper["out-addr"] = func() bool { t.SiacoinOutputs[0].Address = addrC; return true }
		s.tamper["out-split"] = func() bool {
			t.SiacoinOutputs[0].Value, t.SiacoinOutputs[1].Value = cur(1999), cur(2991)
			return true
		}
		s.tamper["fee-shift"] = func() bool { t.SiacoinOutputs[0].Value, t.MinerFees[0] = cur(1999), cur(11); return true }
		s.tamper["arb"] = func() bool { t.ArbitraryData[0][3] ^= 1; return true }
		s.tamper["arb-shift"] = func() bool { // the last byte of entry 0 becomes the first byte of entry 1
			a0, a1 := t.ArbitraryData[0], t.ArbitraryData[1]
			t.ArbitraryData = [][]byte{append([]byte(nil), a0[:len(a0)-1]...), append([]byte{a0[len(a0)-1]}, a1...)}
			return true
		}
		s.tamper["uncovered-out"] = func() bool { t.SiacoinOutputs[1].Address = addrC; return true }
		s.tamper["second-out"] = func() bool { t.SiacoinOutputs[1].Address = addrC; return true }
		s.tamper["sig-flip"] = func() bool { t.Signatures[0].Signature[9] ^= 4; return true }
		s.tamper["sig-drop"] = func() bool { t.Signatures = t.Signatures[:len(t.Signatures)-1]; return true }
		s.tamper["sig-extra"] = func() bool { t.Signatures = append(t.Signatures, t.Signatures[0]); return true }
		s.tamper["sig-swap"] = func() bool {
			if len(t.Signatures) < 2 {
				return false
			}
			t.Signatures[0].Signature, t.Signatures[1].Signature = t.Signatures[1].Signature, t.Signatures[0].Signature
			return true
		}
		s.tamper["sig-dup-key"] = func() bool { // the first key signs a second time instead of the second key
			if len(t.Signatures) < 2 {
				return false
			}
			t.Signatures[1].PublicKeyIndex = t.Signatures[0].PublicKeyIndex
			signV1(sim, t, map[int]types.PrivateKey{0: keys[0], 1: keys[0]})
			return true
		}
		s.tamper["other-policy"] = func() bool {
			t.SiacoinInputs[0].UnlockConditions = k.UC("X")
			t.Signatures = []types.TransactionSignature{whole(types.Hash256(e.ID))}
			signV1(sim, t, map[int]types.PrivateKey{0: k.SK("X")})
			return true
		}
		s.tamper["other-key"] = func() bool { signV1(sim, t, map[int]types.PrivateKey{0: k.SK("X"), 1: k.SK("X")}); return true }
		s.tamper["alg-swap"] = func() bool { return algSwap(&t.SiacoinInputs[0].UnlockConditions, t) }
	}
	v2pay := func(idx int, pol types.SpendPolicy, signers []string, pres [][32]byte) {
		if !advance(c, sim, 1, nil) {
			return
		}
		e := gen(sim, idx)
		var first *types.V2Transaction
		if idx < 0 {
			// ephemeral parent: an earlier transaction of the same block pays the output that is then spent
			g := gen(sim, 2)
			ft := types.V2Transaction{SiacoinInputs: []types.V2SiacoinInput{{Parent: g, SatisfiedPolicy: types.SatisfiedPolicy{Policy: k.Policy("A")}}},
				SiacoinOutputs: []types.SiacoinOutput{{Value: cur(5000), Address: pol.Address()}}}
			ft.SiacoinInputs[0].SatisfiedPolicy.Signatures = []types.Signature{k.SK("A").SignHash(sim.CS.InputSigHash(ft))}
			first = &ft
			e = ft.EphemeralSiacoinOutput(0)
		}
		txn := types.V2Transaction{
			SiacoinInputs:  []types.V2SiacoinInput{{Parent: e, SatisfiedPolicy: types.SatisfiedPolicy{Policy: pol}}},
			SiacoinOutputs: []types.SiacoinOutput{{Value: cur(2000), Address: k.Addr("B")}, {Value: cur(2990), Address: k.Addr("A")}},
			MinerFee:       cur(10), ArbitraryData: []byte("arbitrary data of the payment"),
		}
		s.v2 = []types.V2Transaction{txn}
		if first != nil {
			s.v2 = []types.V2Transaction{*first, txn}
		}
		t := &s.v2[len(s.v2)-1]
		s.tamper["relabel-parent"] = func() bool {
			// the parent is presented as belonging to another address, with that address's policy and signature
			t.SiacoinInputs[0].Parent.SiacoinOutput.Address = k.Addr("X")
			t.SiacoinInputs[0].SatisfiedPolicy = types.SatisfiedPolicy{Policy: k.Policy("X")}
			t.SiacoinInputs[0].SatisfiedPolicy.Signatures = []types.Signature{k.SK("X").SignHash(sim.CS.InputSigHash(*t))}
			return true
		}
		signWith := func(names []string) {
			h := sim.CS.InputSigHash(*t)
			var sigs []types.Signature
			for _, n := range names {
				sigs = append(sigs, k.SK(n).SignHash(h))
			}
			t.SiacoinInputs[0].SatisfiedPolicy.Signatures = sigs
			t.SiacoinInputs[0].SatisfiedPolicy.Preimages = append([][32]byte(nil), pres...)
		}
		s.sign = func() { signWith(signers) }
		sp := &t.SiacoinInputs[0].SatisfiedPolicy
		s.tamper["out-addr"] = func() bool { t.SiacoinOutputs[0].Address = addrC; return true }
		s.tamper["out-split"] = func() bool {
			t.SiacoinOutputs[0].Value, t.SiacoinOutputs[1].Value = cur(1999), cur(2991)
			return true
		}
		s.tamper["fee-shift"] = func() bool { t.SiacoinOutputs[0].Value, t.MinerFee = cur(1999), cur(11); return true }
		s.tamper["arb"] = func() bool { t.ArbitraryData[3] ^= 1; return true }
		s.tamper["sig-flip"] = func() bool { flip(&sp.Signatures[0]); return true }
		s.tamper["sig-drop"] = func() bool { sp.Signatures = sp.Signatures[:len(sp.Signatures)-1]; return true }
		s.tamper["sig-extra"] = func() bool { sp.Signatures = append(sp.Signatures, sp.Signatures[0]); return true }
		s.tamper["sig-swap"] = func() bool {
			if len(sp.Signatures) < 2 {
				return false
			}
			sp.Signatures[0], sp.Signatures[1] = sp.Signatures[1], sp.Signatures[0]
			return true
		}
		s.tamper["pre-wrong"] = func() bool { sp.Preimages[0][5] ^= 2; return true }
		s.tamper["pre-drop"] = func() bool { sp.Preimages = nil; return true }
		s.tamper["pre-extra"] = func() bool { sp.Preimages = append(sp.Preimages, pre); return true }
		s.tamper["other-policy"] = func() bool {
			sp.Policy = types.PolicyPublicKey(k.PK("X"))
			sp.Signatures = []types.Signature{k.SK("X").SignHash(sim.CS.InputSigHash(*t))}
			sp.Preimages = nil
			return true
		}
		s.tamper["fnd-append"] = func() bool { a := addrC; t.NewFoundationAddress = &a; return true }
		s.tamper["fnd-append-void"] = func() bool { a := types.VoidAddress; t.NewFoundationAddress = &a; return true }
		s.tamper["timelocked-policy"] = func() bool {
			// the same keys behind a weaker lock: another policy, another address
			sp.Policy = types.PolicyThreshold(2, []types.SpendPolicy{types.PolicyAbove(0), types.PolicyPublicKey(k.PK("A"))})
			signWith(signers)
			return true
		}
		s.tamper["other-key"] = func() bool {
			x := make([]string, len(signers))
			for i := range x {
				x[i] = "X"
			}
			signWith(x)
			return true
		}
	}
	switch shape {
	case "v1whole":
		v1pay(2, k.UC("A"), []types.TransactionSignature{whole(types.Hash256{})}, map[int]types.PrivateKey{0: k.SK("A")})
	case "v1partial":
		v1pay(2, k.UC("A"), []types.TransactionSignature{{CoveredFields: types.CoveredFields{SiacoinInputs: []uint64{0}, SiacoinOutputs: []uint64{0}, MinerFees: []uint64{0}}}}, map[int]types.PrivateKey{0: k.SK("A")})
		// moving a hasting between outputs 0 and 1 touches covered output 0; the fee shift touches covered output 0 and the covered fee
	case "v1partial1":
		v1pay(2, k.UC("A"), []types.TransactionSignature{{CoveredFields: types.CoveredFields{SiacoinInputs: []uint64{0}, SiacoinOutputs: []uint64{1}, MinerFees: []uint64{0}}}}, map[int]types.PrivateKey{0: k.SK("A")})
	case "v1multisig":
		v1pay(3, k.CustomUC["MS"], []types.TransactionSignature{whole(types.Hash256{}), {PublicKeyIndex: 1, CoveredFields: types.CoveredFields{WholeTransaction: true}}},
			map[int]types.PrivateKey{0: k.SK("A"), 1: k.SK("B")})
	case "v1unknown":
		v1pay(4, k.CustomUC["UK"], []types.TransactionSignature{whole(types.Hash256{})}, map[int]types.PrivateKey{0: k.SK("X")})
	case "v1sf":
		id, _ := sim.Real(chain.SID{chain.SFO, 0, 0, 1, 0})
		e := sim.Store.SF[types.SiafundOutputID(id)].Copy()
		s.v1 = []types.Transaction{{
			SiafundInputs:  []types.SiafundInput{{ParentID: e.ID, UnlockConditions: k.UC("A"), ClaimAddress: k.Addr("A")}},
			SiafundOutputs: []types.SiafundOutput{{Value: 7000, Address: k.Addr("B")}},
			ArbitraryData:  [][]byte{[]byte("arbitrary data")},
			Signatures:     []types.TransactionSignature{whole(types.Hash256(e.ID))},
		}}
		t := &s.v1[0]
		s.sign = func() { signV1(sim, t, map[int]types.PrivateKey{0: k.SK("A")}) }
		s.tamper["claim"] = func() bool { t.SiafundInputs[0].ClaimAddress = addrC; return true }
		s.tamper["out-addr"] = func() bool { t.SiafundOutputs[0].Address = addrC; return true }
		s.tamper["arb"] = func() bool { t.ArbitraryData[0][3] ^= 1; return true }
		s.tamper["sig-flip"] = func() bool { t.Signatures[0].Signature[9] ^= 4; return true }
		s.tamper["sig-drop"] = func() bool { t.Signatures = nil; return true }
		s.tamper["sig-extra"] = func() bool { t.Signatures = append(t.Signatures, t.Signatures[0]); return true }
		s.tamper["other-policy"] = func() bool {
			t.SiafundInputs[0].UnlockConditions = k.UC("X")
			signV1(sim, t, map[int]types.PrivateKey{0: k.SK("X")})
			return true
		}
		s.tamper["other-key"] = func() bool { signV1(sim, t, map[int]types.PrivateKey{0: k.SK("X")}); return true }
		s.tamper["alg-swap"] = func() bool { return algSwap(&t.SiafundInputs[0].UnlockConditions, t) }
	case "v1revision":
		pay := uint64(256411)
		vs := pay - (pay*39/1000)/10000*10000
		c1 := func(rn uint64) map[string]any {
			return map[string]any{"pay": pay, "vo": []chain.AbsOut{{vs / 2, "A"}, {vs - vs/2, "B"}}, "mo": []chain.AbsOut{{vs / 2, "A"}, {vs - vs/2, "V"}}, "ws": 20, "we": 22, "rn": rn, "size": 200, "owner": "A"}
		}
		if !advance(c, sim, 1, map[uint64][]chain.AbsTx{1: {{Ver: 1, Sci: []chain.AbsIn{{ID: chain.SID{chain.SCO, 0, 0, 1, 0}, Auth: "ok"}}, Sco: []chain.AbsOut{{600000 - pay, "A"}}, Fc: []json.RawMessage{raw(c1(0))}, Tag: "form1"}}}) {
			return nil
		}
		id, _ := sim.Real(chain.SID{chain.FC1, 1, 0, 1, 0})
		fce := sim.Store.FC[types.FileContractID(id)]
		rev := fce.FileContract
		rev.RevisionNumber = 5
		rev.ValidProofOutputs = append([]types.SiacoinOutput(nil), rev.ValidProofOutputs...)
		rev.MissedProofOutputs = append([]types.SiacoinOutput(nil), rev.MissedProofOutputs...)
		s.v1 = []types.Transaction{{
			FileContractRevisions: []types.FileContractRevision{{ParentID: fce.ID, UnlockConditions: k.UC("A"), FileContract: rev}},
			ArbitraryData:         [][]byte{[]byte("arbitrary data")},
			Signatures:            []types.TransactionSignature{whole(types.Hash256(fce.ID))},
		}}
		t := &s.v1[0]
		s.sign = func() { signV1(sim, t, map[int]types.PrivateKey{0: k.SK("A")}) }
		s.tamper["revision"] = func() bool { t.FileContractRevisions[0].FileContract.ValidProofOutputs[0].Address = addrC; return true }
		s.tamper["arb"] = func() bool { t.ArbitraryData[0][3] ^= 1; return true }
		s.tamper["sig-flip"] = func() bool { t.Signatures[0].Signature[9] ^= 4; return true }
		s.tamper["sig-drop"] = func() bool { t.Signatures = nil; return true }
		s.tamper["sig-extra"] = func() bool { t.Signatures = append(t.Signatures, t.Signatures[0]); return true }
		s.tamper["other-policy"] = func() bool {
			t.FileContractRevisions[0].UnlockConditions = k.UC("X")
			signV1(sim, t, map[int]types.PrivateKey{0: k.SK("X")})
			return true
		}
		s.tamper["other-key"] = func() bool { signV1(sim, t, map[int]types.PrivateKey{0: k.SK("X")}); return true }
		s.tamper["alg-swap"] = func() bool { return algSwap(&t.FileContractRevisions[0].UnlockConditions, t) }
	case "v1fndpartial":
		if !advance(c, sim, 1, nil) {
			return nil
		}
		e := gen(sim, 10) // owned by the Foundation primary address
		s.v1 = []types.Transaction{{
			SiacoinInputs:  []types.SiacoinInput{{ParentID: e.ID, UnlockConditions: k.UC("F")}},
			SiacoinOutputs: []types.SiacoinOutput{{Value: cur(3000), Address: k.Addr("B")}, {Value: cur(2000), Address: k.Addr("F")}},
			ArbitraryData:  [][]byte{[]byte("memo: a payment by the Foundation")},
			Signatures: []types.TransactionSignature{{ParentID: types.Hash256(e.ID),
				CoveredFields: types.CoveredFields{SiacoinInputs: []uint64{0}, SiacoinOutputs: []uint64{0}, ArbitraryData: []uint64{0}}}},
		}}
		t := &s.v1[0]
		s.sign = func() { signV1(sim, t, map[int]types.PrivateKey{0: k.SK("F")}) }
		s.tamper["out-addr"] = func() bool { t.SiacoinOutputs[0].Address = addrC; return true }
		s.tamper["uncovered-out"] = func() bool { t.SiacoinOutputs[1].Address = addrC; return true }
		s.tamper["sig-flip"] = func() bool { t.Signatures[0].Signature[9] ^= 4; return true }
		s.tamper["sig-drop"] = func() bool { t.Signatures = nil; return true }
		s.tamper["sig-extra"] = func() bool { t.Signatures = append(t.Signatures, t.Signatures[0]); return true }
		s.tamper["other-key"] = func() bool { signV1(sim, t, map[int]types.PrivateKey{0: k.SK("X")}); return true }
		s.tamper["fnd-append"] = func() bool {
			// a third party appends a Foundation address update in an entry the signature does not cover
			var buf bytes.Buffer
			enc := types.NewEncoder(&buf)
			types.SpecifierFoundation.EncodeTo(enc)
			types.FoundationAddressUpdate{NewPrimary: addrC, NewFailsafe: addrC}.EncodeTo(enc)
			enc.Flush()
			t.ArbitraryData = append(t.ArbitraryData, buf.Bytes())
			return true
		}
	case "v1foundation", "v2foundation":
		if !advance(c, sim, 1, nil) {
			return nil
		}
		upd := func(a types.Address) []byte {
			var buf bytes.Buffer
			e := types.NewEncoder(&buf)
			types.SpecifierFoundation.EncodeTo(e)
			types.FoundationAddressUpdate{NewPrimary: a, NewFailsafe: a}.EncodeTo(e)
			e.Flush()
			return buf.Bytes()
		}
		if shape == "v1foundation" {
			e := gen(sim, 10) // owned by the Foundation primary address
			s.v1 = []types.Transaction{{
				SiacoinInputs:  []types.SiacoinInput{{ParentID: e.ID, UnlockConditions: k.UC("F")}},
				SiacoinOutputs: []types.SiacoinOutput{{Value: cur(5000), Address: k.Addr("B")}},
				ArbitraryData:  [][]byte{upd(k.Addr("A"))},
				Signatures:     []types.TransactionSignature{whole(types.Hash256(e.ID))},
			}}
			t := &s.v1[0]
			key := "F"
			s.sign = func() { signV1(sim, t, map[int]types.PrivateKey{0: k.SK(key)}) }
			s.tamper["fnd-addr"] = func() bool { t.ArbitraryData[0] = upd(addrC); return true }
			s.tamper["out-addr"] = func() bool { t.SiacoinOutputs[0].Address = addrC; return true }
			s.tamper["sig-flip"] = func() bool { t.Signatures[0].Signature[9] ^= 4; return true }
			s.tamper["sig-drop"] = func() bool { t.Signatures = nil; return true }
			s.tamper["sig-extra"] = func() bool { t.Signatures = append(t.Signatures, t.Signatures[0]); return true }
			s.tamper["other-key"] = func() bool { signV1(sim, t, map[int]types.PrivateKey{0: k.SK("X")}); return true }
			s.tamper["fnd-unauthorised"] = func() bool {
				// the same update carried by a transaction that spends an ordinary output
				o := gen(sim, 13)
				t.SiacoinInputs[0] = types.SiacoinInput{ParentID: o.ID, UnlockConditions: k.UC("B")}
				t.Signatures = []types.TransactionSignature{whole(types.Hash256(o.ID))}
				signV1(sim, t, map[int]types.PrivateKey{0: k.SK("B")})
				return true
			}
			// ... to an address that is already in effect as one of the two: the other one changes
			for name, to := range map[string]string{"fnd-unauthorised-primary": "F", "fnd-unauthorised-mgmt": "M"} {
				to := to
				s.tamper[name] = func() bool {
					s.tamper["fnd-unauthorised"]()
					t.ArbitraryData[0] = upd(k.Addr(to))
					signV1(sim, t, map[int]types.PrivateKey{0: k.SK("B")})
					return true
				}
			}
		} else {
			e := gen(sim, 11) // owned by the management (failsafe) address
			a := k.Addr("A")
			s.v2 = []types.V2Transaction{{
				SiacoinInputs:        []types.V2SiacoinInput{{Parent: e, SatisfiedPolicy: types.SatisfiedPolicy{Policy: k.Policy("M")}}},
				SiacoinOutputs:       []types.SiacoinOutput{{Value: cur(5000), Address: k.Addr("B")}},
				NewFoundationAddress: &a,
			}}
			t := &s.v2[0]
			signer := "M"
			s.sign = func() {
				t.SiacoinInputs[0].SatisfiedPolicy.Signatures = []types.Signature{k.SK(signer).SignHash(sim.CS.InputSigHash(*t))}
			}
			s.tamper["fnd-addr"] = func() bool { x := addrC; t.NewFoundationAddress = &x; return true }
			s.tamper["out-addr"] = func() bool { t.SiacoinOutputs[0].Address = addrC; return true }
			s.tamper["sig-flip"] = func() bool { flip(&t.SiacoinInputs[0].SatisfiedPolicy.Signatures[0]); return true }
			s.tamper["sig-drop"] = func() bool { t.SiacoinInputs[0].SatisfiedPolicy.Signatures = nil; return true }
			s.tamper["sig-extra"] = func() bool {
				sp := &t.SiacoinInputs[0].SatisfiedPolicy
				sp.Signatures = append(sp.Signatures, sp.Signatures[0])
				return true
			}
			s.tamper["fnd-unauthorised"] = func() bool {
				o := gen(sim, 13)
				t.SiacoinInputs[0] = types.V2SiacoinInput{Parent: o, SatisfiedPolicy: types.SatisfiedPolicy{Policy: k.Policy("B")}}
				t.SiacoinInputs[0].SatisfiedPolicy.Signatures = []types.Signature{k.SK("B").SignHash(sim.CS.InputSigHash(*t))}
				return true
			}
			for name, to := range map[string]string{"fnd-unauthorised-primary": "F", "fnd-unauthorised-mgmt": "M"} {
				to := to
				s.tamper[name] = func() bool {
					x := k.Addr(to)
					t.NewFoundationAddress = &x
					return s.tamper["fnd-unauthorised"]()
				}
			}
		}
	case "v2pk":
		v2pay(5, k.Custom["PK"], []string{"A"}, nil)
	case "v2two":
		// two genesis outputs of the same address spent by one transaction
		if !advance(c, sim, 2, nil) {
			return s
		}
		e1, e2 := gen(sim, 2), gen(sim, 12)
		pol := k.Policy("A")
		txn := types.V2Transaction{
			SiacoinInputs: []types.V2SiacoinInput{{Parent: e1, SatisfiedPolicy: types.SatisfiedPolicy{Policy: pol}}, {Parent: e2, SatisfiedPolicy: types.SatisfiedPolicy{Policy: pol}}},
			SiacoinOutputs: []types.SiacoinOutput{{Value: cur(2000), Address: k.Addr("B")}, {Value: e1.SiacoinOutput.Value.Add(e2.SiacoinOutput.Value).Sub(cur(2010)), Address: k.Addr("A")}},
			MinerFee:       cur(10), ArbitraryData: []byte("arbitrary data of the payment"),
		}
		s.v2 = []types.V2Transaction{txn}
		t := &s.v2[0]
		signAll := func(name string) {
			sig := k.SK(name).SignHash(sim.CS.InputSigHash(*t))
			for i := range t.SiacoinInputs {
				t.SiacoinInputs[i].SatisfiedPolicy.Signatures = []types.Signature{sig}
			}
		}
		s.sign = func() { signAll("A") }
		sp1, sp2 := &t.SiacoinInputs[0].SatisfiedPolicy, &t.SiacoinInputs[1].SatisfiedPolicy
		s.tamper["out-addr"] = func() bool { t.SiacoinOutputs[0].Address = addrC; return true }
		s.tamper["out-split"] = func() bool {
			t.SiacoinOutputs[0].Value, t.SiacoinOutputs[1].Value = cur(1999), t.SiacoinOutputs[1].Value.Add(cur(1))
			return true
		}
		s.tamper["fee-shift"] = func() bool { t.SiacoinOutputs[0].Value, t.MinerFee = cur(1999), cur(11); return true }
		s.tamper["arb"] = func() bool { t.ArbitraryData[3] ^= 1; return true }
		s.tamper["sig-flip"] = func() bool { flip(&sp1.Signatures[0]); return true }
		s.tamper["sig-drop"] = func() bool { sp1.Signatures = nil; return true }
		s.tamper["sig-extra"] = func() bool { sp1.Signatures = append(sp1.Signatures, sp1.Signatures[0]); return true }
		s.tamper["in2-sig-flip"] = func() bool { flip(&sp2.Signatures[0]); return true }
		s.tamper["in2-sig-drop"] = func() bool { sp2.Signatures = nil; return true }
		s.tamper["in2-sig-zero"] = func() bool { sp2.Signatures[0] = types.Signature{}; return true }
		s.tamper["in2-sig-extra"] = func() bool { sp2.Signatures = append(sp2.Signatures, sp2.Signatures[0]); return true }
		s.tamper["other-key"] = func() bool { signAll("X"); return true }
	case "v2mgmt":
		v2pay(11, k.Policy("M"), []string{"M"}, nil)
	case "v2ephemeral":
		v2pay(-1, k.Custom["PK"], []string{"A"}, nil)
	case "v2uc":
		v2pay(2, k.Policy("A"), []string{"A"}, nil)
	case "v2thresh":
		v2pay(6, k.Custom["TH"], []string{"A", "B"}, nil)
	case "v2hash":
		v2pay(7, k.Custom["HL"], []string{"A"}, [][32]byte{pre})
	case "v2above":
		v2pay(8, k.Custom["AB"], []string{"A"}, nil)
	case "v2after":
		v2pay(9, k.Custom["AF"], []string{"A"}, nil)
	case "v2sf":
		if !advance(c, sim, 1, nil) {
			return nil
		}
		id, _ := sim.Real(chain.SID{chain.SFO, 0, 0, 2, 0})
		e := sim.Store.SF[types.SiafundOutputID(id)].Copy()
		s.v2 = []types.V2Transaction{{
			SiafundInputs:  []types.V2SiafundInput{{Parent: e, ClaimAddress: k.Addr("A"), SatisfiedPolicy: types.SatisfiedPolicy{Policy: k.Custom["PK"]}}},
			SiafundOutputs: []types.SiafundOutput{{Value: 3000, Address: k.Addr("B")}},
			ArbitraryData:  []byte("arbitrary data"),
		}}
		t := &s.v2[0]
		signer := "A"
		s.sign = func() {
			t.SiafundInputs[0].SatisfiedPolicy.Signatures = []types.Signature{k.SK(signer).SignHash(sim.CS.InputSigHash(*t))}
		}
		s.tamper["claim"] = func() bool { t.SiafundInputs[0].ClaimAddress = addrC; return true }
		s.tamper["out-addr"] = func() bool { t.SiafundOutputs[0].Address = addrC; return true }
		s.tamper["arb"] = func() bool { t.ArbitraryData[3] ^= 1; return true }
		s.tamper["sig-flip"] = func() bool { flip(&t.SiafundInputs[0].SatisfiedPolicy.Signatures[0]); return true }
		s.tamper["sig-drop"] = func() bool { t.SiafundInputs[0].SatisfiedPolicy.Signatures = nil; return true }
		s.tamper["sig-extra"] = func() bool {
			sp := &t.SiafundInputs[0].SatisfiedPolicy
			sp.Signatures = append(sp.Signatures, sp.Signatures[0])
			return true
		}
		s.tamper["other-policy"] = func() bool {
			t.SiafundInputs[0].SatisfiedPolicy.Policy = types.PolicyPublicKey(k.PK("X"))
			t.SiafundInputs[0].SatisfiedPolicy.Signatures = []types.Signature{k.SK("X").SignHash(sim.CS.InputSigHash(*t))}
			return true
		}
		s.tamper["other-key"] = func() bool { signer = "X"; s.sign(); return true }
	case "v2form", "v2rev", "v2rev2", "v2renew", "v2attest":
		contracts(c, s, shape)
	}
	if s.sign == nil {
		return nil
	}
	s.sign()
	return s
}

// verdict seals the scenario's block content and asks the real ValidateBlock.
func (s *scen) verdict() (accepted bool, detail string) {
	b := s.sim.Seal(s.v1, s.v2)
	err, pan := s.sim.Validate(b, s.sim.Supplement(s.v1))
	if pan != nil {
		return false, fmt.Sprint("panic: ", pan)
	}
	if err != nil {
		return false, err.Error()
	}
	return true, ""
}

func main() {
	c := vlib.Start("C03")
	c.Rule("Every (shape, tampering) case of Authorization.tla is executed on a real chain: base block accepted, tampered block gets the demanded verdict, re-signed control accepted (content tamperings). A case is non-trivial iff its base block was accepted and, for content tamperings, its re-signed control was accepted too. Plus authorisation defects inside TLC-simulated Ledger behaviours.")
	c.Assume("signature coverage is written from the property text; the byte-level pre-images are the subject of C12")

	res := c.MustTLC(vlib.TLCOpts{SpecDirs: []string{"ledger"}, Module: "Authorization", Config: "Authorization.cfg", Workers: 2})
	var cases []authCase
	for _, ln := range res.Lines {
		if strings.HasPrefix(ln, "AUTH ") {
			if err := json.Unmarshal([]byte(vlib.UnquoteTLA(strings.TrimPrefix(ln, "AUTH "))), &cases); err != nil {
				c.Fatal("authorisation table: %v", err)
			}
		}
	}
	if len(cases) == 0 {
		c.Fatal("Authorization printed no cases")
	}
	if c.Replay != "" {
		if chain.Replay(c, chain.RunOpts{}) {
			c.Finish()
		}
		b, _ := os.ReadFile(c.Replay)
		var f struct {
			What string   `json:"what"`
			Case authCase `json:"case"`
		}
		if json.Unmarshal(b, &f) != nil || f.Case.Shape == "" {
			c.Fatal("replay file holds neither a behaviour nor an authorisation case")
		}
		fmt.Printf("replaying authorisation case %+v; required: %s must not happen\n", f.Case, f.What)
		var keep []authCase
		for _, ac := range cases {
			if ac.Shape == f.Case.Shape && ac.Tamper == f.Case.Tamper {
				keep = append(keep, ac)
			}
		}
		cases = keep
	}
	var mu sync.Mutex
	cells := map[string]int{}
	nontriv := int64(0)
	var wg sync.WaitGroup
	sem := make(chan struct{}, 12)
	for _, ac := range cases {
		wg.Add(1)
		sem <- struct{}{}
		go func(ac authCase) {
			defer wg.Done()
			defer func() { <-sem }()
			name := ac.Shape + "/" + ac.Tamper
			s := build(c, ac.Shape)
			if s == nil {
				c.Infra("authorisation shape %s cannot be built", ac.Shape)
				return
			}
			if ok, why := s.verdict(); !ok {
				c.Violation("untampered-rejected/"+ac.Shape, "the valid signed block of shape "+ac.Shape+" is rejected: "+why, ac)
				return
			}
			f, have := s.tamper[ac.Tamper]
			if !have || !f() {
				c.Infra("authorisation case %s: the harness has no such tampering", name)
				return
			}
			ok, why := s.verdict()
			mu.Lock()
			cells[fmt.Sprintf("%s:%s", ac.Tamper, map[bool]string{true: "accepted", false: "rejected"}[ok])]++
			mu.Unlock()
			switch {
			case ac.Expected == "reject" && ok:
				c.Violation("tampered-accepted/"+name, fmt.Sprintf("shape %s: the block is still accepted after tampering %q", ac.Shape, ac.Tamper), ac)
				return
			case ac.Expected == "accept" && !ok:
				c.Violation("uncovered-change-rejected/"+name, fmt.Sprintf("shape %s: changing content outside every signature (%s) makes the block invalid: %s", ac.Shape, ac.Tamper, why), ac)
				return
			}
			if ac.Resigned == "accept" && ac.Expected == "reject" {
				s.sign()
				if ok2, why2 := s.verdict(); !ok2 {
					c.Infra("authorisation case %s: the re-signed control is rejected (%s): the tampering breaks more than the signature", name, why2)
					return
				}
			}
			mu.Lock()
			nontriv++
			mu.Unlock()
		}(ac)
	}
	wg.Wait()
	c.Cov("authorisation_cases", len(cases))
	c.Cov("authorisation_cells", cells)
	c.Traces(int64(len(cases)))
	c.Count(int64(len(cases)), nontriv)
	if c.Replay != "" {
		if c.NViolations() == 0 {
			fmt.Println("observed: the saved case no longer violates the property on this tree")
		}
		c.Finish()
	}
	c.Sample(cases[len(cases)/2])

	// design level: the ledger model with the authorisation defects (a transaction with a defective authorisation
	// never becomes part of an accepted block)
	mc := chain.BaseConfig(chain.Shapes()["v2only"])
	mc.MaxHeight, mc.MaxTxns, mc.MaxReverts = 2, 2, 0
	mc.Templates, mc.Defects = []string{"pay", "sf", "form2", "rev2"}, []string{"auth"}
	mc.PayAmts, mc.FormRH, mc.P.GenSC, mc.Fees = []int{599}, [][2]int{{250024, 25}}, []chain.AbsOut{{300000, "A"}, {1199, "B"}}, []int{0}
	mc.P.MatDelay = 1
	mc.Invariants = []string{"Conservation", "NoDoubleUse"}
	mr := chain.ModelCheck(c, mc, 10*time.Minute)
	c.Cov("mc_states", mr.Distinct)

	// authorisation defects inside simulated ledger behaviours
	total := chain.RunStats{Tags: map[string]int{}}
	for _, name := range []string{"v1only", "mixed", "v2only", "foundation", "devaddr"} {
		cfg := chain.BaseConfig(chain.Shapes()[name])
		cfg.Defects = []string{"auth"}
		if name == "devaddr" {
			cfg.Templates = []string{"pay", "sf"} // the developer-address override spends siafunds
		}
		st := chain.Run(c, cfg, chain.RunOpts{Num: c.Pick(120, 3000), Depth: 56, Timeout: 20 * time.Minute})
		total.Behaviours += st.Behaviours
		total.Steps += st.Steps
		total.Rejected += st.Rejected
		for k, v := range st.Tags {
			total.Tags[k] += v
		}
	}
	for _, shape := range []string{"v1only", "v2only"} {
		cfg := chain.BaseConfig(chain.Shapes()[shape])
		cfg.Defects = []string{"auth"}
		cfg.Templates = map[string][]string{"v1only": {"form1", "rev1", "prove1"}, "v2only": {"form2", "rev2", "res2", "renew2"}}[shape]
		cfg.Pay1, cfg.Sizes, cfg.FormRH = []int{256411}, []int{200}, [][2]int{{250024, 25}}
		st := chain.Run(c, cfg, chain.RunOpts{Num: c.Pick(120, 3000), Depth: 56, NoFocus: true, Timeout: 20 * time.Minute})
		total.Behaviours += st.Behaviours
		total.Steps += st.Steps
		total.Rejected += st.Rejected
		for k, v := range st.Tags {
			total.Tags[k] += v
		}
	}
	c.Cov("ledger_auth_defect_blocks_rejected", total.Rejected)
	c.Cov("ledger_transactions_by_template", total.Tags)
	c.Traces(int64(total.Behaviours))
	c.Count(int64(total.Steps), int64(total.Rejected))
	for _, need := range []string{"v1:pay!badsig", "v2:pay!badsig", "v2:pay!nosig", "v1:pay!wrongkey", "v2:rev2!newkeys", "v1:rev1!badsig", "v2:attest!badsig"} {
		if total.Tags[need] == 0 {
			c.Infra("vacuity: ledger authorisation defect %s never occurred", need)
		}
	}
	_ = consensus.State{}
	c.Finish()
}


// algSwap replaces the revealed unlock conditions by ones that carry the same key bytes under an algorithm nobody
// verifies (any signature is accepted for such a key): other conditions, so they must not hash to the same address.
func algSwap(uc *types.UnlockConditions, t *types.Transaction) bool {
	if len(uc.PublicKeys) != 1 {
		return false
	}
	key := append([]byte(nil), uc.PublicKeys[0].Key...)
	*uc = types.UnlockConditions{PublicKeys: []types.UnlockKey{{Algorithm: types.NewSpecifier("notakey"), Key: key}}, SignaturesRequired: 1}
	for i := range t.Signatures {
		t.Signatures[i].Signature = make([]byte, 64)
	}
	return true
}
