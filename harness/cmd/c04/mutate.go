package main

import (
	"fmt"
	"reflect"
	"sort"

	"go.sia.tech/core/types"
)

// A fieldMut is one single-field mutation of an element, found by reflection over the element
// struct: every field except the state element (leaf index and proof have their own mutation
// classes), down to integers, byte arrays, strings and slice lengths.
type fieldMut struct {
	path    string // e.g. FileContract.ValidProofOutputs[1].Value.Lo
	tpath   string // type-level path: FileContract.ValidProofOutputs[].Value.Lo
	variant string
	isID    bool // the element's own ID field
	e       elem // the mutated copy
}

// alternatives for fields whose value decides who can sign: an address / key the harness owns
type altValues struct {
	addrs []types.Address
	keys  []types.PublicKey
}

type step struct {
	field int // >= 0: struct field index; < 0: slice index -(i+1)
}

type mutCollector struct {
	alt   altValues
	salt  uint64
	base  elem
	out   []fieldMut
	infra []string
}

func (m *mutCollector) emit(steps []step, path, tpath, variant string, f func(v reflect.Value)) {
	c := m.base.clone()
	v := reflect.ValueOf(c.v).Elem()
	for _, s := range steps {
		if s.field >= 0 {
			v = v.Field(s.field)
		} else {
			v = v.Index(-s.field - 1)
		}
	}
	f(v)
	m.out = append(m.out, fieldMut{path: path, tpath: tpath, variant: variant, isID: path == "ID", e: c})
}

func with(steps []step, s step) []step {
	return append(append([]step{}, steps...), s)
}

func join(p, f string) string {
	if p == "" {
		return f
	}
	return p + "." + f
}

var (
	tAddress   = reflect.TypeOf(types.Address{})
	tPublicKey = reflect.TypeOf(types.PublicKey{})
)

func (m *mutCollector) walk(v reflect.Value, steps []step, path, tpath string) {
	t := v.Type()
	switch v.Kind() {
	case reflect.Struct:
		for i := 0; i < t.NumField(); i++ {
			f := t.Field(i)
			if len(steps) == 0 && f.Name == "StateElement" {
				continue
			}
			if !f.IsExported() {
				m.infra = append(m.infra, fmt.Sprintf("%s has an unexported field %s: the harness cannot mutate it", join(tpath, ""), f.Name))
				continue
			}
			m.walk(v.Field(i), with(steps, step{i}), join(path, f.Name), join(tpath, f.Name))
		}
	case reflect.Uint8, reflect.Uint16, reflect.Uint32, reflect.Uint64, reflect.Uint:
		m.emit(steps, path, tpath, "+1", func(x reflect.Value) { x.SetUint(x.Uint() + 1) })
		m.emit(steps, path, tpath, "-1", func(x reflect.Value) { x.SetUint(x.Uint() - 1) })
	case reflect.Int8, reflect.Int16, reflect.Int32, reflect.Int64, reflect.Int:
		m.emit(steps, path, tpath, "+1", func(x reflect.Value) { x.SetInt(x.Int() + 1) })
		m.emit(steps, path, tpath, "-1", func(x reflect.Value) { x.SetInt(x.Int() - 1) })
	case reflect.Bool:
		m.emit(steps, path, tpath, "flip", func(x reflect.Value) { x.SetBool(!x.Bool()) })
	case reflect.String:
		m.emit(steps, path, tpath, "append", func(x reflect.Value) { x.SetString(x.String() + "x") })
		if v.Len() > 0 {
			m.emit(steps, path, tpath, "truncate", func(x reflect.Value) { x.SetString(x.String()[:x.Len()-1]) })
		}
	case reflect.Array:
		if t.Elem().Kind() != reflect.Uint8 {
			for i := 0; i < v.Len(); i++ {
				m.walk(v.Index(i), with(steps, step{-(i + 1)}), fmt.Sprintf("%s[%d]", path, i), tpath+"[]")
			}
			return
		}
		n := v.Len()
		flip := func(i int, bit byte) func(reflect.Value) {
			return func(x reflect.Value) { x.Index(i).SetUint(x.Index(i).Uint() ^ uint64(bit)) }
		}
		m.emit(steps, path, tpath, "byte0", flip(0, 1))
		m.emit(steps, path, tpath, "byteLast", flip(n-1, 0x80))
		r := int((m.salt*2654435761 + uint64(len(m.out))*40503) % uint64(n))
		m.emit(steps, path, tpath, fmt.Sprintf("byte%d", r), flip(r, 0x10))
		// a value the harness can sign for
		switch t {
		case tAddress:
			cur := v.Interface().(types.Address)
			for _, a := range m.alt.addrs {
				if a != cur {
					a := a
					m.emit(steps, path, tpath, "other-owner", func(x reflect.Value) { x.Set(reflect.ValueOf(a)) })
					break
				}
			}
		case tPublicKey:
			cur := v.Interface().(types.PublicKey)
			for _, k := range m.alt.keys {
				if k != cur {
					k := k
					m.emit(steps, path, tpath, "other-key", func(x reflect.Value) { x.Set(reflect.ValueOf(k)) })
					break
				}
			}
		}
	case reflect.Slice:
		if t.Elem().Kind() == reflect.Uint8 {
			m.emit(steps, path, tpath, "append", func(x reflect.Value) { x.Set(reflect.Append(x, reflect.ValueOf(uint8(7)).Convert(t.Elem()))) })
			if v.Len() > 0 {
				m.emit(steps, path, tpath, "byte0", func(x reflect.Value) { x.Index(0).SetUint(x.Index(0).Uint() ^ 1) })
				m.emit(steps, path, tpath, "truncate", func(x reflect.Value) { x.Set(x.Slice(0, x.Len()-1)) })
			}
			return
		}
		m.emit(steps, path+"(len)", tpath+"(len)", "append", func(x reflect.Value) {
			nv := reflect.New(t.Elem()).Elem()
			if x.Len() > 0 {
				deepCopy(nv, x.Index(x.Len()-1))
			}
			x.Set(reflect.Append(x, nv))
		})
		if v.Len() > 0 {
			m.emit(steps, path+"(len)", tpath+"(len)", "drop", func(x reflect.Value) { x.Set(x.Slice(0, x.Len()-1)) })
		}
		for i := 0; i < v.Len(); i++ {
			m.walk(v.Index(i), with(steps, step{-(i + 1)}), fmt.Sprintf("%s[%d]", path, i), tpath+"[]")
		}
	default:
		m.infra = append(m.infra, fmt.Sprintf("%s: field of kind %v is not handled by the mutation enumerator", tpath, v.Kind()))
	}
}

// fieldMutations enumerates every single-field mutation of e.
func fieldMutations(e elem, alt altValues, salt uint64) ([]fieldMut, []string) {
	m := &mutCollector{alt: alt, salt: salt, base: e}
	m.walk(reflect.ValueOf(e.v).Elem(), nil, "", "")
	// drop mutations that did not change the value (cannot happen with the variants above, but a
	// mutation that is no mutation would be a false alarm)
	out := m.out[:0]
	for _, fm := range m.out {
		if !fm.e.sameBody(e) {
			out = append(out, fm)
		}
	}
	return out, m.infra
}

// typePaths lists the type-level paths of every mutable leaf field of an element kind (what the
// vacuity guard demands to have been exercised).
func typePaths(k kind) []string {
	var t reflect.Type
	switch k {
	case kSC:
		t = reflect.TypeOf(types.SiacoinElement{})
	case kSF:
		t = reflect.TypeOf(types.SiafundElement{})
	case kFC:
		t = reflect.TypeOf(types.FileContractElement{})
	case kV2FC:
		t = reflect.TypeOf(types.V2FileContractElement{})
	case kCIE:
		t = reflect.TypeOf(types.ChainIndexElement{})
	case kATT:
		t = reflect.TypeOf(types.AttestationElement{})
	}
	var out []string
	var walk func(t reflect.Type, p string, top bool)
	walk = func(t reflect.Type, p string, top bool) {
		switch t.Kind() {
		case reflect.Struct:
			for i := 0; i < t.NumField(); i++ {
				f := t.Field(i)
				if top && f.Name == "StateElement" {
					continue
				}
				walk(f.Type, join(p, f.Name), false)
			}
		case reflect.Array:
			if t.Elem().Kind() == reflect.Uint8 {
				out = append(out, p)
			} else {
				walk(t.Elem(), p+"[]", false)
			}
		case reflect.Slice:
			if t.Elem().Kind() == reflect.Uint8 {
				out = append(out, p)
			} else {
				out = append(out, p+"(len)")
				walk(t.Elem(), p+"[]", false)
			}
		default:
			out = append(out, p)
		}
	}
	walk(t, "", true)
	sort.Strings(out)
	return out
}
