package main

import (
	"fmt"
	"reflect"

	"go.sia.tech/core/consensus"
	"go.sia.tech/core/types"
)

// harnessErr is a panic raised by the harness about itself (never a verdict on the code).
type harnessErr string

func hpanic(format string, a ...any) { panic(harnessErr(fmt.Sprintf(format, a...))) }

type kind int

const (
	kSC kind = iota
	kSF
	kFC
	kV2FC
	kCIE
	kATT
	nKinds
)

var kindNames = [nKinds]string{"siacoin", "siafund", "filecontract", "v2filecontract", "chainindex", "attestation"}

func (k kind) String() string { return kindNames[k] }

// flagged: kinds whose leaf constructor takes a spent / resolved flag
func (k kind) flagged() bool { return k <= kV2FC }

// An elem is one typed element (held by pointer) of one of the six accumulator kinds.
type elem struct {
	k kind
	v any // *types.SiacoinElement | *types.SiafundElement | *types.FileContractElement | *types.V2FileContractElement | *types.ChainIndexElement | *types.AttestationElement
}

func kindOfValue(v any) kind {
	switch v.(type) {
	case *types.SiacoinElement:
		return kSC
	case *types.SiafundElement:
		return kSF
	case *types.FileContractElement:
		return kFC
	case *types.V2FileContractElement:
		return kV2FC
	case *types.ChainIndexElement:
		return kCIE
	case *types.AttestationElement:
		return kATT
	}
	hpanic("not an element: %T", v)
	return 0
}

func mkElem(v any) elem { return elem{kindOfValue(v), v} }

func (e elem) se() *types.StateElement {
	switch x := e.v.(type) {
	case *types.SiacoinElement:
		return &x.StateElement
	case *types.SiafundElement:
		return &x.StateElement
	case *types.FileContractElement:
		return &x.StateElement
	case *types.V2FileContractElement:
		return &x.StateElement
	case *types.ChainIndexElement:
		return &x.StateElement
	case *types.AttestationElement:
		return &x.StateElement
	}
	return nil
}

func (e elem) id() [32]byte {
	switch x := e.v.(type) {
	case *types.SiacoinElement:
		return x.ID
	case *types.SiafundElement:
		return x.ID
	case *types.FileContractElement:
		return x.ID
	case *types.V2FileContractElement:
		return x.ID
	case *types.ChainIndexElement:
		return x.ID
	case *types.AttestationElement:
		return x.ID
	}
	return [32]byte{}
}

// leaf wraps the element with the REAL leaf constructor of its kind. For the kinds without a flag the
// raw-parts constructor of the shim is used when the element is to be presented as spent.
func (e elem) leaf(spent bool) consensus.VerifLeaf {
	switch x := e.v.(type) {
	case *types.SiacoinElement:
		return consensus.VerifSiacoinLeaf(x, spent)
	case *types.SiafundElement:
		return consensus.VerifSiafundLeaf(x, spent)
	case *types.FileContractElement:
		return consensus.VerifFileContractLeaf(x, nil, spent)
	case *types.V2FileContractElement:
		return consensus.VerifV2FileContractLeaf(x, nil, spent)
	case *types.ChainIndexElement:
		l := consensus.VerifChainIndexLeaf(x)
		if spent {
			return consensus.VerifNewLeaf(l.Element(), l.ElementHash(), true)
		}
		return l
	case *types.AttestationElement:
		l := consensus.VerifAttestationLeaf(x)
		if spent {
			return consensus.VerifNewLeaf(l.Element(), l.ElementHash(), true)
		}
		return l
	}
	hpanic("leaf of %T", e.v)
	return consensus.VerifLeaf{}
}

// deepCopy copies a value including every slice reachable through exported fields (unexported
// fields are copied by value).
func deepCopy(dst, src reflect.Value) {
	dst.Set(src)
	switch src.Kind() {
	case reflect.Struct:
		for i := 0; i < src.NumField(); i++ {
			if dst.Field(i).CanSet() {
				deepCopy(dst.Field(i), src.Field(i))
			}
		}
	case reflect.Slice:
		if src.IsNil() {
			return
		}
		n := reflect.MakeSlice(src.Type(), src.Len(), src.Len())
		for i := 0; i < src.Len(); i++ {
			deepCopy(n.Index(i), src.Index(i))
		}
		dst.Set(n)
	case reflect.Array:
		if src.Type().Elem().Kind() != reflect.Uint8 {
			for i := 0; i < src.Len(); i++ {
				deepCopy(dst.Index(i), src.Index(i))
			}
		}
	}
}

// clone returns an independent copy of the element (the "shared" marker of the state element is cleared).
func (e elem) clone() elem {
	src := reflect.ValueOf(e.v).Elem()
	dst := reflect.New(src.Type())
	deepCopy(dst.Elem(), src)
	c := elem{e.k, dst.Interface()}
	*c.se() = c.se().Copy()
	return c
}

// same reports whether two presented elements agree in every field value, leaf index and proof.
func (e elem) same(o elem) bool {
	if e.k != o.k || e.id() != o.id() {
		return false
	}
	a, b := e.se(), o.se()
	if a.LeafIndex != b.LeafIndex || len(a.MerkleProof) != len(b.MerkleProof) {
		return false
	}
	for i := range a.MerkleProof {
		if a.MerkleProof[i] != b.MerkleProof[i] {
			return false
		}
	}
	return e.sameBody(o)
}

// sameBody compares everything but the state element (nil and empty slices are the same value).
func (e elem) sameBody(o elem) bool {
	if e.k != o.k {
		return false
	}
	return bodyEq(reflect.ValueOf(e.v).Elem(), reflect.ValueOf(o.v).Elem(), true)
}

func bodyEq(a, b reflect.Value, top bool) bool {
	switch a.Kind() {
	case reflect.Struct:
		for i := 0; i < a.NumField(); i++ {
			if top && a.Type().Field(i).Name == "StateElement" {
				continue
			}
			if !bodyEq(a.Field(i), b.Field(i), false) {
				return false
			}
		}
		return true
	case reflect.Slice:
		if a.Len() != b.Len() {
			return false
		}
		for i := 0; i < a.Len(); i++ {
			if !bodyEq(a.Index(i), b.Index(i), false) {
				return false
			}
		}
		return true
	case reflect.Array:
		for i := 0; i < a.Len(); i++ {
			if !bodyEq(a.Index(i), b.Index(i), false) {
				return false
			}
		}
		return true
	case reflect.Uint8, reflect.Uint16, reflect.Uint32, reflect.Uint64, reflect.Uint:
		return a.Uint() == b.Uint()
	case reflect.Int8, reflect.Int16, reflect.Int32, reflect.Int64, reflect.Int:
		return a.Int() == b.Int()
	case reflect.String:
		return a.String() == b.String()
	case reflect.Bool:
		return a.Bool() == b.Bool()
	}
	hpanic("bodyEq: unhandled kind %v", a.Kind())
	return false
}

func (e elem) String() string {
	id := e.id()
	se := e.se()
	return fmt.Sprintf("%s %x… @%d (proof %d)", e.k, id[:4], se.LeafIndex, len(se.MerkleProof))
}
