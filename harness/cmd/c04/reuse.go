package main

import (
	"go.sia.tech/core/consensus"
	"go.sia.tech/core/types"
	"verif/harness/vlib"
)

// SECOND USE IN THE BLOCK (Membership!ReuseSound): an accumulator element that an earlier, honest
// transaction of the block under validation has already touched.
//
//	revised earlier (v2 contract, v1 contract)   the later transaction must still present exactly the live
//	                                            leaf: the pending revision proves nothing about the element
//	                                            the later transaction carries
//	spent earlier (siacoin, siafund)            never acceptable again, whatever is presented
//
// The first transaction is built from the genuine element and applied to a real MidState; the second
// carries the probed element (any mutation of the catalogue). As for the other signed doors a verdict
// counts only if the same pair of transactions is accepted by a state whose accumulator contains the
// presented element.

type firstUse struct {
	g    elem
	v2   types.V2Transaction // honest first transaction (v2)
	v1   types.Transaction   // honest first revision (v1 contract)
	ts   consensus.V1TransactionSupplement
	ms   *consensus.MidState
	ok   bool
	isV1 bool
}

// first prepares (once per state and element ID) the honest first use of the genuine element with the
// ID of the presented one.
func (h *host) first(e elem) *firstUse {
	if h.tr == nil {
		return nil
	}
	key := tkey(e)
	if fu, ok := h.firsts[key]; ok {
		return fu
	}
	if h.firsts == nil {
		h.firsts = map[[33]byte]*firstUse{}
	}
	fu := &firstUse{}
	h.firsts[key] = fu
	g, ok := h.tr.live[key]
	if !ok {
		return fu
	}
	fu.g = g
	switch g.k {
	case kV2FC:
		if !h.v2ok {
			return fu
		}
		txn, built := h.attack(h.cs, g.clone(), "revision-parent")
		if !built {
			return fu
		}
		fu.v2 = txn
	case kSC:
		if !h.v2ok {
			return fu
		}
		txn, built := h.attack(h.cs, g.clone(), "siacoin-input")
		if !built {
			return fu
		}
		fu.v2 = txn
	case kSF:
		if !h.v2ok {
			return fu
		}
		txn, built := h.attack(h.cs, g.clone(), "siafund-input")
		if !built {
			return fu
		}
		fu.v2 = txn
	case kFC:
		if !h.v1ok {
			return fu
		}
		txn, ts, built := h.v1Attack(h.cs, g.clone())
		if !built {
			return fu
		}
		fu.v1, fu.ts, fu.isV1 = txn, ts, true
	default:
		return fu
	}
	ms := consensus.NewMidState(h.cs)
	var err error
	if p, _ := vlib.Recover(func() {
		if fu.isV1 {
			err = consensus.ValidateTransaction(ms, fu.v1, fu.ts)
		} else {
			err = consensus.ValidateV2Transaction(ms, fu.v2)
		}
	}); p || err != nil {
		return fu
	}
	if fu.isV1 {
		ms.ApplyTransaction(fu.v1, fu.ts)
	} else {
		ms.ApplyV2Transaction(fu.v2)
	}
	fu.ms, fu.ok = ms, true
	return fu
}

// second builds the later transaction that carries the presented element e.
func (h *host) second(cs consensus.State, fu *firstUse, e elem, role string) (v2 *types.V2Transaction, v1 *types.Transaction, ts consensus.V1TransactionSupplement, ok bool) {
	K := h.K
	switch x := e.v.(type) {
	case *types.V2FileContractElement:
		if role == "revision" {
			// a further revision of the contract as it stands after the first transaction
			rev := fu.v2.FileContractRevisions[0].Revision
			rev.RevisionNumber++
			if rev.RevisionNumber == 0 {
				return nil, nil, ts, false
			}
			rk, hk := K.NameOfKey(rev.RenterPublicKey), K.NameOfKey(rev.HostPublicKey)
			sh := cs.ContractSigHash(rev)
			rev.RenterSignature, rev.HostSignature = K.SK(rk).SignHash(sh), K.SK(hk).SignHash(sh)
			txn := types.V2Transaction{FileContractRevisions: []types.V2FileContractRevision{{Parent: x.Copy(), Revision: rev}}}
			return &txn, nil, ts, true
		}
		txn, built := h.attack(cs, e, "resolution-parent") // renewal (or expiration where the heights allow)
		return &txn, nil, ts, built
	case *types.SiacoinElement:
		txn, built := h.attack(cs, e, "siacoin-input")
		return &txn, nil, ts, built
	case *types.SiafundElement:
		txn, built := h.attack(cs, e, "siafund-input")
		return &txn, nil, ts, built
	case *types.FileContractElement:
		name, is := h.known(x.FileContract.UnlockHash)
		if !is {
			return nil, nil, ts, false
		}
		rev := fu.v1.FileContractRevisions[0].FileContract
		rev.RevisionNumber++
		txn := types.Transaction{FileContractRevisions: []types.FileContractRevision{{ParentID: x.ID, UnlockConditions: K.UC(name), FileContract: rev}}}
		id := types.Hash256(x.ID)
		txn.Signatures = []types.TransactionSignature{{ParentID: id, PublicKeyIndex: 0, CoveredFields: types.CoveredFields{WholeTransaction: true}}}
		sig := K.SK(name).SignHash(cs.WholeSigHash(txn, id, 0, 0, nil))
		txn.Signatures[0].Signature = sig[:]
		c := e.clone().v.(*types.FileContractElement)
		ts.RevisedFileContracts = []types.FileContractElement{c.Copy()}
		return nil, &txn, ts, true
	}
	return nil, nil, ts, false
}

// askReuse: the transaction validator on the MidState that has seen the first transaction, and
// ValidateBlock on the block [first, second]; decisive as for askV2Txn.
func (h *host) askReuse(fu *firstUse, e elem, role string, whole bool) (accTxn, accBlk, built, decisive bool, err error, pan any) {
	v2, v1, ts, ok := h.second(h.cs, fu, e, role)
	if !ok {
		return
	}
	built = true
	miner := h.K.Addr("A")
	block := func(cs consensus.State, v2 *types.V2Transaction, v1 *types.Transaction, ts consensus.V1TransactionSupplement) (types.Block, consensus.V1BlockSupplement) {
		if fu.isV1 {
			return seal(cs, miner, []types.Transaction{fu.v1, *v1}, nil), consensus.V1BlockSupplement{Transactions: []consensus.V1TransactionSupplement{fu.ts, ts}}
		}
		return seal(cs, miner, nil, []types.V2Transaction{fu.v2, *v2}), consensus.V1BlockSupplement{}
	}
	if !fu.isV1 {
		_, pan = vlib.Recover(func() { err = consensus.ValidateV2Transaction(fu.ms, *v2) })
		accTxn = err == nil && pan == nil
	}
	if whole || fu.isV1 {
		blk, bs := block(h.cs, v2, v1, ts)
		var berr error
		var bpan any
		_, bpan = vlib.Recover(func() { berr = consensus.ValidateBlock(h.cs, blk, bs) })
		accBlk = berr == nil && bpan == nil
		if pan == nil {
			pan = bpan
		}
		if err == nil {
			err = berr
		}
		if fu.isV1 {
			accTxn = accBlk
		}
	}
	// control: the same two transactions against a state whose accumulator contains the presented element
	e2 := e.clone()
	proof := make([]types.Hash256, 63)
	for i := range proof {
		proof[i] = junkHash
	}
	e2.se().MerkleProof = proof
	cs2 := h.cs
	cs2.Elements.NumLeaves |= 1 << 63
	cs2.Elements.Trees[63] = e2.leaf(false).ProofRoot()
	if c2, c1, cts, ok2 := h.second(cs2, fu, e2, role); ok2 {
		var cerr error
		p, _ := vlib.Recover(func() {
			if fu.isV1 {
				blk, bs := block(cs2, c2, c1, cts)
				cerr = consensus.ValidateBlock(cs2, blk, bs)
			} else {
				ms2 := consensus.NewMidState(cs2)
				if cerr = consensus.ValidateV2Transaction(ms2, fu.v2); cerr == nil {
					ms2.ApplyV2Transaction(fu.v2)
					cerr = consensus.ValidateV2Transaction(ms2, *c2)
				}
			}
		})
		decisive = !p && cerr == nil
	}
	return
}

func reuseRoles(k kind) []string {
	switch k {
	case kV2FC:
		return []string{"revision", "resolution"}
	case kFC:
		return []string{"revision"}
	case kSC, kSF:
		return []string{"spend"}
	}
	return nil
}
