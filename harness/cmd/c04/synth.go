package main

import (
	"encoding/binary"
	"encoding/json"
	"fmt"
	"math/rand"
	"slices"
	"sort"
	"strconv"
	"strings"

	"go.sia.tech/core/consensus"
	"go.sia.tech/core/types"
	"verif/harness/chain"
	"verif/harness/hterm"
	"verif/harness/vlib"
)

// ---------------------------------------------------------------------------
// the forests of spec/acc/Membership.tla rebuilt on the real accumulator (through the export shim),
// holding real elements of all six kinds

type sLeaf struct {
	id    int // model id
	ver   int
	spent bool
	el    elem // body of version ver; state element = what a client applying every update holds
}

type sPrev struct {
	ver   int
	spent bool
	el    elem
}

type sUndo struct {
	acc    consensus.ElementAccumulator
	leaves []sLeaf
	U      []int
	k      int
	prev   map[int]sPrev
}

type world struct {
	seed   uint64
	K      *chain.Keyring
	tmpl   consensus.State // host state; its Elements field is replaced by the synthetic accumulator
	acc    consensus.ElementAccumulator
	leaves []sLeaf
	ghosts []sLeaf
	prev   map[int]sPrev // what holders knew before the latest un-reverted block
	undo   []sUndo
	nextID int
	kinds  map[int]kind // model id -> kind
	roots  map[uint64]types.Hash256
	thin   bool // expand the field / id classes fully on every fourth leaf only (one field elsewhere)
}

func newWorld(seed uint64, tmpl consensus.State, K *chain.Keyring) *world {
	return &world{seed: seed, K: K, tmpl: tmpl, prev: map[int]sPrev{}, kinds: map[int]kind{}, roots: map[uint64]types.Hash256{}}
}

func (w *world) h(id int, tag uint64) types.Hash256 {
	var buf [24]byte
	binary.LittleEndian.PutUint64(buf[0:], w.seed)
	binary.LittleEndian.PutUint64(buf[8:], uint64(id))
	binary.LittleEndian.PutUint64(buf[16:], tag)
	return types.HashBytes(buf[:])
}

func (w *world) fileRoot(size uint64) types.Hash256 {
	if r, ok := w.roots[size]; ok {
		return r
	}
	r := fileRoot(w.tmpl, size)
	w.roots[size] = r
	return r
}

// setKind fixes the kind of a model element: constraint "rev" (revisable: a contract), "spend"
// (has a spent flag) or "" (any of the six).
func (w *world) setKind(id int, constraint string) {
	if _, ok := w.kinds[id]; ok {
		return
	}
	var allowed []kind
	switch constraint {
	case "rev":
		allowed = []kind{kFC, kV2FC}
	case "spend":
		allowed = []kind{kSC, kSF, kFC, kV2FC}
	default:
		allowed = []kind{kSC, kSF, kFC, kV2FC, kCIE, kATT}
	}
	w.kinds[id] = allowed[int(w.h(id, 0xbeef)[0])%len(allowed)]
}

func u64(h types.Hash256, off int) uint64 { return binary.LittleEndian.Uint64(h[off:]) }

// mk builds the real element behind model element id in body version ver (state element empty).
func (w *world) mk(id, ver int) elem {
	k, ok := w.kinds[id]
	if !ok {
		hpanic("model element %d has no kind", id)
	}
	h1, h2 := w.h(id, 1), w.h(id, 2)
	hv := w.h(id, 100+uint64(ver))
	owner := []string{"A", "B"}[h2[0]%2]
	K := w.K
	switch k {
	case kSC:
		if h2[10]%3 == 0 {
			// arranged so that the SIAFUND element with the same bytes would belong to A (value = Lo, address = Hi ++
			// address[0:24], claim start = address[24:32] ++ maturity): the signed doors then judge membership alone
			a := K.Addr("A")
			var addr types.Address
			copy(addr[:], a[8:])
			binary.LittleEndian.PutUint64(addr[24:], uint64(h2[11]))
			return mkElem(&types.SiacoinElement{ID: types.SiacoinOutputID(h1),
				SiacoinOutput:  types.SiacoinOutput{Value: types.NewCurrency(1+u64(h2, 8)%900+uint64(ver), binary.LittleEndian.Uint64(a[:8])), Address: addr},
				MaturityHeight: uint64(h2[2] % 2)})
		}
		return mkElem(&types.SiacoinElement{ID: types.SiacoinOutputID(h1),
			SiacoinOutput:  types.SiacoinOutput{Value: types.NewCurrency(1000+u64(h2, 8)%100000+uint64(ver), uint64(h2[1]%2)), Address: K.Addr(owner)},
			MaturityHeight: uint64(h2[2] % 2)})
	case kSF:
		if h2[10]%3 == 0 {
			// arranged so that the SIACOIN element with the same bytes would belong to A (value = (siafund value,
			// address[0:8]), address = address[8:32] ++ claim start Lo, maturity = claim start Hi)
			a := K.Addr("A")
			var addr types.Address
			copy(addr[8:], a[:24])
			return mkElem(&types.SiafundElement{ID: types.SiafundOutputID(h1),
				SiafundOutput: types.SiafundOutput{Value: 1 + u64(h2, 8)%900 + uint64(ver), Address: addr},
				ClaimStart:    types.NewCurrency(binary.LittleEndian.Uint64(a[24:]), uint64(h2[3]%2))})
		}
		return mkElem(&types.SiafundElement{ID: types.SiafundOutputID(h1),
			SiafundOutput: types.SiafundOutput{Value: 1 + u64(h2, 8)%900 + uint64(ver), Address: K.Addr(owner)},
			ClaimStart:    types.NewCurrency(u64(h2, 16)%5000, uint64(h2[3]%2))})
	case kFC:
		size := 64 * (1 + uint64(h2[4]%3) + uint64(ver))
		pay := 10000 + u64(h2, 8)%50000
		fc := types.FileContract{Filesize: size, FileMerkleRoot: w.fileRoot(size), WindowStart: 3 + uint64(h2[5]%4), WindowEnd: 9 + uint64(h2[5]%4),
			Payout: types.NewCurrency64(pay), UnlockHash: K.Addr(owner), RevisionNumber: uint64(ver),
			ValidProofOutputs:  []types.SiacoinOutput{{Value: types.NewCurrency64(pay / 2), Address: K.Addr("A")}, {Value: types.NewCurrency64(pay/2 - pay/25), Address: K.Addr("B")}},
			MissedProofOutputs: []types.SiacoinOutput{{Value: types.NewCurrency64(pay / 2), Address: K.Addr("A")}, {Value: types.NewCurrency64(pay / 4), Address: K.Addr("B")}, {Value: types.NewCurrency64(pay/4 - pay/25), Address: types.VoidAddress}}}
		return mkElem(&types.FileContractElement{ID: types.FileContractID(h1), FileContract: fc})
	case kV2FC:
		size := 64 * (1 + uint64(h2[4]%3) + uint64(ver))
		if h2[9]%3 == 0 {
			size = 0 // an empty file: its storage proof has nothing to prove but the history
		}
		host := 5000 + u64(h2, 8)%20000
		fc := types.V2FileContract{Capacity: size + 64*uint64(h2[6]%3), Filesize: size, FileMerkleRoot: w.fileRoot(size),
			RenterOutput:    types.SiacoinOutput{Value: types.NewCurrency64(20000 + u64(h2, 16)%20000), Address: K.Addr("A")},
			HostOutput:      types.SiacoinOutput{Value: types.NewCurrency64(host), Address: K.Addr("B")},
			MissedHostValue: types.NewCurrency64(host / 2), TotalCollateral: types.NewCurrency64(host / 4),
			RenterPublicKey: K.PK("R"), HostPublicKey: K.PK("H"), RevisionNumber: uint64(ver)}
		if id%2 == 0 {
			fc.ProofHeight, fc.ExpirationHeight = 1, 5 // revisable, provable and renewable in the host's child block
		} else {
			fc.ProofHeight, fc.ExpirationHeight = 0, 0 // expired
		}
		sh := w.tmpl.ContractSigHash(fc)
		fc.RenterSignature, fc.HostSignature = K.SK("R").SignHash(sh), K.SK("H").SignHash(sh)
		return mkElem(&types.V2FileContractElement{ID: types.FileContractID(h1), V2FileContract: fc})
	case kCIE:
		return mkElem(&types.ChainIndexElement{ID: types.BlockID(h1), ChainIndex: types.ChainIndex{Height: uint64(id % 2), ID: types.BlockID(hv)}})
	default:
		a := types.Attestation{PublicKey: K.PK(owner), Key: "k" + strconv.Itoa(id), Value: slices.Clone(h2[:1+int(h2[7]%16)])}
		copy(a.Signature[:], hv[:])
		copy(a.Signature[32:], h1[:])
		return mkElem(&types.AttestationElement{ID: types.AttestationID(h1), Attestation: a})
	}
}

func (w *world) host() *host {
	cs := w.tmpl
	cs.Elements = w.acc
	h := newHost(cs, w.K, w.seed)
	for i := range w.leaves {
		l := &w.leaves[i]
		if x, ok := l.el.v.(*types.V2FileContractElement); ok && !l.spent {
			h.addProofParent(x)
		}
	}
	var cur []held
	for _, l := range w.leaves {
		cur = append(cur, held{l.el, l.spent})
	}
	h.fund, _ = h.funding(cur)
	if postTmpl.Network != nil {
		ps := postTmpl
		ps.Elements = w.acc
		h.post = newHost(ps, w.K, w.seed)
	}
	return h
}

func (w *world) truth() *truth {
	t := newTruth()
	for i := range w.leaves {
		t.add(w.leaves[i].el, w.leaves[i].spent)
	}
	return t
}

func (w *world) view() map[int]sPrev {
	v := map[int]sPrev{}
	for i, l := range w.leaves {
		v[i] = sPrev{l.ver, l.spent, l.el.clone()}
	}
	return v
}

// block spends the leaves S, revises the leaves R and creates k elements (Membership!Block).
func (w *world) block(S, R []int, k int) {
	n0 := len(w.leaves)
	U := slices.Clone(S)
	for _, x := range R {
		if !slices.Contains(U, x) {
			U = append(U, x)
		}
	}
	sort.Ints(U)
	rec := sUndo{acc: w.acc, U: U, k: k, prev: w.prev}
	for _, l := range w.leaves {
		rec.leaves = append(rec.leaves, sLeaf{l.id, l.ver, l.spent, l.el.clone()})
	}
	view := w.view()
	var updated, added []consensus.VerifLeaf
	newBody := map[int]sLeaf{}
	for i := len(U) - 1; i >= 0; i-- { // diffs are not sorted by leaf index
		x := U[i]
		l := w.leaves[x]
		nl := sLeaf{id: l.id, ver: l.ver, spent: l.spent}
		if slices.Contains(R, x) {
			nl.ver++
		}
		if slices.Contains(S, x) {
			nl.spent = true
		}
		nl.el = w.mk(l.id, nl.ver)
		*nl.el.se() = l.el.se().Copy()
		newBody[x] = nl
		blockCopy := nl.el.clone()
		updated = append(updated, blockCopy.leaf(nl.spent))
	}
	var addedEls []elem
	for j := 0; j < k; j++ {
		id := w.nextID + j
		w.setKind(id, "")
		e := w.mk(id, 0)
		e.se().LeafIndex = types.UnassignedLeafIndex
		addedEls = append(addedEls, e)
		added = append(added, e.leaf(false))
	}
	upd := w.acc.VerifApply(updated, added)
	for i := range w.leaves {
		if nl, ok := newBody[i]; ok {
			w.leaves[i] = nl
		}
		upd.UpdateElementProof(w.leaves[i].el.se())
	}
	for j, e := range addedEls {
		if e.se().LeafIndex != uint64(n0+j) {
			hpanic("added leaf %d got leaf index %d", n0+j, e.se().LeafIndex)
		}
		c := e.clone()
		upd.UpdateElementProof(c.se())
		w.leaves = append(w.leaves, sLeaf{id: w.nextID + j, el: c})
	}
	w.nextID += k
	w.undo = append(w.undo, rec)
	w.prev = view
}

// revert undoes the latest block (Accumulator!Revert + Membership!GhostsOfTip).
func (w *world) revert() {
	rec := w.undo[len(w.undo)-1]
	w.undo = w.undo[:len(w.undo)-1]
	n0 := len(rec.leaves)
	for i, l := range w.leaves {
		if slices.Contains(rec.U, i) || i >= n0 {
			w.ghosts = append(w.ghosts, sLeaf{l.id, l.ver, l.spent, l.el.clone()})
		}
	}
	var updated, added []consensus.VerifLeaf
	for i := len(rec.U) - 1; i >= 0; i-- {
		l := rec.leaves[rec.U[i]]
		updated = append(updated, l.el.clone().leaf(l.spent))
	}
	for j := 0; j < rec.k; j++ {
		e := w.leaves[n0+j].el.clone()
		*e.se() = types.StateElement{LeafIndex: types.UnassignedLeafIndex}
		added = append(added, e.leaf(false))
	}
	parent := rec.acc
	upd := parent.VerifRevert(updated, added)
	if parent != rec.acc {
		panic("revertBlock modified the accumulator it was called on")
	}
	var out []sLeaf
	for i := 0; i < n0; i++ {
		l := rec.leaves[i]
		se := w.leaves[i].el.se().Copy() // the holder's proof on the branch, refreshed by the revert update
		upd.UpdateElementProof(&se)
		*l.el.se() = se
		out = append(out, l)
	}
	w.leaves = out
	w.acc = rec.acc
	w.prev = rec.prev
}

// ---------------------------------------------------------------------------
// TLC cases

type mcase struct {
	N0     int      `json:"n0"`
	U      []int    `json:"U"`
	K      int      `json:"k"`
	Mode   int      `json:"mode"`
	Ph     int      `json:"ph"`
	N      int      `json:"n"`
	Probes []string `json:"probes"`
	Full   []struct {
		D string   `json:"d"`
		H string   `json:"h"`
		I int      `json:"i"`
		P []string `json:"p"`
	} `json:"full"`
}

func (m *mcase) key() string { return fmt.Sprintf("n0=%d U=%v k=%d mode=%d", m.N0, m.U, m.K, m.Mode) }

func parseCases(lines []string) (map[string][]*mcase, error) {
	out := map[string][]*mcase{}
	for _, ln := range lines {
		if !strings.HasPrefix(ln, "MS ") {
			continue
		}
		var m mcase
		if err := json.Unmarshal([]byte(vlib.UnquoteTLA(strings.TrimPrefix(ln, "MS "))), &m); err != nil {
			return nil, fmt.Errorf("case does not parse: %v: %.200s", err, ln)
		}
		sort.Ints(m.U)
		k := m.key()
		out[k] = append(out[k], &m)
	}
	for k, phases := range out {
		sort.Slice(phases, func(i, j int) bool { return phases[i].Ph < phases[j].Ph })
		if len(phases) != 5 {
			return nil, fmt.Errorf("case %s has %d phases, expected 5", k, len(phases))
		}
		for i, p := range phases {
			if p.Ph != i {
				return nil, fmt.Errorf("case %s: phase %d missing", k, i)
			}
		}
	}
	return out, nil
}

type desc struct {
	src  string
	b    int
	mut  string
	arg  int
	exp  bool
	text string
}

func parseDesc(s string) (d desc, err error) {
	f := strings.Split(s, ":")
	if len(f) != 4 || len(f[0]) < 2 {
		return d, fmt.Errorf("malformed probe descriptor %q", s)
	}
	d.text = s
	d.src = f[0][:1]
	if d.b, err = strconv.Atoi(f[0][1:]); err != nil {
		return d, err
	}
	d.mut = f[1]
	if d.arg, err = strconv.Atoi(f[2]); err != nil {
		return d, err
	}
	d.exp = f[3] == "1"
	return d, nil
}

func token(id, ver, f, idx int, spent bool) string {
	su := "u"
	if spent {
		su = "s"
	}
	if f == 0 {
		return fmt.Sprintf("L%dv%d@%d%s", id, ver, idx, su)
	}
	if f == -1 {
		return fmt.Sprintf("L%dv%dr@%d%s", id, ver, idx, su)
	}
	return fmt.Sprintf("L%dv%df%d@%d%s", id, ver, f, idx, su)
}

const nfModel = 2 // NF of the configurations: symbolic body fields

// concretise turns one TLC probe descriptor into the real elements to present. A descriptor of the
// "field" / "idfresh" class expands into every real field mutation found by reflection. tok is the
// leaf pre-image the harness believes the probe has (compared with TLC's in the Full configuration).
func (w *world) concretise(d desc, h *host) (ps []probe, tok string) {
	n := len(w.leaves)
	setProof := func(e elem, p []types.Hash256) { e.se().MerkleProof = slices.Clone(p) }
	one := func(base string, e elem, spent bool, detail string) []probe {
		return []probe{{src: "tlc", base: base, mut: d.mut, detail: detail, e: e, spent: spent, exp: d.exp}}
	}
	switch d.src {
	case "L":
		l := w.leaves[d.b]
		base := "live"
		if l.spent {
			base = "spent"
		}
		e := l.el.clone()
		P := l.el.se().MerkleProof
		hgt := len(P)
		id, ver, f, idx, spent := l.id, l.ver, 0, d.b, l.spent
		switch d.mut {
		case "none":
		case "flip":
			spent = !spent
		case "reinterp":
			if d.arg == 1 {
				spent = false
			}
			rs := reinterpretations(e)
			if len(rs) == 0 {
				return nil, token(id, ver, -1, idx, spent) // no other kind has a pre-image of these bytes
			}
			for _, r := range rs {
				ps = append(ps, probe{src: "tlc", base: base, mut: "reinterpret", detail: e.k.String() + "-as-" + r.k.String(), e: r, spent: spent, exp: d.exp})
			}
			return ps, token(id, ver, -1, idx, spent)
		case "newver", "oldver", "oldveru":
			if d.mut == "newver" {
				ver++
			} else {
				ver--
			}
			if d.mut == "oldveru" {
				spent = false
			}
			ne := w.mk(id, ver)
			*ne.se() = e.se().Copy()
			e = ne
		case "idfresh", "field":
			fms, infra := fieldMutations(e, h.alt, w.seed+uint64(d.b))
			if len(infra) > 0 {
				hpanic("%s", strings.Join(infra, "; "))
			}
			if w.thin && (d.b+int(w.seed%4))%4 != 0 {
				// one field of this leaf (another leaf of the forest gets the full expansion)
				var pick []fieldMut
				for _, fm := range fms {
					if fm.isID == (d.mut == "idfresh") {
						pick = append(pick, fm)
					}
				}
				fm := pick[(int(w.seed)+d.b*7+d.arg)%len(pick)]
				mut := "field"
				if fm.isID {
					mut = "id"
				}
				ps = []probe{{src: "tlc", base: base, mut: mut, detail: fm.path + " " + fm.variant, tpath: fm.tpath, e: fm.e, spent: spent, exp: d.exp}}
				if d.mut == "idfresh" {
					return ps, token(1000+id, ver, 0, idx, spent)
				}
				return ps, token(id, ver, d.arg, idx, spent)
			}
			ord := 0
			for _, fm := range fms {
				if d.mut == "idfresh" {
					if fm.isID {
						ps = append(ps, probe{src: "tlc", base: base, mut: "id", detail: fm.path + " " + fm.variant, tpath: fm.tpath, e: fm.e, spent: spent, exp: d.exp})
					}
					continue
				}
				if fm.isID {
					continue
				}
				if ord%nfModel == d.arg-1 {
					ps = append(ps, probe{src: "tlc", base: base, mut: "field", detail: fm.path + " " + fm.variant, tpath: fm.tpath, e: fm.e, spent: spent, exp: d.exp})
				}
				ord++
			}
			if d.mut == "idfresh" {
				return ps, token(1000+id, ver, 0, idx, spent)
			}
			return ps, token(id, ver, d.arg, idx, spent)
		case "idof":
			o := w.leaves[d.arg]
			ne := o.el.clone()
			*ne.se() = e.se().Copy()
			e, id, ver, spent = ne, o.id, o.ver, o.spent
		case "idx":
			idx = d.arg
		case "alias":
			if d.arg == 1 {
				idx += 1 << hgt
			} else {
				idx -= 1 << hgt
			}
		case "proofof":
			setProof(e, w.leaves[d.arg].el.se().MerkleProof)
		case "both":
			idx = d.arg
			setProof(e, w.leaves[d.arg].el.se().MerkleProof)
		case "pjunk":
			e.se().MerkleProof[d.arg-1] = junkHash
		case "pself":
			e.se().MerkleProof[d.arg-1] = l.el.clone().leaf(l.spent).Hash()
		case "pdrop":
			if d.arg == 1 {
				setProof(e, P[1:])
			} else {
				setProof(e, P[:hgt-1])
			}
		case "pext":
			if d.arg == 0 {
				setProof(e, append(slices.Clone(P), junkHash))
			} else {
				setProof(e, append(slices.Clone(P), w.acc.Trees[d.arg-1]))
			}
		case "pmax":
			p := slices.Clone(P)
			for len(p) < 64 {
				p = append(p, junkHash)
			}
			setProof(e, p)
		case "stale", "prev":
			pv, ok := w.prev[d.b]
			if !ok {
				hpanic("descriptor %s: no previous view of leaf %d", d.text, d.b)
			}
			if d.mut == "stale" {
				setProof(e, pv.el.se().MerkleProof)
			} else {
				e, ver, spent = pv.el.clone(), pv.ver, pv.spent
			}
			base = "stale"
		default:
			hpanic("unknown mutation in descriptor %s", d.text)
		}
		e.se().LeafIndex = uint64(idx)
		return one(base, e, spent, ""), token(id, ver, f, idx, spent)
	case "G":
		g := w.ghosts[d.b-1]
		e := g.el.clone()
		spent := g.spent
		switch d.mut {
		case "none":
		case "flip":
			spent = !spent
		case "cur":
			setProof(e, w.leaves[e.se().LeafIndex].el.se().MerkleProof)
		default:
			hpanic("unknown mutation in descriptor %s", d.text)
		}
		return one("reverted", e, spent, ""), token(g.id, g.ver, 0, int(e.se().LeafIndex), spent)
	case "N":
		w.setKind(2000, "")
		e := w.mk(2000, 0)
		idx := n
		switch d.mut {
		case "at":
		case "last":
			setProof(e, w.leaves[n-1].el.se().MerkleProof)
		case "first":
			idx = 0
			setProof(e, w.leaves[0].el.se().MerkleProof)
		default:
			hpanic("unknown mutation in descriptor %s", d.text)
		}
		e.se().LeafIndex = uint64(idx)
		return one("never", e, false, ""), token(2000, 0, 0, idx, false)
	}
	hpanic("unknown source in descriptor %s", d.text)
	return nil, ""
}

// resolve maps a leaf token of the specification to the real leaf hash.
func (w *world) resolve(tok string) types.Hash256 {
	if tok == "X" {
		return junkHash
	}
	var id, ver, idx int
	var su byte
	if n, err := fmt.Sscanf(tok, "L%dv%d@%d%c", &id, &ver, &idx, &su); err != nil || n != 4 || (su != 's' && su != 'u') {
		hpanic("malformed leaf token %q", tok)
	}
	e := w.mk(id, ver)
	e.se().LeafIndex = uint64(idx)
	return e.leaf(su == 's').Hash()
}

// runCase replays one TLC behaviour (five states) and asks the real code about every probe.
func runCase(c *vlib.Ctx, st *stats, tmpl consensus.State, K *chain.Keyring, seed uint64, phases []*mcase, o judgeOpts, cross *int64, thin bool, selftest string) {
	m := phases[0]
	w := newWorld(seed, tmpl, K)
	w.thin = thin
	inU := func(x int) bool { return slices.Contains(m.U, x) }
	var S, R []int
	if m.Mode == 0 {
		S = m.U
	} else {
		R = m.U
		for _, x := range m.U {
			if x%2 == 1 {
				S = append(S, x)
			}
		}
	}
	// the competing block's choice (Membership!MCompete)
	S2 := []int{}
	for x := 0; x < m.N0; x++ {
		if !inU(x) {
			S2 = []int{x}
			break
		}
	}
	k2 := m.K
	if k2 == 0 {
		k2 = 1
	}
	for x := 0; x < m.N0; x++ {
		switch {
		case inU(x) && m.Mode == 1:
			w.setKind(x, "rev")
		case inU(x) || slices.Contains(S2, x):
			w.setKind(x, "spend")
		default:
			w.setKind(x, "")
		}
	}
	for _, ph := range phases {
		switch ph.Ph {
		case 1:
			w.nextID = 0
			w.block(nil, nil, m.N0)
			w.undo, w.prev = nil, map[int]sPrev{}
		case 2:
			w.block(S, R, m.K)
		case 3:
			w.revert()
		case 4:
			w.block(S2, nil, k2)
		}
		if int(w.acc.NumLeaves) != ph.N || len(w.leaves) != ph.N {
			c.Violation("forest-out-of-step", fmt.Sprintf("case %s phase %d: the real accumulator has %d leaves, the specification %d", m.key(), ph.Ph, w.acc.NumLeaves, ph.N), m)
			return
		}
		h := w.host()
		tr := w.truth()
		h.tr = tr
		if o.v2txn && ph.Ph >= 1 {
			var cur []held
			for _, l := range w.leaves {
				cur = append(cur, held{l.el, l.spent})
			}
			inBlock(c, st, h, ibCases, cur, rand.New(rand.NewSource(int64(w.seed)*31+int64(ph.Ph))), map[string]any{"case": m.key(), "phase": ph.Ph})
		}
		full := map[string]int{}
		for i, f := range ph.Full {
			full[f.D] = i
		}
		var ev *hterm.Evaluator
		if len(ph.Full) > 0 {
			ev = hterm.NewEvaluator(w.resolve, nil)
		}
		for _, ds := range ph.Probes {
			d, err := parseDesc(ds)
			if err != nil {
				c.Fatal("%v", err)
			}
			flipped := false
			if selftest == "flip-verdict" && ph.Ph == 1 && ds == "L0:none:0:1" {
				d.exp, flipped = false, true // binding demonstration: a corrupted expected verdict must be noticed
			}
			ps, tok := w.concretise(d, h)
			if d.mut == "reinterp" && d.arg == 0 {
				src := w.leaves[d.b].el
				if len(ps) == 0 {
					st.mu.Lock()
					st.reNA[src.k.String()]++
					st.mu.Unlock()
				}
				for i := range ps {
					separation(c, st, src, ps[i].e, map[string]any{"case": m.key(), "phase": ph.Ph})
				}
			}
			for i := range ps {
				p := &ps[i]
				p.ctx = map[string]any{"case": m.key(), "phase": ph.Ph, "descriptor": ds}
				// the harness's own reading of Exact must agree with TLC's verdict
				if !flipped && tr.exact(p.e, p.spent) != d.exp {
					c.Infra("case %s phase %d probe %s (%s): the harness's oracle says member=%v, TLC says %v", m.key(), ph.Ph, ds, p.detail, !d.exp, d.exp)
					return
				}
				judge(c, st, h, *p, o)
			}
			if fi, ok := full[ds]; ok && len(ps) > 0 {
				f := ph.Full[fi]
				p := ps[0]
				if d.mut != "field" && d.mut != "idfresh" && d.mut != "reinterp" {
					if f.H != tok {
						c.Fatal("case %s phase %d probe %s: TLC's leaf is %s, the harness built %s", m.key(), ph.Ph, ds, f.H, tok)
					}
					if got := p.e.leaf(p.spent).Hash(); got != w.resolve(f.H) {
						c.Fatal("case %s phase %d probe %s: the presented element does not hash to TLC's leaf %s", m.key(), ph.Ph, ds, f.H)
					}
				} else if f.H != tok {
					c.Fatal("case %s phase %d probe %s: TLC's leaf is %s, the harness built %s", m.key(), ph.Ph, ds, f.H, tok)
				}
				if uint64(f.I) != p.e.se().LeafIndex {
					c.Fatal("case %s phase %d probe %s: TLC presents leaf index %d, the harness %d", m.key(), ph.Ph, ds, f.I, p.e.se().LeafIndex)
				}
				proof := p.e.se().MerkleProof
				if d.mut == "pmax" {
					for _, x := range proof[len(f.P):] {
						if x != junkHash {
							c.Fatal("case %s probe %s: padding differs", m.key(), ds)
						}
					}
					proof = proof[:len(f.P)]
				}
				if len(f.P) != len(proof) {
					c.Fatal("case %s phase %d probe %s: TLC's proof has %d entries, the harness's %d", m.key(), ph.Ph, ds, len(f.P), len(proof))
				}
				for j, ts := range f.P {
					if selftest == "corrupt-term" && j == 0 && ph.Ph == 2 {
						ts = strings.Replace(ts, "L0v", "L1v", 1) // binding demonstration: a corrupted proof term must be noticed
					}
					hv, err := ev.EvalString(ts)
					if err != nil {
						c.Fatal("%v", err)
					}
					if hv != proof[j] {
						c.Fatal("case %s phase %d probe %s: proof entry %d is %v, TLC's term %s evaluates to %v", m.key(), ph.Ph, ds, j, proof[j], ts, hv)
					}
				}
				*cross++
			}
		}
	}
}

// ---------------------------------------------------------------------------
// the oracle in Go: Exact of Membership.tla over the elements a holder has

type truth struct {
	live, spent map[[33]byte]elem
}

func newTruth() *truth { return &truth{live: map[[33]byte]elem{}, spent: map[[33]byte]elem{}} }

func tkey(e elem) (k [33]byte) {
	k[0] = byte(e.k)
	id := e.id()
	copy(k[1:], id[:])
	return
}

func (t *truth) add(e elem, spent bool) {
	if spent {
		t.spent[tkey(e)] = e
	} else {
		t.live[tkey(e)] = e
	}
}

// exact: the presented element is, field for field, an element of the history with that status,
// at its leaf index and with its own proof.
func (t *truth) exact(e elem, spent bool) bool {
	m := t.live
	if spent {
		m = t.spent
	}
	g, ok := m[tkey(e)]
	return ok && g.same(e)
}
