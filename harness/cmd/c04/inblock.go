package main

import (
	"encoding/json"
	"fmt"
	"math/rand"
	"strconv"
	"strings"
	"time"

	"go.sia.tech/core/consensus"
	"go.sia.tech/core/types"
	"verif/harness/vlib"
)

// Parents that are not in the accumulator: elements created earlier in the block under validation
// (spec/acc/InBlock.tla). TLC proves the transcribed MidState lookups sound for every shape of the
// creating transaction and prints, per shape, every probe (ID of every in-block element of every
// kind, or a fresh one, combined with the contents of every created entry of the asked kind) with
// its verdict; the harness builds the same block prefix on the real code and presents every probe
// to ValidateV2Transaction / ValidateTransaction on the real MidState, and the decisive ones to
// ValidateBlock.

type ibShape struct{ NSC, NSF, NFC, NATT int }

type ibDesc struct {
	door, idk      string
	idj, body, mat int
	exp            bool
	text           string
}

const ibAltered = 99

func genInBlock(c *vlib.Ctx) map[ibShape][]ibDesc {
	res := c.MustTLC(vlib.TLCOpts{SpecDirs: []string{"acc"}, Module: "InBlock", Config: "InBlock.cfg", Workers: 4, Timeout: 5 * time.Minute})
	out := map[ibShape][]ibDesc{}
	for _, ln := range res.Lines {
		if !strings.HasPrefix(ln, "IB ") {
			continue
		}
		var m struct {
			NSC   int      `json:"nsc"`
			NSF   int      `json:"nsf"`
			NFC   int      `json:"nfc"`
			NATT  int      `json:"natt"`
			Cases []string `json:"cases"`
		}
		if err := json.Unmarshal([]byte(vlib.UnquoteTLA(strings.TrimPrefix(ln, "IB "))), &m); err != nil {
			c.Fatal("in-block case does not parse: %v", err)
		}
		sh := ibShape{m.NSC, m.NSF, m.NFC, m.NATT}
		for _, s := range m.Cases {
			f := strings.Split(s, ":")
			if len(f) != 6 {
				c.Fatal("malformed in-block descriptor %q", s)
			}
			d := ibDesc{door: f[0], idk: f[1], exp: f[5] == "1", text: s}
			var e1, e2, e3 error
			d.idj, e1 = strconv.Atoi(f[2])
			d.body, e2 = strconv.Atoi(f[3])
			d.mat, e3 = strconv.Atoi(f[4])
			if e1 != nil || e2 != nil || e3 != nil {
				c.Fatal("malformed in-block descriptor %q", s)
			}
			out[sh] = append(out[sh], d)
		}
	}
	if int64(len(out)) != res.Distinct || len(out) == 0 {
		c.Fatal("InBlock: %d shapes printed, %d states", len(out), res.Distinct)
	}
	return out
}

// inBlockLists is the harness's copy of what the creating transaction left in the MidState.
type inBlockLists struct {
	scID   [][32]byte
	scOut  []types.SiacoinOutput
	scMat  []uint64
	sfID   [][32]byte
	sfOut  []types.SiafundOutput
	fcID   [][32]byte
	fc2    []types.V2FileContract
	fc1    []types.FileContract
	attID  [][32]byte
	shape  ibShape
	v1     bool
	fresh  [32]byte
	t0v2   types.V2Transaction
	t0v1   types.Transaction
	ts0    consensus.V1TransactionSupplement
	ms     *consensus.MidState
	reason string
}

func (l *inBlockLists) id(kind string, j int) ([32]byte, bool) {
	var ids [][32]byte
	switch kind {
	case "fresh":
		return l.fresh, true
	case "sc":
		ids = l.scID
	case "sf":
		ids = l.sfID
	case "fc":
		ids = l.fcID
	case "att":
		ids = l.attID
	}
	if j >= len(ids) {
		return [32]byte{}, false
	}
	return ids[j], true
}

// funding picks the parents the creating transaction spends: the largest mature siacoin element and a
// siafund element the harness can sign for.
func (h *host) funding(cur []held) (g *types.SiacoinElement, gsf *types.SiafundElement) {
	for _, x := range cur {
		if x.spent {
			continue
		}
		switch v := x.e.v.(type) {
		case *types.SiacoinElement:
			if n, ok := h.known(v.SiacoinOutput.Address); ok && v.MaturityHeight <= h.child && n != "F" && n != "M" && !strings.ContainsAny(n[:1], "TPQ") {
				if g == nil || v.SiacoinOutput.Value.Cmp(g.SiacoinOutput.Value) > 0 {
					c := v.Copy()
					g = &c
				}
			}
		case *types.SiafundElement:
			if n, ok := h.known(v.SiafundOutput.Address); ok && gsf == nil && v.SiafundOutput.Value >= 3 && !strings.ContainsAny(n[:1], "TPQ") {
				c := v.Copy()
				gsf = &c
			}
		}
	}
	return
}

// prefixV2 builds, validates and applies the creating v2 transaction.
func (h *host) prefixV2(sh ibShape, g *types.SiacoinElement, gsf *types.SiafundElement, salt uint64) *inBlockLists {
	K, cs := h.K, h.cs
	l := &inBlockLists{shape: sh, fresh: types.HashBytes([]byte(fmt.Sprintf("verif/C04/inblock/fresh/%d", salt)))}
	owner, _ := h.known(g.SiacoinOutput.Address)
	var txn types.V2Transaction
	txn.SiacoinInputs = []types.V2SiacoinInput{{Parent: g.Copy(), SatisfiedPolicy: types.SatisfiedPolicy{Policy: K.Policy(owner)}}}
	spend := types.ZeroCurrency
	for j := 0; j < sh.NFC; j++ {
		fc := types.V2FileContract{ProofHeight: h.child + 5, ExpirationHeight: h.child + 10,
			RenterOutput: types.SiacoinOutput{Value: types.NewCurrency64(uint64(30 + j)), Address: K.Addr("A")}, HostOutput: types.SiacoinOutput{Value: types.NewCurrency64(uint64(20 + j)), Address: K.Addr("B")},
			RenterPublicKey: K.PK("R"), HostPublicKey: K.PK("H")}
		sh2 := cs.ContractSigHash(fc)
		fc.RenterSignature, fc.HostSignature = K.SK("R").SignHash(sh2), K.SK("H").SignHash(sh2)
		txn.FileContracts = append(txn.FileContracts, fc)
		spend = spend.Add(fc.RenterOutput.Value).Add(fc.HostOutput.Value).Add(cs.V2FileContractTax(fc))
	}
	for i := 1; i < sh.NSC; i++ {
		v := types.NewCurrency64(uint64(10 + i))
		txn.SiacoinOutputs = append(txn.SiacoinOutputs, types.SiacoinOutput{Value: v, Address: K.Addr("A")})
		spend = spend.Add(v)
	}
	rest, under := g.SiacoinOutput.Value.SubWithUnderflow(spend)
	if under || rest.Cmp(types.NewCurrency64(100)) < 0 {
		l.reason = "funding too small"
		return l
	}
	txn.SiacoinOutputs = append(txn.SiacoinOutputs, types.SiacoinOutput{Value: rest, Address: K.Addr("A")})
	if sh.NSF > 0 {
		sfOwner, _ := h.known(gsf.SiafundOutput.Address)
		txn.SiafundInputs = []types.V2SiafundInput{{Parent: gsf.Copy(), ClaimAddress: K.Addr("A"), SatisfiedPolicy: types.SatisfiedPolicy{Policy: K.Policy(sfOwner)}}}
		txn.SiafundOutputs = []types.SiafundOutput{{Value: 1, Address: K.Addr("A")}, {Value: gsf.SiafundOutput.Value - 1, Address: K.Addr("A")}}
	}
	for j := 0; j < sh.NATT; j++ {
		a := types.Attestation{PublicKey: K.PK("A"), Key: fmt.Sprintf("verif-%d", j), Value: []byte{byte(j)}}
		a.Signature = K.SK("A").SignHash(cs.AttestationSigHash(a))
		txn.Attestations = append(txn.Attestations, a)
	}
	ish := cs.InputSigHash(txn)
	txn.SiacoinInputs[0].SatisfiedPolicy.Signatures = []types.Signature{K.SK(owner).SignHash(ish)}
	if sh.NSF > 0 {
		sfOwner, _ := h.known(gsf.SiafundOutput.Address)
		txn.SiafundInputs[0].SatisfiedPolicy.Signatures = []types.Signature{K.SK(sfOwner).SignHash(ish)}
	}
	ms := consensus.NewMidState(cs)
	var err error
	if p, v := vlib.Recover(func() { err = consensus.ValidateV2Transaction(ms, txn) }); p || err != nil {
		l.reason = fmt.Sprintf("creating transaction not valid here: %v %v", err, v)
		return l
	}
	ms.ApplyV2Transaction(txn)
	l.ms, l.t0v2 = ms, txn
	txid := txn.ID()
	l.scID, l.scOut, l.scMat = [][32]byte{g.ID}, []types.SiacoinOutput{g.SiacoinOutput}, []uint64{g.MaturityHeight}
	for i := range txn.SiacoinOutputs {
		e := txn.EphemeralSiacoinOutput(i)
		l.scID, l.scOut, l.scMat = append(l.scID, e.ID), append(l.scOut, e.SiacoinOutput), append(l.scMat, e.MaturityHeight)
	}
	if sh.NSF > 0 {
		l.scID, l.scOut, l.scMat = append(l.scID, gsf.ID.V2ClaimOutputID()), append(l.scOut, types.SiacoinOutput{Address: K.Addr("A")}), append(l.scMat, cs.MaturityHeight())
		l.sfID, l.sfOut = [][32]byte{gsf.ID}, []types.SiafundOutput{gsf.SiafundOutput}
		for i := range txn.SiafundOutputs {
			l.sfID, l.sfOut = append(l.sfID, txn.SiafundOutputID(txid, i)), append(l.sfOut, txn.SiafundOutputs[i])
		}
	}
	for j := range txn.FileContracts {
		l.fcID, l.fc2 = append(l.fcID, txn.V2FileContractID(txid, j)), append(l.fc2, txn.FileContracts[j])
	}
	for j := range txn.Attestations {
		l.attID = append(l.attID, txn.AttestationID(txid, j))
	}
	return l
}

func signV1(h *host, txn *types.Transaction, parents []types.Hash256, names []string) {
	for _, id := range parents {
		txn.Signatures = append(txn.Signatures, types.TransactionSignature{ParentID: id, PublicKeyIndex: 0, CoveredFields: types.CoveredFields{WholeTransaction: true}})
	}
	for i, id := range parents {
		sig := h.K.SK(names[i]).SignHash(h.cs.WholeSigHash(*txn, id, 0, 0, nil))
		txn.Signatures[i].Signature = sig[:]
	}
}

// prefixV1 builds, validates and applies the creating v1 transaction.
func (h *host) prefixV1(sh ibShape, g *types.SiacoinElement, gsf *types.SiafundElement, salt uint64) *inBlockLists {
	K, cs := h.K, h.cs
	l := &inBlockLists{shape: sh, v1: true, fresh: types.HashBytes([]byte(fmt.Sprintf("verif/C04/inblock/fresh/v1/%d", salt)))}
	owner, _ := h.known(g.SiacoinOutput.Address)
	var txn types.Transaction
	txn.SiacoinInputs = []types.SiacoinInput{{ParentID: g.ID, UnlockConditions: K.UC(owner)}}
	parents, names := []types.Hash256{types.Hash256(g.ID)}, []string{owner}
	spend := types.ZeroCurrency
	for j := 0; j < sh.NFC; j++ {
		fc := types.FileContract{WindowStart: h.child + 3, WindowEnd: h.child + 6 + uint64(j), Payout: types.NewCurrency64(uint64(40000 + 10000*j)), UnlockHash: K.Addr("A")}
		out := fc.Payout.Sub(cs.FileContractTax(fc))
		fc.ValidProofOutputs = []types.SiacoinOutput{{Value: out, Address: K.Addr("A")}}
		fc.MissedProofOutputs = []types.SiacoinOutput{{Value: out, Address: K.Addr("B")}}
		txn.FileContracts = append(txn.FileContracts, fc)
		spend = spend.Add(fc.Payout)
	}
	for i := 1; i < sh.NSC; i++ {
		v := types.NewCurrency64(uint64(10 + i))
		txn.SiacoinOutputs = append(txn.SiacoinOutputs, types.SiacoinOutput{Value: v, Address: K.Addr("A")})
		spend = spend.Add(v)
	}
	rest, under := g.SiacoinOutput.Value.SubWithUnderflow(spend)
	if under || rest.Cmp(types.NewCurrency64(100)) < 0 {
		l.reason = "funding too small"
		return l
	}
	txn.SiacoinOutputs = append(txn.SiacoinOutputs, types.SiacoinOutput{Value: rest, Address: K.Addr("A")})
	l.ts0.SiacoinInputs = []types.SiacoinElement{g.Copy()}
	if sh.NSF > 0 {
		sfOwner, _ := h.known(gsf.SiafundOutput.Address)
		txn.SiafundInputs = []types.SiafundInput{{ParentID: gsf.ID, UnlockConditions: K.UC(sfOwner), ClaimAddress: K.Addr("A")}}
		txn.SiafundOutputs = []types.SiafundOutput{{Value: 1, Address: K.Addr("A")}, {Value: gsf.SiafundOutput.Value - 1, Address: K.Addr("A")}}
		parents, names = append(parents, types.Hash256(gsf.ID)), append(names, sfOwner)
		l.ts0.SiafundInputs = []types.SiafundElement{gsf.Copy()}
	}
	signV1(h, &txn, parents, names)
	ms := consensus.NewMidState(cs)
	var err error
	if p, v := vlib.Recover(func() { err = consensus.ValidateTransaction(ms, txn, l.ts0) }); p || err != nil {
		l.reason = fmt.Sprintf("creating transaction not valid here: %v %v", err, v)
		return l
	}
	ms.ApplyTransaction(txn, l.ts0)
	l.ms, l.t0v1 = ms, txn
	l.scID, l.scOut, l.scMat = [][32]byte{g.ID}, []types.SiacoinOutput{g.SiacoinOutput}, []uint64{g.MaturityHeight}
	for i, o := range txn.SiacoinOutputs {
		l.scID, l.scOut, l.scMat = append(l.scID, txn.SiacoinOutputID(i)), append(l.scOut, o), append(l.scMat, 0)
	}
	if sh.NSF > 0 {
		l.scID, l.scOut, l.scMat = append(l.scID, gsf.ID.ClaimOutputID()), append(l.scOut, types.SiacoinOutput{Address: K.Addr("A")}), append(l.scMat, cs.MaturityHeight())
		l.sfID, l.sfOut = [][32]byte{gsf.ID}, []types.SiafundOutput{gsf.SiafundOutput}
		for i, o := range txn.SiafundOutputs {
			l.sfID, l.sfOut = append(l.sfID, txn.SiafundOutputID(i)), append(l.sfOut, o)
		}
	}
	for j, fc := range txn.FileContracts {
		l.fcID, l.fc1 = append(l.fcID, txn.FileContractID(j)), append(l.fc1, fc)
	}
	return l
}

type ibAsk struct {
	accepted bool
	err      error
	pan      any
	v2       *types.V2Transaction
	v1       *types.Transaction
}

// present builds the spending transaction for one probe and asks the transaction validator on the
// MidState the creating transaction left.
func (h *host) present(l *inBlockLists, d ibDesc) (a ibAsk, ok bool) {
	K, cs := h.K, h.cs
	id, have := l.id(d.idk, d.idj)
	if !have {
		hpanic("in-block descriptor %s names an element the harness did not create (shape %+v)", d.text, l.shape)
	}
	body := d.body
	altered := body == ibAltered
	if altered {
		body = 1
	}
	switch d.door {
	case "v2sc", "v1sc":
		out, mat := l.scOut[body], l.scMat[body]
		if altered {
			out.Value = out.Value.Add(types.NewCurrency64(1_000_003)) // contents no created entry has
		}
		mat += uint64(d.mat)
		if d.door == "v2sc" {
			p := types.SiacoinElement{ID: types.SiacoinOutputID(id), StateElement: types.StateElement{LeafIndex: types.UnassignedLeafIndex}, SiacoinOutput: out, MaturityHeight: mat}
			txn, built := h.attack(cs, mkElem(&p), "siacoin-input")
			if !built {
				return a, false
			}
			a.v2 = &txn
		} else {
			txn := types.Transaction{SiacoinInputs: []types.SiacoinInput{{ParentID: types.SiacoinOutputID(id), UnlockConditions: K.UC("A")}}, MinerFees: []types.Currency{out.Value}}
			signV1(h, &txn, []types.Hash256{id}, []string{"A"})
			a.v1 = &txn
		}
	case "v2sf", "v1sf":
		out := types.SiafundOutput{Value: 5, Address: K.Addr("A")}
		if body < len(l.sfOut) {
			out = l.sfOut[body]
		}
		if altered {
			out.Value += 100_003 // contents no created entry has
		}
		if d.door == "v2sf" {
			p := types.SiafundElement{ID: types.SiafundOutputID(id), StateElement: types.StateElement{LeafIndex: types.UnassignedLeafIndex}, SiafundOutput: out}
			txn, built := h.attack(cs, mkElem(&p), "siafund-input")
			if !built {
				return a, false
			}
			a.v2 = &txn
		} else {
			txn := types.Transaction{SiafundInputs: []types.SiafundInput{{ParentID: types.SiafundOutputID(id), UnlockConditions: K.UC("A"), ClaimAddress: K.Addr("A")}},
				SiafundOutputs: []types.SiafundOutput{{Value: out.Value, Address: K.Addr("A")}}}
			signV1(h, &txn, []types.Hash256{id}, []string{"A"})
			a.v1 = &txn
		}
	case "v2fc":
		fc := types.V2FileContract{ProofHeight: h.child + 5, ExpirationHeight: h.child + 10, RenterOutput: types.SiacoinOutput{Value: types.NewCurrency64(30), Address: K.Addr("A")},
			HostOutput: types.SiacoinOutput{Value: types.NewCurrency64(20), Address: K.Addr("B")}, RenterPublicKey: K.PK("R"), HostPublicKey: K.PK("H")}
		if !altered && body < len(l.fc2) {
			fc = l.fc2[body]
		} else if len(l.fc2) > 0 {
			fc = l.fc2[0]
			fc.Capacity++
		}
		p := types.V2FileContractElement{ID: types.FileContractID(id), StateElement: types.StateElement{LeafIndex: types.UnassignedLeafIndex}, V2FileContract: fc}
		txn, built := h.attack(cs, mkElem(&p), "revision-parent")
		if !built {
			return a, false
		}
		a.v2 = &txn
	case "v1fc":
		fc := types.FileContract{WindowStart: h.child + 3, WindowEnd: h.child + 6, Payout: types.NewCurrency64(40000), UnlockHash: K.Addr("A"),
			ValidProofOutputs: []types.SiacoinOutput{{Value: types.NewCurrency64(40000), Address: K.Addr("A")}}, MissedProofOutputs: []types.SiacoinOutput{{Value: types.NewCurrency64(40000), Address: K.Addr("B")}}}
		if !altered && body < len(l.fc1) {
			fc = l.fc1[body]
		} else if len(l.fc1) > 0 {
			fc = l.fc1[0]
			fc.ValidProofOutputs = []types.SiacoinOutput{{Value: fc.ValidProofOutputs[0].Value.Add(types.NewCurrency64(1)), Address: K.Addr("A")}}
		}
		rev := fc
		rev.RevisionNumber++
		txn := types.Transaction{FileContractRevisions: []types.FileContractRevision{{ParentID: types.FileContractID(id), UnlockConditions: K.UC("A"), FileContract: rev}}}
		signV1(h, &txn, []types.Hash256{id}, []string{"A"})
		a.v1 = &txn
	default:
		hpanic("unknown in-block door %s", d.door)
	}
	_, a.pan = vlib.Recover(func() {
		if a.v2 != nil {
			a.err = consensus.ValidateV2Transaction(l.ms, *a.v2)
		} else {
			a.err = consensus.ValidateTransaction(l.ms, *a.v1, consensus.V1TransactionSupplement{})
		}
	})
	a.accepted = a.err == nil && a.pan == nil
	return a, true
}

// wholeBlock asks ValidateBlock about [creating transaction, presenting transaction].
func (h *host) wholeBlock(l *inBlockLists, a ibAsk) (accepted bool, err error, pan any) {
	miner := h.K.Addr("A")
	var blk types.Block
	var bs consensus.V1BlockSupplement
	if l.v1 {
		blk = seal(h.cs, miner, []types.Transaction{l.t0v1, *a.v1}, nil)
		bs.Transactions = []consensus.V1TransactionSupplement{l.ts0, {}}
	} else {
		blk = seal(h.cs, miner, nil, []types.V2Transaction{l.t0v2, *a.v2})
	}
	_, pan = vlib.Recover(func() { err = consensus.ValidateBlock(h.cs, blk, bs) })
	return err == nil && pan == nil, err, pan
}

func ibDoorKind(door string) (string, kind) {
	switch door[2:] {
	case "sc":
		return "sc", kSC
	case "sf":
		return "sf", kSF
	}
	if door == "v1fc" {
		return "fc", kFC
	}
	return "fc", kV2FC
}

// inBlock runs the in-block family on one state. cur: what a node holds (funding for the creating
// transaction).
func inBlock(c *vlib.Ctx, st *stats, h *host, cases map[ibShape][]ibDesc, cur []held, rng *rand.Rand, ctx any) {
	if cases == nil {
		return
	}
	g, gsf := h.funding(cur)
	if g == nil {
		st.mu.Lock()
		st.ibSkipped["no spendable siacoin element"]++
		st.mu.Unlock()
		return
	}
	run := func(v1 bool) {
		sh := ibShape{NSC: 1 + rng.Intn(4), NFC: rng.Intn(3), NATT: rng.Intn(5)}
		if gsf != nil && rng.Intn(3) > 0 {
			sh.NSF = 2
		}
		if v1 {
			sh.NATT = 0
		}
		ds, ok := cases[sh]
		if !ok {
			hpanic("TLC printed no cases for shape %+v", sh)
		}
		var l *inBlockLists
		if v1 {
			l = h.prefixV1(sh, g, gsf, uint64(rng.Int63()))
		} else {
			l = h.prefixV2(sh, g, gsf, uint64(rng.Int63()))
		}
		if l.ms == nil {
			st.mu.Lock()
			st.ibSkipped[l.reason]++
			st.mu.Unlock()
			return
		}
		st.mu.Lock()
		st.ibPrefixes++
		st.mu.Unlock()
		legacy := h.child < h.cs.Network.HardforkV2.EphemeralOutputHeight
		for _, d := range ds {
			if (d.door[:2] == "v1") != v1 {
				continue
			}
			if legacy && (d.door == "v2sc" || d.door == "v2sf") {
				// before EphemeralOutputHeight the old rule (existence only) is consensus: not judged
				st.mu.Lock()
				st.ibSkipped["before EphemeralOutputHeight (legacy rule, not judged)"]++
				st.mu.Unlock()
				continue
			}
			a, built := h.present(l, d)
			if !built {
				continue
			}
			own, k := ibDoorKind(d.door)
			class := "other-body"
			switch {
			case d.body == ibAltered:
				class = "altered-body"
			case d.idk == own && d.idj == d.body:
				class = "own-body"
			case d.idj == d.body:
				class = "aligned-body"
			}
			mut := "inblock-" + d.idk + "-id"
			if d.idk == own {
				mut = "inblock-same-kind-id"
			} else if d.idk != "fresh" {
				mut = "inblock-foreign-kind-id"
			}
			st.mu.Lock()
			st.note("inblock", d.door, k, a.accepted)
			st.muts[mut]++
			st.ibClasses[d.door+"/"+d.idk+"-id/"+class]++
			st.mu.Unlock()
			report := func(door string, acc bool, err error, pan any) {
				what := "rejected-member"
				if acc {
					what = "accepted-nonmember"
				}
				if pan != nil {
					what = "panic"
				}
				key := fmt.Sprintf("%s:%s/%s-id/%s/mat+%d/%s", door, d.door, d.idk, class, d.mat, what)
				c.Violation(key, fmt.Sprintf("%s, door %s: a parent named by the ID of in-block %s element %d with the contents of created entry %d (%s, maturity +%d): the specification says acceptable=%v, the code says %v (err=%v, panic=%v); the block so far creates %+v",
					door, d.door, d.idk, d.idj, d.body, class, d.mat, d.exp, acc, err, pan, l.shape),
					map[string]any{"descriptor": d.text, "shape": l.shape, "creating_v2": l.t0v2, "creating_v1": l.t0v1, "presenting_v2": a.v2, "presenting_v1": a.v1, "context": ctx})
			}
			if a.accepted != d.exp || a.pan != nil {
				report("inblock", a.accepted, a.err, a.pan)
			}
			// the whole block, for the probes that decide: genuine ones, and foreign IDs with the contents of the aligned entry
			if class == "own-body" && d.mat == 0 || class == "aligned-body" || d.idk == "fresh" && d.body != ibAltered {
				acc, err, pan := h.wholeBlock(l, a)
				st.mu.Lock()
				st.note("inblock-block", d.door, k, acc)
				st.mu.Unlock()
				if acc != d.exp || pan != nil {
					report("inblock-block", acc, err, pan)
				}
			}
		}
	}
	if h.v2ok {
		run(false)
	}
	if h.v1ok {
		run(true)
	}
}
