package main

import (
	"bytes"
	"encoding/binary"
	"fmt"

	"go.sia.tech/core/consensus"
	"go.sia.tech/core/types"
	"verif/harness/chain"
	"verif/harness/vlib"
)

// REINTERPRET: membership is per kind (Membership!KindsDisjoint). The element of kind K' whose leaf
// pre-image BYTES are those of a genuine element of kind K (same ID, same leaf index, same proof) is an
// element no history created; only the kind's distinguisher keeps the two leaves apart.

var distinguisher = [nKinds]string{"leaf/siacoin", "leaf/siafund", "leaf/filecontract", "leaf/v2filecontract", "leaf/chainindex", "leaf/attestation"}

// bodyBytes is the encoding the leaf constructor of the element's kind hashes after its
// distinguisher (consensus/merkle.go).
func bodyBytes(e elem) []byte {
	var buf bytes.Buffer
	enc := types.NewEncoder(&buf)
	switch x := e.v.(type) {
	case *types.SiacoinElement:
		x.ID.EncodeTo(enc)
		types.V2SiacoinOutput(x.SiacoinOutput).EncodeTo(enc)
		enc.WriteUint64(x.MaturityHeight)
	case *types.SiafundElement:
		x.ID.EncodeTo(enc)
		types.V2SiafundOutput(x.SiafundOutput).EncodeTo(enc)
		types.V2Currency(x.ClaimStart).EncodeTo(enc)
	case *types.FileContractElement:
		x.ID.EncodeTo(enc)
		x.FileContract.EncodeTo(enc)
	case *types.V2FileContractElement:
		x.ID.EncodeTo(enc)
		x.V2FileContract.EncodeTo(enc)
	case *types.ChainIndexElement:
		x.ID.EncodeTo(enc)
		x.ChainIndex.EncodeTo(enc)
	case *types.AttestationElement:
		x.ID.EncodeTo(enc)
		x.Attestation.EncodeTo(enc)
	}
	enc.Flush()
	return buf.Bytes()
}

// decodeAs reads b as the pre-image of an element of kind k: ok only if the bytes are a complete
// encoding of such an element (decoding succeeds and re-encoding gives b back).
func decodeAs(k kind, b []byte) (e elem, ok bool) {
	defer func() {
		if recover() != nil {
			ok = false
		}
	}()
	d := types.NewBufDecoder(b)
	switch k {
	case kSC:
		x := &types.SiacoinElement{}
		x.ID.DecodeFrom(d)
		(*types.V2SiacoinOutput)(&x.SiacoinOutput).DecodeFrom(d)
		x.MaturityHeight = d.ReadUint64()
		e = mkElem(x)
	case kSF:
		x := &types.SiafundElement{}
		x.ID.DecodeFrom(d)
		(*types.V2SiafundOutput)(&x.SiafundOutput).DecodeFrom(d)
		(*types.V2Currency)(&x.ClaimStart).DecodeFrom(d)
		e = mkElem(x)
	case kFC:
		x := &types.FileContractElement{}
		x.ID.DecodeFrom(d)
		x.FileContract.DecodeFrom(d)
		e = mkElem(x)
	case kV2FC:
		x := &types.V2FileContractElement{}
		x.ID.DecodeFrom(d)
		x.V2FileContract.DecodeFrom(d)
		e = mkElem(x)
	case kCIE:
		x := &types.ChainIndexElement{}
		x.ID.DecodeFrom(d)
		x.ChainIndex.DecodeFrom(d)
		e = mkElem(x)
	default:
		x := &types.AttestationElement{}
		x.ID.DecodeFrom(d)
		x.Attestation.DecodeFrom(d)
		e = mkElem(x)
	}
	if d.Err() != nil {
		return elem{}, false
	}
	return e, bytes.Equal(bodyBytes(e), b)
}

// reinterpretations: every element of another kind that has exactly the pre-image bytes of x, carrying
// x's leaf index and proof.
func reinterpretations(x elem) []elem {
	b := bodyBytes(x)
	var out []elem
	for k := kSC; k < nKinds; k++ {
		if k == x.k {
			continue
		}
		if y, ok := decodeAs(k, b); ok {
			*y.se() = x.se().Copy()
			out = append(out, y)
		}
	}
	return out
}

// preimageOK: the harness's transcription of the pre-image agrees with the real element hash.
func preimageOK(e elem) bool {
	h := types.NewHasher()
	h.WriteDistinguisher(distinguisher[e.k])
	h.E.Write(bodyBytes(e))
	return h.Sum() == e.clone().leaf(false).ElementHash()
}

// separation asks the leaf constructors directly: the element hashes of two elements of different
// kinds over the same bytes must differ.
func separation(c *vlib.Ctx, st *stats, x, y elem, ctx any) {
	hx, hy := x.clone().leaf(false).ElementHash(), y.clone().leaf(false).ElementHash()
	pair := x.k.String() + "-as-" + y.k.String()
	st.mu.Lock()
	st.sepPairs[pair]++
	if preimageOK(x) && preimageOK(y) {
		st.preimageOK++
	} else {
		st.preimageBad++
	}
	st.mu.Unlock()
	if hx == hy {
		c.Violation("domain-separation/"+pair, fmt.Sprintf("the leaf of a %s element and the leaf of the %s element with the same pre-image bytes have the same element hash %v: leaves of different kinds are not kept apart", x.k, y.k, hx),
			map[string]any{"kind": x.k.String(), "element": x.v, "as_kind": y.k.String(), "reinterpreted": y.v, "context": ctx})
	}
}

// ---------------------------------------------------------------------------
// elements whose bytes are a complete encoding of an element of another kind although the two kinds
// have pre-images of different (or variable) length: constructed

// craftATTasV2FC: an attestation whose pre-image has the 424 bytes of a v2 contract element.
func craftATTasV2FC(K *chain.Keyring) elem {
	const total = 32 + 392 // id + v2 contract
	key := "verif"
	a := types.Attestation{PublicKey: K.PK("A"), Key: key}
	a.Value = make([]byte, total-32-32-8-len(key)-8-64)
	for i := range a.Value {
		a.Value[i] = byte(i*5 + 1)
	}
	copy(a.Signature[:], bytes.Repeat([]byte{0xa7}, 64))
	return mkElem(&types.AttestationElement{ID: types.AttestationID(types.HashBytes([]byte("verif/C04/craft/att"))), Attestation: a})
}

// craftFCasV2FC: a v1 contract whose pre-image has the 424 bytes of a v2 contract element.
func craftFCasV2FC(K *chain.Keyring) elem {
	// fixed part 8+32+8+8 + payout (8+8) + two slice prefixes 16 + unlock hash 32 + revision 8 = 128;
	// an output with an n-byte value takes 8+n+32
	fc := types.FileContract{Filesize: 640, FileMerkleRoot: types.HashBytes([]byte("verif/C04/craft/fc root")), WindowStart: 7, WindowEnd: 11,
		Payout: types.NewCurrency(1<<63, 0), UnlockHash: K.Addr("A"), RevisionNumber: 3}
	// 392 - 128 = 264 bytes of outputs: two with 8-byte values (48 bytes each), three with 16-byte values (56 each)
	v8, v16 := types.NewCurrency64(1<<62), types.NewCurrency(5, 1<<63)
	fc.ValidProofOutputs = []types.SiacoinOutput{{Value: v8, Address: K.Addr("B")}, {Value: v16, Address: K.Addr("A")}, {Value: v16, Address: types.VoidAddress}}
	fc.MissedProofOutputs = []types.SiacoinOutput{{Value: v16, Address: K.Addr("B")}, {Value: v8, Address: K.Addr("A")}}
	return mkElem(&types.FileContractElement{ID: types.FileContractID(types.HashBytes([]byte("verif/C04/craft/fc"))), FileContract: fc})
}

// craftV2FCasATT: a v2 contract whose pre-image is a complete attestation element encoding: the bytes
// where an attestation keeps the lengths of its key and value hold matching numbers.
func craftV2FCasATT(K *chain.Keyring) elem {
	fc := types.V2FileContract{Capacity: 4096, Filesize: 1024, ProofHeight: 392 - 56 - 64, ExpirationHeight: 400,
		RenterOutput: types.SiacoinOutput{Value: types.NewCurrency64(1000), Address: K.Addr("A")}, HostOutput: types.SiacoinOutput{Value: types.NewCurrency64(2000), Address: K.Addr("B")},
		MissedHostValue: types.NewCurrency64(500), TotalCollateral: types.NewCurrency64(700), RenterPublicKey: K.PK("R"), HostPublicKey: K.PK("H"), RevisionNumber: 9}
	// attestation layout over the contract bytes: public key = bytes 0..32 (capacity, filesize, root[0:16]);
	// key length = root[16:24] = 8; key = root[24:32]; value length = proof height; signature = host signature
	root := types.HashBytes([]byte("verif/C04/craft/v2fc root"))
	binary.LittleEndian.PutUint64(root[16:], 8)
	copy(root[24:], "verifkey")
	fc.FileMerkleRoot = root
	copy(fc.RenterSignature[:], bytes.Repeat([]byte{0x31}, 64))
	copy(fc.HostSignature[:], bytes.Repeat([]byte{0x32}, 64))
	return mkElem(&types.V2FileContractElement{ID: types.FileContractID(types.HashBytes([]byte("verif/C04/craft/v2fc"))), V2FileContract: fc})
}

// crossKinds builds a small forest of the constructed elements on the real accumulator and presents
// their reinterpretations; it also records, for every ordered pair of kinds, whether a reinterpretation
// exists at all.
func crossKinds(c *vlib.Ctx, st *stats, tmpl consensus.State, K *chain.Keyring) {
	sc := mkElem(&types.SiacoinElement{ID: types.SiacoinOutputID(types.HashBytes([]byte("verif/C04/craft/sc"))), SiacoinOutput: types.SiacoinOutput{Value: types.NewCurrency(77, 5), Address: K.Addr("A")}, MaturityHeight: 1})
	sf := mkElem(&types.SiafundElement{ID: types.SiafundOutputID(types.HashBytes([]byte("verif/C04/craft/sf"))), SiafundOutput: types.SiafundOutput{Value: 9, Address: K.Addr("B")}, ClaimStart: types.NewCurrency(123, 1)})
	cie := mkElem(&types.ChainIndexElement{ID: types.BlockID(types.HashBytes([]byte("verif/C04/craft/cie"))), ChainIndex: types.ChainIndex{Height: 1, ID: types.BlockID(types.HashBytes([]byte("verif/C04/craft/cie")))}})
	crafted := []elem{sc, sf, cie, craftATTasV2FC(K), craftFCasV2FC(K), craftV2FCasATT(K)}
	want := map[string]bool{"siacoin-as-siafund": true, "siafund-as-siacoin": true, "attestation-as-v2filecontract": true, "filecontract-as-v2filecontract": true, "v2filecontract-as-attestation": true}
	var acc consensus.ElementAccumulator
	var leaves []consensus.VerifLeaf
	for _, e := range crafted {
		e.se().LeafIndex = types.UnassignedLeafIndex
		leaves = append(leaves, e.leaf(false))
	}
	acc.VerifApply(nil, leaves)
	cs := tmpl
	cs.Elements = acc
	h := newHost(cs, K, 99)
	tr := newTruth()
	var cur []held
	for _, e := range crafted {
		tr.add(e, false)
		cur = append(cur, held{e, false})
	}
	h.tr = tr
	h.fund, _ = h.funding(cur)
	found := map[string]bool{}
	for _, x := range crafted {
		// the genuine element is a member
		judge(c, st, h, probe{src: "craft", base: "live", mut: "none", e: x.clone(), exp: true}, judgeOpts{supp: true})
		for _, y := range reinterpretations(x) {
			pair := x.k.String() + "-as-" + y.k.String()
			found[pair] = true
			separation(c, st, x, y, "constructed elements")
			judge(c, st, h, probe{src: "craft", base: "live", mut: "reinterpret", detail: pair, e: y, exp: tr.exact(y, false)}, judgeOpts{v2txn: true, supp: true})
		}
	}
	for p := range want {
		if !found[p] {
			c.Infra("the constructed element for the pair %s is not a complete encoding of the other kind any more (encoding changed?)", p)
		}
	}
	// every ordered pair: applicable, or not (pre-images of different fixed lengths / no common encoding constructed)
	na := map[string]string{}
	fixed := map[kind]int{kSC: 88, kSF: 88, kCIE: 72, kV2FC: 424}
	min := map[kind]int{kFC: 32 + 128, kATT: 32 + 112}
	for a := kSC; a < nKinds; a++ {
		for b := kSC; b < nKinds; b++ {
			pair := a.String() + "-as-" + b.String()
			if a == b || found[pair] {
				continue
			}
			la, fa := fixed[a]
			lb, fb := fixed[b]
			switch {
			case fa && fb:
				na[pair] = fmt.Sprintf("not applicable: pre-images of %d and %d bytes", la, lb)
			case fa && !fb && la < min[b]:
				na[pair] = fmt.Sprintf("not applicable: %d bytes, the other kind needs at least %d", la, min[b])
			case !fa && fb && lb < min[a]:
				na[pair] = fmt.Sprintf("not applicable: at least %d bytes, the other kind has %d", min[a], lb)
			default:
				na[pair] = "no byte string that is a complete encoding of both kinds was constructed"
			}
		}
	}
	c.Cov("reinterpret_pairs_without_probe", na)
}
