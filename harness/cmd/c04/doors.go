package main

import (
	"encoding/binary"
	"fmt"
	"strings"
	"sync"
	"time"

	"go.sia.tech/core/blake2b"
	"go.sia.tech/core/consensus"
	"go.sia.tech/core/types"
	"verif/harness/chain"
	"verif/harness/vlib"
)

// A host is one consensus state whose element accumulator is being probed, with what is needed to
// ask the real code through its public doors.
type host struct {
	cs     consensus.State
	K      *chain.Keyring
	child  uint64
	v1ok   bool // v1 transactions and supplements allowed in the child block
	v2ok   bool // v2 transactions allowed in the child block
	blk    *types.Block
	blk2   *types.Block           // carrier with two v1 transactions (placement probes)
	forms  map[string]*carrierBlk // carrier blocks of the other forms (nil entry: not a valid block in this state)
	fund   *types.SiacoinElement  // a genuine spendable element (for the carrier that holds one valid v2 transaction)
	post   *host                  // the same accumulator in a state after RequireHeight (synthetic forests)
	firsts map[[33]byte]*firstUse // honest first uses in the block, per element (second-use family)
	cmp    *companions            // genuine elements that accompany a probe in a multi-element transaction
	tr     *truth                 // what the history really holds: the source of the genuine copy in placement probes
	// a genuine live v2 contract per proof height (parents for storage proofs that carry a probed chain index)
	proofParents map[uint64]*[2]*types.V2FileContractElement // [0]: contract with a non-empty file, [1]: with an empty file
	alt          altValues
	salt         uint64
}

// addProofParent registers a genuine live v2 contract as a possible parent of storage proofs.
func (h *host) addProofParent(x *types.V2FileContractElement) {
	pp := h.proofParents[x.V2FileContract.ProofHeight]
	if pp == nil {
		pp = &[2]*types.V2FileContractElement{}
		h.proofParents[x.V2FileContract.ProofHeight] = pp
	}
	i := 0
	if x.V2FileContract.Filesize == 0 {
		i = 1
	}
	if pp[i] == nil {
		c := x.Copy()
		pp[i] = &c
	}
}

var junkHash = types.HashBytes([]byte("verif/C04/junk hash: no node and no leaf of any forest"))

func newHost(cs consensus.State, K *chain.Keyring, salt uint64) *host {
	h := &host{cs: cs, K: K, child: cs.Index.Height + 1, salt: salt, proofParents: map[uint64]*[2]*types.V2FileContractElement{}}
	h.v1ok = h.child < cs.Network.HardforkV2.RequireHeight
	h.v2ok = h.child >= cs.Network.HardforkV2.AllowHeight
	for _, n := range []string{"X", "Y", "A", "B"} {
		h.alt.addrs = append(h.alt.addrs, K.Addr(n))
		h.alt.keys = append(h.alt.keys, K.PK(n))
	}
	return h
}

// seal builds a block on cs with correct miner payout, commitment and proof of work.
func seal(cs consensus.State, miner types.Address, v1 []types.Transaction, v2 []types.V2Transaction) types.Block {
	return sealV2(cs, miner, v1, v2, cs.Index.Height+1 >= cs.Network.HardforkV2.AllowHeight)
}

// sealV2: withV2 decides whether the block carries V2 block data.
func sealV2(cs consensus.State, miner types.Address, v1 []types.Transaction, v2 []types.V2Transaction, withV2 bool) types.Block {
	child := cs.Index.Height + 1
	pay := cs.BlockReward()
	for _, t := range v1 {
		for _, f := range t.MinerFees {
			pay, _ = pay.AddWithOverflow(f)
		}
	}
	for _, t := range v2 {
		pay, _ = pay.AddWithOverflow(t.MinerFee)
	}
	ts := chain.GenesisTime.Add(time.Duration(child) * 10 * time.Minute)
	if !ts.After(cs.PrevTimestamps[0]) {
		ts = cs.PrevTimestamps[0].Add(10 * time.Minute)
	}
	b := types.Block{ParentID: cs.Index.ID, Timestamp: ts, MinerPayouts: []types.SiacoinOutput{{Address: miner, Value: pay}}, Transactions: v1}
	if withV2 {
		b.V2 = &types.V2BlockData{Height: child, Transactions: v2}
		b.V2.Commitment = cs.Commitment(miner, b.Transactions, b.V2Transactions())
	}
	for i := 0; b.ID().CmpWork(cs.PoWTarget()) < 0; i++ {
		b.Nonce += cs.NonceFactor()
		if i > 1<<22 {
			hpanic("cannot find a nonce")
		}
	}
	return b
}

// carrier is the valid v1 block whose supplement carries the probed element.
func (h *host) carrier() (*types.Block, error) {
	if h.blk != nil {
		return h.blk, nil
	}
	txn := types.Transaction{ArbitraryData: [][]byte{[]byte("verif C04 carrier")}}
	b := seal(h.cs, h.K.Addr("A"), []types.Transaction{txn}, nil)
	if err := consensus.ValidateBlock(h.cs, b, consensus.V1BlockSupplement{Transactions: make([]consensus.V1TransactionSupplement, 1)}); err != nil {
		return nil, err
	}
	h.blk = &b
	return h.blk, nil
}

// ---------------------------------------------------------------------------
// doors

// suppLists are the places of a v1 block supplement that carry an element of the kind.
func suppLists(k kind) []string {
	switch k {
	case kSC:
		return []string{"siacoin-input"}
	case kSF:
		return []string{"siafund-input"}
	case kFC:
		return []string{"revised-contract", "storage-proof-contract", "expiring-contract"}
	}
	return nil
}

// txRoles are the places of a v2 transaction that carry a parent of the kind.
func txRoles(k kind) []string {
	switch k {
	case kSC:
		return []string{"siacoin-input"}
	case kSF:
		return []string{"siafund-input"}
	case kV2FC:
		return []string{"revision-parent", "resolution-parent"}
	case kCIE:
		return []string{"storage-proof-index", "storage-proof-index-empty-file"}
	}
	return nil
}

func (h *host) askShim(e elem, spent bool) (member bool, pan any) {
	_, pan = vlib.Recover(func() { member = h.cs.Elements.VerifContainsLeaf(e.leaf(spent)) })
	return
}

// vteTxn places the element in a v2 transaction (nothing else matters to ValidateTransactionElements).
func vteTxn(e elem, role string) types.V2Transaction {
	var txn types.V2Transaction
	switch x := e.v.(type) {
	case *types.SiacoinElement:
		txn.SiacoinInputs = []types.V2SiacoinInput{{Parent: x.Copy()}}
	case *types.SiafundElement:
		txn.SiafundInputs = []types.V2SiafundInput{{Parent: x.Copy()}}
	case *types.V2FileContractElement:
		if role == "revision-parent" {
			txn.FileContractRevisions = []types.V2FileContractRevision{{Parent: x.Copy(), Revision: x.V2FileContract}}
		} else {
			txn.FileContractResolutions = []types.V2FileContractResolution{{Parent: x.Copy(), Resolution: &types.V2FileContractExpiration{}}}
		}
	case *types.ChainIndexElement:
		// the resolved contract is an ephemeral placeholder (skipped by the element check), so that the
		// verdict is about the chain index element alone
		parent := types.V2FileContractElement{StateElement: types.StateElement{LeafIndex: types.UnassignedLeafIndex}}
		txn.FileContractResolutions = []types.V2FileContractResolution{{Parent: parent, Resolution: &types.V2StorageProof{ProofIndex: x.Copy()}}}
	}
	return txn
}

func (h *host) askVTE(e elem, role string) (member bool, pan any) {
	txn := vteTxn(e, role)
	_, pan = vlib.Recover(func() { member = h.cs.Elements.ValidateTransactionElements(txn) == nil })
	return
}

func (h *host) askSupp(e elem, list string) (member bool, err error, pan any) {
	blk, cerr := h.carrier()
	if cerr != nil {
		hpanic("carrier block invalid: %v", cerr)
	}
	bs := consensus.V1BlockSupplement{Transactions: make([]consensus.V1TransactionSupplement, 1)}
	switch x := e.v.(type) {
	case *types.SiacoinElement:
		bs.Transactions[0].SiacoinInputs = []types.SiacoinElement{x.Copy()}
	case *types.SiafundElement:
		bs.Transactions[0].SiafundInputs = []types.SiafundElement{x.Copy()}
	case *types.FileContractElement:
		switch list {
		case "revised-contract":
			bs.Transactions[0].RevisedFileContracts = []types.FileContractElement{x.Copy()}
		case "storage-proof-contract":
			bs.Transactions[0].StorageProofs = []consensus.V1StorageProofSupplement{{FileContract: x.Copy(), WindowID: h.cs.Index.ID}}
		default:
			bs.ExpiringFileContracts = []types.FileContractElement{x.Copy()}
		}
	}
	_, pan = vlib.Recover(func() { err = consensus.ValidateBlock(h.cs, *blk, bs) })
	return err == nil, err, pan
}

// The forms of a block whose supplement can carry v1 parents (Membership!Forms). Whatever the form, the
// supplement is acceptable iff every supplied element is a member -- and from RequireHeight on only
// the empty supplement is.
var carrierForms = []string{"v1-txns-no-v2-data", "v1-no-txns", "v2-data-no-txns", "v2-data-one-v2-txn", "v2-data-v1-txns"}

type carrierBlk struct {
	blk types.Block
	nTx int // v1 transactions (= transaction supplements)
}

// defaultForm is the form of carrier() / carrier2() in this state.
func (h *host) defaultForm() string {
	if h.v2ok {
		return "v2-data-v1-txns"
	}
	return "v1-txns-no-v2-data"
}

// form builds the carrier block of the given form and makes sure the real code accepts it with an
// empty supplement (otherwise the form does not exist in this state: nil).
func (h *host) form(name string) *carrierBlk {
	if cb, ok := h.forms[name]; ok {
		return cb
	}
	if h.forms == nil {
		h.forms = map[string]*carrierBlk{}
	}
	h.forms[name] = nil
	miner := h.K.Addr("A")
	v1 := []types.Transaction{{ArbitraryData: [][]byte{[]byte("verif C04 carrier 0")}}, {ArbitraryData: [][]byte{[]byte("verif C04 carrier 1")}}}
	var cb carrierBlk
	switch name {
	case "v1-txns-no-v2-data":
		cb = carrierBlk{sealV2(h.cs, miner, v1, nil, false), 2}
	case "v1-no-txns":
		cb = carrierBlk{sealV2(h.cs, miner, nil, nil, false), 0}
	case "v2-data-no-txns":
		if !h.v2ok {
			return nil
		}
		cb = carrierBlk{sealV2(h.cs, miner, nil, nil, true), 0}
	case "v2-data-one-v2-txn":
		if !h.v2ok || h.fund == nil {
			return nil
		}
		txn, ok := h.attack(h.cs, mkElem(h.fund), "siacoin-input")
		if !ok {
			return nil
		}
		cb = carrierBlk{sealV2(h.cs, miner, nil, []types.V2Transaction{txn}, true), 0}
	case "v2-data-v1-txns":
		if !h.v2ok {
			return nil
		}
		cb = carrierBlk{sealV2(h.cs, miner, v1, nil, true), 2}
	default:
		hpanic("unknown carrier form %s", name)
	}
	var err error
	if p, _ := vlib.Recover(func() {
		err = consensus.ValidateBlock(h.cs, cb.blk, consensus.V1BlockSupplement{Transactions: make([]consensus.V1TransactionSupplement, cb.nTx)})
	}); p || err != nil {
		return nil
	}
	h.forms[name] = &cb
	return &cb
}

// askForm: the element in one list of the supplement of a carrier of the given form (per-transaction
// lists only where the form has v1 transactions); with a genuine copy g of the same ID before it
// (order "g-first") or after it ("e-first") if g is given.
func (h *host) askForm(cb *carrierBlk, e elem, g *elem, order, list string) (accepted bool, err error, pan any) {
	bs := consensus.V1BlockSupplement{Transactions: make([]consensus.V1TransactionSupplement, cb.nTx)}
	if g != nil && order == "g-first" {
		h.putSupp(&bs, 0, list, *g)
	}
	h.putSupp(&bs, 0, list, e)
	if g != nil && order != "g-first" {
		h.putSupp(&bs, 0, list, *g)
	}
	_, pan = vlib.Recover(func() { err = consensus.ValidateBlock(h.cs, cb.blk, bs) })
	return err == nil && pan == nil, err, pan
}

// carrier2 is a valid v1 block with two transactions: the supplement of the first can hold a genuine
// (unreferenced) copy of an element while the supplement of the second holds the presented one.
func (h *host) carrier2() *types.Block {
	if h.blk2 != nil {
		return h.blk2
	}
	txns := []types.Transaction{{ArbitraryData: [][]byte{[]byte("verif C04 carrier 0")}}, {ArbitraryData: [][]byte{[]byte("verif C04 carrier 1")}}}
	b := seal(h.cs, h.K.Addr("A"), txns, nil)
	if err := consensus.ValidateBlock(h.cs, b, consensus.V1BlockSupplement{Transactions: make([]consensus.V1TransactionSupplement, 2)}); err != nil {
		hpanic("two-transaction carrier block invalid: %v", err)
	}
	h.blk2 = &b
	return h.blk2
}

// putSupp appends the element to one list of the supplement (tx: index of the transaction supplement;
// ignored for the block-level list of expiring contracts).
func (h *host) putSupp(bs *consensus.V1BlockSupplement, tx int, list string, e elem) {
	switch x := e.clone().v.(type) {
	case *types.SiacoinElement:
		bs.Transactions[tx].SiacoinInputs = append(bs.Transactions[tx].SiacoinInputs, x.Copy())
	case *types.SiafundElement:
		bs.Transactions[tx].SiafundInputs = append(bs.Transactions[tx].SiafundInputs, x.Copy())
	case *types.FileContractElement:
		switch list {
		case "revised-contract":
			bs.Transactions[tx].RevisedFileContracts = append(bs.Transactions[tx].RevisedFileContracts, x.Copy())
		case "storage-proof-contract":
			bs.Transactions[tx].StorageProofs = append(bs.Transactions[tx].StorageProofs, consensus.V1StorageProofSupplement{FileContract: x.Copy(), WindowID: h.cs.Index.ID})
		default:
			bs.ExpiringFileContracts = append(bs.ExpiringFileContracts, x.Copy())
		}
	}
}

// placements of a presented element e relative to a genuine copy g with the same ID inside one block
// supplement. validateSupplement must judge every entry on its own: the block is acceptable iff every
// entry is a member (Membership!SuppAccept).
//
//	same-list       g, then e in the same list of the same transaction (for expiring contracts: the same list)
//	later-txn       g in the first transaction's supplement, e in the same list of the second transaction's
//	                (for expiring contracts: g among the first transaction's revised contracts)
//	cross-list      contracts: g in ANOTHER list of the first transaction, e in the list of the second
//	forged-first    e in the first transaction's supplement, g in the second's (expiring: e before g)
func placements(k kind) []string {
	if k == kFC {
		return []string{"same-list", "later-txn", "cross-list", "forged-first"}
	}
	return []string{"same-list", "later-txn", "forged-first"}
}

func (h *host) askSuppPlaced(g, e elem, list, placement string) (accepted bool, err error, pan any) {
	blk := h.carrier2()
	bs := consensus.V1BlockSupplement{Transactions: make([]consensus.V1TransactionSupplement, 2)}
	other := "revised-contract"
	if list == other {
		other = "storage-proof-contract"
	}
	switch placement {
	case "same-list":
		h.putSupp(&bs, 0, list, g)
		h.putSupp(&bs, 0, list, e)
	case "later-txn":
		if list == "expiring-contract" {
			h.putSupp(&bs, 0, "revised-contract", g)
		} else {
			h.putSupp(&bs, 0, list, g)
		}
		h.putSupp(&bs, 1, list, e)
	case "cross-list":
		h.putSupp(&bs, 0, other, g)
		h.putSupp(&bs, 1, list, e)
	case "forged-first":
		h.putSupp(&bs, 0, list, e)
		h.putSupp(&bs, 1, list, g)
	default:
		hpanic("unknown placement %s", placement)
	}
	_, pan = vlib.Recover(func() { err = consensus.ValidateBlock(h.cs, *blk, bs) })
	return err == nil && pan == nil, err, pan
}

// ---------------------------------------------------------------------------
// the attacker's transaction: otherwise valid and signed, spending / revising / resolving the
// presented element whatever its field values are

func (h *host) known(a types.Address) (string, bool) {
	n := h.K.NameOf(a)
	return n, !strings.HasPrefix(n, "?") && n != "V"
}

func fileProof(cs consensus.State, size uint64, idx uint64) (leaf [64]byte, proof []types.Hash256) {
	segs := chain.Leaves(chain.FileData(size))
	if len(segs) == 0 {
		return
	}
	hs := make([]types.Hash256, len(segs))
	for i, l := range segs {
		hs[i] = cs.StorageProofLeafHash(l)
	}
	copy(leaf[:], segs[idx])
	return leaf, chain.PlainProof(hs, int(idx), func(l, r types.Hash256) types.Hash256 { return blake2b.SumPair(l, r) })
}

func fileRoot(cs consensus.State, size uint64) types.Hash256 {
	var hs []types.Hash256
	for _, l := range chain.Leaves(chain.FileData(size)) {
		hs = append(hs, cs.StorageProofLeafHash(l))
	}
	return chain.PlainRoot(hs, func(l, r types.Hash256) types.Hash256 { return blake2b.SumPair(l, r) })
}

func (h *host) attack(cs consensus.State, e elem, role string) (txn types.V2Transaction, ok bool) {
	K := h.K
	defer func() {
		if r := recover(); r != nil {
			if he, is := r.(harnessErr); is {
				panic(he)
			}
			ok = false // e.g. currency overflow while summing mutated values: no transaction can be built
		}
	}()
	switch x := e.v.(type) {
	case *types.SiacoinElement:
		name, is := h.known(x.SiacoinOutput.Address)
		if !is {
			return txn, false
		}
		txn.SiacoinInputs = []types.V2SiacoinInput{{Parent: x.Copy(), SatisfiedPolicy: types.SatisfiedPolicy{Policy: K.Policy(name)}}}
		txn.MinerFee = x.SiacoinOutput.Value
		sig := K.SK(name).SignHash(cs.InputSigHash(txn))
		txn.SiacoinInputs[0].SatisfiedPolicy.Signatures = []types.Signature{sig}
		return txn, true
	case *types.SiafundElement:
		name, is := h.known(x.SiafundOutput.Address)
		if !is {
			return txn, false
		}
		txn.SiafundInputs = []types.V2SiafundInput{{Parent: x.Copy(), ClaimAddress: K.Addr("A"), SatisfiedPolicy: types.SatisfiedPolicy{Policy: K.Policy(name)}}}
		if x.SiafundOutput.Value > 0 {
			txn.SiafundOutputs = []types.SiafundOutput{{Value: x.SiafundOutput.Value, Address: K.Addr("A")}}
		}
		sig := K.SK(name).SignHash(cs.InputSigHash(txn))
		txn.SiafundInputs[0].SatisfiedPolicy.Signatures = []types.Signature{sig}
		return txn, true
	case *types.V2FileContractElement:
		fc := x.V2FileContract
		rk, hk := K.NameOfKey(fc.RenterPublicKey), K.NameOfKey(fc.HostPublicKey)
		if role == "revision-parent" {
			rev := fc
			rev.RevisionNumber++
			if rev.RevisionNumber == 0 {
				return txn, false
			}
			sh := cs.ContractSigHash(rev)
			rev.RenterSignature, rev.HostSignature = K.SK(rk).SignHash(sh), K.SK(hk).SignHash(sh)
			txn.FileContractRevisions = []types.V2FileContractRevision{{Parent: x.Copy(), Revision: rev}}
			return txn, true
		}
		if h.child > fc.ExpirationHeight {
			txn.FileContractResolutions = []types.V2FileContractResolution{{Parent: x.Copy(), Resolution: &types.V2FileContractExpiration{}}}
			return txn, true
		}
		// renewal: rolls part of the payout into a fresh contract, pays the rest out; needs no other input
		payout, of := fc.RenterOutput.Value.AddWithOverflow(fc.HostOutput.Value)
		if of || payout.Cmp(types.NewCurrency64(2)) < 0 {
			return txn, false
		}
		nc := types.V2FileContract{Capacity: 0, Filesize: 0, ProofHeight: h.child + 10, ExpirationHeight: h.child + 20,
			RenterOutput:    types.SiacoinOutput{Value: payout.Div64(2), Address: fc.RenterOutput.Address},
			HostOutput:      types.SiacoinOutput{Address: fc.HostOutput.Address},
			RenterPublicKey: fc.RenterPublicKey, HostPublicKey: fc.HostPublicKey}
		roll := nc.RenterOutput.Value.Add(cs.V2FileContractTax(nc))
		ren := &types.V2FileContractRenewal{
			FinalRenterOutput: types.SiacoinOutput{Value: payout.Sub(roll), Address: fc.RenterOutput.Address},
			FinalHostOutput:   types.SiacoinOutput{Address: fc.HostOutput.Address},
			RenterRollover:    roll, NewContract: nc}
		csh := cs.ContractSigHash(ren.NewContract)
		ren.NewContract.RenterSignature, ren.NewContract.HostSignature = K.SK(rk).SignHash(csh), K.SK(hk).SignHash(csh)
		rsh := cs.RenewalSigHash(*ren)
		ren.RenterSignature, ren.HostSignature = K.SK(rk).SignHash(rsh), K.SK(hk).SignHash(rsh)
		txn.FileContractResolutions = []types.V2FileContractResolution{{Parent: x.Copy(), Resolution: ren}}
		return txn, true
	case *types.ChainIndexElement:
		pp := h.proofParents[x.ChainIndex.Height]
		if pp == nil {
			return txn, false
		}
		p := pp[0]
		if role == "storage-proof-index-empty-file" {
			p = pp[1]
		}
		if p == nil {
			return txn, false
		}
		fc := p.V2FileContract
		sp := &types.V2StorageProof{ProofIndex: x.Copy()}
		idx := cs.StorageProofLeafIndex(fc.Filesize, x.ChainIndex.ID, p.ID)
		sp.Leaf, sp.Proof = fileProof(cs, fc.Filesize, idx)
		txn.FileContractResolutions = []types.V2FileContractResolution{{Parent: p.Copy(), Resolution: sp}}
		return txn, true
	}
	return txn, false
}

// askV2Txn asks ValidateV2Transaction about the attacker's transaction. decisive: the same
// construction is accepted by a state whose accumulator does contain the presented element (at a
// height of its own, so that no real tree is disturbed) -- then the verdict on the real state is a
// verdict on membership alone.
func (h *host) askV2Txn(e elem, role string) (accepted, built, decisive bool, err error, pan any) {
	txn, ok := h.attack(h.cs, e, role)
	if !ok {
		return false, false, false, nil, nil
	}
	_, pan = vlib.Recover(func() { err = consensus.ValidateV2Transaction(consensus.NewMidState(h.cs), txn) })
	accepted = err == nil && pan == nil
	// control
	e2 := e.clone()
	proof := make([]types.Hash256, 63)
	for i := range proof {
		proof[i] = junkHash
	}
	e2.se().MerkleProof = proof
	cs2 := h.cs
	cs2.Elements.NumLeaves |= 1 << 63
	cs2.Elements.Trees[63] = e2.leaf(false).ProofRoot()
	if txn2, ok2 := h.attack(cs2, e2, role); ok2 {
		var cerr error
		if p, _ := vlib.Recover(func() { cerr = consensus.ValidateV2Transaction(consensus.NewMidState(cs2), txn2) }); !p && cerr == nil {
			decisive = true
		}
	}
	return accepted, true, decisive, err, pan
}

// v1Attack is the v1 counterpart: a signed v1 transaction that spends (siacoin, siafund) or revises
// (contract) the presented element, and the supplement that supplies the element as its parent.
func (h *host) v1Attack(cs consensus.State, e elem) (txn types.Transaction, ts consensus.V1TransactionSupplement, ok bool) {
	K := h.K
	defer func() {
		if r := recover(); r != nil {
			if he, is := r.(harnessErr); is {
				panic(he)
			}
			ok = false
		}
	}()
	var name string
	var is bool
	switch x := e.v.(type) {
	case *types.SiacoinElement:
		if name, is = h.known(x.SiacoinOutput.Address); !is {
			return txn, ts, false
		}
		txn.SiacoinInputs = []types.SiacoinInput{{ParentID: x.ID, UnlockConditions: K.UC(name)}}
		if !x.SiacoinOutput.Value.IsZero() {
			txn.MinerFees = []types.Currency{x.SiacoinOutput.Value}
		}
		ts.SiacoinInputs = []types.SiacoinElement{x.Copy()}
	case *types.SiafundElement:
		if name, is = h.known(x.SiafundOutput.Address); !is {
			return txn, ts, false
		}
		txn.SiafundInputs = []types.SiafundInput{{ParentID: x.ID, UnlockConditions: K.UC(name), ClaimAddress: K.Addr("A")}}
		if x.SiafundOutput.Value > 0 {
			txn.SiafundOutputs = []types.SiafundOutput{{Value: x.SiafundOutput.Value, Address: K.Addr("A")}}
		}
		ts.SiafundInputs = []types.SiafundElement{x.Copy()}
	case *types.FileContractElement:
		if name, is = h.known(x.FileContract.UnlockHash); !is {
			return txn, ts, false
		}
		rev := x.FileContract
		rev.RevisionNumber++
		if rev.RevisionNumber == 0 {
			return txn, ts, false
		}
		txn.FileContractRevisions = []types.FileContractRevision{{ParentID: x.ID, UnlockConditions: K.UC(name), FileContract: rev}}
		c := x.Copy()
		ts.RevisedFileContracts = []types.FileContractElement{mkElem(&c).clone().v.(*types.FileContractElement).Copy()}
	default:
		return txn, ts, false
	}
	id := types.Hash256(e.id())
	txn.Signatures = []types.TransactionSignature{{ParentID: id, PublicKeyIndex: 0, CoveredFields: types.CoveredFields{WholeTransaction: true}}}
	sig := K.SK(name).SignHash(cs.WholeSigHash(txn, id, 0, 0, nil))
	txn.Signatures[0].Signature = sig[:]
	return txn, ts, true
}

// askSuppUsed asks ValidateBlock about a v1 block in which the presented element is the actual parent
// of a signed transaction and is supplied through the supplement. decisive: as for askV2Txn.
//
// With a genuine copy g (same ID) and an order, the block has a second, unrelated transaction whose
// supplement carries g unreferenced: "genuine-earlier" puts that transaction (and so g) before the
// spending one, "forged-earlier" after it. The spending transaction's outputs are balanced against the
// PRESENTED element, so that only the membership check can reject it.
func (h *host) askSuppUsed(e elem, g *elem, order string) (accepted, built, decisive bool, err error, pan any) {
	miner := h.K.Addr("A")
	extra := types.Transaction{ArbitraryData: [][]byte{[]byte("verif C04 bystander")}}
	assemble := func(cs consensus.State, e elem) (types.Block, consensus.V1BlockSupplement, bool) {
		txn, ts, ok := h.v1Attack(cs, e)
		if !ok {
			return types.Block{}, consensus.V1BlockSupplement{}, false
		}
		if g == nil {
			return seal(cs, miner, []types.Transaction{txn}, nil), consensus.V1BlockSupplement{Transactions: []consensus.V1TransactionSupplement{ts}}, true
		}
		bs := consensus.V1BlockSupplement{Transactions: make([]consensus.V1TransactionSupplement, 2)}
		if order == "genuine-earlier" {
			h.putSupp(&bs, 0, usedRole(e.k), *g)
			bs.Transactions[1] = ts
			return seal(cs, miner, []types.Transaction{extra, txn}, nil), bs, true
		}
		bs.Transactions[0] = ts
		h.putSupp(&bs, 1, usedRole(e.k), *g)
		return seal(cs, miner, []types.Transaction{txn, extra}, nil), bs, true
	}
	blk, bs, ok := assemble(h.cs, e)
	if !ok {
		return false, false, false, nil, nil
	}
	_, pan = vlib.Recover(func() { err = consensus.ValidateBlock(h.cs, blk, bs) })
	accepted = err == nil && pan == nil
	e2 := e.clone()
	proof := make([]types.Hash256, 63)
	for i := range proof {
		proof[i] = junkHash
	}
	e2.se().MerkleProof = proof
	cs2 := h.cs
	cs2.Elements.NumLeaves |= 1 << 63
	cs2.Elements.Trees[63] = e2.leaf(false).ProofRoot()
	if blk2, bs2, ok2 := assemble(cs2, e2); ok2 {
		var cerr error
		if p, _ := vlib.Recover(func() { cerr = consensus.ValidateBlock(cs2, blk2, bs2) }); !p && cerr == nil {
			decisive = true
		}
	}
	return accepted, true, decisive, err, pan
}

func usedRole(k kind) string {
	switch k {
	case kSC:
		return "siacoin-input"
	case kSF:
		return "siafund-input"
	case kFC:
		return "revised-contract"
	}
	return ""
}

// ---------------------------------------------------------------------------
// probes, verdicts, coverage

// A probe is one element as presented to the accumulator, with the specification's verdict.
type probe struct {
	src    string // tlc | chain | long
	base   string // status of the element it was derived from: live | spent | reverted | stale | never
	mut    string // mutation class of the catalogue
	detail string // e.g. field path and variant
	tpath  string // type-level field path (field mutations)
	e      elem
	spent  bool // flag it is presented with (the transaction doors always present "unspent")
	exp    bool // Member per the specification
	ctx    any  // replay context
}

type stats struct {
	mu          sync.Mutex
	asks        map[string]int64            // door -> calls
	verdicts    map[string]*[2]int64        // door(+role) -> [rejected, accepted] where expectation was met
	kinds       map[string]map[string]int64 // door -> kind -> calls
	muts        map[string]int64            // mutation class -> probes
	bases       map[string]int64            // base status -> probes
	fields      map[string]map[string]int64 // door -> kind/tpath -> decisive rejections
	heights     map[int]int64               // proof lengths of genuine accepted members
	maxN        uint64
	probes      int64
	bySrc       map[string]int64
	ibSkipped   map[string]int64 // in-block family: states without a usable block prefix, by reason
	sepPairs    map[string]int64 // ordered pairs of kinds checked at the leaf constructors
	reDoors     map[string]int64 // door -> verdicts on reinterpreted elements
	reNA        map[string]int64 // kind -> elements without any reinterpretation
	preimageOK  int64
	preimageBad int64
	postGenuine int64            // genuine live contracts presented after RequireHeight (must be refused too)
	ibPrefixes  int64            // block prefixes built, validated and applied
	ibClasses   map[string]int64 // door/id source/contents class -> probes
	distinct    []uint64         // fingerprints of (accumulator, presented leaf, index, proof, flag) tuples over non-empty accumulators (deduplicated at the end)
	nondec      map[string]int64 // v2txn role -> probes whose control did not pass
	suppErr     map[string]int64
	samples     int
}

func newStats() *stats {
	return &stats{asks: map[string]int64{}, verdicts: map[string]*[2]int64{}, kinds: map[string]map[string]int64{}, muts: map[string]int64{},
		bases: map[string]int64{}, fields: map[string]map[string]int64{}, heights: map[int]int64{},
		nondec: map[string]int64{}, suppErr: map[string]int64{}, bySrc: map[string]int64{}, ibSkipped: map[string]int64{}, ibClasses: map[string]int64{}, sepPairs: map[string]int64{}, reDoors: map[string]int64{}, reNA: map[string]int64{}}
}

func (s *stats) noteP(p *probe, door, role string, accepted bool) {
	s.note(door, role, p.e.k, accepted)
	if p.mut == "reinterpret" {
		s.reDoors[door]++
	}
}

func (s *stats) note(door, role string, k kind, accepted bool) {
	s.asks[door]++
	d := door
	if role != "" {
		d += ":" + role
	}
	v := s.verdicts[d]
	if v == nil {
		v = &[2]int64{}
		s.verdicts[d] = v
	}
	if accepted {
		v[1]++
	} else {
		v[0]++
	}
	if s.kinds[door] == nil {
		s.kinds[door] = map[string]int64{}
	}
	s.kinds[door][k.String()]++
}

func (s *stats) field(door string, k kind, tpath string) {
	if s.fields[door] == nil {
		s.fields[door] = map[string]int64{}
	}
	s.fields[door][k.String()+"/"+tpath]++
}

type judgeOpts struct {
	v2txn bool // also ask the doors that need signed transactions: ValidateV2Transaction, and ValidateBlock with the element as the parent of a signed v1 transaction
	supp  bool // also ask ValidateBlock through the supplement
	lean  bool // placement probes: only the genuine-copy-first-then-later-transaction placement (big thorough slices)
}

// judgeV2Txn asks ValidateV2Transaction (attacker's transaction, with control) and compares.
func (h *host) judgeV2Txn(c *vlib.Ctx, st *stats, p probe, role string, report func(door, role string, accepted bool, pan any, extra string)) {
	k := p.e.k
	acc, built, dec, err, pan := h.askV2Txn(p.e, role)
	if !built {
		return
	}
	st.mu.Lock()
	if !dec && !acc && pan == nil {
		// the transaction would be invalid even if the element were a member: no verdict on membership
		st.nondec[role]++
		st.mu.Unlock()
		return
	}
	st.noteP(&p, "v2txn", role, acc)
	if acc == p.exp && !acc && p.tpath != "" {
		st.field("v2txn", k, p.tpath)
	}
	st.mu.Unlock()
	if acc != p.exp || pan != nil {
		extra := ""
		if err != nil {
			extra = " (" + err.Error() + ")"
		}
		report("v2txn", role, acc, pan, extra)
	}
}

func fingerprint(h *host, p probe) uint64 {
	se := p.e.se()
	buf := make([]byte, 0, 128+32*len(se.MerkleProof))
	buf = binary.LittleEndian.AppendUint64(buf, h.cs.Elements.NumLeaves)
	if len(se.MerkleProof) < 64 {
		buf = append(buf, h.cs.Elements.Trees[len(se.MerkleProof)][:]...)
	}
	lh := p.e.leaf(p.spent).Hash()
	buf = append(buf, lh[:]...)
	buf = binary.LittleEndian.AppendUint64(buf, se.LeafIndex)
	for _, x := range se.MerkleProof {
		buf = append(buf, x[:]...)
	}
	s := types.HashBytes(buf)
	return binary.LittleEndian.Uint64(s[:8])
}

// judge asks every applicable door about the probe and compares with the specification's verdict.
func judge(c *vlib.Ctx, st *stats, h *host, p probe, o judgeOpts) {
	k := p.e.k
	mutKey := p.mut
	if p.tpath != "" {
		mutKey = p.mut + ":" + p.tpath
	}
	report := func(door, role string, accepted bool, pan any, extra string) {
		what := "rejected-member"
		if accepted {
			what = "accepted-nonmember"
		}
		if pan != nil {
			what = "panic"
		}
		d := door
		if role != "" {
			d += ":" + role
		}
		key := fmt.Sprintf("%s/%s/%s/%s/%s", d, k, p.base, mutKey, what)
		msg := fmt.Sprintf("%s: %s element (%s) with mutation %s %s presented as spent=%v: the specification says member=%v, the code says %v%s (accumulator of %d leaves, proof length %d, leaf index %d)",
			d, p.base, k, mutKey, p.detail, p.spent, p.exp, accepted, extra, h.cs.Elements.NumLeaves, len(p.e.se().MerkleProof), p.e.se().LeafIndex)
		if pan != nil {
			msg += fmt.Sprintf("; panic: %v", pan)
		}
		c.Violation(key, msg, map[string]any{"source": p.src, "door": d, "kind": k.String(), "base": p.base, "mutation": mutKey, "detail": p.detail,
			"spent": p.spent, "expected": p.exp, "element": p.e.v, "accumulator": h.cs.Elements, "context": p.ctx})
	}
	fp := fingerprint(h, p)
	st.mu.Lock()
	st.probes++
	st.bySrc[p.src]++
	if h.cs.Elements.NumLeaves > 0 {
		st.distinct = append(st.distinct, fp)
	}
	st.muts[p.mut]++
	st.bases[p.base]++
	if h.cs.Elements.NumLeaves > st.maxN {
		st.maxN = h.cs.Elements.NumLeaves
	}
	st.mu.Unlock()

	// the shim
	got, pan := h.askShim(p.e, p.spent)
	st.mu.Lock()
	st.noteP(&p, "shim", "", got)
	if got == p.exp && pan == nil {
		if !got && p.tpath != "" {
			st.field("shim", k, p.tpath)
		}
		if got {
			st.heights[len(p.e.se().MerkleProof)]++
		}
	}
	st.mu.Unlock()
	if got != p.exp || pan != nil {
		report("shim", "", got, pan, "")
	}
	if p.spent {
		return // the public doors ask "is it unspent / unresolved"
	}
	// second use in the block: an honest earlier transaction has revised (contracts) or spent (outputs) the genuine
	// element with this ID; the presented element is the parent of a later transaction of the same block
	if roles := reuseRoles(k); o.v2txn && len(roles) > 0 {
		if fu := h.first(p.e); fu != nil && fu.ok {
			for _, role := range roles {
				// outputs spent earlier (every presentation is refused by ID: a sample suffices) and v1 contracts
				// (always a whole block): every fourth / second probe and every genuine one
				if !p.exp && ((k == kSC || k == kSF) && fp%4 != 1 || k == kFC && fp%2 != 1) {
					continue
				}
				after := "-after-revision"
				exp, needControl := p.exp, true
				if k == kSC || k == kSF {
					after, exp, needControl = "-after-spend", false, false
				}
				name := k.String() + "-" + role + after
				accT, accB, built, dec, err, pan := h.askReuse(fu, p.e, role, p.exp || fp%4 == 0 || k == kFC)
				if !built {
					continue
				}
				whole := p.exp || fp%4 == 0 || k == kFC
				st.mu.Lock()
				if needControl && !dec && !accT && !accB && pan == nil {
					st.nondec["reuse:"+name]++
					st.mu.Unlock()
					continue
				}
				st.noteP(&p, "reuse", name, accT)
				if whole {
					st.noteP(&p, "reuse-block", name, accB)
				}
				if !accT && p.tpath != "" {
					st.field("reuse", k, p.tpath)
				}
				st.mu.Unlock()
				extra := " after an honest first use of the genuine element earlier in the block"
				if err != nil {
					extra += " (" + err.Error() + ")"
				}
				if accT != exp || pan != nil {
					report("reuse", name, accT, pan, extra)
				}
				if whole && (accB != exp || pan != nil) {
					report("reuse-block", name, accB, pan, extra)
				}
			}
		}
	}
	for _, role := range txRoles(k) {
		if role == "storage-proof-index-empty-file" {
			// same question to ValidateTransactionElements as the previous role; only the transaction door differs
			if o.v2txn && h.v2ok {
				h.judgeV2Txn(c, st, p, role, report)
			}
			continue
		}
		got, pan := h.askVTE(p.e, role)
		st.mu.Lock()
		st.noteP(&p, "vte", role, got)
		if got == p.exp && !got && p.tpath != "" {
			st.field("vte", k, p.tpath)
		}
		st.mu.Unlock()
		if got != p.exp || pan != nil {
			report("vte", role, got, pan, "")
		}
		// the probe as one of several parents of the transaction (every genuine probe, a sample of the others)
		if p.exp || fp%8 == 2 && !o.lean || fp%32 == 2 {
			for _, mc := range h.multiTxns(p.e, role) {
				got, pan := h.askVTEMulti(mc.txn)
				st.mu.Lock()
				st.noteP(&p, "vte-multi", mc.name, got)
				if got == p.exp && !got && p.tpath != "" {
					st.field("vte-multi", k, p.tpath)
				}
				st.mu.Unlock()
				if got != p.exp || pan != nil {
					report("vte-multi", mc.name, got, pan, " (all other parents of the transaction are genuine)")
				}
			}
		}
		if o.v2txn && h.v2ok {
			h.judgeV2Txn(c, st, p, role, report)
		}
	}
	// the genuine element with the same ID, if the history holds one (placement probes)
	var genuine *elem
	if h.tr != nil && len(suppLists(k)) > 0 {
		if g, ok := h.tr.live[tkey(p.e)]; ok {
			genuine = &g
		}
	}
	if role := usedRole(k); o.v2txn && h.v1ok && role != "" {
		type variant struct {
			door, role, order string
			g                 *elem
		}
		vs := []variant{{"supp-used", role, "", nil}}
		if genuine != nil && (p.exp || fp%2 == 0) {
			vs = append(vs, variant{"supp-used-placed", role + "/genuine-earlier", "genuine-earlier", genuine}, variant{"supp-used-placed", role + "/forged-earlier", "forged-earlier", genuine})
		}
		for _, v := range vs {
			acc, built, dec, err, pan := h.askSuppUsed(p.e, v.g, v.order)
			if !built {
				continue
			}
			st.mu.Lock()
			if !dec && !acc && pan == nil {
				st.nondec["v1:"+v.role]++
				st.mu.Unlock()
				continue
			}
			st.noteP(&p, v.door, v.role, acc)
			if acc == p.exp && !acc && p.tpath != "" {
				st.field(v.door, k, p.tpath)
			}
			st.mu.Unlock()
			if acc != p.exp || pan != nil {
				extra := ""
				if err != nil {
					extra = " (" + err.Error() + ")"
				}
				report(v.door, v.role, acc, pan, extra)
			}
		}
	}
	if o.supp && h.v1ok && genuine != nil {
		for _, list := range suppLists(k) {
			for _, pl := range placements(k) {
				// "later-txn" for every probe; the other placements for every third probe (and every genuine one)
				if pl != "later-txn" && (o.lean || fp%3 != 0) && !p.exp {
					continue
				}
				got, err, pan := h.askSuppPlaced(*genuine, p.e, list, pl)
				st.mu.Lock()
				st.noteP(&p, "supp-placed", list+"/"+pl, got)
				if got == p.exp && !got && p.tpath != "" {
					st.field("supp-placed", k, p.tpath)
				}
				st.mu.Unlock()
				if got != p.exp || pan != nil {
					extra := " with a genuine copy of the same ID in the same supplement"
					if err != nil {
						extra += " (" + err.Error() + ")"
					}
					report("supp-placed", list+"/"+pl, got, pan, extra)
				}
			}
		}
	}
	if o.supp && h.v1ok {
		for _, list := range suppLists(k) {
			got, err, pan := h.askSupp(p.e, list)
			st.mu.Lock()
			st.noteP(&p, "supp", list, got)
			if got == p.exp && !got && p.tpath != "" {
				st.field("supp", k, p.tpath)
			}
			if err != nil {
				if strings.Contains(err.Error(), "supplement") {
					st.suppErr["block supplement is invalid"]++
				} else {
					st.suppErr["other"]++
				}
			}
			st.mu.Unlock()
			if got != p.exp || pan != nil {
				extra := ""
				if err != nil {
					extra = " (" + err.Error() + ")"
				}
				report("supp", list, got, pan, extra)
			}
			st.mu.Lock()
			st.noteP(&p, "supp-form", list+"@"+h.defaultForm(), got) // the carrier above has this form
			st.mu.Unlock()
		}
	}
	// the other forms of the carrier block (with / without v1 transactions, with / without V2 data)
	if o.supp && h.v1ok && len(suppLists(k)) > 0 {
		for _, fname := range carrierForms {
			if fname == h.defaultForm() {
				continue
			}
			cb := h.form(fname)
			if cb == nil {
				continue
			}
			for _, list := range suppLists(k) {
				if list != "expiring-contract" {
					// per-transaction lists: only forms with v1 transactions; every fourth probe and every genuine one
					if cb.nTx == 0 || ((o.lean || fp%4 != 0) && !p.exp) {
						continue
					}
				}
				type ask struct {
					g     *elem
					order string
					door  string
				}
				asks := []ask{{nil, "", "supp-form"}}
				if genuine != nil && list == "expiring-contract" && (!o.lean && fp%3 == 0 || p.exp) {
					asks = append(asks, ask{genuine, "g-first", "supp-form-placed"}, ask{genuine, "e-first", "supp-form-placed"})
				}
				for _, a := range asks {
					got, err, pan := h.askForm(cb, p.e, a.g, a.order, list)
					role := list + "@" + fname
					if a.g != nil {
						role = list + "/" + a.order + "@" + fname
					}
					st.mu.Lock()
					st.noteP(&p, a.door, role, got)
					if got == p.exp && !got && p.tpath != "" {
						st.field(a.door, k, p.tpath)
					}
					st.mu.Unlock()
					if got != p.exp || pan != nil {
						extra := " (carrier block of form " + fname + ")"
						if err != nil {
							extra += " (" + err.Error() + ")"
						}
						report(a.door, role, got, pan, extra)
					}
				}
			}
		}
	}
	// from RequireHeight on the supplement must be empty: any supplied element, genuine or not, is refused
	ph := h.post
	if ph == nil && !h.v1ok {
		ph = h
	}
	if o.supp && ph != nil && k == kFC {
		if cb := ph.form("v2-data-no-txns"); cb != nil {
			got, err, pan := ph.askForm(cb, p.e, nil, "", "expiring-contract")
			st.mu.Lock()
			st.noteP(&p, "supp-post-require", "expiring-contract", got)
			if p.exp {
				st.postGenuine++
			}
			st.mu.Unlock()
			if got || pan != nil {
				d := "supp-post-require:expiring-contract"
				c.Violation(fmt.Sprintf("%s/%s/%s/%s/accepted-after-require-height", d, k, p.base, mutKey),
					fmt.Sprintf("%s: a block after RequireHeight whose supplement lists a %s v1 contract (mutation %s) as expiring was accepted (err=%v panic=%v): from RequireHeight on only the empty supplement is acceptable", d, p.base, mutKey, err, pan),
					map[string]any{"source": p.src, "door": d, "kind": k.String(), "base": p.base, "mutation": mutKey, "element": p.e.v, "accumulator": ph.cs.Elements, "context": p.ctx})
			}
		}
	}
}
