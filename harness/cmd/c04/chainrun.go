package main

import (
	"fmt"
	"math/rand"
	"slices"
	"sort"
	"strconv"
	"sync"
	"time"

	"go.sia.tech/core/consensus"
	"go.sia.tech/core/types"
	"verif/harness/chain"
	"verif/harness/vlib"
)

// held is one element a node following the chain has in its store, with its status.
type held struct {
	e     elem
	spent bool
}

// capture copies the store of a chain (fed only by the update diffs of the real code).
func capture(s *chain.Store) []held {
	var out []held
	for _, e := range s.SC {
		c := e.Copy()
		out = append(out, held{mkElem(&c), false})
	}
	for _, e := range s.SF {
		c := e.Copy()
		out = append(out, held{mkElem(&c), false})
	}
	for _, e := range s.FC {
		c := e.Copy()
		out = append(out, held{mkElem(&c), false})
	}
	for _, e := range s.V2FC {
		c := e.Copy()
		out = append(out, held{mkElem(&c), false})
	}
	for _, e := range s.CIE {
		c := e.Copy()
		out = append(out, held{mkElem(&c), false})
	}
	for _, e := range s.GoneSC {
		c := e.Copy()
		out = append(out, held{mkElem(&c), true})
	}
	for _, e := range s.GoneSF {
		c := e.Copy()
		out = append(out, held{mkElem(&c), true})
	}
	for _, e := range s.GoneFC {
		c := e.Copy()
		out = append(out, held{mkElem(&c), true})
	}
	for _, e := range s.GoneV2FC {
		c := e.Copy()
		out = append(out, held{mkElem(&c), true})
	}
	for i := range out {
		out[i].e = out[i].e.clone() // nested slices too
	}
	sort.Slice(out, func(i, j int) bool {
		a, b := out[i], out[j]
		if a.e.se().LeafIndex != b.e.se().LeafIndex {
			return a.e.se().LeafIndex < b.e.se().LeafIndex
		}
		return !a.spent && b.spent
	})
	return out
}

// tracker follows one chain: the store after every applied block (to know what a reverted branch
// and what an out-of-date holder looked like).
type tracker struct {
	snaps  [][]held // store after each applied block of the current branch
	ghosts []held   // elements of reverted branches (created, spent or revised there) with their branch proofs
	stale  []held   // elements as out-of-date holders have them: proofs or versions from before later blocks / other branches
}

func truthOf(hs []held) *truth {
	t := newTruth()
	for _, x := range hs {
		t.add(x.e, x.spent)
	}
	return t
}

func hostOfChain(sim *chain.Sim, cur []held, salt uint64) *host {
	h := newHost(sim.CS, sim.K, salt)
	for _, x := range cur {
		if v, ok := x.e.v.(*types.V2FileContractElement); ok && !x.spent {
			h.addProofParent(v)
		}
	}
	h.fund, _ = h.funding(cur)
	return h
}

// fabricate builds an element that no history created.
func fabricate(k kind, K *chain.Keyring, salt uint64) elem {
	h := types.HashBytes([]byte(fmt.Sprintf("verif/C04/never/%d/%d", k, salt)))
	switch k {
	case kSC:
		return mkElem(&types.SiacoinElement{ID: types.SiacoinOutputID(h), SiacoinOutput: types.SiacoinOutput{Value: types.NewCurrency64(1000), Address: K.Addr("A")}})
	case kSF:
		return mkElem(&types.SiafundElement{ID: types.SiafundOutputID(h), SiafundOutput: types.SiafundOutput{Value: 10, Address: K.Addr("A")}})
	case kFC:
		return mkElem(&types.FileContractElement{ID: types.FileContractID(h), FileContract: types.FileContract{WindowStart: 5, WindowEnd: 9, Payout: types.NewCurrency64(1000),
			ValidProofOutputs: []types.SiacoinOutput{{Value: types.NewCurrency64(960), Address: K.Addr("A")}}, MissedProofOutputs: []types.SiacoinOutput{{Value: types.NewCurrency64(960), Address: K.Addr("A")}}, UnlockHash: K.Addr("A")}})
	case kV2FC:
		return mkElem(&types.V2FileContractElement{ID: types.FileContractID(h), V2FileContract: types.V2FileContract{ProofHeight: 1 << 30, ExpirationHeight: 1<<30 + 10,
			RenterOutput: types.SiacoinOutput{Value: types.NewCurrency64(1000), Address: K.Addr("A")}, HostOutput: types.SiacoinOutput{Value: types.NewCurrency64(1000), Address: K.Addr("B")},
			RenterPublicKey: K.PK("A"), HostPublicKey: K.PK("B")}})
	case kCIE:
		return mkElem(&types.ChainIndexElement{ID: types.BlockID(h), ChainIndex: types.ChainIndex{Height: salt % 8, ID: types.BlockID(h)}})
	}
	return mkElem(&types.AttestationElement{ID: types.AttestationID(h), Attestation: types.Attestation{PublicKey: K.PK("A"), Key: "never"}})
}

// probesFor derives the catalogue of Membership.tla from one held element of a real history.
// others: the other held elements (sources of foreign proofs and positions).
func probesFor(src string, h *host, tr *truth, x held, others []held, rng *rand.Rand, fields bool) []probe {
	base := "live"
	if x.spent {
		base = "spent"
	}
	acc := &h.cs.Elements
	n := acc.NumLeaves
	P := x.e.se().MerkleProof
	hgt := len(P)
	idx := x.e.se().LeafIndex
	var ps []probe
	add := func(mut, detail, tpath string, e elem, spent bool) {
		ps = append(ps, probe{src: src, base: base, mut: mut, detail: detail, tpath: tpath, e: e, spent: spent, exp: tr.exact(e, spent)})
	}
	with := func(f func(se *types.StateElement)) elem {
		e := x.e.clone()
		f(e.se())
		return e
	}
	add("none", "", "", x.e.clone(), x.spent)
	add("flip", "", "", x.e.clone(), !x.spent)
	// the element of another kind with the same pre-image bytes
	for _, r := range reinterpretations(x.e) {
		pair := x.e.k.String() + "-as-" + r.k.String()
		add("reinterpret", pair, "", r, false)
		if x.spent {
			add("reinterpret", pair, "", r.clone(), true)
		}
	}
	if x.spent {
		return ps // a spent element: as it is (member as spent), and presented as unspent through every door
	}
	if fields {
		fms, infra := fieldMutations(x.e, h.alt, h.salt+idx)
		if len(infra) > 0 {
			hpanic("%s", infra[0])
		}
		for _, fm := range fms {
			mut := "field"
			if fm.isID {
				mut = "id"
			}
			add(mut, fm.path+" "+fm.variant, fm.tpath, fm.e, false)
		}
	}
	// leaf index
	seen := map[uint64]bool{idx: true}
	tryIdx := func(mut string, j uint64) {
		if !seen[j] {
			seen[j] = true
			add(mut, fmt.Sprintf("-> %d", j), "", with(func(se *types.StateElement) { se.LeafIndex = j }), false)
		}
	}
	tryIdx("idx", idx+1)
	if idx > 0 {
		tryIdx("idx", idx-1)
	}
	if hgt < 63 {
		tryIdx("alias", idx+1<<hgt)
		if idx >= 1<<hgt {
			tryIdx("alias", idx-1<<hgt)
		}
	}
	tryIdx("idx", n)
	tryIdx("idx", n+1)
	// foreign proofs / positions: prefer elements of the same tree (same proof length), then any
	var same, diff []held
	for _, o := range others {
		if o.e.se().LeafIndex == idx {
			continue
		}
		if len(o.e.se().MerkleProof) == hgt {
			same = append(same, o)
		} else {
			diff = append(diff, o)
		}
	}
	pick := func(hs []held, k int) []held {
		if len(hs) <= k {
			return hs
		}
		out := make([]held, 0, k)
		for _, i := range rng.Perm(len(hs))[:k] {
			out = append(out, hs[i])
		}
		return out
	}
	for _, o := range append(pick(same, 2), pick(diff, 2)...) {
		os := o.e.se()
		tryIdx("idx", os.LeafIndex)
		add("proofof", fmt.Sprintf("proof of leaf %d", os.LeafIndex), "", with(func(se *types.StateElement) { se.MerkleProof = slices.Clone(os.MerkleProof) }), false)
		add("both", fmt.Sprintf("position and proof of leaf %d", os.LeafIndex), "", with(func(se *types.StateElement) { *se = os.Copy() }), false)
		if o.e.k == x.e.k && !o.spent {
			// the other element's body at this element's position
			e := o.e.clone()
			*e.se() = x.e.se().Copy()
			add("idof", fmt.Sprintf("body of leaf %d", os.LeafIndex), "", e, false)
		}
	}
	// proof entries
	own := x.e.clone().leaf(false).Hash()
	for t := 0; t < hgt; t++ {
		t := t
		add("pjunk", fmt.Sprintf("entry %d", t), "", with(func(se *types.StateElement) { se.MerkleProof[t] = junkHash }), false)
		add("pself", fmt.Sprintf("entry %d", t), "", with(func(se *types.StateElement) { se.MerkleProof[t] = own }), false)
		if t+1 < hgt {
			add("pswap", fmt.Sprintf("entries %d,%d", t, t+1), "", with(func(se *types.StateElement) {
				se.MerkleProof[t], se.MerkleProof[t+1] = se.MerkleProof[t+1], se.MerkleProof[t]
			}), false)
		}
	}
	if hgt >= 1 {
		add("pdrop", "first", "", with(func(se *types.StateElement) { se.MerkleProof = slices.Clone(P[1:]) }), false)
		add("pdrop", "last", "", with(func(se *types.StateElement) { se.MerkleProof = slices.Clone(P[:hgt-1]) }), false)
	}
	add("pext", "junk", "", with(func(se *types.StateElement) { se.MerkleProof = append(slices.Clone(P), junkHash) }), false)
	for t := 0; t < 64; t++ {
		if n&(1<<t) != 0 {
			t := t
			add("pext", fmt.Sprintf("root of tree %d", t), "", with(func(se *types.StateElement) { se.MerkleProof = append(slices.Clone(P), acc.Trees[t]) }), false)
		}
	}
	add("pmax", "", "", with(func(se *types.StateElement) {
		for len(se.MerkleProof) < 64 {
			se.MerkleProof = append(se.MerkleProof, junkHash)
		}
	}), false)
	return ps
}

type chainCov struct {
	mu       sync.Mutex
	states   int64
	ghosts   int64
	stale    int64
	extended int64
	maxLive  int
}

// probeState asks the real code about everything a node (and an attacker) holds at the current tip.
func probeState(c *vlib.Ctx, st *stats, cov *chainCov, sim *chain.Sim, tk *tracker, cur []held, rng *rand.Rand, jo judgeOpts, v2budget int, ctx any, sampleLive int) {
	h := hostOfChain(sim, cur, uint64(rng.Int63()))
	tr := truthOf(cur)
	h.tr = tr
	cov.mu.Lock()
	cov.states++
	if len(cur) > cov.maxLive {
		cov.maxLive = len(cur)
	}
	cov.mu.Unlock()
	v2left := map[kind]int{}
	for k := kSC; k < nKinds; k++ {
		v2left[k] = v2budget / 2
	}
	ask := func(p probe) {
		p.ctx = ctx
		oo := jo
		// the doors that need signed transactions cost signatures and verifications: asked within a budget per
		// state and element kind, genuine elements and their field mutations first
		if oo.v2txn {
			if v2left[p.e.k] <= 0 && !(p.mut == "none" || p.mut == "flip") {
				oo.v2txn = false
			} else {
				v2left[p.e.k]--
			}
		}
		judge(c, st, h, p, oo)
	}
	// parents created earlier in the block under validation (InBlock.tla)
	if jo.v2txn && rng.Intn(2) == 0 {
		inBlock(c, st, h, ibCases, cur, rng, ctx)
	}
	targets := cur
	if sampleLive > 0 && len(cur) > sampleLive {
		// big forests: a sample, always including the deepest and the shallowest proofs
		targets = nil
		byLen := map[int][]held{}
		for _, x := range cur {
			byLen[len(x.e.se().MerkleProof)] = append(byLen[len(x.e.se().MerkleProof)], x)
		}
		lens := make([]int, 0, len(byLen))
		for l := range byLen {
			lens = append(lens, l)
		}
		sort.Ints(lens)
		for _, l := range lens {
			targets = append(targets, byLen[l][rng.Intn(len(byLen[l]))])
		}
		for _, i := range rng.Perm(len(cur))[:sampleLive] {
			targets = append(targets, cur[i])
		}
	}
	for _, x := range targets {
		for _, p := range probesFor("chain", h, tr, x, cur, rng, true) {
			ask(p)
		}
	}
	// elements of reverted branches: as they were there, with the other flag, and with the proof that now
	// belongs to their position
	atIdx := map[uint64]held{}
	for _, x := range cur {
		if !x.spent {
			atIdx[x.e.se().LeafIndex] = x
		}
	}
	for _, g := range tk.ghosts {
		for _, fl := range []bool{g.spent, !g.spent} {
			mut := "none"
			if fl != g.spent {
				mut = "flip"
			}
			ask(probe{src: "chain", base: "reverted", mut: mut, e: g.e.clone(), spent: fl, exp: tr.exact(g.e, fl)})
		}
		if o, ok := atIdx[g.e.se().LeafIndex]; ok {
			e := g.e.clone()
			e.se().MerkleProof = slices.Clone(o.e.se().MerkleProof)
			ask(probe{src: "chain", base: "reverted", mut: "cur", e: e, spent: false, exp: tr.exact(e, false)})
		}
		cov.mu.Lock()
		cov.ghosts++
		cov.mu.Unlock()
	}
	for _, s := range tk.stale {
		ask(probe{src: "chain", base: "stale", mut: "prev", e: s.e.clone(), spent: s.spent, exp: tr.exact(s.e, s.spent)})
		if s.spent {
			ask(probe{src: "chain", base: "stale", mut: "flip", e: s.e.clone(), spent: false, exp: tr.exact(s.e, false)})
		}
		cov.mu.Lock()
		cov.stale++
		cov.mu.Unlock()
	}
	// never-created elements of every kind: at the next free position, and in the place of held elements
	n := sim.CS.Elements.NumLeaves
	for k := kSC; k < nKinds; k++ {
		e := fabricate(k, sim.K, uint64(rng.Int63()))
		e.se().LeafIndex = n
		ask(probe{src: "chain", base: "never", mut: "at", e: e, spent: false, exp: tr.exact(e, false)})
		if len(cur) > 0 {
			o := cur[rng.Intn(len(cur))]
			e2 := e.clone()
			*e2.se() = o.e.se().Copy()
			ask(probe{src: "chain", base: "never", mut: "inplace", detail: fmt.Sprintf("position and proof of leaf %d", o.e.se().LeafIndex), e: e2, spent: false, exp: tr.exact(e2, false)})
		}
		// claims to be an element created earlier in this very block
		if k == kSC || k == kSF || k == kV2FC {
			e3 := e.clone()
			*e3.se() = types.StateElement{LeafIndex: types.UnassignedLeafIndex}
			if h.v2ok && jo.v2txn {
				for _, role := range txRoles(k) {
					acc, built, _, err, pan := h.askV2Txn(e3, role)
					if !built {
						continue
					}
					st.mu.Lock()
					st.note("v2txn", role+"(ephemeral claim)", k, acc)
					st.muts["ephemeral-claim"]++
					st.mu.Unlock()
					if acc || pan != nil {
						c.Violation(fmt.Sprintf("v2txn:%s/%s/never/ephemeral-claim/accepted-nonmember", role, k),
							fmt.Sprintf("ValidateV2Transaction accepted a never-created %s element that claims to have been created in the block under validation (err=%v panic=%v)", k, err, pan), ctx)
					}
				}
			}
		}
	}
}

// diffHeld: the elements of old that a holder of cur does not have in exactly that form.
func diffHeld(old, cur []held) (changed, proofOnly []held) {
	tr := truthOf(cur)
	for _, x := range old {
		if tr.exact(x.e, x.spent) {
			continue
		}
		m := tr.live
		if x.spent {
			m = tr.spent
		}
		if g, ok := m[tkey(x.e)]; ok && g.sameBody(x.e) && g.se().LeafIndex == x.e.se().LeafIndex {
			proofOnly = append(proofOnly, x)
		} else {
			changed = append(changed, x)
		}
	}
	return
}

func capList(xs []held, n int, rng *rand.Rand) []held {
	if len(xs) <= n {
		return xs
	}
	out := make([]held, 0, n)
	for _, i := range rng.Perm(len(xs))[:n] {
		out = append(out, xs[i])
	}
	return out
}

// runChains lets TLC simulate ledger histories with reverts, replays them on the real code and probes
// the accumulator after every block and every revert.
func runChains(c *vlib.Ctx, st *stats, cov *chainCov, o judgeOpts) (behaviours, steps int) {
	var mu sync.Mutex
	trackers := map[*chain.Sim]*tracker{}
	rngs := map[*chain.Sim]*rand.Rand{}
	v2budget := c.Pick(36, 200)
	extend := c.Pick(64, 200)
	opts := chain.RunOpts{Num: c.Pick(36, 400), Depth: 56, Timeout: 20 * time.Minute,
		KeyOf: func(m chain.Mismatch) string { return "ledger/" + m.Kind + "/" + m.Tag },
		NewSim: func(sim *chain.Sim) {
			mu.Lock()
			trackers[sim] = &tracker{}
			mu.Unlock()
		},
		Hook: func(sim *chain.Sim, beh *chain.Behaviour, i int, stp chain.Step, res chain.StepResult) {
			mu.Lock()
			tk, rng := trackers[sim], rngs[sim]
			if rng == nil {
				// seeded by the behaviour, not by the order in which goroutines pick behaviours up
				hv, _ := strconv.ParseUint(beh.Hash, 16, 64)
				rng = rand.New(rand.NewSource(c.Seed*1_000_003 + int64(hv>>1)))
				rngs[sim] = rng
			}
			mu.Unlock()
			if len(res.Mismatches) > 0 {
				return
			}
			ctx := map[string]any{"behaviour": beh.Steps[:i+1]}
			switch {
			case stp.Op == "block" && res.Accepted:
				cur := capture(sim.Store)
				if len(tk.snaps) > 0 {
					changed, proofOnly := diffHeld(tk.snaps[len(tk.snaps)-1], cur)
					tk.stale = append(capList(changed, 6, rng), capList(proofOnly, 4, rng)...)
				}
				tk.snaps = append(tk.snaps, cur)
				probeState(c, st, cov, sim, tk, cur, rng, o, v2budget, ctx, 0)
			case stp.Op == "revert":
				cur := capture(sim.Store)
				if len(tk.snaps) > 0 {
					gone := tk.snaps[len(tk.snaps)-1]
					tk.snaps = tk.snaps[:len(tk.snaps)-1]
					changed, proofOnly := diffHeld(gone, cur)
					tk.ghosts = append(tk.ghosts, changed...)
					if len(tk.ghosts) > 40 {
						tk.ghosts = tk.ghosts[len(tk.ghosts)-40:]
					}
					tk.stale = capList(proofOnly, 6, rng)
				}
				probeState(c, st, cov, sim, tk, cur, rng, o, v2budget, ctx, 0)
			default:
				return
			}
			if i != len(beh.Steps)-1 {
				return
			}
			// grow the forest: empty blocks on top of the behaviour (every block adds a miner payout and a chain
			// index element), then probe a sample of what is now buried in tall trees
			if rng.Intn(3) != 0 {
				return
			}
			nExt := extend/2 + rng.Intn(extend)
			for j := 0; j < nExt; j++ {
				b := sim.Seal(nil, nil)
				bs := sim.Supplement(nil)
				if err, pan := sim.Validate(b, bs); err != nil || pan != nil {
					return // the harness's empty block is not acceptable here (e.g. an era boundary): no verdict
				}
				sim.Apply(b, bs)
			}
			cur := capture(sim.Store)
			tk.stale = nil
			cov.mu.Lock()
			cov.extended++
			cov.mu.Unlock()
			probeState(c, st, cov, sim, tk, cur, rng, o, v2budget, map[string]any{"behaviour": beh.Steps, "then_empty_blocks": nExt}, 16)
		},
	}
	for _, name := range []string{"v1only", "mixed", "v2only"} {
		cfg := chain.BaseConfig(chain.Shapes()[name])
		cfg.MaxReverts = 2
		r := chain.Run(c, cfg, opts)
		behaviours += r.Behaviours
		steps += r.Steps
	}
	return
}

var _ = consensus.State{}
