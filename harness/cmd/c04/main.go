// C04 — Accumulator membership is sound: only genuine, live elements are accepted.
//
//  1. TLC proves MemberSound of spec/acc/Membership.tla (on top of Accumulator.tla) for every forest
//     reachable by build / block(U,k) / revert / competing block within the bound: for every element
//     known to the history (live, spent, of a reverted branch, never created) and every mutation of
//     the catalogue, containsLeaf holds iff the presented element is exactly a leaf with its own proof.
//     TLC prints every probe (state, element, mutation, verdict).
//  2. Direction A: the same forests are rebuilt on the real accumulator through the export shim with
//     real elements of all six kinds, embedded in a real consensus.State; every probe is put to the real
//     code through containsLeaf (shim), ValidateTransactionElements (every parent role of a v2
//     transaction), ValidateV2Transaction (an otherwise valid, signed attacker transaction built from
//     the presented element; counted only when the same construction is accepted by a state whose
//     accumulator does contain the element) and ValidateBlock (a valid v1 block whose supplement carries
//     the element in each of its five lists). The "body field" mutation of the model is expanded by
//     reflection into every field of the real element structs.
//  3. The same catalogue is applied to real chains generated from Ledger.tla (reverts, competing
//     branches, all element kinds, v1 and v2 eras), extended with empty blocks to forests of hundreds
//     of leaves; the oracle there is the definition Exact of the specification evaluated over the
//     store that is fed by the update diffs.
package main

import (
	"encoding/json"
	"fmt"
	"os"
	"slices"
	"sort"
	"strings"
	"sync"
	"time"

	"go.sia.tech/core/consensus"
	"go.sia.tech/core/types"
	"verif/harness/chain"
	"verif/harness/vlib"
)

// postTmpl: a host state after RequireHeight (the synthetic accumulators are placed in it for the
// "supplement must be empty" clause)
var postTmpl consensus.State

// ibCases: the in-block probe cases printed by TLC, per shape of the creating transaction (read-only after start)
var ibCases map[ibShape][]ibDesc

func memCfg(minInit, maxInit, maxAdd int, full bool) string {
	maxLeaves := maxInit + maxAdd + 1
	maxH := 0
	for 1<<(maxH+1) <= maxLeaves {
		maxH++
	}
	return fmt.Sprintf(`SPECIFICATION MSpec
CONSTANTS
  MaxH = %d
  MaxAdd = %d
  MaxLeaves = %d
  MinInit = %d
  MaxInit = %d
  MaxUndo = 2
  NF = %d
  Modes = {0, 1}
  Full = %s
INVARIANTS CountMatches RootsMatchNaive ProofsMatchNaive MemberSound SupplementSound HistorySound CarrierSound KindsDisjoint ReuseSound TxnSound
CHECK_DEADLOCK FALSE
`, maxH, maxAdd, maxLeaves, minInit, maxInit, nfModel, map[bool]string{true: "TRUE", false: "FALSE"}[full])
}

// hostTemplate is a real consensus state in which v1 transactions (and supplements) and v2
// transactions are both allowed in the child block; the synthetic accumulators are placed in it.
func hostTemplate() (consensus.State, *chain.Keyring) {
	sim := chain.NewSim(chain.Params{MatDelay: 1, AllowH: 0, RequireH: 100, EphH: 0, FoundH: 100, Reward: 500,
		GenSC: []chain.AbsOut{{Val: 600000, Addr: "A"}}, GenSF: []chain.AbsOut{{Val: 10000, Addr: "A"}}})
	for _, n := range []string{"A", "B", "X", "Y", "R", "H"} {
		sim.K.Addr(n)
	}
	cs := sim.CS
	// every siafund element of a real history has ClaimStart <= the pool (ApplyTransaction subtracts); the
	// synthetic siafund elements keep that invariant against this value
	cs.SiafundTaxRevenue = types.NewCurrency(0, 4)
	return cs, sim.K
}

type slice struct {
	name      string
	cfg       string
	o         judgeOpts
	thin      bool
	cases     map[string][]*mcase
	tlcWall   time.Duration
	formsSeen bool
}

// genCases runs TLC on one configuration of Membership.tla: the invariants (MemberSound among them) are
// checked on every state and every state's probes are printed.
func genCases(c *vlib.Ctx, s *slice) {
	res := c.MustTLC(vlib.TLCOpts{SpecDirs: []string{"acc"}, Module: "Membership", ConfText: s.cfg, Workers: 8, Timeout: 25 * time.Minute, Xss: "64m"})
	s.tlcWall = res.Wall
	for _, ln := range res.Lines {
		if strings.HasPrefix(ln, "CF ") {
			var cf struct {
				Forms []string `json:"forms"`
				Post  string   `json:"post"`
			}
			if err := json.Unmarshal([]byte(vlib.UnquoteTLA(strings.TrimPrefix(ln, "CF "))), &cf); err != nil {
				c.Fatal("carrier forms do not parse: %v", err)
			}
			sort.Strings(cf.Forms)
			mine := slices.Clone(carrierForms)
			sort.Strings(mine)
			if !slices.Equal(cf.Forms, mine) || cf.Post != "empty-supplement-only" {
				c.Fatal("the specification's carrier forms %v (%s) are not the harness's %v", cf.Forms, cf.Post, mine)
			}
			s.formsSeen = true
		}
	}
	cs, err := parseCases(res.Lines)
	if err != nil {
		c.Fatal("%s: %v", s.name, err)
	}
	if int64(len(cs))*5 != res.Distinct {
		c.Fatal("%s: TLC found %d states but printed %d complete behaviours", s.name, res.Distinct, len(cs))
	}
	s.cases = cs
}

// replayCases rebuilds every behaviour of the slice on the real accumulator and judges every probe.
func replayCases(c *vlib.Ctx, st *stats, s *slice, tmpl consensus.State, K *chain.Keyring, cross *int64) int {
	selftest := os.Getenv("VERIF_C04_SELFTEST")
	keys := make([]string, 0, len(s.cases))
	for k := range s.cases {
		keys = append(keys, k)
	}
	sort.Strings(keys)
	var wg sync.WaitGroup
	sem := make(chan struct{}, 12)
	for i, k := range keys {
		wg.Add(1)
		sem <- struct{}{}
		go func(i int, phases []*mcase) {
			defer wg.Done()
			defer func() { <-sem }()
			var n int64
			if p, v := vlib.Recover(func() { runCase(c, st, tmpl, K, uint64(c.Seed)*7919+uint64(i), phases, s.o, &n, s.thin, selftest) }); p {
				if he, ok := v.(harnessErr); ok {
					c.Infra("%s case %s: harness error: %s", s.name, phases[0].key(), string(he))
				} else {
					c.Violation("replay-panic", fmt.Sprintf("case %s: the real accumulator panicked while the history was replayed: %v", phases[0].key(), v), phases[0])
				}
			}
			st.mu.Lock()
			*cross += n
			st.mu.Unlock()
		}(i, s.cases[k])
	}
	wg.Wait()
	n := len(s.cases)
	s.cases = nil
	return n
}

func main() {
	c := vlib.Start("C04")
	if c.Replay != "" {
		replay(c)
		return
	}
	c.Rule("TLC (Membership.tla) enumerates, for every forest reachable by build/block/revert/competing block within the bound, every element known to the history x every mutation of the catalogue (none, flag, each body field, id, other element's body, every other leaf index incl. the aliases i±2^h, other element's proof / position+proof, each proof entry, proof shortened / lengthened by junk and by every tree root / padded to the maximum, stale proof, previous version, reverted-branch elements, never-created elements) with the verdict of the invariant MemberSound; the harness expands 'body field' and 'id' by reflection over the real element structs and applies the same catalogue to real ledger chains. evaluations = calls of a real door (containsLeaf, ValidateTransactionElements, ValidateV2Transaction, ValidateBlock); distinct_nontrivial = distinct (accumulator, presented leaf hash, leaf index, proof, flag) tuples over non-empty accumulators.")
	c.Assume("symbolic hashes are injective: the model speaks about structure, relative to collision resistance of blake2b")
	c.Assume("on real chains the store fed by ApplyUpdate/RevertUpdate diffs (kept current with UpdateElementProof) is the oracle for 'the element with its own proof' (its agreement with the naive forest is C05)")
	c.Assume("ValidateV2Transaction verdicts are counted only when the same attacker construction is accepted by a state whose accumulator contains the presented element")

	st := newStats()
	var cross int64
	t0 := time.Now()

	// 0. parents created earlier in the block under validation: TLC proves the transcribed MidState lookups
	// sound for every shape of the creating transaction and prints the probes (InBlock.tla)
	ibCases = genInBlock(c)
	c.Cov("inblock_shapes", len(ibCases))

	// 3. real chains (concurrently with the TLC part)
	cov := &chainCov{}
	var behs, steps int
	var chainWall time.Duration
	var chains sync.WaitGroup
	chains.Add(1)
	go func() {
		defer chains.Done()
		t1 := time.Now()
		behs, steps = runChains(c, st, cov, judgeOpts{v2txn: true, supp: true})
		chainWall = time.Since(t1)
	}()

	// 1+2. TLC: the bounded forests. The first slice also prints the concrete probes (leaf pre-image, index,
	// proof terms) against which the harness's reading of the catalogue is checked. TLC works on the next
	// slice while the previous one is replayed.
	slices_ := []*slice{{name: "full 0..3", cfg: memCfg(0, 3, 2, true), o: judgeOpts{v2txn: true, supp: true}}}
	if c.Thorough {
		slices_ = append(slices_,
			&slice{name: "forests 0..6", cfg: memCfg(0, 6, 4, false), o: judgeOpts{v2txn: true, supp: true}},
			&slice{name: "forests 7", cfg: memCfg(7, 7, 4, false), o: judgeOpts{supp: true, lean: true}, thin: true},
			&slice{name: "forests 8", cfg: memCfg(8, 8, 4, false), o: judgeOpts{supp: true, lean: true}, thin: true},
			&slice{name: "forests 9", cfg: memCfg(9, 9, 4, false), o: judgeOpts{supp: true, lean: true}, thin: true})
	} else {
		slices_ = append(slices_, &slice{name: "forests 0..5", cfg: memCfg(0, 5, 3, false), o: judgeOpts{supp: true, lean: true}})
	}
	tmpl, K := hostTemplate()
	postTmpl = chain.NewSim(chain.Params{MatDelay: 1, AllowH: 0, RequireH: 1, EphH: 0, FoundH: 100, Reward: 500,
		GenSC: []chain.AbsOut{{Val: 600000, Addr: "A"}}, GenSF: []chain.AbsOut{{Val: 10000, Addr: "A"}}}).CS
	crossKinds(c, st, tmpl, K)
	ready := make(chan *slice, 1)
	go func() {
		for _, s := range slices_ {
			genCases(c, s)
			ready <- s
		}
		close(ready)
	}()
	nCases := 0
	var tlcWall time.Duration
	for s := range ready {
		nCases += replayCases(c, st, s, tmpl, K, &cross)
		tlcWall += s.tlcWall
		if s.name == "full 0..3" && !s.formsSeen {
			c.Infra("the Full configuration did not print the carrier forms")
		}
		if s.name == "full 0..3" && cross == 0 {
			c.Infra("vacuity: no concrete probe of the Full configuration was compared")
		}
	}
	c.Cov("tlc_concrete_probes_cross_checked", cross)
	c.Cov("tlc_behaviours_replayed", nCases)
	c.Cov("tlc_wall_s", tlcWall.Seconds())
	c.Cov("tlc_part_wall_s", time.Since(t0).Seconds())
	chains.Wait()
	c.Cov("chain_behaviours", behs)
	c.Cov("chain_steps", steps)
	c.Cov("chain_states_probed", cov.states)
	c.Cov("chain_states_after_extension", cov.extended)
	c.Cov("chain_reverted_branch_elements_probed", cov.ghosts)
	c.Cov("chain_stale_elements_probed", cov.stale)
	c.Cov("chain_max_elements_held", cov.maxLive)
	c.Cov("probes_on_tlc_forests", st.bySrc["tlc"])
	c.Cov("probes_on_chains", st.bySrc["chain"])
	c.Cov("chain_part_wall_s", chainWall.Seconds())

	finish(c, st, int64(nCases+behs))
}

func finish(c *vlib.Ctx, st *stats, traces int64) {
	st.mu.Lock()
	defer st.mu.Unlock()
	c.Cov("probes", st.probes)
	c.Cov("door_calls", st.asks)
	verd := map[string]map[string]int64{}
	for d, v := range st.verdicts {
		verd[d] = map[string]int64{"rejected": v[0], "accepted": v[1]}
	}
	c.Cov("verdicts_by_door", verd)
	c.Cov("kinds_by_door", st.kinds)
	c.Cov("mutation_classes", st.muts)
	c.Cov("base_status", st.bases)
	c.Cov("max_leaves", st.maxN)
	c.Cov("v2txn_not_decisive", st.nondec)
	c.Cov("reinterpret_pairs_checked_at_the_leaf_constructors", st.sepPairs)
	c.Cov("reinterpret_probes_by_door", st.reDoors)
	c.Cov("reinterpret_not_applicable_elements", st.reNA)
	c.Cov("reinterpret_preimage_transcription", map[string]int64{"agrees_with_element_hash": st.preimageOK, "disagrees": st.preimageBad})
	c.Cov("inblock_prefixes_built", st.ibPrefixes)
	c.Cov("inblock_states_skipped", st.ibSkipped)
	c.Cov("inblock_probe_classes", st.ibClasses)
	// informational only (no verdict depends on error texts): the carrier block is accepted with an empty
	// supplement, so every rejection is caused by the carried element
	c.Cov("supplement_rejections_by_error_text", st.suppErr)
	hs := map[string]int64{}
	for h, n := range st.heights {
		hs[fmt.Sprint(h)] = n
	}
	c.Cov("member_proof_lengths", hs)
	fc := map[string]int{}
	for d, m := range st.fields {
		fc[d] = len(m)
	}
	c.Cov("fields_rejected_by_door", fc)

	// vacuity guards
	var evals int64
	for _, n := range st.asks {
		evals += n
	}
	for _, d := range []string{"shim", "vte", "v2txn", "supp", "supp-used", "supp-placed", "supp-used-placed", "supp-form", "supp-form-placed", "supp-post-require", "inblock", "inblock-block", "reuse", "reuse-block", "vte-multi"} {
		if st.asks[d] == 0 {
			c.Infra("vacuity: door %s never used", d)
		}
	}
	for k := kSC; k < nKinds; k++ {
		if st.kinds["shim"][k.String()] == 0 {
			c.Infra("vacuity: no %s element probed", k)
		}
	}
	need := []string{"shim"}
	for _, k := range []kind{kSC, kSF, kV2FC, kCIE} {
		for _, r := range txRoles(k) {
			if r != "storage-proof-index-empty-file" {
				need = append(need, "vte:"+r)
			}
			need = append(need, "v2txn:"+r)
		}
	}
	for _, k := range []kind{kSC, kSF, kFC} {
		for _, l := range suppLists(k) {
			need = append(need, "supp:"+l)
		}
		need = append(need, "supp-used:"+usedRole(k))
		// placement: a genuine copy of the same ID earlier / later in the same block supplement
		for _, l := range suppLists(k) {
			for _, pl := range placements(k) {
				need = append(need, "supp-placed:"+l+"/"+pl)
			}
		}
		need = append(need, "supp-used-placed:"+usedRole(k)+"/genuine-earlier", "supp-used-placed:"+usedRole(k)+"/forged-earlier")
	}
	// in-block parents: the doors that can accept must have given both verdicts (alone and inside a whole block);
	// the v2 siafund and v2 contract doors never accept
	need = append(need, "inblock:v2sc", "inblock:v1sc", "inblock:v1sf", "inblock:v1fc", "inblock-block:v2sc", "inblock-block:v1sc", "inblock-block:v1sf", "inblock-block:v1fc")
	for _, d := range []string{"inblock:v2sf", "inblock:v2fc"} {
		if v := st.verdicts[d]; v == nil || v[0] == 0 {
			c.Infra("vacuity: door %s never asked", d)
		}
	}
	for _, cl := range []string{"v2sc/att-id/aligned-body", "v2sc/sf-id/aligned-body", "v2sc/fc-id/aligned-body", "v2sc/sc-id/own-body", "v2sc/sc-id/other-body", "v2sc/fresh-id/other-body",
		"v2sf/sf-id/own-body", "v2fc/fc-id/own-body", "v1sc/sf-id/aligned-body", "v1sc/fc-id/aligned-body", "v1sf/sc-id/aligned-body", "v1sf/fc-id/aligned-body", "v1fc/sc-id/aligned-body", "v1fc/sf-id/aligned-body", "v1fc/fc-id/own-body"} {
		if st.ibClasses[cl] == 0 {
			c.Infra("vacuity: in-block probe class %s never presented", cl)
		}
	}
	// every form of the carrier block, with the element among the expiring contracts; per-transaction lists on
	// the other form that has v1 transactions; the empty-supplement rule after RequireHeight
	for _, f := range carrierForms {
		need = append(need, "supp-form:expiring-contract@"+f)
		if f != "v2-data-v1-txns" {
			need = append(need, "supp-form-placed:expiring-contract/g-first@"+f, "supp-form-placed:expiring-contract/e-first@"+f)
		}
	}
	for _, l := range []string{"siacoin-input", "siafund-input", "revised-contract", "storage-proof-contract"} {
		need = append(need, "supp-form:"+l+"@v1-txns-no-v2-data")
	}
	if v := st.verdicts["supp-post-require:expiring-contract"]; v == nil || v[0] == 0 || st.postGenuine == 0 {
		c.Infra("vacuity: no (genuine) v1 contract presented in a supplement after RequireHeight (%v, genuine %d)", v, st.postGenuine)
	}
	// position in a multi-element transaction
	for _, r := range multiRoles() {
		need = append(need, "vte-multi:"+r)
	}
	// second use in the block: after an honest revision both verdicts, alone and in the whole block; after a spend
	// the doors must have been asked
	for _, r := range []string{"v2filecontract-revision-after-revision", "v2filecontract-resolution-after-revision", "filecontract-revision-after-revision"} {
		need = append(need, "reuse:"+r, "reuse-block:"+r)
	}
	for _, r := range []string{"siacoin-spend-after-spend", "siafund-spend-after-spend"} {
		if v := st.verdicts["reuse:"+r]; v == nil || v[0] == 0 {
			c.Infra("vacuity: second use %s never presented", r)
		}
	}
	// REINTERPRET: every applicable pair of kinds checked at the leaf constructors, the reinterpreted elements
	// presented through every door of their kind (the signed ones with a verdict)
	for _, p := range []string{"siacoin-as-siafund", "siafund-as-siacoin", "attestation-as-v2filecontract", "filecontract-as-v2filecontract", "v2filecontract-as-attestation"} {
		if st.sepPairs[p] == 0 {
			c.Infra("vacuity: no %s reinterpretation checked", p)
		}
	}
	for _, d := range []string{"shim", "vte", "v2txn", "supp", "supp-used", "supp-form"} {
		if st.reDoors[d] == 0 {
			c.Infra("vacuity: no reinterpreted element got a verdict through door %s", d)
		}
	}
	if st.preimageOK == 0 {
		c.Infra("the harness's transcription of the leaf pre-images never agreed with the real element hash")
	}
	for _, d := range need {
		v := st.verdicts[d]
		if v == nil || v[0] == 0 || v[1] == 0 {
			c.Infra("vacuity: door %s did not give both verdicts (%v)", d, v)
		}
	}
	for _, m := range []string{"none", "flip", "field", "id", "idof", "idx", "alias", "proofof", "both", "pjunk", "pself", "pdrop", "pext", "pmax", "stale", "prev", "oldver", "newver", "cur", "at", "last", "first", "inplace", "ephemeral-claim", "reinterpret"} {
		if st.muts[m] == 0 {
			c.Infra("vacuity: mutation class %s never applied", m)
		}
	}
	for _, b := range []string{"live", "spent", "reverted", "stale", "never"} {
		if st.bases[b] == 0 {
			c.Infra("vacuity: no %s element probed", b)
		}
	}
	// every field of every element struct must have been mutated and rejected through every door that carries the kind
	doorsOf := func(k kind) []string {
		d := []string{"shim"}
		if len(txRoles(k)) > 0 {
			d = append(d, "vte", "v2txn")
		}
		if len(suppLists(k)) > 0 {
			d = append(d, "supp", "supp-used", "supp-placed", "supp-used-placed")
		}
		return d
	}
	missing := map[string][]string{}
	for k := kSC; k < nKinds; k++ {
		for _, d := range doorsOf(k) {
			for _, p := range typePaths(k) {
				if p == "ID" && (d == "supp-placed" || d == "supp-used-placed") {
					continue // a copy with another ID has no genuine namesake to be placed next to
				}
				if st.fields[d][k.String()+"/"+p] == 0 {
					missing[d] = append(missing[d], k.String()+"/"+p)
				}
			}
		}
	}
	for d, ms := range missing {
		sort.Strings(ms)
		if d == "v2txn" || d == "supp-used" || d == "supp-used-placed" {
			// fields whose alteration makes every attacker transaction invalid for another reason cannot be
			// judged through this door; they are reported, and judged through the three other doors
			c.Cov(d+"_fields_without_decisive_probe", ms)
			continue
		}
		c.Infra("vacuity: door %s never rejected a mutation of %s", d, strings.Join(ms, ", "))
	}
	slices.Sort(st.distinct)
	c.Count(evals, int64(len(slices.Compact(st.distinct))))
	c.Traces(traces)
	c.Finish()
}

// replay re-executes a saved violation through the doors that need no chain state.
func replay(c *vlib.Ctx) {
	b, err := os.ReadFile(c.Replay)
	if err != nil {
		c.Fatal("%v", err)
	}
	var f struct {
		Key  string `json:"key"`
		Case struct {
			Door        string                       `json:"door"`
			Kind        string                       `json:"kind"`
			Base        string                       `json:"base"`
			Mutation    string                       `json:"mutation"`
			Spent       bool                         `json:"spent"`
			Expected    bool                         `json:"expected"`
			Element     json.RawMessage              `json:"element"`
			Accumulator consensus.ElementAccumulator `json:"accumulator"`
		} `json:"case"`
	}
	if err := json.Unmarshal(b, &f); err != nil {
		c.Fatal("replay file does not parse: %v", err)
	}
	var e elem
	for k := kSC; k < nKinds; k++ {
		if k.String() == f.Case.Kind {
			var v any
			switch k {
			case kSC:
				v = &types.SiacoinElement{}
			case kSF:
				v = &types.SiafundElement{}
			case kFC:
				v = &types.FileContractElement{}
			case kV2FC:
				v = &types.V2FileContractElement{}
			case kCIE:
				v = &types.ChainIndexElement{}
			default:
				v = &types.AttestationElement{}
			}
			if err := json.Unmarshal(f.Case.Element, v); err != nil {
				c.Fatal("element does not parse: %v", err)
			}
			e = mkElem(v)
		}
	}
	if e.v == nil {
		c.Fatal("replay file names no element kind")
	}
	tmpl, K := hostTemplate()
	tmpl.Elements = f.Case.Accumulator
	h := newHost(tmpl, K, 1)
	st := newStats()
	p := probe{src: "replay", base: f.Case.Base, mut: f.Case.Mutation, e: e, spent: f.Case.Spent, exp: f.Case.Expected}
	if i := strings.Index(p.mut, ":"); i > 0 {
		p.mut, p.tpath = p.mut[:i], p.mut[i+1:]
	}
	judge(c, st, h, p, judgeOpts{supp: true})
	fmt.Printf("replayed %s through the shim, ValidateTransactionElements and the supplement of a carrier block (the transaction door needs the chain state of the original run)\n", f.Key)
	c.Count(1, 1)
	c.Finish()
}
