package main

import (
	"bytes"
	"sort"

	"go.sia.tech/core/types"
	"verif/harness/vlib"
)

// POSITION IN A MULTI-ELEMENT TRANSACTION (Membership!TxnSound): a transaction is acceptable to
// ValidateTransactionElements iff EVERY parent it carries is a member, whatever the order of the
// parents and whatever stands before or after them. The probe is the k-th of three parents of its list,
// the other places and the other lists hold genuine elements (placeholders with an unassigned leaf
// index, which the check skips, where the history has none); for resolutions the probe stands before
// and after a genuine resolution of every type (renewal, expiration, storage proof).

type companions struct {
	byKind [nKinds][]elem
}

func (h *host) comps() *companions {
	if h.cmp != nil {
		return h.cmp
	}
	h.cmp = &companions{}
	if h.tr == nil {
		return h.cmp
	}
	keys := make([][33]byte, 0, len(h.tr.live))
	for k := range h.tr.live {
		keys = append(keys, k)
	}
	sort.Slice(keys, func(i, j int) bool { return bytes.Compare(keys[i][:], keys[j][:]) < 0 })
	for _, k := range keys {
		e := h.tr.live[k]
		if len(h.cmp.byKind[e.k]) < 4 {
			h.cmp.byKind[e.k] = append(h.cmp.byKind[e.k], e)
		}
	}
	return h.cmp
}

// other returns the i-th genuine element of the kind whose ID is not the probe's (ok=false: none).
func (c *companions) other(k kind, id [32]byte, i int) (elem, bool) {
	var xs []elem
	for _, e := range c.byKind[k] {
		if e.id() != id {
			xs = append(xs, e)
		}
	}
	if len(xs) == 0 {
		return elem{}, false
	}
	return xs[i%len(xs)].clone(), true
}

var resTypes = []string{"renewal", "expiration", "storage-proof"}

type multiCase struct {
	name string
	txn  types.V2Transaction
}

// multiTxns places the probe among genuine elements.
func (h *host) multiTxns(p elem, role string) []multiCase {
	c := h.comps()
	id := p.id()
	unassigned := types.StateElement{LeafIndex: types.UnassignedLeafIndex}
	sc := func(i int) types.SiacoinElement {
		if e, ok := c.other(kSC, id, i); ok {
			return e.v.(*types.SiacoinElement).Copy()
		}
		return types.SiacoinElement{StateElement: unassigned}
	}
	sf := func(i int) types.SiafundElement {
		if e, ok := c.other(kSF, id, i); ok {
			return e.v.(*types.SiafundElement).Copy()
		}
		return types.SiafundElement{StateElement: unassigned}
	}
	fc := func(i int) types.V2FileContractElement {
		if e, ok := c.other(kV2FC, id, i); ok {
			return e.v.(*types.V2FileContractElement).Copy()
		}
		return types.V2FileContractElement{StateElement: unassigned}
	}
	cie := func(i int) types.ChainIndexElement {
		if e, ok := c.other(kCIE, id, i); ok {
			return e.v.(*types.ChainIndexElement).Copy()
		}
		return types.ChainIndexElement{StateElement: unassigned}
	}
	resolution := func(typ string, i int) types.V2FileContractResolutionType {
		switch typ {
		case "renewal":
			return &types.V2FileContractRenewal{}
		case "expiration":
			return &types.V2FileContractExpiration{}
		}
		return &types.V2StorageProof{ProofIndex: cie(i)}
	}
	// genuine elements in all the other lists
	fill := func(txn *types.V2Transaction, skip string, v int) {
		if skip != "sc" {
			txn.SiacoinInputs = []types.V2SiacoinInput{{Parent: sc(v)}}
		}
		if skip != "sf" {
			txn.SiafundInputs = []types.V2SiafundInput{{Parent: sf(v)}}
		}
		if skip != "rev" {
			txn.FileContractRevisions = []types.V2FileContractRevision{{Parent: fc(v)}}
		}
		if skip != "res" {
			txn.FileContractResolutions = []types.V2FileContractResolution{{Parent: fc(v + 1), Resolution: resolution(resTypes[v%3], v)}}
		}
	}
	var out []multiCase
	posName := []string{"1st-of-3", "2nd-of-3", "3rd-of-3"}
	switch x := p.v.(type) {
	case *types.SiacoinElement:
		for pos := 0; pos < 3; pos++ {
			var txn types.V2Transaction
			fill(&txn, "sc", pos)
			for i, j := 0, 0; i < 3; i++ {
				if i == pos {
					txn.SiacoinInputs = append(txn.SiacoinInputs, types.V2SiacoinInput{Parent: x.Copy()})
				} else {
					txn.SiacoinInputs = append(txn.SiacoinInputs, types.V2SiacoinInput{Parent: sc(j)})
					j++
				}
			}
			out = append(out, multiCase{role + "/" + posName[pos], txn})
		}
	case *types.SiafundElement:
		for pos := 0; pos < 3; pos++ {
			var txn types.V2Transaction
			fill(&txn, "sf", pos)
			for i, j := 0, 0; i < 3; i++ {
				if i == pos {
					txn.SiafundInputs = append(txn.SiafundInputs, types.V2SiafundInput{Parent: x.Copy()})
				} else {
					txn.SiafundInputs = append(txn.SiafundInputs, types.V2SiafundInput{Parent: sf(j)})
					j++
				}
			}
			out = append(out, multiCase{role + "/" + posName[pos], txn})
		}
	case *types.V2FileContractElement:
		if role == "revision-parent" {
			for pos := 0; pos < 3; pos++ {
				var txn types.V2Transaction
				fill(&txn, "rev", pos)
				for i, j := 0, 0; i < 3; i++ {
					if i == pos {
						txn.FileContractRevisions = append(txn.FileContractRevisions, types.V2FileContractRevision{Parent: x.Copy()})
					} else {
						txn.FileContractRevisions = append(txn.FileContractRevisions, types.V2FileContractRevision{Parent: fc(j)})
						j++
					}
				}
				out = append(out, multiCase{role + "/" + posName[pos], txn})
			}
			return out
		}
		for ti, typ := range resTypes {
			own := types.V2FileContractResolution{Parent: x.Copy(), Resolution: resolution(resTypes[(ti+1)%3], ti)}
			gen := types.V2FileContractResolution{Parent: fc(ti), Resolution: resolution(typ, ti+1)}
			var a, b types.V2Transaction
			fill(&a, "res", ti)
			fill(&b, "res", ti)
			a.FileContractResolutions = []types.V2FileContractResolution{gen, own}
			b.FileContractResolutions = []types.V2FileContractResolution{own, gen}
			out = append(out, multiCase{role + "/after-" + typ, a}, multiCase{role + "/before-" + typ, b})
		}
	case *types.ChainIndexElement:
		for ti, typ := range resTypes {
			own := types.V2FileContractResolution{Parent: fc(ti + 1), Resolution: &types.V2StorageProof{ProofIndex: x.Copy()}}
			gen := types.V2FileContractResolution{Parent: fc(ti), Resolution: resolution(typ, ti+1)}
			var a, b types.V2Transaction
			fill(&a, "res", ti)
			fill(&b, "res", ti)
			a.FileContractResolutions = []types.V2FileContractResolution{gen, own}
			b.FileContractResolutions = []types.V2FileContractResolution{own, gen}
			out = append(out, multiCase{role + "/after-" + typ, a}, multiCase{role + "/before-" + typ, b})
		}
	}
	return out
}

func (h *host) askVTEMulti(txn types.V2Transaction) (member bool, pan any) {
	_, pan = vlib.Recover(func() { member = h.cs.Elements.ValidateTransactionElements(txn) == nil })
	return
}

// multiRoles lists the door names of the family (for the vacuity guard).
func multiRoles() []string {
	var out []string
	for _, r := range []string{"siacoin-input", "siafund-input", "revision-parent"} {
		for _, p := range []string{"1st-of-3", "2nd-of-3", "3rd-of-3"} {
			out = append(out, r+"/"+p)
		}
	}
	for _, r := range []string{"resolution-parent", "storage-proof-index"} {
		for _, t := range resTypes {
			out = append(out, r+"/after-"+t, r+"/before-"+t)
		}
	}
	return out
}
