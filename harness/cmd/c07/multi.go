package main

import (
	"encoding/json"
	"fmt"
	"sync"

	"go.sia.tech/core/types"
	"verif/harness/chain"
	"verif/harness/vlib"
)

// Several storage proofs in one v1 transaction (clause TxVerdict of StorageProof.tla): the transaction is acceptable iff
// every proof is, whatever the order of the proofs and the sizes of their files. The contracts are formed by one
// transaction, the proofs presented by one transaction of the next block; every list of sizes the specification prints,
// honest throughout or with one dishonest proof, in each of the three leaf-handling eras.
type txCase struct {
	Sizes []uint64 `json:"sizes"`
	Bad   int      `json:"bad"`
}

var (
	txCases   []txCase
	txHonest  func(era int, size, idx uint64) bool
	txEraOf   map[[3]uint64]int
	onlyMulti *struct {
		Part         string
		Sizes        []uint64
		Bad          int
		TaxH, ProofH uint64
	}
)

func multiProofs(c *vlib.Ctx) {
	if len(txCases) == 0 {
		c.Fatal("StorageProof printed no transaction cases")
	}
	var mu sync.Mutex
	cells := map[string]int{}
	var evals int64
	var wg sync.WaitGroup
	sem := make(chan struct{}, 12)
	for _, fh := range [][2]uint64{{1000, 1000}, {0, 1000}, {0, 0}} {
		era, ok := txEraOf[[3]uint64{2, fh[0], fh[1]}]
		if !ok {
			c.Fatal("the specification's era table has no entry for fork heights %v", fh)
		}
		for _, tc := range txCases {
			if onlyMulti != nil && (fmt.Sprint(tc.Sizes) != fmt.Sprint(onlyMulti.Sizes) || tc.Bad != onlyMulti.Bad || fh[0] != onlyMulti.TaxH || fh[1] != onlyMulti.ProofH) {
				continue
			}
			wg.Add(1)
			sem <- struct{}{}
			go func(tc txCase, era int, taxH, proofH uint64) {
				defer wg.Done()
				defer func() { <-sem }()
				n := uint64(len(tc.Sizes))
				pay := uint64(256411)
				p := chain.Params{MatDelay: 1, AllowH: 1000, RequireH: 1001, EphH: 1002, FoundH: 5000, Reward: 500,
					GenSC: []chain.AbsOut{{Val: 1000000, Addr: "A"}}, GenSF: []chain.AbsOut{{Val: 10000, Addr: "A"}}, TaxForkH: taxH, ProofForkH: proofH}
				sim := chain.NewSim(p)
				ctx := sim.NewBlockCtx()
				vs := pay - (pay*39/1000)/10000*10000
				tx := chain.AbsTx{Ver: 1, Sci: []chain.AbsIn{{ID: chain.SID{chain.SCO, 0, 0, 1, 0}, Auth: "ok"}}, Sco: []chain.AbsOut{{Val: 1000000 - n*pay, Addr: "A"}}, Tag: "form"}
				for k, size := range tc.Sizes {
					tx.Fc = append(tx.Fc, rawj(map[string]any{"pay": pay, "vo": []chain.AbsOut{{Val: vs / 2, Addr: "A"}, {Val: vs - vs/2, Addr: "B"}}, "mo": []chain.AbsOut{{Val: vs / 2, Addr: "A"}, {Val: vs - vs/2, Addr: "V"}},
						"ws": 2, "we": 4, "rn": k, "size": size, "owner": "A"}))
				}
				if err := ctx.Add(tx); err != nil {
					c.Infra("multi-proof scenario: %v", err)
					return
				}
				b := sim.Seal(ctx.V1, ctx.V2)
				bs := sim.Supplement(ctx.V1)
				if err, pan := sim.Validate(b, bs); err != nil || pan != nil {
					c.Infra("multi-proof scenario: formation block rejected: %v %v", err, pan)
					return
				}
				ctx.Commit()
				sim.Apply(b, bs)
				want := tc.Bad == 0
				var idxs []uint64
				var res []chain.AbsRes
				for k, size := range tc.Sizes {
					idx := sim.CS.StorageProofLeafIndex(size, b.ID(), ctx.V1[0].FileContractID(k))
					idxs = append(idxs, idx)
					if !txHonest(era, size, idx) {
						want = false
					}
					pf := "ok"
					if tc.Bad == k+1 {
						pf = "data"
					}
					res = append(res, chain.AbsRes{Cid: chain.SID{chain.FC1, 1, 0, k + 1, 0}, Kind: "proof", Pf: pf})
				}
				ctx2 := sim.NewBlockCtx()
				if err := ctx2.Add(chain.AbsTx{Ver: 1, Res: res, Tag: "proofs"}); err != nil {
					c.Infra("multi-proof scenario: %v", err)
					return
				}
				b2 := sim.Seal(ctx2.V1, ctx2.V2)
				err, pan := sim.Validate(b2, sim.Supplement(ctx2.V1))
				payload := map[string]any{"part": "multi", "sizes": tc.Sizes, "bad": tc.Bad, "taxH": taxH, "proofH": proofH, "era": era, "challenged": idxs}
				mu.Lock()
				evals++
				cells[fmt.Sprintf("era%d/proofs=%d/bad=%v/expected-accept=%v", era, n, tc.Bad > 0, want)]++
				mu.Unlock()
				switch {
				case pan != nil:
					fmt.Printf("NOTE: multi-proof transaction %v panicked (%v): belongs to C10\n", payload, pan)
				case want && err != nil:
					c.Violation(fmt.Sprintf("storage-proof/v1/era%d/several-proofs/honest-transaction-rejected", era), fmt.Sprintf("a transaction with honest proofs of files of sizes %v (challenged leaves %v) is rejected: %v", tc.Sizes, idxs, err), payload)
				case !want && tc.Bad > 0 && err == nil:
					c.Violation(fmt.Sprintf("storage-proof/v1/era%d/several-proofs/dishonest-proof-accepted", era), fmt.Sprintf("a transaction with proofs of files of sizes %v is accepted although proof %d carries altered data", tc.Sizes, tc.Bad-1), payload)
				}
			}(tc, era, fh[0], fh[1])
		}
	}
	wg.Wait()
	if onlyMulti != nil {
		return
	}
	c.Cov("several_proofs_in_one_transaction", cells)
	c.Count(evals, evals)
	for _, need := range []string{"era2/proofs=2/bad=false/expected-accept=true", "era2/proofs=3/bad=false/expected-accept=true", "era2/proofs=2/bad=true/expected-accept=false", "era0/proofs=2/bad=false/expected-accept=true", "era1/proofs=2/bad=false/expected-accept=true"} {
		if cells[need] == 0 {
			c.Infra("vacuity: several-proofs cell %s never exercised", need)
		}
	}
}

var _ = types.Hash256{}
var _ = json.Marshal
