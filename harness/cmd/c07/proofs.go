package main

import (
	"encoding/json"
	"fmt"
	"os"
	"strings"
	"sync"
	"time"

	"go.sia.tech/core/types"
	"verif/harness/chain"
	"verif/harness/vlib"
)

// Storage proofs: StorageProof.tla states the tree, the honest proof of every leaf and the dishonest proofs the
// property names; here every (leaf count, challenged leaf, file size class, era / version, proof kind) is executed
// on a real chain: the contract is formed so that the chain-derived challenge is exactly the wanted leaf, then each
// proof is presented in the next block and the real verdict compared.

type shape struct {
	N      int             `json:"n"`
	I      int             `json:"i"`
	Ranges [][2]int        `json:"ranges"`
	Holes1 [][]interface{} `json:"holes1"`
	Holes2 [][]interface{} `json:"holes2"`
}
type eraCase struct {
	Era    int    `json:"era"`
	Size   uint64 `json:"size"`
	Idx    uint64 `json:"idx"`
	Hashed int    `json:"hashed"`
	Honest bool   `json:"honest"`
}

func rawj(v any) json.RawMessage { b, _ := json.Marshal(v); return b }

// only restricts the storage-proof scenarios to one saved case (replay mode).
var only *struct {
	Version, Era, Leaves, Challenged int
	Size, TaxH, ProofH               uint64
	Proof                            string
}

// replayProof re-executes the storage-proof case saved in the replay file.
func replayProof(c *vlib.Ctx) {
	b, err := os.ReadFile(c.Replay)
	if err != nil {
		c.Fatal("replay: %v", err)
	}
	var f struct {
		What string `json:"what"`
		Case struct {
			Part                             string
			Version, Era, Leaves, Challenged int
			Size, TaxH, ProofH               uint64
			Proof                            string
		} `json:"case"`
	}
	var mf struct {
		What string `json:"what"`
		Case struct {
			Part         string
			Sizes        []uint64
			Bad          int
			TaxH, ProofH uint64
		} `json:"case"`
	}
	if err := json.Unmarshal(b, &mf); err == nil && mf.Case.Part == "multi" {
		fmt.Printf("replaying the several-proofs case %+v; required: %s must not happen\n", mf.Case, mf.What)
		onlyMulti = &mf.Case
		proofs(c)
		if c.NViolations() == 0 {
			fmt.Println("observed: the saved case no longer violates the property on this tree")
		}
		return
	}
	if err := json.Unmarshal(b, &f); err == nil && f.Case.Part == "sectors" {
		fmt.Printf("replaying the sector-proof scenarios; required: %s must not happen\n", f.What)
		sectorProofs(c)
		if c.NViolations() == 0 {
			fmt.Println("observed: the saved case no longer violates the property on this tree")
		}
		return
	}
	if err := json.Unmarshal(b, &f); err != nil || f.Case.Leaves == 0 {
		c.Fatal("replay file holds neither a behaviour nor a storage-proof case")
	}
	only = &struct {
		Version, Era, Leaves, Challenged int
		Size, TaxH, ProofH               uint64
		Proof                            string
	}{f.Case.Version, f.Case.Era, f.Case.Leaves, f.Case.Challenged, f.Case.Size, f.Case.TaxH, f.Case.ProofH, f.Case.Proof}
	fmt.Printf("replaying storage-proof case %+v; required: %s must not happen\n", f.Case, f.What)
	proofs(c)
	if c.NViolations() == 0 {
		fmt.Println("observed: the saved case no longer violates the property on this tree")
	}
}

func proofs(c *vlib.Ctx) {
	cfgName := "StorageProof12.cfg"
	if c.Thorough {
		cfgName = "StorageProof33.cfg"
	}
	res := c.MustTLC(vlib.TLCOpts{SpecDirs: []string{"merkle"}, Module: "StorageProof", Config: cfgName, Workers: 8, Timeout: 15 * time.Minute, Xss: "64m"})
	var shapes []shape
	var eras []eraCase
	eraOf := map[[3]uint64]int{} // (child, tax fork height, proof fork height) -> era, from the specification
	for _, ln := range res.Lines {
		switch {
		case strings.HasPrefix(ln, "SHAPE "):
			var s shape
			if err := json.Unmarshal([]byte(vlib.UnquoteTLA(strings.TrimPrefix(ln, "SHAPE "))), &s); err != nil {
				c.Fatal("shape: %v", err)
			}
			shapes = append(shapes, s)
		case strings.HasPrefix(ln, "ERAOF "):
			var rows []struct {
				Child, TaxH, ProofH uint64
				Era                 int
			}
			if err := json.Unmarshal([]byte(vlib.UnquoteTLA(strings.TrimPrefix(ln, "ERAOF "))), &rows); err != nil {
				c.Fatal("era table: %v", err)
			}
			for _, r := range rows {
				eraOf[[3]uint64{r.Child, r.TaxH, r.ProofH}] = r.Era
			}
		case strings.HasPrefix(ln, "TXCASES "):
			if err := json.Unmarshal([]byte(vlib.UnquoteTLA(strings.TrimPrefix(ln, "TXCASES "))), &txCases); err != nil {
				c.Fatal("transaction cases: %v", err)
			}
		case strings.HasPrefix(ln, "ERAS "):
			if err := json.Unmarshal([]byte(vlib.UnquoteTLA(strings.TrimPrefix(ln, "ERAS "))), &eras); err != nil {
				c.Fatal("eras: %v", err)
			}
		}
	}
	if len(shapes) == 0 || len(eras) == 0 {
		c.Fatal("StorageProof printed %d shapes, %d era cases", len(shapes), len(eras))
	}
	honestEra := map[[3]uint64]bool{}
	for _, e := range eras {
		honestEra[[3]uint64{uint64(e.Era), e.Size, e.Idx}] = e.Honest
	}
	// the spec's own era rule for sizes outside the emitted table
	honest := func(era int, size, idx uint64) bool {
		if v, ok := honestEra[[3]uint64{uint64(era), size, idx}]; ok {
			return v
		}
		last := size / 64
		if size%64 == 0 {
			last--
		}
		return !(era == 1 && idx == last && size%64 == 0)
	}
	txHonest, txEraOf = honest, eraOf
	if onlyMulti != nil {
		multiProofs(c)
		return
	}
	holes := map[[3]int]map[string]bool{} // (ver, n, i) -> kinds the transcribed verifier accepts
	for _, s := range shapes {
		for ver, hs := range map[int][][]interface{}{1: s.Holes1, 2: s.Holes2} {
			m := map[string]bool{}
			for _, h := range hs {
				kind := h[0].(string)
				if kind == "other" {
					kind = fmt.Sprintf("other:%d", int(h[1].(float64)))
				}
				m[kind] = true
			}
			holes[[3]int{ver, s.N, s.I}] = m
		}
	}

	var mu sync.Mutex
	cells := map[string]int{}
	var chains, skipped, evals int64
	var trace []map[string]any
	var wg sync.WaitGroup
	sem := make(chan struct{}, 14)
	type variant struct {
		ver, era     int
		taxH, proofH uint64
	}
	// the proof is always presented in the block at height 2; fork heights far away, and exactly at / next to that block
	variants := []variant{{2, 2, 0, 0}}
	for _, fh := range [][2]uint64{{1000, 1000}, {0, 1000}, {0, 0}, {0, 2}, {0, 3}, {2, 1000}, {3, 1000}, {2, 2}, {2, 3}} {
		era, ok := eraOf[[3]uint64{2, fh[0], fh[1]}]
		if !ok {
			c.Fatal("the specification's era table has no entry for fork heights %v", fh)
		}
		variants = append(variants, variant{1, era, fh[0], fh[1]})
	}
	for _, sh := range shapes {
		if only != nil && (sh.N != only.Leaves || sh.I != only.Challenged) {
			continue
		}
		if only == nil && !c.Thorough && sh.N > 9 && (sh.N+sh.I+int(c.Seed))%3 != 0 {
			continue // quick tier: all shapes up to 9 leaves, a seeded third of the larger ones
		}
		for _, tail := range []uint64{1, 37, 64} {
			size := uint64(64*(sh.N-1)) + tail
			for _, v := range variants {
				if only != nil && (size != only.Size || v.ver != only.Version || v.era != only.Era || v.taxH != only.TaxH || v.proofH != only.ProofH) {
					continue
				}
				wg.Add(1)
				sem <- struct{}{}
				go func(sh shape, size uint64, v variant) {
					defer wg.Done()
					defer func() { <-sem }()
					p := chain.Params{MatDelay: 1, AllowH: 1000, RequireH: 1001, EphH: 1002, FoundH: 5000, Reward: 500,
						GenSC: []chain.AbsOut{{600000, "A"}}, GenSF: []chain.AbsOut{{10000, "A"}}}
					p.TaxForkH, p.ProofForkH = v.taxH, v.proofH
					if v.ver == 2 {
						p.AllowH, p.RequireH, p.EphH = 0, 1, 0
					}
					sim := chain.NewSim(p)
					var cid chain.SID
					formed := false
					for k := uint64(0); k < uint64(400*sh.N) && !formed; k++ {
						ctx := sim.NewBlockCtx()
						var tx chain.AbsTx
						if v.ver == 1 {
							pay := uint64(256411)
							vs := pay - (pay*39/1000)/10000*10000
							tx = chain.AbsTx{Ver: 1, Sci: []chain.AbsIn{{ID: chain.SID{chain.SCO, 0, 0, 1, 0}, Auth: "ok"}}, Sco: []chain.AbsOut{{600000 - pay, "A"}},
								Fc: []json.RawMessage{rawj(map[string]any{"pay": pay, "vo": []chain.AbsOut{{vs / 2, "A"}, {vs - vs/2, "B"}}, "mo": []chain.AbsOut{{vs / 2, "A"}, {vs - vs/2, "V"}},
									"ws": 2, "we": 4, "rn": k, "size": size, "owner": "A"})}, Tag: "form"}
							cid = chain.SID{chain.FC1, 1, 0, 1, 0}
						} else {
							cost := uint64(250024 + 25 + (250024+25)/25)
							tx = chain.AbsTx{Ver: 2, Sci: []chain.AbsIn{{ID: chain.SID{chain.SCO, 0, 0, 1, 0}, Auth: "ok"}}, Sco: []chain.AbsOut{{600000 - cost, "A"}},
								Fc: []json.RawMessage{rawj(map[string]any{"r": 250024, "h": 25, "ra": "A", "ha": "B", "mh": 19, "coll": 12, "ph": 1, "eh": 3, "rn": k,
									"cap": (size + 63) / 64 * 64, "size": size, "rk": "R", "hk": "H", "auth": "ok"})}, Tag: "form"}
							cid = chain.SID{chain.FC2, 1, 0, 1, 0}
						}
						if err := ctx.Add(tx); err != nil {
							c.Infra("storage proof scenario: %v", err)
							return
						}
						b := sim.Seal(ctx.V1, ctx.V2)
						var fcid types.FileContractID
						if v.ver == 1 {
							fcid = ctx.V1[0].FileContractID(0)
						} else {
							fcid = ctx.V2[0].V2FileContractID(ctx.V2[0].ID(), 0)
						}
						idx := sim.CS.StorageProofLeafIndex(size, b.ID(), fcid)
						if int(idx) != sh.I {
							continue
						}
						bs := sim.Supplement(ctx.V1)
						if err, pan := sim.Validate(b, bs); err != nil || pan != nil {
							c.Infra("storage proof scenario: formation block rejected: %v %v", err, pan)
							return
						}
						ctx.Commit()
						sim.Apply(b, bs)
						formed = true
						h := types.NewHasher()
						b.ID().EncodeTo(h.E)
						fcid.EncodeTo(h.E)
						seed := h.Sum()
						mu.Lock()
						trace = append(trace, map[string]any{"seed": vlib.Limbs(new(bigInt).SetBytes(seed[:])), "size": size, "idx": idx})
						mu.Unlock()
					}
					if !formed {
						mu.Lock()
						skipped++
						mu.Unlock()
						return
					}
					mu.Lock()
					chains++
					mu.Unlock()
					kinds := []string{"ok", "data", "long"}
					if sh.N > 1 {
						kinds = append(kinds, "short")
					}
					for j := 0; j < sh.N; j++ {
						if j != sh.I {
							kinds = append(kinds, fmt.Sprintf("other:%d", j))
						}
					}
					for _, kind := range kinds {
						ctx := sim.NewBlockCtx()
						if err := ctx.Add(chain.AbsTx{Ver: v.ver, Res: []chain.AbsRes{{Cid: cid, Kind: "proof", Pf: kind}}, Tag: "proof"}); err != nil {
							c.Infra("storage proof scenario: %v", err)
							return
						}
						b := sim.Seal(ctx.V1, ctx.V2)
						err, pan := sim.Validate(b, sim.Supplement(ctx.V1))
						accepted := err == nil && pan == nil
						name := fmt.Sprintf("v%d/era%d", v.ver, v.era)
						if v.ver == 1 && (v.taxH == 2 || v.taxH == 3 || v.proofH == 2 || v.proofH == 3) {
							name += "-at-fork"
						}
						payload := map[string]any{"version": v.ver, "era": v.era, "taxH": v.taxH, "proofH": v.proofH, "leaves": sh.N, "challenged": sh.I, "size": size, "proof": kind}
						mu.Lock()
						evals++
						gen := kind
						if strings.HasPrefix(kind, "other") {
							gen = "other"
						}
						cells[fmt.Sprintf("%s/%s/%v", name, gen, accepted)]++
						mu.Unlock()
						if pan != nil {
							fmt.Printf("NOTE: storage proof %v panicked (%v): belongs to C10\n", payload, pan)
							continue
						}
						if kind == "ok" {
							want := v.ver == 2 || honest(v.era, size, uint64(sh.I))
							if want && !accepted {
								c.Violation("storage-proof/"+name+"/honest-proof-rejected", fmt.Sprintf("honest proof of leaf %d of %d (size %d) rejected: %v", sh.I, sh.N, size, err), payload)
							}
							if !want && accepted {
								c.Infra("storage proof: the era rule of the specification expects the honest proof to be cut short (%v) but the code accepts it", payload)
							}
							continue
						}
						if accepted {
							c.Violation("storage-proof/"+name+"/"+gen+"-proof-accepted", fmt.Sprintf("dishonest proof (%s) accepted for challenged leaf %d of %d (size %d)", kind, sh.I, sh.N, size), payload)
						}
						if v.era == 2 && holes[[3]int{v.ver, sh.N, sh.I}][kind] != accepted {
							mu.Lock()
							cells["transcription-disagrees"]++
							mu.Unlock()
						}
					}
				}(sh, size, v)
			}
		}
	}
	wg.Wait()
	if cells["transcription-disagrees"] > 0 {
		c.Infra("the transcribed verifiers of StorageProof.tla disagree with the real code on %d dishonest proofs: update the transcription", cells["transcription-disagrees"])
	}
	// the same function at the sizes a contract may commit to although no file of that size exists: around every power of
	// two, around 2^64, with seeds from real block and contract ids (the quotient is supplied and checked by TLC)
	{
		var sizes []uint64
		for _, e := range []uint{6, 7, 31, 32, 33, 62, 63} {
			for d := int64(-65); d <= 65; d += 13 {
				sizes = append(sizes, uint64(int64(uint64(1)<<e)+d))
			}
		}
		for d := uint64(0); d < 130; d++ {
			sizes = append(sizes, ^uint64(0)-d)
		}
		cs := chain.NewSim(chain.Params{MatDelay: 1, AllowH: 1000, RequireH: 1001, EphH: 1002, FoundH: 5000, Reward: 500, GenSC: []chain.AbsOut{{600000, "A"}}, GenSF: []chain.AbsOut{{10000, "A"}}}).CS
		for k, size := range sizes {
			var bid types.BlockID
			var fcid types.FileContractID
			for j := range bid {
				bid[j], fcid[j] = byte(k*7+j*13+int(c.Seed)), byte(k*11+j*5+1)
			}
			var idx uint64
			if pan, v := vlib.Recover(func() { idx = cs.StorageProofLeafIndex(size, bid, fcid) }); pan {
				c.Violation("storage-proof/challenge-index-panics", fmt.Sprintf("StorageProofLeafIndex panics for file size %d: %v", size, v), map[string]any{"size": size})
				continue
			}
			h := types.NewHasher()
			bid.EncodeTo(h.E)
			fcid.EncodeTo(h.E)
			sd := h.Sum()
			seed := new(bigInt).SetBytes(sd[:])
			leaves := new(bigInt).Add(new(bigInt).SetUint64(size), new(bigInt).SetUint64(63))
			leaves.Rsh(leaves, 6)
			q := new(bigInt)
			if leaves.Sign() > 0 {
				q.Div(seed, leaves)
			}
			trace = append(trace, map[string]any{"seed": vlib.Limbs(seed), "bsize": vlib.Limbs(new(bigInt).SetUint64(size)), "bidx": vlib.Limbs(new(bigInt).SetUint64(idx)), "q": vlib.Limbs(q)})
			evals++
		}
	}
	// challenge index = seed mod leaves, decided by TLC over BigNat
	const chunk = 64
	tr, err := c.TLC(vlib.TLCOpts{SpecDirs: []string{"merkle"}, Module: "ChallengeTrace", Config: "ChallengeTrace.cfg",
		Files: map[string][]byte{"trace.ndjson": vlib.NDJSON(trace)}, Workers: 8, Timeout: 10 * time.Minute, Xss: "64m"})
	if err != nil || tr.Violated != "" {
		c.Fatal("challenge trace: %v %s", err, vlib.Tail(tr.Out, 800))
	}
	if want := int64(1 + (len(trace)+chunk-1)/chunk + len(trace)); tr.Distinct != want {
		c.Fatal("challenge trace not consumed: %d states, want %d", tr.Distinct, want)
	}
	for _, ln := range tr.Lines {
		if strings.HasPrefix(ln, "REJECT ") {
			f := strings.SplitN(ln, " ", 3)
			c.Violation("storage-proof/challenge-index", "StorageProofLeafIndex is not seed mod leaves: "+f[2], ln)
		}
	}
	c.Traces(1 + chains)
	c.Count(evals+int64(len(trace)), evals)
	c.Cov("storage_proof_chains", chains)
	c.Cov("storage_proof_cases", cells)
	c.Cov("storage_proof_challenge_not_reached", skipped)
	if only != nil {
		return
	}
	for _, need := range []string{"v1/era0/ok/true", "v1/era1/ok/true", "v1/era1/ok/false", "v1/era2/ok/true", "v2/era2/ok/true", "v1/era2/other/false", "v2/era2/other/false", "v1/era0/data/false", "v2/era2/short/false", "v2/era2/long/false"} {
		if cells[need] == 0 {
			c.Infra("vacuity: storage proof class %s never occurred", need)
		}
	}
}
