// C07 — Contracts pay out exactly once, totals fixed; storage proofs sound and complete.
//
//  1. TLC proves NoDoubleUse, RevisionStep (v2) and RevisionStep1 (v1) on contract life-cycle configurations of
//     Ledger.tla, and completeness of the storage-proof verifiers in StorageProof.tla (the soundness clauses of the
//     transcribed verifiers are reported, and decided on the real code).
//  2. Direction A (life-cycles): TLC-simulated and exhaustively enumerated contract life-cycles (formation, revision
//     sequences, proof, expiry, renewal; v1 and v2) with the revision / proof / formation / timing / second-use
//     defects are replayed on the real code; after every accepted block the payout outputs found in the store
//     (IDs, values, addresses, maturity) must be those the specification derives from the latest accepted revision.
//  3. Storage proofs: see proofs.go.
package main

import (
	"math/big"
	"time"

	"verif/harness/chain"
	"verif/harness/vlib"
)

type bigInt = big.Int

func main() {
	c := vlib.Start("C07")
	c.Rule("Life-cycles: TLC -simulate and exhaustive behaviours of contract-only configurations of Ledger.tla replayed on the real code, store compared with the specification after every block (payout outputs of the latest revision, delayed by the maturity period). Storage proofs: every (leaves <= bound, challenged leaf, last-leaf class, era/version, honest | other leaf | altered data | short | long) executed on a real chain formed so that the chain-derived challenge is the wanted leaf. distinct_nontrivial = proof cases + behaviours.")
	c.Assume("honest-store model for v1 supplements; post-tax-fork tax formula in the bounded ledger model")
	c.Assume("v1 file size 0 is exercised only in the fixed era (no honest proof exists before it)")

	if c.Replay != "" {
		if !chain.Replay(c, chain.RunOpts{}) {
			replayProof(c)
		}
		c.Finish()
	}
	for _, ver := range []string{"v2only", "v1only"} {
		mc := chain.BaseConfig(chain.Shapes()[ver])
		mc.Addrs = []string{"B"}
		mc.P.GenSC = []chain.AbsOut{{600000, "B"}}
		mc.MaxHeight, mc.MaxTxns, mc.MaxReverts = 4, 2, 0
		mc.Templates = []string{"form2", "rev2", "res2"}
		mc.Properties = []string{"RevisionStep"}
		if ver == "v1only" {
			mc.Templates = []string{"form1", "rev1", "prove1"}
			mc.Properties = []string{"RevisionStep1"}
			mc.MaxHeight = 4
		}
		mc.Pay1, mc.Sizes, mc.RevShifts, mc.FormRH = []int{256411}, []int{200}, []int{24}, [][2]int{{250024, 25}}
		mc.WinStarts, mc.WinLens = []int{1}, []int{2}
		mc.Invariants = []string{"Conservation", "NoDoubleUse", "LiveNotGone"}
		r := chain.ModelCheck(c, mc, 10*time.Minute)
		c.Cov("mc_states_"+ver, r.Distinct)
	}

	total := chain.RunStats{Tags: map[string]int{}}
	add := func(st chain.RunStats) {
		total.Behaviours += st.Behaviours
		total.Steps += st.Steps
		total.Accepted += st.Accepted
		total.Rejected += st.Rejected
		for k, v := range st.Tags {
			total.Tags[k] += v
		}
	}
	type run struct {
		shape string
		tpl   []string
	}
	for _, rn := range []run{{"v1only", []string{"form1", "rev1", "prove1"}}, {"v2only", []string{"form2", "rev2", "res2", "renew2"}},
		{"mixed", []string{"form1", "rev1", "prove1", "form2", "rev2", "res2", "renew2"}}} {
		cfg := chain.BaseConfig(chain.Shapes()[rn.shape])
		cfg.Templates = rn.tpl
		cfg.Defects = []string{"revision", "proof", "formation", "timing", "reuse", "intx"}
		cfg.Pay1, cfg.Sizes, cfg.FormRH, cfg.MaxTxns, cfg.MaxHeight = []int{256411, 256410}, []int{0, 64, 200}, [][2]int{{250024, 25}, {599, 0}}, 3, 8
		add(chain.Run(c, cfg, chain.RunOpts{Num: c.Pick(200, 5000), Depth: 64, NoFocus: true, Timeout: 20 * time.Minute}))
	}
	// exhaustive narrow life-cycles with post-state comparison
	for _, f := range []run{{"v1only", []string{"form1", "rev1", "prove1"}}, {"v2only", []string{"form2", "rev2", "res2"}}} {
		// one file size per enumeration (height 5 prints more than TLC's output cap allows); thorough enumerates all three
		sizes := []int{200}
		if f.shape == "v2only" {
			sizes = []int{200, 0} // an empty file is a special case of several resolution rules
		}
		if c.Thorough {
			sizes = []int{200, 0, 64}
		}
		for _, size := range sizes {
			p := chain.Shapes()[f.shape]
			p.GenSC = []chain.AbsOut{{600000, "B"}}
			cfg := chain.BaseConfig(p)
			cfg.Addrs = []string{"B"}
			cfg.Templates = f.tpl
			cfg.Pay1, cfg.Sizes, cfg.RevShifts, cfg.FormRH = []int{256411}, []int{size}, []int{24}, [][2]int{{250024, 25}}
			cfg.WinStarts, cfg.WinLens = []int{1}, []int{1}
			cfg.MaxHeight, cfg.MaxTxns, cfg.MaxReverts = 4, 2, 0
			add(chain.Run(c, cfg, chain.RunOpts{Exhaustive: true, Timeout: 20 * time.Minute}))
		}
	}
	// the final revision (revision number 2^64-1) and what may follow it: nothing
	{
		p := chain.Shapes()["v1only"]
		p.GenSC = []chain.AbsOut{{600000, "B"}}
		cfg := chain.BaseConfig(p)
		cfg.Addrs = []string{"B"}
		cfg.Templates, cfg.Defects = []string{"form1", "rev1"}, []string{"finalrn"}
		cfg.Pay1, cfg.Sizes, cfg.RevShifts = []int{256411}, []int{200}, []int{24}
		cfg.WinStarts, cfg.WinLens = []int{2}, []int{2}
		cfg.MaxHeight, cfg.MaxTxns, cfg.MaxReverts, cfg.NoPost = 3, 1, 0, true
		st := chain.Run(c, cfg, chain.RunOpts{Exhaustive: true, Timeout: 20 * time.Minute})
		add(st)
		if st.Tags["v1:rev1!stalern"] == 0 || st.Tags["v1:rev1final"] == 0 {
			c.Infra("vacuity: no revision after a final revision was generated")
		}
	}
	// payouts are delayed by the maturity period: an immature payout spent in its own block (presented as mature), in the
	// block exactly at the ephemeral-output height and around it
	{
		p := chain.Shapes()["v2only"]
		p.EphH = 3
		p.GenSC = []chain.AbsOut{{600000, "B"}}
		cfg := chain.BaseConfig(p)
		cfg.Addrs = []string{"B"}
		cfg.Templates, cfg.Defects = []string{"form2", "res2"}, []string{"immature"}
		cfg.Sizes, cfg.RevShifts, cfg.FormRH = []int{200}, []int{24}, [][2]int{{250024, 25}}
		cfg.WinStarts, cfg.WinLens = []int{1}, []int{1}
		cfg.MaxHeight, cfg.MaxTxns, cfg.MaxReverts, cfg.NoPost = 4, 2, 0, true
		st := chain.Run(c, cfg, chain.RunOpts{Exhaustive: true, Timeout: 20 * time.Minute})
		add(st)
		if st.Tags["v2:immature!mislabel"] == 0 {
			c.Infra("vacuity: no payout was presented as mature in its own block")
		}
	}
	// exhaustive v2 revision sequences inside one block with the revision defects (verdicts only)
	{
		p := chain.Shapes()["v2only"]
		p.GenSC = []chain.AbsOut{{600000, "B"}}
		cfg := chain.BaseConfig(p)
		cfg.Addrs = []string{"B"}
		cfg.Templates, cfg.Defects = []string{"form2", "rev2"}, []string{"revision"}
		cfg.RevShifts, cfg.FormRH = []int{24}, [][2]int{{250024, 25}}
		cfg.WinStarts, cfg.WinLens = []int{1}, []int{2}
		cfg.MaxHeight, cfg.MaxTxns, cfg.MaxReverts, cfg.NoPost = 2, 3, 0, true
		st := chain.Run(c, cfg, chain.RunOpts{Exhaustive: true, Timeout: 20 * time.Minute})
		add(st)
		if st.Tags["v2:rev2!missedup"] == 0 {
			c.Infra("vacuity: no in-block revision sequence ended in a revision raising the missed host value")
		}
	}
	c.Cov("transactions_by_template", total.Tags)
	c.Cov("blocks_accepted", total.Accepted)
	c.Cov("blocks_rejected_as_predicted", total.Rejected)
	c.Traces(int64(total.Behaviours))
	c.Count(int64(total.Steps), int64(total.Behaviours))
	for _, need := range []string{"v1:prove1", "v1:rev1", "v2:proof", "v2:expire", "v2:renew", "v2:rev2", "v2:rev2!sum", "v2:rev2!missedup", "v2:rev2!coll", "v1:rev1!validsum", "v1:prove1!wrongdata", "v2:proof!wrongdata", "v1:prove1!withrev"} {
		if total.Tags[need] == 0 {
			c.Infra("vacuity: %s never occurred", need)
		}
	}
	proofs(c)
	sectorProofs(c)
	multiProofs(c)
	c.Finish()
}
