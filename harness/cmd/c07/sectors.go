package main

import (
	"encoding/json"
	"fmt"
	"reflect"
	"sync"

	"go.sia.tech/core/blake2b"
	rhp2 "go.sia.tech/core/rhp/v2"
	"go.sia.tech/core/types"
	"verif/harness/chain"
	"verif/harness/vlib"
)

// Honest proofs as a host builds them: files of whole 4 MiB sectors, the proof made by core's own prover (the path inside
// the sector, the range proof over the sector roots, reordered for consensus). The completeness clause of StorageProof.tla
// says the honest proof of the challenged leaf is accepted whatever the tree shape; the proof list itself must equal the
// specification's bottom-up sibling list (chain.PlainProof is the harness's transcription of `Prove`). Sector counts with
// an unbalanced tail (3, 5, 6, 7, 11, 13, ...) and challenges in every part of the tree are what matters here.
func sectorProofs(c *vlib.Ctx) {
	counts := []int{1, 2, 3, 5, 7}
	if c.Thorough {
		counts = []int{1, 2, 3, 4, 5, 6, 7, 8, 9, 11, 13}
	}
	var mu sync.Mutex
	var wg sync.WaitGroup
	sem := make(chan struct{}, 6)
	cells := map[string]int{}
	var evals int64
	for _, n := range counts {
		targets := []int{0, n / 2, n - 1}
		if c.Thorough || n == 7 {
			targets = nil
			for s := 0; s < n; s++ {
				targets = append(targets, s)
			}
		}
		seen := map[int]bool{}
		for _, target := range targets {
			if seen[target] {
				continue
			}
			seen[target] = true
			for _, ver := range []int{2, 1} {
				wg.Add(1)
				sem <- struct{}{}
				go func(n, target, ver int) {
					defer wg.Done()
					defer func() { <-sem }()
					size := uint64(n) * rhp2.SectorSize
					p := chain.Params{MatDelay: 1, AllowH: 1000, RequireH: 1001, EphH: 1002, FoundH: 5000, Reward: 500,
						GenSC: []chain.AbsOut{{600000, "A"}}, GenSF: []chain.AbsOut{{10000, "A"}}}
					if ver == 2 {
						p.AllowH, p.RequireH, p.EphH = 0, 1, 0
					}
					sim := chain.NewSim(p)
					var cid chain.SID
					var idx uint64
					formed := false
					for k := uint64(0); k < uint64(60*n) && !formed; k++ {
						ctx := sim.NewBlockCtx()
						var tx chain.AbsTx
						if ver == 1 {
							pay := uint64(256411)
							vs := pay - (pay*39/1000)/10000*10000
							tx = chain.AbsTx{Ver: 1, Sci: []chain.AbsIn{{ID: chain.SID{chain.SCO, 0, 0, 1, 0}, Auth: "ok"}}, Sco: []chain.AbsOut{{600000 - pay, "A"}},
								Fc: []json.RawMessage{rawj(map[string]any{"pay": pay, "vo": []chain.AbsOut{{vs / 2, "A"}, {vs - vs/2, "B"}}, "mo": []chain.AbsOut{{vs / 2, "A"}, {vs - vs/2, "V"}},
									"ws": 2, "we": 4, "rn": k, "size": size, "owner": "A"})}, Tag: "form"}
							cid = chain.SID{chain.FC1, 1, 0, 1, 0}
						} else {
							cost := uint64(250024 + 25 + (250024+25)/25)
							tx = chain.AbsTx{Ver: 2, Sci: []chain.AbsIn{{ID: chain.SID{chain.SCO, 0, 0, 1, 0}, Auth: "ok"}}, Sco: []chain.AbsOut{{600000 - cost, "A"}},
								Fc: []json.RawMessage{rawj(map[string]any{"r": 250024, "h": 25, "ra": "A", "ha": "B", "mh": 19, "coll": 12, "ph": 1, "eh": 3, "rn": k,
									"cap": size, "size": size, "rk": "R", "hk": "H", "auth": "ok"})}, Tag: "form"}
							cid = chain.SID{chain.FC2, 1, 0, 1, 0}
						}
						if err := ctx.Add(tx); err != nil {
							c.Infra("sector proof scenario: %v", err)
							return
						}
						b := sim.Seal(ctx.V1, ctx.V2)
						var fcid types.FileContractID
						if ver == 1 {
							fcid = ctx.V1[0].FileContractID(0)
						} else {
							fcid = ctx.V2[0].V2FileContractID(ctx.V2[0].ID(), 0)
						}
						idx = sim.CS.StorageProofLeafIndex(size, b.ID(), fcid)
						if int(idx/rhp2.LeavesPerSector) != target {
							continue
						}
						bs := sim.Supplement(ctx.V1)
						if err, pan := sim.Validate(b, bs); err != nil || pan != nil {
							c.Infra("sector proof scenario: formation block rejected: %v %v", err, pan)
							return
						}
						ctx.Commit()
						sim.Apply(b, bs)
						formed = true
					}
					if !formed {
						mu.Lock()
						cells["challenge-not-reached"]++
						mu.Unlock()
						return
					}
					payload := map[string]any{"part": "sectors", "version": ver, "sectors": n, "sector": target, "leaf": idx}
					// the proof list of core's prover against the specification's list
					data := chain.FileData(size)
					var hs []types.Hash256
					for _, l := range chain.Leaves(data) {
						hs = append(hs, sim.CS.StorageProofLeafHash(l))
					}
					want := chain.PlainProof(hs, int(idx), func(l, r types.Hash256) types.Hash256 { return blake2b.SumPair(l, r) })
					var got []types.Hash256
					if pan, v := vlib.Recover(func() { got = chain.RHP2Proof(data, idx) }); pan {
						c.Violation(fmt.Sprintf("storage-proof/v%d/sectors/prover-panics", ver), fmt.Sprintf("core's prover panics for leaf %d of a file of %d sectors: %v", idx, n, v), payload)
						return
					}
					mu.Lock()
					evals += 3
					cells[fmt.Sprintf("v%d/sectors=%d/challenged-sector=%d", ver, n, target)]++
					mu.Unlock()
					if !reflect.DeepEqual(got, want) {
						c.Violation(fmt.Sprintf("storage-proof/v%d/sectors/prover-differs-from-spec", ver), fmt.Sprintf("the proof built by rhp/v2 (BuildProof + BuildSectorRangeProof + ConvertProofOrdering) for leaf %d (sector %d) of a file of %d sectors has %d hashes and is not the specification's sibling list (%d hashes)", idx, target, n, len(got), len(want)), payload)
					}
					for _, kind := range []string{"ok", "rhp2"} {
						ctx := sim.NewBlockCtx()
						if err := ctx.Add(chain.AbsTx{Ver: ver, Res: []chain.AbsRes{{Cid: cid, Kind: "proof", Pf: kind}}, Tag: "proof"}); err != nil {
							c.Infra("sector proof scenario: %v", err)
							return
						}
						b := sim.Seal(ctx.V1, ctx.V2)
						err, pan := sim.Validate(b, sim.Supplement(ctx.V1))
						if pan != nil {
							fmt.Printf("NOTE: sector storage proof %v panicked (%v): belongs to C10\n", payload, pan)
							continue
						}
						if err != nil {
							who := "the specification's honest proof"
							if kind == "rhp2" {
								who = "the honest proof built by core's own prover"
							}
							c.Violation(fmt.Sprintf("storage-proof/v%d/sectors/honest-%s-proof-rejected", ver, kind), fmt.Sprintf("%s of leaf %d (sector %d) of a file of %d sectors is rejected: %v", who, idx, target, n, err), payload)
						}
					}
				}(n, target, ver)
			}
		}
	}
	wg.Wait()
	c.Cov("sector_proof_cases", cells)
	c.Count(evals, int64(len(cells)))
	if cells["challenge-not-reached"] > len(cells)/4 {
		c.Infra("sector proofs: the wanted sector was not challenged in %d scenarios", cells["challenge-not-reached"])
	}
	left := 0
	for s := 0; s < 4; s++ {
		left += cells[fmt.Sprintf("v2/sectors=7/challenged-sector=%d", s)]
	}
	if left == 0 {
		c.Infra("vacuity: no challenge left of the unbalanced tail of a 7-sector file")
	}
}
