package main

import (
	"encoding/json"
	"fmt"
	"os"
	"strings"
	"sync"
	"time"

	"verif/harness/chain"
	"verif/harness/vlib"
)

// Part 2: every (rule, bound, child) case of spec/ledger/Boundary.tla on a real chain.
// TLC states on which side of the bound each rule admits the transaction; the harness builds the scenario
// (prerequisite at height First, empty blocks up to child-1, the transaction under test in the child block)
// and compares the real verdict of ValidateBlock.

type hcase struct {
	Rule  string `json:"rule"`
	B     uint64 `json:"B"`
	Child uint64 `json:"child"`
	OK    bool   `json:"ok"`
}
type tcase struct {
	Pattern string  `json:"pattern"`
	N       int     `json:"n"`
	TS      []int64 `json:"ts"`
	Lock    int64   `json:"lock"`
	OK      bool    `json:"ok"`
}

func raw(v any) json.RawMessage { b, _ := json.Marshal(v); return b }

func c1(pay, ws, we, rn uint64) map[string]any {
	vs := pay - (pay*39/1000)/10000*10000
	rs := vs / 2
	hs := vs - rs
	burn := hs / 3
	return map[string]any{"pay": pay, "vo": []chain.AbsOut{{rs, "A"}, {hs, "B"}}, "mo": []chain.AbsOut{{rs, "A"}, {hs - burn, "B"}, {burn, "V"}},
		"ws": ws, "we": we, "rn": rn, "size": 200, "owner": "A"}
}

func c1s(pay, ws, we, rn, size uint64) map[string]any {
	m := c1(pay, ws, we, rn)
	m["size"] = size
	return m
}

// inBlockPre is the transaction that stands before the transaction under test in the child block (rules "...-inblock").
func inBlockPre(rule string, B uint64) *chain.AbsTx {
	size := uint64(200)
	switch rule {
	case "prove1-windowstart-empty-inblock":
		size = 0
	case "prove1-windowstart-inblock":
	default:
		return nil
	}
	return &chain.AbsTx{Ver: 1, Sci: []chain.AbsIn{in(gid(gBig))}, Sco: []chain.AbsOut{{600000 - 256411, "A"}}, Fc: []json.RawMessage{raw(c1s(256411, B, B+4, 0, size))}, Tag: "pre-in-block"}
}

func c2(r, h, ph, eh, rn uint64) map[string]any {
	return map[string]any{"r": r, "h": h, "ra": "A", "ha": "B", "mh": h - h/4, "coll": h / 2, "ph": ph, "eh": eh, "rn": rn,
		"cap": 256, "size": 200, "rk": "R", "hk": "H", "auth": "ok"}
}

func in(id chain.SID) chain.AbsIn { return chain.AbsIn{ID: id, Auth: "ok"} }

const (
	gBig  = 1 // genesis output 1: 600000 to A  (funds contracts)
	gLock = 2 // genesis output 2: 5000 to the lock address of the scenario
	gPay  = 3 // genesis output 3: 7000 to A (plain payments)
)

func gid(i int) chain.SID { return chain.SID{chain.SCO, 0, 0, i, 0} }

// scenario returns the genesis lock address, the prerequisite transaction (at height first) and the transaction under test.
func scenario(rule string, B, child, first uint64) (lockAddr string, pre *chain.AbsTx, test chain.AbsTx, ok bool) {
	lockAddr = "B"
	pay := func(ver int, id chain.SID, val uint64) chain.AbsTx {
		return chain.AbsTx{Ver: ver, Sci: []chain.AbsIn{in(id)}, Sco: []chain.AbsOut{{val, "B"}}, Tag: rule}
	}
	fund1 := func(c map[string]any) *chain.AbsTx {
		return &chain.AbsTx{Ver: 1, Sci: []chain.AbsIn{in(gid(gBig))}, Sco: []chain.AbsOut{{600000 - 256411, "A"}}, Fc: []json.RawMessage{raw(c)}, Tag: "pre"}
	}
	fund2 := func(c map[string]any) *chain.AbsTx {
		cost := uint64(250024 + 25 + (250024+25)/25)
		return &chain.AbsTx{Ver: 2, Sci: []chain.AbsIn{in(gid(gBig))}, Sco: []chain.AbsOut{{600000 - cost, "A"}}, Fc: []json.RawMessage{raw(c)}, Tag: "pre"}
	}
	fc1 := chain.SID{chain.FC1, int(first), 0, 1, 0}
	fc2 := chain.SID{chain.FC2, int(first), 0, 1, 0}
	switch rule {
	case "mat-v1", "mat-v2":
		return // handled by matScenario (needs the network's maturity delay)
	case "uclock-v1-sc":
		return fmt.Sprintf("T%d", B), nil, pay(1, gid(gLock), 5000), true
	case "uclock-v2":
		return fmt.Sprintf("T%d", B), nil, pay(2, gid(gLock), 5000), true
	case "above-v2":
		return fmt.Sprintf("P%d", B), nil, pay(2, gid(gLock), 5000), true
	case "siglock-v1":
		t := pay(1, gid(gPay), 7000)
		t.Sci[0].Auth = fmt.Sprintf("siglock%d", B)
		return "B", nil, t, true
	case "siglock-v1-partial":
		t := pay(1, gid(gPay), 7000)
		t.Sci[0].Auth = fmt.Sprintf("siglockP%d", B)
		return "B", nil, t, true
	case "uclock-v1-sf":
		return fmt.Sprintf("T%d", B), nil, chain.AbsTx{Ver: 1, Sfi: []chain.AbsSfIn{{ID: chain.SID{chain.SFO, 0, 0, 2, 0}, Claim: "A", Auth: "ok"}}, Sfo: []chain.AbsOut{{3000, "B"}}, Tag: rule}, true
	case "form1-windowstart":
		t := *fund1(c1(256411, B, B+2, 0))
		t.Tag = rule
		return "B", nil, t, true
	case "rev1-parent-windowstart":
		return "B", fund1(c1(256411, B, B+3, 0)), chain.AbsTx{Ver: 1, Rev: []chain.AbsRev{{Cid: fc1, C: raw(c1(256411, B+5, B+7, 1)), Auth: "ok"}}, Tag: rule}, true
	case "rev1-new-windowstart":
		return "B", fund1(c1(256411, B+6, B+8, 0)), chain.AbsTx{Ver: 1, Rev: []chain.AbsRev{{Cid: fc1, C: raw(c1(256411, B, B+2, 1)), Auth: "ok"}}, Tag: rule}, true
	case "prove1-windowstart":
		return "B", fund1(c1(256411, B, B+4, 0)), chain.AbsTx{Ver: 1, Res: []chain.AbsRes{{Cid: fc1, Kind: "proof", Pf: "ok"}}, Tag: rule}, true
	case "prove1-windowstart-empty":
		return "B", fund1(c1s(256411, B, B+4, 0, 0)), chain.AbsTx{Ver: 1, Res: []chain.AbsRes{{Cid: fc1, Kind: "proof", Pf: "ok"}}, Tag: rule}, true
	case "prove1-windowstart-inblock", "prove1-windowstart-empty-inblock":
		// the contract is formed by the transaction before this one in the child block (inBlockPre)
		return "B", nil, chain.AbsTx{Ver: 1, Res: []chain.AbsRes{{Cid: chain.SID{chain.FC1, int(child), 0, 1, 0}, Kind: "proof", Pf: "ok"}}, Tag: rule}, true
	case "form2-proofheight":
		t := *fund2(c2(250024, 25, B, B+2, 0))
		t.Tag = rule
		return "B", nil, t, true
	case "rev2-parent-proofheight":
		return "B", fund2(c2(250024, 25, B, B+3, 0)), chain.AbsTx{Ver: 2, Rev: []chain.AbsRev{{Cid: fc2, C: raw(c2(250024, 25, B+5, B+7, 1)), Auth: "ok"}}, Tag: rule}, true
	case "rev2-new-proofheight":
		return "B", fund2(c2(250024, 25, B+6, B+8, 0)), chain.AbsTx{Ver: 2, Rev: []chain.AbsRev{{Cid: fc2, C: raw(c2(250024, 25, B, B+2, 1)), Auth: "ok"}}, Tag: rule}, true
	case "prove2-proofheight":
		return "B", fund2(c2(250024, 25, B, B+4, 0)), chain.AbsTx{Ver: 2, Res: []chain.AbsRes{{Cid: fc2, Kind: "proof", Pf: "ok"}}, Tag: rule}, true
	case "expire2-expiration":
		if B < first+1 {
			return
		}
		return "B", fund2(c2(250024, 25, B-1, B, 0)), chain.AbsTx{Ver: 2, Res: []chain.AbsRes{{Cid: fc2, Kind: "expire", Pf: "ok"}}, Tag: rule}, true
	case "era-v1":
		return "B", nil, pay(1, gid(gPay), 7000), true
	case "era-v2":
		return "B", nil, pay(2, gid(gPay), 7000), true
	}
	return
}

type bconf struct{ Mat, Allow, Require, First, Span uint64 }

// onlyCase restricts the boundary run to one saved case (replay mode).
var onlyCase *struct {
	Conf bconf           `json:"conf"`
	Case json.RawMessage `json:"case"`
}

func replayBoundary(c *vlib.Ctx) {
	b, err := os.ReadFile(c.Replay)
	if err != nil {
		c.Fatal("replay: %v", err)
	}
	var f struct {
		What string `json:"what"`
		Case struct {
			Conf bconf           `json:"conf"`
			Case json.RawMessage `json:"case"`
		} `json:"case"`
	}
	if json.Unmarshal(b, &f) != nil || len(f.Case.Case) == 0 {
		c.Fatal("replay file holds neither a behaviour nor a boundary case")
	}
	onlyCase = &f.Case
	fmt.Printf("replaying boundary case %s in configuration %+v; required: %s must not happen\n", f.Case.Case, f.Case.Conf, f.What)
	boundaryRun(c)
	if c.NViolations() == 0 {
		fmt.Println("observed: the saved case no longer violates the property on this tree")
	}
}

func boundaryRun(c *vlib.Ctx) {
	confs := []bconf{{1, 1, 14, 1, 3}, {0, 0, 14, 1, 3}, {3, 1, 14, 1, 4}, {1, 3, 5, 3, 1}, {0, 2, 3, 2, 1}}
	if c.Thorough {
		confs = append(confs, bconf{2, 1, 16, 2, 5}, bconf{1, 4, 6, 4, 1}, bconf{3, 2, 4, 2, 1}, bconf{0, 1, 2, 1, 1}, bconf{5, 1, 20, 1, 8})
	}
	var mu sync.Mutex
	cells := map[string]int{}
	var nCases, nTime, skipped int64
	if onlyCase != nil {
		confs = []bconf{onlyCase.Conf}
	}
	for _, cf := range confs {
		cfg := fmt.Sprintf("INIT Init\nNEXT Next\nCONSTANTS MatDelay = %d AllowH = %d RequireH = %d First = %d Span = %d\nINVARIANTS Monotone\nCHECK_DEADLOCK FALSE\n",
			cf.Mat, cf.Allow, cf.Require, cf.First, cf.Span)
		res := c.MustTLC(vlib.TLCOpts{SpecDirs: []string{"ledger"}, Module: "Boundary", ConfText: cfg, Workers: 2})
		var cases struct {
			H []hcase `json:"h"`
			T []tcase `json:"t"`
		}
		found := false
		for _, ln := range res.Lines {
			if strings.HasPrefix(ln, "CASES ") {
				if err := json.Unmarshal([]byte(vlib.UnquoteTLA(strings.TrimPrefix(ln, "CASES "))), &cases); err != nil {
					c.Fatal("boundary cases do not parse: %v", err)
				}
				found = true
			}
		}
		if !found {
			c.Fatal("Boundary printed no cases")
		}
		var wg sync.WaitGroup
		sem := make(chan struct{}, 12)
		runOne := func(name string, p chain.Params, ts map[uint64]time.Time, pre *chain.AbsTx, first, child uint64, test chain.AbsTx, want bool, payload any) {
			defer wg.Done()
			defer func() { <-sem }()
			sim := chain.NewSim(p)
			sim.Timestamps = ts
			for h := uint64(1); h < child; h++ {
				st := chain.Step{Op: "block", Verdict: "accept"}
				if pre != nil && h == first {
					st.Txs = []chain.AbsTx{*pre}
				}
				r, infra := sim.RunStep(int(h), st)
				if infra != nil || len(r.Mismatches) > 0 {
					c.Infra("boundary %s: cannot build the scenario at height %d: %v %+v", name, h, infra, r.Mismatches)
					return
				}
			}
			verdict := "reject"
			if want {
				verdict = "accept"
			}
			txs := []chain.AbsTx{test}
			if ib := inBlockPre(test.Tag, boundOf(payload)); ib != nil {
				txs = []chain.AbsTx{*ib, test}
			}
			r, infra := sim.RunStep(int(child), chain.Step{Op: "block", Verdict: verdict, Txs: txs})
			if infra != nil {
				c.Infra("boundary %s: %v", name, infra)
				return
			}
			mu.Lock()
			cells[fmt.Sprintf("%s:%s", test.Tag, verdict)]++
			mu.Unlock()
			for _, m := range r.Mismatches {
				switch m.Kind {
				case "accepted-invalid":
					c.Violation("boundary/"+test.Tag+"/accepted-before-bound", fmt.Sprintf("%s: transaction accepted in the child of height %d although the rule admits it only on the other side of %s", name, child-1, name), payload)
				case "rejected-valid":
					c.Violation("boundary/"+test.Tag+"/rejected-at-bound", fmt.Sprintf("%s: transaction rejected (%s) in the child of height %d although the rule admits it", name, m.Detail, child-1), payload)
				case "panic":
					fmt.Printf("NOTE: boundary %s panicked (%s): belongs to C10\n", name, m.Detail)
				default:
					c.Infra("boundary %s: %+v", name, m)
				}
			}
		}
		for _, hc := range cases.H {
			if onlyCase != nil {
				js, _ := json.Marshal(hc)
				if !sameJSON(js, onlyCase.Case) {
					continue
				}
			}
			p := chain.Params{MatDelay: cf.Mat, AllowH: cf.Allow, RequireH: cf.Require, EphH: 0, FoundH: 1000, Reward: 500,
				GenSF: []chain.AbsOut{{7000, "A"}, {3000, "B"}}}
			lock, pre, test, ok := scenario(hc.Rule, hc.B, hc.Child, cf.First)
			first := cf.First
			if hc.Rule == "mat-v1" || hc.Rule == "mat-v2" {
				// the miner payout of block b matures at b + MatDelay
				if hc.B < cf.Mat+1 || hc.B-cf.Mat >= hc.Child {
					skipped++
					continue
				}
				b := hc.B - cf.Mat
				ver := 1
				if hc.Rule == "mat-v2" {
					ver = 2
				}
				test = chain.AbsTx{Ver: ver, Sci: []chain.AbsIn{in(chain.SID{chain.MINER, int(b), 0, 0, 0})}, Sco: []chain.AbsOut{{500, "B"}}, Tag: hc.Rule}
				lock, ok = "B", true
			}
			if !ok {
				skipped++
				continue
			}
			if pre != nil && ((pre.Ver == 1 && first >= cf.Require) || (pre.Ver == 2 && first < cf.Allow) || first >= hc.Child) {
				skipped++
				continue
			}
			if strings.HasPrefix(hc.Rule, "uclock-v1-sf") {
				p.GenSF = []chain.AbsOut{{7000, "A"}, {3000, lock}}
			}
			p.GenSC = []chain.AbsOut{{600000, "A"}, {5000, lock}, {7000, "A"}}
			name := fmt.Sprintf("%s B=%d child=%d (mat %d allow %d require %d)", hc.Rule, hc.B, hc.Child, cf.Mat, cf.Allow, cf.Require)
			nCases++
			wg.Add(1)
			sem <- struct{}{}
			go runOne(name, p, nil, pre, first, hc.Child, test, hc.OK, map[string]any{"conf": cf, "case": hc})
		}
		if cf.Allow <= 1 {
			for _, tc := range cases.T {
				if onlyCase != nil {
					js, _ := json.Marshal(tc)
					if !sameJSON(js, onlyCase.Case) {
						continue
					}
				}
				// block i (height i) carries ts[i+1]; the transaction is presented in the child of the tip n-1
				ts := map[uint64]time.Time{}
				for i := 1; i < len(tc.TS); i++ {
					ts[uint64(i)] = chain.GenesisTime.Add(time.Duration(tc.TS[i]-tc.TS[0]) * time.Second)
				}
				child := uint64(tc.N)
				ts[child] = ts[child-1].Add(time.Hour)
				if child == 1 {
					ts[child] = chain.GenesisTime.Add(time.Hour)
				}
				lockName := fmt.Sprintf("Q%d", tc.Lock-tc.TS[0])
				if tc.Lock-tc.TS[0] < 0 {
					skipped++
					continue
				}
				p := chain.Params{MatDelay: cf.Mat, AllowH: cf.Allow, RequireH: cf.Require, EphH: 0, FoundH: 1000, Reward: 500,
					GenSF: []chain.AbsOut{{7000, "A"}, {3000, "B"}}, GenSC: []chain.AbsOut{{600000, "A"}, {5000, lockName}, {7000, "A"}}}
				test := chain.AbsTx{Ver: 2, Sci: []chain.AbsIn{in(gid(gLock))}, Sco: []chain.AbsOut{{5000, "B"}}, Tag: "after-v2"}
				name := fmt.Sprintf("after-v2 pattern=%s n=%d lock=%d", tc.Pattern, tc.N, tc.Lock)
				nTime++
				wg.Add(1)
				sem <- struct{}{}
				go runOne(name, p, ts, nil, 0, child, test, tc.OK, map[string]any{"conf": cf, "case": tc})
			}
		}
		wg.Wait()
	}
	if onlyCase != nil {
		return
	}
	c.Cov("boundary_height_cases", nCases)
	c.Cov("boundary_time_cases", nTime)
	c.Cov("boundary_cases_not_constructible", skipped)
	c.Cov("boundary_cells", cells)
	c.Traces(nCases + nTime)
	c.Count(nCases+nTime, nCases+nTime)
	for _, r := range []string{"mat-v1", "mat-v2", "uclock-v1-sc", "uclock-v1-sf", "siglock-v1", "uclock-v2", "above-v2", "after-v2",
		"form1-windowstart", "rev1-parent-windowstart", "rev1-new-windowstart", "prove1-windowstart", "form2-proofheight",
		"prove1-windowstart-empty", "prove1-windowstart-inblock", "prove1-windowstart-empty-inblock",
		"rev2-parent-proofheight", "rev2-new-proofheight", "prove2-proofheight", "expire2-expiration", "era-v1", "era-v2"} {
		if cells[r+":accept"] == 0 || cells[r+":reject"] == 0 {
			c.Infra("vacuity: boundary rule %s: %d accepted, %d rejected cases", r, cells[r+":accept"], cells[r+":reject"])
		}
	}
}




// boundOf extracts the bound B of a height case from its payload.
func boundOf(payload any) uint64 {
	if m, ok := payload.(map[string]any); ok {
		if hc, ok := m["case"].(hcase); ok {
			return hc.B
		}
	}
	return 0
}

func sameJSON(a, b []byte) bool {
	var x, y any
	if json.Unmarshal(a, &x) != nil || json.Unmarshal(b, &y) != nil {
		return false
	}
	ja, _ := json.Marshal(x)
	jb, _ := json.Marshal(y)
	return string(ja) == string(jb)
}
