// C08 — Height- and time-dependent rules flip exactly at their boundaries.
//
// Part 1 (contract windows, maturity, eras — through the Ledger model):
//   TLC simulates behaviours of Ledger.tla over a lattice of network configurations (maturity delay 0/1/3,
//   allow / require / ephemeral-fix heights between 1 and 6) with the timing defect families: every revision,
//   proof and expiration of every live contract at every height (the transcribed validation keeps the invalid
//   ones: window already open, proof height passed, block at the proof height not yet an ancestor, not yet
//   expired), immature outputs, formation with a window in the past, transactions of the wrong era. The real
//   ValidateBlock must reject each; and the transactions the specification accepts exactly at the flipping
//   height (slack 0) must be accepted — counted per rule so that "neither early nor late" is exercised.
// Part 2 (locks — spec/ledger/Boundary.tla): see boundary.go.
package main

import (
	"fmt"
	"sync"
	"time"

	"verif/harness/chain"
	"verif/harness/vlib"
)


func main() {
	c := vlib.Start("C08")
	c.Rule("Part 1: TLC -simulate behaviours of Ledger.tla with the timing defect families on a lattice of network configurations; a timing case is a block whose last transaction violates exactly one height rule (control block accepted by the real code) or a template transaction accepted at slack 0 (exactly at the flipping height). Part 2: every (rule, configuration, bound, offset in -2..+1) case of Boundary.tla executed on a real chain. distinct_nontrivial = rejected-at-bound-minus-k cases with accepted control + accepted-at-bound cases.")
	c.Assume("honest-store model for v1 supplements (a v1 proof needs the block at WindowStart-1 to exist)")

	mc := chain.BaseConfig(chain.Shapes()["v2only"])
	mc.MaxHeight, mc.MaxTxns, mc.MaxReverts = 3, 1, 0
	mc.Templates = []string{"form2", "rev2", "res2"}
	mc.Defects = []string{"timing", "immature"}
	mc.PayAmts, mc.FormRH, mc.P.GenSC = []int{599}, [][2]int{{250024, 25}}, []chain.AbsOut{{300000, "A"}, {1199, "B"}}
	mc.Invariants = []string{"Conservation", "NoDoubleUse"}
	r := chain.ModelCheck(c, mc, 10*time.Minute)
	c.Cov("mc_states", r.Distinct)

	var mu sync.Mutex
	rejected := map[string]int{} // timing defect cell -> rejected with accepted control
	atBound := map[string]int{}  // template -> accepted at slack 0
	past := map[string]int{}     // template -> accepted at slack > 0
	opts := chain.RunOpts{Num: c.Pick(120, 2500), Depth: 64, Timeout: 20 * time.Minute,
		KeyOf: func(m chain.Mismatch) string { return m.Kind + "/" + m.Tag },
		Hook: func(sim *chain.Sim, beh *chain.Behaviour, i int, st chain.Step, res chain.StepResult) {
			if st.Op != "block" || len(res.Mismatches) > 0 {
				return
			}
			mu.Lock()
			defer mu.Unlock()
			if st.Verdict == "reject" {
				t := st.Txs[len(st.Txs)-1]
				rejected[fmt.Sprintf("v%d:%s", t.Ver, t.Tag)]++
				return
			}
			for _, t := range st.Txs {
				k := fmt.Sprintf("v%d:%s", t.Ver, t.Tag)
				switch {
				case t.Slack == 0:
					atBound[k]++
				case t.Slack > 0:
					past[k]++
				}
			}
		},
	}
	if c.Replay != "" {
		if !chain.Replay(c, opts) {
			replayBoundary(c)
		}
		c.Finish()
	}
	type lat struct{ mat, allow, require, eph uint64 }
	lattice := []lat{{0, 100, 101, 102}, {1, 2, 4, 3}, {3, 1, 3, 1}, {1, 3, 6, 4}, {0, 0, 1, 0}, {3, 0, 1, 2}}
	if c.Thorough {
		for _, m := range []uint64{0, 1, 3} {
			for a := uint64(1); a <= 4; a++ {
				for _, d := range []uint64{1, 2} {
					lattice = append(lattice, lat{m, a, a + d, a + 1})
				}
			}
		}
	}
	total := chain.RunStats{}
	for _, l := range lattice {
		p := chain.Shapes()["mixed"]
		p.MatDelay, p.AllowH, p.RequireH, p.EphH = l.mat, l.allow, l.require, l.eph
		cfg := chain.BaseConfig(p)
		cfg.Templates = []string{"pay", "form1", "rev1", "prove1", "form2", "rev2", "res2", "renew2", "sf"}
		cfg.Defects = []string{"timing", "immature", "era", "formation"}
		cfg.Pay1, cfg.Sizes, cfg.FormRH, cfg.PayAmts, cfg.Fees = []int{256411}, []int{200}, [][2]int{{250024, 25}}, []int{599}, []int{0}
		cfg.MaxHeight = 9
		o := opts
		o.NoFocus = false
		st := chain.Run(c, cfg, o)
		total.Behaviours += st.Behaviours
		total.Steps += st.Steps
	}
	// the developer-address override: allowed from the fork height on, and not before the new conditions' own time lock
	for _, dl := range [][2]uint64{{3, 4}, {4, 2}, {2, 2}} {
		p := chain.Shapes()["devaddr"]
		p.DevH, p.DevLock = dl[0], dl[1]
		cfg := chain.BaseConfig(p)
		cfg.Templates = []string{"pay", "sf"}
		cfg.Defects = []string{"timing"}
		cfg.PayAmts, cfg.Fees = []int{599}, []int{0}
		cfg.MaxHeight = 6
		o := opts
		o.NoFocus = false
		st := chain.Run(c, cfg, o)
		total.Behaviours += st.Behaviours
		total.Steps += st.Steps
	}
	c.Cov("lattice_points", len(lattice))
	c.Cov("rejected_with_accepted_control", rejected)
	c.Cov("accepted_exactly_at_bound", atBound)
	c.Cov("accepted_past_bound", past)
	nontriv := int64(0)
	for _, v := range rejected {
		nontriv += int64(v)
	}
	for _, v := range atBound {
		nontriv += int64(v)
	}
	c.Traces(int64(total.Behaviours))
	c.Count(int64(total.Steps), nontriv)
	for _, need := range []string{"v2:proof!timing", "v2:expire!timing", "v2:rev2!timing", "v1:rev1!timing", "v1:prove1!timing", "v1:immature", "v2:immature", "v2:immature!mislabel", "v1:pay!era", "v2:pay!era", "v1:sfdev!timing"} {
		if rejected[need] == 0 {
			c.Infra("vacuity: timing defect %s never rejected-with-accepted-control", need)
		}
	}
	boundaryRun(c)
	c.Finish()
}
