package main

// Trusted base of the C16 harness: the evaluator of the specification's hash
// terms with the real hash primitives.
//
//	L<i>     leaf i of the environment (a sector root, or blake2b.SumLeaf of 64 bytes of sector data)
//	A<i>     i-th appended sector root of the environment
//	N(l,r)   blake2b.SumPair(l, r)
//	Z        the zero hash
//	R(i,j)   Root over the leaves i..j-1 as defined in RHPMerkle.tla: nothing -> Z, one leaf -> the
//	         leaf, otherwise split at the largest power of two below the length
//
// R(i,j) is cross-checked against fully expanded TLC terms (MerkleXcheck) in every run.

import (
	"fmt"
	"math/bits"
	"strconv"

	"go.sia.tech/core/blake2b"
	"go.sia.tech/core/types"
)

type env struct {
	leaves []types.Hash256
	apps   []types.Hash256
	memoR  map[uint64]types.Hash256
	memoT  map[string]types.Hash256
	pairs  int64 // SumPair evaluations (for the evidence)
}

func newEnv(leaves, apps []types.Hash256) *env {
	return &env{leaves: leaves, apps: apps, memoR: map[uint64]types.Hash256{}, memoT: map[string]types.Hash256{}}
}

// plainRoot is the specification's Root(L, lo, hi), memoised.
func (e *env) plainRoot(lo, hi int) types.Hash256 {
	if hi <= lo {
		return types.Hash256{}
	}
	if hi-lo == 1 {
		return e.leaves[lo]
	}
	k := uint64(lo)<<32 | uint64(hi)
	if h, ok := e.memoR[k]; ok {
		return h
	}
	sp := 1 << (bits.Len(uint(hi-lo-1)) - 1)
	e.pairs++
	h := types.Hash256(blake2b.SumPair(e.plainRoot(lo, lo+sp), e.plainRoot(lo+sp, hi)))
	e.memoR[k] = h
	return h
}

// plainRootOf is the same definition over a list of its own, without memo (the list of sector roots after a
// write, which is not a sub-range of the environment).
func plainRootOf(l []types.Hash256) types.Hash256 {
	switch len(l) {
	case 0:
		return types.Hash256{}
	case 1:
		return l[0]
	}
	sp := 1 << (bits.Len(uint(len(l)-1)) - 1)
	return blake2b.SumPair(plainRootOf(l[:sp]), plainRootOf(l[sp:]))
}

type parser struct {
	s string
	p int
	e *env
}

func (e *env) eval(term string) (types.Hash256, error) {
	if h, ok := e.memoT[term]; ok {
		return h, nil
	}
	ps := &parser{s: term, e: e}
	h, err := ps.term()
	if err == nil && ps.p != len(term) {
		err = fmt.Errorf("trailing text at %d in %q", ps.p, term)
	}
	if err == nil {
		e.memoT[term] = h
	}
	return h, err
}

func (e *env) mustEval(term string) types.Hash256 {
	h, err := e.eval(term)
	if err != nil {
		panic(fmt.Sprintf("term evaluator: %v", err))
	}
	return h
}

func (e *env) evalList(terms []string) []types.Hash256 {
	out := make([]types.Hash256, len(terms))
	for i, t := range terms {
		out[i] = e.mustEval(t)
	}
	return out
}

func (ps *parser) num() (int, error) {
	st := ps.p
	for ps.p < len(ps.s) && ps.s[ps.p] >= '0' && ps.s[ps.p] <= '9' {
		ps.p++
	}
	if st == ps.p {
		return 0, fmt.Errorf("number expected at %d in %q", st, ps.s)
	}
	return strconv.Atoi(ps.s[st:ps.p])
}

func (ps *parser) expect(c byte) error {
	if ps.p >= len(ps.s) || ps.s[ps.p] != c {
		return fmt.Errorf("%q expected at %d in %q", c, ps.p, ps.s)
	}
	ps.p++
	return nil
}

func (ps *parser) term() (h types.Hash256, err error) {
	if ps.p >= len(ps.s) {
		return h, fmt.Errorf("unexpected end of %q", ps.s)
	}
	c := ps.s[ps.p]
	ps.p++
	switch c {
	case 'Z':
		return types.Hash256{}, nil
	case 'L', 'A':
		i, err := ps.num()
		if err != nil {
			return h, err
		}
		src := ps.e.leaves
		if c == 'A' {
			src = ps.e.apps
		}
		if i >= len(src) {
			return h, fmt.Errorf("%c%d outside the environment (%d)", c, i, len(src))
		}
		return src[i], nil
	case 'N':
		if err = ps.expect('('); err != nil {
			return
		}
		l, err := ps.term()
		if err != nil {
			return h, err
		}
		if err = ps.expect(','); err != nil {
			return h, err
		}
		r, err := ps.term()
		if err != nil {
			return h, err
		}
		if err = ps.expect(')'); err != nil {
			return h, err
		}
		ps.e.pairs++
		return blake2b.SumPair(l, r), nil
	case 'R':
		if err = ps.expect('('); err != nil {
			return
		}
		i, err := ps.num()
		if err != nil {
			return h, err
		}
		if err = ps.expect(','); err != nil {
			return h, err
		}
		j, err := ps.num()
		if err != nil {
			return h, err
		}
		if err = ps.expect(')'); err != nil {
			return h, err
		}
		if i > j || j > len(ps.e.leaves) {
			return h, fmt.Errorf("R(%d,%d) outside the environment (%d)", i, j, len(ps.e.leaves))
		}
		return ps.e.plainRoot(i, j), nil
	}
	return h, fmt.Errorf("unknown symbol %q at %d in %q", c, ps.p-1, ps.s)
}
