// C16 — RHP Merkle roots and proofs are complete, sound and implementation-independent.
//
//  1. TLC checks spec/merkle/RHPMerkle.tla exhaustively: the plain definitions (Root, range proof,
//     multi-index proof, append proof, meaning of write actions) against the transcriptions of the
//     builders, size formulas and verifiers of rhp/v2 and rhp/v4, completeness, and the corruption
//     catalogue with the element count held true; and prints, per case, the expected proof and roots
//     as symbolic hash terms (sector level: subtree shapes R(i,j) for the ranges this harness passes in).
//  2. The Go side (goside.go) evaluates the terms with the real hash primitives and compares them with
//     what the real builders return; the real verifiers must accept the honest proof with the right
//     roots and reject every corruption of the catalogue; the optimised root functions must equal the
//     plain root. It runs in child processes: default CPU features, GODEBUG=cpu.avx2=off, and (sector
//     roots only) a restricted CPU set, which changes the fan-out of SectorRoot.
//
// Verdicts come from the real code only; a failure inside a TLC model is an infrastructure error.
package main

import (
	"context"
	"encoding/json"
	"fmt"
	"math/rand"
	"os"
	"os/exec"
	"path/filepath"
	"sort"
	"strings"
	"sync"
	"time"

	"verif/harness/vlib"
)

const LPS = 65536

type tierCfg struct {
	rangeN                  int
	freeN, freePermK        int
	appendN, appendK        int
	writes                  [][3]int // N, LW, MaxTrim
	xcheckN                 int
	nSectors, nRandomRanges int
	primN                   int
	minCorrupt              int64
	streamN                 string // MerkleStream<streamN>.cfg: exhaustive small-sector model of the streaming verifier
	streamStates            int64
	nStreamLong, nStreamRnd int
	// MerkleLarge<largeCfg>.cfg and its constants, mirrored here for the independent state count
	largeCfg     string
	largeKs      []int
	largeD       int
	largeBatches []int
}

func cfgFor(thorough bool) tierCfg {
	if thorough {
		return tierCfg{rangeN: 56, freeN: 11, freePermK: 4, appendN: 128, appendK: 6, writes: [][3]int{{5, 3, 2}, {3, 4, 3}},
			xcheckN: 16, nSectors: 4, nRandomRanges: 400, primN: 200000, minCorrupt: 200,
			streamN: "16", nStreamLong: 60, nStreamRnd: 200,
			largeCfg: "T", largeKs: []int{15, 16, 17, 18}, largeD: 2, largeBatches: []int{1, 2, 3, 5, 8}}
	}
	return tierCfg{rangeN: 32, freeN: 8, freePermK: 4, appendN: 64, appendK: 4, writes: [][3]int{{4, 3, 2}},
		xcheckN: 16, nSectors: 3, nRandomRanges: 36, primN: 20000, minCorrupt: 50,
		streamN: "8", nStreamLong: 9, nStreamRnd: 24,
		largeCfg: "Q", largeKs: []int{16, 17}, largeD: 1, largeBatches: []int{1, 2, 5}}
}

func parseLines[T any](c *vlib.Ctx, res *vlib.TLCResult, tag string) []T {
	var out []T
	for _, ln := range res.Lines {
		if !strings.HasPrefix(ln, tag+" ") {
			continue
		}
		var v T
		if err := json.Unmarshal([]byte(vlib.UnquoteTLA(ln[len(tag)+1:])), &v); err != nil {
			c.Fatal("cannot parse TLC line %q: %v", vlib.Tail(ln, 300), err)
		}
		out = append(out, v)
	}
	return out
}

func fact(k int) int64 {
	r := int64(1)
	for i := 2; i <= k; i++ {
		r *= int64(i)
	}
	return r
}

func binom(n, k int) int64 {
	r := int64(1)
	for i := 1; i <= k; i++ {
		r = r * int64(n-k+i) / int64(i)
	}
	return r
}

// number of non-empty admissible action lists of MerkleWrite (mirrors its Next)
func writeCount(cur, left, maxTrim int) int64 {
	if left == 0 {
		return 0
	}
	var total int64
	total += 1 + writeCount(cur+1, left-1, maxTrim) // append
	for k := 1; k <= maxTrim && k <= cur; k++ {
		total += 1 + writeCount(cur-k, left-1, maxTrim)
	}
	swaps := int64(cur * (cur + 1) / 2)
	total += swaps * (1 + writeCount(cur, left-1, maxTrim))
	return total
}

func sectorFor(i, ns int) int {
	if ns < 2 || i%2 == 0 {
		return 0
	}
	return 1 + (i/2)%(ns-1)
}

type childRun struct {
	label string
	env   []string
	wrap  []string
	res   *Result
	err   error
	wall  time.Duration
}

func runChild(c *vlib.Ctx, cr *childRun, exp *Expect, timeout time.Duration) {
	t0 := time.Now()
	expPath := filepath.Join(c.Work, "exp-"+cr.label+".json")
	outPath := filepath.Join(c.Work, "res-"+cr.label+".json")
	b, _ := json.Marshal(exp)
	if err := os.WriteFile(expPath, b, 0o644); err != nil {
		cr.err = err
		return
	}
	self, err := os.Executable()
	if err != nil {
		cr.err = err
		return
	}
	ctx, cancel := context.WithTimeout(context.Background(), timeout)
	defer cancel()
	args := append(append([]string{}, cr.wrap...), self, "-goside", expPath, outPath)
	cmd := exec.CommandContext(ctx, args[0], args[1:]...)
	var env []string
	for _, e := range os.Environ() {
		if !strings.HasPrefix(e, "GODEBUG=") {
			env = append(env, e)
		}
	}
	cmd.Env = append(env, cr.env...)
	out, err := cmd.CombinedOutput()
	cr.wall = time.Since(t0)
	if err != nil {
		cr.err = fmt.Errorf("child %s: %v: %s", cr.label, err, vlib.Tail(string(out), 1500))
		return
	}
	rb, err := os.ReadFile(outPath)
	if err != nil {
		cr.err = fmt.Errorf("child %s wrote no result: %v: %s", cr.label, err, vlib.Tail(string(out), 800))
		return
	}
	cr.res = &Result{}
	if err := json.Unmarshal(rb, cr.res); err != nil {
		cr.err = fmt.Errorf("child %s result unreadable: %v", cr.label, err)
	}
}

func sectorParams(r *rand.Rand, cfg tierCfg) (ranges [][2]int, roots []int) {
	L := LPS
	boundary := [][2]int{{0, 1}, {0, L}, {L - 1, L}, {1, 2}, {0, 2}, {1, 3}, {63, 65}, {64, 128}, {0, 64}, {100, 200}, {32768, 32769},
		{32767, 32769}, {32767, 32768}, {1, L}, {0, L - 1}, {1, L - 1}, {12345, 23456}, {4095, 4097}, {4096, 8192}, {16384, 49152},
		{0x5555, 0x5556}, {0xAAAA, 0xAAAB}, {0, 32768}, {32768, L}, {L - 2, L}, {65534, 65535}}
	for _, b := range boundary { // each boundary range on the random sector and on one other
		ranges = append(ranges, b, b)
	}
	for i := 0; i < cfg.nRandomRanges; i++ {
		var s, e int
		switch i % 4 {
		case 0: // uniform
			s = r.Intn(L)
			e = s + 1 + r.Intn(L-s)
		case 1: // short
			s = r.Intn(L)
			e = s + 1 + r.Intn(100)
			if e > L {
				e = L
			}
		case 2: // single leaf
			s = r.Intn(L)
			e = s + 1
		default: // aligned to a power of two
			k := uint(r.Intn(12))
			s = r.Intn(L>>k) << k
			e = s + (1+r.Intn(4))<<k
			if e > L {
				e = L
			}
		}
		ranges = append(ranges, [2]int{s, e})
	}
	roots = []int{0, 1, 2, 3, 4, 5, 6, 7, 8, 9, 11, 12, 13, 15, 16, 17, 31, 32, 33, 63, 64, 65, 100, 255, 256, 257, 1000, 1023, 1024, 1025,
		4095, 4096, 4097, 16383, 16385, 32767, 32768, 32769, 65535, 65536, 65537, 70000}
	for i := 0; i < cfg.nRandomRanges/4; i++ {
		roots = append(roots, 1+r.Intn(L))
	}
	return
}

// streamParams: the cases of the streaming verifier at sector level. Honest ranges [s,e): EVERY pair with
// s and e within 8 leaves of the same anchor 0, 32768 (the middle) or 65536 (so the first and the last leaves
// of a sector are always there), a seeded sample of ranges reaching from one anchor to another and of short
// ranges anywhere. For each of them: the claimed end altered by every d in -8..8, the claimed start altered
// likewise, both shifted, each with the honest data and the honest proof of [s,e) and with the honest proof
// of the claimed range; the stream cut at every subtree boundary of the claimed range's walk (including
// "nothing"), in the middle of a leaf and one leaf short; over-long streams.
type streamParam struct{ s, e, s2, e2, ln, pf int }

func nextSubtree(i, j int) int {
	ideal := 1 << 30
	if i != 0 {
		ideal = i & -i
	}
	mx := 1
	for mx*2 <= j-i {
		mx *= 2
	}
	if ideal > mx {
		return mx
	}
	return ideal
}

func streamParams(r *rand.Rand, cfg tierCfg) (out []streamParam) {
	const L = LPS
	type rg struct {
		s, e int
		full bool
	}
	var hon []rg
	near := func(a int) (ps []int) {
		for x := a - 8; x <= a+8; x++ {
			if x >= 0 && x <= L {
				ps = append(ps, x)
			}
		}
		return
	}
	anchors := []int{0, L / 2, L}
	for _, a := range anchors {
		for _, s := range near(a) {
			for _, e := range near(a) {
				if s < e {
					hon = append(hon, rg{s, e, true})
				}
			}
		}
	}
	for i := 0; i < cfg.nStreamLong; i++ {
		a, b := [][2]int{{0, L / 2}, {L / 2, L}, {0, L}}[i%3][0], [][2]int{{0, L / 2}, {L / 2, L}, {0, L}}[i%3][1]
		pa, pb := near(a), near(b)
		s, e := pa[r.Intn(len(pa))], pb[r.Intn(len(pb))]
		if s == L {
			s = L - 1
		}
		hon = append(hon, rg{s, e, false})
	}
	for i := 0; i < cfg.nStreamRnd; i++ {
		s := r.Intn(L)
		e := s + 1 + r.Intn(16)
		if i%3 == 0 { // ends at the end of an aligned block of 2^k leaves
			k := uint(4 + r.Intn(12))
			blk := (1 + r.Intn(L>>k)) << k
			s = blk - 1 - r.Intn(12)
			e = s + 1 + r.Intn(blk-s)
		}
		if e > L {
			e = L
		}
		hon = append(hon, rg{s, e, true})
	}
	seen := map[streamParam]bool{}
	add := func(p streamParam) {
		if p.s2 < 0 || p.e2 > L || p.s2 >= p.e2 || p.ln < 0 || seen[p] {
			return
		}
		seen[p] = true
		out = append(out, p)
	}
	for _, h := range hon {
		s, e := h.s, h.e
		full := 64 * (e - s)
		if !h.full { // long ranges: a few alterations each (every one hashes megabytes)
			for _, d := range []int{1 + r.Intn(8), -1 - r.Intn(8)} {
				add(streamParam{s, e, s, e + d, full, 0})
				add(streamParam{s, e, s, e + d, full, 1})
				add(streamParam{s, e, s + d, e, full, r.Intn(2)})
			}
			add(streamParam{s, e, s, e, full - 64, 0})
			add(streamParam{s, e, s, e, full + 64, 0})
			continue
		}
		for d := -8; d <= 8; d++ {
			if d == 0 {
				continue
			}
			for pf := 0; pf < 2; pf++ {
				add(streamParam{s, e, s, e + d, full, pf})
				add(streamParam{s, e, s + d, e, full, pf})
			}
			if d >= -2 && d <= 2 {
				add(streamParam{s, e, s + d, e + d, full, 0})
				add(streamParam{s, e, s + d, e + d, full, 1})
			}
		}
		// cut points of the claimed walk, for the honest claim and for every later claimed end
		for e2 := e; e2 <= e+8 && e2 <= L; e2++ {
			for i := s; i < e2; i += nextSubtree(i, e2) {
				add(streamParam{s, e, s, e2, 64 * (i - s), 1})
				if e2 == e || i-s == e-s {
					add(streamParam{s, e, s, e2, 64 * (i - s), 0})
				}
			}
		}
		add(streamParam{s, e, s, e, full, 0})
		for _, ln := range []int{full - 1, full - 63, full - 64, full - 65, full + 1, full + 64, full + 64*7 + 13} {
			add(streamParam{s, e, s, e, ln, 0})
		}
	}
	return
}

// largeShape mirrors the case sets of MerkleLarge.tla (Counts, Marks, FreedLists): the sizes, and per size
// the number of range starts, of ranges and of freed index lists.
func largeShape(cfg tierCfg) (counts []int, starts, ranges, frees map[int]int) {
	starts, ranges, frees = map[int]int{}, map[int]int{}, map[int]int{}
	seen := map[int]bool{}
	for _, k := range cfg.largeKs {
		p := 1 << uint(k)
		for _, n := range []int{p - 1, p, p + 1, p + 3, p + p/16 + 3} {
			if !seen[n] {
				seen[n] = true
				counts = append(counts, n)
			}
		}
	}
	sort.Ints(counts)
	for _, n := range counts {
		top := 1
		for top*2 < n {
			top *= 2
		}
		marks := map[int]bool{}
		for _, a := range []int{0, LPS, n, top, n / 3} {
			for d := -cfg.largeD; d <= cfg.largeD; d++ {
				if x := a + d; x >= 0 && x <= n {
					marks[x] = true
				}
			}
		}
		for s := range marks {
			if s < n {
				starts[n]++
				for e := range marks {
					if e > s {
						ranges[n]++
					}
				}
			}
		}
		lists := map[string]bool{}
		for _, q := range [][]int{{0}, {LPS - 1}, {LPS}, {n - 1}, {top}, {top - 1}, {LPS - 1, LPS}, {LPS, LPS - 1}, {n - 1, 0}, {n - 1, n - 2},
			{0, LPS, n - 1}, {LPS + 1, 1, LPS - 2}, {n - 2, LPS, 0, n - 1}} {
			ok := true
			for i, x := range q {
				if x < 0 || x >= n {
					ok = false
				}
				for _, y := range q[:i] {
					if x == y {
						ok = false
					}
				}
			}
			if ok {
				lists[fmt.Sprint(q)] = true
			}
		}
		frees[n] = len(lists)
	}
	return
}

func main() {
	if len(os.Args) >= 4 && os.Args[1] == "-goside" {
		runSide(os.Args[2], os.Args[3])
		return
	}
	c := vlib.Start("C16")
	cfg := cfgFor(c.Thorough)
	c.Rule("TLC enumerates: every (n<=N,s,e) sector-root range; every non-empty set of freed sectors of n<=N (<=PermK indices in every order, larger ones in 3 orders); every (n<=N, batch<=K) append; every admissible list of <=LW mixed write actions on n<=N sectors; sector level: boundary and seeded random (s,e) leaf ranges and leaf counts handed to TLC in a params file. One case = one such tuple with the proof and roots printed by TLC, executed on the real builders/verifiers/root functions once per CPU path. Streaming verifier: TLC checks exhaustively on a sector of 8 (thorough: 16) leaves that the transcription of ReadFrom+Verify accepts exactly the honest (claimed range, data read, proof) for every claimed range, every stream length and every foreign leaf; at sector level every honest range with both ends within 8 leaves of 0, of 32768 or of 65536 (plus seeded long and random ones) is verified under every claimed end and start altered by up to 8, with streams cut at every subtree boundary of the claimed walk, inside a leaf, and over-long, with the model's verdict printed by TLC per case (non-trivial: every such case except the unaltered honest one). Large sector-root trees (a contract is not bounded by the 65536 leaves of a sector): TLC enumerates, for every sector count n within 3 of a power of two 2^k and the ragged count 2^k+2^(k-4)+3 (k = 16, 17; thorough: 15..18), every range [s,e) whose ends lie within D=1 (thorough 2) of 0, of index 65536, of n, of the top split of the tree and of n/3, append batches and freed index lists drawn from the same anchors, with the proofs as compact terms and its transcribed verifiers run on intervals; each is executed on the real builders and verifiers over synthetic roots. Non-trivial = distinct case whose expected proof has at least one hash and on which at least one corruption was applied (free/write cases: every case; root cases: more than one leaf).")
	c.Assume("hash terms are injective by construction: everything TLC proves is relative to collision resistance of BLAKE2b")
	c.Assume("trusted base: the term evaluator of harness/cmd/c16/term.go (N(l,r)=SumPair, L<i>=leaf, R(i,j)=plain recursive root; cross-checked against expanded TLC terms for every 0<=i<j<=16), blake2b.SumLeaf/SumPair as the hash (compared with golang.org/x/crypto blake2b-256 of prefix||block)")
	c.Assume("soundness is claimed only with the true element count handed to the verifier")
	c.Assume("large sector-root trees: the freed-list patch printed by TLC is applied to the list of roots by the harness and its root computed with the plain recursive definition (term.go plainRootOf, cross-checked against R(0,n))")
	c.Assume("MaxHeight=24 accumulator slots modelled (code: 64); INF=2^30 stands for MaxUint64")

	if c.Replay != "" {
		replay(c, cfg)
		return
	}

	exp := &Expect{Seed: c.Seed, Tier: c.Tier, NSectors: cfg.nSectors, PrimN: cfg.primN}
	// the configurations are the .cfg files of spec/merkle; the expected number of states is
	// computed here independently, so a model that silently stops short is not a pass
	tlc := func(module, cfgFile string, want int64, what string) *vlib.TLCResult {
		res, err := c.TLC(vlib.TLCOpts{SpecDirs: []string{"merkle"}, Module: module, Config: cfgFile, Workers: 4, Timeout: 14 * time.Minute, Xss: "64m"})
		if err != nil {
			c.Fatal("%s: %v", what, err)
		}
		if res.Violated != "" {
			c.Fatal("model-internal failure in %s/%s (%s): %s", module, cfgFile, res.Violated, tailNoData(res.Out))
		}
		if res.Distinct != want {
			c.Fatal("%s: TLC visited %d states, expected %d", what, res.Distinct, want)
		}
		return res
	}

	// 1a. evaluator cross-check material
	xcheckJob := func() {
		n := cfg.xcheckN
		res := tlc("MerkleXcheck", "MerkleXcheck.cfg", int64(1+n+n*(n+1)/2), "xcheck")
		exp.Xcheck = parseLines[XCase](c, res, "XC")
		if len(exp.Xcheck) != n*(n+1)/2+1 {
			c.Fatal("xcheck: %d terms, expected %d", len(exp.Xcheck), n*(n+1)/2+1)
		}
	}
	// 1b. range proofs
	rangeJob := func() {
		n := cfg.rangeN
		cases := int64(0)
		for i := 1; i <= n; i++ {
			cases += int64(i * (i + 1) / 2)
		}
		res := tlc("MerkleRange", fmt.Sprintf("MerkleRange%d.cfg", n), 1+int64(n)+int64(n*(n+1)/2)+cases, "range proofs")
		exp.Range = parseLines[RangeCase](c, res, "RP")
		if int64(len(exp.Range)) != cases {
			c.Fatal("range: %d cases printed, expected %d", len(exp.Range), cases)
		}
		c.Cov("tlc_range_cases", cases)
	}
	// 1c. free sectors
	freeJob := func() {
		n, pk := cfg.freeN, cfg.freePermK
		var cases, masks int64
		for i := 1; i <= n; i++ {
			masks += 1<<uint(i) - 1
			for k := 1; k <= i; k++ {
				if k <= pk {
					cases += binom(i, k) * fact(k)
				} else {
					cases += binom(i, k) * 3
				}
			}
		}
		res := tlc("MerkleFree", fmt.Sprintf("MerkleFree%d.cfg", n), 1+int64(n)+masks+cases, "free-sector proofs")
		exp.Free = parseLines[FreeCase](c, res, "FR")
		if int64(len(exp.Free)) != cases {
			c.Fatal("free: %d cases printed, expected %d", len(exp.Free), cases)
		}
		c.Cov("tlc_free_cases", cases)
		var mustReject, algAccepts int64
		for _, f := range exp.Free {
			for p := range f.Ic {
				if f.Ic[p] {
					mustReject++
					if f.Ia[p] {
						algAccepts++
					}
				}
			}
		}
		c.Cov("tlc_free_altered_index_clauses", mustReject)
		c.Cov("tlc_free_altered_index_accepted_by_transcription", algAccepts)
	}
	// 1d. append
	appendJob := func() {
		n, k := cfg.appendN, cfg.appendK
		cases := int64((n + 1) * k)
		res := tlc("MerkleAppend", fmt.Sprintf("MerkleAppend%d.cfg", n), 1+int64(n+1)+cases, "append proofs")
		exp.Append = parseLines[AppendCase](c, res, "AP")
		if int64(len(exp.Append)) != cases {
			c.Fatal("append: %d cases printed, expected %d", len(exp.Append), cases)
		}
		c.Cov("tlc_append_cases", cases)
	}
	// 1e. general write actions
	writeJob := func() {
		for _, w := range cfg.writes {
			var cases int64
			for n := 1; n <= w[0]; n++ {
				cases += writeCount(n, w[1], w[2])
			}
			res := tlc("MerkleWrite", fmt.Sprintf("MerkleWrite%dx%d.cfg", w[0], w[1]), 1+int64(w[0])+cases, "write-action proofs")
			ws := parseLines[WriteCase](c, res, "WR")
			if int64(len(ws)) != cases {
				c.Fatal("write: %d cases printed, expected %d", len(ws), cases)
			}
			exp.Write = append(exp.Write, ws...)
			c.CovAdd("tlc_write_cases", cases)
		}
	}
	// 1f. sector level shapes
	sectorJob := func() {
		r := rand.New(rand.NewSource(c.Seed))
		ranges, roots := sectorParams(r, cfg)
		var lines []map[string]any
		for _, p := range ranges {
			lines = append(lines, map[string]any{"k": "range", "s": p[0], "e": p[1], "n": 0})
		}
		for _, n := range roots {
			lines = append(lines, map[string]any{"k": "root", "s": 0, "e": 0, "n": n})
		}
		for i := range lines {
			for _, f := range []string{"s2", "e2", "len", "pf"} {
				lines[i][f] = 0
			}
		}
		streams := streamParams(rand.New(rand.NewSource(c.Seed*31+5)), cfg)
		for _, p := range streams {
			lines = append(lines, map[string]any{"k": "stream", "s": p.s, "e": p.e, "n": 0, "s2": p.s2, "e2": p.e2, "len": p.ln, "pf": p.pf})
		}
		const chunk = 16
		res, err := c.TLC(vlib.TLCOpts{SpecDirs: []string{"merkle"}, Module: "MerkleSector",
			Config: "MerkleSector.cfg", // TL_ChunkSize = 16
			Files:  map[string][]byte{"sector_params.ndjson": vlib.NDJSON(lines)}, Workers: 4, Timeout: 10 * time.Minute, Xss: "64m"})
		if err != nil {
			c.Fatal("sector shapes: %v", err)
		}
		if res.Violated != "" {
			c.Fatal("sector shapes: model failed to evaluate: %s", tailNoData(res.Out))
		}
		if want := int64(1 + (len(lines)+chunk-1)/chunk + len(lines)); res.Distinct != want {
			c.Fatal("sector shapes: params not fully consumed: %d states, expected %d", res.Distinct, want)
		}
		for _, ln := range res.Lines {
			if strings.HasPrefix(ln, "REJECT ") {
				c.Fatal("sector shapes: %s", ln)
			}
		}
		exp.Sector = parseLines[SectorCase](c, res, "SP")
		exp.Roots = parseLines[RootCase](c, res, "SR")
		exp.Stream = parseLines[StreamCase](c, res, "SS")
		if len(exp.Sector) != len(ranges) || len(exp.Roots) != len(roots) || len(exp.Stream) != len(streams) {
			c.Fatal("sector shapes: %d+%d+%d lines printed, expected %d+%d+%d", len(exp.Sector), len(exp.Roots), len(exp.Stream), len(ranges), len(roots), len(streams))
		}
		sort.Slice(exp.Stream, func(i, j int) bool { return exp.Stream[i].Idx < exp.Stream[j].Idx })
		var accN int
		for i := range exp.Stream {
			x, p := &exp.Stream[i], streams[i]
			if (streamParam{x.S, x.E, x.S2, x.E2, x.Len, x.Pf}) != p {
				c.Fatal("sector shapes: stream line %d answers %+v, asked %+v", x.Idx, *x, p)
			}
			// every case on a sector of pairwise different leaves: the model's verdict presumes them
			x.Sec = 0
			if x.Accept {
				accN++
			}
		}
		c.Cov("tlc_stream_cases", len(streams))
		c.Cov("tlc_stream_cases_model_accepts", accN)
		sort.Slice(exp.Sector, func(i, j int) bool { return exp.Sector[i].Idx < exp.Sector[j].Idx })
		sort.Slice(exp.Roots, func(i, j int) bool { return exp.Roots[i].Idx < exp.Roots[j].Idx })
		for i := range exp.Sector {
			p := ranges[exp.Sector[i].Idx-1]
			if exp.Sector[i].S != p[0] || exp.Sector[i].E != p[1] {
				c.Fatal("sector shapes: line %d answers (%d,%d), asked (%d,%d)", exp.Sector[i].Idx, exp.Sector[i].S, exp.Sector[i].E, p[0], p[1])
			}
			exp.Sector[i].Sec = sectorFor(i, cfg.nSectors)
		}
		for i := range exp.Roots {
			exp.Roots[i].Sec = sectorFor(i, cfg.nSectors)
		}
		c.Cov("tlc_sector_ranges", len(ranges))
		c.Cov("tlc_root_counts", len(roots))
	}
	// 1g. the streaming verifier on a small sector, exhaustively (states: root, s, (s,e), (s,e,s2), (s,e,s2,e2))
	streamJob := func() {
		res, err := c.TLC(vlib.TLCOpts{SpecDirs: []string{"merkle"}, Module: "MerkleStream", Config: "MerkleStream" + cfg.streamN + ".cfg", Workers: 4, Timeout: 14 * time.Minute, Xss: "64m"})
		if err != nil {
			c.Fatal("stream model: %v", err)
		}
		if res.Violated != "" {
			c.Fatal("model-internal failure in MerkleStream (%s): %s", res.Violated, tailNoData(res.Out))
		}
		type st struct{ S, E, S2, E2, Variants, Accept int }
		ls := parseLines[st](c, res, "ST")
		ns, d := 8, 8
		if cfg.streamN == "16" {
			ns, d = 16, 2
		}
		abs := func(x int) int {
			if x < 0 {
				return -x
			}
			return x
		}
		var l1, l2, l3, l4, variants, acc int64
		for s := 0; s < ns; s++ {
			l1++
			for e := s + 1; e <= ns; e++ {
				l2++
				for s2 := 0; s2 < ns; s2++ {
					if abs(s2-s) > d {
						continue
					}
					l3++
					for e2 := s2 + 1; e2 <= ns; e2++ {
						if abs(e2-e) <= d {
							l4++
						}
					}
				}
			}
		}
		if res.Distinct != 1+l1+l2+l3+l4 || int64(len(ls)) != l4 {
			c.Fatal("stream model: TLC visited %d states and printed %d cases, expected %d and %d", res.Distinct, len(ls), 1+l1+l2+l3+l4, l4)
		}
		for _, x := range ls {
			variants += int64(x.Variants)
			acc += int64(x.Accept)
		}
		if acc == 0 || acc*2 > variants {
			c.Fatal("stream model: %d of %d variants are to be accepted: vacuous", acc, variants)
		}
		c.Cov("tlc_stream_model", map[string]any{"sector_leaves": ns, "max_index_alteration": d, "claimed_vs_honest_pairs": l4, "verifications": variants, "of_which_accept": acc})
	}
	// 1h. the sector-root tree at large sizes: counts around 2^16 = LeavesPerSector and larger powers of two
	largeJob := func() {
		counts, starts, ranges, frees := largeShape(cfg)
		want := int64(1 + len(counts))
		var nr, na, nf int
		for _, n := range counts {
			want += int64(starts[n] + ranges[n] + len(cfg.largeBatches) + frees[n])
			nr += ranges[n]
			na += len(cfg.largeBatches)
			nf += frees[n]
		}
		res := tlc("MerkleLarge", "MerkleLarge"+cfg.largeCfg+".cfg", want, "large sector-root trees")
		exp.LRange = parseLines[LRangeCase](c, res, "LR")
		exp.LAppend = parseLines[LAppendCase](c, res, "LA")
		exp.LFree = parseLines[LFreeCase](c, res, "LF")
		if len(exp.LRange) != nr || len(exp.LAppend) != na || len(exp.LFree) != nf {
			c.Fatal("large trees: %d+%d+%d cases printed, expected %d+%d+%d", len(exp.LRange), len(exp.LAppend), len(exp.LFree), nr, na, nf)
		}
		var verified, above int
		sides := map[string]int{}
		for _, x := range exp.LRange {
			if x.Verified {
				verified++
			}
			if x.N > LPS {
				above++
				sides[x.Side]++
			}
		}
		if verified == 0 || above == 0 || sides["left"] == 0 || sides["across"] == 0 || sides["right"] == 0 {
			c.Fatal("large trees: vacuous case set (%d ranges verified in the model, %d above 65536 roots, sides %v)", verified, above, sides)
		}
		c.Cov("tlc_large_tree_cases", map[string]any{"sector_root_counts": counts, "ranges": nr, "ranges_verified_by_transcribed_verifier_in_model": verified,
			"ranges_in_trees_above_65536_roots_by_side_of_index_65536": sides, "appends": na, "frees": nf})
	}
	// three TLC processes at a time (4 workers each)
	var tw sync.WaitGroup
	var tmu sync.Mutex
	tlcSecs := map[string]float64{}
	timed := func(name string, f func()) func() {
		return func() {
			t0 := time.Now()
			f()
			tmu.Lock()
			tlcSecs[name] = time.Since(t0).Seconds()
			tmu.Unlock()
		}
	}
	for _, grp := range [][]func(){{timed("range", rangeJob), timed("stream_model", streamJob)}, {timed("free", freeJob), timed("large", largeJob)},
		{timed("xcheck", xcheckJob), timed("append", appendJob), timed("write", writeJob), timed("sector", sectorJob)}} {
		tw.Add(1)
		go func(grp []func()) {
			defer tw.Done()
			for _, f := range grp {
				f()
			}
		}(grp)
	}
	tw.Wait()
	c.Cov("tlc_seconds_per_job", tlcSecs)
	// order of TLC's printing depends on worker scheduling: fix the order of the replay
	sort.Slice(exp.Range, func(i, j int) bool {
		a, b := exp.Range[i], exp.Range[j]
		return a.N < b.N || a.N == b.N && (a.S < b.S || a.S == b.S && a.E < b.E)
	})
	sort.Slice(exp.Free, func(i, j int) bool {
		a, b := exp.Free[i], exp.Free[j]
		if a.N != b.N {
			return a.N < b.N
		}
		return fmt.Sprint(a.Freed) < fmt.Sprint(b.Freed)
	})
	sort.Slice(exp.Append, func(i, j int) bool {
		a, b := exp.Append[i], exp.Append[j]
		return a.N < b.N || a.N == b.N && a.K < b.K
	})
	sort.Slice(exp.Write, func(i, j int) bool {
		a, b := exp.Write[i], exp.Write[j]
		if a.N != b.N {
			return a.N < b.N
		}
		return fmt.Sprint(a.As) < fmt.Sprint(b.As)
	})

	sort.Slice(exp.LRange, func(i, j int) bool {
		a, b := exp.LRange[i], exp.LRange[j]
		return a.N < b.N || a.N == b.N && (a.S < b.S || a.S == b.S && a.E < b.E)
	})
	sort.Slice(exp.LAppend, func(i, j int) bool {
		a, b := exp.LAppend[i], exp.LAppend[j]
		return a.N < b.N || a.N == b.N && a.K < b.K
	})
	sort.Slice(exp.LFree, func(i, j int) bool {
		a, b := exp.LFree[i], exp.LFree[j]
		if a.N != b.N {
			return a.N < b.N
		}
		return fmt.Sprint(a.Freed) < fmt.Sprint(b.Freed)
	})

	// 2. the Go side, once per configuration
	runs := []*childRun{
		{label: "default", env: nil},
		{label: "avx2off", env: []string{"GODEBUG=cpu.avx2=off"}},
	}
	var wg sync.WaitGroup
	for _, cr := range runs {
		wg.Add(1)
		go func(cr *childRun) {
			defer wg.Done()
			runChild(c, cr, exp, 13*time.Minute)
		}(cr)
	}
	// restricted CPU sets change p = 1<<bits.Len(NumCPU) in SectorRoot / ReadSectorRoot
	var cpuRuns []*childRun
	if _, err := exec.LookPath("taskset"); err == nil {
		for _, set := range []string{"0", "0-2", "0-4"} {
			cpuRuns = append(cpuRuns, &childRun{label: "cpus" + set, wrap: []string{"taskset", "-c", set}})
		}
	}
	wg.Wait()
	small := &Expect{Seed: c.Seed, Tier: c.Tier, NSectors: 2, Only: "sectorroots"}
	for _, cr := range cpuRuns {
		runChild(c, cr, small, 3*time.Minute)
	}

	merge := func(cr *childRun, full bool) {
		if cr.err != nil {
			c.Infra("%v", cr.err)
			return
		}
		for _, s := range cr.res.Infra {
			c.Infra("[%s] %s", cr.label, s)
		}
		for _, v := range cr.res.Viol {
			c.Violation(v.Key, fmt.Sprintf("[path %s, avx2=%v, cpus=%d] %s", cr.label, cr.res.AVX2, cr.res.NumCPU, v.What), v.Case)
		}
		c.Cov("path_"+cr.label, map[string]any{"avx2": cr.res.AVX2, "GODEBUG": cr.res.GODEBUG, "numcpu": cr.res.NumCPU, "wall_s": cr.wall.Seconds(),
			"evaluations": cr.res.Evals, "digest_of_real_outputs": cr.res.Digest, "counts": cr.res.Counts})
		c.Count(cr.res.Evals, 0)
		c.Traces(cr.res.Replayed)
	}
	for _, cr := range runs {
		merge(cr, true)
	}
	for _, cr := range cpuRuns {
		merge(cr, false)
	}
	def, gen := runs[0].res, runs[1].res
	if def != nil && gen != nil {
		c.Count(0, def.Nontrivial)
		for _, s := range def.Samples {
			c.Sample(s)
		}
		// both configurations really differed
		switch {
		case def.AVX2 && !gen.AVX2:
			c.Cov("cpu_paths", "default run used the AVX2 assembly (cpu.X86.HasAVX2=true), second run the generic code (GODEBUG=cpu.avx2=off, HasAVX2=false)")
		case !def.AVX2 && !gen.AVX2:
			c.Cov("cpu_paths", "this machine has no AVX2: both runs used the generic code; the assembly path was NOT exercised")
		default:
			c.Infra("GODEBUG=cpu.avx2=off did not switch the AVX2 path off (HasAVX2 default=%v, off=%v)", def.AVX2, gen.AVX2)
		}
		if def.Digest != gen.Digest && len(def.Viol) == 0 && len(gen.Viol) == 0 {
			c.Violation("cpu-paths-produce-different-outputs", "the digests of all real builder/root/primitive outputs differ between the AVX2 and the generic run", map[string]any{"family": "primitives", "default": def.Digest, "avx2off": gen.Digest})
		}
		npaths := map[int]bool{}
		for _, cr := range append(runs, cpuRuns...) {
			if cr.res != nil {
				npaths[cr.res.NumCPU] = true
			}
		}
		var ncs []int
		for k := range npaths {
			ncs = append(ncs, k)
		}
		sort.Ints(ncs)
		c.Cov("sectorroot_numcpu_values", ncs)
		// vacuity guards
		for _, r := range []*Result{def, gen} {
			for _, fam := range []string{"range", "free", "append", "write", "sector_range", "leafproof", "rangeverifier.1", "rangeverifier.63", "rangeverifier.64",
				"rangeverifier.65", "rangeverifier.4096", "rangeverifier.irregular", "rangeverifier.whole", "append_v2"} {
				if r.Counts["accept."+fam] == 0 {
					c.Infra("vacuity: no honest %s proof was accepted (GODEBUG=%q)", fam, r.GODEBUG)
				}
			}
			kinds := map[string][]string{
				"range":         {"proofhash", "datum", "shorter", "longer", "index", "root"},
				"free":          {"proofhash", "datum", "shorter", "longer", "index", "oldroot", "newroot"},
				"append":        {"proofhash", "datum", "shorter", "oldroot", "newroot"},
				"write":         {"proofhash", "datum", "shorter", "longer", "oldroot", "newroot"},
				"sector":        {"proofhash", "datum", "shorter", "longer", "index", "root"},
				"rangeverifier": {"proofhash", "datum", "shorter", "longer", "index", "root"},
				"leafproof":     {"proofhash", "datum", "shorter", "longer", "index", "root"},
			}
			for fam, ks := range kinds {
				for _, k := range ks {
					min := cfg.minCorrupt
					if fam == "leafproof" || fam == "sector" || fam == "rangeverifier" {
						min = 10
					}
					if n := r.Counts["corrupt."+fam+"."+k+".rejected"]; n < min {
						c.Infra("vacuity: corruption %s/%s was applied and rejected only %d times (minimum %d, GODEBUG=%q)", fam, k, n, min, r.GODEBUG)
					}
				}
			}
			for _, k := range []string{"stream.accept.agreed", "stream.reject.agreed", "stream.altered_end.rejected", "stream.altered_start.rejected",
				"stream.truncated.rejected", "stream.overlong.accepted", "stream.last_leaves", "stream.first_leaves", "stream.middle_leaves", "stream.v4"} {
				if r.Counts[k] < 10 {
					c.Infra("vacuity: streaming-verifier class %s was exercised only %d times (GODEBUG=%q)", k, r.Counts[k], r.GODEBUG)
				}
			}
			// the sector-root tree is not bounded by the size of a sector: every class of the large family
			for _, k := range []string{"accept.largerange", "accept.largerange.own", "accept.largeappend", "accept.largeappend_v2", "accept.largefree",
				"large.range.above_65536.left", "large.range.above_65536.across", "large.range.above_65536.right", "large.range.exactly_65536.left",
				"large.range.below_65536.left", "large.range.verified_in_model", "large.append.above_65536", "large.free.above_65536", "large.roots.above_65536"} {
				if r.Counts[k] < 3 {
					c.Infra("vacuity: large sector-root trees: class %s was exercised only %d times (GODEBUG=%q)", k, r.Counts[k], r.GODEBUG)
				}
			}
			for fam, ks := range map[string][]string{"largerange": {"proofhash", "datum", "shorter", "longer", "index", "root"},
				"largeappend": {"proofhash", "datum", "shorter", "oldroot", "newroot"},
				"largefree":   {"proofhash", "datum", "shorter", "longer", "oldroot", "newroot"}} {
				for _, k := range ks {
					if n := r.Counts["corrupt."+fam+"."+k+".rejected"]; n < 10 {
						c.Infra("vacuity: corruption %s/%s was applied and rejected only %d times (GODEBUG=%q)", fam, k, n, r.GODEBUG)
					}
				}
			}
			if r.Counts["primitives.blocks"] == 0 || r.Counts["roots.sector"] == 0 || r.Counts["roots.metaroot"] == 0 || r.Counts["xcheck.terms"] == 0 {
				c.Infra("vacuity: a root/primitive class was never exercised (GODEBUG=%q)", r.GODEBUG)
			}
		}
	}

	// 3. binding demonstration on the expected side: one expected proof is corrupted (two hashes
	// exchanged); the comparison with the real builder must notice.
	{
		var mut *RangeCase
		for i := range exp.Range {
			if len(exp.Range[i].Proof) >= 2 && exp.Range[i].Proof[0] != exp.Range[i].Proof[1] {
				m := exp.Range[i]
				m.Proof = append([]string(nil), m.Proof...)
				m.Proof[0], m.Proof[1] = m.Proof[1], m.Proof[0]
				mut = &m
				break
			}
		}
		if mut == nil {
			c.Infra("selftest: no range case with two proof hashes")
		} else {
			cr := &childRun{label: "selftest"}
			runChild(c, cr, &Expect{Seed: c.Seed, Tier: c.Tier, Range: []RangeCase{*mut}}, 2*time.Minute)
			found := false
			if cr.err != nil {
				c.Infra("selftest: %v", cr.err)
			} else {
				for _, v := range cr.res.Viol {
					if v.Key == "range-builder-differs-from-spec" {
						found = true
					}
				}
				if !found {
					c.Infra("selftest: an expected proof with two hashes exchanged (n=%d [%d,%d)) was not noticed", mut.N, mut.S, mut.E)
				}
			}
			c.Cov("selftest_expected_side_mutation", map[string]any{"mutated_case": fmt.Sprintf("n=%d [%d,%d): proof hashes 0 and 1 exchanged", mut.N, mut.S, mut.E), "detected": found})
		}
	}
	// the same for the large sector-root trees: the expected proof of a range left of index 65536 in a tree of
	// more than 65536 roots loses its last hash (the subtree behind index 65536)
	{
		var mut *LRangeCase
		for i := range exp.LRange {
			x := exp.LRange[i]
			if x.N > LPS && x.Side == "left" && len(x.Proof) >= 2 {
				x.Proof = append([]string(nil), x.Proof[:len(x.Proof)-1]...)
				mut = &x
				break
			}
		}
		if mut == nil {
			c.Infra("selftest: no range left of index 65536 in a tree of more than 65536 roots")
		} else {
			cr := &childRun{label: "selftest-large"}
			runChild(c, cr, &Expect{Seed: c.Seed, Tier: c.Tier, LRange: []LRangeCase{*mut}}, 2*time.Minute)
			found := false
			if cr.err != nil {
				c.Infra("selftest: %v", cr.err)
			} else {
				for _, v := range cr.res.Viol {
					if v.Key == "largerange-builder-differs-from-spec" {
						found = true
					}
				}
				if !found {
					c.Infra("selftest: an expected proof without the subtree behind index 65536 (n=%d [%d,%d)) was not noticed", mut.N, mut.S, mut.E)
				}
			}
			c.Cov("selftest_large_tree_expected_side_mutation", map[string]any{"mutated_case": fmt.Sprintf("n=%d [%d,%d): last proof hash (the subtree behind index 65536) removed", mut.N, mut.S, mut.E), "detected": found})
		}
	}
	// the same for the streaming family: one expected verdict is flipped (an altered end index declared
	// acceptable); the replay on the real verifier must contradict it
	{
		var mut *StreamCase
		for i := range exp.Stream {
			x := exp.Stream[i]
			if !x.Accept && x.Pf == 0 && x.S2 == x.S && x.E2 > x.E && x.Len == 64*(x.E-x.S) && x.E2 > LPS-8 {
				x.Accept = true
				mut = &x
				break
			}
		}
		if mut == nil {
			c.Infra("selftest: no altered-end stream case among the last leaves of a sector")
		} else {
			cr := &childRun{label: "selftest-stream"}
			runChild(c, cr, &Expect{Seed: c.Seed, Tier: c.Tier, Stream: []StreamCase{*mut}}, 2*time.Minute)
			found := false
			if cr.err != nil {
				c.Infra("selftest: %v", cr.err)
			} else {
				for _, v := range cr.res.Viol {
					if v.Key == "rangeverifier-rejects-altered-end" {
						found = true
					}
				}
				if !found {
					c.Infra("selftest: a flipped expected verdict of the streaming verifier ([%d,%d) claimed as [%d,%d)) was not noticed", mut.S, mut.E, mut.S2, mut.E2)
				}
			}
			c.Cov("selftest_stream_expected_verdict_flipped", map[string]any{"case": fmt.Sprintf("honest [%d,%d) claimed as [%d,%d)", mut.S, mut.E, mut.S2, mut.E2), "detected": found})
		}
	}
	c.Finish()
}

// tailNoData: the end of TLC's output without the data lines.
func tailNoData(out string) string {
	var keep []string
	for _, ln := range strings.Split(out, "\n") {
		if !strings.Contains(ln, "@@") {
			keep = append(keep, ln)
		}
	}
	return vlib.Tail(strings.Join(keep, "\n"), 2500)
}

// replay re-executes one saved case on both CPU paths.
func replay(c *vlib.Ctx, cfg tierCfg) {
	b, err := os.ReadFile(c.Replay)
	if err != nil {
		c.Fatal("replay: %v", err)
	}
	var f struct {
		Seed int64           `json:"seed"`
		Key  string          `json:"key"`
		Case json.RawMessage `json:"case"`
	}
	if err := json.Unmarshal(b, &f); err != nil {
		c.Fatal("replay: %v", err)
	}
	var hd struct {
		Family string          `json:"family"`
		Case   json.RawMessage `json:"case"`
		Sector int             `json:"sector"`
	}
	if err := json.Unmarshal(f.Case, &hd); err != nil {
		c.Fatal("replay: %v", err)
	}
	exp := &Expect{Seed: f.Seed, Tier: c.Tier}
	un := func(v any) {
		if err := json.Unmarshal(hd.Case, v); err != nil {
			c.Fatal("replay: case of family %s unreadable: %v", hd.Family, err)
		}
	}
	switch hd.Family {
	case "range":
		var x RangeCase
		un(&x)
		exp.Range = []RangeCase{x}
	case "free":
		var x FreeCase
		un(&x)
		exp.Free = []FreeCase{x}
	case "append":
		var x AppendCase
		un(&x)
		exp.Append = []AppendCase{x}
	case "write":
		var x WriteCase
		un(&x)
		exp.Write = []WriteCase{x}
	case "sector":
		var x SectorCase
		un(&x)
		exp.Sector = []SectorCase{x}
	case "roots":
		var x RootCase
		un(&x)
		exp.Roots = []RootCase{x}
	case "stream":
		var x StreamCase
		un(&x)
		exp.Stream = []StreamCase{x}
	case "largerange":
		var x LRangeCase
		un(&x)
		exp.LRange = []LRangeCase{x}
	case "largeappend":
		var x LAppendCase
		un(&x)
		exp.LAppend = []LAppendCase{x}
	case "largefree":
		var x LFreeCase
		un(&x)
		exp.LFree = []LFreeCase{x}
	case "largeroot":
		var x struct {
			N int `json:"n"`
		}
		if err := json.Unmarshal(f.Case, &x); err != nil {
			c.Fatal("replay: %v", err)
		}
		exp.LRange = []LRangeCase{{N: x.N, S: 0, E: x.N, Root: fmt.Sprintf("R(0,%d)", x.N), Side: "across"}}
	case "sectorroot":
		exp.NSectors, exp.Only = hd.Sector+1, "sectorroots"
	case "sectorcache":
		exp.NSectors = hd.Sector + 1
	case "primitives":
		exp.PrimN = cfg.primN
	default:
		c.Fatal("replay: unknown family %q", hd.Family)
	}
	runs := []*childRun{{label: "default"}, {label: "avx2off", env: []string{"GODEBUG=cpu.avx2=off"}}}
	if hd.Family == "sectorroot" {
		if _, err := exec.LookPath("taskset"); err == nil {
			for _, set := range []string{"0", "0-2", "0-4"} {
				runs = append(runs, &childRun{label: "cpus" + set, wrap: []string{"taskset", "-c", set}})
			}
		}
	}
	for _, cr := range runs {
		runChild(c, cr, exp, 5*time.Minute)
		if cr.err != nil {
			c.Infra("%v", cr.err)
			continue
		}
		for _, s := range cr.res.Infra {
			c.Infra("[%s] %s", cr.label, s)
		}
		for _, v := range cr.res.Viol {
			c.Violation(v.Key, fmt.Sprintf("[path %s, avx2=%v] %s", cr.label, cr.res.AVX2, v.What), v.Case)
		}
		c.Count(cr.res.Evals, cr.res.Nontrivial)
	}
	c.Finish()
}
