package main

// The Go side of C16: every expectation computed by TLC is evaluated with the real hash
// primitives and compared with what the real builders, verifiers and root functions do.
// It runs in a child process so that the whole of it can be executed once with the default
// CPU features and once with GODEBUG=cpu.avx2=off.

import (
	"bytes"
	"encoding/hex"
	"encoding/json"
	"fmt"
	"io"
	"math/rand"
	"os"
	"runtime"
	"strings"
	"sync"
	"unsafe"

	"go.sia.tech/core/blake2b"
	rhp2 "go.sia.tech/core/rhp/v2"
	rhp4 "go.sia.tech/core/rhp/v4"
	"go.sia.tech/core/types"
	xblake "golang.org/x/crypto/blake2b"
	"golang.org/x/sys/cpu"
	"verif/harness/vlib"
)

type H = types.Hash256

// ---- expectations (the JSON records printed by the Merkle*.tla modules) ----

type RangeCase struct {
	N     int      `json:"n"`
	S     int      `json:"s"`
	E     int      `json:"e"`
	Proof []string `json:"proof"`
	Root  string   `json:"root"`
}
type FreeCase struct {
	N     int      `json:"n"`
	Freed []int    `json:"freed"`
	Th    []string `json:"th"`
	Lh    []string `json:"lh"`
	Old   string   `json:"old"`
	New   string   `json:"new"`
	Ic    []bool   `json:"ic"` // per (position, replacement value): the altered request must be rejected
	Ia    []bool   `json:"ia"` // what the transcribed verifier does (informative)
}
type AppendCase struct {
	N   int      `json:"n"`
	K   int      `json:"k"`
	Sub []string `json:"sub"`
	Old string   `json:"old"`
	New string   `json:"new"`
}
type Action struct {
	T string `json:"t"`
	A int    `json:"a"`
	B int    `json:"b"`
	H string `json:"h"`
}
type WriteCase struct {
	N   int      `json:"n"`
	As  []Action `json:"as"`
	Th  []string `json:"th"`
	Lh  []string `json:"lh"`
	Old string   `json:"old"`
	New string   `json:"new"`
}
type XCase struct {
	I    int    `json:"i"`
	J    int    `json:"j"`
	Term string `json:"term"`
}
type SectorCase struct {
	Sec   int      `json:"sec"` // which sector of the run (assigned by the harness)
	Idx   int      `json:"idx"`
	S     int      `json:"s"`
	E     int      `json:"e"`
	Proof []string `json:"proof"`
}
// StreamCase: the streaming verifier for the claimed range [S2,E2) reads Len bytes of the sector from leaf S
// on and gets Proof (Pf = 0: the honest proof of [S,E), 1: of [S2,E2)); Accept is the model's verdict.
type StreamCase struct {
	Sec    int      `json:"sec"`
	Idx    int      `json:"idx"`
	S      int      `json:"s"`
	E      int      `json:"e"`
	S2     int      `json:"s2"`
	E2     int      `json:"e2"`
	Len    int      `json:"len"`
	Pf     int      `json:"pf"`
	Proof  []string `json:"proof"`
	Accept bool     `json:"accept"`
}
type RootCase struct {
	Sec  int    `json:"sec"`
	Idx  int    `json:"idx"`
	N    int    `json:"n"`
	Def  string `json:"def"`
	Fold string `json:"fold"`
}

// Expect is the file handed from the parent to the child.
type Expect struct {
	Seed     int64
	Tier     string
	Only     string // "": everything; "sectorroots": only the root functions of whole sectors
	NSectors int
	PrimN    int
	Range    []RangeCase
	Free     []FreeCase
	Append   []AppendCase
	Write    []WriteCase
	Xcheck   []XCase
	Sector   []SectorCase
	Roots    []RootCase
	Stream   []StreamCase
	LRange   []LRangeCase // the sector-root tree at large sizes (MerkleLarge.tla)
	LAppend  []LAppendCase
	LFree    []LFreeCase
}

type Viol struct {
	Key  string
	What string
	Case any
}

// Result is what the child reports.
type Result struct {
	AVX2       bool
	GODEBUG    string
	NumCPU     int
	Counts     map[string]int64
	Viol       []Viol
	Infra      []string
	Digest     string
	Samples    []any
	Evals      int64
	Nontrivial int64
	Replayed   int64
}

type side struct {
	exp    *Expect
	res    *Result
	mu     sync.Mutex
	leaves []H
	apps   []H
	flipN  int
	digest []byte
}

func (g *side) cnt(k string, n int64) {
	g.mu.Lock()
	g.res.Counts[k] += n
	g.mu.Unlock()
}

func (g *side) viol(key, what string, cs any) {
	g.mu.Lock()
	defer g.mu.Unlock()
	for _, v := range g.res.Viol {
		if v.Key == key {
			g.res.Counts["violations."+key]++
			return
		}
	}
	g.res.Counts["violations."+key]++
	g.res.Viol = append(g.res.Viol, Viol{key, what, cs})
}

func (g *side) infra(format string, a ...any) {
	g.mu.Lock()
	g.res.Infra = append(g.res.Infra, fmt.Sprintf(format, a...))
	g.mu.Unlock()
}

// mustReject records one applied corruption; accepted = the real verifier said yes.
func (g *side) mustReject(fam, kind string, accepted bool, what func() (string, any)) {
	g.cnt("corrupt."+fam+"."+kind+".applied", 1)
	if accepted {
		w, cs := what()
		g.viol(fam+"-corrupt-"+kind+"-accepted", w, cs)
		return
	}
	g.cnt("corrupt."+fam+"."+kind+".rejected", 1)
}

func genHashes(seed, salt int64, n int) []H {
	r := rand.New(rand.NewSource(seed*7919 + salt))
	out := make([]H, n)
	for i := range out {
		r.Read(out[i][:])
	}
	return out
}

// flip returns h with one bit changed (position varies from call to call, deterministically).
func (g *side) flip(h H) H {
	g.mu.Lock()
	g.flipN++
	k := g.flipN
	g.mu.Unlock()
	h[k%32] ^= 1 << (uint(k/32) % 8)
	return h
}

func cloneH(a []H) []H { return append([]H(nil), a...) }

func eqH(a, b []H) bool {
	if len(a) != len(b) {
		return false
	}
	for i := range a {
		if a[i] != b[i] {
			return false
		}
	}
	return true
}

func hexs(a []H) []string {
	out := make([]string, len(a))
	for i := range a {
		out[i] = hex.EncodeToString(a[i][:8])
	}
	return out
}

func (g *side) addDigest(hs ...H) {
	for _, h := range hs {
		g.digest = append(g.digest, h[:]...)
	}
	if len(g.digest) > 1<<20 {
		d := xblake.Sum256(g.digest)
		g.digest = append(g.digest[:0], d[:]...)
	}
}

// guard runs one case; a panic of the real code on admissible input is a violation of its own class.
func (g *side) guard(fam string, cs any, f func()) {
	if p, v := vlib.Recover(f); p {
		g.viol(fam+"-panic", fmt.Sprintf("real code panicked on an admissible %s case: %v", fam, v), cs)
	}
}

// ---------------------------------------------------------------------------

func runSide(expPath, outPath string) {
	b, err := os.ReadFile(expPath)
	if err != nil {
		fmt.Println("goside: cannot read expectations:", err)
		os.Exit(2)
	}
	exp := &Expect{}
	if err := json.Unmarshal(b, exp); err != nil {
		fmt.Println("goside: bad expectations:", err)
		os.Exit(2)
	}
	g := &side{exp: exp, res: &Result{AVX2: cpu.X86.HasAVX2, GODEBUG: os.Getenv("GODEBUG"), NumCPU: runtime.NumCPU(), Counts: map[string]int64{}}}
	nLeaves := 70001
	if m := exp.largeNeed() + 1; m > nLeaves {
		nLeaves = m
	}
	g.leaves = genHashes(exp.Seed, 1, nLeaves)
	g.apps = genHashes(exp.Seed, 2, 64)
	if p, v := vlib.Recover(func() {
		if exp.Only == "" {
			g.xcheck()
			g.primitives()
			g.rangeFamily()
			g.freeFamily()
			g.appendFamily()
			g.writeFamily()
			g.largeFamily()
		}
		g.sectorFamily()
	}); p {
		g.infra("goside panicked outside a case: %v", v)
	}
	d := xblake.Sum256(g.digest)
	g.res.Digest = hex.EncodeToString(d[:])
	out, _ := json.Marshal(g.res)
	if err := os.WriteFile(outPath, out, 0o644); err != nil {
		fmt.Println("goside: cannot write result:", err)
		os.Exit(2)
	}
}

// xcheck: the evaluator of R(i,j) against fully expanded TLC terms.
func (g *side) xcheck() {
	e := newEnv(g.leaves[:64], nil)
	for _, x := range g.exp.Xcheck {
		a, err := e.eval(x.Term)
		if err != nil {
			g.infra("xcheck: %v", err)
			continue
		}
		bb, err := e.eval(fmt.Sprintf("R(%d,%d)", x.I, x.J))
		if err != nil {
			g.infra("xcheck: %v", err)
			continue
		}
		if a != bb || a != e.plainRoot(x.I, x.J) {
			g.infra("evaluator cross-check failed: R(%d,%d) differs from the expanded term %s", x.I, x.J, x.Term)
		}
		g.cnt("xcheck.terms", 1)
	}
}

// primitives: the 4-way functions against the single-block ones, and those against the definition
// blake2b-256(prefix || block) computed with golang.org/x/crypto directly.
func (g *side) primitives() {
	r := rand.New(rand.NewSource(g.exp.Seed*31 + 5))
	n := g.exp.PrimN
	for it := 0; it < n; it++ {
		var leaves [4][64]byte
		switch it % 5 {
		case 0: // zero
		case 1:
			for i := range leaves {
				for j := range leaves[i] {
					leaves[i][j] = 0xff
				}
			}
		case 2:
			leaves[it%4][(it/4)%64] = 1 << (uint(it) % 8)
		default:
			for i := range leaves {
				r.Read(leaves[i][:])
			}
		}
		var outs [4][32]byte
		blake2b.SumLeaves(&outs, &leaves)
		var nodeOuts [4][32]byte
		nodes := (*[8][32]byte)(unsafe.Pointer(&leaves))
		blake2b.SumNodes(&nodeOuts, nodes)
		// in place, the way sectorAccumulator uses it: outs aliases the first half of the input
		var buf [8][32]byte = *nodes
		blake2b.SumNodes((*[4][32]byte)(unsafe.Pointer(&buf)), &buf)
		for i := 0; i < 4; i++ {
			one := blake2b.SumLeaf(&leaves[i])
			ref := xblake.Sum256(append([]byte{0}, leaves[i][:]...))
			pair := blake2b.SumPair(nodes[2*i], nodes[2*i+1])
			refPair := xblake.Sum256(append(append([]byte{1}, nodes[2*i][:]...), nodes[2*i+1][:]...))
			cs := map[string]any{"family": "primitives", "block": hex.EncodeToString(leaves[i][:]), "lane": i, "avx2": g.res.AVX2}
			if one != ref {
				g.viol("sumleaf-differs-from-definition", "blake2b.SumLeaf differs from blake2b-256(0x00 || leaf)", cs)
			}
			if pair != refPair {
				g.viol("sumpair-differs-from-definition", "blake2b.SumPair differs from blake2b-256(0x01 || left || right)", cs)
			}
			if outs[i] != one {
				g.viol("sumleaves-differs-from-sumleaf", fmt.Sprintf("blake2b.SumLeaves lane %d differs from SumLeaf on the same leaf (avx2=%v)", i, g.res.AVX2), cs)
			}
			if nodeOuts[i] != pair {
				g.viol("sumnodes-differs-from-sumpair", fmt.Sprintf("blake2b.SumNodes lane %d differs from SumPair on the same nodes (avx2=%v)", i, g.res.AVX2), cs)
			}
			if buf[i] != pair {
				g.viol("sumnodes-inplace-differs-from-sumpair", fmt.Sprintf("blake2b.SumNodes writing over its input, lane %d, differs from SumPair (avx2=%v)", i, g.res.AVX2), cs)
			}
			g.addDigest(outs[i], nodeOuts[i])
		}
		g.cnt("primitives.blocks", 4)
	}
	g.res.Evals += int64(n)
}

// ---------------------------------------------------------------------------
// sector-root range proofs

func (g *side) rangeFamily() {
	e := newEnv(g.leaves[:256], nil)
	seenN := map[int]bool{}
	distinct := map[[3]int]bool{}
	for ci := range g.exp.Range {
		c := g.exp.Range[ci]
		cs := map[string]any{"family": "range", "case": c, "avx2": g.res.AVX2}
		g.guard("range", cs, func() {
			n, s, en := uint64(c.N), uint64(c.S), uint64(c.E)
			roots := g.leaves[:c.N]
			exp := e.evalList(c.Proof)
			root := e.mustEval(c.Root)
			ok := true
			if !seenN[c.N] {
				seenN[c.N] = true
				if m := rhp2.MetaRoot(roots); m != root {
					ok = false
					g.viol("metaroot-differs-from-plain-root", fmt.Sprintf("MetaRoot of %d roots differs from the plain Merkle root", c.N), cs)
				}
				if m := rhp4.MetaRoot(roots); m != root {
					ok = false
					g.viol("metaroot-differs-from-plain-root", fmt.Sprintf("rhp4.MetaRoot of %d roots differs from the plain Merkle root", c.N), cs)
				}
				g.cnt("roots.metaroot", 1)
			}
			got := rhp2.BuildSectorRangeProof(roots, s, en)
			got4 := rhp4.BuildSectorRootsProof(roots, s, en)
			g.addDigest(got...)
			if !eqH(got, exp) || !eqH(got4, exp) {
				ok = false
				g.viol("range-builder-differs-from-spec", fmt.Sprintf("BuildSectorRangeProof(n=%d,[%d,%d)) = %v, specification %v = %v", c.N, c.S, c.E, hexs(got), c.Proof, hexs(exp)), cs)
			}
			if sz := rhp2.RangeProofSize(n, s, en); sz != uint64(len(exp)) {
				ok = false
				g.viol("range-proofsize-wrong", fmt.Sprintf("RangeProofSize(%d,%d,%d) = %d, specification %d", c.N, c.S, c.E, sz, len(exp)), cs)
			}
			if en == s+1 {
				if sz := rhp2.ProofSize(n, s); sz != uint64(len(exp)) {
					ok = false
					g.viol("range-proofsize-wrong", fmt.Sprintf("ProofSize(%d,%d) = %d, specification %d", c.N, c.S, sz, len(exp)), cs)
				}
			}
			v := func(p, rr []H, s, en uint64, root H) bool {
				a := rhp2.VerifySectorRangeProof(p, rr, s, en, n, root)
				b := rhp4.VerifySectorRootsProof(p, rr, n, s, en, root)
				if a != b {
					g.viol("range-v2-v4-verifiers-disagree", "VerifySectorRangeProof and VerifySectorRootsProof disagree", cs)
				}
				return a
			}
			rr := roots[s:en]
			// the verifier is exercised on the specification's proof: the builder is judged above
			if !v(exp, rr, s, en, root) {
				ok = false
				g.viol("range-honest-proof-rejected", fmt.Sprintf("VerifySectorRangeProof rejects the honest proof for n=%d [%d,%d)", c.N, c.S, c.E), cs)
			} else {
				g.cnt("accept.range", 1)
			}
			w := func(kind string, i int) func() (string, any) {
				return func() (string, any) {
					return fmt.Sprintf("VerifySectorRangeProof accepts n=%d [%d,%d) with corruption %s at %d", c.N, c.S, c.E, kind, i), cs
				}
			}
			applied := 0
			for i := range exp {
				p := cloneH(exp)
				p[i] = g.flip(p[i])
				g.mustReject("range", "proofhash", v(p, rr, s, en, root), w("proofhash", i))
				applied++
			}
			for i := range rr {
				r2 := cloneH(rr)
				r2[i] = g.flip(r2[i])
				g.mustReject("range", "datum", v(exp, r2, s, en, root), w("datum", i))
				applied++
			}
			if len(exp) > 0 {
				g.mustReject("range", "shorter", v(exp[:len(exp)-1], rr, s, en, root), w("shorter(last)", 0))
				g.mustReject("range", "shorter", v(exp[1:], rr, s, en, root), w("shorter(first)", 0))
			}
			g.mustReject("range", "longer", v(append(cloneH(exp), g.apps[0]), rr, s, en, root), w("longer", 0))
			for s2 := uint64(0); s2+(en-s) <= n; s2++ { // the same roots claimed at every other position
				if s2 != s {
					g.mustReject("range", "index", v(exp, rr, s2, s2+(en-s), root), w("moved to start", int(s2)))
				}
			}
			g.mustReject("range", "root", v(exp, rr, s, en, g.flip(root)), w("root", 0))
			g.res.Evals++
			if ok {
				g.res.Replayed++
			}
			if len(exp) > 0 && applied > 0 && !distinct[[3]int{c.N, c.S, c.E}] {
				distinct[[3]int{c.N, c.S, c.E}] = true
				g.res.Nontrivial++
			}
		})
	}
	if len(g.exp.Range) > 0 {
		g.res.Samples = append(g.res.Samples, map[string]any{"family": "range", "case": g.exp.Range[len(g.exp.Range)/2]})
	}
}

// ---------------------------------------------------------------------------
// free sectors (swap + trim)

func freeActions(freed []uint64, n uint64) []rhp2.RPCWriteAction {
	var as []rhp2.RPCWriteAction
	for i, f := range freed {
		as = append(as, rhp2.RPCWriteAction{Type: rhp2.RPCWriteActionSwap, A: f, B: n - uint64(i) - 1})
	}
	return append(as, rhp2.RPCWriteAction{Type: rhp2.RPCWriteActionTrim, A: uint64(len(freed))})
}

func u64s(a []int) []uint64 {
	out := make([]uint64, len(a))
	for i, v := range a {
		out[i] = uint64(v)
	}
	return out
}

func (g *side) freeFamily() {
	e := newEnv(g.leaves[:256], nil)
	var disagree int64
	for ci := range g.exp.Free {
		c := g.exp.Free[ci]
		cs := map[string]any{"family": "free", "case": c, "avx2": g.res.AVX2}
		g.guard("free", cs, func() {
			n := uint64(c.N)
			roots := g.leaves[:c.N]
			freed := u64s(c.Freed)
			eth, elh := e.evalList(c.Th), e.evalList(c.Lh)
			old, nw := e.mustEval(c.Old), e.mustEval(c.New)
			ok := true
			th, lh := rhp4.BuildFreeSectorsProof(roots, freed)
			th2, lh2 := rhp2.BuildDiffProof(freeActions(freed, n), roots)
			g.addDigest(th...)
			g.addDigest(lh...)
			if !eqH(th, eth) || !eqH(lh, elh) || !eqH(th2, eth) || !eqH(lh2, elh) {
				ok = false
				g.viol("free-builder-differs-from-spec", fmt.Sprintf("BuildFreeSectorsProof(n=%d, freed=%v): tree %v leaf %v, specification tree %v leaf %v", c.N, c.Freed, hexs(th), hexs(lh), c.Th, c.Lh), cs)
			}
			if sz := rhp2.DiffProofSize(freeActions(freed, n), n); sz != uint64(len(eth)+len(elh)) {
				ok = false
				g.viol("free-proofsize-wrong", fmt.Sprintf("DiffProofSize(n=%d, freed=%v) = %d, specification %d", c.N, c.Freed, sz, len(eth)+len(elh)), cs)
			}
			v := func(th, lh []H, fr []uint64, o, nw H) bool {
				a := rhp4.VerifyFreeSectorsProof(th, lh, fr, n, o, nw)
				b := rhp2.VerifyDiffProof(freeActions(fr, n), n, th, lh, o, nw, nil)
				if a != b {
					g.viol("free-v2-v4-verifiers-disagree", "VerifyFreeSectorsProof and VerifyDiffProof on the converted actions disagree", cs)
				}
				return a
			}
			if !v(eth, elh, freed, old, nw) {
				ok = false
				g.viol("free-honest-proof-rejected", fmt.Sprintf("VerifyFreeSectorsProof rejects the honest proof (n=%d freed=%v) with the correct old and new roots", c.N, c.Freed), cs)
			} else {
				g.cnt("accept.free", 1)
			}
			w := func(kind string, i int) func() (string, any) {
				return func() (string, any) {
					return fmt.Sprintf("VerifyFreeSectorsProof accepts n=%d freed=%v with corruption %s at %d", c.N, c.Freed, kind, i), cs
				}
			}
			for i := range eth {
				p := cloneH(eth)
				p[i] = g.flip(p[i])
				g.mustReject("free", "proofhash", v(p, elh, freed, old, nw), w("treehash", i))
			}
			for i := range elh {
				p := cloneH(elh)
				p[i] = g.flip(p[i])
				g.mustReject("free", "datum", v(eth, p, freed, old, nw), w("leafhash", i))
			}
			if len(eth) > 0 {
				g.mustReject("free", "shorter", v(eth[:len(eth)-1], elh, freed, old, nw), w("tree shorter(last)", 0))
				g.mustReject("free", "shorter", v(eth[1:], elh, freed, old, nw), w("tree shorter(first)", 0))
			}
			g.mustReject("free", "longer", v(append(cloneH(eth), g.apps[0]), elh, freed, old, nw), w("tree longer", 0))
			g.mustReject("free", "shorter", v(eth, elh[:len(elh)-1], freed, old, nw), w("leaves shorter", 0))
			g.mustReject("free", "longer", v(eth, append(cloneH(elh), g.apps[0]), freed, old, nw), w("leaves longer", 0))
			g.mustReject("free", "oldroot", v(eth, elh, freed, g.flip(old), nw), w("old root", 0))
			g.mustReject("free", "newroot", v(eth, elh, freed, old, g.flip(nw)), w("new root", 0))
			// one index of the request altered, count held true
			if len(c.Ic) != len(c.Freed)*c.N || len(c.Ia) != len(c.Ic) {
				g.infra("free case n=%d freed=%v: %d index clauses, expected %d", c.N, c.Freed, len(c.Ic), len(c.Freed)*c.N)
			} else {
				for p := range c.Ic {
					pos, val := p/c.N, p%c.N
					if c.Freed[pos] == val {
						continue
					}
					f2 := append([]uint64(nil), freed...)
					f2[pos] = uint64(val)
					acc := v(eth, elh, f2, old, nw)
					if acc != c.Ia[p] {
						disagree++
					}
					if c.Ic[p] {
						pp := p
						g.cnt("corrupt.free.index.applied", 1)
						if acc {
							g.viol("free-altered-index-accepted", fmt.Sprintf("VerifyFreeSectorsProof(n=%d, freed=%v) accepts the proof and the new root built for freed=%v: the new root is not the result of the request it was verified for", c.N, f2, c.Freed),
								map[string]any{"family": "free", "case": c, "clause": pp, "avx2": g.res.AVX2})
						} else {
							g.cnt("corrupt.free.index.rejected", 1)
						}
					} else {
						g.cnt("free.index.equivalent_request", 1)
					}
				}
			}
			g.res.Evals++
			if ok {
				g.res.Replayed++
			}
			g.res.Nontrivial++
		})
	}
	g.cnt("free.transcription_vs_real_verdict_disagreements", disagree)
	if len(g.exp.Free) > 0 {
		c := g.exp.Free[len(g.exp.Free)/2]
		c.Ic, c.Ia = nil, nil
		g.res.Samples = append(g.res.Samples, map[string]any{"family": "free", "case": c})
	}
}

// ---------------------------------------------------------------------------
// append

func (g *side) appendFamily() {
	e := newEnv(g.leaves[:256], g.apps)
	for ci := range g.exp.Append {
		c := g.exp.Append[ci]
		cs := map[string]any{"family": "append", "case": c, "avx2": g.res.AVX2}
		g.guard("append", cs, func() {
			n := uint64(c.N)
			roots := g.leaves[:c.N]
			app := g.apps[:c.K]
			esub := e.evalList(c.Sub)
			old, nw := e.mustEval(c.Old), e.mustEval(c.New)
			ok := true
			sub, newRoot := rhp4.BuildAppendProof(roots, app)
			g.addDigest(sub...)
			g.addDigest(newRoot)
			if !eqH(sub, esub) || newRoot != nw {
				ok = false
				g.viol("append-builder-differs-from-spec", fmt.Sprintf("BuildAppendProof(n=%d, k=%d): %v / %x, specification %v / %s", c.N, c.K, hexs(sub), newRoot[:8], c.Sub, c.New), cs)
			}
			// accumulator roots against the plain root
			var acc blake2b.Accumulator
			for _, h := range roots {
				acc.AddLeaf(h)
			}
			if H(acc.Root()) != old {
				ok = false
				g.viol("accumulator-root-differs-from-plain-root", fmt.Sprintf("blake2b.Accumulator root of %d leaves differs from the plain Merkle root", c.N), cs)
			}
			if rhp2.MetaRoot(roots) != old || rhp2.MetaRoot(append(cloneH(roots), app...)) != nw {
				ok = false
				g.viol("metaroot-differs-from-plain-root", fmt.Sprintf("MetaRoot differs from the plain Merkle root at n=%d (+%d)", c.N, c.K), cs)
			}
			v := func(sub, app []H, o, nw H) bool { return rhp4.VerifyAppendSectorsProof(n, sub, app, o, nw) }
			if !v(esub, app, old, nw) {
				ok = false
				g.viol("append-honest-proof-rejected", fmt.Sprintf("VerifyAppendSectorsProof rejects the honest proof n=%d k=%d", c.N, c.K), cs)
			} else {
				g.cnt("accept.append", 1)
			}
			w := func(kind string, i int) func() (string, any) {
				return func() (string, any) {
					return fmt.Sprintf("append verifier accepts n=%d k=%d with corruption %s at %d", c.N, c.K, kind, i), cs
				}
			}
			for i := range esub {
				p := cloneH(esub)
				p[i] = g.flip(p[i])
				g.mustReject("append", "proofhash", v(p, app, old, nw), w("subtree hash", i))
			}
			for i := range app {
				p := cloneH(app)
				p[i] = g.flip(p[i])
				g.mustReject("append", "datum", v(esub, p, old, nw), w("appended root", i))
			}
			if len(esub) > 0 {
				g.mustReject("append", "shorter", v(esub[:len(esub)-1], app, old, nw), w("shorter(last)", 0))
				g.mustReject("append", "shorter", v(esub[1:], app, old, nw), w("shorter(first)", 0))
			}
			g.mustReject("append", "datum", v(esub, app[:len(app)-1], old, nw), w("one appended root fewer", 0))
			g.mustReject("append", "datum", v(esub, append(cloneH(app), g.apps[40]), old, nw), w("one appended root more", 0))
			g.mustReject("append", "oldroot", v(esub, app, g.flip(old), nw), w("old root", 0))
			g.mustReject("append", "newroot", v(esub, app, old, g.flip(nw)), w("new root", 0))
			if v(append(cloneH(esub), g.apps[41]), app, old, nw) {
				g.cnt("append.surplus_hash_ignored", 1) // the verifier does not fix the length: not in the catalogue
			}
			if c.K == 1 {
				v2 := func(sub []H, r, o, nw H) bool { return rhp2.VerifyAppendProof(n, sub, r, o, nw) }
				if !v2(esub, app[0], old, nw) {
					ok = false
					g.viol("append-honest-proof-rejected", fmt.Sprintf("rhp2.VerifyAppendProof rejects the honest proof n=%d", c.N), cs)
				} else {
					g.cnt("accept.append_v2", 1)
				}
				for i := range esub {
					p := cloneH(esub)
					p[i] = g.flip(p[i])
					g.mustReject("append", "proofhash", v2(p, app[0], old, nw), w("v2 subtree hash", i))
				}
				if len(esub) > 0 {
					g.mustReject("append", "shorter", v2(esub[:len(esub)-1], app[0], old, nw), w("v2 shorter", 0))
				}
				g.mustReject("append", "datum", v2(esub, g.flip(app[0]), old, nw), w("v2 sector root", 0))
				g.mustReject("append", "oldroot", v2(esub, app[0], g.flip(old), nw), w("v2 old root", 0))
				g.mustReject("append", "newroot", v2(esub, app[0], old, g.flip(nw)), w("v2 new root", 0))
			}
			g.res.Evals++
			if ok {
				g.res.Replayed++
			}
			if len(esub) > 0 {
				g.res.Nontrivial++
			}
		})
	}
	if len(g.exp.Append) > 0 {
		g.res.Samples = append(g.res.Samples, map[string]any{"family": "append", "case": g.exp.Append[len(g.exp.Append)/2]})
	}
}

// ---------------------------------------------------------------------------
// general rhp2 write actions

func (g *side) writeFamily() {
	e := newEnv(g.leaves[:256], g.apps)
	for ci := range g.exp.Write {
		c := g.exp.Write[ci]
		cs := map[string]any{"family": "write", "case": c, "avx2": g.res.AVX2}
		g.guard("write", cs, func() {
			n := uint64(c.N)
			roots := g.leaves[:c.N]
			var as []rhp2.RPCWriteAction
			var appRoots []H
			for _, a := range c.As {
				switch a.T {
				case "append":
					as = append(as, rhp2.RPCWriteAction{Type: rhp2.RPCWriteActionAppend})
					appRoots = append(appRoots, e.mustEval(a.H))
				case "trim":
					as = append(as, rhp2.RPCWriteAction{Type: rhp2.RPCWriteActionTrim, A: uint64(a.A)})
				case "swap":
					as = append(as, rhp2.RPCWriteAction{Type: rhp2.RPCWriteActionSwap, A: uint64(a.A), B: uint64(a.B)})
				default:
					g.infra("unknown action %q", a.T)
					return
				}
			}
			eth, elh := e.evalList(c.Th), e.evalList(c.Lh)
			old, nw := e.mustEval(c.Old), e.mustEval(c.New)
			ok := true
			th, lh := rhp2.BuildDiffProof(as, roots)
			g.addDigest(th...)
			g.addDigest(lh...)
			if !eqH(th, eth) || !eqH(lh, elh) {
				ok = false
				g.viol("write-builder-differs-from-spec", fmt.Sprintf("BuildDiffProof(n=%d, %v): tree %v leaf %v, specification tree %v leaf %v", c.N, c.As, hexs(th), hexs(lh), c.Th, c.Lh), cs)
			}
			if sz := rhp2.DiffProofSize(as, n); sz != uint64(len(eth)+len(elh)) {
				ok = false
				g.viol("write-proofsize-wrong", fmt.Sprintf("DiffProofSize(n=%d, %v) = %d, specification %d", c.N, c.As, sz, len(eth)+len(elh)), cs)
			}
			v := func(th, lh []H, o, nw H) bool {
				var ar []H
				if len(appRoots) > 0 {
					ar = appRoots
				}
				return rhp2.VerifyDiffProof(as, n, th, lh, o, nw, ar)
			}
			if !v(eth, elh, old, nw) {
				ok = false
				g.viol("write-honest-proof-rejected", fmt.Sprintf("VerifyDiffProof rejects the honest proof (n=%d, %v) with the correct old and new roots", c.N, c.As), cs)
			} else {
				g.cnt("accept.write", 1)
			}
			w := func(kind string, i int) func() (string, any) {
				return func() (string, any) {
					return fmt.Sprintf("VerifyDiffProof accepts n=%d %v with corruption %s at %d", c.N, c.As, kind, i), cs
				}
			}
			for i := range eth {
				p := cloneH(eth)
				p[i] = g.flip(p[i])
				g.mustReject("write", "proofhash", v(p, elh, old, nw), w("treehash", i))
			}
			for i := range elh {
				p := cloneH(elh)
				p[i] = g.flip(p[i])
				g.mustReject("write", "datum", v(eth, p, old, nw), w("leafhash", i))
			}
			if len(eth) > 0 {
				g.mustReject("write", "shorter", v(eth[:len(eth)-1], elh, old, nw), w("tree shorter", 0))
			}
			g.mustReject("write", "longer", v(append(cloneH(eth), g.apps[50]), elh, old, nw), w("tree longer", 0))
			if len(elh) > 0 {
				g.mustReject("write", "shorter", v(eth, elh[:len(elh)-1], old, nw), w("leaves shorter", 0))
			}
			g.mustReject("write", "longer", v(eth, append(cloneH(elh), g.apps[50]), old, nw), w("leaves longer", 0))
			g.mustReject("write", "oldroot", v(eth, elh, g.flip(old), nw), w("old root", 0))
			g.mustReject("write", "newroot", v(eth, elh, old, g.flip(nw)), w("new root", 0))
			g.res.Evals++
			if ok {
				g.res.Replayed++
			}
			g.res.Nontrivial++
		})
	}
	if len(g.exp.Write) > 0 {
		g.res.Samples = append(g.res.Samples, map[string]any{"family": "write", "case": g.exp.Write[len(g.exp.Write)/2]})
	}
}

// ---------------------------------------------------------------------------
// sector level

type chunkReader struct {
	r     io.Reader
	sizes []int
	i     int
}

func (c *chunkReader) Read(p []byte) (int, error) {
	n := c.sizes[c.i%len(c.sizes)]
	c.i++
	if len(p) > n {
		p = p[:n]
	}
	return c.r.Read(p)
}

type chunkClass struct {
	name  string
	sizes []int // nil: the plain bytes.Reader
	small bool  // expensive on large inputs: used on small inputs and on a sample of the large ones
}

func (g *side) chunkClasses() []chunkClass {
	r := rand.New(rand.NewSource(g.exp.Seed*13 + 7))
	irr := make([]int, 97)
	for i := range irr {
		irr[i] = 1 + r.Intn(300)
	}
	return []chunkClass{{"whole", nil, false}, {"1", []int{1}, true}, {"63", []int{63}, true}, {"64", []int{64}, false},
		{"65", []int{65}, false}, {"4096", []int{4096}, false}, {"irregular", irr, false}}
}

func (cc chunkClass) reader(b []byte) io.Reader {
	if cc.sizes == nil {
		return bytes.NewReader(b)
	}
	return &chunkReader{r: bytes.NewReader(b), sizes: cc.sizes}
}

type sectorData struct {
	kind   string
	random bool
	data   *[rhp2.SectorSize]byte
	lh     []H
	env    *env
	root   H
	cache  []H
}

func (g *side) makeSector(k int) *sectorData {
	sd := &sectorData{data: new([rhp2.SectorSize]byte)}
	r := rand.New(rand.NewSource(g.exp.Seed*101 + int64(k)))
	switch k % 4 {
	case 0, 3:
		sd.kind, sd.random = "random", true
		r.Read(sd.data[:])
	case 1:
		sd.kind = "zero"
	case 2:
		sd.kind = "periodic" // 7 distinct leaves repeated: many equal subtrees
		var pat [7][64]byte
		for i := range pat {
			r.Read(pat[i][:])
		}
		for i := 0; i < rhp2.LeavesPerSector; i++ {
			copy(sd.data[i*64:], pat[(i*i+i/5)%7][:])
		}
	}
	sd.lh = make([]H, rhp2.LeavesPerSector)
	for i := range sd.lh {
		sd.lh[i] = blake2b.SumLeaf((*[64]byte)(sd.data[i*64:]))
	}
	sd.env = newEnv(sd.lh, nil)
	sd.root = sd.env.plainRoot(0, rhp2.LeavesPerSector)
	return sd
}

func (g *side) sectorFamily() {
	const L = rhp2.LeavesPerSector
	classes := g.chunkClasses()
	ns := g.exp.NSectors
	sectors := map[int]*sectorData{}
	for k := 0; k < ns; k++ {
		sectors[k] = g.makeSector(k)
	}
	for _, c := range g.exp.Sector {
		if sectors[c.Sec] == nil {
			sectors[c.Sec] = g.makeSector(c.Sec)
		}
	}
	for _, c := range g.exp.Roots {
		if sectors[c.Sec] == nil {
			sectors[c.Sec] = g.makeSector(c.Sec)
		}
	}
	for _, c := range g.exp.Stream {
		if sectors[c.Sec] == nil {
			sectors[c.Sec] = g.makeSector(c.Sec)
		}
	}
	if len(sectors) == 0 {
		return
	}
	// --- root functions on whole sectors
	for k := 0; k < ns; k++ {
		sd := sectors[k]
		cs := map[string]any{"family": "sectorroot", "sector": k, "kind": sd.kind, "avx2": g.res.AVX2, "numcpu": g.res.NumCPU}
		g.guard("sectorroot", cs, func() {
			ok := true
			if r := rhp2.SectorRoot(sd.data); r != sd.root {
				ok = false
				g.viol("sectorroot-differs-from-plain-root", fmt.Sprintf("SectorRoot of the %s sector differs from the plain Merkle root (avx2=%v, cpus=%d)", sd.kind, g.res.AVX2, g.res.NumCPU), cs)
			}
			if r := rhp4.SectorRoot((*[rhp4.SectorSize]byte)(sd.data)); r != sd.root {
				ok = false
				g.viol("sectorroot-differs-from-plain-root", "rhp4.SectorRoot differs from the plain Merkle root", cs)
			}
			for _, cc := range classes {
				if cc.small && k > 0 {
					continue
				}
				if r, err := rhp2.ReadSectorRoot(cc.reader(sd.data[:])); err != nil || r != sd.root {
					ok = false
					g.viol("readsectorroot-differs-from-plain-root", fmt.Sprintf("ReadSectorRoot (reader class %s, %s sector) = %x, %v; plain root %x", cc.name, sd.kind, r[:8], err, sd.root[:8]), cs)
				}
				if r, err := rhp2.ReaderRoot(cc.reader(sd.data[:])); err != nil || r != sd.root {
					ok = false
					g.viol("readerroot-differs-from-plain-root", fmt.Sprintf("ReaderRoot (reader class %s, whole %s sector) = %x, %v; plain root %x", cc.name, sd.kind, r[:8], err, sd.root[:8]), cs)
				}
				g.cnt("roots.reader_class."+cc.name, 2)
			}
			if r, sec, err := rhp2.ReadSector(classes[6].reader(sd.data[:])); err != nil || r != sd.root || sec == nil || *sec != *sd.data {
				ok = false
				g.viol("readsectorroot-differs-from-plain-root", fmt.Sprintf("ReadSector returns root %x, %v; plain root %x", r[:8], err, sd.root[:8]), cs)
			}
			g.addDigest(sd.root)
			g.cnt("roots.sector", 1)
			g.res.Evals++
			if ok {
				g.res.Replayed++
			}
		})
	}
	if g.exp.Only == "sectorroots" {
		return
	}
	for k, sd := range sectors {
		k, sd := k, sd
		cs := map[string]any{"family": "sectorcache", "sector": k, "kind": sd.kind, "avx2": g.res.AVX2}
		g.guard("sectorcache", cs, func() {
			sd.cache = rhp4.CachedSectorSubtrees((*[rhp4.SectorSize]byte)(sd.data))
			for i, h := range sd.cache {
				if h != sd.env.plainRoot(64*i, 64*i+64) {
					g.viol("cached-subtree-differs-from-plain-root", fmt.Sprintf("CachedSectorSubtrees[%d] differs from the plain root of leaves [%d,%d)", i, 64*i, 64*i+64), cs)
					break
				}
			}
			if m := rhp2.MetaRoot(sd.lh); m != sd.root {
				g.viol("metaroot-differs-from-plain-root", "MetaRoot of 65536 leaf hashes differs from the plain Merkle root", cs)
			}
			g.cnt("roots.cached_subtrees", int64(len(sd.cache)))
		})
	}
	// --- roots of n leaves: MetaRoot of n hashes, ReaderRoot of n*64 bytes
	big := newEnv(g.leaves[:70001], nil)
	for ci := range g.exp.Roots {
		c := g.exp.Roots[ci]
		cs := map[string]any{"family": "roots", "case": c, "avx2": g.res.AVX2}
		g.guard("roots", cs, func() {
			def, fold := big.mustEval(c.Def), big.mustEval(c.Fold)
			if def != fold {
				g.infra("roots: definition term %s and accumulator fold %s evaluate differently", c.Def, c.Fold)
				return
			}
			ok := true
			if m := rhp2.MetaRoot(g.leaves[:c.N]); m != def {
				ok = false
				g.viol("metaroot-differs-from-plain-root", fmt.Sprintf("MetaRoot of %d roots differs from the plain Merkle root", c.N), cs)
			}
			g.cnt("roots.metaroot", 1)
			if c.N <= L {
				sd := sectors[c.Sec]
				want, want2 := sd.env.mustEval(c.Def), sd.env.mustEval(c.Fold)
				if want != want2 {
					g.infra("roots: definition term %s and accumulator fold %s evaluate differently on sector data", c.Def, c.Fold)
					return
				}
				for _, cc := range classes {
					if cc.small && c.N > 8192 {
						continue
					}
					r, err := rhp2.ReaderRoot(cc.reader(sd.data[:c.N*64]))
					if err != nil || r != want {
						ok = false
						g.viol("readerroot-differs-from-plain-root", fmt.Sprintf("ReaderRoot of %d leaves (reader class %s, %s sector) = %x, %v; plain root %x", c.N, cc.name, sd.kind, r[:8], err, want[:8]), cs)
					}
					g.cnt("roots.reader_class."+cc.name, 1)
				}
				if r, err := rhp4.ReaderRoot(bytes.NewReader(sd.data[:c.N*64])); err != nil || r != want {
					ok = false
					g.viol("readerroot-differs-from-plain-root", fmt.Sprintf("rhp4.ReaderRoot of %d leaves differs from the plain root", c.N), cs)
				}
				g.addDigest(want)
			}
			g.res.Evals++
			if ok {
				g.res.Replayed++
			}
			if c.N > 1 {
				g.res.Nontrivial++
			}
		})
	}
	// --- range proofs within a sector. Expected hashes first (sequential, memoised) ...
	type job struct {
		c   SectorCase
		sd  *sectorData
		k   int
		exp []H
	}
	jobs := make([]*job, len(g.exp.Sector))
	for i, c := range g.exp.Sector {
		k := c.Sec
		jobs[i] = &job{c: c, sd: sectors[k], k: k, exp: sectors[k].env.evalList(c.Proof)}
	}
	outs := make([][]H, len(jobs))
	var wg sync.WaitGroup
	sem := make(chan struct{}, 8)
	var evals, replayed, nontriv int64
	for ji := range jobs {
		wg.Add(1)
		sem <- struct{}{}
		go func(ji int) {
			defer wg.Done()
			defer func() { <-sem }()
			j := jobs[ji]
			c, sd := j.c, j.sd
			cs := map[string]any{"family": "sector", "case": c, "sector": j.k, "kind": sd.kind, "avx2": g.res.AVX2}
			g.guard("sector", cs, func() {
				s, en := uint64(c.S), uint64(c.E)
				exp := j.exp
				ok := true
				p2 := rhp2.BuildProof(sd.data, s, en, nil)
				outs[ji] = p2
				if !eqH(p2, exp) {
					ok = false
					g.viol("sector-builder-differs-from-spec", fmt.Sprintf("BuildProof([%d,%d)) on the %s sector differs from the specification's proof %v", c.S, c.E, sd.kind, c.Proof), cs)
				}
				// with precalculated roots for every other subtree of at least 64 leaves
				pre := func(i, jj uint64) (h H) {
					if jj-i >= 64 && (i/(jj-i))%2 == 0 {
						return sd.env.memoR[uint64(i)<<32|uint64(jj)] // filled by the sequential phase below, else zero
					}
					return
				}
				if pp := rhp2.BuildProof(sd.data, s, en, pre); !eqH(pp, exp) {
					ok = false
					g.viol("sector-builder-differs-from-spec", fmt.Sprintf("BuildProof([%d,%d)) with precalculated subtree roots differs from the specification's proof", c.S, c.E), cs)
				}
				ss, se := rhp4.SectorSubtreeRange(s, en)
				if p4 := rhp4.BuildSectorProof(sd.data[ss*64:se*64], s, en, sd.cache); !eqH(p4, exp) {
					ok = false
					g.viol("sector-builder-differs-from-spec", fmt.Sprintf("rhp4.BuildSectorProof([%d,%d)) on the %s sector differs from the specification's proof %v", c.S, c.E, sd.kind, c.Proof), cs)
				}
				if sz := rhp2.RangeProofSize(L, s, en); sz != uint64(len(exp)) {
					ok = false
					g.viol("range-proofsize-wrong", fmt.Sprintf("RangeProofSize(65536,%d,%d) = %d, specification %d", c.S, c.E, sz, len(exp)), cs)
				}
				rr := sd.lh[s:en]
				vr := func(p, rr []H, s, en uint64, root H) bool {
					return rhp2.VerifySectorRangeProof(p, rr, s, en, L, root)
				}
				if !vr(exp, rr, s, en, sd.root) {
					ok = false
					g.viol("sector-honest-proof-rejected", fmt.Sprintf("VerifySectorRangeProof rejects the honest proof of leaves [%d,%d) of a sector", c.S, c.E), cs)
				} else {
					g.cnt("accept.sector_range", 1)
				}
				// streaming verifier through every reader class
				data := sd.data[s*64 : en*64]
				var base *rhp2.RangeProofVerifier
				for _, cc := range classes {
					if cc.small && en-s > 8192 && ji%8 != 0 {
						continue
					}
					rpv := rhp2.NewRangeProofVerifier(s, en)
					nread, err := rpv.ReadFrom(cc.reader(data))
					if err != nil || nread != int64(len(data)) {
						ok = false
						g.viol("rangeverifier-read-wrong", fmt.Sprintf("RangeProofVerifier.ReadFrom([%d,%d), reader class %s) = %d, %v; %d bytes supplied", c.S, c.E, cc.name, nread, err, len(data)), cs)
						continue
					}
					if base == nil {
						cp := *rpv
						base = &cp
					}
					if !rpv.Verify(exp, sd.root) {
						ok = false
						g.viol("rangeverifier-honest-proof-rejected", fmt.Sprintf("RangeProofVerifier rejects the honest proof of [%d,%d) (reader class %s, %s sector)", c.S, c.E, cc.name, sd.kind), cs)
					} else {
						g.cnt("accept.rangeverifier."+cc.name, 1)
					}
				}
				rpvVerify := func(p []H, root H) bool { cp := *base; return cp.Verify(p, root) }
				w := func(kind string, i int) func() (string, any) {
					return func() (string, any) {
						return fmt.Sprintf("sector range [%d,%d): verifier accepts corruption %s at %d", c.S, c.E, kind, i), cs
					}
				}
				applied := 0
				if sd.random && base != nil {
					for i := range exp {
						p := cloneH(exp)
						p[i] = g.flip(p[i])
						g.mustReject("sector", "proofhash", vr(p, rr, s, en, sd.root), w("proofhash", i))
						g.mustReject("rangeverifier", "proofhash", rpvVerify(p, sd.root), w("proofhash(streaming)", i))
						applied++
					}
					for _, i := range []int{0, len(rr) - 1, (ji * 7919) % len(rr)} {
						r2 := cloneH(rr)
						r2[i] = g.flip(r2[i])
						g.mustReject("sector", "datum", vr(exp, r2, s, en, sd.root), w("datum", i))
					}
					// one bit of the covered data, through the streaming verifier
					{
						d2 := append([]byte(nil), data...)
						pos := (ji*104729 + 13) % len(d2)
						d2[pos] ^= 1 << (uint(ji) % 8)
						rpv := rhp2.NewRangeProofVerifier(s, en)
						rpv.ReadFrom(bytes.NewReader(d2))
						g.mustReject("rangeverifier", "datum", rpv.Verify(exp, sd.root), w("data bit(streaming)", pos))
					}
					if len(exp) > 0 {
						g.mustReject("sector", "shorter", vr(exp[:len(exp)-1], rr, s, en, sd.root), w("shorter", 0))
						g.mustReject("rangeverifier", "shorter", rpvVerify(exp[:len(exp)-1], sd.root), w("shorter(streaming)", 0))
						g.mustReject("rangeverifier", "shorter", rpvVerify(exp[1:], sd.root), w("shorter-first(streaming)", 0))
					}
					g.mustReject("sector", "longer", vr(append(cloneH(exp), g.apps[3]), rr, s, en, sd.root), w("longer", 0))
					g.mustReject("rangeverifier", "longer", rpvVerify(append(cloneH(exp), g.apps[3]), sd.root), w("longer(streaming)", 0))
					g.mustReject("sector", "root", vr(exp, rr, s, en, g.flip(sd.root)), w("root", 0))
					g.mustReject("rangeverifier", "root", rpvVerify(exp, g.flip(sd.root)), w("root(streaming)", 0))
					ln := int64(en - s)
					for _, d := range []int64{-1, 1, -ln, ln, -64, 64, int64(ji*7919%L) - int64(s)} {
						s2, e2 := int64(s)+d, int64(en)+d
						if s2 < 0 || e2 > L || d == 0 {
							continue
						}
						g.mustReject("sector", "index", vr(exp, rr, uint64(s2), uint64(e2), sd.root), w("index", int(d)))
						rpv := rhp2.NewRangeProofVerifier(uint64(s2), uint64(e2))
						rpv.ReadFrom(bytes.NewReader(data))
						g.mustReject("rangeverifier", "index", rpv.Verify(exp, sd.root), w("index(streaming)", int(d)))
					}
				}
				// single leaf: v4 VerifyLeafProof
				if en == s+1 {
					var leaf [64]byte
					copy(leaf[:], data)
					if !rhp4.VerifyLeafProof(exp, leaf, s, sd.root) {
						ok = false
						g.viol("leafproof-honest-proof-rejected", fmt.Sprintf("VerifyLeafProof rejects the honest proof of leaf %d", c.S), cs)
					} else {
						g.cnt("accept.leafproof", 1)
					}
					if sd.random {
						for i := range exp {
							p := cloneH(exp)
							p[i] = g.flip(p[i])
							g.mustReject("leafproof", "proofhash", rhp4.VerifyLeafProof(p, leaf, s, sd.root), w("leafproof hash", i))
						}
						l2 := leaf
						l2[(ji*31)%64] ^= 0x10
						g.mustReject("leafproof", "datum", rhp4.VerifyLeafProof(exp, l2, s, sd.root), w("leaf byte", 0))
						for b := 0; b < 16; b++ {
							g.mustReject("leafproof", "index", rhp4.VerifyLeafProof(exp, leaf, s^(1<<uint(b)), sd.root), w("leaf index bit", b))
						}
						if s+1 < L {
							g.mustReject("leafproof", "index", rhp4.VerifyLeafProof(exp, leaf, s+1, sd.root), w("leaf index+1", 0))
						}
						if s > 0 {
							g.mustReject("leafproof", "index", rhp4.VerifyLeafProof(exp, leaf, s-1, sd.root), w("leaf index-1", 0))
						}
						g.mustReject("leafproof", "root", rhp4.VerifyLeafProof(exp, leaf, s, g.flip(sd.root)), w("leaf root", 0))
						g.mustReject("leafproof", "shorter", rhp4.VerifyLeafProof(exp[:len(exp)-1], leaf, s, sd.root), w("leaf shorter", 0))
						g.mustReject("leafproof", "longer", rhp4.VerifyLeafProof(append(cloneH(exp), g.apps[5]), leaf, s, sd.root), w("leaf longer", 0))
					}
				}
				g.mu.Lock()
				evals++
				if ok {
					replayed++
				}
				if len(exp) > 0 && (applied > 0 || !sd.random) {
					nontriv++
				}
				g.mu.Unlock()
			})
		}(ji)
	}
	wg.Wait()
	for _, o := range outs {
		g.addDigest(o...)
	}
	g.res.Evals += evals
	g.res.Replayed += replayed
	g.res.Nontrivial += nontriv
	if len(g.exp.Sector) > 0 {
		g.res.Samples = append(g.res.Samples, map[string]any{"family": "sector", "case": g.exp.Sector[len(g.exp.Sector)-1]})
	}
	g.streamFamily(sectors, classes)
	var pairs int64
	for _, sd := range sectors {
		pairs += sd.env.pairs
	}
	g.cnt("evaluator.sumpair_calls_sector_level", pairs)
}

// streamFamily: the streaming verifier (NewRangeProofVerifier + ReadFrom + Verify of rhp/v2 and the rhp/v4
// re-export) with altered claimed ranges, truncated and over-long streams; the verdict is the model's.
func (g *side) streamFamily(sectors map[int]*sectorData, classes []chunkClass) {
	const L = rhp2.LeavesPerSector
	if len(g.exp.Stream) == 0 {
		return
	}
	proofs := make([][]H, len(g.exp.Stream))
	for i, c := range g.exp.Stream { // sequential: the evaluator memoises
		proofs[i] = sectors[c.Sec].env.evalList(c.Proof)
	}
	pad := make([]byte, 64*16)
	rand.New(rand.NewSource(g.exp.Seed*17 + 3)).Read(pad)
	var wg sync.WaitGroup
	sem := make(chan struct{}, 8)
	var evals, replayed, nontriv int64
	for ci := range g.exp.Stream {
		wg.Add(1)
		sem <- struct{}{}
		go func(ci int) {
			defer wg.Done()
			defer func() { <-sem }()
			c, sd, proof := g.exp.Stream[ci], sectors[g.exp.Stream[ci].Sec], proofs[ci]
			cs := map[string]any{"family": "stream", "case": c, "sector": c.Sec, "kind": sd.kind, "avx2": g.res.AVX2}
			g.guard("stream", cs, func() {
				full, claimed := 64*(c.E-c.S), 64*(c.E2-c.S2)
				off := c.S * 64
				var stream []byte
				if off+c.Len <= len(sd.data) {
					stream = sd.data[off : off+c.Len]
				} else {
					stream = append(append([]byte(nil), sd.data[off:]...), pad...)
					if len(stream) < c.Len {
						g.infra("stream case %d: %d bytes wanted behind the end of the sector", c.Idx, c.Len)
						return
					}
					stream = stream[:c.Len]
				}
				var usable []chunkClass
				for _, cc := range classes {
					if !cc.small || c.Len <= 64*64 {
						usable = append(usable, cc)
					}
				}
				cc := usable[ci%len(usable)]
				var rpv *rhp2.RangeProofVerifier
				api := "rhp2"
				if ci%2 == 1 {
					rpv, api = rhp4.NewRangeProofVerifier(uint64(c.S2), uint64(c.E2)), "rhp4"
					g.cnt("stream.v4", 1)
				} else {
					rpv = rhp2.NewRangeProofVerifier(uint64(c.S2), uint64(c.E2))
				}
				nread, err := rpv.ReadFrom(cc.reader(stream))
				got := err == nil && rpv.Verify(proof, sd.root)
				// what the case is
				var class string
				switch {
				case c.Pf == 0 && c.S2 == c.S && c.E2 != c.E, c.Pf == 1 && c.S2 == c.S && c.E2 > c.E && c.Len == full:
					class = "altered-end"
				case c.S2 != c.S && c.E2 == c.E:
					class = "altered-start"
				case c.S2 != c.S:
					class = "altered-range"
				case c.Len < claimed:
					class = "truncated-stream"
				case c.Len > claimed:
					class = "overlong-stream"
				default:
					class = "honest"
				}
				desc := fmt.Sprintf("%s.RangeProofVerifier for [%d,%d) given %d bytes of the sector from leaf %d on (honest data of [%d,%d): %d bytes; reader class %s) and the honest proof of [%d,%d): ReadFrom = %d, %v",
					api, c.S2, c.E2, c.Len, c.S, c.S, c.E, full, cc.name, map[int]int{0: c.S, 1: c.S2}[c.Pf], map[int]int{0: c.E, 1: c.E2}[c.Pf], nread, err)
				ok := true
				if err == nil {
					want := c.Len
					if claimed < want {
						want = claimed
					}
					if nread != int64(want) {
						ok = false
						g.viol("rangeverifier-read-wrong", desc+fmt.Sprintf("; %d bytes were to be read", want), cs)
					}
				}
				switch {
				case got && !c.Accept:
					ok = false
					g.viol("rangeverifier-accepts-"+class, desc+"; Verify ACCEPTS, the range-proof model rejects ("+class+")", cs)
				case !got && c.Accept:
					ok = false
					key := "rangeverifier-honest-proof-rejected"
					if class != "honest" {
						key = "rangeverifier-rejects-" + class
					}
					g.viol(key, desc+"; rejected, the range-proof model accepts (the data read and the proof are the honest ones of the claimed range)", cs)
				case got:
					g.cnt("stream.accept.agreed", 1)
					if class == "overlong-stream" {
						g.cnt("stream.overlong.accepted", 1)
					}
				default:
					g.cnt("stream.reject.agreed", 1)
					g.cnt("stream."+strings.ReplaceAll(strings.TrimSuffix(class, "-stream"), "-", "_")+".rejected", 1)
				}
				if c.E2 >= L-8 || c.E >= L-8 {
					g.cnt("stream.last_leaves", 1)
				}
				if c.S <= 8 || c.S2 <= 8 {
					g.cnt("stream.first_leaves", 1)
				}
				if c.S >= L/2-8 && c.S <= L/2+8 || c.E >= L/2-8 && c.E <= L/2+8 {
					g.cnt("stream.middle_leaves", 1)
				}
				g.mu.Lock()
				evals++
				if ok {
					replayed++
				}
				if class != "honest" && len(proof) > 0 {
					nontriv++
				}
				g.mu.Unlock()
			})
		}(ci)
	}
	wg.Wait()
	g.res.Evals += evals
	g.res.Replayed += replayed
	g.res.Nontrivial += nontriv
	g.res.Samples = append(g.res.Samples, map[string]any{"family": "stream", "case": g.exp.Stream[len(g.exp.Stream)-1]})
}
