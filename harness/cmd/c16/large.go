package main

// The sector-root tree at large sizes (spec/merkle/MerkleLarge.tla): contracts with about and more than
// 65536 = LeavesPerSector sector roots. The number of sectors of a contract is not bounded by the size of
// the segment tree inside one sector; TLC supplies the (n, start, end) ranges, the append batches and the
// freed index lists at the boundaries, with the proofs as compact terms R(i,j). The roots are cheap
// synthetic hashes (no sector data), so that a tree of 2^18 roots costs a few milliseconds.

import (
	"fmt"
	"sort"
	"sync"

	"go.sia.tech/core/blake2b"
	rhp2 "go.sia.tech/core/rhp/v2"
	rhp4 "go.sia.tech/core/rhp/v4"
)

type LRangeCase struct {
	N        int      `json:"n"`
	S        int      `json:"s"`
	E        int      `json:"e"`
	Proof    []string `json:"proof"`
	Root     string   `json:"root"`
	Side     string   `json:"side"`     // of the range relative to index 65536: left, across, right
	Verified bool     `json:"verified"` // the model ran its transcribed verifier on this case
}
type LAppendCase struct {
	N   int      `json:"n"`
	K   int      `json:"k"`
	Sub []string `json:"sub"`
	Old string   `json:"old"`
	New string   `json:"new"`
}
type LFreeCase struct {
	N     int      `json:"n"`
	Freed []int    `json:"freed"`
	Th    []string `json:"th"`
	Idx   []int    `json:"idx"`
	Newn  int      `json:"newn"`
	Patch [][]int  `json:"patch"` // [position, original index of the root it holds afterwards]
}

// largeNeed: how many synthetic roots the large cases refer to.
func (e *Expect) largeNeed() int {
	m := 0
	for _, c := range e.LRange {
		if c.N > m {
			m = c.N
		}
	}
	for _, c := range e.LAppend {
		if c.N+c.K > m {
			m = c.N + c.K
		}
	}
	for _, c := range e.LFree {
		if c.N > m {
			m = c.N
		}
	}
	return m
}

// sizeClass of a contract relative to LeavesPerSector.
func sizeClass(n int) string {
	switch {
	case n < LPS:
		return "below_65536"
	case n == LPS:
		return "exactly_65536"
	}
	return "above_65536"
}

type largeJob struct {
	fam string
	run func() (evals, replayed, nontriv int64, out []H)
}

func (g *side) largeFamily() {
	if len(g.exp.LRange)+len(g.exp.LAppend)+len(g.exp.LFree) == 0 {
		return
	}
	big := newEnv(g.leaves, nil)
	var jobs []largeJob

	// ---- per size: MetaRoot and the accumulator against the plain root (sequential: the evaluator memoises)
	sizes := map[int]bool{}
	for _, c := range g.exp.LRange {
		sizes[c.N] = true
	}
	for _, c := range g.exp.LAppend {
		sizes[c.N] = true
		sizes[c.N+c.K] = true
	}
	for _, c := range g.exp.LFree {
		sizes[c.N] = true
	}
	var ns []int
	for n := range sizes {
		ns = append(ns, n)
	}
	sort.Ints(ns)
	rootOf := map[int]H{}
	for i, n := range ns {
		rootOf[n] = big.plainRoot(0, n)
		if i < 2 && plainRootOf(g.leaves[:n]) != rootOf[n] { // the two evaluators of the trusted base against each other
			g.infra("evaluator cross-check failed: plainRootOf and R(0,%d) differ", n)
		}
	}
	for _, n := range ns {
		n := n
		jobs = append(jobs, largeJob{"largeroot", func() (ev, rp, nt int64, out []H) {
			cs := map[string]any{"family": "largeroot", "n": n, "avx2": g.res.AVX2}
			g.guard("largeroot", cs, func() {
				ok := true
				roots := g.leaves[:n:n]
				if m := rhp2.MetaRoot(roots); m != rootOf[n] {
					ok = false
					g.viol("metaroot-differs-from-plain-root", fmt.Sprintf("MetaRoot of %d roots differs from the plain Merkle root", n), cs)
				}
				if m := rhp4.MetaRoot(roots); m != rootOf[n] {
					ok = false
					g.viol("metaroot-differs-from-plain-root", fmt.Sprintf("rhp4.MetaRoot of %d roots differs from the plain Merkle root", n), cs)
				}
				var acc blake2b.Accumulator
				for _, h := range roots {
					acc.AddLeaf(h)
				}
				if H(acc.Root()) != rootOf[n] {
					ok = false
					g.viol("accumulator-root-differs-from-plain-root", fmt.Sprintf("blake2b.Accumulator root of %d leaves differs from the plain Merkle root", n), cs)
				}
				g.cnt("large.roots."+sizeClass(n), 1)
				ev = 1
				if ok {
					rp = 1
				}
				nt = 1
				out = []H{rootOf[n]}
			})
			return
		}})
	}

	// ---- range proofs
	for ci := range g.exp.LRange {
		c := g.exp.LRange[ci]
		exp := big.evalList(c.Proof)
		root := big.mustEval(c.Root)
		jobs = append(jobs, largeJob{"largerange", func() (ev, rp, nt int64, out []H) {
			cs := map[string]any{"family": "largerange", "case": c, "avx2": g.res.AVX2}
			g.guard("largerange", cs, func() {
				n, s, en := uint64(c.N), uint64(c.S), uint64(c.E)
				roots := g.leaves[:c.N:c.N]
				ok := true
				where := fmt.Sprintf("n=%d sector roots (%s), range [%d,%d) %s of index 65536", c.N, sizeClass(c.N), c.S, c.E, c.Side)
				got := rhp2.BuildSectorRangeProof(roots, s, en)
				got4 := rhp4.BuildSectorRootsProof(roots, s, en)
				out = got
				if !eqH(got, exp) {
					ok = false
					g.viol("largerange-builder-differs-from-spec", fmt.Sprintf("BuildSectorRangeProof, %s: %d hashes %v, specification %d hashes %v", where, len(got), hexs(got), len(exp), c.Proof), cs)
				}
				if !eqH(got4, exp) {
					ok = false
					g.viol("largerange-builder-differs-from-spec", fmt.Sprintf("rhp4.BuildSectorRootsProof, %s: %d hashes, specification %d hashes %v", where, len(got4), len(exp), c.Proof), cs)
				}
				if sz := rhp2.RangeProofSize(n, s, en); sz != uint64(len(exp)) {
					ok = false
					g.viol("largerange-proofsize-wrong", fmt.Sprintf("RangeProofSize(%d,%d,%d) = %d, specification %d", c.N, c.S, c.E, sz, len(exp)), cs)
				}
				if en == s+1 {
					if sz := rhp2.ProofSize(n, s); sz != uint64(len(exp)) {
						ok = false
						g.viol("largerange-proofsize-wrong", fmt.Sprintf("ProofSize(%d,%d) = %d, specification %d", c.N, c.S, sz, len(exp)), cs)
					}
				}
				// a verification costs one hash per root of the range: long ranges get the honest proofs through both
				// verifiers and a sample of the corruption catalogue through rhp/v2 (short ones: everything, both)
				heavy := en-s > 2048
				both := true
				g.cnt("large.range."+sizeClass(c.N)+"."+c.Side, 1) // classes exercised (whatever the outcome)
				if c.Verified {
					g.cnt("large.range.verified_in_model", 1)
				}
				v := func(p, rr []H, s, en uint64, root H) bool {
					a := rhp2.VerifySectorRangeProof(p, rr, s, en, n, root)
					if both {
						if b := rhp4.VerifySectorRootsProof(p, rr, n, s, en, root); a != b {
							g.viol("largerange-v2-v4-verifiers-disagree", "VerifySectorRangeProof and VerifySectorRootsProof disagree, "+where, cs)
						}
					}
					return a
				}
				rr := roots[s:en:en]
				// the pair as such: what the real builder hands out must pass the real verifier
				if eqH(got, exp) {
					// the builder's proof is the specification's: verified once, below
				} else if !v(got, rr, s, en, root) {
					ok = false
					g.viol("largerange-builder-proof-rejected-by-verifier", fmt.Sprintf("the proof that BuildSectorRangeProof builds (%d hashes) is rejected by VerifySectorRangeProof with the true root, %s", len(got), where), cs)
				} else {
					g.cnt("accept.largerange.own", 1)
				}
				if !v(exp, rr, s, en, root) {
					if eqH(got, exp) {
						g.viol("largerange-builder-proof-rejected-by-verifier", fmt.Sprintf("the proof that BuildSectorRangeProof builds (%d hashes) is rejected by VerifySectorRangeProof with the true root, %s", len(got), where), cs)
					}
					ok = false
					g.viol("largerange-honest-proof-rejected", "VerifySectorRangeProof rejects the honest proof, "+where, cs)
				} else {
					g.cnt("accept.largerange", 1)
					if eqH(got, exp) {
						g.cnt("accept.largerange.own", 1)
					}
				}
				w := func(kind string, i int) func() (string, any) {
					return func() (string, any) {
						return fmt.Sprintf("VerifySectorRangeProof accepts corruption %s at %d, %s", kind, i, where), cs
					}
				}
				applied := 0
				both = !heavy
				for i := range exp {
					if heavy && i != ci%len(exp) {
						continue
					}
					p := cloneH(exp)
					p[i] = g.flip(p[i])
					g.mustReject("largerange", "proofhash", v(p, rr, s, en, root), w("proofhash", i))
					applied++
				}
				pos := map[int]bool{0: true, len(rr) - 1: true, len(rr) / 2: true}
				for _, x := range []int{LPS - 1, LPS} { // the roots on both sides of index 65536
					if x >= c.S && x < c.E {
						pos[x-c.S] = true
					}
				}
				if heavy { // one of them
					var ps []int
					for i := range pos {
						ps = append(ps, i)
					}
					sort.Ints(ps)
					pos = map[int]bool{ps[ci%len(ps)]: true}
				}
				for i := range pos {
					r2 := cloneH(rr)
					r2[i] = g.flip(r2[i])
					g.mustReject("largerange", "datum", v(exp, r2, s, en, root), w("datum", i))
					applied++
				}
				if len(exp) > 0 {
					g.mustReject("largerange", "shorter", v(exp[:len(exp)-1], rr, s, en, root), w("shorter(last)", 0))
					if !heavy {
						g.mustReject("largerange", "shorter", v(exp[1:], rr, s, en, root), w("shorter(first)", 0))
					}
				}
				g.mustReject("largerange", "longer", v(append(cloneH(exp), g.apps[0]), rr, s, en, root), w("longer", 0))
				ln := int64(en - s)
				for k, s2 := range []int64{int64(s) + 1, int64(s) - 1, int64(s) + ln, int64(s) - ln, 0, int64(n) - ln, int64(s) + LPS, int64(s) - LPS, LPS, LPS - ln} {
					if heavy && k != ci%2 {
						continue
					}
					if s2 < 0 || s2+ln > int64(n) || s2 == int64(s) {
						continue
					}
					g.mustReject("largerange", "index", v(exp, rr, uint64(s2), uint64(s2+ln), root), w("moved to start", int(s2)))
				}
				if !heavy || ci%4 == 0 {
					g.mustReject("largerange", "root", v(exp, rr, s, en, g.flip(root)), w("root", 0))
				}
				ev = 1
				if ok {
					rp = 1
				}
				if len(exp) > 0 && applied > 0 {
					nt = 1
				}
			})
			return
		}})
	}

	// ---- append: leaf n+i of the environment is the i-th appended root
	for ci := range g.exp.LAppend {
		c := g.exp.LAppend[ci]
		esub := big.evalList(c.Sub)
		old, nw := big.mustEval(c.Old), big.mustEval(c.New)
		jobs = append(jobs, largeJob{"largeappend", func() (ev, rp, nt int64, out []H) {
			cs := map[string]any{"family": "largeappend", "case": c, "avx2": g.res.AVX2}
			g.guard("largeappend", cs, func() {
				n := uint64(c.N)
				roots := g.leaves[:c.N:c.N]
				app := g.leaves[c.N : c.N+c.K : c.N+c.K]
				where := fmt.Sprintf("n=%d sector roots (%s), %d appended", c.N, sizeClass(c.N), c.K)
				ok := true
				g.cnt("large.append."+sizeClass(c.N), 1)
				sub, newRoot := rhp4.BuildAppendProof(roots, app)
				out = append(cloneH(sub), newRoot)
				if !eqH(sub, esub) || newRoot != nw {
					ok = false
					g.viol("largeappend-builder-differs-from-spec", fmt.Sprintf("BuildAppendProof, %s: %v / %x, specification %v / %s", where, hexs(sub), newRoot[:8], c.Sub, c.New), cs)
				}
				v := func(sub, app []H, o, nw H) bool { return rhp4.VerifyAppendSectorsProof(n, sub, app, o, nw) }
				if !v(sub, app, old, newRoot) {
					ok = false
					g.viol("largeappend-builder-proof-rejected-by-verifier", "the proof and new root that BuildAppendProof returns are rejected by VerifyAppendSectorsProof with the true old root, "+where, cs)
				}
				if !v(esub, app, old, nw) {
					ok = false
					g.viol("largeappend-honest-proof-rejected", "VerifyAppendSectorsProof rejects the honest proof, "+where, cs)
				} else {
					g.cnt("accept.largeappend", 1)
				}
				w := func(kind string, i int) func() (string, any) {
					return func() (string, any) {
						return fmt.Sprintf("append verifier accepts corruption %s at %d, %s", kind, i, where), cs
					}
				}
				for i := range esub {
					p := cloneH(esub)
					p[i] = g.flip(p[i])
					g.mustReject("largeappend", "proofhash", v(p, app, old, nw), w("subtree hash", i))
				}
				for i := range app {
					p := cloneH(app)
					p[i] = g.flip(p[i])
					g.mustReject("largeappend", "datum", v(esub, p, old, nw), w("appended root", i))
				}
				if len(esub) > 0 {
					g.mustReject("largeappend", "shorter", v(esub[:len(esub)-1], app, old, nw), w("shorter(last)", 0))
					g.mustReject("largeappend", "shorter", v(esub[1:], app, old, nw), w("shorter(first)", 0))
				}
				g.mustReject("largeappend", "oldroot", v(esub, app, g.flip(old), nw), w("old root", 0))
				g.mustReject("largeappend", "newroot", v(esub, app, old, g.flip(nw)), w("new root", 0))
				if c.K == 1 {
					v2 := func(sub []H, r, o, nw H) bool { return rhp2.VerifyAppendProof(n, sub, r, o, nw) }
					if !v2(esub, app[0], old, nw) {
						ok = false
						g.viol("largeappend-honest-proof-rejected", "rhp2.VerifyAppendProof rejects the honest proof, "+where, cs)
					} else {
						g.cnt("accept.largeappend_v2", 1)
					}
					for i := range esub {
						p := cloneH(esub)
						p[i] = g.flip(p[i])
						g.mustReject("largeappend", "proofhash", v2(p, app[0], old, nw), w("v2 subtree hash", i))
					}
					g.mustReject("largeappend", "datum", v2(esub, g.flip(app[0]), old, nw), w("v2 sector root", 0))
					g.mustReject("largeappend", "oldroot", v2(esub, app[0], g.flip(old), nw), w("v2 old root", 0))
					g.mustReject("largeappend", "newroot", v2(esub, app[0], old, g.flip(nw)), w("v2 new root", 0))
				}
				ev = 1
				if ok {
					rp = 1
				}
				if len(esub) > 0 {
					nt = 1
				}
			})
			return
		}})
	}

	// ---- free sectors
	for ci := range g.exp.LFree {
		c := g.exp.LFree[ci]
		eth := big.evalList(c.Th)
		old := rootOf[c.N]
		jobs = append(jobs, largeJob{"largefree", func() (ev, rp, nt int64, out []H) {
			cs := map[string]any{"family": "largefree", "case": c, "avx2": g.res.AVX2}
			g.guard("largefree", cs, func() {
				n := uint64(c.N)
				roots := g.leaves[:c.N:c.N]
				freed := u64s(c.Freed)
				where := fmt.Sprintf("n=%d sector roots (%s), freed %v", c.N, sizeClass(c.N), c.Freed)
				elh := make([]H, len(c.Idx))
				for i, x := range c.Idx {
					elh[i] = roots[x]
				}
				// the resulting contract: the specification's patch applied to the list, then its plain root
				post := cloneH(roots[:c.Newn])
				for _, p := range c.Patch {
					if len(p) != 2 || p[0] >= c.Newn || p[1] >= c.N {
						g.infra("largefree: bad patch %v in case n=%d freed=%v", p, c.N, c.Freed)
						return
					}
					post[p[0]] = roots[p[1]]
				}
				nw := plainRootOf(post)
				ok := true
				g.cnt("large.free."+sizeClass(c.N), 1)
				th, lh := rhp4.BuildFreeSectorsProof(roots, freed)
				th2, lh2 := rhp2.BuildDiffProof(freeActions(freed, n), roots)
				out = append(cloneH(th), lh...)
				if !eqH(th, eth) || !eqH(lh, elh) || !eqH(th2, eth) || !eqH(lh2, elh) {
					ok = false
					g.viol("largefree-builder-differs-from-spec", fmt.Sprintf("BuildFreeSectorsProof, %s: tree %v leaf %v, specification tree %v leaves at %v", where, hexs(th), hexs(lh), c.Th, c.Idx), cs)
				}
				if sz := rhp2.DiffProofSize(freeActions(freed, n), n); sz != uint64(len(eth)+len(elh)) {
					ok = false
					g.viol("largefree-proofsize-wrong", fmt.Sprintf("DiffProofSize, %s = %d, specification %d", where, sz, len(eth)+len(elh)), cs)
				}
				v := func(th, lh []H, o, nw H) bool {
					// every call on its own copy of the proof
					a := rhp4.VerifyFreeSectorsProof(cloneH(th), cloneH(lh), freed, n, o, nw)
					b := rhp2.VerifyDiffProof(freeActions(freed, n), n, cloneH(th), cloneH(lh), o, nw, nil)
					if a != b {
						g.viol("largefree-v2-v4-verifiers-disagree", "VerifyFreeSectorsProof and VerifyDiffProof on the converted actions disagree, "+where, cs)
					}
					return a
				}
				if !v(th, lh, old, nw) {
					ok = false
					g.viol("largefree-builder-proof-rejected-by-verifier", "the proof that BuildFreeSectorsProof builds is rejected by VerifyFreeSectorsProof with the true old and new roots, "+where, cs)
				}
				if !v(eth, elh, old, nw) {
					ok = false
					g.viol("largefree-honest-proof-rejected", "VerifyFreeSectorsProof rejects the honest proof with the correct old and new roots, "+where, cs)
				} else {
					g.cnt("accept.largefree", 1)
				}
				w := func(kind string, i int) func() (string, any) {
					return func() (string, any) {
						return fmt.Sprintf("VerifyFreeSectorsProof accepts corruption %s at %d, %s", kind, i, where), cs
					}
				}
				for i := range eth {
					p := cloneH(eth)
					p[i] = g.flip(p[i])
					g.mustReject("largefree", "proofhash", v(p, elh, old, nw), w("treehash", i))
				}
				for i := range elh {
					p := cloneH(elh)
					p[i] = g.flip(p[i])
					g.mustReject("largefree", "datum", v(eth, p, old, nw), w("leafhash", i))
				}
				if len(eth) > 0 {
					g.mustReject("largefree", "shorter", v(eth[:len(eth)-1], elh, old, nw), w("tree shorter(last)", 0))
					g.mustReject("largefree", "shorter", v(eth[1:], elh, old, nw), w("tree shorter(first)", 0))
				}
				g.mustReject("largefree", "longer", v(append(cloneH(eth), g.apps[0]), elh, old, nw), w("tree longer", 0))
				g.mustReject("largefree", "shorter", v(eth, elh[:len(elh)-1], old, nw), w("leaves shorter", 0))
				g.mustReject("largefree", "longer", v(eth, append(cloneH(elh), g.apps[0]), old, nw), w("leaves longer", 0))
				g.mustReject("largefree", "oldroot", v(eth, elh, g.flip(old), nw), w("old root", 0))
				g.mustReject("largefree", "newroot", v(eth, elh, old, g.flip(nw)), w("new root", 0))
				ev, nt = 1, 1
				if ok {
					rp = 1
				}
			})
			return
		}})
	}

	type res struct {
		ev, rp, nt int64
		out        []H
	}
	results := make([]res, len(jobs))
	var wg sync.WaitGroup
	sem := make(chan struct{}, 8)
	for ji := range jobs {
		wg.Add(1)
		sem <- struct{}{}
		go func(ji int) {
			defer wg.Done()
			defer func() { <-sem }()
			r := &results[ji]
			r.ev, r.rp, r.nt, r.out = jobs[ji].run()
		}(ji)
	}
	wg.Wait()
	for _, r := range results {
		g.res.Evals += r.ev
		g.res.Replayed += r.rp
		g.res.Nontrivial += r.nt
		g.addDigest(r.out...)
	}
	g.cnt("evaluator.sumpair_calls_large_root_trees", big.pairs)
	for _, c := range g.exp.LRange {
		if c.N > LPS && c.Side == "across" && len(c.Proof) > 0 {
			g.res.Samples = append(g.res.Samples, map[string]any{"family": "largerange", "case": c})
			break
		}
	}
}
