package main

// Histories of updates (Purity!Place / Purity!Look; design model spec/pure/OwnershipMC.tla).
//
// Results are independent values.  What ApplyBlock and RevertBlock return is kept by callers - every update of a chain,
// one after the other - and USED by them: holders (wallets, contract stores, transaction pools) take a copy of each
// element out of an update's diffs and from then on bring it up to date with every later update through that update's own
// UpdateElementProof, spent / revised / resolved elements included (they are needed again when the block is reverted).
// No single call shows whether the refreshed cell is still the holder's own memory: a refresh that hands the holder
// the update's array leaves exactly the content an honest refresh leaves.  The damage is done by the NEXT refresh, which
// rewrites the proof in place - in the earlier update, and in every other holder that was refreshed with it.
//
// For one simulated Ledger behaviour the experiment replays the whole chain (genesis, every accepted block, reverts and
// what is built on top) with three holders that obtained their elements differently:
//
//	copy   Copy() of every element of every update's diffs; on a revert the elements the block touched are refreshed
//	       with RevertUpdate.UpdateElementProof like all others
//	json   the JSON round trip of the same elements; on a revert the elements the block touched are taken afresh from the
//	       RevertUpdate's diffs
//	late   joins after the third update with Copy() of the (refreshed) elements of the first holder
//
// and logs, in order:  P publish (the update just returned: the proof arrays reachable from it) and L (its deep digest);
// per holder and tracked element one M (UpdateElementProof: digest before / after, content after, and the array that
// backs the cell after the refresh), P track for every element newly taken; after each holder's pass an L of EVERY update
// returned so far and an A of every other holder's cells; after each update a B/E pair per holder in which the real
// accumulator judges every proof the holder keeps (one key: holders agree).  The updates applied are computed afresh
// from (parent state, block, supplement) so that no memory of the chain harness's own store is involved.

import (
	"encoding/json"
	"fmt"
	"runtime"
	"sort"
	"strings"
	"sync/atomic"
	"time"
	"unsafe"

	"go.sia.tech/core/consensus"
	"go.sia.tech/core/types"
	"verif/harness/chain"
)

// cellRegion is the memory that backs one element proof up to its capacity.
func cellRegion(se *types.StateElement) []region {
	if cap(se.MerkleProof) == 0 {
		return nil
	}
	lo := uintptr(unsafe.Pointer(unsafe.SliceData(se.MerkleProof)))
	return []region{{lo: lo, hi: lo + uintptr(cap(se.MerkleProof))*32}}
}

// updateRegions lists the distinct proof arrays (slices of hashes, up to capacity) reachable from an update.  Memory of
// the block and supplement the update was computed from is left out: an update holds the block's resolution objects (a
// storage proof with its history proof) by pointer - information only, nothing writes there, and the updates of a block
// that is applied, reverted and applied again all point to the one block; that no ACCUMULATOR proof of an update lives in
// input memory is the clause Purity!EndFresh of every apply / revert call.
func updateRegions(ptr any, in *input) (out []region) {
	var ir []region
	if in != nil {
		ir = append(regions(&in.B, isHash, false), regions(&in.Supp, isHash, false)...)
	}
	seen := map[[2]uintptr]bool{}
	for _, r := range regions(ptr, isHash, false) {
		k := [2]uintptr{r.lo, r.hi}
		if seen[k] || len(overlaps([]region{r}, ir)) > 0 {
			continue
		}
		seen[k] = true
		out = append(out, region{lo: r.lo, hi: r.hi})
	}
	return out
}

// updater is what ApplyUpdate and RevertUpdate have in common for a holder.
type updater interface {
	diffs
	UpdateElementProof(*types.StateElement)
}

type heldElem struct {
	name string // kind and id
	cell string // the Mem of the cell (a new one whenever the element is taken anew)
	sc   *types.SiacoinElement
	sf   *types.SiafundElement
	fc   *types.FileContractElement
	v2   *types.V2FileContractElement
	cie  *types.ChainIndexElement
	gone bool // spent / resolved: the leaf is in the accumulator as such
}

func (e *heldElem) se() *types.StateElement {
	switch {
	case e.sc != nil:
		return &e.sc.StateElement
	case e.sf != nil:
		return &e.sf.StateElement
	case e.fc != nil:
		return &e.fc.StateElement
	case e.v2 != nil:
		return &e.v2.StateElement
	default:
		return &e.cie.StateElement
	}
}

// valid asks the real accumulator about the proof the holder keeps.
func (e *heldElem) valid(acc *consensus.ElementAccumulator) bool {
	switch {
	case e.sc != nil:
		c := e.sc.Copy()
		return acc.VerifContainsLeaf(consensus.VerifSiacoinLeaf(&c, e.gone))
	case e.sf != nil:
		c := e.sf.Copy()
		return acc.VerifContainsLeaf(consensus.VerifSiafundLeaf(&c, e.gone))
	case e.fc != nil:
		c := e.fc.Copy()
		return acc.VerifContainsLeaf(consensus.VerifFileContractLeaf(&c, nil, e.gone))
	case e.v2 != nil:
		c := e.v2.Copy()
		return acc.VerifContainsLeaf(consensus.VerifV2FileContractLeaf(&c, nil, e.gone))
	default:
		c := e.cie.Copy()
		return acc.VerifContainsLeaf(consensus.VerifChainIndexLeaf(&c))
	}
}

type holder struct {
	kind   string
	mem    string
	els    map[string]*heldElem
	seq    int
	epoch  int
	joined bool
	grave  []*heldElem // elements given up: kept alive so that their addresses are not handed out again during the history
}

func (h *holder) names() []string {
	out := make([]string, 0, len(h.els))
	for n := range h.els {
		out = append(out, n)
	}
	sort.Strings(out)
	return out
}

// digest of every cell the holder keeps
func (h *holder) digest() string {
	var parts [][]byte
	for _, n := range h.names() {
		parts = append(parts, []byte(n), []byte(deep(h.els[n].se())))
	}
	return sha(parts...)
}

type pubUpdate struct {
	name, mem, op string
	val           any // *consensus.ApplyUpdate | *consensus.RevertUpdate
}

type histStats struct {
	runs, updates, applies, reverts, refreshes, tracked, looks, valid, invalid int

	sameLeaf            map[string]int // refreshes of an element the update itself updated, by op and era
	rewrittenAfterwards map[string]int // ... whose cell was rewritten in place by a later refresh
	grown, rewritten    int
	late                int
	retaken             int
	byShape             map[string]int
}

func (a *histStats) add(b histStats) {
	a.runs += b.runs
	a.updates += b.updates
	a.applies += b.applies
	a.reverts += b.reverts
	a.refreshes += b.refreshes
	a.tracked += b.tracked
	a.looks += b.looks
	a.valid += b.valid
	a.invalid += b.invalid
	a.grown += b.grown
	a.rewritten += b.rewritten
	a.late += b.late
	a.retaken += b.retaken
	if a.sameLeaf == nil {
		a.sameLeaf, a.rewrittenAfterwards, a.byShape = map[string]int{}, map[string]int{}, map[string]int{}
	}
	for k, v := range b.sameLeaf {
		a.sameLeaf[k] += v
	}
	for k, v := range b.rewrittenAfterwards {
		a.rewrittenAfterwards[k] += v
	}
	for k, v := range b.byShape {
		a.byShape[k] += v
	}
}

var histRunSeq atomic.Int64

type history struct {
	rec     *recorder
	seg     string
	run     int64
	ci      *caseInfo
	holders []*holder
	ups     []*pubUpdate
	st      histStats
	// cells that were refreshed by an update that itself updated their leaf and have not been rewritten since: cell -> class
	pending map[string]string
	failed  error
}

func elemName(kind string, id [32]byte) string { return fmt.Sprintf("%s:%x", kind, id[:6]) }

// newHistory starts the history of a chain with its genesis block.
func newHistory(rec *recorder, sim *chain.Sim, ci *caseInfo, tag string) *history {
	run := histRunSeq.Add(1)
	h := &history{rec: rec, run: run, ci: ci, seg: fmt.Sprintf("hist/%s/%d", tag, run), pending: map[string]string{}}
	h.st.sameLeaf, h.st.rewrittenAfterwards, h.st.byShape = map[string]int{}, map[string]int{}, map[string]int{}
	h.st.runs = 1
	h.st.byShape[ci.shape]++
	for _, k := range []string{"copy", "json", "late"} {
		h.holders = append(h.holders, &holder{kind: k, mem: fmt.Sprintf("h%d.%s", run, k), els: map[string]*heldElem{}, joined: k != "late"})
	}
	h.guard(func() {
		supp := consensus.V1BlockSupplement{Transactions: make([]consensus.V1TransactionSupplement, len(sim.Gen.Transactions))}
		cs, au := consensus.ApplyBlock(sim.Net.GenesisState(), sim.Gen, supp, time.Time{})
		h.step(&au, "apply", "v1", &cs.Elements, types.ChainIndex{}, &input{B: sim.Gen, Supp: supp})
	})
	return h
}

var nsHist atomic.Int64

func (h *history) guard(f func()) {
	if h.failed != nil {
		return
	}
	t0 := time.Now()
	defer func() { nsHist.Add(int64(time.Since(t0))) }()
	defer func() {
		if r := recover(); r != nil {
			h.failed = fmt.Errorf("history experiment: panic: %v", r)
		}
	}()
	f()
}

// applied: the chain accepted a block; the update is computed afresh from the same inputs.
func (h *history) applied(a chain.Applied) {
	h.guard(func() {
		cs, au := consensus.ApplyBlock(a.Prev, a.Block, a.Supp, time.Time{})
		era := "v1"
		if a.Block.V2 != nil {
			era = "v2"
		}
		h.step(&au, "apply", era, &cs.Elements, types.ChainIndex{}, &input{B: a.Block, Supp: a.Supp})
	})
}

// reverted: the chain reverted its tip.
func (h *history) reverted(a chain.Applied) {
	h.guard(func() {
		ru := consensus.RevertBlock(a.Prev, a.Block, a.Supp)
		era := "v1"
		if a.Block.V2 != nil {
			era = "v2"
		}
		acc := a.Prev.Elements
		h.step(&ru, "revert", era, &acc, a.Next.Index, &input{B: a.Block, Supp: a.Supp})
	})
}

func (h *history) info(kind, op string) *callInfo {
	return &callInfo{cs: h.ci, kind: kind, fn: "history-" + op, cell: -1, updKind: "", updCell: -1}
}

// lookAll looks at every update returned so far (recent > 0: at the most recent ones only).
func (h *history) lookAll(by *holder, op string, recent int) {
	for i, u := range h.ups {
		if recent > 0 && i < len(h.ups)-recent {
			continue
		}
		in := h.info("update", op)
		in.note = u.op
		if by != nil {
			in.updKind = by.kind
		}
		h.rec.add(Event{Ev: "L", Case: h.seg, Mem: u.mem, D: deep(u.val), call: in})
		h.st.looks++
	}
}

func obtainJSON[T any](src T) T {
	var out T
	js, err := json.Marshal(src)
	if err != nil {
		panic(fmt.Sprintf("element does not encode as JSON: %v", err))
	}
	if err := json.Unmarshal(js, &out); err != nil {
		panic(fmt.Sprintf("element does not decode from its JSON: %v", err))
	}
	return out
}

// take makes the holder's own value of an element of an update's diffs.
func (ho *holder) take(name string, sc *types.SiacoinElement, sf *types.SiafundElement, fc *types.FileContractElement, v2 *types.V2FileContractElement, cie *types.ChainIndexElement) *heldElem {
	e := &heldElem{name: name}
	js := ho.kind == "json"
	switch {
	case sc != nil:
		c := sc.Copy()
		if js {
			c = obtainJSON(*sc)
		}
		e.sc = &c
	case sf != nil:
		c := sf.Copy()
		if js {
			c = obtainJSON(*sf)
		}
		e.sf = &c
	case fc != nil:
		c := fc.Copy()
		if js {
			c = obtainJSON(*fc)
		}
		e.fc = &c
	case v2 != nil:
		c := v2.Copy()
		if js {
			c = obtainJSON(*v2)
		}
		e.v2 = &c
	default:
		c := cie.Copy()
		if js {
			c = obtainJSON(*cie)
		}
		e.cie = &c
	}
	return e
}

func (h *history) place(ho *holder, e *heldElem, op string) {
	if old := ho.els[e.name]; old != nil {
		h.release(ho, old)
	}
	ho.seq++
	e.cell = fmt.Sprintf("%s#%d", ho.mem, ho.seq)
	ho.els[e.name] = e
	in := h.info(ho.kind, op)
	in.note = e.name
	h.rec.add(Event{Ev: "P", Case: h.seg, Mem: e.cell, own: &own{Who: ho.mem, By: "track", raw: cellRegion(e.se())}, call: in})
	h.st.tracked++
}

func (h *history) release(ho *holder, e *heldElem) {
	delete(ho.els, e.name)
	delete(h.pending, e.cell)
	ho.grave = append(ho.grave, e)
	h.rec.add(Event{Ev: "P", Case: h.seg, Mem: e.cell, own: &own{Who: ho.mem, By: "release"}})
}

// step: one update is returned and every holder processes it.
func (h *history) step(u updater, op, era string, acc *consensus.ElementAccumulator, revertedTip types.ChainIndex, from *input) {
	k := len(h.ups)
	pu := &pubUpdate{name: fmt.Sprintf("%s%d", map[string]string{"apply": "au", "revert": "ru"}[op], k), op: op, val: u}
	pu.mem = fmt.Sprintf("h%d.%s", h.run, pu.name)
	h.ups = append(h.ups, pu)
	h.st.updates++
	if op == "apply" {
		h.st.applies++
	} else {
		h.st.reverts++
	}
	pin := h.info("update", op)
	pin.note = op
	h.rec.add(Event{Ev: "P", Case: h.seg, Mem: pu.mem, own: &own{Who: pu.mem, Frozen: true, By: "publish", raw: updateRegions(u, from)}, call: pin})
	h.lookAll(nil, op, 0)

	// what the update says about elements
	type touch struct {
		created, spent bool
		sc             *types.SiacoinElement
		sf             *types.SiafundElement
		fc             *types.FileContractElement
		fcRev          *types.FileContract
		v2             *types.V2FileContractElement
		v2Rev          *types.V2FileContract
		cie            *types.ChainIndexElement
	}
	touched := map[string]*touch{}
	var order []string
	put := func(n string, t *touch) {
		touched[n] = t
		order = append(order, n)
	}
	scd, sfd, fcd, v2d := u.SiacoinElementDiffs(), u.SiafundElementDiffs(), u.FileContractElementDiffs(), u.V2FileContractElementDiffs()
	for i := range scd {
		d := &scd[i]
		put(elemName("sc", d.SiacoinElement.ID), &touch{created: d.Created, spent: d.Spent, sc: &d.SiacoinElement})
	}
	for i := range sfd {
		d := &sfd[i]
		put(elemName("sf", d.SiafundElement.ID), &touch{created: d.Created, spent: d.Spent, sf: &d.SiafundElement})
	}
	for i := range fcd {
		d := &fcd[i]
		put(elemName("fc", d.FileContractElement.ID), &touch{created: d.Created, spent: d.Resolved, fc: &d.FileContractElement, fcRev: d.Revision})
	}
	for i := range v2d {
		d := &v2d[i]
		put(elemName("v2fc", d.V2FileContractElement.ID), &touch{created: d.Created, spent: d.Resolution != nil, v2: &d.V2FileContractElement, v2Rev: d.Revision})
	}
	cie := u.ChainIndexElement()
	cieName := elemName("cie", cie.ID)
	if op == "revert" {
		cieName = elemName("cie", revertedTip.ID)
	}

	for _, ho := range h.holders {
		if ho.kind == "late" && !ho.joined {
			if k < 2 {
				continue
			}
			// joins with copies of what the first holder keeps (refreshed many times by now), before this update
			ho.joined = true
			src := h.holders[0]
			for _, n := range src.names() {
				e := src.els[n]
				ne := ho.take(n, e.sc, e.sf, e.fc, e.v2, e.cie)
				ne.gone = e.gone
				h.place(ho, ne, op)
				h.st.late++
			}
			// the first holder's cells were seen before this join and must be as they were
			h.rec.add(Event{Ev: "A", Case: h.seg, Mem: fmt.Sprintf("%s@%d", src.mem, src.epoch), D: src.digest(), call: &callInfo{cs: h.ci, kind: src.kind, fn: "history-" + op, cell: -1, updKind: ho.kind, updCell: -1, note: "join"}})
		}
		// 1. the elements the holder keeps are refreshed
		for _, n := range ho.names() {
			e := ho.els[n]
			t := touched[n]
			if op == "revert" && ((t != nil && t.created) || n == cieName) {
				h.release(ho, e) // the element is no longer in the accumulator
				continue
			}
			if op == "revert" && t != nil && ho.kind == "json" {
				// taken afresh, as the block found it
				ne := ho.take(n, t.sc, t.sf, t.fc, t.v2, nil)
				h.place(ho, ne, op)
				h.st.retaken++
				continue
			}
			se := e.se()
			if se.LeafIndex == types.UnassignedLeafIndex {
				continue
			}
			before := cellContent(se)
			d0 := deep(se)
			l0 := len(se.MerkleProof)
			res := ""
			func() {
				defer func() {
					if r := recover(); r != nil {
						res = "panic"
					}
				}()
				u.UpdateElementProof(se)
			}()
			after := cellContent(se)
			if res == "" {
				res = sha(after)
			}
			in := h.info(ho.kind, op)
			in.updKind, in.note = ho.kind, n+" with "+pu.name
			h.rec.add(Event{Ev: "M", ID: int(h.rec.nextID.Add(1)), Fn: "upd:" + sha(before) + ":" + pu.name, Op: "history-" + op, Case: h.seg, Mem: e.cell, D: d0, D1: deep(se), Res: res,
				own: &own{Who: ho.mem, raw: cellRegion(se)}, call: in})
			h.st.refreshes++
			if len(se.MerkleProof) > l0 {
				h.st.grown++
			}
			inPlace := len(after) >= len(before) && string(after[:len(before)]) != string(before)
			if inPlace {
				h.st.rewritten++
				if cl, ok := h.pending[e.cell]; ok {
					h.st.rewrittenAfterwards[cl]++
					delete(h.pending, e.cell)
				}
			}
			if t != nil && !t.created {
				cl := op + "/" + era + "/" + strings.SplitN(n, ":", 2)[0]
				h.st.sameLeaf[cl]++
				h.pending[e.cell] = cl
			}
		}
		// 2. what the update says is taken over
		for _, n := range order {
			t := touched[n]
			if op == "apply" {
				if t.created {
					h.place(ho, ho.take(n, t.sc, t.sf, t.fc, t.v2, nil), op)
				}
				e := ho.els[n]
				if e == nil {
					continue
				}
				if t.fcRev != nil {
					e.fc.FileContract = *t.fcRev
				}
				if t.v2Rev != nil {
					e.v2.V2FileContract = *t.v2Rev
				}
				if t.spent {
					e.gone = true
				}
			} else if e := ho.els[n]; e != nil && !t.created {
				e.gone = false
				if t.fc != nil {
					e.fc.FileContract = t.fc.FileContract
				}
				if t.v2 != nil {
					e.v2.V2FileContract = t.v2.V2FileContract
				}
			}
		}
		if op == "apply" {
			h.place(ho, ho.take(cieName, nil, nil, nil, nil, &cie), op)
		}
		// 3. the holder's cells have new contents; nobody else's memory has: every update ever returned, every other holder
		ho.epoch++
		h.rec.add(Event{Ev: "A", Case: h.seg, Mem: fmt.Sprintf("%s@%d", ho.mem, ho.epoch), D: ho.digest(), call: &callInfo{cs: h.ci, kind: ho.kind, fn: "history-" + op, cell: -1, updKind: ho.kind, updCell: -1}})
		// (after the last holder every update ever returned, after the others the three most recent)
		if ho == h.holders[len(h.holders)-1] {
			h.lookAll(ho, op, 0)
		} else {
			h.lookAll(ho, op, 3)
		}
		for _, other := range h.holders {
			if other != ho && other.joined {
				h.rec.add(Event{Ev: "A", Case: h.seg, Mem: fmt.Sprintf("%s@%d", other.mem, other.epoch), D: other.digest(),
					call: &callInfo{cs: h.ci, kind: other.kind, fn: "history-" + op, cell: -1, updKind: ho.kind, updCell: -1, note: pu.name}})
			}
		}
	}
	// 4. the real accumulator judges what each holder keeps: one key, one answer
	for _, ho := range h.holders {
		if !ho.joined {
			continue
		}
		mem := fmt.Sprintf("%s/all@%d", ho.mem, ho.epoch)
		in := &callInfo{cs: h.ci, kind: ho.kind, fn: "holder-proofs-valid"}
		id := int(h.rec.nextID.Add(1))
		h.rec.add(Event{Ev: "B", ID: id, Fn: "holder-proofs-valid@" + pu.name, Case: h.seg, Mem: mem, D: ho.digest(), call: in})
		o := guarded(func() outcome {
			var sb strings.Builder
			for _, n := range ho.names() {
				if ho.els[n].valid(acc) {
					sb.WriteByte('1')
				} else {
					sb.WriteByte('0')
				}
			}
			return outcome{res: "hv:" + sb.String(), fresh: true}
		})
		h.rec.add(Event{Ev: "E", ID: id, Res: o.res, D: ho.digest(), Fresh: true, call: in})
		h.st.valid++
		if ho.kind == "copy" && (strings.Contains(o.res, "0") || strings.HasPrefix(o.res, "panic")) {
			h.st.invalid++
		}
	}
}

// finish looks at everything once more and gives the memory up.
func (h *history) finish() (histStats, error) {
	if h.failed != nil {
		return h.st, h.failed
	}
	h.lookAll(nil, "end", 0)
	for _, ho := range h.holders {
		if ho.joined {
			h.rec.add(Event{Ev: "A", Case: h.seg, Mem: fmt.Sprintf("%s@%d", ho.mem, ho.epoch), D: ho.digest(), call: &callInfo{cs: h.ci, kind: ho.kind, fn: "history-end", cell: -1, updKind: "", updCell: -1}})
		}
	}
	runtime.KeepAlive(h.holders)
	runtime.KeepAlive(h.ups)
	return h.st, nil
}

// runHistory replays a whole behaviour with the history experiment only (re-execution of a rejected history).
func runHistory(rec *recorder, p chain.Params, steps []chain.Step, ci *caseInfo) (err error) {
	defer func() {
		if r := recover(); r != nil {
			err = fmt.Errorf("panic: %v", r)
		}
	}()
	sim := chain.NewSim(p)
	h := newHistory(rec, sim, ci, "rerun")
	for i, st := range steps {
		if st.Op == "revert" {
			if len(sim.Chain) == 0 {
				break
			}
			a, _ := sim.Revert()
			h.reverted(a)
			continue
		}
		in, ctx, err := build(sim, st)
		if err != nil {
			return fmt.Errorf("step %d: %v", i, err)
		}
		if st.Verdict != "accept" {
			continue
		}
		if e, pn := sim.Validate(in.B, in.Supp); e != nil || pn != nil {
			break // specification and code disagree: the recorded run stopped here too
		}
		ctx.Commit()
		sim.Apply(in.B, in.Supp)
		h.applied(sim.Chain[len(sim.Chain)-1])
	}
	_, err = h.finish()
	return err
}
