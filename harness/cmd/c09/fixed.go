package main

// Fixed behaviours of Ledger.tla that are run besides the ones TLC draws, so that whatever the seed the classes of
// values the memory probes and the update experiment need occur: a valid block carrying a v2 storage proof (history
// proof = a chain index element with a non-empty Merkle proof), a transaction with two siacoin inputs and a siafund
// transaction (>= 2 non-ephemeral elements in several transactions of one multiproof), a renewal, an expiration, and
// the v1 counterparts (supplement elements of every kind); v2 blocks that reference ONE accumulator element more than
// once (two revisions of one contract in two transactions, a revision followed by a renewal, two storage proofs that
// carry the same chain index element) — the multiproof codec has to restore every reference; and v1 transactions
// whose signatures cover the transaction field by field (CoveredFields without WholeTransaction: the only path to
// State.PartialSigHash), alone and followed by v2 blocks; and v1 blocks that touch one contract more than once (formed
// and revised, revised twice, revised and proved in one block) — the payout of a v1 revision is not transmitted, so
// the copies of such a block differ in memory and must not differ in effect.  Every step must be accepted by the real code.  The fixed
// behaviours run in the same goroutine pool as the drawn behaviours of their shape (the hasher pools are global).

import (
	"encoding/json"
	"fmt"
	"strings"

	"go.sia.tech/core/types"
	"verif/harness/chain"
)

// partialMark on the tag of a v1 transaction: the harness replaces its WholeTransaction signatures by signatures that
// name every field of the transaction in CoveredFields (same semantics, other signature hash function).
const partialMark = "+partial"

// resignPartial re-signs txn (built and signed by the chain harness) with field-by-field coverage.
func resignPartial(sim *chain.Sim, txn *types.Transaction) error {
	seq := func(n int) (out []uint64) {
		for i := 0; i < n; i++ {
			out = append(out, uint64(i))
		}
		return
	}
	cf := types.CoveredFields{SiacoinInputs: seq(len(txn.SiacoinInputs)), SiacoinOutputs: seq(len(txn.SiacoinOutputs)), FileContracts: seq(len(txn.FileContracts)),
		FileContractRevisions: seq(len(txn.FileContractRevisions)), StorageProofs: seq(len(txn.StorageProofs)), SiafundInputs: seq(len(txn.SiafundInputs)),
		SiafundOutputs: seq(len(txn.SiafundOutputs)), MinerFees: seq(len(txn.MinerFees)), ArbitraryData: seq(len(txn.ArbitraryData))}
	if len(txn.Signatures) == 0 {
		return fmt.Errorf("partial coverage: the transaction has no signature")
	}
	for i := range txn.Signatures {
		sg := &txn.Signatures[i]
		var uc *types.UnlockConditions
		for j := range txn.SiacoinInputs {
			if types.Hash256(txn.SiacoinInputs[j].ParentID) == sg.ParentID {
				uc = &txn.SiacoinInputs[j].UnlockConditions
			}
		}
		for j := range txn.SiafundInputs {
			if types.Hash256(txn.SiafundInputs[j].ParentID) == sg.ParentID {
				uc = &txn.SiafundInputs[j].UnlockConditions
			}
		}
		for j := range txn.FileContractRevisions {
			if types.Hash256(txn.FileContractRevisions[j].ParentID) == sg.ParentID {
				uc = &txn.FileContractRevisions[j].UnlockConditions
			}
		}
		if uc == nil || int(sg.PublicKeyIndex) >= len(uc.PublicKeys) || len(uc.PublicKeys[sg.PublicKeyIndex].Key) != 32 {
			return fmt.Errorf("partial coverage: no key for signature %d", i)
		}
		var pk types.PublicKey
		copy(pk[:], uc.PublicKeys[sg.PublicKeyIndex].Key)
		name := sim.K.NameOfKey(pk)
		if name == "" {
			return fmt.Errorf("partial coverage: unknown key for signature %d", i)
		}
		sg.CoveredFields = cf
		sig := sim.K.SK(name).SignHash(sim.CS.PartialSigHash(*txn, cf))
		sg.Signature = sig[:]
	}
	return nil
}

// partialSigs counts the v1 signatures of a block that do not cover the whole transaction.
func partialSigs(b *types.Block) (n int) {
	for _, t := range b.Transactions {
		for _, sg := range t.Signatures {
			if !sg.CoveredFields.WholeTransaction {
				n++
			}
		}
	}
	return
}

type fixedBehaviour struct {
	name, shape string
	steps       []chain.Step
}

func c2JSON(r, h uint64, ra string, mh, coll, ph, eh, rn uint64) json.RawMessage {
	b, _ := json.Marshal(map[string]any{"r": r, "h": h, "ra": ra, "ha": "B", "mh": mh, "coll": coll, "ph": ph, "eh": eh, "rn": rn, "cap": 128, "size": 64, "rk": "R", "hk": "H", "auth": "ok"})
	return b
}

func c1JSON(ws, we, rn uint64, shift int) json.RawMessage {
	out := func(v int, a string) map[string]any { return map[string]any{"val": v, "addr": a} }
	b, _ := json.Marshal(map[string]any{"pay": 256411, "vo": []any{out(123205-shift, "B"), out(123206+shift, "B")},
		"mo": []any{out(123205-shift, "B"), out(82138+shift, "B"), out(41068, "V")}, "ws": ws, "we": we, "rn": rn, "size": 64, "owner": "B"})
	return b
}

func fixedBehaviours() []fixedBehaviour {
	block := func(txs ...chain.AbsTx) chain.Step { return chain.Step{Op: "block", Verdict: "accept", Txs: txs} }
	sc := func(i int) chain.SID { return chain.SID{chain.SCO, 0, 0, i, 0} }
	sf := func(i int) chain.SID { return chain.SID{chain.SFO, 0, 0, i, 0} }
	in := func(ids ...chain.SID) (out []chain.AbsIn) {
		for _, id := range ids {
			out = append(out, chain.AbsIn{ID: id, Auth: "ok"})
		}
		return
	}
	fc2 := chain.SID{chain.FC2, 1, 0, 1, 0}
	fc1 := chain.SID{chain.FC1, 1, 0, 1, 0}
	form2 := func(ph, eh uint64) chain.AbsTx {
		return chain.AbsTx{Ver: 2, Sci: in(sc(1)), Fc: []json.RawMessage{c2JSON(250024, 25, "A", 19, 12, ph, eh, 0)}, Sco: []chain.AbsOut{{Val: 339950, Addr: "A"}}, Tag: "form2"}
	}
	noRen := chain.AbsRen{Auth: "ok", Nc: chain.AbsC2{Null: true}}
	change := chain.SID{chain.SCO, 1, 0, 1, 0} // the 339950 returned by the formation
	sfTxTagged := func(ver int, tag string) chain.AbsTx {
		return chain.AbsTx{Ver: ver, Sfi: []chain.AbsSfIn{{ID: sf(1), Claim: "A", Auth: "ok"}}, Sfo: []chain.AbsOut{{Val: 3000, Addr: "B"}, {Val: 4000, Addr: "A"}}, Tag: tag}
	}
	sfTx := func(ver int) chain.AbsTx { return sfTxTagged(ver, "sf") }
	return []fixedBehaviour{
		{"v2-proof-among-payments", "v2only", []chain.Step{
			block(form2(2, 4)),
			block(chain.AbsTx{Ver: 2, Rev: []chain.AbsRev{{Cid: fc2, C: c2JSON(250000, 49, "A", 0, 12, 2, 4, 1), Auth: "ok"}}, Tag: "rev2"}),
			block(chain.AbsTx{Ver: 2, Res: []chain.AbsRes{{Cid: fc2, Kind: "proof", Pf: "ok", Ren: noRen}}, Tag: "proof"},
				chain.AbsTx{Ver: 2, Sci: in(change, sc(3)), Sco: []chain.AbsOut{{Val: 341149, Addr: "A"}}, Tag: "pay2"},
				sfTx(2),
				chain.AbsTx{Ver: 2, Sci: in(sc(2)), Sco: []chain.AbsOut{{Val: 599, Addr: "A"}, {Val: 255812, Addr: "B"}}, Tag: "pay"}),
		}},
		{"v2-renewal", "v2only", []chain.Step{
			block(form2(3, 5)),
			block(chain.AbsTx{Ver: 2, Sci: in(change), Sco: []chain.AbsOut{{Val: 142412, Addr: "A"}}, Tag: "renew",
				Res: []chain.AbsRes{{Cid: fc2, Kind: "renew", Pf: "ok", Ren: chain.AbsRen{Fr: 187518, Fh: 19, Rr: 62506, Hr: 6, Auth: "ok",
					Nc: chain.AbsC2{R: 250024, H: 25, Ra: "A", Ha: "B", Mh: 19, Coll: 12, Ph: 3, Eh: 5, Cap: 128, Size: 64, Rk: "R", Hk: "H", Auth: "ok"}}}}},
				sfTx(2)),
		}},
		{"v2-expiration", "v2only", []chain.Step{
			block(form2(2, 4)), block(), block(), block(),
			block(chain.AbsTx{Ver: 2, Res: []chain.AbsRes{{Cid: fc2, Kind: "expire", Pf: "ok", Ren: noRen}}, Tag: "expire"},
				chain.AbsTx{Ver: 2, Sci: in(change, sc(3)), Sco: []chain.AbsOut{{Val: 341149, Addr: "A"}}, Tag: "pay2"}),
		}},
		// ---- one accumulator element referenced more than once in a block --------------------------------------------
		{"v2-two-revisions-of-one-contract", "v2only", []chain.Step{
			block(form2(3, 5)),
			block(chain.AbsTx{Ver: 2, Rev: []chain.AbsRev{{Cid: fc2, C: c2JSON(250000, 49, "A", 0, 12, 3, 5, 1), Auth: "ok"}}, Tag: "rev2"},
				chain.AbsTx{Ver: 2, Rev: []chain.AbsRev{{Cid: fc2, C: c2JSON(249976, 73, "A", 0, 12, 3, 5, 2), Auth: "ok"}}, Tag: "rev2"},
				chain.AbsTx{Ver: 2, Sci: in(change, sc(3)), Sco: []chain.AbsOut{{Val: 341149, Addr: "A"}}, Tag: "pay2"}),
		}},
		{"v2-revision-then-renewal", "v2only", []chain.Step{
			block(form2(3, 5)),
			block(chain.AbsTx{Ver: 2, Rev: []chain.AbsRev{{Cid: fc2, C: c2JSON(250000, 49, "A", 0, 12, 3, 5, 1), Auth: "ok"}}, Tag: "rev2"},
				chain.AbsTx{Ver: 2, Sci: in(change), Sco: []chain.AbsOut{{Val: 142412, Addr: "A"}}, Tag: "renew",
					Res: []chain.AbsRes{{Cid: fc2, Kind: "renew", Pf: "ok", Ren: chain.AbsRen{Fr: 187494, Fh: 43, Rr: 62506, Hr: 6, Auth: "ok",
						Nc: chain.AbsC2{R: 250024, H: 25, Ra: "A", Ha: "B", Mh: 19, Coll: 12, Ph: 3, Eh: 5, Cap: 128, Size: 64, Rk: "R", Hk: "H", Auth: "ok"}}}}}),
		}},
		{"v2-two-proofs-one-index", "v2only", []chain.Step{
			block(chain.AbsTx{Ver: 2, Sci: in(sc(1)), Fc: []json.RawMessage{c2JSON(250024, 25, "A", 19, 12, 2, 4, 0), c2JSON(250024, 25, "A", 19, 12, 2, 4, 0)},
				Sco: []chain.AbsOut{{Val: 79900, Addr: "A"}}, Tag: "form2"}),
			block(),
			block(chain.AbsTx{Ver: 2, Res: []chain.AbsRes{{Cid: fc2, Kind: "proof", Pf: "ok", Ren: noRen}}, Tag: "proof"},
				chain.AbsTx{Ver: 2, Res: []chain.AbsRes{{Cid: chain.SID{chain.FC2, 1, 0, 2, 0}, Kind: "proof", Pf: "ok", Ren: noRen}}, Tag: "proof"}),
		}},
		// ---- v1 signatures that cover the transaction field by field ------------------------------------------------
		{"v1-partial-coverage", "v1only", []chain.Step{
			block(chain.AbsTx{Ver: 1, Sci: in(sc(1)), Sco: []chain.AbsOut{{Val: 599, Addr: "B"}, {Val: 599391, Addr: "A"}}, Fee: 10, Tag: "pay" + partialMark},
				sfTxTagged(1, "sf"+partialMark)),
			block(chain.AbsTx{Ver: 1, Sci: in(sc(2), sc(3)), Sco: []chain.AbsOut{{Val: 257610, Addr: "A"}}, Tag: "pay2" + partialMark}),
			block(chain.AbsTx{Ver: 1, Sci: in(chain.SID{chain.SCO, 1, 0, 2, 0}), Sco: []chain.AbsOut{{Val: 599391, Addr: "B"}}, Tag: "pay"}),
		}},
		{"partial-coverage-then-v2", "mixed", []chain.Step{
			block(chain.AbsTx{Ver: 1, Sci: in(sc(1)), Sco: []chain.AbsOut{{Val: 599, Addr: "B"}, {Val: 599391, Addr: "A"}}, Fee: 10, Tag: "pay" + partialMark}),
			block(sfTxTagged(1, "sf"+partialMark)),
			block(chain.AbsTx{Ver: 1, Sci: in(chain.SID{chain.SCO, 1, 0, 2, 0}), Sco: []chain.AbsOut{{Val: 599391, Addr: "B"}}, Tag: "pay" + partialMark},
				chain.AbsTx{Ver: 2, Sci: in(sc(2), sc(3)), Sco: []chain.AbsOut{{Val: 257610, Addr: "A"}}, Tag: "pay2"}),
		}},
		// ---- one v1 contract touched more than once in a block (the revision's payout is not transmitted) ------------
		{"v1-form-and-revise-in-one-block", "v1only", []chain.Step{
			block(chain.AbsTx{Ver: 1, Sci: in(sc(2)), Fc: []json.RawMessage{c1JSON(3, 5, 0, 0)}, Tag: "form1"},
				chain.AbsTx{Ver: 1, Rev: []chain.AbsRev{{Cid: fc1, C: c1JSON(3, 5, 1, 24), Auth: "ok"}}, Tag: "rev1"}),
			block(chain.AbsTx{Ver: 1, Rev: []chain.AbsRev{{Cid: fc1, C: c1JSON(3, 5, 2, 48), Auth: "ok"}}, Tag: "rev1"}),
		}},
		{"v1-two-revisions-in-one-block", "v1only", []chain.Step{
			block(chain.AbsTx{Ver: 1, Sci: in(sc(2)), Fc: []json.RawMessage{c1JSON(3, 5, 0, 0)}, Tag: "form1"}),
			block(chain.AbsTx{Ver: 1, Rev: []chain.AbsRev{{Cid: fc1, C: c1JSON(3, 5, 1, 24), Auth: "ok"}}, Tag: "rev1"},
				chain.AbsTx{Ver: 1, Rev: []chain.AbsRev{{Cid: fc1, C: c1JSON(3, 5, 2, 48), Auth: "ok"}}, Tag: "rev1"},
				sfTx(1)),
		}},
		{"v1-revise-then-prove-in-one-block", "v1only", []chain.Step{
			block(chain.AbsTx{Ver: 1, Sci: in(sc(2)), Fc: []json.RawMessage{c1JSON(3, 5, 0, 0)}, Tag: "form1"}),
			block(chain.AbsTx{Ver: 1, Sci: in(sc(3)), Sco: []chain.AbsOut{{Val: 1199, Addr: "A"}}, Tag: "pay"}),
			block(chain.AbsTx{Ver: 1, Rev: []chain.AbsRev{{Cid: fc1, C: c1JSON(3, 5, 1, 24), Auth: "ok"}}, Tag: "rev1"},
				chain.AbsTx{Ver: 1, Res: []chain.AbsRes{{Cid: fc1, Kind: "proof", Pf: "ok", Ren: noRen}}, Tag: "prove1"}),
		}},
		// ---- histories: an element is spent, the holders refresh it with the update that spent it, the next block rewrites
		// its proof in place; the block is reverted (the holders refresh the restored element with the RevertUpdate) and
		// another block rewrites that proof in place (holders.go; OwnershipMC: refresh-adopt, then a refresh in place) ----
		{"v1-spend-next-revert-other", "v1only", []chain.Step{
			block(chain.AbsTx{Ver: 1, Sci: in(sc(1)), Sco: []chain.AbsOut{{Val: 599, Addr: "B"}, {Val: 599391, Addr: "A"}}, Fee: 10, Tag: "pay"}),
			block(chain.AbsTx{Ver: 1, Sci: in(sc(2)), Sco: []chain.AbsOut{{Val: 599, Addr: "A"}, {Val: 255812, Addr: "B"}}, Tag: "pay"}),
			{Op: "revert"},
			block(chain.AbsTx{Ver: 1, Sci: in(sc(3)), Sco: []chain.AbsOut{{Val: 1199, Addr: "A"}}, Tag: "pay"}),
			block(sfTx(1)),
		}},
		{"v2-spend-next-revert-other", "v2only", []chain.Step{
			block(chain.AbsTx{Ver: 2, Sci: in(sc(1)), Sco: []chain.AbsOut{{Val: 599, Addr: "B"}, {Val: 599401, Addr: "A"}}, Tag: "pay"}),
			block(chain.AbsTx{Ver: 2, Sci: in(sc(2)), Sco: []chain.AbsOut{{Val: 599, Addr: "A"}, {Val: 255812, Addr: "B"}}, Tag: "pay"}),
			{Op: "revert"},
			block(chain.AbsTx{Ver: 2, Sci: in(sc(3)), Sco: []chain.AbsOut{{Val: 1199, Addr: "A"}}, Tag: "pay"}),
			block(sfTx(2)),
		}},
		// a block with a storage proof is applied, reverted and applied again: its updates all hold the block's resolution
		// object (information only; not memory of an update)
		{"v2-proof-revert-proof-again", "v2only", []chain.Step{
			block(form2(2, 4)),
			block(chain.AbsTx{Ver: 2, Rev: []chain.AbsRev{{Cid: fc2, C: c2JSON(250000, 49, "A", 0, 12, 2, 4, 1), Auth: "ok"}}, Tag: "rev2"}),
			block(chain.AbsTx{Ver: 2, Res: []chain.AbsRes{{Cid: fc2, Kind: "proof", Pf: "ok", Ren: noRen}}, Tag: "proof"}),
			{Op: "revert"},
			block(chain.AbsTx{Ver: 2, Res: []chain.AbsRes{{Cid: fc2, Kind: "proof", Pf: "ok", Ren: noRen}}, Tag: "proof"},
				chain.AbsTx{Ver: 2, Sci: in(sc(2)), Sco: []chain.AbsOut{{Val: 599, Addr: "A"}, {Val: 255812, Addr: "B"}}, Tag: "pay"}),
			block(),
		}},
		{"v1-contract", "v1only", []chain.Step{
			block(chain.AbsTx{Ver: 1, Sci: in(sc(2)), Fc: []json.RawMessage{c1JSON(3, 5, 0, 0)}, Tag: "form1"},
				chain.AbsTx{Ver: 1, Sci: in(sc(1)), Sco: []chain.AbsOut{{Val: 599, Addr: "B"}, {Val: 599391, Addr: "A"}}, Fee: 10, Tag: "pay"}),
			block(chain.AbsTx{Ver: 1, Rev: []chain.AbsRev{{Cid: fc1, C: c1JSON(3, 5, 1, 24), Auth: "ok"}}, Tag: "rev1"}, sfTx(1)),
			block(chain.AbsTx{Ver: 1, Res: []chain.AbsRes{{Cid: fc1, Kind: "proof", Pf: "ok", Ren: noRen}}, Tag: "prove1"},
				chain.AbsTx{Ver: 1, Sci: in(sc(3)), Sco: []chain.AbsOut{{Val: 1199, Addr: "A"}}, Tag: "pay"}),
		}},
	}
}

// fixedFor returns the fixed behaviours of one network shape.
func fixedFor(shape string) (out []chain.Behaviour) {
	for _, f := range fixedBehaviours() {
		if f.shape == shape {
			out = append(out, chain.Behaviour{Steps: f.steps, Hash: "fixed-" + f.name})
		}
	}
	return
}

func isFixed(b *chain.Behaviour) bool { return strings.HasPrefix(b.Hash, "fixed-") }
