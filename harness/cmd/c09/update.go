package main

// "Obtained how" under a writing operation (Purity!Mutate).  The element proofs of one block are held in several
// copies that were obtained differently — allocated independently by the harness, decoded from the block encoding
// (the v2 part expanded from a multiproof), decoded transaction by transaction, decoded from JSON, copied with
// DeepCopy/Copy, and Share()d views of a copy.  Every copy is then brought up to date with a block the way a
// transaction pool does it: ApplyUpdate.UpdateElementProof on each element in turn (in-place rewriting of the
// siblings of spent leaves, append of the tree-growth hashes).  Each update is logged as an M event (cell = the
// proof memory of that one element up to capacity; key = content of the element before); after each update the
// neighbouring cells of the same copy are audited, after each pass the cells of the source the copies were made
// from, at the end every cell of every copy.  Two updates are used: the block's own (its inputs are spent: siblings are rewritten
// in place) and that of an empty block on the same parent (the elements stay unspent, the tree grows), after which
// the element proofs of every copy are validated against the new accumulator by the real code.

import (
	"fmt"
	"runtime"
	"strings"
	"sync/atomic"
	"time"

	"go.sia.tech/core/consensus"
	"go.sia.tech/core/types"
	"verif/harness/chain"
)

// cell is the proof of one element of one copy.
type cell struct {
	se   *types.StateElement
	path string
}

// cellsOf lists the non-ephemeral elements of the inputs in a canonical order.
func cellsOf(in *input) (out []cell) {
	add := func(se *types.StateElement, path string) {
		if se.LeafIndex != types.UnassignedLeafIndex {
			out = append(out, cell{se, path})
		}
	}
	if in.B.V2 != nil {
		for i := range in.B.V2.Transactions {
			t := &in.B.V2.Transactions[i]
			for j := range t.SiacoinInputs {
				add(&t.SiacoinInputs[j].Parent.StateElement, fmt.Sprintf("v2[%d].SiacoinInputs[%d].Parent", i, j))
			}
			for j := range t.SiafundInputs {
				add(&t.SiafundInputs[j].Parent.StateElement, fmt.Sprintf("v2[%d].SiafundInputs[%d].Parent", i, j))
			}
			for j := range t.FileContractRevisions {
				add(&t.FileContractRevisions[j].Parent.StateElement, fmt.Sprintf("v2[%d].FileContractRevisions[%d].Parent", i, j))
			}
			for j := range t.FileContractResolutions {
				add(&t.FileContractResolutions[j].Parent.StateElement, fmt.Sprintf("v2[%d].FileContractResolutions[%d].Parent", i, j))
				if sp, ok := t.FileContractResolutions[j].Resolution.(*types.V2StorageProof); ok {
					add(&sp.ProofIndex.StateElement, fmt.Sprintf("v2[%d].FileContractResolutions[%d].ProofIndex", i, j))
				}
			}
		}
	}
	for i := range in.Supp.Transactions {
		ts := &in.Supp.Transactions[i]
		for j := range ts.SiacoinInputs {
			add(&ts.SiacoinInputs[j].StateElement, fmt.Sprintf("supp[%d].SiacoinInputs[%d]", i, j))
		}
		for j := range ts.SiafundInputs {
			add(&ts.SiafundInputs[j].StateElement, fmt.Sprintf("supp[%d].SiafundInputs[%d]", i, j))
		}
		for j := range ts.RevisedFileContracts {
			add(&ts.RevisedFileContracts[j].StateElement, fmt.Sprintf("supp[%d].RevisedFileContracts[%d]", i, j))
		}
		for j := range ts.StorageProofs {
			add(&ts.StorageProofs[j].FileContract.StateElement, fmt.Sprintf("supp[%d].StorageProofs[%d]", i, j))
		}
	}
	for j := range in.Supp.ExpiringFileContracts {
		add(&in.Supp.ExpiringFileContracts[j].StateElement, fmt.Sprintf("supp.Expiring[%d]", j))
	}
	return out
}

// mkIndependent is the harness's own copy: the structure is copied with the library's operations, then every
// element proof is moved into an allocation of its own made here (exact length), whatever the library did.
func mkIndependent(in *input) *input {
	out := mkCopied(in)
	for _, c := range cellsOf(out) {
		p := make([]types.Hash256, len(c.se.MerkleProof))
		copy(p, c.se.MerkleProof)
		c.se.MerkleProof = p
	}
	return out
}

// mkPlain decodes every part from its plain binary form (every proof travels verbatim).
func mkPlain(in *input) (out *input, err error) {
	defer func() {
		if r := recover(); r != nil {
			err = fmt.Errorf("panic: %v", r)
		}
	}()
	out = &input{S: in.S}
	d := types.NewBufDecoder(encBytes(types.V1Block(in.B)))
	(*types.V1Block)(&out.B).DecodeFrom(d)
	if d.Err() != nil {
		return nil, d.Err()
	}
	if in.B.V2 != nil {
		v2 := types.V2BlockData{Height: in.B.V2.Height, Commitment: in.B.V2.Commitment, Transactions: make([]types.V2Transaction, len(in.B.V2.Transactions))}
		for i := range in.B.V2.Transactions {
			d := types.NewBufDecoder(encBytes(in.B.V2.Transactions[i]))
			v2.Transactions[i].DecodeFrom(d)
			if d.Err() != nil {
				return nil, d.Err()
			}
		}
		out.B.V2 = &v2
	}
	d = types.NewBufDecoder(encBytes(in.Supp))
	out.Supp.DecodeFrom(d)
	if d.Err() != nil {
		return nil, d.Err()
	}
	return out, nil
}

// cellContent is the content of a cell (what the encodings carry of it).
func cellContent(se *types.StateElement) []byte {
	b := make([]byte, 0, 8+32*len(se.MerkleProof))
	for i := 0; i < 8; i++ {
		b = append(b, byte(se.LeafIndex>>(8*i)))
	}
	for _, h := range se.MerkleProof {
		b = append(b, h[:]...)
	}
	return b
}

// elementsValid asks the real accumulator about every element proof of the inputs.
func elementsValid(cs consensus.State, in *input) string {
	var sb strings.Builder
	sb.WriteString("ev:")
	bit := func(ok bool) {
		if ok {
			sb.WriteByte('1')
		} else {
			sb.WriteByte('0')
		}
	}
	for _, txn := range in.B.V2Transactions() {
		bit(cs.Elements.ValidateTransactionElements(txn) == nil)
	}
	sb.WriteByte('|')
	for _, txn := range in.Supp.Transactions {
		for _, e := range txn.SiacoinInputs {
			e := e.Copy()
			bit(cs.Elements.VerifContainsLeaf(consensus.VerifSiacoinLeaf(&e, false)))
		}
		for _, e := range txn.SiafundInputs {
			e := e.Copy()
			bit(cs.Elements.VerifContainsLeaf(consensus.VerifSiafundLeaf(&e, false)))
		}
		for _, e := range txn.RevisedFileContracts {
			e := e.Copy()
			bit(cs.Elements.VerifContainsLeaf(consensus.VerifFileContractLeaf(&e, nil, false)))
		}
		for _, sp := range txn.StorageProofs {
			e := sp.FileContract.Copy()
			bit(cs.Elements.VerifContainsLeaf(consensus.VerifFileContractLeaf(&e, nil, false)))
		}
	}
	return sb.String()
}

type updStats struct {
	runs, updates, cells, grown, rewritten, validated int
	variants                                          map[string]int
	richDecoded, storageProofCopied                   int // runs with >= 2 elements in the multiproof-decoded copy / a DeepCopy'd history proof
	staleAfterUpdate                                  int // reference copy not valid after the update (another property's business)
	sharedRefused, sharedUpdated                      int // UpdateElementProof on a Share()d view: stopped by the library's guard / carried out
	note                                              string
}

var updRunSeq atomic.Int64

// updVariant is one copy of the inputs in the update experiment.
type updVariant struct {
	kind  string
	mem   string
	in    *input
	cells []cell
}

// runUpdates performs the experiment for one valid block on the current tip of sim and logs it.
func runUpdates(rec *recorder, sim *chain.Sim, in *input, key string, ci *caseInfo, cb *copyBook) (st updStats, err error) {
	st.variants = map[string]int{}
	defer func() {
		if r := recover(); r != nil {
			err = fmt.Errorf("update experiment: panic: %v", r)
		}
	}()
	if len(cellsOf(in)) == 0 {
		return st, nil
	}
	type update struct {
		op string
		cs consensus.State
		au consensus.ApplyUpdate
		// the accumulator after the update can judge the proofs (the elements are still unspent)
		judge bool
		from  *input // what the update was computed from
	}
	var ups []update
	{
		src := mkIndependent(in)
		cs, au := consensus.ApplyBlock(src.S, src.B, src.Supp, time.Time{})
		ups = append(ups, update{"own", cs, au, false, src})
	}
	{
		be, bse := sim.Seal(nil, nil), sim.Supplement(nil)
		if consensus.ValidateBlock(in.S, be, bse) == nil {
			cs, au := consensus.ApplyBlock(in.S, be, bse, time.Time{})
			ups = append(ups, update{"next", cs, au, true, &input{S: in.S, B: be, Supp: bse}})
		} else {
			st.note = "an empty block on the parent is not valid"
		}
	}
	for _, up := range ups {
		run := updRunSeq.Add(1)
		seg := key + "/upd-" + up.op
		// the source is never updated: it is what the copies were made from
		source := mkIndependent(in)
		vs := []*updVariant{{kind: "source", in: source}}
		add := func(kind string, vin *input, e error) {
			if e != nil || vin == nil {
				st.variants[kind+":unavailable"]++
				return
			}
			if k, e := contentKey(vin); e != nil || k != key {
				st.variants[kind+":other-content"]++
				return
			}
			vs = append(vs, &updVariant{kind: kind, in: vin})
		}
		add("independent", mkIndependent(source), nil)
		dec, e1 := mkDecoded(source)
		add("decoded", dec, e1)
		pl, e2 := mkPlain(source)
		add("plain", pl, e2)
		js, e3 := mkJSON(source)
		add("json", js, e3)
		add("copied", mkCopied(source), nil)
		// memory that was lent with Share() is taken into ownership the documented way, with Copy()/DeepCopy(); a
		// Share()d view itself must not be updated: the library's guard refuses (information)
		add("shared", mkCopied(mkShared(source)), nil)
		if view := cellsOf(mkShared(mkCopied(source))); len(view) > 0 {
			msg := ""
			func() {
				defer func() { msg = fmt.Sprint(recover()) }()
				up.au.UpdateElementProof(view[0].se)
			}()
			if strings.Contains(msg, "shared StateElement") {
				st.sharedRefused++
			} else {
				st.sharedUpdated++
			}
		}
		n := -1
		for _, v := range vs {
			v.mem = fmt.Sprintf("u%d.%s", run, v.kind)
			v.cells = cellsOf(v.in)
			if n >= 0 && len(v.cells) != n {
				return st, fmt.Errorf("update experiment: the %s copy has %d elements, the source %d", v.kind, len(v.cells), n)
			}
			n = len(v.cells)
			st.variants[v.kind]++
		}
		for _, v := range vs {
			if v.kind == "decoded" && n >= 2 && in.B.V2 != nil && nonEphemeralProofs(v.in.B.V2) >= 2 {
				st.richDecoded++
			}
			if v.kind == "copied" && in.B.V2 != nil {
				for i := range v.in.B.V2.Transactions {
					if hasStorageProof(&v.in.B.V2.Transactions[i]) {
						st.storageProofCopied++
						break
					}
				}
			}
		}
		cellMem := func(v *updVariant, i int) string { return fmt.Sprintf("%s#%d", v.mem, i) }
		audit := func(v *updVariant, i int, after *callInfo) {
			rec.add(Event{Ev: "A", Case: seg, Mem: cellMem(v, i), D: deep(v.cells[i].se), call: after})
		}
		// ownership (Purity!Place): the update that will be applied is a returned value with memory of its own; so is every
		// cell of every copy, before and after each refresh
		rec.add(Event{Ev: "P", Case: seg, Mem: fmt.Sprintf("u%d.update", run), own: &own{Who: fmt.Sprintf("u%d.update", run), Frozen: true, By: "publish", raw: updateRegions(&up.au, up.from)},
			call: &callInfo{cs: ci, kind: "update", fn: "update-" + up.op, cell: -1, updKind: "", updCell: -1}})
		for _, v := range vs {
			for i := range v.cells {
				audit(v, i, &callInfo{cs: ci, kind: v.kind, fn: "update-" + up.op, cell: i, updKind: "", updCell: -1})
				rec.add(Event{Ev: "P", Case: seg, Mem: cellMem(v, i), own: &own{Who: v.mem, By: "track", raw: cellRegion(v.cells[i].se)},
					call: &callInfo{cs: ci, kind: v.kind, fn: "update-" + up.op, cell: i, updKind: "", updCell: -1, note: v.cells[i].path}})
			}
		}
		for _, v := range vs[1:] {
			for i, c := range v.cells {
				before := cellContent(c.se)
				d0 := deep(c.se)
				l0 := len(c.se.MerkleProof)
				res := ""
				func() {
					defer func() {
						if r := recover(); r != nil {
							res = "panic"
						}
					}()
					up.au.UpdateElementProof(c.se)
				}()
				after := cellContent(c.se)
				if res == "" {
					res = sha(after)
				}
				info := &callInfo{cs: ci, kind: v.kind, fn: "update-" + up.op, cell: i, updKind: v.kind, updCell: i, note: c.path}
				rec.add(Event{Ev: "M", ID: int(rec.nextID.Add(1)), Fn: "upd:" + sha(before), Op: "update-" + up.op, Case: seg, Mem: cellMem(v, i), D: d0, D1: deep(c.se), Res: res,
					own: &own{Who: v.mem, raw: cellRegion(c.se)}, call: info})
				st.updates++
				if len(c.se.MerkleProof) > l0 {
					st.grown++
				}
				if len(after) >= len(before) && string(after[:len(before)]) != string(before) {
					st.rewritten++
				}
				// the neighbouring elements of the same copy
				for j := range v.cells {
					if j != i {
						audit(v, j, &callInfo{cs: ci, kind: v.kind, fn: "update-" + up.op, cell: j, updKind: v.kind, updCell: i, note: c.path})
					}
				}
			}
			// the source the copies were made from (two copies can only share memory by way of it)
			for j := range vs[0].cells {
				audit(vs[0], j, &callInfo{cs: ci, kind: "source", fn: "update-" + up.op, cell: j, updKind: v.kind, updCell: -1})
			}
		}
		// at the end every cell of every copy once more
		for _, w := range vs[1:] {
			for j := range w.cells {
				audit(w, j, &callInfo{cs: ci, kind: w.kind, fn: "update-" + up.op, cell: j, updKind: "another", updCell: -1})
			}
		}
		// the memory of this run is given up: later runs filed under the same case may be handed the same addresses
		rec.add(Event{Ev: "P", Case: seg, Mem: fmt.Sprintf("u%d.update", run), own: &own{Who: fmt.Sprintf("u%d.update", run), Frozen: true, By: "release"}})
		for _, v := range vs {
			for i := range v.cells {
				rec.add(Event{Ev: "P", Case: seg, Mem: cellMem(v, i), own: &own{Who: v.mem, By: "release"}})
			}
		}
		runtime.KeepAlive(vs)
		runtime.KeepAlive(up)
		st.cells += n * len(vs)
		st.runs++
		// the real accumulator judges the updated proofs of every copy: one key, one answer
		if up.judge {
			for _, v := range vs[1:] {
				mem := v.mem + "/all"
				info := &callInfo{cs: ci, kind: v.kind, fn: "elements-after-update"}
				id := int(rec.nextID.Add(1))
				dg := "B:" + deep(&v.in.B) + "|P:" + deep(&v.in.Supp)
				rec.add(Event{Ev: "B", ID: id, Fn: "elements-after-update", Case: seg, Mem: mem, D: dg, call: info})
				o := guarded(func() outcome { return outcome{res: elementsValid(up.cs, v.in), fresh: true} })
				rec.add(Event{Ev: "E", ID: id, Res: o.res, D: "B:" + deep(&v.in.B) + "|P:" + deep(&v.in.Supp), Fresh: true, call: info})
				st.validated++
				if v.kind == "independent" && (strings.Contains(o.res, "0") || strings.HasPrefix(o.res, "panic")) {
					st.staleAfterUpdate++
				}
			}
		}
	}
	return st, nil
}
