package main

// The hashing entry points of the library draw their hashers from two global pools (consensus.hasherPool,
// types.hasherPool).  A pool that was damaged by ONE call (a hasher put back twice) only shows in LATER concurrent
// calls, whoever makes them.  The "hashes" call therefore runs every pooled entry point — on the contents of the
// case's block and on a fixed synthetic set that has what the block may lack (a v1 signature with field-by-field
// coverage, contract / renewal / attestation signatures, policy and unlock-condition addresses) — once sequentially
// BEFORE the concurrent phase of every case and again from the goroutines DURING it, under one Purity key: the
// sequence of hashes is a function of the inputs.

import (
	"crypto/sha256"
	"encoding/hex"
	"sync"
	"time"

	"go.sia.tech/core/types"
)

// the pooled entry points that must have been called before and during the concurrent phase
var hashEntryPoints = []string{"State.WholeSigHash", "State.PartialSigHash", "State.InputSigHash", "State.ContractSigHash", "State.RenewalSigHash",
	"State.AttestationSigHash", "State.Commitment", "Transaction.ID", "V2Transaction.ID", "Block.ID", "UnlockConditions.UnlockHash", "SpendPolicy.Address",
	"element and output ids"}

type hashBook struct {
	mu     sync.Mutex
	before map[string]int
	during map[string]int
	// signatures of simulated blocks (not the synthetic set) hashed with PartialSigHash
	realPartialBefore, realPartialDuring int
}

var hashCalls = &hashBook{before: map[string]int{}, during: map[string]int{}}

var (
	synthOnce sync.Once
	synthV1   types.Transaction
	synthV2   types.V2Transaction
	synthBlk  types.Block
)

func synthetic() (types.Transaction, types.V2Transaction, types.Block) {
	synthOnce.Do(func() {
		bs := func(b byte) []byte { x := h(b); return x[:] }
		uc := types.UnlockConditions{Timelock: 2, PublicKeys: []types.UnlockKey{{Algorithm: types.SpecifierEd25519, Key: bs(11)}}, SignaturesRequired: 1}
		synthV1 = types.Transaction{
			SiacoinInputs:  []types.SiacoinInput{{ParentID: types.SiacoinOutputID(h(12)), UnlockConditions: uc}},
			SiacoinOutputs: []types.SiacoinOutput{{Value: types.Siacoins(3), Address: types.Address(h(13))}, {Value: types.Siacoins(4), Address: types.Address(h(14))}},
			MinerFees:      []types.Currency{types.Siacoins(1)},
			ArbitraryData:  [][]byte{{1, 2, 3}},
			Signatures: []types.TransactionSignature{
				{ParentID: h(12), CoveredFields: types.CoveredFields{SiacoinInputs: []uint64{0}, SiacoinOutputs: []uint64{0, 1}, MinerFees: []uint64{0}}, Signature: bs(15)},
				{ParentID: h(12), CoveredFields: types.CoveredFields{WholeTransaction: true}, Signature: bs(16)},
			},
		}
		fc := types.FileContract{Filesize: 100, FileMerkleRoot: h(9), WindowStart: 10, WindowEnd: 20, Payout: types.Siacoins(5)}
		v2fc := types.V2FileContract{Capacity: 64, Filesize: 64, FileMerkleRoot: h(50), ProofHeight: 30, ExpirationHeight: 40,
			RenterOutput: types.SiacoinOutput{Value: types.Siacoins(2), Address: types.Address(h(60))}, HostOutput: types.SiacoinOutput{Value: types.Siacoins(2), Address: types.Address(h(61))},
			MissedHostValue: types.Siacoins(1), TotalCollateral: types.Siacoins(1), RevisionNumber: 2}
		synthV2 = richV2(fc, v2fc)
		synthBlk = types.Block{ParentID: types.BlockID(h(20)), Nonce: 5, Timestamp: time.Unix(1_700_000_000, 0),
			MinerPayouts: []types.SiacoinOutput{{Value: types.Siacoins(7), Address: types.Address(h(21))}}, Transactions: []types.Transaction{synthV1}}
	})
	return synthV1, synthV2, synthBlk
}

// doHashes calls every pooled hashing entry point and digests what they return.
func doHashes(in *input, during bool) outcome {
	counts := map[string]int{}
	realPartial := 0
	o := guarded(func() outcome {
		d := sha256.New()
		put := func(name string, x [32]byte) {
			counts[name]++
			d.Write(x[:])
		}
		s := in.S
		v1txn := func(t types.Transaction, real bool) {
			put("Transaction.ID", t.ID())
			for i := range t.SiacoinOutputs {
				put("element and output ids", t.SiacoinOutputID(i))
			}
			for i := range t.FileContracts {
				put("element and output ids", t.FileContractID(i))
			}
			for _, in := range t.SiacoinInputs {
				put("UnlockConditions.UnlockHash", in.UnlockConditions.UnlockHash())
			}
			for _, in := range t.SiafundInputs {
				put("UnlockConditions.UnlockHash", in.UnlockConditions.UnlockHash())
			}
			for _, sg := range t.Signatures {
				if sg.CoveredFields.WholeTransaction {
					put("State.WholeSigHash", s.WholeSigHash(t, sg.ParentID, sg.PublicKeyIndex, sg.Timelock, sg.CoveredFields.Signatures))
				} else {
					put("State.PartialSigHash", s.PartialSigHash(t, sg.CoveredFields))
					if real {
						realPartial++
					}
				}
			}
		}
		v2txn := func(t types.V2Transaction) {
			txid := t.ID()
			put("V2Transaction.ID", txid)
			put("State.InputSigHash", s.InputSigHash(t))
			for i := range t.SiacoinOutputs {
				put("element and output ids", t.SiacoinOutputID(txid, i))
			}
			for i, fc := range t.FileContracts {
				put("element and output ids", t.V2FileContractID(txid, i))
				put("State.ContractSigHash", s.ContractSigHash(fc))
			}
			for _, in := range t.SiacoinInputs {
				put("SpendPolicy.Address", in.SatisfiedPolicy.Policy.Address())
			}
			for _, in := range t.SiafundInputs {
				put("SpendPolicy.Address", in.SatisfiedPolicy.Policy.Address())
			}
			for _, r := range t.FileContractRevisions {
				put("State.ContractSigHash", s.ContractSigHash(r.Revision))
			}
			for _, r := range t.FileContractResolutions {
				put("element and output ids", r.Parent.ID.V2RenterOutputID())
				if ren, ok := r.Resolution.(*types.V2FileContractRenewal); ok {
					put("State.RenewalSigHash", s.RenewalSigHash(*ren))
					put("State.ContractSigHash", s.ContractSigHash(ren.NewContract))
				}
			}
			for _, a := range t.Attestations {
				put("State.AttestationSigHash", s.AttestationSigHash(a))
			}
		}
		commit := func(b types.Block) {
			put("Block.ID", b.ID())
			if len(b.MinerPayouts) > 0 {
				put("State.Commitment", s.Commitment(b.MinerPayouts[0].Address, b.Transactions, b.V2Transactions()))
			}
		}
		// the block of the case
		for _, t := range in.B.Transactions {
			v1txn(t, true)
		}
		for _, t := range in.B.V2Transactions() {
			v2txn(t)
		}
		commit(in.B)
		// the synthetic set
		sv1, sv2, sb := synthetic()
		v1txn(sv1, false)
		v2txn(sv2)
		commit(sb)
		put("State.Commitment", s.Commitment(types.Address(h(22)), []types.Transaction{sv1}, []types.V2Transaction{sv2}))
		return outcome{res: "h:" + hex.EncodeToString(d.Sum(nil)[:12]), fresh: true}
	})
	hashCalls.mu.Lock()
	m := hashCalls.before
	if during {
		m = hashCalls.during
		hashCalls.realPartialDuring += realPartial
	} else {
		hashCalls.realPartialBefore += realPartial
	}
	for k, v := range counts {
		m[k] += v
	}
	hashCalls.mu.Unlock()
	return o
}

// refClasses names the ways in which a v2 block references one accumulator element more than once.
func refClasses(b *types.Block) map[string]bool {
	roles := map[uint64][]string{}
	add := func(se *types.StateElement, role string) {
		if se.LeafIndex != types.UnassignedLeafIndex {
			roles[se.LeafIndex] = append(roles[se.LeafIndex], role)
		}
	}
	for _, t := range b.V2Transactions() {
		for i := range t.SiacoinInputs {
			add(&t.SiacoinInputs[i].Parent.StateElement, "input")
		}
		for i := range t.SiafundInputs {
			add(&t.SiafundInputs[i].Parent.StateElement, "input")
		}
		for i := range t.FileContractRevisions {
			add(&t.FileContractRevisions[i].Parent.StateElement, "revision")
		}
		for i := range t.FileContractResolutions {
			add(&t.FileContractResolutions[i].Parent.StateElement, "resolution")
			if sp, ok := t.FileContractResolutions[i].Resolution.(*types.V2StorageProof); ok {
				add(&sp.ProofIndex.StateElement, "proof-index")
			}
		}
	}
	out := map[string]bool{}
	for _, rs := range roles {
		for i := range rs {
			for j := i + 1; j < len(rs); j++ {
				a, b := rs[i], rs[j]
				if a > b {
					a, b = b, a
				}
				out[a+"+"+b] = true
			}
		}
	}
	return out
}

// memoryOnlyPayout is what the harness puts into the Payout of every v1 revision it builds: the member is not
// transmitted (every decoder fills in 2^128-1; the library gives a revision the payout of the contract it revises),
// so the in-memory block, its decoded copies and the contract itself all hold different values there.
var memoryOnlyPayout = types.NewCurrency64(777_777)

// v1RefClasses names the ways in which a v1 block touches one file contract more than once, for blocks whose
// revisions hold a payout in memory that no decoder would fill in.
func v1RefClasses(b *types.Block) map[string]bool {
	roles := map[types.FileContractID][]string{}
	distinct := false
	for _, t := range b.Transactions {
		for i := range t.FileContracts {
			id := t.FileContractID(i)
			roles[id] = append(roles[id], "formed")
		}
		for _, r := range t.FileContractRevisions {
			roles[r.ParentID] = append(roles[r.ParentID], "revised")
			if r.FileContract.Payout != types.MaxCurrency {
				distinct = true
			}
		}
		for _, sp := range t.StorageProofs {
			roles[sp.ParentID] = append(roles[sp.ParentID], "proved")
		}
	}
	out := map[string]bool{}
	if !distinct {
		return out
	}
	for _, rs := range roles {
		for i := range rs {
			for j := i + 1; j < len(rs); j++ {
				out["v1:"+rs[i]+"+"+rs[j]] = true
			}
		}
	}
	return out
}
