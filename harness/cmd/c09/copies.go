package main

// Probes of the library's copy operations (Copy on every element type, V2Transaction.DeepCopy): a copy must
// share no mutable memory with its original.  Two independent observations: (1) the slice backing arrays and
// pointees reachable from copy and original are compared by address; (2) every scalar reachable from the copy
// is flipped and the original's deep digest is looked at.

import (
	"encoding/json"
	"fmt"
	"reflect"
	"regexp"
	"sort"
	"strings"
	"sync"
	"time"

	"go.sia.tech/core/consensus"
	"go.sia.tech/core/types"
	"verif/harness/vlib"
)

type sharing struct {
	Op     string `json:"op"`
	Path   string `json:"path"`
	Direct bool   `json:"direct"` // judged: a slice the operation left aliased although the value around it is the result's own
	How    string `json:"how"`    // address | mutation
	Class  string `json:"class"`  // shares: result vs original; overlap: two slices of the result; buffer: result vs the decoder's input
	Detail string `json:"detail,omitempty"`
	ci     *caseInfo
}

func (f sharing) key() string {
	switch f.Class {
	case "overlap":
		return "slices-overlap/" + f.Op + "/" + f.Path
	case "buffer":
		return "decoded-aliases-input/" + f.Op + "/" + f.Path
	}
	return "copy-shares-slice/" + f.Op + "/" + f.Path
}

var reIndex = regexp.MustCompile(`\[\d+\]`)

// normPath names the slice rather than the instance: indices are dropped.
func normPath(p string) string { return strings.TrimPrefix(reIndex.ReplaceAllString(p, "[]"), ".") }

// classPath names the shared thing rather than the instance: indices are dropped; a directly shared slice is named
// by the slice field (not by the scalars reached through it), memory shared through a pointer or an interface by
// the pointer / interface field.
func classPath(p string, direct bool) string {
	p = reIndex.ReplaceAllString(p, "[]")
	cut := func(s, sep string) string {
		if i := strings.Index(s, sep); i >= 0 {
			return s[:i]
		}
		return s
	}
	if direct {
		return strings.TrimPrefix(cut(p, "[]"), ".")
	}
	q := cut(cut(p, "->"), ".(")
	return strings.TrimPrefix(q, ".")
}

// fieldOf names the kind of slice: the last two components of its path (StateElement.MerkleProof).
func fieldOf(p string) string {
	p = normPath(p)
	if i := strings.LastIndex(p, "->"); i >= 0 {
		p = p[i+2:]
	}
	f := strings.Split(strings.Trim(p, "."), ".")
	if len(f) > 2 {
		f = f[len(f)-2:]
	}
	return strings.Join(f, ".")
}

func describeOverlap(a, b region) string {
	if a.lo == b.lo && a.hi == b.hi {
		return fmt.Sprintf("%s and %s are the same array", normPath(a.path), normPath(b.path))
	}
	if a.lo+uintptr(a.n)*a.elem.Size() <= b.lo {
		return fmt.Sprintf("the spare capacity of %s (len %d, cap %d) runs into the memory of %s (len %d): an append to the first overwrites the second",
			normPath(a.path), a.n, a.c, normPath(b.path), b.n)
	}
	return fmt.Sprintf("%s (len %d, cap %d) and %s (len %d, cap %d) overlap", normPath(a.path), a.n, a.c, normPath(b.path), b.n, b.c)
}

// probeSelf looks at ONE value returned by the library (a copy, a decoded value): no two distinct slices reachable
// from it may overlap up to capacity, and none may lie in the decoder's input buffer.  Slices inside the box of an
// interface value (spend policies) are immutable by the library's own use and are reported as information.
func probeSelf(op string, val any, buf []byte) []sharing {
	var out []sharing
	seen := map[string]bool{}
	rs := regions(val, nil, false)
	for _, p := range selfOverlaps(rs) {
		f := sharing{Op: op, Path: fieldOf(p[0].path), Direct: !p[0].box && !p[1].box, How: "address", Class: "overlap", Detail: describeOverlap(p[0], p[1])}
		if !seen[f.key()] {
			seen[f.key()] = true
			out = append(out, f)
		}
	}
	if len(buf) > 0 {
		lo := uintptr(reflect.ValueOf(buf).UnsafePointer())
		for _, p := range overlaps(rs, []region{{lo: lo, hi: lo + uintptr(cap(buf))}}) {
			f := sharing{Op: op, Path: normPath(p[0].path), Direct: !p[0].box, How: "address", Class: "buffer", Detail: "the slice lies in the buffer that was decoded"}
			if !seen[f.key()] {
				seen[f.key()] = true
				out = append(out, f)
			}
		}
	}
	return out
}

// probeCopy compares *orig with *cp (the result of the copy operation op).
func probeCopy(op string, orig, cp any, mutate bool) []sharing {
	var out []sharing
	seen := map[string]bool{}
	add := func(path string, direct bool, how string) {
		k := fmt.Sprint(path, direct)
		if seen[k] {
			for i := range out {
				if out[i].Class == "shares" && out[i].Path == path && out[i].Direct == direct && out[i].How != how && out[i].How != "address+mutation" {
					out[i].How = "address+mutation"
				}
			}
			return
		}
		seen[k] = true
		out = append(out, sharing{Op: op, Path: path, Direct: direct, How: how, Class: "shares"})
	}
	// a pointee that copy and original both point to is shared by construction (NewFoundationAddress, the renewal
	// struct); so is the box of an interface value (policies).  Everything else the copy must own, also behind
	// pointers of its own (the *V2StorageProof DeepCopy allocates).
	shared := sharedPointees(orig, cp)
	for _, p := range overlaps(regionsShared(cp, nil, true, shared), regionsShared(orig, nil, true, shared)) {
		direct := !p[0].viaPtr && !p[1].viaPtr && !p[0].ptrLike && !p[1].ptrLike
		if direct {
			add(normPath(p[0].path), true, "address")
		} else {
			add(classPath(p[0].path, false), false, "address")
		}
	}
	if mutate {
		base := deep(orig)
		mutateLeaves(cp, shared, func(path string, via bool) {
			if deep(orig) != base {
				if !via {
					// attribute the write to the slice the address comparison found, if it did
					np := normPath(path)
					for i := range out {
						if out[i].Direct && out[i].Class == "shares" && strings.HasPrefix(np, out[i].Path) {
							if out[i].How == "address" {
								out[i].How = "address+mutation"
							}
							return
						}
					}
				}
				add(classPath(path, !via), !via, "mutation")
			}
		})
		if deep(orig) != base {
			add("(original not restored after probing)", true, "mutation")
		}
	}
	out = append(out, probeSelf(op, cp, nil)...)
	sort.Slice(out, func(i, j int) bool { return out[i].Path < out[j].Path })
	return out
}

type copyBook struct {
	mu      sync.Mutex
	probed  map[string]int
	found   map[string]sharing // key -> finding
	mutated map[string]int
	rich    map[string]int // probes of values that have what a class of defect needs (vacuity)
	// replay of a synthetic finding: only probeElements ran
	onlyElements bool
}

func newCopyBook() *copyBook {
	return &copyBook{probed: map[string]int{}, found: map[string]sharing{}, mutated: map[string]int{}, rich: map[string]int{}}
}

func (cb *copyBook) note(op string, mutate bool, fs []sharing) { cb.noteCase(op, mutate, fs, nil) }

func (cb *copyBook) noteCase(op string, mutate bool, fs []sharing, ci *caseInfo) {
	cb.mu.Lock()
	defer cb.mu.Unlock()
	cb.probed[op]++
	if mutate {
		cb.mutated[op]++
	}
	for _, f := range fs {
		k := f.key()
		f.ci = ci
		if old, ok := cb.found[k]; !ok || (old.How != f.How && old.How != "address+mutation") {
			if ok {
				f.How = "address+mutation"
				if old.ci != nil {
					f.ci = old.ci
				}
			}
			cb.found[k] = f
		}
	}
}

func (cb *copyBook) count(k string) {
	cb.mu.Lock()
	cb.rich[k]++
	cb.mu.Unlock()
}

func (cb *copyBook) wantMutation(op string, limit int) bool {
	cb.mu.Lock()
	defer cb.mu.Unlock()
	return cb.mutated[op] < limit
}

func h(b byte) (x types.Hash256) {
	for i := range x {
		x[i] = b + byte(i)
	}
	return
}

func proof(n int, b byte) []types.Hash256 {
	p := make([]types.Hash256, n, n+2)
	for i := range p {
		p[i] = h(b + byte(7*i))
	}
	return p
}

// probeOps runs the three memory operations of one element type: Copy must own everything; Share and Move are
// shallow by contract ("intentionally aliased" / "memory is not shared"): what they share is recorded, not judged.
func probeOps[T interface {
	Copy() T
	Share() T
	Move() T
}](cb *copyBook, name string, mk func() T) {
	o := mk()
	c := o.Copy()
	cb.note(name+".Copy", true, probeCopy(name+".Copy", &o, &c, true))
	sh := o.Share()
	cb.note(name+".Share (shallow by contract)", false, probeCopy(name+".Share (shallow by contract)", &o, &sh, false))
	m := o.Move()
	cb.note(name+".Move (shallow by contract)", false, probeCopy(name+".Move (shallow by contract)", &o, &m, false))
	// a copy of a Share()d view owns its memory too
	c2 := sh.Copy()
	cb.note(name+".Copy", true, probeCopy(name+".Copy", &sh, &c2, true))
}

var elementKinds = []string{"StateElement", "ChainIndexElement", "SiacoinElement", "SiafundElement", "FileContractElement", "V2FileContractElement", "AttestationElement"}

// probeElements runs the copy operations on fully populated values (every element kind; a v2 transaction with every
// resolution kind, the storage proof carrying a history proof).
func probeElements(cb *copyBook) {
	outs := func(b byte) []types.SiacoinOutput {
		return []types.SiacoinOutput{{Value: types.Siacoins(uint32(b)), Address: types.Address(h(b))}, {Value: types.NewCurrency64(7), Address: types.Address(h(b + 1))}}
	}
	fc := types.FileContract{Filesize: 100, FileMerkleRoot: h(9), WindowStart: 10, WindowEnd: 20, Payout: types.Siacoins(5),
		ValidProofOutputs: outs(20), MissedProofOutputs: outs(30), UnlockHash: types.Address(h(40)), RevisionNumber: 3}
	v2fc := types.V2FileContract{Capacity: 64, Filesize: 64, FileMerkleRoot: h(50), ProofHeight: 30, ExpirationHeight: 40,
		RenterOutput: outs(60)[0], HostOutput: outs(61)[0], MissedHostValue: types.Siacoins(1), TotalCollateral: types.Siacoins(1), RevisionNumber: 2}

	probeOps(cb, "StateElement", func() types.StateElement { return types.StateElement{LeafIndex: 5, MerkleProof: proof(3, 1)} })
	probeOps(cb, "ChainIndexElement", func() types.ChainIndexElement {
		return types.ChainIndexElement{ID: types.BlockID(h(2)), StateElement: types.StateElement{LeafIndex: 1, MerkleProof: proof(4, 2)}, ChainIndex: types.ChainIndex{Height: 7, ID: types.BlockID(h(2))}}
	})
	probeOps(cb, "SiacoinElement", func() types.SiacoinElement {
		return types.SiacoinElement{ID: types.SiacoinOutputID(h(3)), StateElement: types.StateElement{LeafIndex: 2, MerkleProof: proof(4, 3)}, SiacoinOutput: outs(3)[0], MaturityHeight: 9}
	})
	probeOps(cb, "SiafundElement", func() types.SiafundElement {
		return types.SiafundElement{ID: types.SiafundOutputID(h(4)), StateElement: types.StateElement{LeafIndex: 3, MerkleProof: proof(4, 4)}, SiafundOutput: types.SiafundOutput{Value: 10, Address: types.Address(h(4))}, ClaimStart: types.Siacoins(3)}
	})
	probeOps(cb, "FileContractElement", func() types.FileContractElement {
		f := fc
		f.ValidProofOutputs, f.MissedProofOutputs = outs(20), outs(30)
		return types.FileContractElement{ID: types.FileContractID(h(5)), StateElement: types.StateElement{LeafIndex: 4, MerkleProof: proof(4, 5)}, FileContract: f}
	})
	probeOps(cb, "V2FileContractElement", func() types.V2FileContractElement {
		return types.V2FileContractElement{ID: types.FileContractID(h(6)), StateElement: types.StateElement{LeafIndex: 5, MerkleProof: proof(4, 6)}, V2FileContract: v2fc}
	})
	probeOps(cb, "AttestationElement", func() types.AttestationElement {
		return types.AttestationElement{ID: types.AttestationID(h(7)), StateElement: types.StateElement{LeafIndex: 6, MerkleProof: proof(4, 7)},
			Attestation: types.Attestation{PublicKey: types.PublicKey(h(70)), Key: "k", Value: []byte{1, 2, 3, 4}}}
	})
	// a v2 transaction with every field populated
	txn := richV2(fc, v2fc)
	probeDeepCopy(cb, &txn, true, "synthetic", nil)
}

// hasStorageProof: the transaction carries a storage proof resolution whose history proof (ProofIndex) is not empty.
func hasStorageProof(t *types.V2Transaction) bool {
	for _, r := range t.FileContractResolutions {
		if sp, ok := r.Resolution.(*types.V2StorageProof); ok && len(sp.ProofIndex.StateElement.MerkleProof) > 0 {
			return true
		}
	}
	return false
}

func probeDeepCopy(cb *copyBook, t *types.V2Transaction, mutate bool, origin string, ci *caseInfo) {
	c := t.DeepCopy()
	cb.noteCase("V2Transaction.DeepCopy", mutate, probeCopy("V2Transaction.DeepCopy", t, &c, mutate), ci)
	if hasStorageProof(t) {
		cb.count("DeepCopy of a storage proof transaction with a history proof (" + origin + ")")
	}
	for _, r := range t.FileContractResolutions {
		switch r.Resolution.(type) {
		case *types.V2FileContractRenewal:
			cb.count("DeepCopy of a renewal transaction (" + origin + ")")
		case *types.V2FileContractExpiration:
			cb.count("DeepCopy of an expiration transaction (" + origin + ")")
		}
	}
}

func richV2(_ types.FileContract, v2fc types.V2FileContract) types.V2Transaction {
	pk := types.PublicKey(h(80))
	uc := types.UnlockConditions{Timelock: 3, PublicKeys: []types.UnlockKey{{Algorithm: types.SpecifierEd25519, Key: []byte{1, 2, 3, 4, 5, 6, 7, 8}}}, SignaturesRequired: 1}
	pol := types.PolicyThreshold(2, []types.SpendPolicy{types.PolicyAbove(5), types.PolicyPublicKey(pk), types.PolicyHash(h(81)),
		{Type: types.PolicyTypeUnlockConditions(uc)}, types.PolicyAfter(time.Unix(1_700_000_000, 0))})
	sp := types.SatisfiedPolicy{Policy: pol, Signatures: []types.Signature{{1}, {2}}, Preimages: [][32]byte{{3}, {4}}}
	sce := types.SiacoinElement{ID: types.SiacoinOutputID(h(90)), StateElement: types.StateElement{LeafIndex: 2, MerkleProof: proof(3, 90)},
		SiacoinOutput: types.SiacoinOutput{Value: types.Siacoins(9), Address: pol.Address()}}
	sfe := types.SiafundElement{ID: types.SiafundOutputID(h(91)), StateElement: types.StateElement{LeafIndex: 3, MerkleProof: proof(3, 91)},
		SiafundOutput: types.SiafundOutput{Value: 5, Address: pol.Address()}}
	fce := func(b byte) types.V2FileContractElement {
		return types.V2FileContractElement{ID: types.FileContractID(h(b)), StateElement: types.StateElement{LeafIndex: uint64(b), MerkleProof: proof(3, b)}, V2FileContract: v2fc}
	}
	addr := types.Address(h(99))
	return types.V2Transaction{
		SiacoinInputs:         []types.V2SiacoinInput{{Parent: sce, SatisfiedPolicy: sp}},
		SiacoinOutputs:        []types.SiacoinOutput{{Value: types.Siacoins(1), Address: addr}},
		SiafundInputs:         []types.V2SiafundInput{{Parent: sfe, ClaimAddress: addr, SatisfiedPolicy: sp}},
		SiafundOutputs:        []types.SiafundOutput{{Value: 5, Address: addr}},
		FileContracts:         []types.V2FileContract{v2fc},
		FileContractRevisions: []types.V2FileContractRevision{{Parent: fce(100), Revision: v2fc}},
		FileContractResolutions: []types.V2FileContractResolution{
			{Parent: fce(101), Resolution: &types.V2FileContractRenewal{NewContract: v2fc, FinalRenterOutput: types.SiacoinOutput{Value: types.Siacoins(1), Address: addr}}},
			{Parent: fce(102), Resolution: &types.V2StorageProof{ProofIndex: types.ChainIndexElement{ID: types.BlockID(h(103)), StateElement: types.StateElement{LeafIndex: 1, MerkleProof: proof(2, 103)}}, Proof: proof(2, 104)}},
			{Parent: fce(105), Resolution: &types.V2FileContractExpiration{}},
		},
		Attestations:         []types.Attestation{{PublicKey: pk, Key: "key", Value: []byte{9, 8, 7}}},
		ArbitraryData:        []byte{1, 2, 3},
		NewFoundationAddress: &addr,
		MinerFee:             types.Siacoins(1),
	}
}

// nonEphemeral counts the element proofs with memory of their own among the slices of a value.
func nonEphemeralProofs(val any) int {
	n := 0
	for _, r := range regions(val, isHash, false) {
		if strings.HasSuffix(r.path, "StateElement.MerkleProof") {
			n++
		}
	}
	return n
}

// probeDecoded decodes buf into *dst with the library's decoder and looks at the value it returns.
func probeDecoded(cb *copyBook, op string, buf []byte, dst types.DecoderFrom, ci *caseInfo) bool {
	d := types.NewBufDecoder(buf)
	if pan, _ := vlib.Recover(func() { dst.DecodeFrom(d) }); pan || d.Err() != nil {
		return false
	}
	cb.noteCase(op, false, probeSelf(op, dst, buf), ci)
	if n := nonEphemeralProofs(dst); n >= 2 {
		cb.count(op + " of a value with >= 2 non-ephemeral elements")
	}
	return true
}

// probeReal probes the copy operations and the decoders on the transactions and supplement elements of a simulated
// block: every value the library hands back must own all of its memory, slice by slice and up to capacity.
func probeReal(cb *copyBook, in *input, ci *caseInfo) {
	for i := range in.B.V2Transactions() {
		t := &in.B.V2.Transactions[i]
		probeDeepCopy(cb, t, cb.wantMutation("V2Transaction.DeepCopy", 60) || (hasStorageProof(t) && cb.wantMutation("V2Transaction.DeepCopy", 90)), "simulated chain", ci)
	}
	for i := range in.Supp.Transactions {
		ts := &in.Supp.Transactions[i]
		for j := range ts.SiacoinInputs {
			c := ts.SiacoinInputs[j].Copy()
			m := cb.wantMutation("SiacoinElement.Copy", 60)
			cb.noteCase("SiacoinElement.Copy", m, probeCopy("SiacoinElement.Copy", &ts.SiacoinInputs[j], &c, m), ci)
		}
		for j := range ts.SiafundInputs {
			c := ts.SiafundInputs[j].Copy()
			m := cb.wantMutation("SiafundElement.Copy", 60)
			cb.noteCase("SiafundElement.Copy", m, probeCopy("SiafundElement.Copy", &ts.SiafundInputs[j], &c, m), ci)
		}
		for j := range ts.RevisedFileContracts {
			c := ts.RevisedFileContracts[j].Copy()
			m := cb.wantMutation("FileContractElement.Copy", 60)
			cb.noteCase("FileContractElement.Copy", m, probeCopy("FileContractElement.Copy", &ts.RevisedFileContracts[j], &c, m), ci)
		}
		for j := range ts.StorageProofs {
			c := ts.StorageProofs[j].FileContract.Copy()
			m := cb.wantMutation("FileContractElement.Copy", 60)
			cb.noteCase("FileContractElement.Copy", m, probeCopy("FileContractElement.Copy", &ts.StorageProofs[j].FileContract, &c, m), ci)
		}
	}
	for j := range in.Supp.ExpiringFileContracts {
		c := in.Supp.ExpiringFileContracts[j].Copy()
		m := cb.wantMutation("FileContractElement.Copy", 60)
		cb.noteCase("FileContractElement.Copy", m, probeCopy("FileContractElement.Copy", &in.Supp.ExpiringFileContracts[j], &c, m), ci)
	}
	// the decoders: binary (the v2 part through the multiproof form, whose decoder allocates and fills in every element
	// proof; the plain forms) and JSON
	enc := func(v types.EncoderTo) (b []byte) {
		vlib.Recover(func() { b = encBytes(v) })
		return
	}
	if b := enc(types.V2Block(in.B)); b != nil {
		var blk types.Block
		probeDecoded(cb, "V2Block.DecodeFrom", b, (*types.V2Block)(&blk), ci)
	}
	if in.B.V2 != nil {
		if b := enc(in.B.V2); b != nil {
			var bd types.V2BlockData
			probeDecoded(cb, "V2BlockData.DecodeFrom", b, &bd, ci)
		}
		if b := enc(types.V2TransactionsMultiproof(in.B.V2.Transactions)); b != nil {
			var mp types.V2TransactionsMultiproof
			probeDecoded(cb, "V2TransactionsMultiproof.DecodeFrom", b, &mp, ci)
		}
		for i := range in.B.V2.Transactions {
			if b := enc(in.B.V2.Transactions[i]); b != nil {
				var t types.V2Transaction
				probeDecoded(cb, "V2Transaction.DecodeFrom", b, &t, ci)
			}
		}
	}
	if b := enc(types.V1Block(in.B)); b != nil {
		var blk types.Block
		probeDecoded(cb, "V1Block.DecodeFrom", b, (*types.V1Block)(&blk), ci)
	}
	if b := enc(in.Supp); b != nil {
		var bs consensus.V1BlockSupplement
		probeDecoded(cb, "V1BlockSupplement.DecodeFrom", b, &bs, ci)
	}
	if b := enc(in.S); b != nil {
		var s consensus.State
		probeDecoded(cb, "State.DecodeFrom", b, &s, ci)
	}
	probeJSON(cb, "Block.UnmarshalJSON", in.B, &types.Block{}, ci)
	probeJSON(cb, "V1BlockSupplement.UnmarshalJSON", in.Supp, &consensus.V1BlockSupplement{}, ci)
	for i := range in.B.V2Transactions() {
		probeJSON(cb, "V2Transaction.UnmarshalJSON", in.B.V2.Transactions[i], &types.V2Transaction{}, ci)
	}
}

func probeJSON(cb *copyBook, op string, src, dst any, ci *caseInfo) {
	js, err := json.Marshal(src)
	if err != nil {
		return
	}
	if pan, _ := vlib.Recover(func() { err = json.Unmarshal(js, dst) }); pan || err != nil {
		return
	}
	cb.noteCase(op, false, probeSelf(op, dst, js), ci)
	if n := nonEphemeralProofs(dst); n >= 2 {
		cb.count(op + " of a value with >= 2 non-ephemeral elements")
	}
}
