package main

// Probes of the library's copy operations (Copy on every element type, V2Transaction.DeepCopy): a copy must
// share no mutable memory with its original.  Two independent observations: (1) the slice backing arrays and
// pointees reachable from copy and original are compared by address; (2) every scalar reachable from the copy
// is flipped and the original's deep digest is looked at.

import (
	"fmt"
	"regexp"
	"sort"
	"strings"
	"sync"
	"time"

	"go.sia.tech/core/types"
)

type sharing struct {
	Op     string `json:"op"`
	Path   string `json:"path"`
	Direct bool   `json:"direct"` // reached without crossing a pointer or interface: a slice the copy operation left aliased
	How    string `json:"how"`    // address | mutation
}

var reIndex = regexp.MustCompile(`\[\d+\]`)

// classPath names the shared thing rather than the instance: indices are dropped; a directly shared slice is named
// by the slice field (not by the scalars reached through it), memory shared through a pointer or an interface by
// the pointer / interface field.
func classPath(p string, direct bool) string {
	p = reIndex.ReplaceAllString(p, "[]")
	cut := func(s, sep string) string {
		if i := strings.Index(s, sep); i >= 0 {
			return s[:i]
		}
		return s
	}
	if direct {
		return strings.TrimPrefix(cut(p, "[]"), ".")
	}
	q := cut(cut(p, "->"), ".(")
	return strings.TrimPrefix(q, ".")
}

// probeCopy compares *orig with *cp (the result of the copy operation op).
func probeCopy(op string, orig, cp any, mutate bool) []sharing {
	var out []sharing
	seen := map[string]bool{}
	add := func(path string, direct bool, how string) {
		path = classPath(path, direct)
		k := fmt.Sprint(path, direct)
		if seen[k] {
			for i := range out {
				if out[i].Path == path && out[i].Direct == direct && out[i].How != how && out[i].How != "address+mutation" {
					out[i].How = "address+mutation"
				}
			}
			return
		}
		seen[k] = true
		out = append(out, sharing{Op: op, Path: path, Direct: direct, How: how})
	}
	for _, p := range overlaps(regions(cp, nil, true), regions(orig, nil, true)) {
		add(p[0].path, !p[0].viaPtr && !p[1].viaPtr && !p[0].ptrLike, "address")
	}
	if mutate {
		base := deep(orig)
		mutateLeaves(cp, func(path string, via bool) {
			if deep(orig) != base {
				add(path, !via, "mutation")
			}
		})
		if deep(orig) != base {
			add("(original not restored after probing)", true, "mutation")
		}
	}
	sort.Slice(out, func(i, j int) bool { return out[i].Path < out[j].Path })
	return out
}

type copyBook struct {
	mu      sync.Mutex
	probed  map[string]int
	found   map[string]sharing // op+path -> finding
	mutated map[string]int
}

func newCopyBook() *copyBook {
	return &copyBook{probed: map[string]int{}, found: map[string]sharing{}, mutated: map[string]int{}}
}

func (cb *copyBook) note(op string, mutate bool, fs []sharing) {
	cb.mu.Lock()
	defer cb.mu.Unlock()
	cb.probed[op]++
	if mutate {
		cb.mutated[op]++
	}
	for _, f := range fs {
		k := f.Op + " " + f.Path
		if old, ok := cb.found[k]; !ok || (old.How != f.How && old.How != "address+mutation") {
			if ok {
				f.How = "address+mutation"
			}
			cb.found[k] = f
		}
	}
}

func (cb *copyBook) wantMutation(op string, limit int) bool {
	cb.mu.Lock()
	defer cb.mu.Unlock()
	return cb.mutated[op] < limit
}

func h(b byte) (x types.Hash256) {
	for i := range x {
		x[i] = b + byte(i)
	}
	return
}

func proof(n int, b byte) []types.Hash256 {
	p := make([]types.Hash256, n, n+2)
	for i := range p {
		p[i] = h(b + byte(7*i))
	}
	return p
}

// probeElement runs the three operations of one element type.
func probeElements(cb *copyBook) {
	se := types.StateElement{LeafIndex: 5, MerkleProof: proof(3, 1)}
	outs := func(b byte) []types.SiacoinOutput {
		return []types.SiacoinOutput{{Value: types.Siacoins(uint32(b)), Address: types.Address(h(b))}, {Value: types.NewCurrency64(7), Address: types.Address(h(b + 1))}}
	}
	fc := types.FileContract{Filesize: 100, FileMerkleRoot: h(9), WindowStart: 10, WindowEnd: 20, Payout: types.Siacoins(5),
		ValidProofOutputs: outs(20), MissedProofOutputs: outs(30), UnlockHash: types.Address(h(40)), RevisionNumber: 3}
	v2fc := types.V2FileContract{Capacity: 64, Filesize: 64, FileMerkleRoot: h(50), ProofHeight: 30, ExpirationHeight: 40,
		RenterOutput: outs(60)[0], HostOutput: outs(61)[0], MissedHostValue: types.Siacoins(1), TotalCollateral: types.Siacoins(1), RevisionNumber: 2}

	{
		o := se
		o.MerkleProof = proof(3, 1)
		c := o.Copy()
		cb.note("StateElement.Copy", true, probeCopy("StateElement.Copy", &o, &c, true))
	}
	{
		o := types.ChainIndexElement{ID: types.BlockID(h(2)), StateElement: types.StateElement{LeafIndex: 1, MerkleProof: proof(4, 2)}, ChainIndex: types.ChainIndex{Height: 7, ID: types.BlockID(h(2))}}
		c := o.Copy()
		cb.note("ChainIndexElement.Copy", true, probeCopy("ChainIndexElement.Copy", &o, &c, true))
	}
	{
		o := types.SiacoinElement{ID: types.SiacoinOutputID(h(3)), StateElement: types.StateElement{LeafIndex: 2, MerkleProof: proof(4, 3)}, SiacoinOutput: outs(3)[0], MaturityHeight: 9}
		c := o.Copy()
		cb.note("SiacoinElement.Copy", true, probeCopy("SiacoinElement.Copy", &o, &c, true))
	}
	{
		o := types.SiafundElement{ID: types.SiafundOutputID(h(4)), StateElement: types.StateElement{LeafIndex: 3, MerkleProof: proof(4, 4)}, SiafundOutput: types.SiafundOutput{Value: 10, Address: types.Address(h(4))}, ClaimStart: types.Siacoins(3)}
		c := o.Copy()
		cb.note("SiafundElement.Copy", true, probeCopy("SiafundElement.Copy", &o, &c, true))
	}
	{
		o := types.FileContractElement{ID: types.FileContractID(h(5)), StateElement: types.StateElement{LeafIndex: 4, MerkleProof: proof(4, 5)}, FileContract: fc}
		c := o.Copy()
		cb.note("FileContractElement.Copy", true, probeCopy("FileContractElement.Copy", &o, &c, true))
	}
	{
		o := types.V2FileContractElement{ID: types.FileContractID(h(6)), StateElement: types.StateElement{LeafIndex: 5, MerkleProof: proof(4, 6)}, V2FileContract: v2fc}
		c := o.Copy()
		cb.note("V2FileContractElement.Copy", true, probeCopy("V2FileContractElement.Copy", &o, &c, true))
	}
	{
		o := types.AttestationElement{ID: types.AttestationID(h(7)), StateElement: types.StateElement{LeafIndex: 6, MerkleProof: proof(4, 7)},
			Attestation: types.Attestation{PublicKey: types.PublicKey(h(70)), Key: "k", Value: []byte{1, 2, 3, 4}}}
		c := o.Copy()
		cb.note("AttestationElement.Copy", true, probeCopy("AttestationElement.Copy", &o, &c, true))
	}
	// Share and Move are shallow by contract ("intentionally aliased" / "memory is not shared"): recorded, not judged
	{
		o := types.SiacoinElement{ID: types.SiacoinOutputID(h(3)), StateElement: types.StateElement{LeafIndex: 2, MerkleProof: proof(4, 3)}, SiacoinOutput: outs(3)[0]}
		c := o.Share()
		cb.note("SiacoinElement.Share (shallow by contract)", false, probeCopy("SiacoinElement.Share (shallow by contract)", &o, &c, false))
		m := o.Move()
		cb.note("SiacoinElement.Move (shallow by contract)", false, probeCopy("SiacoinElement.Move (shallow by contract)", &o, &m, false))
	}
	// a v2 transaction with every field populated
	txn := richV2(fc, v2fc)
	c := txn.DeepCopy()
	cb.note("V2Transaction.DeepCopy", true, probeCopy("V2Transaction.DeepCopy", &txn, &c, true))
}

func richV2(_ types.FileContract, v2fc types.V2FileContract) types.V2Transaction {
	pk := types.PublicKey(h(80))
	uc := types.UnlockConditions{Timelock: 3, PublicKeys: []types.UnlockKey{{Algorithm: types.SpecifierEd25519, Key: []byte{1, 2, 3, 4, 5, 6, 7, 8}}}, SignaturesRequired: 1}
	pol := types.PolicyThreshold(2, []types.SpendPolicy{types.PolicyAbove(5), types.PolicyPublicKey(pk), types.PolicyHash(h(81)),
		{Type: types.PolicyTypeUnlockConditions(uc)}, types.PolicyAfter(time.Unix(1_700_000_000, 0))})
	sp := types.SatisfiedPolicy{Policy: pol, Signatures: []types.Signature{{1}, {2}}, Preimages: [][32]byte{{3}, {4}}}
	sce := types.SiacoinElement{ID: types.SiacoinOutputID(h(90)), StateElement: types.StateElement{LeafIndex: 2, MerkleProof: proof(3, 90)},
		SiacoinOutput: types.SiacoinOutput{Value: types.Siacoins(9), Address: pol.Address()}}
	sfe := types.SiafundElement{ID: types.SiafundOutputID(h(91)), StateElement: types.StateElement{LeafIndex: 3, MerkleProof: proof(3, 91)},
		SiafundOutput: types.SiafundOutput{Value: 5, Address: pol.Address()}}
	fce := func(b byte) types.V2FileContractElement {
		return types.V2FileContractElement{ID: types.FileContractID(h(b)), StateElement: types.StateElement{LeafIndex: uint64(b), MerkleProof: proof(3, b)}, V2FileContract: v2fc}
	}
	addr := types.Address(h(99))
	return types.V2Transaction{
		SiacoinInputs:         []types.V2SiacoinInput{{Parent: sce, SatisfiedPolicy: sp}},
		SiacoinOutputs:        []types.SiacoinOutput{{Value: types.Siacoins(1), Address: addr}},
		SiafundInputs:         []types.V2SiafundInput{{Parent: sfe, ClaimAddress: addr, SatisfiedPolicy: sp}},
		SiafundOutputs:        []types.SiafundOutput{{Value: 5, Address: addr}},
		FileContracts:         []types.V2FileContract{v2fc},
		FileContractRevisions: []types.V2FileContractRevision{{Parent: fce(100), Revision: v2fc}},
		FileContractResolutions: []types.V2FileContractResolution{
			{Parent: fce(101), Resolution: &types.V2FileContractRenewal{NewContract: v2fc, FinalRenterOutput: types.SiacoinOutput{Value: types.Siacoins(1), Address: addr}}},
			{Parent: fce(102), Resolution: &types.V2StorageProof{ProofIndex: types.ChainIndexElement{ID: types.BlockID(h(103)), StateElement: types.StateElement{LeafIndex: 1, MerkleProof: proof(2, 103)}}, Proof: proof(2, 104)}},
			{Parent: fce(105), Resolution: &types.V2FileContractExpiration{}},
		},
		Attestations:         []types.Attestation{{PublicKey: pk, Key: "key", Value: []byte{9, 8, 7}}},
		ArbitraryData:        []byte{1, 2, 3},
		NewFoundationAddress: &addr,
		MinerFee:             types.Siacoins(1),
	}
}

// probeReal probes the copy operations on the transactions and supplement elements of a simulated block.
func probeReal(cb *copyBook, in *input) {
	for i := range in.B.V2Transactions() {
		t := &in.B.V2.Transactions[i]
		c := t.DeepCopy()
		m := cb.wantMutation("V2Transaction.DeepCopy", 60)
		cb.note("V2Transaction.DeepCopy", m, probeCopy("V2Transaction.DeepCopy", t, &c, m))
	}
	for i := range in.Supp.Transactions {
		ts := &in.Supp.Transactions[i]
		for j := range ts.SiacoinInputs {
			c := ts.SiacoinInputs[j].Copy()
			m := cb.wantMutation("SiacoinElement.Copy", 60)
			cb.note("SiacoinElement.Copy", m, probeCopy("SiacoinElement.Copy", &ts.SiacoinInputs[j], &c, m))
		}
		for j := range ts.SiafundInputs {
			c := ts.SiafundInputs[j].Copy()
			m := cb.wantMutation("SiafundElement.Copy", 60)
			cb.note("SiafundElement.Copy", m, probeCopy("SiafundElement.Copy", &ts.SiafundInputs[j], &c, m))
		}
		for j := range ts.RevisedFileContracts {
			c := ts.RevisedFileContracts[j].Copy()
			m := cb.wantMutation("FileContractElement.Copy", 60)
			cb.note("FileContractElement.Copy", m, probeCopy("FileContractElement.Copy", &ts.RevisedFileContracts[j], &c, m))
		}
	}
	for j := range in.Supp.ExpiringFileContracts {
		c := in.Supp.ExpiringFileContracts[j].Copy()
		m := cb.wantMutation("FileContractElement.Copy", 60)
		cb.note("FileContractElement.Copy", m, probeCopy("FileContractElement.Copy", &in.Supp.ExpiringFileContracts[j], &c, m))
	}
}
