package main

// One "case" = one parent state + block + supplement taken from a simulated Ledger behaviour.  The case
// runner builds the copies of the inputs (decoded, Share()d, copied, JSON), then runs every library entry
// point on every copy from G goroutines at once, logging Begin/End/Audit events for PurityTrace.

import (
	"bytes"
	"crypto/sha256"
	"encoding/hex"
	"encoding/json"
	"fmt"
	"math/rand"
	"reflect"
	"slices"
	"sort"
	"strings"
	"sync"
	"sync/atomic"
	"time"

	"go.sia.tech/core/consensus"
	"go.sia.tech/core/types"
)

// input is everything a consensus entry point is given.
type input struct {
	S    consensus.State
	B    types.Block
	Supp consensus.V1BlockSupplement
}

// variant is one region of memory holding the inputs of a case.
type variant struct {
	kind string // orig | decoded | shared | copied | json
	mem  string
	in   *input
	key  string // content hash of (network, state bytes, block bytes, supplement bytes): the "case" of Purity
	// the copy was obtained from the original by a way that must preserve it, and does not have its content
	differs bool
}

// Event is one line of the trace.
type Event struct {
	Ev    string `json:"ev"`
	ID    int    `json:"id,omitempty"`
	Fn    string `json:"fn,omitempty"`
	Case  string `json:"case,omitempty"`
	Mem   string `json:"mem,omitempty"`
	D     string `json:"d,omitempty"`
	Res   string `json:"res,omitempty"`
	Fresh bool   `json:"fresh"`
	Op    string `json:"op,omitempty"` // M: which update
	D1    string `json:"d1,omitempty"` // M: digest of the cell after the update
	// M, P: ownership of backing arrays (Purity!Place): the owner of mem, whether it is a returned update (nobody is meant
	// to write it again), what placed it (P: publish | track), and the stretches of addresses that back it up to capacity
	// as order-preserving ranks within the segment (computed from raw when the log is filed)
	// (behind a pointer: only M and P lines have them, and a thorough run keeps millions of lines)
	*own
	// not part of the trace
	call *callInfo
}

type own struct {
	Who    string
	Frozen bool
	By     string
	Regs   [][2]int
	raw    []region // the real addresses
}

// callInfo says where a call came from (for reports and re-execution).
type callInfo struct {
	cs   *caseInfo
	kind string // variant kind
	fn   string
	note string // panic text etc.
	// update experiment: the cell this event is about, and the update that preceded it (audits)
	cell    int
	updKind string
	updCell int
	differs bool // the copy the call ran on does not have the content of the original it was obtained from
}

type caseInfo struct {
	n      int
	g      int
	params any
	beh    any // abstract steps up to and including this block
	shape  string
	expect string // verdict the Ledger specification gives the block
	v1, v2 int    // transactions
	hist   bool   // not one block: the history experiment over the whole behaviour (holders.go)
}

type recorder struct {
	mu     sync.Mutex
	events []Event
	nextID atomic.Int64
	nextM  atomic.Int64
}

func (r *recorder) add(e Event) {
	r.mu.Lock()
	r.events = append(r.events, e)
	r.mu.Unlock()
}

func (r *recorder) newMem() string { return fmt.Sprintf("m%d", r.nextM.Add(1)) }

// ---------------------------------------------------------------------------
// digests and content keys

func encBytes(v types.EncoderTo) []byte {
	var buf bytes.Buffer
	e := types.NewEncoder(&buf)
	v.EncodeTo(e)
	e.Flush()
	return buf.Bytes()
}

func sha(parts ...[]byte) string {
	h := sha256.New()
	for _, p := range parts {
		var l [8]byte
		n := len(p)
		for i := 0; i < 8; i++ {
			l[i] = byte(n >> (8 * i))
		}
		h.Write(l[:])
		h.Write(p)
	}
	return hex.EncodeToString(h.Sum(nil)[:12])
}

// blockBytes is a binary form of the block that carries every Merkle proof verbatim (the library's own block
// encoding replaces the proofs of the v2 part by a multiproof).
func blockBytes(b types.Block) []byte {
	var buf bytes.Buffer
	e := types.NewEncoder(&buf)
	types.V1Block(b).EncodeTo(e)
	if b.V2 == nil {
		e.WriteBool(false)
	} else {
		e.WriteBool(true)
		e.WriteUint64(b.V2.Height)
		b.V2.Commitment.EncodeTo(e)
		e.WriteUint64(uint64(len(b.V2.Transactions)))
		for _, txn := range b.V2.Transactions {
			txn.EncodeTo(e)
		}
	}
	e.Flush()
	return buf.Bytes()
}

// digestOf is the digest of everything reachable from the inputs, by part.
func (v *variant) digest() string {
	return "S:" + deep(&v.in.S) + "|B:" + deep(&v.in.B) + "|P:" + deep(&v.in.Supp)
}

// changedParts names the parts in which two digests differ.
func changedParts(a, b string) string {
	pa, pb := strings.Split(a, "|"), strings.Split(b, "|")
	names := map[byte]string{'S': "state", 'B': "block", 'P': "supplement"}
	var out []string
	for i := range pa {
		if i < len(pb) && pa[i] != pb[i] && len(pa[i]) > 0 {
			out = append(out, names[pa[i][0]])
		}
	}
	return strings.Join(out, "+")
}

func contentKey(in *input) (key string, err error) {
	defer func() {
		if r := recover(); r != nil {
			err = fmt.Errorf("inputs do not encode: %v", r)
		}
	}()
	net := *in.S.Network
	return sha([]byte(deep(&net)), encBytes(in.S), blockBytes(in.B), encBytes(in.Supp)), nil
}

func isHash(t reflect.Type) bool { return t == reflect.TypeOf(types.Hash256{}) }

// ---------------------------------------------------------------------------
// copies of the inputs

func mkDecoded(in *input) (out *input, err error) {
	defer func() {
		if r := recover(); r != nil {
			err = fmt.Errorf("panic: %v", r)
		}
	}()
	out = &input{}
	d := types.NewBufDecoder(encBytes(types.V2Block(in.B))) // the v2 part travels as a multiproof
	(*types.V2Block)(&out.B).DecodeFrom(d)
	if d.Err() != nil {
		return nil, d.Err()
	}
	d = types.NewBufDecoder(encBytes(in.Supp))
	out.Supp.DecodeFrom(d)
	if d.Err() != nil {
		return nil, d.Err()
	}
	d = types.NewBufDecoder(encBytes(in.S))
	out.S.DecodeFrom(d)
	if d.Err() != nil {
		return nil, d.Err()
	}
	net := *in.S.Network
	out.S.Network = &net
	return out, nil
}

// mkShared builds inputs whose structs are new but whose element proofs are the original's memory,
// handed over with Share().
func mkShared(in *input) *input {
	out := &input{S: in.S, B: in.B}
	out.B.MinerPayouts = slices.Clone(in.B.MinerPayouts)
	out.B.Transactions = slices.Clone(in.B.Transactions)
	if in.B.V2 != nil {
		v2 := *in.B.V2
		v2.Transactions = slices.Clone(v2.Transactions)
		for i := range v2.Transactions {
			t := &v2.Transactions[i]
			t.SiacoinInputs = slices.Clone(t.SiacoinInputs)
			for j := range t.SiacoinInputs {
				t.SiacoinInputs[j].Parent = t.SiacoinInputs[j].Parent.Share()
			}
			t.SiafundInputs = slices.Clone(t.SiafundInputs)
			for j := range t.SiafundInputs {
				t.SiafundInputs[j].Parent = t.SiafundInputs[j].Parent.Share()
			}
			t.FileContractRevisions = slices.Clone(t.FileContractRevisions)
			for j := range t.FileContractRevisions {
				t.FileContractRevisions[j].Parent = t.FileContractRevisions[j].Parent.Share()
			}
			t.FileContractResolutions = slices.Clone(t.FileContractResolutions)
			for j := range t.FileContractResolutions {
				t.FileContractResolutions[j].Parent = t.FileContractResolutions[j].Parent.Share()
				if sp, ok := t.FileContractResolutions[j].Resolution.(*types.V2StorageProof); ok {
					c := *sp
					c.ProofIndex = c.ProofIndex.Share()
					t.FileContractResolutions[j].Resolution = &c
				}
			}
		}
		out.B.V2 = &v2
	}
	out.Supp.Transactions = slices.Clone(in.Supp.Transactions)
	for i := range out.Supp.Transactions {
		ts := &out.Supp.Transactions[i]
		ts.SiacoinInputs = slices.Clone(ts.SiacoinInputs)
		for j := range ts.SiacoinInputs {
			ts.SiacoinInputs[j] = ts.SiacoinInputs[j].Share()
		}
		ts.SiafundInputs = slices.Clone(ts.SiafundInputs)
		for j := range ts.SiafundInputs {
			ts.SiafundInputs[j] = ts.SiafundInputs[j].Share()
		}
		ts.RevisedFileContracts = slices.Clone(ts.RevisedFileContracts)
		for j := range ts.RevisedFileContracts {
			ts.RevisedFileContracts[j] = ts.RevisedFileContracts[j].Share()
		}
		ts.StorageProofs = slices.Clone(ts.StorageProofs)
		for j := range ts.StorageProofs {
			ts.StorageProofs[j].FileContract = ts.StorageProofs[j].FileContract.Share()
		}
	}
	out.Supp.ExpiringFileContracts = slices.Clone(in.Supp.ExpiringFileContracts)
	for j := range out.Supp.ExpiringFileContracts {
		out.Supp.ExpiringFileContracts[j] = out.Supp.ExpiringFileContracts[j].Share()
	}
	return out
}

// mkCopied uses the library's copy operations: DeepCopy for v2 transactions, Copy for supplement elements.
func mkCopied(in *input) *input {
	out := &input{S: in.S, B: in.B}
	out.B.MinerPayouts = slices.Clone(in.B.MinerPayouts)
	out.B.Transactions = slices.Clone(in.B.Transactions)
	if in.B.V2 != nil {
		v2 := *in.B.V2
		v2.Transactions = make([]types.V2Transaction, len(in.B.V2.Transactions))
		for i := range v2.Transactions {
			v2.Transactions[i] = in.B.V2.Transactions[i].DeepCopy()
		}
		out.B.V2 = &v2
	}
	out.Supp.Transactions = make([]consensus.V1TransactionSupplement, len(in.Supp.Transactions))
	for i, ts := range in.Supp.Transactions {
		var n consensus.V1TransactionSupplement
		for _, e := range ts.SiacoinInputs {
			n.SiacoinInputs = append(n.SiacoinInputs, e.Copy())
		}
		for _, e := range ts.SiafundInputs {
			n.SiafundInputs = append(n.SiafundInputs, e.Copy())
		}
		for _, e := range ts.RevisedFileContracts {
			n.RevisedFileContracts = append(n.RevisedFileContracts, e.Copy())
		}
		for _, e := range ts.StorageProofs {
			n.StorageProofs = append(n.StorageProofs, consensus.V1StorageProofSupplement{FileContract: e.FileContract.Copy(), WindowID: e.WindowID})
		}
		out.Supp.Transactions[i] = n
	}
	for _, e := range in.Supp.ExpiringFileContracts {
		out.Supp.ExpiringFileContracts = append(out.Supp.ExpiringFileContracts, e.Copy())
	}
	return out
}

func mkJSON(in *input) (out *input, err error) {
	defer func() {
		if r := recover(); r != nil {
			err = fmt.Errorf("panic: %v", r)
		}
	}()
	out = &input{}
	rt := func(src, dst any) error {
		js, err := json.Marshal(src)
		if err != nil {
			return err
		}
		return json.Unmarshal(js, dst)
	}
	if err := rt(in.B, &out.B); err != nil {
		return nil, err
	}
	if err := rt(in.Supp, &out.Supp); err != nil {
		return nil, err
	}
	if err := rt(in.S, &out.S); err != nil {
		return nil, err
	}
	net := *in.S.Network
	out.S.Network = &net
	return out, nil
}

// ---------------------------------------------------------------------------
// the library entry points, each returning a result digest

type outcome struct {
	res   string
	fresh bool
	note  string
}

func guarded(f func() outcome) (o outcome) {
	defer func() {
		if r := recover(); r != nil {
			msg := fmt.Sprint(r)
			o = outcome{res: "panic", fresh: true, note: msg}
			if strings.Contains(msg, "shared StateElement") {
				// the library's own Share/Move discipline tripped: memory marked as shared was about to be rewritten
				o.res = "panic:shared"
			}
		}
	}()
	return f()
}

func verdict(err error) string {
	if err == nil {
		return "ok"
	}
	return "err"
}

func doValidate(in *input) outcome {
	return guarded(func() outcome {
		return outcome{res: verdict(consensus.ValidateBlock(in.S, in.B, in.Supp)), fresh: true}
	})
}

// supplementOK transcribes validateSupplement (unexported) over the verif shim; the harness only ever supplies
// honest supplements, so this is a guard for the comparison below, not a source of verdicts.
func supplementOK(s consensus.State, b types.Block, bs consensus.V1BlockSupplement) bool {
	if s.Index.Height+1 >= s.Network.HardforkV2.RequireHeight && (len(bs.Transactions) != 0 || len(bs.ExpiringFileContracts) != 0) {
		return false
	}
	if len(bs.Transactions) != len(b.Transactions) {
		return false
	}
	acc := s.Elements
	for _, txn := range bs.Transactions {
		for _, e := range txn.SiacoinInputs {
			e := e.Copy()
			if !acc.VerifContainsLeaf(consensus.VerifSiacoinLeaf(&e, false)) {
				return false
			}
		}
		for _, e := range txn.SiafundInputs {
			e := e.Copy()
			if !acc.VerifContainsLeaf(consensus.VerifSiafundLeaf(&e, false)) {
				return false
			}
		}
		for _, e := range txn.RevisedFileContracts {
			e := e.Copy()
			if !acc.VerifContainsLeaf(consensus.VerifFileContractLeaf(&e, nil, false)) {
				return false
			}
		}
		for _, sp := range txn.StorageProofs {
			e := sp.FileContract.Copy()
			if !acc.VerifContainsLeaf(consensus.VerifFileContractLeaf(&e, nil, false)) {
				return false
			}
		}
	}
	for _, e := range bs.ExpiringFileContracts {
		e := e.Copy()
		if !acc.VerifContainsLeaf(consensus.VerifFileContractLeaf(&e, nil, false)) {
			return false
		}
	}
	return true
}

// blockLevelOK: the checks ValidateBlock makes before it looks at transactions (header, payouts, weight,
// supplement, commitment).
func blockLevelOK(in *input) (ok bool) {
	defer func() {
		if recover() != nil {
			ok = false
		}
	}()
	if consensus.ValidateOrphan(in.S, in.B) != nil || !supplementOK(in.S, in.B, in.Supp) {
		return false
	}
	if in.B.V2 != nil && in.B.V2.Commitment != in.S.Commitment(in.B.MinerPayouts[0].Address, in.B.Transactions, in.B.V2Transactions()) {
		return false
	}
	return true
}

// doTxnPath validates the transactions one at a time against the evolving intermediate state.
func doTxnPath(in *input) outcome {
	return guarded(func() outcome {
		ms := consensus.NewMidState(in.S)
		for i, txn := range in.B.Transactions {
			if err := consensus.ValidateTransaction(ms, txn, in.Supp.Transactions[i]); err != nil {
				return outcome{res: "err", fresh: true}
			}
			ms.ApplyTransaction(txn, in.Supp.Transactions[i])
		}
		for _, txn := range in.B.V2Transactions() {
			if err := consensus.ValidateV2Transaction(ms, txn); err != nil {
				return outcome{res: "err", fresh: true}
			}
			ms.ApplyV2Transaction(txn)
		}
		return outcome{res: "ok", fresh: true}
	})
}

func doElements(in *input) outcome {
	return guarded(func() outcome {
		var sb strings.Builder
		sb.WriteString("e:")
		for _, txn := range in.B.V2Transactions() {
			if in.S.Elements.ValidateTransactionElements(txn) == nil {
				sb.WriteByte('1')
			} else {
				sb.WriteByte('0')
			}
		}
		return outcome{res: sb.String(), fresh: true}
	})
}

// normJSON removes the difference between null, [] and an absent member (a decoded block has empty slices where a
// built one has nil ones) and sorts members.
func normJSON(js []byte) []byte {
	var x any
	if json.Unmarshal(js, &x) != nil {
		return js
	}
	var strip func(any) any
	strip = func(n any) any {
		switch t := n.(type) {
		case map[string]any:
			for k, v := range t {
				v = strip(v)
				if v == nil {
					delete(t, k)
				} else {
					t[k] = v
				}
			}
			if len(t) == 0 {
				return nil
			}
			return t
		case []any:
			if len(t) == 0 {
				return nil
			}
			for i := range t {
				t[i] = strip(t[i])
			}
			return t
		}
		return n
	}
	out, _ := json.Marshal(strip(x))
	return out
}

// diffs is what ApplyUpdate and RevertUpdate have in common.
type diffs interface {
	SiacoinElementDiffs() []consensus.SiacoinElementDiff
	SiafundElementDiffs() []consensus.SiafundElementDiff
	FileContractElementDiffs() []consensus.FileContractElementDiff
	V2FileContractElementDiffs() []consensus.V2FileContractElementDiff
	ChainIndexElement() types.ChainIndexElement
}

var wideAliases atomic.Int64 // results holding any proof slice of the inputs (e.g. the block's *V2StorageProof): information

// proofAliases counts the accumulator proofs of the update's own elements (the proofs ApplyBlock / RevertBlock and
// UpdateElementProof rewrite in place) that live in memory of the inputs.
func proofAliases(u diffs, whole any, in *input) int {
	var rr []region
	add := func(se *types.StateElement) {
		if cap(se.MerkleProof) > 0 {
			p := reflect.ValueOf(se.MerkleProof)
			lo := uintptr(p.UnsafePointer())
			rr = append(rr, region{lo: lo, hi: lo + uintptr(cap(se.MerkleProof))*32})
		}
	}
	for _, d := range u.SiacoinElementDiffs() {
		add(&d.SiacoinElement.StateElement)
	}
	for _, d := range u.SiafundElementDiffs() {
		add(&d.SiafundElement.StateElement)
	}
	for _, d := range u.FileContractElementDiffs() {
		add(&d.FileContractElement.StateElement)
	}
	for _, d := range u.V2FileContractElementDiffs() {
		add(&d.V2FileContractElement.StateElement)
	}
	cie := u.ChainIndexElement()
	add(&cie.StateElement)
	ir := append(regions(&in.B, isHash, false), regions(&in.Supp, isHash, false)...)
	if len(overlaps(regions(whole, isHash, false), ir)) > 0 {
		wideAliases.Add(1)
	}
	return len(overlaps(rr, ir))
}

func doApply(in *input) outcome {
	return guarded(func() outcome {
		cs, au := consensus.ApplyBlock(in.S, in.B, in.Supp, time.Time{})
		js, err := json.Marshal(au)
		if err != nil {
			return outcome{res: "json-error", fresh: true, note: err.Error()}
		}
		var trees bytes.Buffer
		au.ForEachTreeNode(func(row, col uint64, h types.Hash256) { fmt.Fprintf(&trees, "%d.%d.%x;", row, col, h[:6]) })
		return outcome{res: "s:" + sha(encBytes(cs)) + "|u:" + sha(normJSON(js), trees.Bytes()), fresh: proofAliases(au, &au, in) == 0}
	})
}

func doRevert(in *input) outcome {
	return guarded(func() outcome {
		ru := consensus.RevertBlock(in.S, in.B, in.Supp)
		js, err := json.Marshal(ru)
		if err != nil {
			return outcome{res: "json-error", fresh: true, note: err.Error()}
		}
		return outcome{res: "u:" + sha(normJSON(js)), fresh: proofAliases(ru, &ru, in) == 0}
	})
}

func doEncode(in *input) outcome {
	return guarded(func() outcome {
		js, err := json.Marshal(in.B)
		if err != nil {
			return outcome{res: "json-error", fresh: true, note: err.Error()}
		}
		return outcome{res: "b:" + sha(encBytes(types.V2Block(in.B)), encBytes(in.Supp), encBytes(in.S), normJSON(js)), fresh: true}
	})
}

// ---------------------------------------------------------------------------
// the case runner

type task struct {
	fn string
	v  *variant
	do func(*input) outcome
}

type caseStats struct {
	calls     int
	variants  map[string]int // kind -> built
	sameKey   map[string]int // kind -> same content key as the original
	verdict   string         // ValidateBlock on the original memory
	blockLvl  bool
	ownKey    int // per-transaction path logged under its own key (block-level checks fail)
	panics    map[string]int
	applyNote string
	differs   map[string]int  // kind -> copies of a block the specification accepts that do not have the original's content
	refs      map[string]bool // classes of repeated references to one accumulator element in the block (decoded copy built)
	partial   int             // v1 signatures with field-by-field coverage in the block
}

// runCase runs every entry point on every copy of the inputs from g goroutines and logs the events.
func runCase(rec *recorder, in *input, expectAccept bool, g int, rng *rand.Rand, ci *caseInfo) (st caseStats, err error) {
	st.variants, st.sameKey, st.panics, st.differs = map[string]int{}, map[string]int{}, map[string]int{}, map[string]int{}
	st.partial = partialSigs(&in.B)
	orig := &variant{kind: "orig", mem: rec.newMem(), in: in}
	// the original is looked at before anything of the library touches it
	d0 := orig.digest()
	rec.add(Event{Ev: "A", Mem: orig.mem, D: d0})
	if orig.key, err = contentKey(in); err != nil {
		return st, err
	}
	vs := []*variant{orig}
	add := func(kind string, vin *input, e error) {
		if e != nil || vin == nil {
			st.variants[kind+":unavailable"]++
			// a block the specification accepts must survive every way of obtaining it
			if expectAccept && kind != "blocklevel" {
				st.differs[kind+":unavailable"]++
			}
			return
		}
		v := &variant{kind: kind, mem: rec.newMem(), in: vin}
		rec.add(Event{Ev: "A", Mem: v.mem, D: v.digest()})
		k, e := contentKey(vin)
		if e != nil {
			st.variants[kind+":unavailable"]++
			return
		}
		v.key = k
		st.variants[kind]++
		if k == orig.key {
			st.sameKey[kind]++
		} else if expectAccept && kind != "blocklevel" {
			// "obtained how" is not part of the key: the copy was obtained from a block the specification accepts by a way
			// that must preserve it (codec round trip, copy operation), so it is filed under the key of the original and
			// whatever is computed from it must be what is computed from the original
			v.key, v.differs = orig.key, true
			st.differs[kind]++
		}
		vs = append(vs, v)
	}
	dec, e1 := mkDecoded(in)
	add("decoded", dec, e1)
	if expectAccept && e1 == nil {
		st.refs = refClasses(&in.B)
		for k := range v1RefClasses(&in.B) {
			st.refs[k] = true
		}
	}
	add("shared", mkShared(in), nil)
	add("copied", mkCopied(in), nil)
	js, e2 := mkJSON(in)
	add("json", js, e2)
	// the same block with its timestamp in another in-memory representation (tsrep.go)
	rep := tsReps[ci.n%len(tsReps)]
	tv, e3 := mkTimestamp(in, rep)
	if e3 != nil {
		return st, e3
	}
	add(rep.name, tv, nil)
	st.variants["orig"]++
	// a copy that fails the block-level checks only (miner payout off by one): here the per-transaction path and
	// ValidateBlock legitimately disagree, so the path is logged under its own key
	if len(in.B.MinerPayouts) > 0 {
		bl := mkCopied(in)
		bl.B.MinerPayouts[0].Value = bl.B.MinerPayouts[0].Value.Add(types.NewCurrency64(1))
		add("blocklevel", bl, nil)
	}
	// building the copies went through the library's encoders and copy operations: the original must be as it was
	rec.add(Event{Ev: "A", Mem: orig.mem, D: orig.digest()})

	applyFn := "apply"
	if !expectAccept {
		applyFn = "apply-invalid"
	}
	var tasks []task
	for _, v := range vs {
		reps := 1
		if v.kind == "orig" {
			reps = 2 // the same function twice on the same memory
		}
		for r := 0; r < reps; r++ {
			tasks = append(tasks, task{"header", v, doHeader})
			if strings.HasPrefix(v.kind, "ts") {
				tasks = append(tasks, task{"validate", v, doValidate}, task{applyFn, v, doApply})
				if expectAccept {
					tasks = append(tasks, task{"revert", v, doRevert})
				}
				continue
			}
			tasks = append(tasks, task{"validate", v, doValidate}, task{"txnpath", v, doTxnPath}, task{"elements", v, doElements}, task{"encode", v, doEncode},
				task{"hashes", v, func(in *input) outcome { return doHashes(in, true) }})
			if v.kind == "blocklevel" {
				tasks = append(tasks, task{"apply-invalid", v, doApply})
				continue
			}
			tasks = append(tasks, task{applyFn, v, doApply})
			if expectAccept {
				tasks = append(tasks, task{"revert", v, doRevert})
			}
		}
	}
	rng.Shuffle(len(tasks), func(i, j int) { tasks[i], tasks[j] = tasks[j], tasks[i] })
	var mu sync.Mutex
	run := func(t task) {
		fn := t.fn
		if fn == "txnpath" {
			// same key as the block verdict whenever the block-level checks pass; its own key otherwise
			if blockLevelOK(t.v.in) {
				fn = "validate"
				if t.v.kind == "orig" {
					mu.Lock()
					st.blockLvl = true
					mu.Unlock()
				}
			} else {
				fn = "txn-path"
				mu.Lock()
				st.ownKey++
				mu.Unlock()
			}
		}
		info := &callInfo{cs: ci, kind: t.v.kind, fn: t.fn, differs: t.v.differs}
		id := int(rec.nextID.Add(1))
		rec.add(Event{Ev: "B", ID: id, Fn: fn, Case: t.v.key, Mem: t.v.mem, D: t.v.digest(), call: info})
		o := t.do(t.v.in)
		info.note = o.note
		rec.add(Event{Ev: "E", ID: id, Res: o.res, D: t.v.digest(), Fresh: o.fresh, call: info})
		mu.Lock()
		st.calls++
		if strings.HasPrefix(o.res, "panic") {
			st.panics[t.fn]++
			if t.fn == "apply" {
				st.applyNote = o.note
			}
		}
		if t.fn == "validate" && t.v.kind == "orig" {
			st.verdict = o.res
		}
		mu.Unlock()
	}
	// before the concurrent phase every pooled hashing entry point is called once, sequentially (a pool that one call
	// leaves damaged shows in the concurrent calls that follow)
	run(task{"hashes", orig, func(in *input) outcome { return doHashes(in, false) }})
	if g <= 1 {
		for _, t := range tasks {
			run(t)
		}
	} else {
		var next atomic.Int64
		start := make(chan struct{})
		var wg sync.WaitGroup
		for w := 0; w < g; w++ {
			wg.Add(1)
			go func() {
				defer wg.Done()
				<-start
				for {
					i := int(next.Add(1)) - 1
					if i >= len(tasks) {
						return
					}
					run(tasks[i])
				}
			}()
		}
		close(start)
		wg.Wait()
	}
	// quiescent: every region is as it was first seen
	for _, v := range vs {
		rec.add(Event{Ev: "A", Mem: v.mem, D: v.digest()})
	}
	return st, nil
}

// ---------------------------------------------------------------------------
// filing the log by case, and a Go transcription of PurityTrace (used to re-execute rejected cases and to
// cross-check what TLC printed)

// fileByCase turns the recorded order into segments: one per case, events in recorded order; audits are filed
// under every case that uses the region.
func fileByCase(events []Event) (lines []Event) {
	memCases := map[string][]string{}
	idCase := map[int]string{}
	for _, e := range events {
		if e.Ev == "B" || e.Ev == "M" {
			if e.Ev == "B" {
				idCase[e.ID] = e.Case
			}
			if !slices.Contains(memCases[e.Mem], e.Case) {
				memCases[e.Mem] = append(memCases[e.Mem], e.Case)
			}
		}
	}
	by := map[string][]Event{}
	var order []string
	put := func(c string, e Event) {
		if _, ok := by[c]; !ok {
			order = append(order, c)
		}
		by[c] = append(by[c], e)
	}
	for _, e := range events {
		switch e.Ev {
		case "B", "M", "P", "L":
			put(e.Case, e)
		case "E":
			put(idCase[e.ID], e)
		case "A":
			if e.Case != "" { // filed by the harness (cells that are only ever audited included)
				put(e.Case, e)
				break
			}
			for _, c := range memCases[e.Mem] {
				put(c, e)
			}
		}
	}
	sort.Strings(order)
	for _, c := range order {
		rankRegions(by[c])
		lines = append(lines, Event{Ev: "seg", Case: c})
		lines = append(lines, by[c]...)
	}
	return lines
}

// rankRegions replaces the real addresses of the stretches in one segment by their ranks among all addresses of the
// segment (order preserving, so that overlap is what it is in memory; TLC's integers have 32 bits).
func rankRegions(evs []Event) {
	var pts []uintptr
	for _, e := range evs {
		if e.own == nil {
			continue
		}
		for _, r := range e.raw {
			pts = append(pts, r.lo, r.hi)
		}
	}
	if len(pts) == 0 {
		return
	}
	slices.Sort(pts)
	pts = slices.Compact(pts)
	rank := make(map[uintptr]int, len(pts))
	for i, p := range pts {
		rank[p] = i + 1
	}
	for i := range evs {
		if evs[i].own == nil || len(evs[i].raw) == 0 {
			continue
		}
		rs := make([][2]int, 0, len(evs[i].raw))
		for _, r := range evs[i].raw {
			rs = append(rs, [2]int{rank[r.lo], rank[r.hi]})
		}
		evs[i].Regs = rs
	}
}

type reject struct {
	Line int
	Msg  string
}

// goCheck is PurityTrace in Go.
func goCheck(lines []Event) (out []reject) {
	type open struct{ fn, mem, d string }
	var memo map[string]string
	var opens map[int]open
	var seen map[string]string
	var reg map[string]placed
	cs := ""
	segs := map[string]bool{}
	for i, t := range lines {
		ln := i + 1
		rej := func(m string) { out = append(out, reject{ln, m}) }
		switch t.Ev {
		case "seg":
			if segs[t.Case] {
				out = append(out, reject{0, "H:two segments for one case"})
			}
			segs[t.Case] = true
			memo, opens, seen, cs = map[string]string{}, map[int]open{}, map[string]string{}, t.Case
			reg = map[string]placed{}
			continue
		case "B":
			if t.Case != cs {
				rej("H:event filed under another case")
			}
			if _, ok := opens[t.ID]; ok {
				rej("H:call id reused")
			}
			if d, ok := seen[t.Mem]; ok && d != t.D {
				rej("V:input-changed-between-calls " + t.Fn)
			}
			opens[t.ID] = open{t.Fn, t.Mem, t.D}
			seen[t.Mem] = t.D
		case "E":
			o, ok := opens[t.ID]
			if !ok {
				rej("H:end without begin")
				break
			}
			unchanged := o.d == t.D
			if !unchanged {
				rej("V:input-modified-during-call " + o.fn)
			}
			if unchanged && seen[o.mem] != t.D {
				rej("V:input-modified-by-concurrent-call " + o.fn)
			}
			if r, ok := memo[o.fn]; ok && r != t.Res {
				rej("V:result-differs " + o.fn)
			}
			if !t.Fresh {
				rej("V:result-aliases-input-proof " + o.fn)
			}
			if t.Res == "panic:shared" && o.fn == "apply" {
				rej("V:aliasing-guard-fired " + o.fn)
			}
			delete(opens, t.ID)
			if _, ok := memo[o.fn]; !ok {
				memo[o.fn] = t.Res
			}
			seen[o.mem] = t.D
		case "A":
			if d, ok := seen[t.Mem]; ok && d != t.D {
				rej("V:input-changed-when-quiet audit")
			}
			seen[t.Mem] = t.D
		case "M":
			if t.Case != cs {
				rej("H:event filed under another case")
			}
			for _, o := range opens {
				if o.mem == t.Mem {
					rej("H:update of memory a call is running on")
					break
				}
			}
			if d, ok := seen[t.Mem]; ok && d != t.D {
				rej("V:cell-changed-before-update " + t.Op)
			}
			if r, ok := memo[t.Fn]; ok && r != t.Res {
				rej("V:update-result-differs " + t.Op)
			}
			if !placeOK(reg, t) {
				rej("V:refresh-shares-array " + t.Op)
			}
			seen[t.Mem] = t.D1
			if _, ok := memo[t.Fn]; !ok {
				memo[t.Fn] = t.Res
			}
			reg[t.Mem] = placed{t.Who, t.Frozen, t.Regs}
		case "P":
			if t.Case != cs {
				rej("H:event filed under another case")
			}
			if !placeOK(reg, t) {
				rej("V:array-shared " + t.By)
			}
			reg[t.Mem] = placed{t.Who, t.Frozen, t.Regs}
		case "L":
			if d, ok := seen[t.Mem]; ok && d != t.D {
				rej("V:result-changed-after-return look")
			}
			seen[t.Mem] = t.D
		default:
			rej("H:unknown event")
		}
		if (ln == len(lines) || lines[ln].Ev == "seg") && len(opens) > 0 {
			rej("H:segment ends with a call still open")
		}
	}
	if len(lines) > 0 && lines[0].Ev != "seg" {
		out = append(out, reject{0, "H:log does not start with a segment"})
	}
	return out
}

// placed is Purity's st.reg[m].
type placed struct {
	who    string
	frozen bool
	regs   [][2]int
}

func stretchOverlap(r, s [2]int) bool {
	return r[0] < r[1] && s[0] < s[1] && r[0] < s[1] && s[0] < r[1]
}

// sharers is Purity!Sharers: the mems whose memory overlaps the memory of the cell placed by t.
func sharers(reg map[string]placed, t Event) (out []string) {
	for m, o := range reg {
		if m == t.Mem || (t.Frozen && o.frozen && o.who == t.Who) {
			continue
		}
		hit := false
		for _, r := range t.Regs {
			for _, s := range o.regs {
				if stretchOverlap(r, s) {
					hit = true
				}
			}
		}
		if hit {
			out = append(out, m)
		}
	}
	sort.Strings(out)
	return out
}

// placeOK is Purity!PlaceOK.
func placeOK(reg map[string]placed, t Event) bool {
	if !t.Frozen {
		for i, r := range t.Regs {
			for j, s := range t.Regs {
				if i != j && r != s && stretchOverlap(r, s) {
					return false
				}
			}
		}
	}
	return len(sharers(reg, t)) == 0
}

func traceRegs(e Event) [][2]int {
	if e.Regs == nil {
		return [][2]int{}
	}
	return e.Regs
}

func traceBytes(lines []Event) []byte {
	var sb bytes.Buffer
	for _, e := range lines {
		var m map[string]any
		switch e.Ev {
		case "seg":
			m = map[string]any{"ev": "seg", "case": e.Case}
		case "B":
			m = map[string]any{"ev": "B", "id": e.ID, "fn": e.Fn, "case": e.Case, "mem": e.Mem, "d": e.D}
		case "E":
			m = map[string]any{"ev": "E", "id": e.ID, "res": e.Res, "d": e.D, "fresh": e.Fresh}
		case "A":
			m = map[string]any{"ev": "A", "mem": e.Mem, "d": e.D}
		case "M":
			m = map[string]any{"ev": "M", "id": e.ID, "fn": e.Fn, "op": e.Op, "case": e.Case, "mem": e.Mem, "d": e.D, "d1": e.D1, "res": e.Res,
				"who": e.Who, "frozen": e.Frozen, "regs": traceRegs(e)}
		case "P":
			m = map[string]any{"ev": "P", "case": e.Case, "mem": e.Mem, "who": e.Who, "frozen": e.Frozen, "by": e.By, "regs": traceRegs(e)}
		case "L":
			m = map[string]any{"ev": "L", "mem": e.Mem, "d": e.D}
		default:
			m = map[string]any{"ev": e.Ev}
		}
		b, _ := json.Marshal(m)
		sb.Write(b)
		sb.WriteByte('\n')
	}
	return sb.Bytes()
}
