package main

// Representations of a block's timestamp (Purity: "same content" - a timestamp IS its encoded second).
//
// A block is encoded, and hashed into its ID, with its timestamp in whole seconds.  The in-memory time.Time can carry
// more: a sub-second part, a location other than UTC, a monotonic clock reading.  None of it is content: the block has
// the same ID, proof of work and encoding, so verdict, state and update must be those of the decoded block.
//
//  1. every case gets one more copy of the block ("ts..." kinds, rotating: +1ns, +500ms, +999999999ns, zone +5:30,
//     monotonic reading), set AFTER sealing (ID and encoding asserted equal), filed under the key of the original and
//     run through ValidateBlock, ValidateHeader + ValidateOrphan, ApplyBlock and RevertBlock beside the original, the
//     decoded and the JSON copy;
//  2. chains: from the parent state of every eighth accepted case (when no v1 contract is alive, so that empty blocks
//     need no supplement) two chains of empty blocks with the same IDs are applied, one in whole-second form (W), one
//     in a representation (R); the blocks carry the latest second recorded so far, and there are enough of them for
//     that second to become the median.  At every step the DECODED next block is validated on both states and applied
//     to both (state bytes, update JSON under one key), and at the end a probe block carrying exactly the median second
//     is validated on both: a state that kept a sub-second part refuses it.

import (
	"bytes"
	"encoding/json"
	"fmt"
	"sync/atomic"
	"time"

	"go.sia.tech/core/consensus"
	"go.sia.tech/core/types"
	"verif/harness/chain"
)

type tsRep struct {
	name string
	f    func(time.Time) time.Time
}

var tsReps = []tsRep{
	{"ts+1ns", func(t time.Time) time.Time { return t.Add(1) }},
	{"ts+500ms", func(t time.Time) time.Time { return t.Add(500 * time.Millisecond) }},
	{"ts+999999999ns", func(t time.Time) time.Time { return t.Add(999999999) }},
	{"ts-zone", func(t time.Time) time.Time { return t.In(time.FixedZone("+0530", 5*3600+1800)) }},
	{"ts-mono", func(t time.Time) time.Time { n := time.Now(); return n.Add(t.Sub(n)) }}, // wall time of t, with a monotonic reading
}

func tsClass(kind string) string {
	switch kind {
	case "ts-zone":
		return "location"
	case "ts-mono":
		return "monotonic"
	}
	return "subsecond"
}

// sameBlock: ID, proof of work and every encoding of the block are those of the original.
func sameBlock(a, b types.Block) bool {
	return a.ID() == b.ID() && bytes.Equal(blockBytes(a), blockBytes(b)) && bytes.Equal(encBytes(types.V2Block(a)), encBytes(types.V2Block(b)))
}

func mkTimestamp(in *input, rep tsRep) (*input, error) {
	out := mkCopied(in)
	out.B.Timestamp = rep.f(in.B.Timestamp)
	if !sameBlock(out.B, in.B) {
		return nil, fmt.Errorf("the block with timestamp representation %s does not have the ID and encoding of the original", rep.name)
	}
	if rep.name == "ts-mono" && out.B.Timestamp.String() == out.B.Timestamp.Round(0).String() {
		return nil, fmt.Errorf("no monotonic reading in the ts-mono representation")
	}
	return out, nil
}

func doHeader(in *input) outcome {
	return guarded(func() outcome {
		return outcome{res: "h:" + verdict(consensus.ValidateHeader(in.S, in.B.Header())) + "|o:" + verdict(consensus.ValidateOrphan(in.S, in.B)), fresh: true}
	})
}

// sealOn builds an empty block on cs with the given timestamp.
func sealOn(sim *chain.Sim, cs consensus.State, ts time.Time) types.Block {
	child := cs.Index.Height + 1
	miner := sim.K.Addr("A")
	b := types.Block{ParentID: cs.Index.ID, Timestamp: ts, MinerPayouts: []types.SiacoinOutput{{Address: miner, Value: cs.BlockReward()}}}
	if child >= sim.Net.HardforkV2.AllowHeight {
		b.V2 = &types.V2BlockData{Height: child}
		b.V2.Commitment = cs.Commitment(miner, b.Transactions, b.V2Transactions())
	}
	for b.ID().CmpWork(cs.PoWTarget()) < 0 {
		b.Nonce += cs.NonceFactor()
	}
	return b
}

type tsChainStats struct {
	runs, blocks, probes, probeAccepted int
	parted                              int // chains on which the two states gave different verdicts before the probe
	byRep                               map[string]int
}

var tsChainSeq atomic.Int64

// runTimestampChains: see 2. above.
func runTimestampChains(rec *recorder, sim *chain.Sim, in *input, key string, ci *caseInfo, rep tsRep) (st tsChainStats, err error) {
	st.byRep = map[string]int{}
	defer func() {
		if r := recover(); r != nil {
			err = fmt.Errorf("timestamp chains: panic: %v", r)
		}
	}()
	if len(sim.Store.FC) > 0 {
		return st, nil
	}
	run := tsChainSeq.Add(1)
	seg := key + "/ts-chain"
	n, pair := 0, 0
	call := func(fn, side string, s consensus.State, b types.Block, do func() string) string {
		n++
		mem := fmt.Sprintf("tc%d.%s.%d", run, side, n)
		info := &callInfo{cs: ci, kind: side, fn: fn}
		id := int(rec.nextID.Add(1))
		dg := func() string { return "S:" + deep(&s) + "|B:" + deep(&b) }
		rec.add(Event{Ev: "B", ID: id, Fn: fmt.Sprintf("%s@%d.%d", fn, run, pair), Case: seg, Mem: mem, D: dg(), call: info})
		o := guarded(func() outcome { return outcome{res: do(), fresh: true} })
		rec.add(Event{Ev: "E", ID: id, Res: o.res, D: dg(), Fresh: true, call: info})
		return o.res
	}
	empty := consensus.V1BlockSupplement{}
	w, r := in.S, in.S
	latest := w.PrevTimestamps[0]
	steps := int(min(w.Index.Height+1, 11)) + 2
	for k := 0; k <= steps; k++ {
		probe := k == steps
		ts := latest
		if probe {
			ts = time.Unix(w.PrevTimestamps[0].Unix(), 0) // exactly the second that is now the median of the whole-second chain
		}
		bw := sealOn(sim, w, ts)
		br := bw
		if !probe {
			br.Timestamp = rep.f(bw.Timestamp)
		}
		if !sameBlock(bw, br) {
			return st, fmt.Errorf("timestamp chains: representation %s changes the block", rep.name)
		}
		if r.Index != w.Index {
			break // the chains have parted (reported by the apply key of the step before)
		}
		pair++
		vw := call("timestamp-chain-validate", "whole", w, bw, func() string { return verdict(consensus.ValidateBlock(w, bw, empty)) })
		vr := call("timestamp-chain-validate", rep.name, r, bw, func() string { return verdict(consensus.ValidateBlock(r, bw, empty)) })
		if probe {
			st.probes++
			if vw == "ok" {
				st.probeAccepted++
			}
			break
		}
		if vw != "ok" || vr != "ok" {
			if vw != vr {
				st.parted++
			}
			break
		}
		apply := func(s consensus.State, b types.Block, out *consensus.State) func() string {
			return func() string {
				cs, au := consensus.ApplyBlock(s, b, empty, time.Time{})
				*out = cs
				js, _ := json.Marshal(au)
				return "s:" + sha(encBytes(cs)) + "|u:" + sha(normJSON(js))
			}
		}
		var w1, r1 consensus.State
		pair++
		call("timestamp-chain-apply", "whole", w, bw, apply(w, bw, &w1))
		call("timestamp-chain-apply", rep.name, r, br, apply(r, br, &r1))
		w, r = w1, r1
		st.blocks++
	}
	st.runs++
	st.byRep[rep.name]++
	return st, nil
}
