// C09 — Validation and application are deterministic, side-effect free, concurrency-safe.
//
//  1. TLC explores Purity.tla (spec/pure): the memo-function specification accepts every history of an honest
//     implementation and rejects, at the event that exposes it, an End that returns another result for a key,
//     modifies its inputs, modifies memory other calls have seen, or hands back proofs aliasing its inputs;
//     whatever it accepts is a function of the key (PurityMC).
//  2. Direction B: TLC simulates Ledger behaviours (valid blocks and every defect family, three network shapes,
//     reverts); for every block, BEFORE the chain harness itself touches it, the real ValidateBlock, ApplyBlock,
//     RevertBlock, the per-transaction path (NewMidState + Validate*Transaction + Apply*Transaction),
//     ValidateTransactionElements and the block/supplement/state encoders run from G in {1, 2, 8, 32} goroutines
//     on the same memory, on a decode(encode(.)) copy (v2 part through the multiproof form), on a copy whose
//     element proofs are Share()d memory of the original, on a DeepCopy()/Copy() copy and on a JSON round trip.
//     Every call logs Begin/End with a deep digest of all inputs (every proof slice, spare capacity, unexported
//     fields) and a digest of the result; audits are logged while nothing runs.  TLC validates the log against
//     PurityTrace.  The per-transaction verdict is logged under the key of the block verdict.
//     2b. "Obtained how" is not part of a key: a copy of a block the Ledger specification accepts (codec round trip through
//     the multiproof form, JSON, copy operations) is filed under the key of the ORIGINAL even when its content turns out
//     different, so verdict, state and update must be those of the original (key obtained-how/<way>).  Fixed behaviours
//     (fixed.go) supply, at every seed, blocks that reference one accumulator element more than once (two revisions of
//     one contract, revision then renewal, one chain index element under two storage proofs) and v1 signatures with
//     field-by-field coverage (State.PartialSigHash); they run in the goroutine pool of their shape, always with 8 or 32
//     callers.  Every pooled hashing entry point (hashes.go) is called on the block and on a synthetic set once before
//     and then during the concurrent phase of every case (fn "hashes").
//  3. Every value the library's copy and decode operations hand back — Copy/Share/Move of every element kind,
//     V2Transaction.DeepCopy (every resolution kind; the storage proof's history proof), the binary decoders (block
//     through the multiproof form V2Block / V2BlockData / V2TransactionsMultiproof, plain DecodeFrom of transactions,
//     v1 block, supplement, state) and the JSON decoders — is probed by address: no slice reachable from it may
//     share memory UP TO CAPACITY with a slice of the original, with the decoder's input, or with another slice of the
//     same value (spare capacity running into the neighbour's memory); copies are also probed by mutating every
//     scalar reachable from them.  Memory behind a pointee or interface box that copy and original both hold
//     (NewFoundationAddress, the renewal struct, policies) is information; behind a pointee of its own the copy must
//     own everything.
//     3b. "Obtained how" under the one writing operation (Purity!Mutate, update.go): the element proofs of every valid
//     block are held in copies obtained differently (independent, multiproof-decoded, plainly decoded, JSON,
//     DeepCopy/Copy, Share()d-then-copied) and each copy is brought up to date with UpdateElementProof (the block's
//     own update: in-place rewriting; an empty next block: tree growth, after which the real accumulator validates
//     every copy's proofs).  PurityTrace demands: same content + same update => same content, and no other cell
//     (neighbouring element, same element of another copy, the source) changes.
//     3c. Results are independent values over HISTORIES (Purity!Place / Look; design model OwnershipMC, holders.go): the
//     updates of a whole chain are kept, holders that obtained the elements of every update's diffs differently refresh
//     every element they keep (spent, revised, resolved ones included) with every ApplyUpdate / RevertUpdate in turn, and
//     after every refresh the array that backs the refreshed cell must be memory of that holder alone (not of the update
//     used, of an earlier update, of another holder); every update ever returned is looked at again (deep digest) after
//     every pass.  The same ownership clause is applied to every refresh of the update experiments of 3b.
//  4. The harness is built with -race; the check body runs in a child process so that a race report becomes a
//     violation (key race/<first frame inside core>) instead of a crash.
package main

import (
	"encoding/json"
	"flag"
	"fmt"
	"io"
	"math/rand"
	"os"
	"os/exec"
	"path/filepath"
	"regexp"
	"sort"
	"strconv"
	"strings"
	"sync"
	"sync/atomic"
	"time"

	"verif/harness/chain"
	"verif/harness/vlib"
)

var isWorker = flag.Bool("worker", false, "internal: run the check body (child of the supervising process)")

func main() {
	for _, a := range os.Args[1:] {
		if a == "-worker" || a == "--worker" {
			work()
			return
		}
	}
	supervise()
}

// ---------------------------------------------------------------------------
// supervisor: turns a race report of the child into a violation

type capBuf struct {
	mu sync.Mutex
	b  []byte
}

func (c *capBuf) Write(p []byte) (int, error) {
	c.mu.Lock()
	if len(c.b) < 4<<20 {
		c.b = append(c.b, p...)
	}
	c.mu.Unlock()
	return len(p), nil
}

var reFrame = regexp.MustCompile(`(?m)^\s+(go\.sia\.tech/core/\S+?)\(\)\s*$`)

func supervise() {
	c := vlib.Start("C09")
	args := append(append([]string{}, os.Args[1:]...), "-worker")
	env := os.Environ()
	if c.Replay != "" {
		// a saved race report is replayed by running its tier again with its seed
		var f struct {
			Seed int64  `json:"seed"`
			Tier string `json:"tier"`
			Case struct {
				Kind string `json:"kind"`
			} `json:"case"`
		}
		if raw, err := os.ReadFile(c.Replay); err == nil && json.Unmarshal(raw, &f) == nil && f.Case.Kind == "race" {
			args = []string{"-tier", f.Tier, "-worker"}
			env = append(env, fmt.Sprintf("VERIF_SEED=%d", f.Seed))
			c.Seed, c.Tier, c.Thorough = f.Seed, f.Tier, f.Tier == "thorough"
		}
	}
	cmd := exec.Command(os.Args[0], args...)
	cmd.Env = append(env, "GORACE=halt_on_error=1 exitcode=66")
	cmd.Stdout = os.Stdout
	var eb capBuf
	cmd.Stderr = io.MultiWriter(&eb)
	limit := 14 * time.Minute
	if c.Thorough {
		limit = 45 * time.Minute
	}
	if err := cmd.Start(); err != nil {
		c.Fatal("cannot start the check body: %v", err)
	}
	done := make(chan error, 1)
	go func() { done <- cmd.Wait() }()
	var err error
	timedOut := false
	select {
	case err = <-done:
	case <-time.After(limit):
		timedOut = true
		cmd.Process.Kill()
		err = <-done
	}
	childWork := filepath.Join(vlib.Root, ".work", fmt.Sprintf("C09-%d", cmd.Process.Pid))
	exec.Command("pkill", "-f", "tlc2.TL[C].*"+childWork).Run()
	os.RemoveAll(childWork)
	code := 0
	if ee, ok := err.(*exec.ExitError); ok {
		code = ee.ExitCode()
	} else if err != nil {
		code = 2
	}
	stderr := string(eb.b)
	if i := strings.Index(stderr, "WARNING: DATA RACE"); i >= 0 {
		report := stderr[i:]
		if j := strings.Index(report[1:], "=================="); j > 0 {
			report = report[:j+1]
		}
		c.Rule("race detector report while the consensus entry points ran concurrently on shared inputs")
		if m := reFrame.FindStringSubmatch(report); m != nil {
			fn := strings.TrimPrefix(m[1], "go.sia.tech/core/")
			c.Cov("race_report", vlib.Tail(report, 3000))
			c.Violation("race/"+fn, "the race detector reports a data race in "+m[1]+" while validation/application ran concurrently on the same inputs",
				map[string]any{"kind": "race", "report": report})
			c.Finish()
		}
		fmt.Fprintln(os.Stderr, report)
		c.Fatal("data race with no frame inside core (harness bug): %s", vlib.Tail(report, 1500))
	}
	if timedOut {
		c.Fatal("check body exceeded %v", limit)
	}
	if code != 0 && code != 1 {
		os.Stderr.WriteString(vlib.Tail(stderr, 4000))
	}
	os.RemoveAll(c.Work)
	if code == 66 {
		fmt.Println("INFRA: property=C09 check body exited with the race detector's code but no report was captured")
		code = 2
	}
	os.Exit(code)
}

// ---------------------------------------------------------------------------
// check body

var widths = []int{1, 2, 8, 32}

type totals struct {
	mu                                   sync.Mutex
	behaviours, steps, cases, skipped    int
	calls                                int
	valid, invalid, v1, v2, reverts      int
	revertCalls, sameKeyTxnPath, blkFail int
	byG                                  map[int]int
	variants, sameKey, panics            map[string]int
	tags                                 map[string]int
	foreign                              map[string]int
	keyRuns                              map[string]int
	applyGuardNote                       string
	upd                                  updStats
	hist                                 histStats
	tsChains                             tsChainStats
	fixedRun, fixedOK                    int
	differs                              map[string]int // copies of accepted blocks whose content is not the original's
	refs                                 map[string]int // cases by class of repeated element reference
	partialCases, partialSigs            int            // cases (and signatures) with field-by-field v1 coverage
	partialByG                           map[int]int
}

type env struct {
	c     *vlib.Ctx
	rec   *recorder
	cb    *copyBook
	t     *totals
	nCase atomic.Int64
	// the history experiment (holders.go) runs on every histEvery-th drawn behaviour and on every fixed one
	histEvery int
}

func defects() []string {
	return []string{"unbalanced", "auth", "reuse", "intx", "timing", "revision", "proof", "formation"}
}

// build concretises the block of an abstract step on the current tip (nothing of it has been validated yet).
func build(sim *chain.Sim, st chain.Step) (*input, *chain.BlockCtx, error) {
	ctx := sim.NewBlockCtx()
	for _, t := range st.Txs {
		if err := ctx.Add(t); err != nil {
			return nil, nil, fmt.Errorf("%s: %w", t.Tag, err)
		}
		if t.Ver == 1 && strings.HasSuffix(t.Tag, partialMark) {
			// the signatures name every field instead of setting WholeTransaction (ids do not depend on signatures)
			if err := resignPartial(sim, &ctx.V1[len(ctx.V1)-1]); err != nil {
				return nil, nil, fmt.Errorf("%s: %w", t.Tag, err)
			}
		}
	}
	// members that are not transmitted hold, in the block built in memory, a value no decoder fills in (and not the one
	// the library is to derive): copies of the block then differ in memory and must not differ in effect
	for i := range ctx.V1 {
		for j := range ctx.V1[i].FileContractRevisions {
			ctx.V1[i].FileContractRevisions[j].FileContract.Payout = memoryOnlyPayout
		}
	}
	bs := sim.Supplement(ctx.V1)
	b := sim.Seal(ctx.V1, ctx.V2)
	return &input{S: sim.CS, B: b, Supp: bs}, ctx, nil
}

// advance executes a step on the chain without observing it (used to rebuild the parent of a case).
func advance(sim *chain.Sim, st chain.Step) (err error) {
	defer func() {
		if r := recover(); r != nil {
			err = fmt.Errorf("panic: %v", r)
		}
	}()
	if st.Op == "revert" {
		sim.Revert()
		return nil
	}
	in, ctx, err := build(sim, st)
	if err != nil {
		return err
	}
	if st.Verdict == "accept" {
		if e, p := sim.Validate(in.B, in.Supp); e != nil || p != nil {
			return fmt.Errorf("block expected to be valid is not: %v %v", e, p)
		}
		ctx.Commit()
		sim.Apply(in.B, in.Supp)
	}
	return nil
}

// runBehaviour returns the number of steps on which specification and code agreed.
func (e *env) runBehaviour(shape string, p chain.Params, beh *chain.Behaviour, idx int) (agreed int) {
	sim := chain.NewSim(p)
	t := e.t
	local := 0
	var hist *history
	if isFixed(beh) || (e.histEvery > 0 && idx%e.histEvery == 0) {
		hist = newHistory(e.rec, sim, &caseInfo{n: idx, g: 1, params: p, beh: beh.Steps, shape: shape, hist: true}, beh.Hash)
		defer func() {
			hs, err := hist.finish()
			if err != nil {
				e.c.Infra("behaviour %s: %v", beh.Hash, err)
			}
			t.mu.Lock()
			t.hist.add(hs)
			t.mu.Unlock()
		}()
	}
	for i, st := range beh.Steps {
		local++
		agreed = i
		if st.Op == "revert" {
			if len(sim.Chain) == 0 {
				e.c.Infra("behaviour %s: revert below genesis", beh.Hash)
				return
			}
			var undone chain.Applied
			if pan, v := vlib.Recover(func() { undone, _ = sim.Revert() }); pan {
				t.note("C10:panic/revert", fmt.Sprint(v))
				break
			}
			if hist != nil {
				hist.reverted(undone)
			}
			t.mu.Lock()
			t.reverts++
			t.mu.Unlock()
			agreed = i + 1
			continue
		}
		in, ctx, err := build(sim, st)
		if err != nil {
			e.c.Infra("behaviour %s step %d: %v", beh.Hash, i, err)
			return
		}
		n := int(e.nCase.Add(1))
		g := widths[n%len(widths)]
		if isFixed(beh) && len(widths) > 1 {
			g = widths[len(widths)-1-n%2] // the fixed behaviours always run concurrently (the two largest widths)
		}
		ci := &caseInfo{n: n, g: g, params: p, beh: beh.Steps[:i+1], shape: shape, expect: st.Verdict, v1: len(in.B.Transactions), v2: len(in.B.V2Transactions())}
		// a case that was already run twice (behaviours share prefixes) is not run a third time
		key, kerr := contentKey(in)
		skip := false
		if kerr == nil {
			t.mu.Lock()
			t.keyRuns[key]++
			skip = t.keyRuns[key] > 2
			t.mu.Unlock()
		}
		verdict := ""
		if !skip {
			t0 := time.Now()
			cs, err := runCase(e.rec, in, st.Verdict == "accept", g, rand.New(rand.NewSource(e.c.Seed*1_000_003+int64(n))), ci)
			nsCase.Add(int64(time.Since(t0)))
			if err != nil {
				e.c.Infra("behaviour %s step %d: %v", beh.Hash, i, err)
				return
			}
			t1 := time.Now()
			probeReal(e.cb, in, ci)
			nsProbe.Add(int64(time.Since(t1)))
			verdict = cs.verdict
			t.addCase(ci, cs, st)
			if st.Verdict == "accept" && verdict == "ok" {
				if n%8 == 0 {
					ts, err := runTimestampChains(e.rec, sim, in, key, ci, tsReps[(n/8)%3])
					if err != nil {
						e.c.Infra("behaviour %s step %d: %v", beh.Hash, i, err)
						return
					}
					t.mu.Lock()
					t.tsChains.runs += ts.runs
					t.tsChains.blocks += ts.blocks
					t.tsChains.probes += ts.probes
					t.tsChains.probeAccepted += ts.probeAccepted
					t.tsChains.parted += ts.parted
					t.mu.Unlock()
				}
				t2 := time.Now()
				us, err := runUpdates(e.rec, sim, in, key, ci, e.cb)
				nsUpdate.Add(int64(time.Since(t2)))
				if err != nil {
					e.c.Infra("behaviour %s step %d: %v", beh.Hash, i, err)
					return
				}
				t.addUpd(us)
			}
		} else {
			t.mu.Lock()
			t.skipped++
			t.mu.Unlock()
			if err, pan := sim.Validate(in.B, in.Supp); pan != nil {
				verdict = "panic"
			} else if err != nil {
				verdict = "err"
			} else {
				verdict = "ok"
			}
		}
		tag := ""
		if len(st.Txs) > 0 {
			tag = st.Txs[len(st.Txs)-1].Tag
		}
		switch {
		case verdict == "panic":
			t.note("C10:panic/"+tag, "ValidateBlock panics")
		case st.Verdict == "accept" && verdict != "ok":
			t.note("rejected-valid/"+tag, "a block the Ledger specification accepts is rejected")
		case st.Verdict != "accept" && verdict == "ok":
			t.note("accepted-invalid/"+tag, "a block the Ledger specification rejects is accepted")
		}
		if (st.Verdict == "accept") != (verdict == "ok") {
			break // specification and code disagree about this block: another property's business; the behaviour ends here
		}
		if st.Verdict == "accept" {
			if pan, v := vlib.Recover(func() { ctx.Commit(); sim.Apply(in.B, in.Supp) }); pan {
				t.note("C10:panic/apply/"+tag, fmt.Sprint(v))
				break
			}
			if hist != nil {
				hist.applied(sim.Chain[len(sim.Chain)-1])
			}
		}
		agreed = i + 1
	}
	t.mu.Lock()
	t.behaviours++
	t.steps += local
	t.mu.Unlock()
	return agreed
}

func (t *totals) note(k, detail string) {
	t.mu.Lock()
	if t.foreign[k] == 0 {
		fmt.Printf("NOTE: %s: %s (belongs to another property's check; not judged here)\n", k, detail)
	}
	t.foreign[k]++
	t.mu.Unlock()
}

func (t *totals) addUpd(us updStats) {
	t.mu.Lock()
	defer t.mu.Unlock()
	if t.upd.variants == nil {
		t.upd.variants = map[string]int{}
	}
	t.upd.runs += us.runs
	t.upd.updates += us.updates
	t.upd.cells += us.cells
	t.upd.grown += us.grown
	t.upd.rewritten += us.rewritten
	t.upd.validated += us.validated
	t.upd.richDecoded += us.richDecoded
	t.upd.storageProofCopied += us.storageProofCopied
	t.upd.staleAfterUpdate += us.staleAfterUpdate
	t.upd.sharedRefused += us.sharedRefused
	t.upd.sharedUpdated += us.sharedUpdated
	for k, v := range us.variants {
		t.upd.variants[k] += v
	}
	if us.note != "" && t.upd.note == "" {
		t.upd.note = us.note
	}
}

func (t *totals) addCase(ci *caseInfo, cs caseStats, st chain.Step) {
	t.mu.Lock()
	defer t.mu.Unlock()
	t.cases++
	t.calls += cs.calls
	t.byG[ci.g]++
	if cs.verdict == "ok" {
		t.valid++
	} else {
		t.invalid++
	}
	if ci.v1 > 0 {
		t.v1++
	}
	if ci.v2 > 0 {
		t.v2++
	}
	if st.Verdict == "accept" {
		t.revertCalls++
	}
	if cs.blockLvl {
		t.sameKeyTxnPath++
	}
	t.blkFail += cs.ownKey
	for k, v := range cs.variants {
		t.variants[k] += v
	}
	for k, v := range cs.sameKey {
		t.sameKey[k] += v
	}
	for k, v := range cs.panics {
		t.panics[k] += v
	}
	for k, v := range cs.differs {
		t.differs[k] += v
	}
	for k := range cs.refs {
		t.refs[k]++
	}
	if cs.partial > 0 {
		t.partialCases++
		t.partialSigs += cs.partial
		t.partialByG[ci.g]++
	}
	if cs.applyNote != "" && t.applyGuardNote == "" {
		t.applyGuardNote = cs.applyNote
	}
	for _, x := range st.Txs {
		t.tags[fmt.Sprintf("v%d:%s", x.Ver, x.Tag)]++
	}
}

func (e *env) runShape(name string, num, depth int) {
	cfg := chain.BaseConfig(chain.Shapes()[name])
	cfg.Defects = defects()
	cfg.MaxReverts = 1
	cfg.EmitDepth = depth
	cfg.Focus = true
	mod, files, cfgText := cfg.Render()
	const tlcWorkers = 8
	per := (num + tlcWorkers - 1) / tlcWorkers
	res, err := e.c.TLC(vlib.TLCOpts{SpecDirs: []string{"ledger"}, Module: mod, Files: files, ConfText: cfgText,
		Simulate: fmt.Sprintf("num=%d", per), Depth: depth, Seed: e.c.Seed, Workers: tlcWorkers, Timeout: 15 * time.Minute, NoCount: true})
	if err != nil {
		e.c.Fatal("ledger generation (%s): %v", name, err)
	}
	if res.Violated != "" {
		e.c.Fatal("ledger generation (%s): spec failure (%s): %s", name, res.Violated, vlib.Tail(res.Out, 600))
	}
	behs, err := chain.ParseBehaviours(res.Lines)
	if err != nil {
		e.c.Fatal("%v", err)
	}
	sort.Slice(behs, func(i, j int) bool { return behs[i].Hash < behs[j].Hash })
	if len(behs) > num {
		behs = behs[:num]
	}
	// the fixed behaviours of this shape run among the drawn ones, spread over the run
	fixed := fixedFor(name)
	for i, f := range fixed {
		at := (i + 1) * len(behs) / (len(fixed) + 1)
		behs = append(behs[:at], append([]chain.Behaviour{f}, behs[at:]...)...)
	}
	var wg sync.WaitGroup
	sem := make(chan struct{}, 8)
	for i := range behs {
		wg.Add(1)
		sem <- struct{}{}
		go func(b *chain.Behaviour, idx int) {
			defer wg.Done()
			defer func() { <-sem }()
			done := e.runBehaviour(name, cfg.P, b, idx)
			if isFixed(b) {
				e.t.mu.Lock()
				e.t.fixedRun++
				if done == len(b.Steps) {
					e.t.fixedOK++
				}
				e.t.mu.Unlock()
				if done != len(b.Steps) {
					e.c.Infra("fixed behaviour %s: only %d of %d steps were built and accepted by the real code", b.Hash, done, len(b.Steps))
				}
			}
		}(&behs[i], i)
	}
	wg.Wait()
	if len(behs) > 0 {
		b := behs[len(behs)/2]
		e.c.Sample(map[string]any{"shape": name, "behaviour": b.Steps[:min(2, len(b.Steps))]})
	}
}

// time spent (summed over the 8 behaviour goroutines) in the concurrency cases, the address probes and the update experiments
var nsCase, nsProbe, nsUpdate atomic.Int64

var reCov = regexp.MustCompile(`<(Do\w+) line [^>]*>: (\d+):(\d+)`)

func work() {
	c := vlib.Start("C09")
	// development aid (sanity mutants): C09_WIDTHS=1 shows what the trace alone finds, without concurrency
	if w := os.Getenv("C09_WIDTHS"); w != "" {
		widths = nil
		for _, f := range strings.Split(w, ",") {
			if n, err := strconv.Atoi(f); err == nil && n > 0 {
				widths = append(widths, n)
			}
		}
	}
	if c.Replay != "" {
		replay(c)
		return
	}
	c.Rule("Cases: every block (with its supplement and parent state) of TLC-simulated Ledger behaviours on three network shapes — valid blocks and blocks ending in a defective transaction of the families unbalanced, auth, reuse, intx, timing, revision, proof, formation; reverts and re-applies included — taken before anything has validated it. Per case 6 entry points (validate, per-transaction path, element proofs, apply, revert, encode) x 5 memories (original twice, decoded via multiproof, Share()d proofs, DeepCopy/Copy, JSON; a copy of a block the specification accepts is filed under the key of the original even when its content differs) plus the call of every pooled hashing entry point (block contents and a synthetic set; once sequentially before the concurrent phase, then concurrently on every memory) run from G goroutines (G cycles through 1, 2, 8, 32), under the race detector. For every valid block with non-ephemeral elements additionally 2 update experiments (the block's own update; an empty next block's) x 6 copies of its element proofs obtained differently (independent allocation, multiproof decode, plain decode, JSON, DeepCopy/Copy, Share()d then copied): one UpdateElementProof call per element and copy (logged as M with audits of the neighbouring cells, the other copies and the source), then ValidateTransactionElements / leaf membership of every updated copy. Fifteen fixed behaviours (an output spent, the next block, its revert and another block, in v1 and in v2 form; a v2 storage proof applied, reverted and applied again; v1 contract formed and revised / revised twice / revised and proved in one block, the un-transmitted payout of every v1 revision holding a value in memory that no decoder fills in; v2 storage proof among payments, renewal, expiration, v1 contract life cycle; two revisions of one contract in one block, revision then renewal, two storage proofs under one chain index element; v1 signatures with field-by-field coverage alone and followed by v2 blocks) run among the drawn ones of their shape, with 8 or 32 callers. Timestamp representations (a timestamp is its encoded second): every case additionally runs ValidateBlock, ValidateHeader + ValidateOrphan, ApplyBlock and RevertBlock on a copy of the block whose Timestamp, set after sealing (same ID, proof of work and encoding, asserted), carries +1ns / +500ms / +999999999ns / a fixed zone +5:30 / a monotonic reading (rotating), under the key of the original beside the decoded and JSON copies; from every eighth accepted case two chains of empty blocks with equal IDs (whole seconds; a sub-second representation) are applied until the blocks' second is the median, the decoded next block is validated on and applied to both states under one key, and a probe block carrying exactly the median second is validated on both. Histories (ownership of backing arrays, Purity!Place / Look, design model OwnershipMC): on every third drawn behaviour (thorough: every tenth of twenty times as many) and every fixed one the whole chain - genesis, every accepted block, reverts and what is built on top - is replayed for three holders that obtained every element of every update's diffs differently (Copy(); JSON round trip, elements of a reverted block taken afresh from the RevertUpdate; Copy() of the first holder's already refreshed elements after the third update) and refresh every element they keep, spent / revised / resolved ones included, with each ApplyUpdate / RevertUpdate in turn: one M per UpdateElementProof with the array that backs the cell afterwards, P for every update returned (every proof array reachable from it) and every element taken, L (deep digest) of EVERY update returned so far after every holder's pass, audits of the other holders, and the real accumulator's judgement of every proof each holder keeps (one key per update). evaluations = calls executed and logged (entry point calls + UpdateElementProof calls + validations after update + refreshes, looks and judgements of the histories); distinct_nontrivial = distinct keys <<function, content hash of inputs>> that were called at least twice (the agreement clause was exercised), from different goroutines or different copies. The address probes of copy/decode results are counted in coverage (copy_operations_probed), not in evaluations.")
	c.Assume("the digest (reflection walk over every field, slice up to capacity, pointer and interface; sha256) changes whenever memory reachable from the inputs changes")
	c.Assume("data races are found by the Go race detector while the trace is recorded, not by the model")
	c.Assume("honest v1 supplements (chain harness store)")
	c.Assume("slice memory is compared by address range [ptr, ptr+cap*size) as reported by reflect; memory reached only through unsafe tricks is not seen")

	// 1. design level
	mcCfg := "PurityMC1.cfg"
	if c.Thorough {
		mcCfg = "PurityMC.cfg"
	}
	res := c.MustTLC(vlib.TLCOpts{SpecDirs: []string{"pure"}, Module: "PurityMC", Config: mcCfg, Coverage: true, Workers: 8})
	acts := map[string]int64{}
	for _, m := range reCov.FindAllStringSubmatch(res.Out, -1) {
		n, _ := strconv.ParseInt(m[3], 10, 64)
		if n > acts[m[1]] {
			acts[m[1]] = n
		}
	}
	c.Cov("purity_mc_states", res.Distinct)
	c.Cov("purity_mc_actions", acts)
	for _, a := range []string{"DoBegin", "DoEnd", "DoOther", "DoMutateOwn", "DoMutateElse", "DoAliased", "DoAudit", "DoMutate", "DoMutateDiverge", "DoMutateSpill"} {
		if acts[a] == 0 {
			c.Infra("vacuity: action %s of PurityMC never taken", a)
		}
	}

	// 1b. ownership of backing arrays over histories of updates (Purity!Place / Look)
	ownCfg := "OwnershipMC1.cfg"
	if c.Thorough {
		ownCfg = "OwnershipMC.cfg"
	}
	ores := c.MustTLC(vlib.TLCOpts{SpecDirs: []string{"pure"}, Module: "OwnershipMC", Config: ownCfg, Coverage: true, Workers: 8})
	oacts := map[string]int64{}
	for _, m := range reCov.FindAllStringSubmatch(ores.Out, -1) {
		n, _ := strconv.ParseInt(m[3], 10, 64)
		if n > oacts[m[1]] {
			oacts[m[1]] = n
		}
	}
	c.Cov("ownership_mc_states", ores.Distinct)
	c.Cov("ownership_mc_actions", oacts)
	for _, a := range []string{"DoPublish", "DoPublishOn", "DoTrack", "DoTrackAlias", "DoRefresh", "DoRefreshMove", "DoRefreshAdopt", "DoLook"} {
		if oacts[a] == 0 {
			c.Infra("vacuity: action %s of OwnershipMC never taken", a)
		}
	}
	// without the Place clause the specification accepts a history in which a returned update changes: a refresh that
	// adopts the update's array, then any refresh in place (the shape the history experiment must contain)
	bres, err := c.TLC(vlib.TLCOpts{SpecDirs: []string{"pure"}, Module: "OwnershipMC", Config: "OwnershipBlind.cfg", Workers: 4, NoCount: true})
	if err != nil {
		c.Fatal("OwnershipMC (blind): %v", err)
	}
	adopt, later := strings.Index(bres.Out, `kind |-> "refresh-adopt"`), strings.LastIndex(bres.Out, `kind |-> "refresh"`)
	if bres.Violated != "UpdatesKeepContents" || adopt < 0 || later < adopt {
		c.Infra("OwnershipMC without the Place clause: expected a violation of UpdatesKeepContents by refresh-adopt followed by a refresh in place, got %q: %s", bres.Violated, vlib.Tail(bres.Out, 800))
	}
	c.Cov("ownership_mc_without_place_clause", "UpdatesKeepContents violated by: publish, track, refresh-adopt, refresh (in place)")

	// 2. copy operations on fully populated values
	e := &env{c: c, rec: &recorder{}, cb: newCopyBook(), histEvery: c.Pick(3, 10), t: &totals{byG: map[int]int{}, variants: map[string]int{}, sameKey: map[string]int{},
		panics: map[string]int{}, tags: map[string]int{}, foreign: map[string]int{}, keyRuns: map[string]int{}, differs: map[string]int{}, refs: map[string]int{}, partialByG: map[int]int{}}}
	probeElements(e.cb)

	// 3. the real code under concurrency
	num, depth := c.Pick(50, 1000), 56
	t0 := time.Now()
	for _, shape := range []string{"v1only", "mixed", "v2only"} {
		e.runShape(shape, num, depth)
	}
	c.Cov("go_wall_s", time.Since(t0).Seconds())
	c.Cov("go_goroutine_seconds_cases_probes_updates", []float64{time.Duration(nsCase.Load()).Seconds(), time.Duration(nsProbe.Load()).Seconds(), time.Duration(nsUpdate.Load()).Seconds()})
	reportCopies(c, e.cb)

	// 4. TLC validates the log
	lines := fileByCase(e.rec.events)
	ov := overlap(e.rec.events)
	e.rec.events = nil // the filed copy is what is used from here on
	t1 := time.Now()
	validateTrace(c, lines)
	c.Cov("trace_validation_wall_s", time.Since(t1).Seconds())
	t1 = time.Now()
	selfTest(c, lines)
	c.Cov("selftest_wall_s", time.Since(t1).Seconds())

	// evidence and vacuity
	t := e.t
	c.Traces(int64(t.behaviours))
	keys := map[string]int{}
	open := map[int]string{}
	for _, ev := range lines {
		switch ev.Ev {
		case "B":
			open[ev.ID] = ev.Fn + "/" + ev.Case
		case "E":
			keys[open[ev.ID]]++
		case "M":
			keys[ev.Fn+"/"+ev.Case]++
		}
	}
	nontriv := 0
	for _, n := range keys {
		if n >= 2 {
			nontriv++
		}
	}
	c.Count(int64(t.calls+t.upd.updates+t.upd.validated+t.hist.refreshes+t.hist.looks+t.hist.valid), int64(nontriv))
	c.Cov("fixed_behaviours_accepted", fmt.Sprintf("%d of %d", t.fixedOK, t.fixedRun))
	if t.fixedRun != len(fixedBehaviours()) {
		c.Infra("vacuity: %d of %d fixed behaviours ran", t.fixedRun, len(fixedBehaviours()))
	}
	c.Cov("copies_of_accepted_blocks_without_the_original_content_filed_under_the_original_key", t.differs)
	c.Cov("cases_with_repeated_references_to_one_element", t.refs)
	for _, k := range []string{"revision+revision", "resolution+revision", "proof-index+proof-index"} {
		if t.refs[k] == 0 {
			c.Infra("vacuity: no accepted block whose v2 part references one accumulator element twice as %s went through the multiproof codec", k)
		}
	}
	for _, k := range []string{"v1:formed+revised", "v1:revised+revised", "v1:revised+proved"} {
		if t.refs[k] == 0 {
			c.Infra("vacuity: no accepted v1 block with a contract %s in one block whose revisions hold a payout in memory that the decoders do not fill in", strings.TrimPrefix(k, "v1:"))
		}
	}
	c.Cov("cases_with_v1_signatures_of_partial_coverage", t.partialCases)
	c.Cov("v1_signatures_of_partial_coverage", t.partialSigs)
	c.Cov("cases_with_v1_signatures_of_partial_coverage_by_goroutines", t.partialByG)
	concurrentPartial := 0
	for g, n := range t.partialByG {
		if g >= 2 {
			concurrentPartial += n
		}
	}
	if t.partialCases == 0 || (concurrentPartial == 0 && os.Getenv("C09_WIDTHS") == "") {
		c.Infra("vacuity: blocks with v1 signatures of partial coverage: %d cases, %d of them validated concurrently", t.partialCases, concurrentPartial)
	}
	hashCalls.mu.Lock()
	c.Cov("pooled_hashing_entry_points_called_before_the_concurrent_phase", hashCalls.before)
	c.Cov("pooled_hashing_entry_points_called_during_the_concurrent_phase", hashCalls.during)
	c.Cov("PartialSigHash_of_simulated_blocks_before_and_during", []int{hashCalls.realPartialBefore, hashCalls.realPartialDuring})
	for _, k := range hashEntryPoints {
		if hashCalls.before[k] == 0 || hashCalls.during[k] == 0 {
			c.Infra("vacuity: pooled hashing entry point %s called %d times before and %d times during the concurrent phases", k, hashCalls.before[k], hashCalls.during[k])
		}
	}
	if hashCalls.realPartialBefore == 0 || hashCalls.realPartialDuring == 0 {
		c.Infra("vacuity: PartialSigHash on signatures of simulated blocks: %d before, %d during the concurrent phases", hashCalls.realPartialBefore, hashCalls.realPartialDuring)
	}
	hashCalls.mu.Unlock()
	c.Cov("update_experiments", t.upd.runs)
	c.Cov("update_calls_UpdateElementProof", t.upd.updates)
	c.Cov("update_cells_watched", t.upd.cells)
	c.Cov("update_proofs_grown_by_append", t.upd.grown)
	c.Cov("update_proofs_rewritten_in_place", t.upd.rewritten)
	c.Cov("update_copies", t.upd.variants)
	c.Cov("update_validations_after_update", t.upd.validated)
	c.Cov("update_experiments_multiproof_decoded_copy_with_2_or_more_elements", t.upd.richDecoded)
	c.Cov("update_experiments_DeepCopy_of_storage_proof_with_history_proof", t.upd.storageProofCopied)
	c.Cov("update_reference_copy_not_valid_after_update_information_only", t.upd.staleAfterUpdate)
	c.Cov("update_of_a_Share()d_view_refused_by_the_library_guard_information_only", t.upd.sharedRefused)
	c.Cov("update_of_a_Share()d_view_carried_out_information_only", t.upd.sharedUpdated)
	if t.upd.note != "" {
		c.Cov("update_note", t.upd.note)
	}
	if t.upd.runs == 0 || t.upd.grown == 0 || t.upd.rewritten == 0 {
		c.Infra("vacuity: update experiments %d, proofs grown by append %d, rewritten in place %d", t.upd.runs, t.upd.grown, t.upd.rewritten)
	}
	for _, k := range []string{"independent", "decoded", "plain", "json", "copied", "shared", "source"} {
		if t.upd.variants[k] == 0 {
			c.Infra("vacuity: no update experiment had a %s copy", k)
		}
	}
	if t.upd.richDecoded == 0 {
		c.Infra("vacuity: no update experiment on a multiproof-decoded copy with >= 2 non-ephemeral elements")
	}
	if t.upd.storageProofCopied == 0 {
		c.Infra("vacuity: no update experiment on a DeepCopy of a storage proof transaction with a history proof")
	}
	if t.upd.validated == 0 {
		c.Infra("vacuity: updated element proofs were never validated by the real accumulator")
	}
	c.Cov("timestamp_chains_runs_blocks_probes_probes_accepted_on_the_whole_second_chain", []int{t.tsChains.runs, t.tsChains.blocks, t.tsChains.probes, t.tsChains.probeAccepted})
	if t.tsChains.runs == 0 || (t.tsChains.probeAccepted == 0 && t.tsChains.parted == 0) {
		c.Infra("vacuity: timestamp chains %d, probes carrying exactly the median second accepted on the whole-second chain %d", t.tsChains.runs, t.tsChains.probeAccepted)
	}
	for _, rep := range tsReps {
		if t.variants[rep.name] == 0 || t.sameKey[rep.name] == 0 {
			c.Infra("vacuity: no case ran a copy of its block with the timestamp representation %s", rep.name)
		}
	}
	hs := t.hist
	c.Cov("history_goroutine_seconds", time.Duration(nsHist.Load()).Seconds())
	c.Cov("history_experiments", hs.runs)
	c.Cov("history_experiments_by_shape", hs.byShape)
	c.Cov("history_updates_returned_apply_revert", []int{hs.applies, hs.reverts})
	c.Cov("history_refreshes_UpdateElementProof", hs.refreshes)
	c.Cov("history_refreshes_grown_by_append", hs.grown)
	c.Cov("history_refreshes_rewritten_in_place", hs.rewritten)
	c.Cov("history_elements_taken_from_diffs", hs.tracked)
	c.Cov("history_elements_copied_from_a_refreshed_holder", hs.late)
	c.Cov("history_elements_taken_afresh_on_revert", hs.retaken)
	c.Cov("history_looks_at_returned_updates", hs.looks)
	c.Cov("history_refreshes_of_an_element_the_update_itself_updated", hs.sameLeaf)
	c.Cov("history_such_cells_rewritten_in_place_by_a_later_refresh", hs.rewrittenAfterwards)
	c.Cov("history_holder_proofs_judged_by_the_accumulator", hs.valid)
	c.Cov("history_first_holder_keeps_a_proof_the_accumulator_refuses_information_only", hs.invalid)
	if hs.runs == 0 || hs.reverts == 0 || hs.late == 0 || hs.retaken == 0 || hs.grown == 0 || hs.rewritten == 0 || hs.looks == 0 || hs.valid == 0 {
		c.Infra("vacuity: history experiments %d, reverts %d, elements copied from a refreshed holder %d, taken afresh on revert %d, refreshes grown %d / rewritten %d, looks %d, judged %d",
			hs.runs, hs.reverts, hs.late, hs.retaken, hs.grown, hs.rewritten, hs.looks, hs.valid)
	}
	// the shape OwnershipMC shows to be the damaging one: a refresh by an update that itself updated the element, and a
	// later refresh that rewrites that cell in place - for applied blocks of both eras and for reverts
	for _, cl := range []string{"apply/v1", "apply/v2", "revert/v1", "revert/v2"} {
		a, b := 0, 0
		for k, v := range hs.sameLeaf {
			if strings.HasPrefix(k, cl+"/") {
				a += v
			}
		}
		for k, v := range hs.rewrittenAfterwards {
			if strings.HasPrefix(k, cl+"/") {
				b += v
			}
		}
		if a == 0 || b == 0 {
			c.Infra("vacuity: histories with an element refreshed by the %s update that itself updated it: %d; of these rewritten in place by a later refresh: %d", cl, a, b)
		}
	}
	c.Cov("behaviours", t.behaviours)
	c.Cov("steps", t.steps)
	c.Cov("cases", t.cases)
	c.Cov("cases_skipped_as_third_repeat", t.skipped)
	c.Cov("cases_by_goroutines", t.byG)
	c.Cov("blocks_valid", t.valid)
	c.Cov("blocks_invalid", t.invalid)
	c.Cov("blocks_with_v1_transactions", t.v1)
	c.Cov("blocks_with_v2_transactions", t.v2)
	c.Cov("revert_steps", t.reverts)
	c.Cov("cases_with_RevertBlock_calls", t.revertCalls)
	c.Cov("cases_txnpath_under_block_key", t.sameKeyTxnPath)
	c.Cov("txnpath_calls_under_own_key_block_level_checks_fail", t.blkFail)
	c.Cov("copies_built", t.variants)
	c.Cov("copies_with_the_original_key", t.sameKey)
	c.Cov("panics_by_function", t.panics)
	c.Cov("transaction_tags", t.tags)
	c.Cov("other_properties_mismatches", t.foreign)
	c.Cov("updates_sharing_a_resolution_proof_object_with_the_block_information_only", wideAliases.Load())
	c.Cov("distinct_keys", len(keys))
	c.Cov("trace_lines", len(lines))
	c.Cov("max_concurrent_calls_by_goroutines", ov)
	if t.valid == 0 || t.invalid == 0 {
		c.Infra("vacuity: %d valid and %d invalid blocks", t.valid, t.invalid)
	}
	if t.v1 == 0 || t.v2 == 0 {
		c.Infra("vacuity: %d blocks with v1 and %d with v2 transactions", t.v1, t.v2)
	}
	for _, g := range widths {
		if t.byG[g] == 0 && os.Getenv("C09_WIDTHS") == "" {
			c.Infra("vacuity: no case ran with %d goroutines", g)
		}
	}
	for _, g := range []int{8, 32} {
		if ov[g] < 2 && os.Getenv("C09_WIDTHS") == "" {
			c.Infra("vacuity: calls never overlapped at %d goroutines", g)
		}
	}
	for _, k := range []string{"decoded", "shared", "copied", "json"} {
		if t.sameKey[k] == 0 {
			c.Infra("vacuity: no %s copy had the content key of its original", k)
		}
	}
	if t.revertCalls == 0 || t.reverts == 0 {
		c.Infra("vacuity: RevertBlock cases %d, revert steps %d", t.revertCalls, t.reverts)
	}
	if t.blkFail == 0 {
		c.Infra("vacuity: no per-transaction path call on a block that fails the block-level checks only")
	}
	if t.sameKeyTxnPath == 0 {
		c.Infra("vacuity: the per-transaction path was never logged under the block key")
	}
	if t.panics["apply"] > 0 {
		fmt.Printf("NOTE: ApplyBlock panicked on %d block(s) the Ledger specification accepts: %s\n", t.panics["apply"], t.applyGuardNote)
	}
	c.Finish()
}

// overlap measures, per goroutine count, the largest number of calls of one case that were open at once.
func overlap(events []Event) map[int]int {
	open := map[*caseInfo]int{}
	out := map[int]int{}
	for _, ev := range events {
		if ev.call == nil {
			continue
		}
		cs := ev.call.cs
		switch ev.Ev {
		case "B":
			open[cs]++
			if open[cs] > out[cs.g] {
				out[cs.g] = open[cs]
			}
		case "E":
			open[cs]--
		}
	}
	return out
}

// ---------------------------------------------------------------------------
// copy operations: verdicts

func reportCopies(c *vlib.Ctx, cb *copyBook) {
	cb.mu.Lock()
	defer cb.mu.Unlock()
	var direct, via []string
	keys := make([]string, 0, len(cb.found))
	for k := range cb.found {
		keys = append(keys, k)
	}
	sort.Strings(keys)
	for _, k := range keys {
		f := cb.found[k]
		s := f.Op + ": " + f.Path + " (" + f.How + ")"
		if f.Class != "shares" {
			s = f.Class + ": " + s
		}
		if (f.Class == "shares" && strings.Contains(f.Op, "by contract")) || !f.Direct {
			via = append(via, s)
			continue
		}
		direct = append(direct, s)
		payload := map[string]any{"kind": "copy", "op": f.Op, "path": f.Path, "class": f.Class, "detail": f.Detail}
		if f.ci != nil {
			payload["kind"] = "case"
			payload["key"] = f.key()
			payload["params"], payload["behaviour"], payload["g"], payload["shape"] = f.ci.params, f.ci.beh, f.ci.g, f.ci.shape
		}
		switch f.Class {
		case "overlap":
			c.Violation(f.key(), fmt.Sprintf("in the value returned by %s two slices overlap in memory: %s. Values that were obtained this way do not behave like independently allocated ones under in-place updates (UpdateElementProof)", f.Op, f.Detail), payload)
		case "buffer":
			c.Violation(f.key(), fmt.Sprintf("the value returned by %s keeps a slice (%s) inside the buffer it was decoded from", f.Op, f.Path), payload)
		default:
			c.Violation(f.key(),
				fmt.Sprintf("the value returned by %s shares the backing array of %s with its original (seen by %s): writing through one is visible in the other", f.Op, f.Path, f.How), payload)
		}
	}
	sort.Strings(direct)
	sort.Strings(via)
	c.Cov("copy_operations_probed", cb.probed)
	c.Cov("copy_operations_probed_by_mutation", cb.mutated)
	c.Cov("copy_slice_sharing", direct)
	c.Cov("copy_pointer_sharing_information_only", via)
	c.Cov("probed_values_by_class", cb.rich)
	ops := []string{"V2Transaction.DeepCopy", "V2Block.DecodeFrom", "V2BlockData.DecodeFrom", "V2TransactionsMultiproof.DecodeFrom", "V2Transaction.DecodeFrom",
		"V1Block.DecodeFrom", "V1BlockSupplement.DecodeFrom", "State.DecodeFrom", "Block.UnmarshalJSON", "V1BlockSupplement.UnmarshalJSON", "V2Transaction.UnmarshalJSON"}
	for _, k := range elementKinds {
		ops = append(ops, k+".Copy", k+".Share (shallow by contract)", k+".Move (shallow by contract)")
	}
	for _, op := range ops {
		if cb.probed[op] == 0 && !cb.onlyElements {
			c.Infra("vacuity: %s never probed", op)
		}
	}
	if cb.onlyElements {
		return
	}
	for _, k := range []string{"DeepCopy of a storage proof transaction with a history proof (synthetic)", "DeepCopy of a storage proof transaction with a history proof (simulated chain)",
		"DeepCopy of a renewal transaction (simulated chain)", "DeepCopy of an expiration transaction (simulated chain)",
		"V2Block.DecodeFrom of a value with >= 2 non-ephemeral elements", "V2TransactionsMultiproof.DecodeFrom of a value with >= 2 non-ephemeral elements",
		"V2BlockData.DecodeFrom of a value with >= 2 non-ephemeral elements", "V1BlockSupplement.DecodeFrom of a value with >= 2 non-ephemeral elements",
		"Block.UnmarshalJSON of a value with >= 2 non-ephemeral elements"} {
		if cb.rich[k] == 0 {
			c.Infra("vacuity: never probed: %s", k)
		}
	}
}

// ---------------------------------------------------------------------------
// trace validation

const maxLinesPerRun = 260000

// tlcRejects runs TLC on one file of the trace.
func tlcRejects(c *vlib.Ctx, lines []Event, count bool) ([]reject, error) {
	res, err := c.TLC(vlib.TLCOpts{SpecDirs: []string{"pure"}, Module: "PurityTrace", Config: "PurityTrace.cfg",
		Files: map[string][]byte{"trace.ndjson": traceBytes(lines)}, Workers: 8, Timeout: 20 * time.Minute, Xss: "64m", NoCount: !count})
	if err != nil {
		return nil, err
	}
	if res.Violated != "" {
		return nil, fmt.Errorf("trace spec failed to evaluate: %s", vlib.Tail(res.Out, 1500))
	}
	if want := int64(1 + len(lines)); res.Distinct != want {
		return nil, fmt.Errorf("trace not fully consumed: %d states, expected %d\n%s", res.Distinct, want, vlib.Tail(res.Out, 800))
	}
	var out []reject
	for _, ln := range res.Lines {
		if !strings.HasPrefix(ln, "REJECT ") {
			continue
		}
		f := strings.SplitN(ln, " ", 3)
		n, err := strconv.Atoi(f[1])
		if err != nil || len(f) < 3 || n < 0 || n > len(lines) {
			return nil, fmt.Errorf("bad reject line %q", ln)
		}
		out = append(out, reject{n, f[2]})
	}
	return out, nil
}

func sameRejects(a, b []reject) bool {
	key := func(rs []reject) []string {
		var s []string
		for _, r := range rs {
			s = append(s, fmt.Sprintf("%d %s", r.Line, r.Msg))
		}
		sort.Strings(s)
		return s
	}
	ka, kb := key(a), key(b)
	if len(ka) != len(kb) {
		return false
	}
	for i := range ka {
		if ka[i] != kb[i] {
			return false
		}
	}
	return true
}

func validateTrace(c *vlib.Ctx, lines []Event) {
	if len(lines) == 0 {
		c.Fatal("empty trace")
	}
	files := 0
	for start := 0; start < len(lines); {
		end := start + 1
		lastSeg := -1
		for end < len(lines) && (end-start < maxLinesPerRun || lastSeg < 0) {
			if lines[end].Ev == "seg" {
				lastSeg = end
			}
			end++
		}
		if end < len(lines) {
			if lines[end].Ev != "seg" {
				end = lastSeg
			}
		}
		part := lines[start:end]
		rj, err := tlcRejects(c, part, true)
		if err != nil {
			c.Fatal("trace validation: %v", err)
		}
		if gj := goCheck(part); !sameRejects(rj, gj) {
			c.Fatal("TLC and the harness's transcription of PurityTrace disagree on the log: TLC %v, harness %v", head(rj, 5), head(gj, 5))
		}
		files++
		c.Traces(1)
		judge(c, part, rj)
		start = end
	}
	c.Cov("trace_files", files)
}

func head(r []reject, n int) []reject {
	if len(r) > n {
		return r[:n]
	}
	return r
}

// judge turns the rejected lines of one trace file into verdicts about the code (one per class of failure; the
// first instance of a class is re-executed).
func judge(c *vlib.Ctx, lines []Event, rj []reject) {
	sort.Slice(rj, func(i, j int) bool { return rj[i].Line < rj[j].Line })
	seen := map[string]int{}
	attempts := 0
	for _, r := range rj {
		if !strings.HasPrefix(r.Msg, "V:") {
			c.Infra("trace filed wrongly (line %d): %s", r.Line, r.Msg)
			continue
		}
		info := describe(lines, r)
		key := info.key
		seen[key]++
		if seen[key] > 1 {
			continue
		}
		ci := info.cs
		payload := map[string]any{"kind": "case", "clause": r.Msg, "key": key, "detail": info.what}
		reproduced := false
		tried := false
		if ci != nil && attempts < 10 {
			attempts++
			tried = true
			payload["params"], payload["behaviour"], payload["g"], payload["shape"], payload["hist"] = ci.params, ci.beh, ci.g, ci.shape, ci.hist
			payload["n"] = ci.n
			for try := 0; try < 3 && !reproduced; try++ {
				keys, err := rerun(ci)
				if err != nil {
					c.Infra("cannot re-execute case %d: %v", ci.n, err)
					break
				}
				reproduced = keys[key]
			}
		}
		payload["reproduced_on_reexecution"] = reproduced
		what := info.what
		if tried && !reproduced {
			what += " (seen in the recorded run; three re-executions of the case did not show it again: schedule dependent)"
		}
		c.Violation(key, what, payload)
	}
	if len(seen) > 0 {
		c.Cov("rejected_lines_by_class", seen)
	}
}

type described struct {
	key, what string
	cs        *caseInfo
}

// describe names the class of a rejected line.
func describe(lines []Event, r reject) described {
	ev := lines[r.Line-1]
	clause := strings.TrimPrefix(r.Msg, "V:")
	f := strings.SplitN(clause, " ", 2)
	name := f[0]
	d := described{key: name}
	var info *callInfo
	// the segment, and the calls in it
	s := r.Line - 1
	for s > 0 && lines[s].Ev != "seg" {
		s--
	}
	begin := map[int]Event{}
	for i := s + 1; i < r.Line; i++ {
		if lines[i].Ev == "B" {
			begin[lines[i].ID] = lines[i]
		}
	}
	switch ev.Ev {
	case "B", "E", "M", "P", "L":
		info = ev.call
	case "A":
		if ev.call != nil { // update experiment: the harness says which cell this is and which update preceded
			info = ev.call
			break
		}
		// the last call that ended on this region
		for i := r.Line - 2; i > s; i-- {
			if lines[i].Ev == "E" && begin[lines[i].ID].Mem == ev.Mem {
				info = lines[i].call
				break
			}
		}
	}
	if info != nil {
		d.cs = info.cs
	}
	prevDigest := func(mem string) string {
		for i := r.Line - 2; i > s; i-- {
			switch lines[i].Ev {
			case "A":
				if lines[i].Mem == mem {
					return lines[i].D
				}
			case "B":
				if lines[i].Mem == mem {
					return lines[i].D
				}
			case "E":
				if begin[lines[i].ID].Mem == mem {
					return lines[i].D
				}
			}
		}
		return ""
	}
	// ownership of backing arrays: who shares memory with the cell that was placed
	if name == "refresh-shares-array" || name == "array-shared" {
		reg := map[string]placed{}
		for i := s + 1; i < r.Line-1; i++ {
			if lines[i].Ev == "M" || lines[i].Ev == "P" {
				reg[lines[i].Mem] = placed{lines[i].Who, lines[i].Frozen, lines[i].Regs}
			}
		}
		with := map[string]bool{}
		var names []string
		for _, m := range sharers(reg, ev) {
			o := reg[m]
			names = append(names, m)
			switch {
			case o.frozen && ev.Frozen:
				with["another-update"] = true
			case o.frozen && info != nil && strings.Contains(m, ".") && strings.HasSuffix(info.note, " with "+m[strings.Index(m, ".")+1:]):
				with["the-update-applied"] = true
			case o.frozen && ev.Ev == "M" && !strings.HasPrefix(ev.Op, "history-"):
				with["the-update-applied"] = true
			case o.frozen:
				with["an-earlier-update"] = true
			case o.who == ev.Who:
				with["another-element-of-the-same-holder"] = true
			case ev.Frozen:
				with["a-holder"] = true
			default:
				with["another-holder"] = true
			}
		}
		if len(with) == 0 {
			with["itself"] = true
		}
		var ws []string
		for w := range with {
			ws = append(ws, w)
		}
		sort.Strings(ws)
		// one defect, one key: the class is named by the most telling owner the memory is shared with
		primary := "itself"
		for _, w := range []string{"another-element-of-the-same-holder", "a-holder", "another-holder", "another-update", "an-earlier-update", "the-update-applied"} {
			if with[w] {
				primary = w
			}
		}
		op, kind, note := ev.Op, "?", ""
		if info != nil {
			kind, note = info.kind, info.note
			if op == "" {
				op = info.fn
			}
		}
		if name == "refresh-shares-array" {
			d.key = fmt.Sprintf("refresh-shares-array/%s/%s", op, primary)
			d.what = fmt.Sprintf("after UpdateElementProof (%s) on an element the %s holder keeps (%s), the element's proof lives in memory that is also memory of %s (%s): the refresh handed the caller an array it does not own, so the next in-place refresh of this element rewrites a value that was returned earlier",
				op, kind, note, strings.Join(ws, ", "), strings.Join(names, ", "))
		} else {
			d.key = fmt.Sprintf("array-shared/%s/%s/%s", ev.By, op, primary)
			d.what = fmt.Sprintf("a value that was just returned or copied (%s, %s %s) lives in memory that is also memory of %s (%s)", ev.By, kind, note, strings.Join(ws, ", "), strings.Join(names, ", "))
		}
		return d
	}
	if name == "result-changed-after-return" {
		// the last refresh before this look
		lastOp, lastKind, lastNote := "?", "?", ""
		for i := r.Line - 2; i > s; i-- {
			if lines[i].Ev == "M" && lines[i].call != nil {
				lastOp, lastKind, lastNote = lines[i].Op, lines[i].call.kind, lines[i].call.note
				break
			}
		}
		which := "?"
		if info != nil {
			which = info.note
		}
		d.key = fmt.Sprintf("update-modified-after-return/%s-update/by-%s", which, lastOp)
		d.what = fmt.Sprintf("the update returned by an earlier %s (%s) no longer has the contents it was returned with (deep digest of everything reachable from it, proofs of its diffs and updated leaves included); the last operation before it was looked at again: UpdateElementProof (%s) on an element of the %s holder (%s)", which, ev.Mem, lastOp, lastKind, lastNote)
		return d
	}
	if info != nil && strings.HasPrefix(info.fn, "history-") && (ev.Ev == "A" || ev.Ev == "M") {
		switch name {
		case "input-changed-when-quiet":
			d.key = fmt.Sprintf("refresh-modifies-other-holder/%s", info.fn)
			d.what = fmt.Sprintf("bringing the elements of the %s holder up to date (%s) changed proofs the %s holder keeps: the two share proof memory", info.updKind, info.note, info.kind)
			return d
		case "cell-changed-before-update":
			d.key = fmt.Sprintf("holder-cell-changed-before-refresh/%s", info.fn)
			d.what = fmt.Sprintf("the proof the %s holder keeps of %s is not what its last refresh left: somebody else wrote it", info.kind, info.note)
			return d
		case "update-result-differs":
			other := "?"
			for i := s + 1; i < r.Line-1; i++ {
				if lines[i].Ev == "M" && lines[i].Fn == ev.Fn && lines[i].call != nil {
					other = lines[i].call.kind
					break
				}
			}
			ks := []string{other, info.kind}
			sort.Strings(ks)
			d.key = fmt.Sprintf("refresh-result-differs/%s/%s", info.fn, strings.Join(ks, "-vs-"))
			d.what = fmt.Sprintf("UpdateElementProof (%s) leaves the %s holder with other proof contents than the %s holder, although both held the same contents and the same update was applied", info.note, info.kind, other)
			return d
		}
	}
	if info != nil && strings.HasPrefix(info.fn, "update-") && (ev.Ev == "A" || ev.Ev == "M") {
		switch name {
		case "input-changed-when-quiet", "cell-changed-before-update":
			switch {
			case info.updKind == "":
				d.key = "cell-changed-while-copies-were-built/" + info.kind
				d.what = fmt.Sprintf("an element proof of the %s copy changed while the other copies were being built", info.kind)
			case info.updKind == info.kind:
				d.key = fmt.Sprintf("update-modifies-neighbour/%s/%s", info.fn, info.kind)
				d.what = fmt.Sprintf("UpdateElementProof on element %d (%s) of the %s copy of the block's elements changed the proof memory of element %d of the same copy: the proofs of a value obtained this way are not independent memory, so the state reached depends on how the block was obtained", info.updCell, info.note, info.kind, info.cell)
			default:
				d.key = fmt.Sprintf("update-modifies-other-copy/%s/%s->%s", info.fn, info.updKind, info.kind)
				d.what = fmt.Sprintf("bringing the element proofs of the %s copy up to date (UpdateElementProof) changed element %d of the %s copy: the two share proof memory", info.updKind, info.cell, info.kind)
			}
			return d
		case "update-result-differs":
			other := "?"
			for i := s + 1; i < r.Line-1; i++ {
				if lines[i].Ev == "M" && lines[i].Fn == ev.Fn && lines[i].call != nil {
					other = lines[i].call.kind
					break
				}
			}
			ks := []string{other, info.kind}
			sort.Strings(ks)
			d.key = fmt.Sprintf("update-result-differs/%s/%s", info.fn, strings.Join(ks, "-vs-"))
			d.what = fmt.Sprintf("UpdateElementProof on element %d (%s) leaves the %s copy with other proof contents than the %s copy, although both held the same contents before and the same update was applied: what is reached depends on how the value was obtained", info.cell, info.note, info.kind, other)
			return d
		}
	}
	switch name {
	case "input-modified-during-call", "input-modified-by-concurrent-call":
		b := begin[ev.ID]
		part := changedParts(b.D, ev.D)
		if name == "input-modified-by-concurrent-call" {
			part = changedParts(prevDigest(b.Mem), ev.D)
		}
		d.key = fmt.Sprintf("%s/%s/%s", name, info.fn, part)
		if name == "input-modified-by-concurrent-call" {
			d.key = "input-modified-by-another-call/" + part // the culprit is some other call that reaches the same memory
		}
		d.what = fmt.Sprintf("%s on the %s inputs: the %s passed in differs after the call from what it was before (deep digest %s -> %s), %d goroutine(s)", info.fn, info.kind, part, b.D, ev.D, info.cs.g)
	case "input-changed-between-calls", "input-changed-when-quiet":
		mem := ev.Mem
		part := changedParts(prevDigest(mem), ev.D)
		who := "?"
		kind := "?"
		if info != nil {
			who, kind = info.fn, info.kind
		}
		if ev.Ev == "A" && info == nil {
			who = "building the copies (encoders, DeepCopy/Copy/Share)"
			kind = "orig"
			// the case of an audit before any call: find any call of the segment for the replay payload
			for i := s + 1; i < len(lines) && lines[i].Ev != "seg"; i++ {
				if lines[i].call != nil {
					d.cs = lines[i].call.cs
					break
				}
			}
			d.key = fmt.Sprintf("input-modified-by-copying/%s", part)
		} else {
			d.key = "input-modified-by-another-call/" + part
		}
		d.what = fmt.Sprintf("the %s of the %s inputs changed while no call on it was being logged (last activity: %s)", part, kind, who)
	case "result-differs":
		// who set the memo entry?
		var first *Event
		for i := s + 1; i < r.Line-1; i++ {
			if lines[i].Ev == "E" && begin[lines[i].ID].Fn == begin[ev.ID].Fn {
				first = &lines[i]
				break
			}
		}
		eitherDiffers := info.differs || (first != nil && first.call != nil && first.call.differs)
		if first != nil && first.call != nil && first.call.fn != info.fn && !eitherDiffers {
			d.key = "txnpath-verdict-differs-from-block-verdict"
			d.what = fmt.Sprintf("validating the transactions one at a time gives %q where ValidateBlock gives %q (or vice versa) on equal inputs (%s: %s, %s: %s)", ev.Res, first.Res, first.call.fn, first.Res, info.fn, ev.Res)
		} else {
			other := "?"
			if first != nil && first.call != nil {
				other = first.call.kind
				ks := []string{other, info.kind}
				sort.Strings(ks)
				other = strings.Join(ks, "-vs-")
			}
			d.key = "result-differs/" + info.fn
			otherKind := ""
			if first != nil && first.call != nil {
				otherKind = first.call.kind
			}
			// a block whose timestamp is held in another in-memory representation (same ID, same encoding); when two
			// representations disagree with each other the sub-second one names the class
			cls := ""
			for _, k := range []string{otherKind, info.kind} {
				if strings.HasPrefix(k, "ts") && cls != "subsecond" {
					cls = tsClass(k)
				}
			}
			if cls != "" {
				d.key = "timestamp-representation/" + cls + "/" + info.fn
			}
			fr := ""
			if first != nil {
				fr = first.Res
			}
			d.what = fmt.Sprintf("%s returned %q and %q for inputs with the same content (copies: %s; %d goroutine(s))", info.fn, fr, ev.Res, other, info.cs.g)
			if info.differs || (first != nil && first.call != nil && first.call.differs) {
				// one defect, one key: named by the way of obtaining the block that does not preserve it
				how := info.kind
				if !info.differs {
					how = first.call.kind
				}
				d.key = "obtained-how/" + how
				d.what = fmt.Sprintf("%s returned %q and %q for one block obtained in two ways (copies: %s; %d goroutine(s)): the copy does not carry the content of the block it was obtained from (its full encoding differs), so verdict and state depend on how the block was obtained", info.fn, fr, ev.Res, other, info.cs.g)
			}
		}
	case "result-aliases-input-proof":
		d.key = "result-aliases-input-proof/" + info.fn
		d.what = fmt.Sprintf("the update returned by %s holds Merkle proof slices that live in the memory of the block or supplement passed in", info.fn)
	case "aliasing-guard-fired":
		d.key = "aliasing-guard-fired/" + info.fn
		d.what = fmt.Sprintf("%s of a block the Ledger specification accepts stops in the library's own Share/Move guard: %s", info.fn, info.note)
	default:
		d.what = clause
	}
	return d
}

// rerun rebuilds the parent of a case from its abstract behaviour, runs the case again and returns the keys of the
// verdict clauses that fail.
func rerun(ci *caseInfo) (map[string]bool, error) {
	p, ok := ci.params.(chain.Params)
	if !ok {
		return nil, fmt.Errorf("no parameters")
	}
	steps, ok := ci.beh.([]chain.Step)
	if !ok || len(steps) == 0 {
		return nil, fmt.Errorf("no behaviour")
	}
	if ci.hist {
		rec := &recorder{}
		if err := runHistory(rec, p, steps, ci); err != nil {
			return nil, err
		}
		out := map[string]bool{}
		lines := fileByCase(rec.events)
		for _, r := range goCheck(lines) {
			if strings.HasPrefix(r.Msg, "V:") {
				out[describe(lines, r).key] = true
			}
		}
		return out, nil
	}
	sim := chain.NewSim(p)
	for i, st := range steps[:len(steps)-1] {
		if err := advance(sim, st); err != nil {
			return nil, fmt.Errorf("step %d: %v", i, err)
		}
	}
	last := steps[len(steps)-1]
	in, _, err := build(sim, last)
	if err != nil {
		return nil, err
	}
	rec := &recorder{}
	cs, err := runCase(rec, in, last.Verdict == "accept", ci.g, rand.New(rand.NewSource(int64(ci.n))), ci)
	if err != nil {
		return nil, err
	}
	out := map[string]bool{}
	cb := newCopyBook()
	probeReal(cb, in, ci)
	if last.Verdict == "accept" && cs.verdict == "ok" {
		key, err := contentKey(in)
		if err != nil {
			return nil, err
		}
		if ci.n%8 == 0 {
			if _, err := runTimestampChains(rec, sim, in, key, ci, tsReps[(ci.n/8)%3]); err != nil {
				return nil, err
			}
		}
		if _, err := runUpdates(rec, sim, in, key, ci, cb); err != nil {
			return nil, err
		}
	}
	for k, f := range cb.found {
		if f.Direct && !(f.Class == "shares" && strings.Contains(f.Op, "by contract")) {
			out[k] = true
		}
	}
	lines := fileByCase(rec.events)
	for _, r := range goCheck(lines) {
		if strings.HasPrefix(r.Msg, "V:") {
			out[describe(lines, r).key] = true
		}
	}
	return out, nil
}

// selfTest corrupts one logged field at a time in a copy of one segment and requires the specification to
// reject exactly there (binding demonstration of the expected side).
func selfTest(c *vlib.Ctx, lines []Event) {
	// a segment with two Ends of one key
	for s := 0; s < len(lines); s++ {
		if lines[s].Ev != "seg" {
			continue
		}
		e := s + 1
		for e < len(lines) && lines[e].Ev != "seg" {
			e++
		}
		seg := append([]Event{}, lines[s:e]...)
		fnOf := map[int]string{}
		ends := map[string][]int{}
		for i, ev := range seg {
			if ev.Ev == "B" {
				fnOf[ev.ID] = ev.Fn
			}
			if ev.Ev == "E" {
				ends[fnOf[ev.ID]] = append(ends[fnOf[ev.ID]], i)
			}
		}
		for _, idx := range ends {
			if len(idx) < 2 || len(goCheck(seg)) > 0 {
				continue
			}
			a, b := idx[0], idx[len(idx)-1]
			mut := append([]Event{}, seg...)
			mut[b].Res += "~"         // another result for the same key
			mut[a].D = mut[a].D + "~" // inputs differ after the call
			mut[a].Fresh = false      // result aliases the inputs
			rj, err := tlcRejects(c, mut, false)
			if err != nil {
				c.Fatal("self test: %v", err)
			}
			got := map[string]bool{}
			for _, r := range rj {
				got[fmt.Sprintf("%d %s", r.Line, strings.SplitN(r.Msg, " ", 2)[0])] = true
			}
			for _, w := range []string{fmt.Sprintf("%d V:result-differs", b+1), fmt.Sprintf("%d V:input-modified-during-call", a+1), fmt.Sprintf("%d V:result-aliases-input-proof", a+1)} {
				if !got[w] {
					c.Infra("self test: corrupting the log did not produce %q (got %v)", w, rj)
				}
			}
			if !sameRejects(rj, goCheck(mut)) {
				c.Infra("self test: TLC and the harness's transcription disagree on the corrupted log")
			}
			c.Cov("selftest_corrupted_log_rejected", len(rj))
			selfTestUpdate(c, lines)
			return
		}
	}
	c.Infra("self test: no segment with two ends of one key")
}

// selfTestUpdate corrupts an update segment: the content one copy is left with, and the digest of a neighbouring
// cell in the audit that follows an update; the specification must reject exactly there.
func selfTestUpdate(c *vlib.Ctx, lines []Event) {
	for s := 0; s < len(lines); s++ {
		if lines[s].Ev != "seg" || !strings.Contains(lines[s].Case, "/upd-") {
			continue
		}
		e := s + 1
		for e < len(lines) && lines[e].Ev != "seg" {
			e++
		}
		seg := append([]Event{}, lines[s:e]...)
		if len(goCheck(seg)) > 0 {
			continue
		}
		byFn := map[string][]int{}
		for i, ev := range seg {
			if ev.Ev == "M" {
				byFn[ev.Fn] = append(byFn[ev.Fn], i)
			}
		}
		for _, idx := range byFn {
			if len(idx) < 2 {
				continue
			}
			second := idx[1]
			// an audit of a neighbouring cell right after some update
			aud := -1
			for i := 1; i < len(seg); i++ {
				if seg[i].Ev == "A" && seg[i-1].Ev == "M" && seg[i].Mem != seg[i-1].Mem {
					aud = i
					break
				}
			}
			if aud < 0 {
				break
			}
			mut := append([]Event{}, seg...)
			mut[second].Res += "~" // this copy reaches other contents
			mut[aud].D += "~"      // a neighbouring cell changed under the update
			rj, err := tlcRejects(c, mut, false)
			if err != nil {
				c.Fatal("self test (update): %v", err)
			}
			got := map[string]bool{}
			for _, r := range rj {
				got[fmt.Sprintf("%d %s", r.Line, strings.SplitN(r.Msg, " ", 2)[0])] = true
			}
			for _, w := range []string{fmt.Sprintf("%d V:update-result-differs", second+1), fmt.Sprintf("%d V:input-changed-when-quiet", aud+1)} {
				if !got[w] {
					c.Infra("self test (update): corrupting the log did not produce %q (got %v)", w, rj)
				}
			}
			if !sameRejects(rj, goCheck(mut)) {
				c.Infra("self test (update): TLC and the harness's transcription disagree on the corrupted log")
			}
			c.Cov("selftest_corrupted_update_log_rejected", len(rj))
			selfTestHistory(c, lines)
			return
		}
	}
	c.Infra("self test (update): no update segment with two copies updated under one key")
}

// selfTestHistory corrupts a history segment: the array a refreshed cell lives in (moved onto an array of a returned
// update) and the digest of a returned update when it is looked at again; the specification must reject exactly there.
func selfTestHistory(c *vlib.Ctx, lines []Event) {
	for s := 0; s < len(lines); s++ {
		if lines[s].Ev != "seg" || !strings.HasPrefix(lines[s].Case, "hist/") {
			continue
		}
		e := s + 1
		for e < len(lines) && lines[e].Ev != "seg" {
			e++
		}
		seg := append([]Event{}, lines[s:e]...)
		if len(goCheck(seg)) > 0 {
			continue
		}
		pub, ref, look := -1, -1, -1
		looked := map[string]bool{}
		for i, ev := range seg {
			switch {
			case ev.Ev == "P" && ev.By == "publish" && len(ev.Regs) > 0 && pub < 0:
				pub = i
			case ev.Ev == "M" && len(ev.Regs) > 0 && pub >= 0 && ref < 0:
				ref = i
			case ev.Ev == "L":
				if looked[ev.Mem] && look < 0 && ref >= 0 {
					look = i
				}
				looked[ev.Mem] = true
			}
		}
		if pub < 0 || ref < 0 || look < 0 {
			continue
		}
		mut := append([]Event{}, seg...)
		moved := *seg[ref].own // (the lines share their ownership record with the log: corrupt a copy)
		moved.Regs = [][2]int{seg[pub].Regs[0]}
		mut[ref].own = &moved // the refreshed cell now lives in an array of the update
		mut[look].D += "~"    // the update is not what it was returned as
		rj, err := tlcRejects(c, mut, false)
		if err != nil {
			c.Fatal("self test (history): %v", err)
		}
		got := map[string]bool{}
		for _, r := range rj {
			got[fmt.Sprintf("%d %s", r.Line, strings.SplitN(r.Msg, " ", 2)[0])] = true
		}
		for _, w := range []string{fmt.Sprintf("%d V:refresh-shares-array", ref+1), fmt.Sprintf("%d V:result-changed-after-return", look+1)} {
			if !got[w] {
				c.Infra("self test (history): corrupting the log did not produce %q (got %v)", w, head(rj, 6))
			}
		}
		if !sameRejects(rj, goCheck(mut)) {
			c.Infra("self test (history): TLC and the harness's transcription disagree on the corrupted log")
		}
		c.Cov("selftest_corrupted_history_log_rejected", len(rj))
		return
	}
	c.Infra("self test (history): no history segment with a returned update, a refresh and a second look")
}

// ---------------------------------------------------------------------------
// replay of a saved case

func replay(c *vlib.Ctx) {
	raw, err := os.ReadFile(c.Replay)
	if err != nil {
		c.Fatal("replay: %v", err)
	}
	var f struct {
		Key  string `json:"key"`
		Case struct {
			Kind      string       `json:"kind"`
			Params    chain.Params `json:"params"`
			Behaviour []chain.Step `json:"behaviour"`
			G         int          `json:"g"`
			Hist      bool         `json:"hist"`
			N         int          `json:"n"`
			Op, Path  string
		} `json:"case"`
	}
	if err := json.Unmarshal(raw, &f); err != nil {
		c.Fatal("replay: %v", err)
	}
	switch f.Case.Kind {
	case "copy":
		cb := newCopyBook()
		cb.onlyElements = true
		probeElements(cb)
		reportCopies(c, cb)
	case "case":
		ci := &caseInfo{n: max(1, f.Case.N), g: f.Case.G, params: f.Case.Params, beh: f.Case.Behaviour, hist: f.Case.Hist}
		for try := 0; try < 5; try++ {
			keys, err := rerun(ci)
			if err != nil {
				c.Fatal("replay: %v", err)
			}
			if keys[f.Key] {
				c.Violation(f.Key, "reproduced from the replay file", f.Case)
				break
			}
		}
	default:
		c.Fatal("replay: unknown kind of case %q", f.Case.Kind)
	}
	c.Count(1, 1)
	c.Finish()
}
