package main

// Reflection-based observation of memory: deep digests (everything reachable from a value, unexported
// fields, spare slice capacity and Merkle proofs included), slice-region inventories (for aliasing
// analysis) and leaf mutation (for the copy-operation probes).  Nothing here calls into core.

import (
	"crypto/sha256"
	"encoding/binary"
	"encoding/hex"
	"fmt"
	"hash"
	"reflect"
	"sort"
	"sync"
	"time"
	"unsafe"
)

var timeType = reflect.TypeOf(time.Time{})

type visitKey struct {
	p unsafe.Pointer
	t reflect.Type
}

type walker struct {
	h    hash.Hash
	seen map[visitKey]bool
	buf  [9]byte
}

func (w *walker) u64(tag byte, x uint64) {
	w.buf[0] = tag
	binary.LittleEndian.PutUint64(w.buf[1:], x)
	w.h.Write(w.buf[:])
}

// bytesOf returns the bytes of an addressable byte array or a byte slice without copying.
func bytesOf(v reflect.Value) ([]byte, bool) {
	switch v.Kind() {
	case reflect.Array:
		if v.Type().Elem().Kind() == reflect.Uint8 && v.CanAddr() {
			n := v.Len()
			if n == 0 {
				return nil, true
			}
			return unsafe.Slice((*byte)(v.Addr().UnsafePointer()), n), true
		}
	case reflect.Slice:
		if v.Type().Elem().Kind() == reflect.Uint8 {
			n := v.Len()
			if n == 0 {
				return nil, true
			}
			return unsafe.Slice((*byte)(v.UnsafePointer()), n), true
		}
	}
	return nil, false
}

func (w *walker) walk(v reflect.Value) {
	switch v.Kind() {
	case reflect.Bool:
		if v.Bool() {
			w.u64('b', 1)
		} else {
			w.u64('b', 0)
		}
	case reflect.Int, reflect.Int8, reflect.Int16, reflect.Int32, reflect.Int64:
		w.u64('i', uint64(v.Int()))
	case reflect.Uint, reflect.Uint8, reflect.Uint16, reflect.Uint32, reflect.Uint64, reflect.Uintptr:
		w.u64('u', v.Uint())
	case reflect.Float32, reflect.Float64:
		w.u64('f', uint64(int64(v.Float()*1e6)))
	case reflect.String:
		w.u64('s', uint64(v.Len()))
		w.h.Write([]byte(v.String()))
	case reflect.Array:
		if b, ok := bytesOf(v); ok {
			w.u64('A', uint64(len(b)))
			w.h.Write(b)
			return
		}
		w.u64('a', uint64(v.Len()))
		for i := 0; i < v.Len(); i++ {
			w.walk(v.Index(i))
		}
	case reflect.Slice:
		if v.IsNil() {
			w.u64('n', 0)
			return
		}
		w.u64('l', uint64(v.Len()))
		// spare capacity belongs to the memory that was handed over: an append by the callee would write there
		full := v
		if v.Cap() > v.Len() {
			full = v.Slice(0, v.Cap())
			w.u64('c', uint64(v.Cap()))
		}
		if b, ok := bytesOf(full); ok {
			w.h.Write(b)
			return
		}
		for i := 0; i < full.Len(); i++ {
			w.walk(full.Index(i))
		}
	case reflect.Ptr:
		if v.IsNil() {
			w.u64('n', 1)
			return
		}
		k := visitKey{v.UnsafePointer(), v.Type()}
		if w.seen[k] {
			w.u64('r', 0)
			return
		}
		w.seen[k] = true
		w.u64('p', 0)
		w.walk(v.Elem())
	case reflect.Interface:
		if v.IsNil() {
			w.u64('n', 2)
			return
		}
		e := v.Elem()
		w.u64('I', uint64(len(e.Type().String())))
		w.h.Write([]byte(e.Type().String()))
		w.walk(e)
	case reflect.Struct:
		if v.Type() == timeType {
			// wall, ext, loc: the location's lookup caches are mutated lazily by package time; only its presence counts
			w.u64('t', v.Field(0).Uint())
			w.u64('t', uint64(v.Field(1).Int()))
			if v.Field(2).IsNil() {
				w.u64('t', 0)
			} else {
				w.u64('t', 1)
			}
			return
		}
		w.u64('S', uint64(v.NumField()))
		for i := 0; i < v.NumField(); i++ {
			w.walk(v.Field(i))
		}
	case reflect.Map:
		if v.IsNil() {
			w.u64('n', 3)
			return
		}
		type kv struct{ k, v string }
		var ents []kv
		it := v.MapRange()
		for it.Next() {
			ents = append(ents, kv{digestValue(it.Key()), digestValue(it.Value())})
		}
		sort.Slice(ents, func(i, j int) bool { return ents[i].k < ents[j].k })
		w.u64('m', uint64(len(ents)))
		for _, e := range ents {
			w.h.Write([]byte(e.k))
			w.h.Write([]byte(e.v))
		}
	case reflect.Func, reflect.Chan, reflect.UnsafePointer:
		if v.IsNil() {
			w.u64('n', 4)
		} else {
			w.u64('x', 1)
		}
	default:
		w.u64('?', uint64(v.Kind()))
	}
}

func digestValue(v reflect.Value) string {
	w := &walker{h: sha256.New(), seen: map[visitKey]bool{}}
	w.walk(v)
	return hex.EncodeToString(w.h.Sum(nil)[:10])
}

// deep is the digest of everything reachable from *ptr.
func deep(ptr any) string {
	return digestValue(reflect.ValueOf(ptr).Elem())
}

// ---------------------------------------------------------------------------
// slice regions

// A region is the backing memory of one slice up to its CAPACITY (an append through the slice writes there), with the
// path under which it was reached.
type region struct {
	lo, hi uintptr
	path   string
	viaPtr bool // reached through memory that two values share by construction: a pointee both hold a pointer to, or the
	// immutable box of an interface value (a struct copy shares these; nothing in the library writes through them)
	box     bool // ... the box of an interface value in particular
	elem    reflect.Type
	ptrLike bool    // not a slice: the pointee of a pointer-typed field
	n, c    int     // length and capacity (slices)
	hdr     uintptr // address of the slice header, when it has one (the same slice reached on two paths is one slice)
}

type regionWalker struct {
	out    []region
	seen   map[visitKey]bool
	only   func(reflect.Type) bool // nil: every slice
	ptrs   bool                    // also record pointees
	shared map[uintptr]bool        // pointees that the value compared with holds too (nil: none)
}

func (rw *regionWalker) walk(v reflect.Value, path string, via, box bool) {
	switch v.Kind() {
	case reflect.Slice:
		if v.IsNil() || v.Cap() == 0 {
			return
		}
		et := v.Type().Elem()
		if rw.only == nil || rw.only(et) {
			lo := uintptr(v.UnsafePointer())
			var hdr uintptr
			if v.CanAddr() {
				hdr = v.Addr().Pointer()
			}
			if sz := et.Size(); sz > 0 {
				rw.out = append(rw.out, region{lo: lo, hi: lo + uintptr(v.Cap())*sz, path: path, viaPtr: via, box: box, elem: et, n: v.Len(), c: v.Cap(), hdr: hdr})
			}
		}
		if hasIndirection(et) {
			for i := 0; i < v.Len(); i++ {
				rw.walk(v.Index(i), fmt.Sprintf("%s[%d]", path, i), via, box)
			}
		}
	case reflect.Array:
		if hasIndirection(v.Type().Elem()) {
			for i := 0; i < v.Len(); i++ {
				rw.walk(v.Index(i), fmt.Sprintf("%s[%d]", path, i), via, box)
			}
		}
	case reflect.Ptr:
		if v.IsNil() {
			return
		}
		k := visitKey{v.UnsafePointer(), v.Type()}
		if rw.seen[k] {
			return
		}
		rw.seen[k] = true
		lo := uintptr(v.UnsafePointer())
		if rw.ptrs {
			if sz := v.Type().Elem().Size(); sz > 0 {
				rw.out = append(rw.out, region{lo: lo, hi: lo + sz, path: path, viaPtr: via, box: box, elem: v.Type().Elem(), ptrLike: true})
			}
		}
		// what lies behind a pointee that both values point to is shared by construction; behind a pointee of its own a
		// value is expected to own its memory (DeepCopy gives a storage proof resolution a struct of its own)
		rw.walk(v.Elem(), path+"->", via || rw.shared[lo], box)
	case reflect.Interface:
		if v.IsNil() {
			return
		}
		e := v.Elem()
		if e.Kind() == reflect.Ptr {
			rw.walk(e, path+".("+e.Type().String()+")", via, box)
		} else {
			rw.walk(e, path+".("+e.Type().String()+")", true, true)
		}
	case reflect.Struct:
		if v.Type() == timeType {
			return
		}
		for i := 0; i < v.NumField(); i++ {
			if hasIndirection(v.Type().Field(i).Type) {
				rw.walk(v.Field(i), path+"."+v.Type().Field(i).Name, via, box)
			}
		}
	case reflect.Map:
		if v.IsNil() {
			return
		}
		it := v.MapRange()
		for it.Next() {
			rw.walk(it.Value(), path+"[k]", true, box)
		}
	}
}

var (
	indirMu    sync.Mutex
	indirCache = map[reflect.Type]bool{}
)

// hasIndirection reports whether values of t can reach memory outside themselves.
func hasIndirection(t reflect.Type) bool {
	indirMu.Lock()
	r, ok := indirCache[t]
	indirMu.Unlock()
	if ok {
		return r
	}
	r = hasIndirection0(t, map[reflect.Type]bool{})
	indirMu.Lock()
	indirCache[t] = r
	indirMu.Unlock()
	return r
}

func hasIndirection0(t reflect.Type, busy map[reflect.Type]bool) bool {
	if busy[t] {
		return false
	}
	busy[t] = true
	switch t.Kind() {
	case reflect.Slice, reflect.Ptr, reflect.Interface, reflect.Map, reflect.Chan, reflect.Func, reflect.UnsafePointer:
		return true
	case reflect.Array:
		return hasIndirection0(t.Elem(), busy)
	case reflect.Struct:
		if t == timeType {
			return false
		}
		for i := 0; i < t.NumField(); i++ {
			if hasIndirection0(t.Field(i).Type, busy) {
				return true
			}
		}
	}
	return false
}

// regions lists the slice backing arrays reachable from *ptr (only slices whose element type satisfies only).
func regions(ptr any, only func(reflect.Type) bool, ptrs bool) []region {
	return regionsShared(ptr, only, ptrs, nil)
}

func regionsShared(ptr any, only func(reflect.Type) bool, ptrs bool, shared map[uintptr]bool) []region {
	rw := &regionWalker{seen: map[visitKey]bool{}, only: only, ptrs: ptrs, shared: shared}
	rw.walk(reflect.ValueOf(ptr).Elem(), "", false, false)
	return rw.out
}

// sharedPointees lists the pointees that both *a and *b hold a pointer to.
func sharedPointees(a, b any) map[uintptr]bool {
	in := map[uintptr]bool{}
	for _, r := range regions(a, func(reflect.Type) bool { return false }, true) {
		in[r.lo] = true
	}
	out := map[uintptr]bool{}
	for _, r := range regions(b, func(reflect.Type) bool { return false }, true) {
		if in[r.lo] {
			out[r.lo] = true
		}
	}
	return out
}

// selfOverlaps returns the pairs of DISTINCT slices among rs whose memory up to capacity overlaps: an append (or a
// write) through one is visible through the other.
func selfOverlaps(rs []region) [][2]region {
	var ss []region
	for _, r := range rs {
		if !r.ptrLike {
			ss = append(ss, r)
		}
	}
	sort.SliceStable(ss, func(i, j int) bool { return ss[i].lo < ss[j].lo })
	var out [][2]region
	for i := range ss {
		for j := i + 1; j < len(ss) && ss[j].lo < ss[i].hi; j++ {
			if ss[i].hdr != 0 && ss[i].hdr == ss[j].hdr {
				continue
			}
			out = append(out, [2]region{ss[i], ss[j]})
		}
	}
	return out
}

// overlaps returns the pairs (a in as, b in bs) that share memory.
func overlaps(as, bs []region) [][2]region {
	var out [][2]region
	for _, a := range as {
		for _, b := range bs {
			if a.lo < b.hi && b.lo < a.hi {
				out = append(out, [2]region{a, b})
			}
		}
	}
	return out
}

// ---------------------------------------------------------------------------
// mutation of every settable leaf reachable from a value

// mutateLeaves flips, one at a time, every scalar reachable from *ptr through exported fields (bytes of byte
// slices and arrays are sampled at both ends and the middle); after each flip it calls probe(path, viaPtr); the flip
// is undone afterwards so that shared memory is left as it was.
func mutateLeaves(ptr any, shared map[uintptr]bool, probe func(path string, viaPtr bool)) int {
	n := 0
	seen := map[visitKey]bool{}
	var walk func(v reflect.Value, path string, via bool)
	flipByte := func(b []byte, i int, path string, via bool) {
		b[i] ^= 0x5a
		n++
		probe(fmt.Sprintf("%s[%d]", path, i), via)
		b[i] ^= 0x5a
	}
	walk = func(v reflect.Value, path string, via bool) {
		switch v.Kind() {
		case reflect.Bool:
			if v.CanSet() {
				v.SetBool(!v.Bool())
				n++
				probe(path, via)
				v.SetBool(!v.Bool())
			}
		case reflect.Int, reflect.Int8, reflect.Int16, reflect.Int32, reflect.Int64:
			if v.CanSet() {
				v.SetInt(v.Int() ^ 1)
				n++
				probe(path, via)
				v.SetInt(v.Int() ^ 1)
			}
		case reflect.Uint, reflect.Uint8, reflect.Uint16, reflect.Uint32, reflect.Uint64:
			if v.CanSet() {
				v.SetUint(v.Uint() ^ 1)
				n++
				probe(path, via)
				v.SetUint(v.Uint() ^ 1)
			}
		case reflect.String:
			if v.CanSet() {
				old := v.String()
				v.SetString(old + "~")
				n++
				probe(path, via)
				v.SetString(old)
			}
		case reflect.Array, reflect.Slice:
			if v.Kind() == reflect.Slice && v.IsNil() {
				return
			}
			if b, ok := bytesOf(v); ok && (v.Kind() == reflect.Slice || v.CanSet()) {
				if len(b) > 0 {
					flipByte(b, 0, path, via)
					if len(b) > 2 {
						flipByte(b, len(b)/2, path, via)
					}
					if len(b) > 1 {
						flipByte(b, len(b)-1, path, via)
					}
				}
				return
			}
			for i := 0; i < v.Len(); i++ {
				walk(v.Index(i), fmt.Sprintf("%s[%d]", path, i), via)
			}
		case reflect.Ptr:
			if v.IsNil() {
				return
			}
			k := visitKey{v.UnsafePointer(), v.Type()}
			if seen[k] {
				return
			}
			seen[k] = true
			walk(v.Elem(), path+"->", via || shared[uintptr(v.UnsafePointer())])
		case reflect.Interface:
			if v.IsNil() {
				return
			}
			// the dynamic value of an interface is not addressable; reach what it points to
			e := v.Elem()
			if e.Kind() == reflect.Ptr {
				walk(e, path+".("+e.Type().String()+")", via)
			} else {
				walkRO(e, path+".("+e.Type().String()+")", walk)
			}
		case reflect.Struct:
			if v.Type() == timeType {
				return
			}
			for i := 0; i < v.NumField(); i++ {
				f := v.Type().Field(i)
				if f.IsExported() {
					walk(v.Field(i), path+"."+f.Name, via)
				}
			}
		}
	}
	walk(reflect.ValueOf(ptr).Elem(), "", false)
	return n
}

// walkRO descends through a non-addressable value (held in an interface) to the slices and pointers in it,
// whose targets are mutable although the value itself is not.
func walkRO(v reflect.Value, path string, walk func(reflect.Value, string, bool)) {
	switch v.Kind() {
	case reflect.Slice, reflect.Ptr:
		walk(v, path, true)
	case reflect.Interface:
		if !v.IsNil() {
			walkRO(v.Elem(), path+".("+v.Elem().Type().String()+")", walk)
		}
	case reflect.Struct:
		if v.Type() == timeType {
			return
		}
		for i := 0; i < v.NumField(); i++ {
			f := v.Type().Field(i)
			if f.IsExported() {
				walkRO(v.Field(i), path+"."+f.Name, walk)
			}
		}
	case reflect.Array:
		for i := 0; i < v.Len(); i++ {
			walkRO(v.Index(i), fmt.Sprintf("%s[%d]", path, i), walk)
		}
	}
}
